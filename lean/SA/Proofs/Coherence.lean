/-
Coherence of the three interpolation methods and monotonicity in the target, in the
normalised problem (`_invert_increasing_function` on a sorted list).
-/
import SA.Proofs.Invert

namespace SA

theorem clampIdx_lt (i : ℤ) (n : ℕ) (hn : n ≠ 0) : clampIdx i n < n := by
  unfold clampIdx; omega

theorem clampIdx_mono (i j : ℤ) (n : ℕ) (h : i ≤ j) : clampIdx i n ≤ clampIdx j n := by
  unfold clampIdx; omega

theorem getD_mem (s : List ℚ) (i : ℕ) (hi : i < s.length) : s.getD i 0 ∈ s := by
  rw [getD_eq s i hi]; exact List.getElem_mem hi

theorem getD_mono (s : List ℚ) (hs : s.Pairwise (· ≤ ·)) (i j : ℕ) (hij : i ≤ j) (hj : j < s.length) :
    s.getD i 0 ≤ s.getD j 0 := by
  rw [getD_eq s i (by omega), getD_eq s j hj]
  rcases Nat.lt_or_ge i j with h | h
  · exact List.pairwise_iff_getElem.mp hs i j (by omega) hj h
  · have : i = j := by omega
    subst this; exact le_refl _

/-- the three branches before the special cases -/
def rawThr (s : List ℚ) (x : ℚ) : Method → ℚ
  | .linear => interp s x
  | .lower => s.getD (clampIdx x.floor s.length) 0
  | .higher => s.getD (clampIdx (ceilQ x) s.length) 0

theorem invertIncreasing_eq (u : Ulp) (s : List ℚ) (r : ℚ) (lc : Bool) (m : Method) :
    invertIncreasing u s r lc m =
      if 1 ≤ r then u.up (s.getD (s.length - 1) 0)
      else if (if lc then r else r - 1 / (s.length : ℚ)) ≤ 0 then u.down (s.getD 0 0)
      else rawThr s (indexTarget s r lc) m := by
  unfold invertIncreasing indexTarget rawThr interp
  by_cases h1 : 1 ≤ r
  · simp only [h1, decide_true, if_true]
  · simp only [h1, decide_false, Bool.false_eq_true, if_false]
    split
    · rfl
    · cases m <;> rfl

theorem floor_le_ceilQ (x : ℚ) : x.floor ≤ ceilQ x := by
  rw [ceilQ_eq]; exact Int.floor_le_ceil x

theorem la_range (x : ℚ) : 0 ≤ ((ceilQ x : ℤ) : ℚ) - x ∧ ((ceilQ x : ℤ) : ℚ) - x < 1 := by
  rw [ceilQ_eq]
  constructor
  · have := Int.le_ceil x; linarith
  · have := Int.ceil_lt_add_one x; linarith

/-- in the normalised problem: lower ≤ linear ≤ higher -/
theorem raw_order (s : List ℚ) (hs : s.Pairwise (· ≤ ·)) (hne : s.length ≠ 0) (x : ℚ) :
    rawThr s x .lower ≤ rawThr s x .linear ∧ rawThr s x .linear ≤ rawThr s x .higher := by
  unfold rawThr interp
  have hmono := getD_mono s hs _ _ (clampIdx_mono _ _ s.length (floor_le_ceilQ x))
    (clampIdx_lt (ceilQ x) s.length hne)
  obtain ⟨h0, h1⟩ := la_range x
  constructor <;> nlinarith

theorem raw_mem (s : List ℚ) (hne : s.length ≠ 0) (x : ℚ) :
    rawThr s x .lower ∈ s ∧ rawThr s x .higher ∈ s := by
  unfold rawThr
  exact ⟨getD_mem s _ (clampIdx_lt _ _ hne), getD_mem s _ (clampIdx_lt _ _ hne)⟩

theorem raw_bounds (s : List ℚ) (hs : s.Pairwise (· ≤ ·)) (hne : s.length ≠ 0) (x : ℚ) (m : Method) :
    s.getD 0 0 ≤ rawThr s x m ∧ rawThr s x m ≤ s.getD (s.length - 1) 0 := by
  obtain ⟨ml, mh⟩ := raw_mem s hne x
  obtain ⟨o1, o2⟩ := raw_order s hs hne x
  have b1 := head_le_of_sorted s hs _ ml
  have b2 := le_last_of_sorted s hs _ mh
  have b3 := head_le_of_sorted s hs _ mh
  have b4 := le_last_of_sorted s hs _ ml
  cases m
  · exact ⟨le_trans b1 o1, le_trans o2 b2⟩
  · exact ⟨b1, b4⟩
  · exact ⟨b3, b2⟩

/-- **lower ≤ linear ≤ higher** for `_invert_increasing_function`, all targets. -/
theorem invert_order (u : Ulp) (s : List ℚ) (hs : s.Pairwise (· ≤ ·)) (hne : s.length ≠ 0)
    (r : ℚ) (lc : Bool) :
    invertIncreasing u s r lc .lower ≤ invertIncreasing u s r lc .linear ∧
    invertIncreasing u s r lc .linear ≤ invertIncreasing u s r lc .higher := by
  simp only [invertIncreasing_eq]
  by_cases a : 1 ≤ r
  · simp only [a, if_true]; exact ⟨le_refl _, le_refl _⟩
  · by_cases b : (if lc then r else r - 1 / (s.length : ℚ)) ≤ 0
    · simp only [a, b, if_true, if_false]; exact ⟨le_refl _, le_refl _⟩
    · simp only [a, b, if_false]; exact raw_order s hs hne _

/-- `lower` / `higher` return a sample or a sentinel -/
theorem invert_member (u : Ulp) (s : List ℚ) (hne : s.length ≠ 0) (r : ℚ) (lc : Bool)
    (m : Method) (hm : m ≠ .linear) :
    invertIncreasing u s r lc m ∈ s ∨ invertIncreasing u s r lc m = u.down (s.getD 0 0) ∨
      invertIncreasing u s r lc m = u.up (s.getD (s.length - 1) 0) := by
  simp only [invertIncreasing_eq]
  by_cases a : 1 ≤ r
  · simp only [a, if_true]; exact Or.inr (Or.inr trivial)
  · by_cases b : (if lc then r else r - 1 / (s.length : ℚ)) ≤ 0
    · simp only [a, b, if_true, if_false]; exact Or.inr (Or.inl trivial)
    · simp only [a, b, if_false]
      left
      cases m
      · exact absurd rfl hm
      · exact (raw_mem s hne _).1
      · exact (raw_mem s hne _).2

/-- `linear` is the convex combination of `lower` and `higher` with weight `⌈x⌉ - x`,
for interior targets. -/
theorem invert_convex (u : Ulp) (s : List ℚ) (r : ℚ) (lc : Bool)
    (h1 : ¬ 1 ≤ r) (h0 : ¬ (if lc then r else r - 1 / (s.length : ℚ)) ≤ 0) :
    invertIncreasing u s r lc .linear =
      (((ceilQ (indexTarget s r lc) : ℤ) : ℚ) - indexTarget s r lc) * invertIncreasing u s r lc .lower +
      (1 - (((ceilQ (indexTarget s r lc) : ℤ) : ℚ) - indexTarget s r lc)) *
        invertIncreasing u s r lc .higher := by
  simp only [invertIncreasing_eq, h1, h0, if_false]
  rfl

/-! ### monotonicity in the target -/

theorem raw_mono (s : List ℚ) (hs : s.Pairwise (· ≤ ·)) (hne : s.length ≠ 0) (m : Method)
    (x y : ℚ) (hx0 : 0 ≤ x) (hxy : x ≤ y) : rawThr s x m ≤ rawThr s y m := by
  have hfl : x.floor ≤ y.floor := Int.floor_le_floor hxy
  have hce : ceilQ x ≤ ceilQ y := by rw [ceilQ_eq, ceilQ_eq]; exact Int.ceil_le_ceil hxy
  cases m
  · -- linear
    rcases lt_or_eq_of_le hfl with hlt | heq
    · -- different cells: interp x ≤ s[⌈x⌉] ≤ s[⌊y⌋] ≤ interp y
      have h1 := (raw_order s hs hne x).2
      have h2 := (raw_order s hs hne y).1
      have hcf : ceilQ x ≤ y.floor := by
        rw [ceilQ_eq]
        have : ⌈x⌉ ≤ ⌊x⌋ + 1 := Int.ceil_le_floor_add_one x
        have h3 : x.floor = ⌊x⌋ := rfl
        have h4 : y.floor = ⌊y⌋ := rfl
        omega
      have h3 := getD_mono s hs _ _ (clampIdx_mono _ _ s.length hcf) (clampIdx_lt y.floor s.length hne)
      unfold rawThr at *
      linarith
    · -- same floor
      by_cases hxi : ((x.floor : ℤ) : ℚ) = x
      · -- x on the grid: interp x = s[⌊x⌋] = lower y ≤ interp y
        have hcx : ceilQ x = x.floor := by
          rw [ceilQ_eq]; have : (⌊x⌋ : ℚ) = x := hxi
          rw [← this]; simp
        have hix : rawThr s x .linear = s.getD (clampIdx x.floor s.length) 0 := by
          unfold rawThr interp; rw [hcx, hxi]; ring
        rw [hix, heq]
        exact (raw_order s hs hne y).1
      · -- both strictly inside the same cell
        have hxlt : ((x.floor : ℤ) : ℚ) < x := lt_of_le_of_ne (Int.floor_le x) hxi
        have hylt : ((y.floor : ℤ) : ℚ) < y := by rw [← heq]; linarith
        have hcx : ceilQ x = x.floor + 1 := by
          rw [ceilQ_eq, Int.ceil_eq_iff]; constructor
          · push_cast; have : ((⌊x⌋ : ℤ) : ℚ) < x := hxlt; linarith
          · push_cast; have := Int.lt_floor_add_one x; have h3 : x.floor = ⌊x⌋ := rfl; rw [h3]; linarith
        have hcy : ceilQ y = y.floor + 1 := by
          rw [ceilQ_eq, Int.ceil_eq_iff]; constructor
          · push_cast; have : ((⌊y⌋ : ℤ) : ℚ) < y := hylt; linarith
          · push_cast; have := Int.lt_floor_add_one y; have h3 : y.floor = ⌊y⌋ := rfl; rw [h3]; linarith
        unfold rawThr interp
        rw [hcx, hcy, ← heq]
        have hm := getD_mono s hs _ _ (clampIdx_mono _ _ s.length (by omega : x.floor ≤ x.floor + 1))
          (clampIdx_lt (x.floor + 1) s.length hne)
        push_cast
        nlinarith
  · exact getD_mono s hs _ _ (clampIdx_mono _ _ s.length hfl) (clampIdx_lt _ _ hne)
  · exact getD_mono s hs _ _ (clampIdx_mono _ _ s.length hce) (clampIdx_lt _ _ hne)

/-- **Monotone in the target** (normalised problem, every method). -/
theorem invert_mono (u : Ulp) (hu : u.Lawful) (s : List ℚ) (hs : s.Pairwise (· ≤ ·))
    (hne : s.length ≠ 0) (lc : Bool) (m : Method) (r1 r2 : ℚ) (h : r1 ≤ r2) :
    invertIncreasing u s r1 lc m ≤ invertIncreasing u s r2 lc m := by
  have hN : (0 : ℚ) < (s.length : ℚ) := by exact_mod_cast Nat.pos_of_ne_zero hne
  simp only [invertIncreasing_eq]
  have hup : ∀ x m, rawThr s x m ≤ u.up (s.getD (s.length - 1) 0) := fun x m =>
    le_trans (raw_bounds s hs hne x m).2 (le_of_lt (hu.lt_up _))
  have hdn : ∀ x m, u.down (s.getD 0 0) ≤ rawThr s x m := fun x m =>
    le_trans (le_of_lt (hu.down_lt _)) (raw_bounds s hs hne x m).1
  have hdu : u.down (s.getD 0 0) ≤ u.up (s.getD (s.length - 1) 0) := by
    have := getD_mono s hs 0 (s.length - 1) (by omega) (by omega)
    have := hu.down_lt (s.getD 0 0)
    have := hu.lt_up (s.getD (s.length - 1) 0)
    linarith
  have hsh : (if lc then r1 else r1 - 1 / (s.length : ℚ)) ≤ (if lc then r2 else r2 - 1 / (s.length : ℚ)) := by
    cases lc <;> simp only [Bool.false_eq_true, if_false, if_true] <;> linarith
  by_cases a2 : 1 ≤ r2
  · simp only [a2, if_true]
    by_cases a1 : 1 ≤ r1
    · simp only [a1, if_true]; exact le_refl _
    · by_cases b1 : (if lc then r1 else r1 - 1 / (s.length : ℚ)) ≤ 0
      · simp only [a1, b1, if_true, if_false]; exact hdu
      · simp only [a1, b1, if_false]; exact hup _ _
  · have a1 : ¬ 1 ≤ r1 := by intro h'; exact a2 (le_trans h' h)
    simp only [a1, a2, if_false]
    by_cases b1 : (if lc then r1 else r1 - 1 / (s.length : ℚ)) ≤ 0
    · simp only [b1, if_true]
      by_cases b2 : (if lc then r2 else r2 - 1 / (s.length : ℚ)) ≤ 0
      · simp only [b2, if_true]; exact le_refl _
      · simp only [b2, if_false]; exact hdn _ _
    · have b2 : ¬ (if lc then r2 else r2 - 1 / (s.length : ℚ)) ≤ 0 := by
        intro h'; exact b1 (le_trans hsh h')
      simp only [b1, b2, if_false]
      apply raw_mono s hs hne m
      · unfold indexTarget; rw [not_le] at b1; exact le_of_lt (mul_pos b1 hN)
      · unfold indexTarget; exact mul_le_mul_of_nonneg_right hsh (le_of_lt hN)

end SA
