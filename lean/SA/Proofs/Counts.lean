/-
Confusion-matrix counts expressed through `cntLt` / `cntLe` of the array a metric's
threshold is set on.
-/
import SA.Proofs.Rescale
import SA.Theorems.C01

namespace SA
open Spec

/-- the count `searchsorted` returns in `cm` for this configuration -/
def belowCount (cfg : Cfg) (a : List ℚ) (t : ℚ) : ℕ :=
  match cmSide cfg with
  | .left => cntLt a t
  | .right => cntLe a t

theorem belowCount_le_length (cfg : Cfg) (a : List ℚ) (t : ℚ) : belowCount cfg a t ≤ a.length := by
  unfold belowCount; split <;> exact List.countP_le_length

theorem belowCount_perm (cfg : Cfg) (a b : List ℚ) (h : a.Perm b) (t : ℚ) :
    belowCount cfg a t = belowCount cfg b t := by
  unfold belowCount cntLt cntLe; split <;> exact h.countP_eq _

theorem belowCount_append (cfg : Cfg) (a b : List ℚ) (t : ℚ) :
    belowCount cfg (a ++ b) t = belowCount cfg a t + belowCount cfg b t := by
  unfold belowCount cntLt cntLe; split <;> exact List.countP_append

theorem belowCount_concat (s : Scores) (t : ℚ) :
    belowCount s.cfg s.concat t = belowCount s.cfg s.neg t + belowCount s.cfg s.pos t := by
  unfold Scores.concat
  rw [belowCount_perm _ _ _ (sortQ_perm _), belowCount_append]

theorem countP_accept_eq (cfg : Cfg) (l : List ℚ) (t : ℚ) :
    l.countP (fun x => accept cfg x (.fin t)) =
      if cfg.scoreClass = .pos then l.length - belowCount cfg l t else belowCount cfg l t := by
  obtain ⟨sc, ec⟩ := cfg
  have h1 := countP_not (fun x => decide (x < t)) l
  have h2 := countP_not (fun x => decide (x ≤ t)) l
  cases sc <;> cases ec <;>
    simp only [accept, ltE, leE, belowCount, cmSide, cntLt, cntLe, reduceCtorEq, if_true,
      if_false, h1, h2]

theorem countP_reject_eq (cfg : Cfg) (l : List ℚ) (t : ℚ) :
    l.countP (fun x => !accept cfg x (.fin t)) =
      if cfg.scoreClass = .pos then belowCount cfg l t else l.length - belowCount cfg l t := by
  rw [countP_not, countP_accept_eq]
  have := belowCount_le_length cfg l t
  split <;> omega

/-- **Counts lemma.** On sorted arrays the numerator of each rate at threshold `t` is its
lowest achievable value plus the number of relevant scored samples below (resp. not below) `t`. -/
theorem rateNum_eq (s : Scores) (hp : s.pos.Pairwise (· ≤ ·)) (hn : s.neg.Pairwise (· ≤ ·))
    (metric : Metric) (t : ℚ) :
    (s.cm (.fin t)).rateNum metric = minNum s metric +
      (if evenFlips s.cfg metric.increasing
       then belowCount s.cfg (s.metricArray metric) t
       else (s.metricArray metric).length - belowCount s.cfg (s.metricArray metric) t) := by
  rw [cm_eq_countCM_of_sorted s hp hn]
  have ap := countP_accept_eq s.cfg s.pos t
  have an := countP_accept_eq s.cfg s.neg t
  have rp := countP_reject_eq s.cfg s.pos t
  have rn := countP_reject_eq s.cfg s.neg t
  have bp := belowCount_le_length s.cfg s.pos t
  have bn := belowCount_le_length s.cfg s.neg t
  have bc := belowCount_concat s t
  have lc := length_concat s
  cases metric <;> cases hsc : s.cfg.scoreClass <;> rw [hsc] at ap an rp rn <;>
    simp only [reduceCtorEq, if_true, if_false] at ap an rp rn <;>
    simp only [countCM, CM.rateNum, CM.top, CM.ton, minNum, Scores.metricArray, evenFlips,
      Metric.increasing, hsc, ap, an, rp, rn, bc, lc] <;>
    simp <;> omega

end SA
