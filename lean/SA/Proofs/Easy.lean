/-
Easy samples versus materialised extreme scores, in the normalised problem
(`_invert_increasing_function` on a sorted list `arr` and on `L ++ arr ++ R`).
-/
import SA.Proofs.Coherence
import SA.Proofs.Rescale
import SA.Proofs.Quantile

namespace SA
open Spec

/-! ### stage 1: interpolation on a list with extra blocks below and above -/

theorem c09_getD_block (L arr R : List ℚ) (i : ℕ) (hi : i < arr.length) :
    (L ++ arr ++ R).getD (L.length + i) 0 = arr.getD i 0 := by
  rw [getD_eq arr i hi, getD_eq _ _ (by simp; omega)]
  rw [List.getElem_append_left (by simp; omega), List.getElem_append_right (by omega)]
  simp

/-- **Index shift.** Interpolating at `x + |L|` in `L ++ arr ++ R` is interpolating at `x` in
`arr`, as long as both neighbours of `x` are indices of `arr`. -/
theorem c09_interp_shift (L arr R : List ℚ) (x : ℚ) (hx0 : 0 ≤ x)
    (hxn : x ≤ (arr.length : ℚ) - 1) :
    interp (L ++ arr ++ R) (x + (L.length : ℚ)) = interp arr x := by
  have hfl0 : 0 ≤ ⌊x⌋ := Int.floor_nonneg.mpr hx0
  have hce : ⌈x⌉ ≤ (arr.length : ℤ) - 1 := by
    rw [Int.ceil_le]; push_cast; exact hxn
  have hfc : ⌊x⌋ ≤ ⌈x⌉ := Int.floor_le_ceil x
  obtain ⟨i, hi⟩ := Int.eq_ofNat_of_zero_le hfl0
  obtain ⟨j, hj⟩ := Int.eq_ofNat_of_zero_le (le_trans hfl0 hfc)
  have hjn : j < arr.length := by omega
  have hin : i < arr.length := by omega
  have hfl' : (x + (L.length : ℚ)).floor = (L.length + i : ℕ) := by
    show ⌊x + (L.length : ℚ)⌋ = _
    rw [Int.floor_add_natCast, hi]; push_cast; ring
  have hce' : ceilQ (x + (L.length : ℚ)) = (L.length + j : ℕ) := by
    rw [ceilQ_eq, Int.ceil_add_natCast, hj]; push_cast; ring
  have hflx : x.floor = (i : ℤ) := hi
  have hcex : ceilQ x = (j : ℤ) := by rw [ceilQ_eq]; exact hj
  unfold interp
  rw [hfl', hce', hflx, hcex]
  have c1 : clampIdx ((L.length + i : ℕ) : ℤ) (L ++ arr ++ R).length = L.length + i := by
    unfold clampIdx; simp only [List.length_append]; omega
  have c2 : clampIdx ((L.length + j : ℕ) : ℤ) (L ++ arr ++ R).length = L.length + j := by
    unfold clampIdx; simp only [List.length_append]; omega
  have c3 : clampIdx (i : ℤ) arr.length = i := by unfold clampIdx; omega
  have c4 : clampIdx (j : ℤ) arr.length = j := by unfold clampIdx; omega
  rw [c1, c2, c3, c4, c09_getD_block L arr R i hin, c09_getD_block L arr R j hjn]
  push_cast; ring

/-! ### stage 2: sorting a list that has extreme blocks -/

/-- if `l` is a permutation of `L ++ M ++ R` with `L` sorted and below `M`, `R` sorted and above
`M`, then sorting `l` only sorts the middle block -/
theorem c09_sort_block (l L M R : List ℚ) (hperm : l.Perm (L ++ M ++ R))
    (hL : L.Pairwise (· ≤ ·)) (hR : R.Pairwise (· ≤ ·))
    (hLM : ∀ a ∈ L, ∀ b ∈ M, a ≤ b) (hMR : ∀ a ∈ M, ∀ b ∈ R, a ≤ b)
    (hLR : ∀ a ∈ L, ∀ b ∈ R, a ≤ b) :
    sortQ l = L ++ sortQ M ++ R := by
  apply List.Perm.eq_of_pairwise' (r := (· ≤ ·)) (sortQ_pairwise l)
  · rw [List.pairwise_append, List.pairwise_append]
    refine ⟨⟨hL, sortQ_pairwise M, ?_⟩, hR, ?_⟩
    · intro a ha b hb
      exact hLM a ha b ((sortQ_perm M).mem_iff.mp hb)
    · intro a ha b hb
      rcases List.mem_append.mp ha with ha | ha
      · exact hLR a ha b hb
      · exact hMR a ((sortQ_perm M).mem_iff.mp ha) b hb
  · refine (sortQ_perm l).trans (hperm.trans ?_)
    exact ((List.Perm.refl L).append (sortQ_perm M).symm).append (List.Perm.refl R)

/-- the same with constant blocks -/
theorem c09_sort_rep (l M : List ℚ) (b c : ℕ) (lo hi : ℚ)
    (hperm : l.Perm (List.replicate b lo ++ M ++ List.replicate c hi))
    (hlo : ∀ x ∈ M, lo ≤ x) (hhi : ∀ x ∈ M, x ≤ hi) (hlh : lo ≤ hi) :
    sortQ l = List.replicate b lo ++ sortQ M ++ List.replicate c hi := by
  apply c09_sort_block l _ M _ hperm
  · rw [List.pairwise_replicate]; right; exact le_refl _
  · rw [List.pairwise_replicate]; right; exact le_refl _
  · intro a ha x hx; rw [List.eq_of_mem_replicate ha]; exact hlo x hx
  · intro x hx a ha; rw [List.eq_of_mem_replicate ha]; exact hhi x hx
  · intro a ha x hx; rw [List.eq_of_mem_replicate ha, List.eq_of_mem_replicate hx]; exact hlh

theorem c09_sortQ_of_sorted (l : List ℚ) (h : l.Pairwise (· ≤ ·)) : sortQ l = l :=
  List.Perm.eq_of_pairwise' (r := (· ≤ ·)) (sortQ_pairwise l) h (sortQ_perm l)

/-! ### clipping arithmetic -/

theorem c09_clip01_eq (r : ℚ) : clip01 r = clipQ r 0 1 := rfl

theorem c09_clipQ_le (y n v : ℚ) (h : clipQ y 0 n = v) (hv : v < n) : y ≤ v := by
  subst h
  simp only [clipQ, max_def, min_def] at hv ⊢
  split_ifs at hv ⊢ <;> linarith

theorem c09_clipQ_ge (y n v : ℚ) (h : clipQ y 0 n = v) (hv : 0 < v) : v ≤ y := by
  subst h
  simp only [clipQ, max_def, min_def] at hv ⊢
  split_ifs at hv ⊢ <;> linarith

theorem c09_clip01_range (r : ℚ) : 0 ≤ clip01 r ∧ clip01 r ≤ 1 := by
  simp only [clip01, max_def, min_def]
  split_ifs <;> constructor <;> linarith

theorem c09_clip01_id (r : ℚ) (h0 : 0 ≤ r) (h1 : r ≤ 1) : clip01 r = r := by
  unfold clip01; rw [min_eq_left h1, max_eq_right h0]

theorem c09_clip_even (y mn n D : ℚ) (h0 : 0 ≤ mn) (hn : 0 ≤ n) (hD : mn + n ≤ D) :
    clipQ (clipQ y 0 D - mn) 0 n = clipQ y mn (mn + n) - mn := by
  simp only [clipQ, max_def, min_def]
  split_ifs <;> linarith

theorem c09_clip_odd (y mn n D : ℚ) (h0 : 0 ≤ mn) (hn : 0 ≤ n) (hD : mn + n ≤ D) :
    clipQ ((D - clipQ y 0 D) - (D - n - mn)) 0 n = n - (clipQ y mn (mn + n) - mn) := by
  simp only [clipQ, max_def, min_def]
  split_ifs <;> linarith

/-! ### stage 3: the normalised problem -/

theorem c09_indexTarget_eq (s : List ℚ) (hne : s.length ≠ 0) (r : ℚ) (lc : Bool) :
    indexTarget s r lc = r * (s.length : ℚ) - (if lc then 0 else 1) := by
  unfold indexTarget
  have : (s.length : ℚ) ≠ 0 := by exact_mod_cast hne
  cases lc <;> simp only [Bool.false_eq_true, if_false, if_true]
  · field_simp
  · ring

/-- only the clipped target matters -/
theorem c09_invert_clip (u : Ulp) (s : List ℚ) (r : ℚ) (lc : Bool) (m : Method) :
    invertIncreasing u s (clip01 r) lc m = invertIncreasing u s r lc m := by
  rcases le_total 1 r with h1 | h1
  · have : clip01 r = 1 := by unfold clip01; rw [min_eq_right h1]; simp
    rw [this, invertIncreasing_high _ _ _ _ _ h1, invertIncreasing_high _ _ _ _ _ (le_refl _)]
  · rcases le_total r 0 with h0 | h0
    · have : clip01 r = 0 := by unfold clip01; rw [min_eq_left h1, max_eq_left h0]
      rw [this, invertIncreasing_low _ _ _ _ _ h0, invertIncreasing_low _ _ _ _ _ (le_refl _)]
    · rw [c09_clip01_id r h0 h1]

theorem c09_interp_nat (s : List ℚ) (j : ℕ) (hj : j < s.length) :
    interp s (j : ℚ) = s.getD j 0 := by
  unfold interp
  have h1 : (j : ℚ).floor = (j : ℤ) := by show ⌊(j : ℚ)⌋ = _; simp
  have h2 : ceilQ (j : ℚ) = (j : ℤ) := by rw [ceilQ_eq]; simp
  have c : clampIdx (j : ℤ) s.length = j := by unfold clampIdx; omega
  rw [h1, h2, c]; push_cast; ring

/-- the returned threshold is at least the sample at any index below the index target -/
theorem c09_invert_ge (u : Ulp) (hu : u.Lawful) (s : List ℚ) (hs : s.Pairwise (· ≤ ·))
    (ρ : ℚ) (lc : Bool) (j : ℕ) (hj : j < s.length) (hj0 : 0 < j)
    (hx : (j : ℚ) ≤ indexTarget s ρ lc) :
    s.getD j 0 ≤ invertIncreasing u s ρ lc .linear := by
  have hne : s.length ≠ 0 := by omega
  have hN : (0 : ℚ) < (s.length : ℚ) := by exact_mod_cast Nat.pos_of_ne_zero hne
  have hjq : (0 : ℚ) < (j : ℚ) := by exact_mod_cast hj0
  rw [invertIncreasing_eq]
  by_cases h1 : 1 ≤ ρ
  · simp only [h1, if_true]
    have := getD_mono s hs j (s.length - 1) (by omega) (by omega)
    have := hu.lt_up (s.getD (s.length - 1) 0)
    linarith
  · by_cases h0 : (if lc then ρ else ρ - 1 / (s.length : ℚ)) ≤ 0
    · exfalso
      have : indexTarget s ρ lc ≤ 0 := by
        unfold indexTarget; exact mul_nonpos_of_nonpos_of_nonneg h0 (le_of_lt hN)
      linarith
    · simp only [h1, h0, if_false]
      have := raw_mono s hs hne .linear (j : ℚ) _ (le_of_lt hjq) hx
      have h2 : rawThr s (j : ℚ) .linear = s.getD j 0 := c09_interp_nat s j hj
      linarith

/-- the returned threshold is at most the sample at any index above the index target -/
theorem c09_invert_le (u : Ulp) (hu : u.Lawful) (s : List ℚ) (hs : s.Pairwise (· ≤ ·))
    (ρ : ℚ) (lc : Bool) (j : ℕ) (hj : j + 1 < s.length)
    (hx : indexTarget s ρ lc ≤ (j : ℚ)) :
    invertIncreasing u s ρ lc .linear ≤ s.getD j 0 := by
  have hne : s.length ≠ 0 := by omega
  have hN : (0 : ℚ) < (s.length : ℚ) := by exact_mod_cast Nat.pos_of_ne_zero hne
  rw [invertIncreasing_eq]
  by_cases h1 : 1 ≤ ρ
  · exfalso
    rw [c09_indexTarget_eq s hne] at hx
    have h2 : ((j + 1 : ℕ) : ℚ) < (s.length : ℚ) := by exact_mod_cast hj
    push_cast at h2
    have h3 : (s.length : ℚ) ≤ ρ * (s.length : ℚ) := by nlinarith
    cases lc <;> simp only [Bool.false_eq_true, if_false, if_true] at hx <;> linarith
  · by_cases h0 : (if lc then ρ else ρ - 1 / (s.length : ℚ)) ≤ 0
    · simp only [h1, h0, if_true, if_false]
      have := getD_mono s hs 0 j (by omega) (by omega)
      have := hu.down_lt (s.getD 0 0)
      linarith
    · simp only [h1, h0, if_false]
      rw [not_le] at h0
      have hx0 : 0 ≤ indexTarget s ρ lc := by
        unfold indexTarget; exact le_of_lt (mul_pos h0 hN)
      have := raw_mono s hs hne .linear _ (j : ℚ) hx0 hx
      have h2 : rawThr s (j : ℚ) .linear = s.getD j 0 := c09_interp_nat s j (by omega)
      linarith

theorem c09_shifted_pos (ρ : ℚ) (n : ℕ) (hn : n ≠ 0) (lc : Bool) :
    0 < (if lc then ρ else ρ - 1 / (n : ℚ)) ↔ 0 < ρ * (n : ℚ) - (if lc then 0 else 1) := by
  have hN : (0 : ℚ) < (n : ℚ) := by exact_mod_cast Nat.pos_of_ne_zero hn
  cases lc <;> simp only [Bool.false_eq_true, if_false, if_true, sub_zero]
  · have : ρ - 1 / (n : ℚ) = (ρ * (n : ℚ) - 1) / (n : ℚ) := by field_simp
    rw [this]
    constructor
    · intro h
      by_contra hc
      rw [not_lt] at hc
      have := div_nonpos_of_nonpos_of_nonneg hc (le_of_lt hN)
      linarith
    · intro h; exact div_pos h hN
  · constructor
    · intro h; exact mul_pos h hN
    · intro h
      by_contra hc
      rw [not_lt] at hc
      have := mul_nonpos_of_nonpos_of_nonneg hc (le_of_lt hN)
      linarith

theorem c09_lt_one_iff (ρ : ℚ) (n : ℕ) (hn : n ≠ 0) : ρ < 1 ↔ ρ * (n : ℚ) < (n : ℚ) := by
  have hN : (0 : ℚ) < (n : ℚ) := by exact_mod_cast Nat.pos_of_ne_zero hn
  constructor
  · intro h; nlinarith
  · intro h
    by_contra hc
    rw [not_lt] at hc
    nlinarith

/-- the normalised core of C09 (threshold clause), targets already clipped -/
theorem c09_invert_shift_aux (u : Ulp) (L arr R : List ℚ) (hne : arr.length ≠ 0) (ρ ρ' : ℚ)
    (lc : Bool)
    (hrel : clipQ (ρ' * ((L ++ arr ++ R).length : ℚ) - (L.length : ℚ)) 0 (arr.length : ℚ)
      = ρ * (arr.length : ℚ))
    (h1 : ρ < 1) (h0 : 0 < (if lc then ρ else ρ - 1 / (arr.length : ℚ)))
    (hx : indexTarget arr ρ lc ≤ (arr.length : ℚ) - 1) :
    invertIncreasing u (L ++ arr ++ R) ρ' lc .linear = invertIncreasing u arr ρ lc .linear := by
  have hN : (0 : ℚ) < (arr.length : ℚ) := by exact_mod_cast Nat.pos_of_ne_zero hne
  have hne' : (L ++ arr ++ R).length ≠ 0 := by simp only [List.length_append]; omega
  have hlen : ((L ++ arr ++ R).length : ℚ) = (L.length : ℚ) + (arr.length : ℚ) + (R.length : ℚ) := by
    simp only [List.length_append]; push_cast; ring
  have hR0 : (0 : ℚ) ≤ (R.length : ℚ) := by positivity
  have hL0 : (0 : ℚ) ≤ (L.length : ℚ) := by positivity
  have h0x := (c09_shifted_pos ρ arr.length hne lc).mp h0
  have h1x := (c09_lt_one_iff ρ arr.length hne).mp h1
  have hv0 : 0 < ρ * (arr.length : ℚ) := by
    cases lc <;> simp only [Bool.false_eq_true, if_false, if_true] at h0x <;> linarith
  have hy1 := c09_clipQ_le _ _ _ hrel h1x
  have hy2 := c09_clipQ_ge _ _ _ hrel hv0
  have hy : ρ' * ((L ++ arr ++ R).length : ℚ) = ρ * (arr.length : ℚ) + (L.length : ℚ) := by linarith
  have h1' : ρ' < 1 := by
    rw [c09_lt_one_iff ρ' _ hne', hy, hlen]; linarith
  have h0' : 0 < (if lc then ρ' else ρ' - 1 / ((L ++ arr ++ R).length : ℚ)) := by
    rw [c09_shifted_pos ρ' _ hne' lc, hy]; linarith
  rw [invertIncreasing_interior u _ ρ' lc h1' h0', invertIncreasing_interior u _ ρ lc h1 h0]
  have hidx : indexTarget (L ++ arr ++ R) ρ' lc = indexTarget arr ρ lc + (L.length : ℚ) := by
    rw [c09_indexTarget_eq _ hne', c09_indexTarget_eq _ hne, hy]; ring
  rw [hidx]
  apply c09_interp_shift L arr R _ _ hx
  rw [c09_indexTarget_eq _ hne]; exact le_of_lt h0x

/-- relation between the normalised targets `ρ` (easy-sample object, `n` scored samples) and
`ρ'` (materialised object, `n'` samples of which `b` lie below the scored block): after
clipping, the index positions differ by `b` -/
def c09_rel (b n n' : ℕ) (ρ ρ' : ℚ) : Prop :=
  clipQ (clip01 ρ' * (n' : ℚ) - (b : ℚ)) 0 (n : ℚ) = clip01 ρ * (n : ℚ)

/-- **Normalised C09 (thresholds).** If the easy-sample target is interior (neither special
case of `_invert_increasing_function` fires) and its index target is at most `n - 1`, the
materialised list `L ++ arr ++ R` gives the same threshold. -/
theorem c09_invert_shift (u : Ulp) (L arr R : List ℚ) (hne : arr.length ≠ 0) (ρ ρ' : ℚ)
    (lc : Bool) (hrel : c09_rel L.length arr.length (L ++ arr ++ R).length ρ ρ')
    (h1 : ρ < 1) (h0 : 0 < (if lc then ρ else ρ - 1 / (arr.length : ℚ)))
    (hx : indexTarget arr ρ lc ≤ (arr.length : ℚ) - 1) :
    invertIncreasing u (L ++ arr ++ R) ρ' lc .linear = invertIncreasing u arr ρ lc .linear := by
  have hρ0 : 0 ≤ ρ := by
    have hinv : (0 : ℚ) ≤ 1 / (arr.length : ℚ) := by positivity
    cases lc <;> simp only [Bool.false_eq_true, if_false, if_true] at h0 <;> linarith
  unfold c09_rel at hrel
  rw [c09_clip01_id ρ hρ0 (le_of_lt h1)] at hrel
  rw [← c09_invert_clip u _ ρ']
  exact c09_invert_shift_aux u L arr R hne ρ (clip01 ρ') lc hrel h1 h0 hx

theorem c09_delta_range (lc : Bool) :
    (0 : ℚ) ≤ (if lc then 0 else 1) ∧ ((if lc then 0 else 1) : ℚ) ≤ 1 := by
  cases lc <;> simp

theorem c09_invert_inside_aux (u : Ulp) (hu : u.Lawful) (L arr R : List ℚ)
    (hs : (L ++ arr ++ R).Pairwise (· ≤ ·)) (ρ ρ' : ℚ) (lc : Bool)
    (hrel : clipQ (ρ' * ((L ++ arr ++ R).length : ℚ) - (L.length : ℚ)) 0 (arr.length : ℚ)
      = ρ * (arr.length : ℚ))
    (hlo : arr.getD 0 0 < invertIncreasing u (L ++ arr ++ R) ρ' lc .linear)
    (hhi : invertIncreasing u (L ++ arr ++ R) ρ' lc .linear < arr.getD (arr.length - 1) 0) :
    invertIncreasing u (L ++ arr ++ R) ρ' lc .linear = invertIncreasing u arr ρ lc .linear := by
  have hn2 : 2 ≤ arr.length := by
    by_contra hc
    have : arr.length - 1 = 0 := by omega
    rw [this] at hhi; linarith
  have hne : arr.length ≠ 0 := by omega
  have hN2 : (2 : ℚ) ≤ (arr.length : ℚ) := by exact_mod_cast hn2
  have hne' : (L ++ arr ++ R).length ≠ 0 := by simp only [List.length_append]; omega
  have hlen : (L ++ arr ++ R).length = L.length + arr.length + R.length := by
    simp only [List.length_append]
  obtain ⟨hd0, hd1⟩ := c09_delta_range lc
  -- the two landmarks of the scored block inside the materialised list
  have hjq : ((L.length + (arr.length - 1) : ℕ) : ℚ) = (L.length : ℚ) + (arr.length : ℚ) - 1 := by
    rw [Nat.cast_add, Nat.cast_sub (by omega)]; push_cast; ring
  have hlast : (L ++ arr ++ R).getD (L.length + (arr.length - 1)) 0 = arr.getD (arr.length - 1) 0 :=
    c09_getD_block L arr R _ (by omega)
  have hfirst : (L ++ arr ++ R).getD L.length 0 = arr.getD 0 0 := by
    have := c09_getD_block L arr R 0 (by omega)
    simpa using this
  have hxeq := c09_indexTarget_eq (L ++ arr ++ R) hne' ρ' lc
  have upper : (L.length : ℚ) + (arr.length : ℚ) - 1 ≤ indexTarget (L ++ arr ++ R) ρ' lc → False := by
    intro h
    have := c09_invert_ge u hu _ hs ρ' lc (L.length + (arr.length - 1)) (by omega) (by omega)
      (by rw [hjq]; exact h)
    rw [hlast] at this; linarith
  have lower : indexTarget (L ++ arr ++ R) ρ' lc ≤ (L.length : ℚ) → False := by
    intro h
    have := c09_invert_le u hu _ hs ρ' lc L.length (by omega) h
    rw [hfirst] at this; linarith
  by_cases h1 : ρ < 1
  swap
  · exfalso
    rw [not_lt] at h1
    have hv : 0 < ρ * (arr.length : ℚ) := by nlinarith
    have := c09_clipQ_ge _ _ _ hrel hv
    apply upper; rw [hxeq]; nlinarith
  have h1x := (c09_lt_one_iff ρ arr.length hne).mp h1
  have hy1 := c09_clipQ_le _ _ _ hrel h1x
  by_cases h0 : 0 < (if lc then ρ else ρ - 1 / (arr.length : ℚ))
  swap
  · exfalso
    rw [c09_shifted_pos ρ arr.length hne lc, not_lt] at h0
    apply lower; rw [hxeq]; linarith
  have h0x := (c09_shifted_pos ρ arr.length hne lc).mp h0
  have hy2 := c09_clipQ_ge _ _ _ hrel (by linarith)
  by_cases hx : indexTarget arr ρ lc ≤ (arr.length : ℚ) - 1
  swap
  · exfalso
    rw [not_le, c09_indexTarget_eq arr hne] at hx
    apply upper; rw [hxeq]; linarith
  exact c09_invert_shift_aux u L arr R hne ρ ρ' lc hrel h1 h0 hx

/-- **Normalised C09 (thresholds), property shape.** If the threshold of the materialised list
lies strictly inside the range of the scored block, the easy-sample list gives the same one. -/
theorem c09_invert_inside (u : Ulp) (hu : u.Lawful) (L arr R : List ℚ)
    (hs : (L ++ arr ++ R).Pairwise (· ≤ ·)) (ρ ρ' : ℚ) (lc : Bool)
    (hrel : c09_rel L.length arr.length (L ++ arr ++ R).length ρ ρ')
    (hlo : arr.getD 0 0 < invertIncreasing u (L ++ arr ++ R) ρ' lc .linear)
    (hhi : invertIncreasing u (L ++ arr ++ R) ρ' lc .linear < arr.getD (arr.length - 1) 0) :
    invertIncreasing u (L ++ arr ++ R) ρ' lc .linear = invertIncreasing u arr ρ lc .linear := by
  rw [← c09_invert_clip u _ ρ'] at hlo hhi ⊢
  rw [← c09_invert_clip u arr ρ]
  exact c09_invert_inside_aux u hu L arr R hs (clip01 ρ) (clip01 ρ') lc hrel hlo hhi

/-- **Boundary, low end.** When the materialised index target is exactly the position of the
first scored sample, the materialised list returns that sample but the easy-sample list returns
the sentinel one ulp below it. -/
theorem c09_boundary_low (u : Ulp) (L arr R : List ℚ) (hn2 : 2 ≤ arr.length)
    (hb : 0 < L.length) (ρ ρ' : ℚ) (lc : Bool)
    (hrel : c09_rel L.length arr.length (L ++ arr ++ R).length ρ ρ')
    (hx' : indexTarget (L ++ arr ++ R) ρ' lc = (L.length : ℚ)) :
    invertIncreasing u (L ++ arr ++ R) ρ' lc .linear = arr.getD 0 0 ∧
    invertIncreasing u arr ρ lc .linear = u.down (arr.getD 0 0) := by
  have hne : arr.length ≠ 0 := by omega
  have hN2 : (2 : ℚ) ≤ (arr.length : ℚ) := by exact_mod_cast hn2
  have hne' : (L ++ arr ++ R).length ≠ 0 := by simp only [List.length_append]; omega
  have hlen : ((L ++ arr ++ R).length : ℚ) = (L.length : ℚ) + (arr.length : ℚ) + (R.length : ℚ) := by
    simp only [List.length_append]; push_cast; ring
  have hR0 : (0 : ℚ) ≤ (R.length : ℚ) := by positivity
  have hbq : (0 : ℚ) < (L.length : ℚ) := by exact_mod_cast hb
  obtain ⟨hd0, hd1⟩ := c09_delta_range lc
  have hxeq := c09_indexTarget_eq (L ++ arr ++ R) hne' ρ' lc
  rw [hx'] at hxeq
  have h1' : ρ' < 1 := by rw [c09_lt_one_iff ρ' _ hne']; linarith
  have h0' : 0 < (if lc then ρ' else ρ' - 1 / ((L ++ arr ++ R).length : ℚ)) := by
    rw [c09_shifted_pos ρ' _ hne' lc]; linarith
  have hρ'0 : 0 ≤ ρ' := by
    by_contra hc
    rw [not_le] at hc
    have : ρ' * ((L ++ arr ++ R).length : ℚ) < 0 := by
      apply mul_neg_of_neg_of_pos hc; rw [hlen]; linarith
    linarith
  constructor
  · rw [invertIncreasing_interior u _ ρ' lc h1' h0', hx', c09_interp_nat _ _ (by
      simp only [List.length_append]; omega)]
    have := c09_getD_block L arr R 0 (by omega)
    simpa using this
  · unfold c09_rel at hrel
    rw [c09_clip01_id ρ' hρ'0 (le_of_lt h1')] at hrel
    have hy : ρ' * ((L ++ arr ++ R).length : ℚ) - (L.length : ℚ) = (if lc then 0 else 1) := by
      linarith
    rw [hy] at hrel
    have hcl : clipQ (if lc then (0 : ℚ) else 1) 0 (arr.length : ℚ) = (if lc then 0 else 1) := by
      unfold clipQ; rw [min_eq_left (by linarith), max_eq_right hd0]
    rw [hcl] at hrel
    rw [← c09_invert_clip u arr ρ, invertIncreasing_eq]
    have a1 : ¬ 1 ≤ clip01 ρ := by
      rw [not_le, c09_lt_one_iff _ _ hne]; linarith
    have a2 : (if lc then clip01 ρ else clip01 ρ - 1 / (arr.length : ℚ)) ≤ 0 := by
      rw [← not_lt, c09_shifted_pos _ _ hne lc]; linarith
    simp only [a1, a2, if_true, if_false]

/-- **Boundary, high end** (right-continuous metric only). When the materialised index target is
exactly the position of the last scored sample, the materialised list returns that sample but
the easy-sample list returns the sentinel one ulp above it. -/
theorem c09_boundary_high (u : Ulp) (L arr R : List ℚ) (hn2 : 2 ≤ arr.length)
    (hc : 0 < R.length) (ρ ρ' : ℚ)
    (hrel : c09_rel L.length arr.length (L ++ arr ++ R).length ρ ρ')
    (hx' : indexTarget (L ++ arr ++ R) ρ' false = (L.length : ℚ) + (arr.length : ℚ) - 1) :
    invertIncreasing u (L ++ arr ++ R) ρ' false .linear = arr.getD (arr.length - 1) 0 ∧
    invertIncreasing u arr ρ false .linear = u.up (arr.getD (arr.length - 1) 0) := by
  have hne : arr.length ≠ 0 := by omega
  have hN2 : (2 : ℚ) ≤ (arr.length : ℚ) := by exact_mod_cast hn2
  have hne' : (L ++ arr ++ R).length ≠ 0 := by simp only [List.length_append]; omega
  have hlen : ((L ++ arr ++ R).length : ℚ) = (L.length : ℚ) + (arr.length : ℚ) + (R.length : ℚ) := by
    simp only [List.length_append]; push_cast; ring
  have hcq : (0 : ℚ) < (R.length : ℚ) := by exact_mod_cast hc
  have hL0 : (0 : ℚ) ≤ (L.length : ℚ) := by positivity
  have hxeq := c09_indexTarget_eq (L ++ arr ++ R) hne' ρ' false
  rw [hx'] at hxeq
  simp only [Bool.false_eq_true, if_false] at hxeq
  have h1' : ρ' < 1 := by rw [c09_lt_one_iff ρ' _ hne']; linarith
  have h0' : 0 < (if false then ρ' else ρ' - 1 / ((L ++ arr ++ R).length : ℚ)) := by
    rw [c09_shifted_pos ρ' _ hne' false]; simp only [Bool.false_eq_true, if_false]; linarith
  have hρ'0 : 0 ≤ ρ' := by
    by_contra hc'
    rw [not_le] at hc'
    have : ρ' * ((L ++ arr ++ R).length : ℚ) < 0 := by
      apply mul_neg_of_neg_of_pos hc'; rw [hlen]; linarith
    linarith
  have hjq : ((L.length + (arr.length - 1) : ℕ) : ℚ) = (L.length : ℚ) + (arr.length : ℚ) - 1 := by
    rw [Nat.cast_add, Nat.cast_sub (by omega)]; push_cast; ring
  constructor
  · rw [invertIncreasing_interior u _ ρ' false h1' h0', hx', ← hjq, c09_interp_nat _ _ (by
      simp only [List.length_append]; omega)]
    exact c09_getD_block L arr R _ (by omega)
  · unfold c09_rel at hrel
    rw [c09_clip01_id ρ' hρ'0 (le_of_lt h1')] at hrel
    have hy : ρ' * ((L ++ arr ++ R).length : ℚ) - (L.length : ℚ) = (arr.length : ℚ) := by linarith
    rw [hy] at hrel
    have hcl : clipQ (arr.length : ℚ) 0 (arr.length : ℚ) = (arr.length : ℚ) := by
      unfold clipQ; rw [min_eq_left (le_refl _), max_eq_right (by linarith)]
    rw [hcl] at hrel
    rw [← c09_invert_clip u arr ρ]
    apply invertIncreasing_high
    by_contra hcc
    rw [not_le, c09_lt_one_iff _ _ hne] at hcc
    linarith

end SA
