/-
Helper lemmas for C08 — `eer()` under score negation + `score_class` flip
(theorems in `SA/Theorems/C08NegateEer.lean`).

`Scores.eer` is split into (i) the PATH it takes (error / one of the two perfect-separation
shortcuts / one of the three caps / bisection with the value found) — a function of the class
sizes, the extreme scores, `score_class`, the two hard ratios and the SIGNS of the root-finder
objective at the points the bisection evaluates — and (ii) the FINISH, which turns a path into
the returned pair with at most two more threshold calls.  The negated object takes the mirrored
path as soon as the two objectives agree in sign at the probes; the finish negates the threshold
as soon as the final threshold calls are negated.
-/
import SA.Theorems.C08Negate
import SA.Theorems.C06Affine

namespace SA

/-! ### the root finder only sees signs at its midpoints -/

/-- two numbers with the same sign (negative / zero / positive) -/
def c08e_sameSign (a b : ℚ) : Prop := (a < 0 ↔ b < 0) ∧ (0 < a ↔ 0 < b)

instance (a b : ℚ) : Decidable (c08e_sameSign a b) := by
  unfold c08e_sameSign; exact inferInstance

theorem c08e_sameSign_refl (a : ℚ) : c08e_sameSign a a := ⟨Iff.rfl, Iff.rfl⟩

theorem c08e_sameSign_of_eq {a b : ℚ} (h : a = b) : c08e_sameSign a b := by
  rw [h]; exact c08e_sameSign_refl b

theorem c08e_sameSign_le {a b : ℚ} (h : c08e_sameSign a b) : a ≤ 0 ↔ b ≤ 0 := by
  rw [← not_lt, ← not_lt, h.2]

theorem c08e_sameSign_ge {a b : ℚ} (h : c08e_sameSign a b) : 0 ≤ a ↔ 0 ≤ b := by
  rw [← not_lt, ← not_lt, h.1]

/-- the midpoints at which `findRootLoop f` evaluates `f`, in order -/
def c08e_mids (f : ℚ → ℚ) (findFirst : Bool) : ℕ → ℚ → ℚ → List ℚ
  | 0, _, _ => []
  | fuel + 1, xa, xe =>
    if absQ' (xa - xe) < xtol then []
    else
      (xa + xe) / 2 ::
        (if f ((xa + xe) / 2) < 0 then c08e_mids f findFirst fuel ((xa + xe) / 2) xe
         else if f ((xa + xe) / 2) > 0 then c08e_mids f findFirst fuel xa ((xa + xe) / 2)
         else if findFirst then c08e_mids f findFirst fuel xa ((xa + xe) / 2)
         else c08e_mids f findFirst fuel ((xa + xe) / 2) xe)

/-- **Root finder, loop.** A function with the same signs as `f` at the midpoints that the
bisection of `f` evaluates produces the same result. -/
theorem c08e_findRootLoop_congr (f g : ℚ → ℚ) (ff : Bool) (fuel : ℕ) (xa xe : ℚ)
    (h : ∀ x ∈ c08e_mids f ff fuel xa xe, c08e_sameSign (g x) (f x)) :
    findRootLoop g ff fuel xa xe = findRootLoop f ff fuel xa xe := by
  induction fuel generalizing xa xe with
  | zero => simp only [findRootLoop]
  | succ n ih =>
    simp only [findRootLoop]
    by_cases hx : absQ' (xa - xe) < xtol
    · rw [if_pos hx, if_pos hx]
    · rw [if_neg hx, if_neg hx]
      simp only [c08e_mids, if_neg hx] at h
      have hm := h ((xa + xe) / 2) List.mem_cons_self
      have h1 : g ((xa + xe) / 2) < 0 ↔ f ((xa + xe) / 2) < 0 := hm.1
      have h2 : g ((xa + xe) / 2) > 0 ↔ f ((xa + xe) / 2) > 0 := hm.2
      have ht : ∀ x ∈ (if f ((xa + xe) / 2) < 0 then c08e_mids f ff n ((xa + xe) / 2) xe
         else if f ((xa + xe) / 2) > 0 then c08e_mids f ff n xa ((xa + xe) / 2)
         else if ff then c08e_mids f ff n xa ((xa + xe) / 2)
         else c08e_mids f ff n ((xa + xe) / 2) xe), c08e_sameSign (g x) (f x) :=
        fun x hx' => h x (List.mem_cons_of_mem _ hx')
      simp only [h1, h2]
      by_cases c1 : f ((xa + xe) / 2) < 0
      · rw [if_pos c1] at ht; rw [if_pos c1, if_pos c1]; exact ih _ _ ht
      · rw [if_neg c1] at ht; rw [if_neg c1, if_neg c1]
        by_cases c2 : f ((xa + xe) / 2) > 0
        · rw [if_pos c2] at ht; rw [if_pos c2, if_pos c2]; exact ih _ _ ht
        · rw [if_neg c2] at ht; rw [if_neg c2, if_neg c2]
          by_cases c3 : ff = true
          · rw [if_pos c3] at ht; rw [if_pos c3, if_pos c3]; exact ih _ _ ht
          · rw [if_neg c3] at ht; rw [if_neg c3, if_neg c3]; exact ih _ _ ht

/-- **Root finder.** Same signs at the two ends of the bracket and at the midpoints: same
result (bracket check and loop). -/
theorem c08e_findRoot_congr (f g : ℚ → ℚ) (xa xe : ℚ) (ff : Bool) (fuel : ℕ)
    (ha : c08e_sameSign (g xa) (f xa)) (he : c08e_sameSign (g xe) (f xe))
    (h : ∀ x ∈ c08e_mids f ff fuel xa xe, c08e_sameSign (g x) (f x)) :
    findRoot g xa xe ff fuel = findRoot f xa xe ff fuel := by
  unfold findRoot
  rw [c08e_findRootLoop_congr f g ff fuel xa xe h]
  simp only [c08e_sameSign_le ha, c08e_sameSign_ge he]

/-! ### `eer()` = finish ∘ path -/

/-- the ways `eer()` can return -/
inductive c08e_Path where
  /-- an exception: an empty class (`other`), or a failed bracket check of `_find_root` -/
  | fail (e : Err)
  /-- perfect separation, positives above, `score_class = pos` -/
  | sepPos
  /-- perfect separation, positives below, `score_class = neg` -/
  | sepNeg
  /-- `f(max_eer) < 0` and the two hard ratios are close -/
  | capClose
  /-- `f(max_eer) < 0`, `hard_pos_ratio < hard_neg_ratio` -/
  | capPos
  /-- `f(max_eer) < 0`, otherwise -/
  | capNeg
  /-- bisection, with the value `(left + right) / 2` -/
  | root (e : ℚ)
deriving DecidableEq, Repr

/-- the path of the negated object: the two shortcuts exchange their roles -/
def c08e_Path.mirror : c08e_Path → c08e_Path
  | .sepPos => .sepNeg
  | .sepNeg => .sepPos
  | p => p

/-- which way `eer()` goes, given what it reads and the objective `F` of the root finder -/
def c08e_corePath (np nn : ℕ) (pos0 posL neg0 negL : ℚ) (sc : Label) (hpr hnr : ℚ)
    (F : ℚ → ℚ) (fuel : ℕ) : c08e_Path :=
  if np = 0 ∨ nn = 0 then .fail .other else
  if pos0 > negL ∧ sc = .pos then .sepPos
  else if posL < neg0 ∧ sc = .neg then .sepNeg
  else
    if F (min hpr hnr) < 0 then
      if isClose hpr hnr then .capClose
      else if hpr < hnr then .capPos
      else .capNeg
    else
      match findRoot F 0 (min hpr hnr) true fuel, findRoot F 0 (min hpr hnr) false fuel with
      | .ok left, .ok right => .root ((left + right) / 2)
      | .error e, _ => .fail e
      | _, .error e => .fail e

/-- the returned pair on each path -/
def c08e_coreFinish (pos0 posL neg0 negL : ℚ) (hpr hnr : ℚ) (tf tn : ℚ → ℚ) :
    c08e_Path → Except Err (ℚ × ℚ)
  | .fail e => .error e
  | .sepPos => .ok ((pos0 + negL) / 2, 0)
  | .sepNeg => .ok ((posL + neg0) / 2, 0)
  | .capClose => .ok ((tf (min hpr hnr) + tn (min hpr hnr)) / 2, min hpr hnr)
  | .capPos => .ok (tf hpr, hpr)
  | .capNeg => .ok (tn hnr, hnr)
  | .root e => .ok (tf e, e)

theorem c08e_core_eq (np nn : ℕ) (pos0 posL neg0 negL : ℚ) (sc : Label) (hpr hnr : ℚ)
    (tf tn : ℚ → ℚ) (fuel : ℕ) :
    eeri_core np nn pos0 posL neg0 negL sc hpr hnr tf tn fuel =
      c08e_coreFinish pos0 posL neg0 negL hpr hnr tf tn
        (c08e_corePath np nn pos0 posL neg0 negL sc hpr hnr (eeri_F tf tn) fuel) := by
  unfold eeri_core c08e_corePath
  by_cases hE : np = 0 ∨ nn = 0
  · rw [if_pos hE, if_pos hE]; rfl
  rw [if_neg hE, if_neg hE]
  by_cases h1 : pos0 > negL ∧ sc = .pos
  · rw [if_pos h1, if_pos h1]; rfl
  rw [if_neg h1, if_neg h1]
  by_cases h2 : posL < neg0 ∧ sc = .neg
  · rw [if_pos h2, if_pos h2]; rfl
  rw [if_neg h2, if_neg h2]
  by_cases h3 : eeri_F tf tn (min hpr hnr) < 0
  · rw [if_pos h3, if_pos h3]
    by_cases h4 : isClose hpr hnr = true
    · rw [if_pos h4, if_pos h4]; rfl
    rw [if_neg h4, if_neg h4]
    by_cases h5 : hpr < hnr
    · rw [if_pos h5, if_pos h5]; rfl
    · rw [if_neg h5, if_neg h5]; rfl
  rw [if_neg h3, if_neg h3]
  cases findRoot (eeri_F tf tn) 0 (min hpr hnr) true fuel <;>
    cases findRoot (eeri_F tf tn) 0 (min hpr hnr) false fuel <;> rfl

/-- the points at which the path inspects the sign of the objective `F` (besides 0):
`max_eer`, and on the bisection path the midpoints of the two root searches -/
def c08e_coreProbes (np nn : ℕ) (pos0 posL neg0 negL : ℚ) (sc : Label) (hpr hnr : ℚ)
    (F : ℚ → ℚ) (fuel : ℕ) : List ℚ :=
  if np = 0 ∨ nn = 0 then [] else
  if pos0 > negL ∧ sc = .pos then []
  else if posL < neg0 ∧ sc = .neg then []
  else
    if F (min hpr hnr) < 0 then [min hpr hnr]
    else min hpr hnr ::
      (c08e_mids F true fuel 0 (min hpr hnr) ++ c08e_mids F false fuel 0 (min hpr hnr))

theorem c08e_flip_eq_pos (sc : Label) : sc.flip = .pos ↔ sc = .neg := by
  cases sc <;> simp [Label.flip]

theorem c08e_flip_eq_neg (sc : Label) : sc.flip = .neg ↔ sc = .pos := by
  cases sc <;> simp [Label.flip]

/-- **Path of the mirrored problem.** With the extreme scores mirrored, `score_class` flipped
and an objective `F'` that agrees with `F` in sign at the probes of `F` (and at 0 when there are
probes), the mirrored path is taken. -/
theorem c08e_corePath_negate (np nn : ℕ) (pos0 posL neg0 negL : ℚ) (sc : Label) (hpr hnr : ℚ)
    (F F' : ℚ → ℚ) (fuel : ℕ)
    (h0 : c08e_coreProbes np nn pos0 posL neg0 negL sc hpr hnr F fuel ≠ [] →
      c08e_sameSign (F' 0) (F 0))
    (hs : ∀ x ∈ c08e_coreProbes np nn pos0 posL neg0 negL sc hpr hnr F fuel,
      c08e_sameSign (F' x) (F x)) :
    c08e_corePath np nn (-posL) (-pos0) (-negL) (-neg0) sc.flip hpr hnr F' fuel =
      (c08e_corePath np nn pos0 posL neg0 negL sc hpr hnr F fuel).mirror := by
  unfold c08e_corePath
  unfold c08e_coreProbes at hs h0
  by_cases hE : np = 0 ∨ nn = 0
  · rw [if_pos hE, if_pos hE]; rfl
  rw [if_neg hE] at hs h0
  rw [if_neg hE, if_neg hE]
  have c1 : (-posL > -neg0 ∧ sc.flip = .pos) ↔ (posL < neg0 ∧ sc = .neg) := by
    rw [c08e_flip_eq_pos]
    constructor <;> rintro ⟨a, b⟩ <;> exact ⟨by linarith, b⟩
  have c2 : (-pos0 < -negL ∧ sc.flip = .neg) ↔ (pos0 > negL ∧ sc = .pos) := by
    rw [c08e_flip_eq_neg]
    constructor <;> rintro ⟨a, b⟩ <;> exact ⟨by linarith, b⟩
  simp only [c1, c2]
  by_cases h1 : pos0 > negL ∧ sc = .pos
  · have h2 : ¬ (posL < neg0 ∧ sc = .neg) := by
      rintro ⟨_, b⟩; rw [h1.2] at b; cases b
    rw [if_pos h1, if_neg h2, if_pos h1]; rfl
  rw [if_neg h1] at hs h0
  by_cases h2 : posL < neg0 ∧ sc = .neg
  · rw [if_pos h2, if_neg h1, if_pos h2]; rfl
  rw [if_neg h2] at hs h0
  rw [if_neg h2, if_neg h1, if_neg h1, if_neg h2]
  by_cases h3 : F (min hpr hnr) < 0
  · rw [if_pos h3] at hs
    have hm := hs (min hpr hnr) (List.mem_singleton.mpr rfl)
    have h3' : F' (min hpr hnr) < 0 := hm.1.mpr h3
    rw [if_pos h3, if_pos h3']
    split_ifs <;> rfl
  rw [if_neg h3] at hs h0
  replace h0 := h0 (List.cons_ne_nil _ _)
  have hm := hs (min hpr hnr) List.mem_cons_self
  have h3' : ¬ F' (min hpr hnr) < 0 := fun h => h3 (hm.1.mp h)
  rw [if_neg h3, if_neg h3']
  have r1 : findRoot F' 0 (min hpr hnr) true fuel = findRoot F 0 (min hpr hnr) true fuel :=
    c08e_findRoot_congr F F' 0 (min hpr hnr) true fuel h0 hm
      (fun x hx => hs x (List.mem_cons_of_mem _ (List.mem_append_left _ hx)))
  have r2 : findRoot F' 0 (min hpr hnr) false fuel = findRoot F 0 (min hpr hnr) false fuel :=
    c08e_findRoot_congr F F' 0 (min hpr hnr) false fuel h0 hm
      (fun x hx => hs x (List.mem_cons_of_mem _ (List.mem_append_right _ hx)))
  rw [r1, r2]
  cases findRoot F 0 (min hpr hnr) true fuel <;>
    cases findRoot F 0 (min hpr hnr) false fuel <;> rfl

/-- on the perfect-separation shortcuts the objective is not inspected at all -/
theorem c08e_coreProbes_nil_of_sep (np nn : ℕ) (pos0 posL neg0 negL : ℚ) (sc : Label)
    (hpr hnr : ℚ) (F : ℚ → ℚ) (fuel : ℕ)
    (h : c08e_corePath np nn pos0 posL neg0 negL sc hpr hnr F fuel = .sepPos ∨
      c08e_corePath np nn pos0 posL neg0 negL sc hpr hnr F fuel = .sepNeg) :
    c08e_coreProbes np nn pos0 posL neg0 negL sc hpr hnr F fuel = [] := by
  unfold c08e_corePath at h
  unfold c08e_coreProbes
  by_cases hE : np = 0 ∨ nn = 0
  · rw [if_pos hE]
  rw [if_neg hE] at h ⊢
  by_cases h1 : pos0 > negL ∧ sc = .pos
  · rw [if_pos h1]
  rw [if_neg h1] at h ⊢
  by_cases h2 : posL < neg0 ∧ sc = .neg
  · rw [if_pos h2]
  rw [if_neg h2] at h ⊢
  exfalso
  by_cases h3 : F (min hpr hnr) < 0
  · rw [if_pos h3] at h
    split_ifs at h <;> (rcases h with h | h <;> cases h)
  · rw [if_neg h3] at h
    revert h
    cases findRoot F 0 (min hpr hnr) true fuel <;>
      cases findRoot F 0 (min hpr hnr) false fuel <;>
      intro h <;> rcases h with h | h <;> cases h

/-- what the finish needs from the threshold functions of the mirrored problem: the final
threshold call(s) of the path return the negated value(s) -/
def c08e_coreFinalNeg (hpr hnr : ℚ) (tf tn tf' tn' : ℚ → ℚ) : c08e_Path → Prop
  | .capClose => tf' (min hpr hnr) = -(tf (min hpr hnr)) ∧ tn' (min hpr hnr) = -(tn (min hpr hnr))
  | .capPos => tf' hpr = -(tf hpr)
  | .capNeg => tn' hnr = -(tn hnr)
  | .root e => tf' e = -(tf e)
  | _ => True

/-- negate the threshold of a result, keep the rate -/
def c08e_negT (r : Except Err (ℚ × ℚ)) : Except Err (ℚ × ℚ) := r.map (fun (t, e) => (-t, e))

/-- **Finish of the mirrored problem.** -/
theorem c08e_coreFinish_negate (pos0 posL neg0 negL : ℚ) (hpr hnr : ℚ)
    (tf tn tf' tn' : ℚ → ℚ) (p : c08e_Path) (h : c08e_coreFinalNeg hpr hnr tf tn tf' tn' p) :
    c08e_coreFinish (-posL) (-pos0) (-negL) (-neg0) hpr hnr tf' tn' p.mirror =
      c08e_negT (c08e_coreFinish pos0 posL neg0 negL hpr hnr tf tn p) := by
  cases p <;>
    simp only [c08e_Path.mirror, c08e_coreFinish, c08e_negT, Except.map, c08e_coreFinalNeg] at h ⊢
  · simp only [Except.ok.injEq, Prod.mk.injEq, and_true]; ring
  · simp only [Except.ok.injEq, Prod.mk.injEq, and_true]; ring
  · rw [h.1, h.2]
    simp only [Except.ok.injEq, Prod.mk.injEq, and_true]; ring
  · rw [h]
  · rw [h]
  · rw [h]

/-- the rate on each path does not involve the threshold functions or the extreme scores -/
theorem c08e_coreFinish_rate (pos0 posL neg0 negL pos0' posL' neg0' negL' : ℚ) (hpr hnr : ℚ)
    (tf tn tf' tn' : ℚ → ℚ) (p : c08e_Path) :
    (c08e_coreFinish pos0' posL' neg0' negL' hpr hnr tf' tn' p.mirror).map Prod.snd =
      (c08e_coreFinish pos0 posL neg0 negL hpr hnr tf tn p).map Prod.snd := by
  cases p <;> rfl

/-! ### the object level -/

/-- the function handed to `_find_root` by `eer()` -/
def c08e_objective (u : Ulp) (s : Scores) : ℚ → ℚ :=
  eeri_F (thrVal u s .fpr) (thrVal u s .fnr)

/-- `max_eer` -/
def c08e_maxEer (s : Scores) : ℚ := min s.hardPosRatio s.hardNegRatio

/-- the path `s.eer u fuel` takes -/
def c08e_eerPath (u : Ulp) (s : Scores) (fuel : ℕ) : c08e_Path :=
  c08e_corePath s.pos.length s.neg.length (s.pos.getD 0 0) (s.pos.getD (s.pos.length - 1) 0)
    (s.neg.getD 0 0) (s.neg.getD (s.neg.length - 1) 0) s.cfg.scoreClass s.hardPosRatio
    s.hardNegRatio (c08e_objective u s) fuel

/-- the pair returned on a path -/
def c08e_finish (u : Ulp) (s : Scores) (p : c08e_Path) : Except Err (ℚ × ℚ) :=
  c08e_coreFinish (s.pos.getD 0 0) (s.pos.getD (s.pos.length - 1) 0)
    (s.neg.getD 0 0) (s.neg.getD (s.neg.length - 1) 0) s.hardPosRatio s.hardNegRatio
    (thrVal u s .fpr) (thrVal u s .fnr) p

theorem c08e_eer_eq (u : Ulp) (s : Scores) (fuel : ℕ) :
    s.eer u fuel = c08e_finish u s (c08e_eerPath u s fuel) := by
  rw [eeri_eer_eq_core, c08e_core_eq]; rfl

/-- the targets (other than 0) at which `s.eer u fuel` inspects the sign of its objective -/
def c08e_probes (u : Ulp) (s : Scores) (fuel : ℕ) : List ℚ :=
  c08e_coreProbes s.pos.length s.neg.length (s.pos.getD 0 0) (s.pos.getD (s.pos.length - 1) 0)
    (s.neg.getD 0 0) (s.neg.getD (s.neg.length - 1) 0) s.cfg.scoreClass s.hardPosRatio
    s.hardNegRatio (c08e_objective u s) fuel

/-! ### what `eer()` reads from the negated object -/

theorem c08e_hardPos_negate (s : Scores) : s.negate.hardPosRatio = s.hardPosRatio := by
  simp only [Scores.hardPosRatio, Scores.negate, c08n_mirror_length]

theorem c08e_hardNeg_negate (s : Scores) : s.negate.hardNegRatio = s.hardNegRatio := by
  simp only [Scores.hardNegRatio, Scores.negate, c08n_mirror_length]

theorem c08e_maxEer_negate (s : Scores) : c08e_maxEer s.negate = c08e_maxEer s := by
  simp only [c08e_maxEer, c08e_hardPos_negate, c08e_hardNeg_negate]

theorem c08e_pos_len_negate (s : Scores) : s.negate.pos.length = s.pos.length :=
  c08n_mirror_length s.pos

theorem c08e_neg_len_negate (s : Scores) : s.negate.neg.length = s.neg.length :=
  c08n_mirror_length s.neg

/-- a threshold target whose rescaled value is 0 is regular (sentinel on both sides) -/
theorem c08e_regular_zero (s : Scores) (metric : Metric) (h : s.rescale metric 0 = 0) :
    c08n_regular s metric 0 = true := by
  unfold c08n_regular normTarget c08n_excluded
  rw [h]
  cases evenFlips s.cfg metric.increasing <;>
    cases normLc s.cfg metric.increasing metric.ratioClass <;> simp

theorem c08e_regular_fpr_zero (s : Scores) : c08n_regular s .fpr 0 = true :=
  c08e_regular_zero s .fpr (by simp [Scores.rescale])

theorem c08e_regular_fnr_zero (s : Scores) : c08n_regular s .fnr 0 = true :=
  c08e_regular_zero s .fnr (by simp [Scores.rescale])

/-- value of a threshold call on the negated object at a regular target -/
theorem c08e_thrVal_negate (u u' : Ulp) (hc : c08n_NegCompat u u') (s : Scores)
    (metric : Metric) (r : ℚ) (h : (s.metricArray metric).length ≠ 0)
    (hreg : c08n_regular s metric r = true) :
    thrVal u' s.negate metric r = -(thrVal u s metric r) := by
  have h1 := thrVal_ok u s metric r h
  have h2 := C08_negate_threshold u u' hc s metric r hreg
  rw [h1] at h2
  unfold thrVal
  rw [h2, h1]
  rfl

/-- both threshold calls of the objective are regular at `x` -/
def c08e_regularAt (s : Scores) (x : ℚ) : Bool :=
  c08n_regular s .fpr x && c08n_regular s .fnr x

theorem c08e_objective_negate (u u' : Ulp) (hc : c08n_NegCompat u u') (s : Scores)
    (hp : s.pos.length ≠ 0) (hn : s.neg.length ≠ 0) (x : ℚ)
    (hx : c08e_regularAt s x = true) :
    c08e_objective u' s.negate x = c08e_objective u s x := by
  simp only [c08e_regularAt, Bool.and_eq_true] at hx
  simp only [c08e_objective, eeri_F]
  rw [c08e_thrVal_negate u u' hc s .fpr 0 hn (c08e_regular_fpr_zero s),
    c08e_thrVal_negate u u' hc s .fnr 0 hp (c08e_regular_fnr_zero s),
    c08e_thrVal_negate u u' hc s .fpr x hn hx.1,
    c08e_thrVal_negate u u' hc s .fnr x hp hx.2]
  ring

theorem c08e_objective_negate_zero (u u' : Ulp) (hc : c08n_NegCompat u u') (s : Scores)
    (hp : s.pos.length ≠ 0) (hn : s.neg.length ≠ 0) :
    c08e_objective u' s.negate 0 = c08e_objective u s 0 :=
  c08e_objective_negate u u' hc s hp hn 0 (by
    simp only [c08e_regularAt, c08e_regular_fpr_zero, c08e_regular_fnr_zero, Bool.and_self])

/-- the path of the negated object in terms of the mirrored core path -/
theorem c08e_eerPath_negate_core (u' : Ulp) (s : Scores) (fuel : ℕ)
    (hp : s.pos.length ≠ 0) (hn : s.neg.length ≠ 0) :
    c08e_eerPath u' s.negate fuel =
      c08e_corePath s.pos.length s.neg.length (-(s.pos.getD (s.pos.length - 1) 0))
        (-(s.pos.getD 0 0)) (-(s.neg.getD (s.neg.length - 1) 0)) (-(s.neg.getD 0 0))
        s.cfg.scoreClass.flip s.hardPosRatio s.hardNegRatio (c08e_objective u' s.negate) fuel := by
  unfold c08e_eerPath
  rw [c08e_hardPos_negate, c08e_hardNeg_negate]
  have g1 : s.negate.pos.getD 0 0 = -(s.pos.getD (s.pos.length - 1) 0) := c08n_mirror_head s.pos hp
  have g2 : s.negate.pos.getD (s.negate.pos.length - 1) 0 = -(s.pos.getD 0 0) :=
    c08n_mirror_last s.pos hp
  have g3 : s.negate.neg.getD 0 0 = -(s.neg.getD (s.neg.length - 1) 0) := c08n_mirror_head s.neg hn
  have g4 : s.negate.neg.getD (s.negate.neg.length - 1) 0 = -(s.neg.getD 0 0) :=
    c08n_mirror_last s.neg hn
  rw [g1, g2, g3, g4, c08e_pos_len_negate, c08e_neg_len_negate]
  rfl

theorem c08e_finish_negate_core (u' : Ulp) (s : Scores) (p : c08e_Path)
    (hp : s.pos.length ≠ 0) (hn : s.neg.length ≠ 0) :
    c08e_finish u' s.negate p =
      c08e_coreFinish (-(s.pos.getD (s.pos.length - 1) 0))
        (-(s.pos.getD 0 0)) (-(s.neg.getD (s.neg.length - 1) 0)) (-(s.neg.getD 0 0))
        s.hardPosRatio s.hardNegRatio (thrVal u' s.negate .fpr) (thrVal u' s.negate .fnr) p := by
  unfold c08e_finish
  rw [c08e_hardPos_negate, c08e_hardNeg_negate]
  have g1 : s.negate.pos.getD 0 0 = -(s.pos.getD (s.pos.length - 1) 0) := c08n_mirror_head s.pos hp
  have g2 : s.negate.pos.getD (s.negate.pos.length - 1) 0 = -(s.pos.getD 0 0) :=
    c08n_mirror_last s.pos hp
  have g3 : s.negate.neg.getD 0 0 = -(s.neg.getD (s.neg.length - 1) 0) := c08n_mirror_head s.neg hn
  have g4 : s.negate.neg.getD (s.negate.neg.length - 1) 0 = -(s.neg.getD 0 0) :=
    c08n_mirror_last s.neg hn
  rw [g1, g2, g3, g4]

/-- an empty class: both calls raise -/
theorem c08e_eer_empty (u : Ulp) (s : Scores) (fuel : ℕ)
    (h : s.pos.length = 0 ∨ s.neg.length = 0) : s.eer u fuel = .error .other := by
  rw [eeri_eer_eq_core]; unfold eeri_core; rw [if_pos h]

/-! ### regularity of a whole run -/

/-- the final threshold call(s) of a path are regular -/
def c08e_finalRegular (s : Scores) : c08e_Path → Bool
  | .capClose => c08n_regular s .fpr (c08e_maxEer s) && c08n_regular s .fnr (c08e_maxEer s)
  | .capPos => c08n_regular s .fpr s.hardPosRatio
  | .capNeg => c08n_regular s .fnr s.hardNegRatio
  | .root e => c08n_regular s .fpr e
  | _ => true

/-- **Decidable hypothesis of `C08_negate_eer_partial`**: every threshold call that
`s.eer u fuel` makes (at `max_eer`, at the midpoints of the two bisections, and the final one)
has its normalised target outside the excluded stretch of `C08_negate_threshold`. -/
def c08e_regularRun (u : Ulp) (s : Scores) (fuel : ℕ) : Bool :=
  (c08e_probes u s fuel).all (c08e_regularAt s) && c08e_finalRegular s (c08e_eerPath u s fuel)

theorem c08e_finalNeg_of_regular (u u' : Ulp) (hc : c08n_NegCompat u u') (s : Scores)
    (hp : s.pos.length ≠ 0) (hn : s.neg.length ≠ 0) (p : c08e_Path)
    (h : c08e_finalRegular s p = true) :
    c08e_coreFinalNeg s.hardPosRatio s.hardNegRatio (thrVal u s .fpr) (thrVal u s .fnr)
      (thrVal u' s.negate .fpr) (thrVal u' s.negate .fnr) p := by
  cases p <;> simp only [c08e_finalRegular, c08e_maxEer, Bool.and_eq_true] at h <;>
    simp only [c08e_coreFinalNeg]
  · exact ⟨c08e_thrVal_negate u u' hc s .fpr _ hn h.1, c08e_thrVal_negate u u' hc s .fnr _ hp h.2⟩
  · exact c08e_thrVal_negate u u' hc s .fpr _ hn h
  · exact c08e_thrVal_negate u u' hc s .fnr _ hp h
  · exact c08e_thrVal_negate u u' hc s .fpr _ hn h

/-! ### the excluded stretch in terms of the rescaled target -/

/-- the excluded stretch for a class of `N` hard samples in terms of the rescaled target `ρ`
(`ρ = min(x / hard_ratio, 1)`): within `1/N` of 1 for `equal_class = pos`, within `1/N` of 0 for
`equal_class = neg` (end points 0 and 1 themselves are never excluded) -/
def c08e_inStretch (ec : Label) (N : ℕ) (ρ : ℚ) : Prop :=
  0 < ρ ∧ ρ < 1 ∧ (if ec = .pos then 1 - 1 / (N : ℚ) ≤ ρ else ρ ≤ 1 / (N : ℚ))

instance (ec : Label) (N : ℕ) (ρ : ℚ) : Decidable (c08e_inStretch ec N ρ) := by
  unfold c08e_inStretch; exact inferInstance

/-- for the two metrics `eer()` uses, regularity only depends on `equal_class`, the class size
and the rescaled target -/
theorem c08e_regular_fnr_iff (s : Scores) (x : ℚ) :
    c08n_regular s .fnr x = true ↔
      ¬ c08e_inStretch s.cfg.equalClass s.pos.length (s.rescale .fnr x) := by
  obtain ⟨p, n, ep, en, ⟨sc, ec⟩⟩ := s
  generalize hρ : Scores.rescale ⟨p, n, ep, en, ⟨sc, ec⟩⟩ .fnr x = ρ
  cases sc <;> cases ec <;>
    simp only [c08n_regular, c08n_excluded, normTarget, normLc, normalise, evenFlips,
      Metric.increasing, Metric.ratioClass, Scores.metricArray, c08e_inStretch, hρ,
      Bool.not_eq_true', decide_eq_false_iff_not, beq_self_eq_true, bne_self_eq_false,
      Bool.not_true, Bool.not_false, if_true, if_false, Bool.false_eq_true, reduceCtorEq,
      bne_iff_ne, ne_eq, not_false_eq_true, beq_iff_eq] <;>
    (try simp) <;>
    constructor <;> intro h a b <;> by_contra hcon <;>
    have := h (by linarith) (by linarith) <;> linarith

theorem c08e_regular_fpr_iff (s : Scores) (x : ℚ) :
    c08n_regular s .fpr x = true ↔
      ¬ c08e_inStretch s.cfg.equalClass s.neg.length (s.rescale .fpr x) := by
  obtain ⟨p, n, ep, en, ⟨sc, ec⟩⟩ := s
  generalize hρ : Scores.rescale ⟨p, n, ep, en, ⟨sc, ec⟩⟩ .fpr x = ρ
  cases sc <;> cases ec <;>
    simp only [c08n_regular, c08n_excluded, normTarget, normLc, normalise, evenFlips,
      Metric.increasing, Metric.ratioClass, Scores.metricArray, c08e_inStretch, hρ,
      Bool.not_eq_true', decide_eq_false_iff_not, beq_self_eq_true, bne_self_eq_false,
      Bool.not_false, if_true, if_false, Bool.false_eq_true, reduceCtorEq,
      bne_iff_ne, ne_eq, not_false_eq_true, beq_iff_eq] <;>
    (try simp) <;>
    constructor <;> intro h a b <;> by_contra hcon <;>
    have := h (by linarith) (by linarith) <;> linarith

theorem c08e_regularAt_iff (s : Scores) (x : ℚ) :
    c08e_regularAt s x = true ↔
      ¬ c08e_inStretch s.cfg.equalClass s.neg.length (min (x / s.hardNegRatio) 1) ∧
      ¬ c08e_inStretch s.cfg.equalClass s.pos.length (min (x / s.hardPosRatio) 1) := by
  simp only [c08e_regularAt, Bool.and_eq_true, c08e_regular_fpr_iff, c08e_regular_fnr_iff,
    Scores.rescale]

end SA
