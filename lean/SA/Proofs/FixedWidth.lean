/-
Helper lemmas for the `fixed_width_band_ci` part of C16: clipping, the scan of `np.interp` on a
monotone table (bounds, monotone in the table), the shape / order / monotonicity of displaced
curves, the bisection loop.
-/
import SA.Model.FixedWidth
import SA.Proofs.Quantile
import Mathlib.Tactic.Linarith
import Mathlib.Tactic.Ring
import Mathlib.Tactic.LinearCombination
import Mathlib.Tactic.NormNum
import Mathlib.Tactic.FieldSimp
import Mathlib.Tactic.Positivity
import Mathlib.Algebra.Order.Field.Rat
import Mathlib.Data.List.Forall2
import Mathlib.Data.List.Pairwise

namespace SA

/-! ### clipping -/

theorem c16f_clip01_mono {a b : ℚ} (h : a ≤ b) : c16f_clip01 a ≤ c16f_clip01 b := by
  unfold c16f_clip01
  exact min_le_min (max_le_max h (le_refl _)) (le_refl _)

theorem c16f_clip01_nonneg (a : ℚ) : 0 ≤ c16f_clip01 a := by
  unfold c16f_clip01
  exact le_min (le_max_right _ _) (by norm_num)

theorem c16f_clip01_le_one (a : ℚ) : c16f_clip01 a ≤ 1 := by
  unfold c16f_clip01
  exact min_le_right _ _

/-! ### one segment of the interpolation -/

/-- on a descending segment the interpolated value is at most the left ordinate -/
theorem c16f_seg_le {a b a' b' x : ℚ} (hax : a ≤ x) (hxa : x < a') (hb : b' ≤ b) :
    (b' - b) / (a' - a) * (x - a) + b ≤ b := by
  have hd : 0 < a' - a := by linarith
  have h1 : (b' - b) / (a' - a) ≤ 0 := div_nonpos_of_nonpos_of_nonneg (by linarith) hd.le
  have h2 : (b' - b) / (a' - a) * (x - a) ≤ 0 := mul_nonpos_of_nonpos_of_nonneg h1 (by linarith)
  linarith

/-- ... and at least the right ordinate -/
theorem c16f_seg_ge {a b a' b' x : ℚ} (hax : a ≤ x) (hxa : x < a') (hb : b' ≤ b) :
    b' ≤ (b' - b) / (a' - a) * (x - a) + b := by
  have hd : 0 < a' - a := by linarith
  have ht : (b' - b) / (a' - a) * (x - a) = (b' - b) * ((x - a) / (a' - a)) := by ring
  have ht1 : (x - a) / (a' - a) ≤ 1 := by
    rw [div_le_one hd]; linarith
  have ht0 : 0 ≤ (x - a) / (a' - a) := div_nonneg (by linarith) hd.le
  rw [ht]
  nlinarith

/-- moving both end points of a descending segment to the right and up raises the interpolated
value at every common abscissa -/
theorem c16f_seg_mono {aM bM aM' bM' aP bP aP' bP' x : ℚ}
    (ha : aM ≤ aP) (hb : bM ≤ bP) (ha' : aM' ≤ aP') (hb' : bM' ≤ bP')
    (hPx : aP ≤ x) (hxM : x < aM') (hP : bP' ≤ bP) :
    (bM' - bM) / (aM' - aM) * (x - aM) + bM ≤ (bP' - bP) / (aP' - aP) * (x - aP) + bP := by
  have hdM : 0 < aM' - aM := by linarith
  have hdP : 0 < aP' - aP := by linarith
  have e1 : (bM' - bM) / (aM' - aM) * (x - aM) = (bM' - bM) * ((x - aM) / (aM' - aM)) := by ring
  have e2 : (bP' - bP) / (aP' - aP) * (x - aP) = (bP' - bP) * ((x - aP) / (aP' - aP)) := by ring
  rw [e1, e2]
  generalize ht : (x - aM) / (aM' - aM) = t
  generalize hu : (x - aP) / (aP' - aP) = u
  have ht' : t * (aM' - aM) = x - aM := by rw [← ht]; exact div_mul_cancel₀ _ hdM.ne'
  have hu' : u * (aP' - aP) = x - aP := by rw [← hu]; exact div_mul_cancel₀ _ hdP.ne'
  have ht0 : 0 ≤ t := by rw [← ht]; exact div_nonneg (by linarith) hdM.le
  have ht1 : t ≤ 1 := by rw [← ht, div_le_one hdM]; linarith
  have key : (t - u) * (aP' - aP) = t * (aP' - aM') + (1 - t) * (aP - aM) := by
    linear_combination ht' - hu'
  have hut : u ≤ t := by
    have h0 : 0 ≤ (t - u) * (aP' - aP) := by
      rw [key]
      exact add_nonneg (mul_nonneg ht0 (by linarith)) (mul_nonneg (by linarith) (by linarith))
    have := nonneg_of_mul_nonneg_left h0 hdP
    linarith
  have h3 : (t - u) * (bP - bP') ≥ 0 := mul_nonneg (by linarith) (by linarith)
  have h4 : (1 - t) * (bP - bM) ≥ 0 := mul_nonneg (by linarith) (by linarith)
  have h5 : t * (bP' - bM') ≥ 0 := mul_nonneg ht0 (by linarith)
  nlinarith

/-! ### the scan of `np.interp` on a monotone table -/

/-- order of two table points, the first one earlier in the table: abscissae non-decreasing,
ordinates non-increasing -/
def c16f_tableR (p q : ℚ × ℚ) : Prop := p.1 ≤ q.1 ∧ q.2 ≤ p.2

/-- the second point lies to the right of and above the first -/
def c16f_tableLe (p q : ℚ × ℚ) : Prop := p.1 ≤ q.1 ∧ p.2 ≤ q.2

theorem c16f_getLast_cons (p c : ℚ × ℚ) (rest : List (ℚ × ℚ)) :
    (c :: rest).getLast?.getD p = rest.getLast?.getD c := by
  cases rest with
  | nil => rfl
  | cons d r =>
    rw [List.getLast?_cons_cons]
    cases h : (d :: r).getLast? with
    | none => simp at h
    | some v => rfl

/-- the last ordinate of a monotone table is its smallest -/
theorem c16f_last_le (p : ℚ × ℚ) (rest : List (ℚ × ℚ)) (h : (p :: rest).Pairwise c16f_tableR) :
    (rest.getLast?.getD p).2 ≤ p.2 ∧ p.1 ≤ (rest.getLast?.getD p).1 := by
  cases hl : rest.getLast? with
  | none => exact ⟨le_refl _, le_refl _⟩
  | some q =>
    have hq : q ∈ rest := List.mem_of_getLast? hl
    have := (List.pairwise_cons.mp h).1 q hq
    exact ⟨this.2, this.1⟩

theorem c16f_scan_le (x : ℚ) : ∀ (rest : List (ℚ × ℚ)) (a b : ℚ),
    ((a, b) :: rest).Pairwise c16f_tableR → a ≤ x → c16f_interpScan x a b rest ≤ b := by
  intro rest
  induction rest with
  | nil => intro a b _ _; exact le_refl _
  | cons p rest ih =>
    intro a b h hax
    obtain ⟨a', b'⟩ := p
    have h1 := List.pairwise_cons.mp h
    have hR : c16f_tableR (a, b) (a', b') := h1.1 _ List.mem_cons_self
    unfold c16f_interpScan
    by_cases hc : a' ≤ x
    · simp only [hc, if_true]
      exact le_trans (ih a' b' h1.2 hc) hR.2
    · simp only [hc, if_false]
      by_cases he : a = x
      · simp only [he, if_true]; exact le_refl _
      · simp only [he, if_false]
        exact c16f_seg_le hax (not_le.mp hc) hR.2

theorem c16f_scan_ge_last (x : ℚ) : ∀ (rest : List (ℚ × ℚ)) (a b : ℚ),
    ((a, b) :: rest).Pairwise c16f_tableR → a ≤ x →
    (rest.getLast?.getD (a, b)).2 ≤ c16f_interpScan x a b rest := by
  intro rest
  induction rest with
  | nil => intro a b _ _; exact le_refl _
  | cons p rest ih =>
    intro a b h hax
    obtain ⟨a', b'⟩ := p
    have h1 := List.pairwise_cons.mp h
    have hR : c16f_tableR (a, b) (a', b') := h1.1 _ List.mem_cons_self
    rw [c16f_getLast_cons]
    unfold c16f_interpScan
    by_cases hc : a' ≤ x
    · simp only [hc, if_true]
      exact ih a' b' h1.2 hc
    · simp only [hc, if_false]
      have hl := (c16f_last_le (a', b') rest h1.2).1
      by_cases he : a = x
      · simp only [he, if_true]; exact le_trans hl hR.2
      · simp only [he, if_false]
        exact le_trans hl (c16f_seg_ge hax (not_le.mp hc) hR.2)

/-- **the scan is monotone in the table**: if every point of the second table lies to the right of
and above the corresponding point of the first, the second scan is at least the first. -/
theorem c16f_scan_mono (x : ℚ) : ∀ (rM rP : List (ℚ × ℚ)) (aM bM aP bP : ℚ),
    List.Forall₂ c16f_tableLe rM rP →
    ((aM, bM) :: rM).Pairwise c16f_tableR → ((aP, bP) :: rP).Pairwise c16f_tableR →
    aM ≤ aP → bM ≤ bP → aP ≤ x →
    c16f_interpScan x aM bM rM ≤ c16f_interpScan x aP bP rP := by
  intro rM rP aM bM aP bP hF
  induction hF generalizing aM bM aP bP with
  | nil => intro _ _ _ hb _; exact hb
  | @cons pM pP rM rP hp _ ih =>
    intro hM hP ha hb hPx
    obtain ⟨aM', bM'⟩ := pM
    obtain ⟨aP', bP'⟩ := pP
    have hM1 := List.pairwise_cons.mp hM
    have hP1 := List.pairwise_cons.mp hP
    have hRM : c16f_tableR (aM, bM) (aM', bM') := hM1.1 _ List.mem_cons_self
    have hRP : c16f_tableR (aP, bP) (aP', bP') := hP1.1 _ List.mem_cons_self
    have ha' : aM' ≤ aP' := hp.1
    have hb' : bM' ≤ bP' := hp.2
    have hRM1 : aM ≤ aM' := hRM.1
    have hRM2 : bM' ≤ bM := hRM.2
    have hRP1 : aP ≤ aP' := hRP.1
    have hRP2 : bP' ≤ bP := hRP.2
    by_cases hcP : aP' ≤ x
    · have hcM : aM' ≤ x := le_trans ha' hcP
      rw [c16f_interpScan, c16f_interpScan]
      simp only [hcP, hcM, if_true]
      exact ih aM' bM' aP' bP' hM1.2 hP1.2 ha' hb' hcP
    · have hxP : x < aP' := not_le.mp hcP
      -- the value of the second scan is at least `bP'`
      have hPge : bP' ≤ c16f_interpScan x aP bP ((aP', bP') :: rP) := by
        rw [c16f_interpScan]
        simp only [hcP, if_false]
        by_cases he : aP = x
        · simp only [he, if_true]; exact hRP2
        · simp only [he, if_false]; exact c16f_seg_ge hPx hxP hRP2
      by_cases hcM : aM' ≤ x
      · have h1 : c16f_interpScan x aM bM ((aM', bM') :: rM) = c16f_interpScan x aM' bM' rM := by
          rw [c16f_interpScan]; simp only [hcM, if_true]
        rw [h1]
        exact le_trans (c16f_scan_le x rM aM' bM' hM1.2 hcM) (le_trans hb' hPge)
      · have hxM : x < aM' := not_le.mp hcM
        rw [c16f_interpScan, c16f_interpScan]
        simp only [hcP, hcM, if_false]
        by_cases heM : aM = x
        · have heP : aP = x := le_antisymm hPx (heM ▸ ha)
          simp only [heM, heP, if_true]; exact hb
        · simp only [heM, if_false]
          have haMx : aM ≤ x := le_trans ha hPx
          by_cases heP : aP = x
          · simp only [heP, if_true]
            exact le_trans (c16f_seg_le haMx hxM hRM2) hb
          · simp only [heP, if_false]
            exact c16f_seg_mono ha hb ha' hb' hPx hxM hRP2

/-! ### `np.interp` for one abscissa -/

/-- on a monotone table every interpolated value lies between the last and the first ordinate -/
theorem c16f_interp1_range (x a b : ℚ) (rest : List (ℚ × ℚ))
    (h : ((a, b) :: rest).Pairwise c16f_tableR) :
    (rest.getLast?.getD (a, b)).2 ≤ c16f_interp1 x ((a, b) :: rest) ∧
    c16f_interp1 x ((a, b) :: rest) ≤ b := by
  have hl := (c16f_last_le (a, b) rest h).1
  unfold c16f_interp1
  simp only []
  by_cases h1 : (rest.getLast?.getD (a, b)).1 < x
  · simp only [h1, if_true]; exact ⟨le_refl _, hl⟩
  · simp only [h1, if_false]
    by_cases h2 : x < a
    · simp only [h2, if_true]; exact ⟨hl, le_refl _⟩
    · simp only [h2, if_false]
      exact ⟨c16f_scan_ge_last x rest a b h (not_lt.mp h2), c16f_scan_le x rest a b h (not_lt.mp h2)⟩

theorem c16f_last_forall2 {R : ℚ × ℚ → ℚ × ℚ → Prop} {rM rP : List (ℚ × ℚ)}
    (hF : List.Forall₂ R rM rP) : ∀ pM pP, R pM pP →
    R (rM.getLast?.getD pM) (rP.getLast?.getD pP) := by
  induction hF with
  | nil => intro pM pP h; exact h
  | @cons cM cP rM rP hc _ ih =>
    intro pM pP _
    rw [c16f_getLast_cons, c16f_getLast_cons]
    exact ih cM cP hc

/-- **`np.interp` is monotone in the table**: two monotone tables of the same length, every point of
the second to the right of and above the corresponding point of the first; then at every abscissa
the second interpolated value is at least the first. -/
theorem c16f_interp1_mono (x : ℚ) (ptsM ptsP : List (ℚ × ℚ))
    (hF : List.Forall₂ c16f_tableLe ptsM ptsP)
    (hM : ptsM.Pairwise c16f_tableR) (hP : ptsP.Pairwise c16f_tableR) :
    c16f_interp1 x ptsM ≤ c16f_interp1 x ptsP := by
  cases hF with
  | nil => exact le_refl _
  | @cons pM pP rM rP hp hF =>
    obtain ⟨aM, bM⟩ := pM
    obtain ⟨aP, bP⟩ := pP
    have ha : aM ≤ aP := hp.1
    have hb : bM ≤ bP := hp.2
    have hlast := c16f_last_forall2 hF (aM, bM) (aP, bP) hp
    have hrP := c16f_interp1_range x aP bP rP hP
    by_cases h1 : (rM.getLast?.getD (aM, bM)).1 < x
    · have e : c16f_interp1 x ((aM, bM) :: rM) = (rM.getLast?.getD (aM, bM)).2 := by
        unfold c16f_interp1; simp only [h1, if_true]
      rw [e]
      exact le_trans hlast.2 hrP.1
    · have h1P : ¬ (rP.getLast?.getD (aP, bP)).1 < x := by
        intro hc; exact h1 (lt_of_le_of_lt hlast.1 hc)
      by_cases h2 : x < aM
      · have h2P : x < aP := lt_of_lt_of_le h2 ha
        unfold c16f_interp1
        simp only [h1, h1P, h2, h2P, if_true, if_false]
        exact hb
      · have eM : c16f_interp1 x ((aM, bM) :: rM) = c16f_interpScan x aM bM rM := by
          unfold c16f_interp1; simp only [h1, h2, if_false]
        rw [eM]
        by_cases h2P : x < aP
        · have eP : c16f_interp1 x ((aP, bP) :: rP) = bP := by
            unfold c16f_interp1; simp only [h1P, h2P, if_true, if_false]
          rw [eP]
          exact le_trans (c16f_scan_le x rM aM bM hM (not_lt.mp h2)) hb
        · have eP : c16f_interp1 x ((aP, bP) :: rP) = c16f_interpScan x aP bP rP := by
            unfold c16f_interp1; simp only [h1P, h2P, if_false]
          rw [eP]
          exact c16f_scan_mono x rM rP aM bM aP bP hF hM hP ha hb (not_lt.mp h2P)

/-! ### displaced curves -/

theorem c16f_displace_spec (top : ℚ) (x y : List ℚ) (v0 v1 : ℚ) (x' y' : List ℚ)
    (h : c16f_displaceCurve top x y v0 v1 = .ok (x', y')) :
    x'.length = x.length ∧ y'.length = y.length ∧ x.length ≠ 0 ∧ y.length ≠ 0 ∧
    (∀ i (hi : i < x'.length) (hx : i < x.length),
      x'[i] = if x.length - 1 = i then top else if 0 = i then 0 else c16f_clip01 (x[i] + v0)) ∧
    (∀ i (hi : i < y'.length) (hy : i < y.length),
      y'[i] = if y.length - 1 = i then 0 else if 0 = i then top else c16f_clip01 (y[i] + v1)) := by
  unfold c16f_displaceCurve at h
  simp only [List.length_map] at h
  split at h
  · cases h
  · rename_i hne
    rw [not_or] at hne
    injection h with h
    injection h with hx hy
    subst hx; subst hy
    refine ⟨by simp, by simp, hne.1, hne.2, ?_, ?_⟩
    · intro i hi hx
      simp [List.getElem_set]
    · intro i hi hy
      simp [List.getElem_set]

theorem c16f_displace_sortedX (top : ℚ) (x y : List ℚ) (v0 v1 : ℚ) (x' y' : List ℚ)
    (h : c16f_displaceCurve top x y v0 v1 = .ok (x', y')) (hx : x.Pairwise (· ≤ ·)) (ht : 1 ≤ top) :
    x'.Pairwise (· ≤ ·) := by
  obtain ⟨hlx, _, _, _, hX, _⟩ := c16f_displace_spec top x y v0 v1 x' y' h
  rw [List.pairwise_iff_getElem] at hx ⊢
  intro i j hi hj hij
  rw [hX i hi (by omega), hX j hj (by omega)]
  have hne : ¬ (x.length - 1 = i) := by omega
  simp only [hne, if_false]
  by_cases hjl : x.length - 1 = j
  · simp only [hjl, if_true]
    by_cases h0 : 0 = i
    · simp only [h0, if_true]; linarith
    · simp only [h0, if_false]; exact le_trans (c16f_clip01_le_one _) ht
  · have hj0 : ¬ (0 = j) := by omega
    simp only [hjl, hj0, if_false]
    by_cases h0 : 0 = i
    · simp only [h0, if_true]; exact c16f_clip01_nonneg _
    · simp only [h0, if_false]
      exact c16f_clip01_mono (by have := hx i j (by omega) (by omega) hij; linarith)

theorem c16f_displace_sortedY (top : ℚ) (x y : List ℚ) (v0 v1 : ℚ) (x' y' : List ℚ)
    (h : c16f_displaceCurve top x y v0 v1 = .ok (x', y')) (hy : y.Pairwise (· ≥ ·)) (ht : 1 ≤ top) :
    y'.Pairwise (· ≥ ·) := by
  obtain ⟨_, hly, _, _, _, hY⟩ := c16f_displace_spec top x y v0 v1 x' y' h
  rw [List.pairwise_iff_getElem] at hy ⊢
  intro i j hi hj hij
  rw [hY i hi (by omega), hY j hj (by omega)]
  have hne : ¬ (y.length - 1 = i) := by omega
  simp only [hne, if_false]
  by_cases hjl : y.length - 1 = j
  · simp only [hjl, if_true]
    by_cases h0 : 0 = i
    · simp only [h0, if_true]; show (0:ℚ) ≤ top; linarith
    · simp only [h0, if_false]; exact c16f_clip01_nonneg _
  · have hj0 : ¬ (0 = j) := by omega
    simp only [hjl, hj0, if_false]
    by_cases h0 : 0 = i
    · simp only [h0, if_true]; exact le_trans (c16f_clip01_le_one _) ht
    · simp only [h0, if_false]
      exact c16f_clip01_mono (by have := hy i j (by omega) (by omega) hij; linarith)

/-- a larger displacement vector moves every point of the displaced curve to the right and up -/
theorem c16f_displace_mono (top : ℚ) (x y : List ℚ) (v0 v1 w0 w1 : ℚ) (xv yv xw yw : List ℚ)
    (hv : c16f_displaceCurve top x y v0 v1 = .ok (xv, yv))
    (hw : c16f_displaceCurve top x y w0 w1 = .ok (xw, yw)) (h0 : v0 ≤ w0) (h1 : v1 ≤ w1) :
    List.Forall₂ (· ≤ ·) xv xw ∧ List.Forall₂ (· ≤ ·) yv yw := by
  obtain ⟨hlxv, hlyv, _, _, hXv, hYv⟩ := c16f_displace_spec top x y v0 v1 xv yv hv
  obtain ⟨hlxw, hlyw, _, _, hXw, hYw⟩ := c16f_displace_spec top x y w0 w1 xw yw hw
  constructor
  · rw [List.forall₂_iff_get]
    refine ⟨by omega, ?_⟩
    intro i h₁ h₂
    simp only [List.get_eq_getElem]
    rw [hXv i h₁ (by omega), hXw i h₂ (by omega)]
    split
    · exact le_refl _
    · split
      · exact le_refl _
      · exact c16f_clip01_mono (by linarith)
  · rw [List.forall₂_iff_get]
    refine ⟨by omega, ?_⟩
    intro i h₁ h₂
    simp only [List.get_eq_getElem]
    rw [hYv i h₁ (by omega), hYw i h₂ (by omega)]
    split
    · exact le_refl _
    · split
      · exact le_refl _
      · exact c16f_clip01_mono (by linarith)

theorem c16f_zip_pairwise : ∀ (X Y : List ℚ), X.Pairwise (· ≤ ·) → Y.Pairwise (· ≥ ·) →
    (X.zip Y).Pairwise c16f_tableR := by
  intro X
  induction X with
  | nil => intro Y _ _; simp
  | cons a X ih =>
    intro Y hX hY
    cases Y with
    | nil => simp
    | cons b Y =>
      rw [List.zip_cons_cons, List.pairwise_cons]
      have hX1 := List.pairwise_cons.mp hX
      have hY1 := List.pairwise_cons.mp hY
      refine ⟨?_, ih Y hX1.2 hY1.2⟩
      intro q hq
      obtain ⟨q1, q2⟩ := q
      have := List.of_mem_zip hq
      exact ⟨hX1.1 q1 this.1, hY1.1 q2 this.2⟩

theorem c16f_zip_forall2 {X X' : List ℚ} (hX : List.Forall₂ (· ≤ ·) X X') :
    ∀ {Y Y' : List ℚ}, List.Forall₂ (· ≤ ·) Y Y' →
    List.Forall₂ c16f_tableLe (X.zip Y) (X'.zip Y') := by
  induction hX with
  | nil => intro Y Y' _; simp
  | @cons a a' X X' ha _ ih =>
    intro Y Y' hY
    cases hY with
    | nil => simp
    | @cons b b' Y Y' hb hY =>
      rw [List.zip_cons_cons, List.zip_cons_cons]
      exact List.Forall₂.cons ⟨ha, hb⟩ (ih hY)

/-! ### the band assembly -/

theorem c16f_displace_ok (top : ℚ) (x y : List ℚ) (v0 v1 : ℚ) (hx : x.length ≠ 0) (hy : y.length ≠ 0) :
    ∃ x' y', c16f_displaceCurve top x y v0 v1 = .ok (x', y') := by
  unfold c16f_displaceCurve
  simp only [List.length_map]
  rw [if_neg (by rw [not_or]; exact ⟨hx, hy⟩)]
  exact ⟨_, _, rfl⟩

theorem c16f_interp_ok (xs xp fp : List ℚ) (h0 : xp.length ≠ 0) (hl : xp.length = fp.length) :
    c16f_interp xs xp fp = .ok (xs.map fun x => c16f_interp1 x (xp.zip fp)) := by
  unfold c16f_interp
  rw [if_neg (by rw [not_or, not_not]; exact ⟨h0, hl⟩)]

theorem c16f_interp_inv (xs xp fp r : List ℚ) (h : c16f_interp xs xp fp = .ok r) :
    xp.length ≠ 0 ∧ xp.length = fp.length ∧ r = xs.map fun x => c16f_interp1 x (xp.zip fp) := by
  unfold c16f_interp at h
  split at h
  · cases h
  · rename_i hc
    rw [not_or, not_not] at hc
    injection h with h
    exact ⟨hc.1, hc.2, h.symm⟩

/-- the band written out: rows `(lower, upper)`, one per point of the curve -/
theorem c16f_band_eq (top : ℚ) (f g : List ℚ) (k delta : ℚ) (hl : f.length = g.length)
    (hn : f.length ≠ 0) :
    ∃ fP gP fM gM,
      c16f_displaceCurve top f g delta (delta * k) = .ok (fP, gP) ∧
      c16f_displaceCurve top f g (-delta) (-(delta * k)) = .ok (fM, gM) ∧
      c16f_bandFromDelta top f g k delta = .ok
        (g.map (fun q => (c16f_interp1 q (gM.reverse.zip fM.reverse),
                          c16f_interp1 q (gP.reverse.zip fP.reverse))),
         f.map (fun q => (c16f_interp1 q (fM.zip gM), c16f_interp1 q (fP.zip gP)))) := by
  have hg : g.length ≠ 0 := by omega
  obtain ⟨fP, gP, hP⟩ := c16f_displace_ok top f g delta (delta * k) hn hg
  obtain ⟨fM, gM, hM⟩ := c16f_displace_ok top f g (-delta) (-(delta * k)) hn hg
  obtain ⟨hlfP, hlgP, _, _, _, _⟩ := c16f_displace_spec top f g _ _ fP gP hP
  obtain ⟨hlfM, hlgM, _, _, _, _⟩ := c16f_displace_spec top f g _ _ fM gM hM
  refine ⟨fP, gP, fM, gM, hP, hM, ?_⟩
  unfold c16f_bandFromDelta
  rw [hP, hM]
  simp only []
  rw [c16f_interp_ok g gM.reverse fM.reverse (by rw [List.length_reverse]; omega) (by rw [List.length_reverse, List.length_reverse]; omega),
    c16f_interp_ok g gP.reverse fP.reverse (by rw [List.length_reverse]; omega) (by rw [List.length_reverse, List.length_reverse]; omega),
    c16f_interp_ok f fM gM (by omega) (by omega), c16f_interp_ok f fP gP (by omega) (by omega)]
  simp only [List.zip_map']

/-- the band function returns only for two arrays of the same positive length -/
theorem c16f_band_inv (top : ℚ) (f g : List ℚ) (k delta : ℚ) (b : List Iv × List Iv)
    (h : c16f_bandFromDelta top f g k delta = .ok b) : f.length = g.length ∧ f.length ≠ 0 := by
  unfold c16f_bandFromDelta at h
  split at h
  · cases h
  · rename_i fP gP hP
    split at h
    · cases h
    · rename_i fM gM hM
      obtain ⟨hlfM, hlgM, hf0, _, _, _⟩ := c16f_displace_spec top f g _ _ fM gM hM
      split at h
      · cases h
      · rename_i fnrLo hLo
        obtain ⟨_, hlen, _⟩ := c16f_interp_inv _ _ _ _ hLo
        simp only [List.length_reverse] at hlen
        exact ⟨by omega, hf0⟩


/-- every entry of a displaced curve lies in `[0, top]` -/
theorem c16f_displace_range (top : ℚ) (x y : List ℚ) (v0 v1 : ℚ) (x' y' : List ℚ)
    (h : c16f_displaceCurve top x y v0 v1 = .ok (x', y')) (ht : 1 ≤ top) :
    (∀ a ∈ x', 0 ≤ a ∧ a ≤ top) ∧ (∀ b ∈ y', 0 ≤ b ∧ b ≤ top) := by
  obtain ⟨hlx, hly, _, _, hX, hY⟩ := c16f_displace_spec top x y v0 v1 x' y' h
  have h01 : ∀ c : ℚ, 0 ≤ c16f_clip01 c ∧ c16f_clip01 c ≤ top := fun c =>
    ⟨c16f_clip01_nonneg c, le_trans (c16f_clip01_le_one c) ht⟩
  constructor
  · intro a ha
    obtain ⟨i, hi, rfl⟩ := List.mem_iff_getElem.mp ha
    rw [hX i hi (by omega)]
    split
    · exact ⟨by linarith, le_refl _⟩
    · split
      · exact ⟨le_refl _, by linarith⟩
      · exact h01 _
  · intro b hb
    obtain ⟨i, hi, rfl⟩ := List.mem_iff_getElem.mp hb
    rw [hY i hi (by omega)]
    split
    · exact ⟨le_refl _, by linarith⟩
    · split
      · exact ⟨by linarith, le_refl _⟩
      · exact h01 _

theorem c16f_getLast_mem (p : ℚ × ℚ) (rest : List (ℚ × ℚ)) : rest.getLast?.getD p ∈ p :: rest := by
  cases hl : rest.getLast? with
  | none => exact List.mem_cons_self
  | some q => exact List.mem_cons_of_mem _ (List.mem_of_getLast? hl)

/-- on a monotone non-empty table whose ordinates lie in `[lo, hi]` so does every interpolated value -/
theorem c16f_interp1_bounds (x lo hi : ℚ) (pts : List (ℚ × ℚ)) (hne : pts ≠ [])
    (h : pts.Pairwise c16f_tableR) (hb : ∀ p ∈ pts, lo ≤ p.2 ∧ p.2 ≤ hi) :
    lo ≤ c16f_interp1 x pts ∧ c16f_interp1 x pts ≤ hi := by
  cases pts with
  | nil => exact absurd rfl hne
  | cons p rest =>
    obtain ⟨a, b⟩ := p
    have hr := c16f_interp1_range x a b rest h
    have h1 := hb _ (c16f_getLast_mem (a, b) rest)
    have h2 := hb (a, b) List.mem_cons_self
    exact ⟨le_trans h1.1 hr.1, le_trans hr.2 h2.2⟩

/-- both readings of a displaced curve (ordinate over abscissa, abscissa over ordinate) are
monotone in the displacement vector -/
theorem c16f_displaced_interp_mono (top : ℚ) (x y : List ℚ) (v0 v1 w0 w1 : ℚ)
    (xv yv xw yw : List ℚ)
    (hv : c16f_displaceCurve top x y v0 v1 = .ok (xv, yv))
    (hw : c16f_displaceCurve top x y w0 w1 = .ok (xw, yw)) (h0 : v0 ≤ w0) (h1 : v1 ≤ w1)
    (hx : x.Pairwise (· ≤ ·)) (hy : y.Pairwise (· ≥ ·)) (ht : 1 ≤ top) (q : ℚ) :
    c16f_interp1 q (xv.zip yv) ≤ c16f_interp1 q (xw.zip yw) ∧
    c16f_interp1 q (yv.reverse.zip xv.reverse) ≤ c16f_interp1 q (yw.reverse.zip xw.reverse) := by
  obtain ⟨mX, mY⟩ := c16f_displace_mono top x y v0 v1 w0 w1 xv yv xw yw hv hw h0 h1
  have sXv := c16f_displace_sortedX top x y v0 v1 xv yv hv hx ht
  have sYv := c16f_displace_sortedY top x y v0 v1 xv yv hv hy ht
  have sXw := c16f_displace_sortedX top x y w0 w1 xw yw hw hx ht
  have sYw := c16f_displace_sortedY top x y w0 w1 xw yw hw hy ht
  constructor
  · exact c16f_interp1_mono q _ _ (c16f_zip_forall2 mX mY) (c16f_zip_pairwise _ _ sXv sYv)
      (c16f_zip_pairwise _ _ sXw sYw)
  · refine c16f_interp1_mono q _ _
      (c16f_zip_forall2 (List.forall₂_reverse_iff.mpr mY) (List.forall₂_reverse_iff.mpr mX))
      (c16f_zip_pairwise _ _ (List.pairwise_reverse.mpr ?_) (List.pairwise_reverse.mpr ?_))
      (c16f_zip_pairwise _ _ (List.pairwise_reverse.mpr ?_) (List.pairwise_reverse.mpr ?_))
    · exact sYv
    · exact sXv
    · exact sYw
    · exact sXw


/-! ### the radius `delta` -/

theorem c16f_filterMap_some (l : List ℚ) : (l.map some).filterMap id = l := by
  induction l with
  | nil => rfl
  | cons a l ih => simp

/-- with at least one radius `delta` is defined -/
theorem c16f_delta_some (radii : List ℚ) (alpha : ℚ) (hne : radii ≠ []) :
    ∃ d, c16f_deltaOf radii alpha = some d := by
  unfold c16f_deltaOf
  rw [quantileLinear_eq, c16f_filterMap_some]
  have hl : (sortQ radii).length ≠ 0 := by
    rw [(sortQ_perm radii).length_eq]
    exact fun h => hne (List.length_eq_zero_iff.mp h)
  rw [if_neg hl]
  exact ⟨_, rfl⟩

/-- `delta` lies between the smallest and the largest radius, for every level -/
theorem c16f_delta_bounds (radii : List ℚ) (alpha lo hi d : ℚ)
    (h : ∀ r ∈ radii, lo ≤ r ∧ r ≤ hi) (hd : c16f_deltaOf radii alpha = some d) :
    lo ≤ d ∧ d ≤ hi := by
  unfold c16f_deltaOf at hd
  rw [quantileLinear_eq, c16f_filterMap_some] at hd
  split at hd
  · cases hd
  · rename_i hl
    injection hd with hd
    subst hd
    have hb := qcore_bounds (sortQ radii) (sortQ_pairwise radii) hl (1 - 2 * alpha / 2)
    have hmem : ∀ i, i < (sortQ radii).length → lo ≤ (sortQ radii).getD i 0 ∧ (sortQ radii).getD i 0 ≤ hi := by
      intro i hi'
      rw [List.getD_eq_getElem?_getD, List.getElem?_eq_getElem hi', Option.getD_some]
      exact h _ ((sortQ_perm radii).mem_iff.mp (List.getElem_mem hi'))
    have hpos : 0 < (sortQ radii).length := Nat.pos_of_ne_zero hl
    exact ⟨le_trans (hmem 0 hpos).1 hb.1, le_trans hb.2 (hmem _ (by omega)).2⟩

/-! ### containment -/

theorem c16f_allGe_mono (F F' : ℚ → ℚ) (hF : ∀ q, F q ≤ F' q) : ∀ xs ys : List ℚ,
    c16f_allGe (xs.map F) ys = true → c16f_allGe (xs.map F') ys = true := by
  intro xs
  induction xs with
  | nil => intro ys _; rfl
  | cons a xs ih =>
    intro ys h
    cases ys with
    | nil => rfl
    | cons b ys =>
      unfold c16f_allGe at h ⊢
      simp only [List.map_cons, List.zip_cons_cons, List.all_cons, Bool.and_eq_true,
        decide_eq_true_eq] at h ⊢
      exact ⟨le_trans h.1 (hF a), ih ys h.2⟩

theorem c16f_allLe_mono (F F' : ℚ → ℚ) (hF : ∀ q, F' q ≤ F q) : ∀ xs ys : List ℚ,
    c16f_allLe (xs.map F) ys = true → c16f_allLe (xs.map F') ys = true := by
  intro xs
  induction xs with
  | nil => intro ys _; rfl
  | cons a xs ih =>
    intro ys h
    cases ys with
    | nil => rfl
    | cons b ys =>
      unfold c16f_allLe at h ⊢
      simp only [List.map_cons, List.zip_cons_cons, List.all_cons, Bool.and_eq_true,
        decide_eq_true_eq] at h ⊢
      exact ⟨le_trans (hF a) h.1, ih ys h.2⟩

/-- `_is_contained` written out -/
theorem c16f_isContained_eq (top : ℚ) (x y xs ys : List ℚ) (k delta : ℚ) (hl : x.length = y.length)
    (hn : x.length ≠ 0) :
    ∃ xp yp xm ym,
      c16f_displaceCurve top x y (delta * 1) (delta * k) = .ok (xp, yp) ∧
      c16f_displaceCurve top x y (-delta * 1) (-delta * k) = .ok (xm, ym) ∧
      c16f_isContained top x y xs ys k delta = .ok
        (c16f_allGe (xs.map fun q => c16f_interp1 q (xp.zip yp)) ys &&
         c16f_allLe (xs.map fun q => c16f_interp1 q (xm.zip ym)) ys) := by
  have hy : y.length ≠ 0 := by omega
  obtain ⟨xp, yp, hP⟩ := c16f_displace_ok top x y (delta * 1) (delta * k) hn hy
  obtain ⟨xm, ym, hM⟩ := c16f_displace_ok top x y (-delta * 1) (-delta * k) hn hy
  obtain ⟨hlxp, hlyp, _, _, _, _⟩ := c16f_displace_spec top x y _ _ xp yp hP
  obtain ⟨hlxm, hlym, _, _, _, _⟩ := c16f_displace_spec top x y _ _ xm ym hM
  refine ⟨xp, yp, xm, ym, hP, hM, ?_⟩
  unfold c16f_isContained
  rw [hP, hM]
  simp only []
  rw [c16f_interp_ok xs xp yp (by omega) (by omega), c16f_interp_ok xs xm ym (by omega) (by omega)]

/-- `_is_contained` returns only for a curve of positive length with `len(x) = len(y)` -/
theorem c16f_isContained_inv (top : ℚ) (x y xs ys : List ℚ) (k delta : ℚ) (b : Bool)
    (h : c16f_isContained top x y xs ys k delta = .ok b) : x.length = y.length ∧ x.length ≠ 0 := by
  unfold c16f_isContained at h
  split at h
  · cases h
  · rename_i xp yp hP
    obtain ⟨hlxp, hlyp, hx0, _, _, _⟩ := c16f_displace_spec top x y _ _ xp yp hP
    split at h
    · cases h
    · rename_i ypv hI
      obtain ⟨_, hlen, _⟩ := c16f_interp_inv _ _ _ _ hI
      exact ⟨by omega, hx0⟩

/-- **containment is monotone in the radius** (monotone curve, `k ≥ 0`): a wider tube contains
whatever a narrower one contains. -/
theorem c16f_contained_mono (top : ℚ) (x y xs ys : List ℚ) (k d d' : ℚ)
    (hx : x.Pairwise (· ≤ ·)) (hy : y.Pairwise (· ≥ ·)) (ht : 1 ≤ top) (hk : 0 ≤ k) (hd : d ≤ d')
    (h : c16f_isContained top x y xs ys k d = .ok true) :
    c16f_isContained top x y xs ys k d' = .ok true := by
  obtain ⟨hl, hn⟩ := c16f_isContained_inv top x y xs ys k d true h
  obtain ⟨xp, yp, xm, ym, hP, hM, e⟩ := c16f_isContained_eq top x y xs ys k d hl hn
  obtain ⟨xp', yp', xm', ym', hP', hM', e'⟩ := c16f_isContained_eq top x y xs ys k d' hl hn
  rw [e] at h
  injection h with h
  rw [Bool.and_eq_true] at h
  rw [e']
  congr 1
  rw [Bool.and_eq_true]
  constructor
  · refine c16f_allGe_mono _ _ (fun q => ?_) xs ys h.1
    exact (c16f_displaced_interp_mono top x y _ _ _ _ xp yp xp' yp' hP hP' (by linarith)
      (mul_le_mul_of_nonneg_right hd hk) hx hy ht q).1
  · refine c16f_allLe_mono _ _ (fun q => ?_) xs ys h.2
    exact (c16f_displaced_interp_mono top x y _ _ _ _ xm' ym' xm ym hM' hM (by linarith)
      (by have := mul_le_mul_of_nonneg_right hd hk; linarith) hx hy ht q).1


/-! ### the bisection loop -/

theorem c16f_tol_bounds : (1 : ℚ) / 128 ≤ c16f_tol ∧ c16f_tol < 1 / 64 := by
  unfold c16f_tol; constructor <;> norm_num

/-- the result of the loop lies strictly inside the starting bracket and is the midpoint of a
sub-bracket `(lo', hi')` whose lower end is the start or was found not contained and whose upper end
is the start or was found contained -/
theorem c16f_bisect_bracket (c : ℚ → Except Err Bool) : ∀ (fuel : ℕ) (lo hi r : ℚ),
    c16f_bisectLoop c fuel lo hi = .ok r → lo < hi →
    ∃ lo' hi', lo ≤ lo' ∧ lo' < hi' ∧ hi' ≤ hi ∧ r = (hi' + lo') / 2 ∧
      (lo' = lo ∨ c lo' = .ok false) ∧ (hi' = hi ∨ c hi' = .ok true) := by
  intro fuel
  induction fuel with
  | zero =>
    intro lo hi r h hlt
    unfold c16f_bisectLoop at h
    injection h with h
    exact ⟨lo, hi, le_refl _, hlt, le_refl _, h.symm, Or.inl rfl, Or.inl rfl⟩
  | succ fuel ih =>
    intro lo hi r h hlt
    unfold c16f_bisectLoop at h
    split at h
    · simp only [] at h
      have hm1 : lo < (hi + lo) / 2 := by linarith
      have hm2 : (hi + lo) / 2 < hi := by linarith
      split at h
      · cases h
      · rename_i hc
        obtain ⟨lo', hi', h1, h2, h3, h4, h5, h6⟩ := ih lo _ r h hm1
        refine ⟨lo', hi', h1, h2, by linarith, h4, h5, ?_⟩
        rcases h6 with h6 | h6
        · right; rw [h6]; exact hc
        · right; exact h6
      · rename_i hc
        obtain ⟨lo', hi', h1, h2, h3, h4, h5, h6⟩ := ih _ hi r h hm2
        refine ⟨lo', hi', by linarith, h2, h3, h4, ?_, h6⟩
        rcases h5 with h5 | h5
        · right; rw [h5]; exact hc
        · right; exact h5
    · injection h with h
      exact ⟨lo, hi, le_refl _, hlt, le_refl _, h.symm, Or.inl rfl, Or.inl rfl⟩

/-- once the bracket is at most `2^fuel / 128` wide, extra fuel does not change the result -/
theorem c16f_bisect_fuel_aux (c : ℚ → Except Err Bool) : ∀ (fuel extra : ℕ) (lo hi : ℚ),
    hi - lo ≤ 2 ^ fuel / 128 →
    c16f_bisectLoop c (fuel + extra) lo hi = c16f_bisectLoop c fuel lo hi := by
  intro fuel
  induction fuel with
  | zero =>
    intro extra lo hi hw
    have hnot : ¬ (hi - lo > c16f_tol) := by
      have := c16f_tol_bounds.1
      simp only [pow_zero] at hw
      rw [gt_iff_lt, not_lt]; linarith
    cases extra with
    | zero => rfl
    | succ e =>
      show c16f_bisectLoop c (0 + (e + 1)) lo hi = c16f_bisectLoop c 0 lo hi
      rw [Nat.zero_add]
      unfold c16f_bisectLoop
      rw [if_neg hnot]
  | succ fuel ih =>
    intro extra lo hi hw
    have e : fuel + 1 + extra = (fuel + extra) + 1 := by omega
    rw [e]
    unfold c16f_bisectLoop
    have hw' : (hi + lo) / 2 - lo ≤ 2 ^ fuel / 128 ∧ hi - (hi + lo) / 2 ≤ 2 ^ fuel / 128 := by
      rw [pow_succ] at hw
      constructor <;> linarith
    split
    · simp only []
      rw [ih extra lo _ hw'.1, ih extra _ hi hw'.2]
    · rfl

/-- from a bracket `(m / 2^j, (m + 1) / 2^j)` with `fuel + j = 7` the loop makes exactly `fuel`
iterations and returns an odd multiple of `1/256` -/
theorem c16f_bisect_grid_aux (c : ℚ → Except Err Bool) : ∀ (fuel j m : ℕ) (r : ℚ),
    fuel + j = 7 → m + 1 ≤ 2 ^ j →
    c16f_bisectLoop c fuel ((m : ℚ) / 2 ^ j) (((m : ℚ) + 1) / 2 ^ j) = .ok r →
    ∃ m' : ℕ, m' < 128 ∧ r = (2 * (m' : ℚ) + 1) / 256 := by
  intro fuel
  induction fuel with
  | zero =>
    intro j m r hj hm h
    have hj7 : j = 7 := by omega
    subst hj7
    unfold c16f_bisectLoop at h
    injection h with h
    refine ⟨m, by norm_num at hm; omega, ?_⟩
    rw [← h]; norm_num; ring
  | succ fuel ih =>
    intro j m r hj hm h
    have hj6 : j ≤ 6 := by omega
    have hpow : (2 : ℚ) ^ j ≤ 64 := by
      calc (2 : ℚ) ^ j ≤ 2 ^ 6 := pow_le_pow_right₀ (by norm_num) hj6
        _ = 64 := by norm_num
    have hpos : (0 : ℚ) < 2 ^ j := by positivity
    have hwid : ((m : ℚ) + 1) / 2 ^ j - (m : ℚ) / 2 ^ j > c16f_tol := by
      have e : ((m : ℚ) + 1) / 2 ^ j - (m : ℚ) / 2 ^ j = 1 / 2 ^ j := by ring
      rw [e]
      have h64 : (1 : ℚ) / 64 ≤ 1 / 2 ^ j := one_div_le_one_div_of_le hpos hpow
      have := c16f_tol_bounds.2
      linarith
    unfold c16f_bisectLoop at h
    rw [if_pos hwid] at h
    simp only [] at h
    have emid : (((m : ℚ) + 1) / 2 ^ j + (m : ℚ) / 2 ^ j) / 2 = ((2 * m + 1 : ℕ) : ℚ) / 2 ^ (j + 1) := by
      push_cast; rw [pow_succ]; field_simp; ring
    have elo : (m : ℚ) / 2 ^ j = ((2 * m : ℕ) : ℚ) / 2 ^ (j + 1) := by
      push_cast; rw [pow_succ]; field_simp
    have ehi : ((m : ℚ) + 1) / 2 ^ j = (((2 * m + 1 : ℕ) : ℚ) + 1) / 2 ^ (j + 1) := by
      push_cast; rw [pow_succ]; field_simp; ring
    have emid' : ((2 * m + 1 : ℕ) : ℚ) / 2 ^ (j + 1) = (((2 * m : ℕ) : ℚ) + 1) / 2 ^ (j + 1) := by
      push_cast; ring
    have hp2 : 2 ^ (j + 1) = 2 * 2 ^ j := by rw [pow_succ]; ring
    split at h
    · cases h
    · rw [emid, elo, emid'] at h
      exact ih (j + 1) (2 * m) r (by omega) (by omega) h
    · rw [emid, ehi] at h
      exact ih (j + 1) (2 * m + 1) r (by omega) (by omega) h

end SA
