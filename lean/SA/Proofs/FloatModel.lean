/-
The standard model of floating-point arithmetic over ℚ and its elementary consequences.

`Fl fl u`: `fl : ℚ → ℚ` rounds every real to a representable one with relative error at most
`u` (`|fl x - x| ≤ u * |x|`, no underflow, no overflow), `0 ≤ u < 1`.  For IEEE double precision
with round-to-nearest `u = 2^-53`; every basic operation returns `fl` of the exact result.

Derived here: bounds for one rounding of an inexactly known quantity (`Fl.round_err`), for
`+ - * /` of exactly known operands (`Fl.add_err` ...) and of perturbed operands
(`mul_perturb`, `div_perturb`, `max_perturb`, `min_perturb`).  Instances: `Fl_id`, `Fl_scale_up`,
`Fl_scale_down`, `Fl_chop` (non-identity roundings satisfying the model).
-/
import SA.Model.FloatBound
import Mathlib.Tactic.Linarith
import Mathlib.Tactic.Ring
import Mathlib.Tactic.Positivity
import Mathlib.Tactic.FieldSimp
import Mathlib.Algebra.Order.Ring.Abs
import Mathlib.Algebra.Order.Field.Basic

namespace SA

/-- the standard model of floating-point rounding with unit roundoff `u` -/
structure Fl (fl : ℚ → ℚ) (u : ℚ) : Prop where
  u_nonneg : 0 ≤ u
  u_lt_one : u < 1
  rel : ∀ x, |fl x - x| ≤ u * |x|

theorem fabs_eq_abs (x : ℚ) : fabs x = |x| := by
  unfold fabs
  by_cases h : x < 0
  · rw [if_pos h, abs_of_neg h]
  · rw [if_neg h, abs_of_nonneg (not_lt.mp h)]

theorem fabs_nonneg (x : ℚ) : 0 ≤ fabs x := by rw [fabs_eq_abs]; exact abs_nonneg x

theorem gam2_eq (u : ℚ) : gam2 u = (1 + u) ^ 2 - 1 := by unfold gam2; ring

theorem gam3_eq (u : ℚ) : gam3 u = (1 + u) ^ 3 - 1 := by unfold gam3; ring

theorem gamDiv_eq (u : ℚ) : gamDiv u = (1 + u) ^ 2 / (1 - u) - 1 := by unfold gamDiv; ring

theorem gam2_nonneg {u : ℚ} (h : 0 ≤ u) : 0 ≤ gam2 u := by unfold gam2; positivity

theorem gam3_nonneg {u : ℚ} (h : 0 ≤ u) : 0 ≤ gam3 u := by unfold gam3; positivity

theorem gamDiv_nonneg {u : ℚ} (h0 : 0 ≤ u) (h1 : u < 1) : 0 ≤ gamDiv u := by
  unfold gamDiv
  have h : 0 < 1 - u := by linarith
  rw [sub_nonneg, le_div_iff₀ h]
  nlinarith

/-! ### instances: the model is satisfiable, also by roundings that are not the identity -/

theorem Fl_id : Fl id 0 := ⟨le_refl 0, by norm_num, fun x => by simp⟩

/-- every result is rounded away from zero by the full relative amount -/
theorem Fl_scale_up (u : ℚ) (h0 : 0 ≤ u) (h1 : u < 1) : Fl (fun x => x * (1 + u)) u := by
  refine ⟨h0, h1, fun x => ?_⟩
  have : x * (1 + u) - x = u * x := by ring
  rw [this, abs_mul, abs_of_nonneg h0]

/-- every result is rounded towards zero by the full relative amount -/
theorem Fl_scale_down (u : ℚ) (h0 : 0 ≤ u) (h1 : u < 1) : Fl (fun x => x * (1 - u)) u := by
  refine ⟨h0, h1, fun x => ?_⟩
  have : x * (1 - u) - x = -(u * x) := by ring
  rw [this, abs_neg, abs_mul, abs_of_nonneg h0]

/-- a rounding that is not linear: positive results are rounded up, negative ones are exact -/
theorem Fl_chop (u : ℚ) (h0 : 0 ≤ u) (h1 : u < 1) :
    Fl (fun x => if 0 < x then x * (1 + u) else x) u := by
  refine ⟨h0, h1, fun x => ?_⟩
  by_cases h : 0 < x
  · simp only [h, if_true]
    have : x * (1 + u) - x = u * x := by ring
    rw [this, abs_mul, abs_of_nonneg h0]
  · simp only [h, if_false, sub_self, abs_zero]
    exact mul_nonneg h0 (abs_nonneg x)

/-- a larger unit roundoff is a weaker model -/
theorem Fl.mono {fl : ℚ → ℚ} {u u' : ℚ} (h : Fl fl u) (hu : u ≤ u') (h1 : u' < 1) : Fl fl u' :=
  ⟨le_trans h.u_nonneg hu, h1, fun x =>
    le_trans (h.rel x) (mul_le_mul_of_nonneg_right hu (abs_nonneg x))⟩

/-! ### one rounding -/

namespace Fl
variable {fl : ℚ → ℚ} {u : ℚ}

theorem zero (h : Fl fl u) : fl 0 = 0 := by
  have := h.rel 0
  simpa using this

/-- `|fl x| ≤ (1+u) |x|` -/
theorem abs_le (h : Fl fl u) (x : ℚ) : |fl x| ≤ (1 + u) * |x| := by
  have h1 := h.rel x
  have h2 : |fl x| ≤ |fl x - x| + |x| := by
    have := abs_add_le (fl x - x) x
    simpa using this
  linarith

/-- `(1-u) |x| ≤ |fl x|` -/
theorem le_abs (h : Fl fl u) (x : ℚ) : (1 - u) * |x| ≤ |fl x| := by
  have h1 := h.rel x
  have h2 : |x| ≤ |fl x - x| + |fl x| := by
    have := abs_add_le (x - fl x) (fl x)
    rw [abs_sub_comm] at this
    simpa using this
  linarith

/-- rounding a quantity known to within `e`: `|xt - x| ≤ e → |fl xt - x| ≤ e + u (|x| + e)` -/
theorem round_err (h : Fl fl u) {xt x e : ℚ} (hx : |xt - x| ≤ e) :
    |fl xt - x| ≤ e + u * (|x| + e) := by
  have h1 := h.rel xt
  have h2 : |xt| ≤ |x| + e := by
    have := abs_add_le (xt - x) x
    have e1 : xt - x + x = xt := by ring
    rw [e1] at this
    linarith
  have h3 : |fl xt - x| ≤ |fl xt - xt| + |xt - x| := by
    have := abs_add_le (fl xt - xt) (xt - x)
    have e1 : fl xt - xt + (xt - x) = fl xt - x := by ring
    rw [e1] at this
    exact this
  have h4 : u * |xt| ≤ u * (|x| + e) := mul_le_mul_of_nonneg_left h2 h.u_nonneg
  linarith

/-- the four basic operations on exactly known operands -/
theorem add_err (h : Fl fl u) (a b : ℚ) : |fl (a + b) - (a + b)| ≤ u * |a + b| := h.rel _
theorem sub_err (h : Fl fl u) (a b : ℚ) : |fl (a - b) - (a - b)| ≤ u * |a - b| := h.rel _
theorem mul_err (h : Fl fl u) (a b : ℚ) : |fl (a * b) - a * b| ≤ u * (|a| * |b|) := by
  rw [← abs_mul]; exact h.rel _
theorem div_err (h : Fl fl u) (a b : ℚ) : |fl (a / b) - a / b| ≤ u * (|a| / |b|) := by
  rw [← abs_div]; exact h.rel _

end Fl

/-! ### perturbed operands -/

theorem add_perturb {xt x yt y ex ey : ℚ} (hx : |xt - x| ≤ ex) (hy : |yt - y| ≤ ey) :
    |xt + yt - (x + y)| ≤ ex + ey := by
  have := abs_add_le (xt - x) (yt - y)
  have e1 : xt - x + (yt - y) = xt + yt - (x + y) := by ring
  rw [e1] at this
  linarith

theorem sub_perturb {xt x yt y ex ey : ℚ} (hx : |xt - x| ≤ ex) (hy : |yt - y| ≤ ey) :
    |xt - yt - (x - y)| ≤ ex + ey := by
  have := abs_sub (xt - x) (yt - y)
  have e1 : xt - x - (yt - y) = xt - yt - (x - y) := by ring
  rw [e1] at this
  linarith

theorem mul_perturb {xt x yt y ex ey : ℚ} (hx : |xt - x| ≤ ex) (hy : |yt - y| ≤ ey) :
    |xt * yt - x * y| ≤ ex * |y| + ey * |x| + ex * ey := by
  have e1 : xt * yt - x * y = (xt - x) * y + x * (yt - y) + (xt - x) * (yt - y) := by ring
  have h1 : |(xt - x) * y| ≤ ex * |y| := by
    rw [abs_mul]; exact mul_le_mul_of_nonneg_right hx (abs_nonneg y)
  have h2 : |x * (yt - y)| ≤ ey * |x| := by
    rw [abs_mul, mul_comm]; exact mul_le_mul_of_nonneg_right hy (abs_nonneg x)
  have h3 : |(xt - x) * (yt - y)| ≤ ex * ey := by
    rw [abs_mul]; exact mul_le_mul hx hy (abs_nonneg _) (le_trans (abs_nonneg _) hx)
  rw [e1]
  have a1 := abs_add_le ((xt - x) * y + x * (yt - y)) ((xt - x) * (yt - y))
  have a2 := abs_add_le ((xt - x) * y) (x * (yt - y))
  linarith

/-- quotient of perturbed operands; the divisor's error bound is smaller than the divisor -/
theorem div_perturb {xt x yt y ex ey : ℚ} (hx : |xt - x| ≤ ex) (hy : |yt - y| ≤ ey)
    (hey : ey < |y|) :
    |xt / yt - x / y| ≤ (ex * |y| + ey * |x|) / (|y| * (|y| - ey)) := by
  have hy0 : 0 < |y| := lt_of_le_of_lt (le_trans (abs_nonneg _) hy) hey
  have hyne : y ≠ 0 := abs_pos.mp hy0
  have hyt : |y| - ey ≤ |yt| := by
    have := abs_add_le (y - yt) yt
    have e1 : y - yt + yt = y := by ring
    rw [e1, abs_sub_comm] at this
    linarith
  have hd : 0 < |y| - ey := by linarith
  have hyt0 : 0 < |yt| := lt_of_lt_of_le hd hyt
  have hytne : yt ≠ 0 := abs_pos.mp hyt0
  have e1 : xt / yt - x / y = ((xt - x) * y - x * (yt - y)) / (yt * y) := by
    field_simp
    ring
  have hnum : |(xt - x) * y - x * (yt - y)| ≤ ex * |y| + ey * |x| := by
    have a1 := abs_sub ((xt - x) * y) (x * (yt - y))
    have h1 : |(xt - x) * y| ≤ ex * |y| := by
      rw [abs_mul]; exact mul_le_mul_of_nonneg_right hx (abs_nonneg y)
    have h2 : |x * (yt - y)| ≤ ey * |x| := by
      rw [abs_mul, mul_comm]; exact mul_le_mul_of_nonneg_right hy (abs_nonneg x)
    linarith
  have hnum0 : 0 ≤ ex * |y| + ey * |x| := le_trans (abs_nonneg _) hnum
  rw [e1, abs_div, abs_mul]
  have hden : |y| * (|y| - ey) ≤ |yt| * |y| := by
    rw [mul_comm]; exact mul_le_mul_of_nonneg_right hyt (le_of_lt hy0)
  have hden0 : 0 < |y| * (|y| - ey) := mul_pos hy0 hd
  calc |(xt - x) * y - x * (yt - y)| / (|yt| * |y|)
      ≤ (ex * |y| + ey * |x|) / (|yt| * |y|) :=
        div_le_div_of_nonneg_right hnum (le_of_lt (mul_pos hyt0 hy0))
    _ ≤ (ex * |y| + ey * |x|) / (|y| * (|y| - ey)) :=
        div_le_div_of_nonneg_left hnum0 hden0 hden

theorem max_perturb {xt x yt y ex ey : ℚ} (hx : |xt - x| ≤ ex) (hy : |yt - y| ≤ ey) :
    |max xt yt - max x y| ≤ max ex ey := by
  have hx' := abs_le.mp hx
  have hy' := abs_le.mp hy
  have m1 := le_max_left ex ey
  have m2 := le_max_right ex ey
  rw [abs_le]
  constructor
  · rcases le_total x y with h | h
    · rw [max_eq_right h]; have := le_max_right xt yt; linarith
    · rw [max_eq_left h]; have := le_max_left xt yt; linarith
  · rcases le_total xt yt with h | h
    · rw [max_eq_right h]; have := le_max_right x y; linarith
    · rw [max_eq_left h]; have := le_max_left x y; linarith

theorem min_perturb {xt x yt y ex ey : ℚ} (hx : |xt - x| ≤ ex) (hy : |yt - y| ≤ ey) :
    |min xt yt - min x y| ≤ max ex ey := by
  have hx' := abs_le.mp hx
  have hy' := abs_le.mp hy
  have m1 := le_max_left ex ey
  have m2 := le_max_right ex ey
  rw [abs_le]
  constructor
  · rcases le_total xt yt with h | h
    · rw [min_eq_left h]; have := min_le_left x y; linarith
    · rw [min_eq_right h]; have := min_le_right x y; linarith
  · rcases le_total x y with h | h
    · rw [min_eq_left h]; have := min_le_left xt yt; linarith
    · rw [min_eq_right h]; have := min_le_right xt yt; linarith

/-! ### `fl (x op y)` for perturbed operands (one line each from the above) -/

namespace Fl
variable {fl : ℚ → ℚ} {u : ℚ}

theorem add_round (h : Fl fl u) {xt x yt y ex ey : ℚ} (hx : |xt - x| ≤ ex) (hy : |yt - y| ≤ ey) :
    |fl (xt + yt) - (x + y)| ≤ (ex + ey) + u * (|x + y| + (ex + ey)) :=
  h.round_err (add_perturb hx hy)

theorem sub_round (h : Fl fl u) {xt x yt y ex ey : ℚ} (hx : |xt - x| ≤ ex) (hy : |yt - y| ≤ ey) :
    |fl (xt - yt) - (x - y)| ≤ (ex + ey) + u * (|x - y| + (ex + ey)) :=
  h.round_err (sub_perturb hx hy)

theorem mul_round (h : Fl fl u) {xt x yt y ex ey : ℚ} (hx : |xt - x| ≤ ex) (hy : |yt - y| ≤ ey) :
    |fl (xt * yt) - x * y| ≤
      (ex * |y| + ey * |x| + ex * ey) + u * (|x * y| + (ex * |y| + ey * |x| + ex * ey)) :=
  h.round_err (mul_perturb hx hy)

theorem div_round (h : Fl fl u) {xt x yt y ex ey : ℚ} (hx : |xt - x| ≤ ex) (hy : |yt - y| ≤ ey)
    (hey : ey < |y|) :
    |fl (xt / yt) - x / y| ≤ (ex * |y| + ey * |x|) / (|y| * (|y| - ey)) +
      u * (|x / y| + (ex * |y| + ey * |x|) / (|y| * (|y| - ey))) :=
  h.round_err (div_perturb hx hy hey)

end Fl

end SA
