/-
Rounding error of a floating-point sum in ANY order (`SumTree`), under the standard model.

* `SumTree.evalFl_error`       `|computed - exact| ≤ ((1+u)^depth - 1) * Σ|a_i|`
* `SumTree.evalFl_error_perm`  for a tree whose leaves are a permutation of `0..n-1`:
                               `|computed - Σ a_i| ≤ ((1+u)^(n-1) - 1) * Σ|a_i|`, whatever the order
* `gamPow_le_gamK`             `(1+u)^k - 1 ≤ k u / (1 - k u)` for `k u < 1`
* `seqTree_perm`               left-to-right accumulation is such a tree
-/
import SA.Model.FloatSum
import SA.Proofs.FloatModel
import Mathlib.Algebra.BigOperators.Group.List.Basic
import Mathlib.Algebra.Order.BigOperators.Group.List
import Mathlib.Tactic.NormNum

namespace SA

/-! ### growth factors -/

theorem powN_eq (b : ℚ) (k : ℕ) : powN b k = b ^ k := by
  induction k with
  | zero => simp [powN]
  | succ k ih => rw [powN, ih, pow_succ]

theorem gamPow_eq (u : ℚ) (k : ℕ) : gamPow u k = (1 + u) ^ k - 1 := by
  unfold gamPow; rw [powN_eq]

theorem gamPow_zero (u : ℚ) : gamPow u 0 = 0 := by rw [gamPow_eq]; simp

theorem gamPow_succ (u : ℚ) (k : ℕ) : gamPow u (k + 1) = (1 + u) * gamPow u k + u := by
  rw [gamPow_eq, gamPow_eq, pow_succ]; ring

theorem gamPow_nonneg {u : ℚ} (hu : 0 ≤ u) (k : ℕ) : 0 ≤ gamPow u k := by
  rw [gamPow_eq]
  have : (1 : ℚ) ≤ (1 + u) ^ k := one_le_pow₀ (by linarith)
  linarith

theorem gamPow_mono {u : ℚ} (hu : 0 ≤ u) {j k : ℕ} (h : j ≤ k) : gamPow u j ≤ gamPow u k := by
  rw [gamPow_eq, gamPow_eq]
  have : (1 + u) ^ j ≤ (1 + u) ^ k := pow_le_pow_right₀ (by linarith) h
  linarith

/-- `(1+u)^k (1 - k u) ≤ 1` -/
theorem pow_mul_le_one {u : ℚ} (hu : 0 ≤ u) : ∀ k : ℕ, (1 + u) ^ k * (1 - (k : ℚ) * u) ≤ 1
  | 0 => by simp
  | k + 1 => by
    have ih := pow_mul_le_one hu k
    have hp : (0 : ℚ) ≤ (1 + u) ^ k := by positivity
    have e : (1 + u) ^ (k + 1) * (1 - ((k + 1 : ℕ) : ℚ) * u) =
        (1 + u) ^ k * (1 - (k : ℚ) * u) - (1 + u) ^ k * (((k : ℚ) + 1) * u ^ 2) := by
      push_cast; ring
    rw [e]
    have : 0 ≤ (1 + u) ^ k * (((k : ℚ) + 1) * u ^ 2) := by positivity
    linarith

/-- **the cheap majorant**: `(1+u)^k - 1 ≤ k u / (1 - k u)` whenever `k u < 1` -/
theorem gamPow_le_gamK {u : ℚ} (hu : 0 ≤ u) (k : ℕ) (hk : (k : ℚ) * u < 1) :
    gamPow u k ≤ gamK u k := by
  rw [gamPow_eq]
  unfold gamK
  have hd : 0 < 1 - (k : ℚ) * u := by linarith
  have h1 := pow_mul_le_one hu k
  rw [le_div_iff₀ hd]
  nlinarith

theorem gamK_nonneg {u : ℚ} (hu : 0 ≤ u) (k : ℕ) (hk : (k : ℚ) * u < 1) : 0 ≤ gamK u k :=
  le_trans (gamPow_nonneg hu k) (gamPow_le_gamK hu k hk)

/-! ### plain sums -/

theorem sumL_eq (l : List ℚ) : sumL l = l.sum := by
  induction l with
  | nil => rfl
  | cons v vs ih => simp only [sumL, List.sum_cons, ih]

theorem sumAbsL_eq (l : List ℚ) : sumAbsL l = (l.map fun v => |v|).sum := by
  induction l with
  | nil => rfl
  | cons v vs ih => simp only [sumAbsL, List.map_cons, List.sum_cons, ih, fabs_eq_abs]

theorem sumAbsL_nonneg (l : List ℚ) : 0 ≤ sumAbsL l := by
  induction l with
  | nil => exact le_refl 0
  | cons v vs ih => simp only [sumAbsL]; have := fabs_nonneg v; linarith

/-! ### a sum in any order -/

namespace SumTree

theorem absSum_nonneg (a : List ℚ) : ∀ t : SumTree, 0 ≤ t.absSum a
  | leaf i => fabs_nonneg _
  | node l r => by
    simp only [absSum]
    have := absSum_nonneg a l
    have := absSum_nonneg a r
    linarith

theorem abs_exact_le (a : List ℚ) : ∀ t : SumTree, |t.exact a| ≤ t.absSum a
  | leaf i => by simp only [exact, absSum, fabs_eq_abs]; exact le_refl _
  | node l r => by
    simp only [exact, absSum]
    have h1 := abs_exact_le a l
    have h2 := abs_exact_le a r
    have := abs_add_le (l.exact a) (r.exact a)
    linarith

/-- **Any summation order.** Each entry passes through at most `depth` rounded additions. -/
theorem evalFl_error {fl : ℚ → ℚ} {u : ℚ} (h : Fl fl u) (a : List ℚ) :
    ∀ t : SumTree, |t.evalFl fl a - t.exact a| ≤ gamPow u t.depth * t.absSum a
  | leaf i => by
    simp only [evalFl, exact, depth, sub_self, abs_zero, gamPow_zero, zero_mul]
    exact le_refl 0
  | node l r => by
    have hu := h.u_nonneg
    have el := evalFl_error h a l
    have er := evalFl_error h a r
    have al := abs_exact_le a l
    have ar := abs_exact_le a r
    have nl := absSum_nonneg a l
    have nr := absSum_nonneg a r
    simp only [evalFl, exact, depth, absSum]
    set d := max l.depth r.depth
    have gl : gamPow u l.depth ≤ gamPow u d := gamPow_mono hu (le_max_left _ _)
    have gr : gamPow u r.depth ≤ gamPow u d := gamPow_mono hu (le_max_right _ _)
    have el' : |l.evalFl fl a - l.exact a| ≤ gamPow u d * l.absSum a :=
      le_trans el (mul_le_mul_of_nonneg_right gl nl)
    have er' : |r.evalFl fl a - r.exact a| ≤ gamPow u d * r.absSum a :=
      le_trans er (mul_le_mul_of_nonneg_right gr nr)
    have hs := h.add_round el' er'
    have hT : |l.exact a + r.exact a| ≤ l.absSum a + r.absSum a := by
      have := abs_add_le (l.exact a) (r.exact a)
      linarith
    rw [gamPow_succ]
    set g := gamPow u d
    set A := l.absSum a
    set B := r.absSum a
    have hg : 0 ≤ g := gamPow_nonneg hu d
    have : u * |l.exact a + r.exact a| ≤ u * (A + B) := mul_le_mul_of_nonneg_left hT hu
    have key : ((1 + u) * g + u) * (A + B) =
        (g * A + g * B) + u * ((A + B) + (g * A + g * B)) := by ring
    rw [key]
    linarith

theorem depth_lt_leaves : ∀ t : SumTree, t.depth + 1 ≤ t.leaves.length
  | leaf _ => by simp [depth, leaves]
  | node l r => by
    have := depth_lt_leaves l
    have := depth_lt_leaves r
    simp only [depth, leaves, List.length_append]
    omega

theorem exact_eq_sum (a : List ℚ) : ∀ t : SumTree, t.exact a = (t.leaves.map fun i => a.getD i 0).sum
  | leaf i => by simp [exact, leaves]
  | node l r => by
    simp only [exact, leaves, List.map_append, List.sum_append, exact_eq_sum a l, exact_eq_sum a r]

theorem absSum_eq_sum (a : List ℚ) :
    ∀ t : SumTree, t.absSum a = (t.leaves.map fun i => |a.getD i 0|).sum
  | leaf i => by simp [absSum, leaves, fabs_eq_abs]
  | node l r => by
    simp only [absSum, leaves, List.map_append, List.sum_append, absSum_eq_sum a l,
      absSum_eq_sum a r]

end SumTree

theorem fsum_map_getD_range (a : List ℚ) : ((List.range a.length).map fun i => a.getD i 0) = a := by
  apply List.ext_getElem
  · simp
  · intro i h1 h2
    simp only [List.getElem_map, List.getElem_range]
    simp [List.getD_eq_getElem?_getD, List.getElem?_eq_getElem h2]

theorem fsum_map_abs_getD_range (a : List ℚ) :
    ((List.range a.length).map fun i => |a.getD i 0|) = a.map fun v => |v| := by
  have := congrArg (List.map fun v : ℚ => |v|) (fsum_map_getD_range a)
  rw [List.map_map] at this
  exact this

/-- **Order-independent bound.** A tree that adds up every entry of `a` exactly once, in any
order and with any bracketing: `|computed - Σ a_i| ≤ ((1+u)^(n-1) - 1) * Σ|a_i|`. -/
theorem SumTree.evalFl_error_perm {fl : ℚ → ℚ} {u : ℚ} (h : Fl fl u) (a : List ℚ) (t : SumTree)
    (hp : t.leaves.Perm (List.range a.length)) :
    |t.evalFl fl a - sumL a| ≤ gamPow u (a.length - 1) * sumAbsL a := by
  have e := SumTree.evalFl_error h a t
  have h1 : t.exact a = sumL a := by
    rw [SumTree.exact_eq_sum, sumL_eq, (hp.map _).sum_eq, fsum_map_getD_range]
  have h2 : t.absSum a = sumAbsL a := by
    rw [SumTree.absSum_eq_sum, sumAbsL_eq, (hp.map _).sum_eq, fsum_map_abs_getD_range]
  have hd : t.depth ≤ a.length - 1 := by
    have := SumTree.depth_lt_leaves t
    have hl := hp.length_eq
    rw [List.length_range] at hl
    omega
  rw [h1, h2] at e
  exact le_trans e (mul_le_mul_of_nonneg_right (gamPow_mono h.u_nonneg hd) (sumAbsL_nonneg a))

/-! ### an instance: left-to-right accumulation -/

theorem seqTree_leaves : ∀ n : ℕ, (seqTree n).leaves = List.range (n + 1)
  | 0 => rfl
  | n + 1 => by
    simp only [seqTree, SumTree.leaves, seqTree_leaves n]
    rw [List.range_succ (n := n + 1)]

theorem seqTree_perm (n : ℕ) : (seqTree n).leaves.Perm (List.range (n + 1)) := by
  rw [seqTree_leaves]

/-- the left-to-right order attains the full depth `n` -/
theorem seqTree_depth : ∀ n : ℕ, (seqTree n).depth = n
  | 0 => rfl
  | n + 1 => by simp [seqTree, SumTree.depth, seqTree_depth n]

end SA
