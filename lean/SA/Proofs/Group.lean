/-
Helper lemmas for the GroupScores model (SA/Model/Group.lean): joint sorting, the default group
list, per-group filtering, the partition of counts over groups, the cache invariant, gathering of
pairs, the by_group sampling loop.
-/
import SA.Model.Group
import SA.Spec.C12
import SA.Proofs.Sampling
import SA.Theorems.C01

namespace SA

/-! ### joint sort -/

theorem c12_sortPairs_perm (l : List (Rat × Nat)) : (c12_sortPairs l).Perm l :=
  List.mergeSort_perm _ _

theorem c12_sortPairs_sorted (l : List (Rat × Nat)) :
    (c12_sortPairs l).Pairwise (fun a b => a.1 ≤ b.1) := by
  unfold c12_sortPairs
  have := List.pairwise_mergeSort (le := fun a b : Rat × Nat => decide (a.1 ≤ b.1))
    (by intro a b c hab hbc; simp only [decide_eq_true_eq] at *; exact le_trans hab hbc)
    (by intro a b; simp only [Bool.or_eq_true, decide_eq_true_eq]; exact le_total a.1 b.1) l
  simpa using this

/-- sortedness of the pairs by score is sortedness of the score projection -/
theorem c12_sorted_iff (l : List (Rat × Nat)) :
    l.Pairwise (fun a b => a.1 ≤ b.1) ↔ (l.map (·.1)).Pairwise (· ≤ ·) := by
  rw [List.pairwise_map]

/-! ### `sorted(set(..))` -/

theorem c12_mem_insertU {x y : Nat} {l : List Nat} : y ∈ c12_insertU x l ↔ y = x ∨ y ∈ l := by
  induction l with
  | nil => simp [c12_insertU]
  | cons z zs ih =>
    unfold c12_insertU
    by_cases h1 : x < z
    · simp [h1]
    · by_cases h2 : x = z
      · subst h2; simp
      · simp only [h1, h2, if_false, List.mem_cons, ih]
        constructor
        · rintro (h | h | h)
          · exact Or.inr (Or.inl h)
          · exact Or.inl h
          · exact Or.inr (Or.inr h)
        · rintro (h | h | h)
          · exact Or.inr (Or.inl h)
          · exact Or.inl h
          · exact Or.inr (Or.inr h)

theorem c12_insertU_sorted {x : Nat} {l : List Nat} (h : l.Pairwise (· < ·)) :
    (c12_insertU x l).Pairwise (· < ·) := by
  induction l with
  | nil => simp [c12_insertU]
  | cons z zs ih =>
    unfold c12_insertU
    rw [List.pairwise_cons] at h
    by_cases h1 : x < z
    · simp only [h1, if_true]
      rw [List.pairwise_cons]
      refine ⟨?_, List.pairwise_cons.mpr h⟩
      intro a ha
      rcases List.mem_cons.mp ha with rfl | ha
      · exact h1
      · exact Nat.lt_trans h1 (h.1 a ha)
    · by_cases h2 : x = z
      · subst h2
        simp only [Nat.lt_irrefl, if_false, if_true]
        exact List.pairwise_cons.mpr h
      · simp only [h1, h2, if_false]
        rw [List.pairwise_cons]
        refine ⟨?_, ih h.2⟩
        intro a ha
        rcases c12_mem_insertU.mp ha with rfl | ha
        · omega
        · exact h.1 a ha

theorem c12_mem_codes {y : Nat} {l : List Nat} : y ∈ c12_codes l ↔ y ∈ l := by
  induction l with
  | nil => simp [c12_codes]
  | cons x xs ih =>
    have : c12_codes (x :: xs) = c12_insertU x (c12_codes xs) := rfl
    rw [this, c12_mem_insertU, ih, List.mem_cons]

theorem c12_codes_sorted (l : List Nat) : (c12_codes l).Pairwise (· < ·) := by
  induction l with
  | nil => simp [c12_codes]
  | cons x xs ih =>
    have : c12_codes (x :: xs) = c12_insertU x (c12_codes xs) := rfl
    rw [this]; exact c12_insertU_sorted ih

theorem c12_codes_nodup (l : List Nat) : (c12_codes l).Nodup :=
  (c12_codes_sorted l).imp (fun h => Nat.ne_of_lt h)

/-- `sorted(set(..))` depends on the set only -/
theorem c12_codes_ext {l₁ l₂ : List Nat} (h : ∀ y, y ∈ l₁ ↔ y ∈ l₂) :
    c12_codes l₁ = c12_codes l₂ := by
  apply List.Perm.eq_of_pairwise (le := (· < ·)) _ (c12_codes_sorted l₁) (c12_codes_sorted l₂)
  · rw [List.perm_ext_iff_of_nodup (c12_codes_nodup l₁) (c12_codes_nodup l₂)]
    intro a; rw [c12_mem_codes, c12_mem_codes]; exact h a
  · intro a b _ _ h1 h2; omega

theorem c12_defaultGroups_comm (pos neg : List (Rat × Nat)) :
    c12_defaultGroups neg pos = c12_defaultGroups pos neg := by
  unfold c12_defaultGroups
  apply c12_codes_ext
  intro y
  simp only [List.map_append, List.mem_append]
  exact Or.comm

theorem c12_defaultGroups_nodup (pos neg : List (Rat × Nat)) :
    (c12_defaultGroups pos neg).Nodup := c12_codes_nodup _

theorem c12_defaultGroups_covers (pos neg : List (Rat × Nat)) :
    ∀ p ∈ pos ++ neg, p.2 ∈ c12_defaultGroups pos neg := by
  intro p hp
  unfold c12_defaultGroups
  rw [c12_mem_codes]
  exact List.mem_map.mpr ⟨p, hp, rfl⟩

/-- the default list depends on the multiset of pairs only (so sorting does not change it) -/
theorem c12_defaultGroups_perm {p₁ p₂ n₁ n₂ : List (Rat × Nat)} (hp : p₁.Perm p₂)
    (hn : n₁.Perm n₂) : c12_defaultGroups p₁ n₁ = c12_defaultGroups p₂ n₂ := by
  unfold c12_defaultGroups
  apply c12_codes_ext
  intro y
  simp only [List.mem_map, List.mem_append]
  constructor
  · rintro ⟨a, ha | ha, rfl⟩
    · exact ⟨a, Or.inl (hp.mem_iff.mp ha), rfl⟩
    · exact ⟨a, Or.inr (hn.mem_iff.mp ha), rfl⟩
  · rintro ⟨a, ha | ha, rfl⟩
    · exact ⟨a, Or.inl (hp.mem_iff.mpr ha), rfl⟩
    · exact ⟨a, Or.inr (hn.mem_iff.mpr ha), rfl⟩

/-! ### filtering by group -/

theorem c12_mem_filterGroup {l : List (Rat × Nat)} {grp : Nat} {x : Rat} :
    x ∈ c12_filterGroup l grp ↔ (x, grp) ∈ l := by
  unfold c12_filterGroup
  simp only [List.mem_map, List.mem_filter, beq_iff_eq]
  constructor
  · rintro ⟨⟨a, b⟩, ⟨h, rfl⟩, rfl⟩; exact h
  · intro h; exact ⟨(x, grp), ⟨h, rfl⟩, rfl⟩

/-- exactly the scores carrying the label, with multiplicity -/
theorem c12_count_filterGroup (l : List (Rat × Nat)) (grp : Nat) (x : Rat) :
    (c12_filterGroup l grp).count x = l.count (x, grp) := by
  unfold c12_filterGroup
  induction l with
  | nil => simp
  | cons a l ih =>
    obtain ⟨y, c⟩ := a
    by_cases hc : c = grp
    · subst hc
      simp only [List.filter_cons, beq_self_eq_true, if_true, List.map_cons, List.count_cons, ih,
        beq_iff_eq, Prod.mk.injEq, and_true]
    · have h1 : ((y, c) == (x, grp)) = false := by
        simp only [beq_eq_false_iff_ne, ne_eq, Prod.mk.injEq, not_and]; exact fun _ => hc
      have h2 : (c == grp) = false := by simpa using hc
      simp only [List.filter_cons, h2, Bool.false_eq_true, if_false, ih, List.count_cons, h1,
        Nat.add_zero]

theorem c12_length_filterGroup (l : List (Rat × Nat)) (grp : Nat) :
    (c12_filterGroup l grp).length = l.countP (fun p => p.2 == grp) := by
  unfold c12_filterGroup
  rw [List.length_map, List.countP_eq_length_filter]

/-- the filter of a sorted list is sorted: the `is_sorted=True` shortcut of `__getitem__` -/
theorem c12_filterGroup_sorted {l : List (Rat × Nat)} (h : l.Pairwise (fun a b => a.1 ≤ b.1))
    (grp : Nat) : (c12_filterGroup l grp).Pairwise (· ≤ ·) := by
  unfold c12_filterGroup
  rw [List.pairwise_map]
  exact h.filter _

/-! ### the counts of the groups add up -/

theorem c12_sum_map_add {α : Type} (l : List α) (f g : α → Nat) :
    (l.map (fun a => f a + g a)).sum = (l.map f).sum + (l.map g).sum := by
  induction l with
  | nil => simp
  | cons a l ih => simp only [List.map_cons, List.sum_cons, ih]; omega

theorem c12_sum_indicator (groups : List Nat) (c : Nat) (k : Nat) :
    (groups.map (fun grp => if c = grp then k else 0)).sum = groups.count c * k := by
  induction groups with
  | nil => simp
  | cons a l ih =>
    simp only [List.map_cons, List.sum_cons, ih, List.count_cons]
    by_cases h : c = a
    · subst h; simp [Nat.add_mul, Nat.add_comm]
    · have : (a == c) = false := by simpa using fun h' => h h'.symm
      simp [h, this]

/-- For a duplicate-free group list that contains every label of `l`, the per-group counts of any
predicate on the score add up to the count over all scores. -/
theorem c12_sum_countP (groups : List Nat) (hn : groups.Nodup) (l : List (Rat × Nat))
    (hc : ∀ p ∈ l, p.2 ∈ groups) (q : Rat → Bool) :
    (groups.map (fun grp => (c12_filterGroup l grp).countP q)).sum = (l.map (·.1)).countP q := by
  induction l with
  | nil => simp [c12_filterGroup]
  | cons a l ih =>
    obtain ⟨x, c⟩ := a
    have hc' : ∀ p ∈ l, p.2 ∈ groups := fun p hp => hc p (List.mem_cons_of_mem _ hp)
    have hcm : c ∈ groups := hc (x, c) (List.mem_cons_self)
    have step : ∀ grp, (c12_filterGroup ((x, c) :: l) grp).countP q =
        (c12_filterGroup l grp).countP q + (if c = grp then (if q x then 1 else 0) else 0) := by
      intro grp
      unfold c12_filterGroup
      by_cases h : c = grp
      · subst h
        simp only [List.filter_cons, beq_self_eq_true, if_true, List.map_cons, List.countP_cons]
      · have : (c == grp) = false := by simpa using h
        simp only [List.filter_cons, this, Bool.false_eq_true, if_false, h, Nat.add_zero]
    simp only [step]
    rw [c12_sum_map_add, ih hc', c12_sum_indicator, List.count_eq_one_of_mem hn hcm]
    simp only [List.map_cons, List.countP_cons, Nat.one_mul]

/-! ### sums of matrices -/

theorem c12_CM_ext {a b : CM} (h1 : a.tp = b.tp) (h2 : a.fn = b.fn) (h3 : a.fp = b.fp)
    (h4 : a.tn = b.tn) : a = b := by
  cases a; cases b; simp only [CM.mk.injEq]; exact ⟨h1, h2, h3, h4⟩

theorem c12_sumCM_cells (l : List CM) :
    (c12_sumCM l).tp = (l.map (·.tp)).sum ∧ (c12_sumCM l).fn = (l.map (·.fn)).sum ∧
    (c12_sumCM l).fp = (l.map (·.fp)).sum ∧ (c12_sumCM l).tn = (l.map (·.tn)).sum := by
  induction l with
  | nil => simp [c12_sumCM]
  | cons a l ih =>
    have : c12_sumCM (a :: l) = a.add (c12_sumCM l) := rfl
    simp only [this, CM.add, List.map_cons, List.sum_cons, ih, and_self]

/-- summing the counting matrices of the groups gives the counting matrix of the whole -/
theorem c12_sum_countCM (groups : List Nat) (hn : groups.Nodup) (pos neg : List (Rat × Nat))
    (hcp : ∀ p ∈ pos, p.2 ∈ groups) (hcn : ∀ p ∈ neg, p.2 ∈ groups) (cfg : Cfg) (t : ERat) :
    c12_sumCM (groups.map (fun grp =>
      countCM (c12_filterGroup pos grp) (c12_filterGroup neg grp) 0 0 cfg t)) =
    countCM (pos.map (·.1)) (neg.map (·.1)) 0 0 cfg t := by
  obtain ⟨e1, e2, e3, e4⟩ := c12_sumCM_cells (groups.map (fun grp =>
      countCM (c12_filterGroup pos grp) (c12_filterGroup neg grp) 0 0 cfg t))
  apply c12_CM_ext
  · rw [e1, List.map_map]
    simp only [Function.comp_def, countCM, Nat.add_zero]
    exact c12_sum_countP groups hn pos hcp _
  · rw [e2, List.map_map]
    simp only [Function.comp_def, countCM]
    exact c12_sum_countP groups hn pos hcp _
  · rw [e3, List.map_map]
    simp only [Function.comp_def, countCM]
    exact c12_sum_countP groups hn neg hcn _
  · rw [e4, List.map_map]
    simp only [Function.comp_def, countCM, Nat.add_zero]
    exact c12_sum_countP groups hn neg hcn _

/-! ### objects that satisfy the constructor invariant -/

/-- both held arrays are sorted by score -/
def GInv (g : GScores) : Prop :=
  g.pos.Pairwise (fun a b => a.1 ≤ b.1) ∧ g.neg.Pairwise (fun a b => a.1 ≤ b.1)

theorem c12_groupScores_eq (g : GScores) (grp : Nat) :
    g.groupScores grp = ⟨c12_filterGroup g.pos grp, c12_filterGroup g.neg grp, 0, 0, g.cfg⟩ := rfl

theorem c12_groupScores_sorted {g : GScores} (h : GInv g) (grp : Nat) :
    (g.groupScores grp).pos.Pairwise (· ≤ ·) ∧ (g.groupScores grp).neg.Pairwise (· ≤ ·) :=
  ⟨c12_filterGroup_sorted h.1 grp, c12_filterGroup_sorted h.2 grp⟩

theorem c12_toScores_sorted {g : GScores} (h : GInv g) :
    g.toScores.pos.Pairwise (· ≤ ·) ∧ g.toScores.neg.Pairwise (· ≤ ·) :=
  ⟨(c12_sorted_iff _).mp h.1, (c12_sorted_iff _).mp h.2⟩

theorem c12_make_inv (pos neg : List (Rat × Nat)) (cfg : Cfg) (gn : Option (List Nat))
    (b : Bool) (h : b = true → pos.Pairwise (fun a b => a.1 ≤ b.1) ∧
      neg.Pairwise (fun a b => a.1 ≤ b.1)) : GInv (GScores.make pos neg cfg gn b) := by
  cases b
  · exact ⟨c12_sortPairs_sorted pos, c12_sortPairs_sorted neg⟩
  · exact h rfl

theorem c12_make_perm (pos neg : List (Rat × Nat)) (cfg : Cfg) (gn : Option (List Nat))
    (b : Bool) : (GScores.make pos neg cfg gn b).pos.Perm pos ∧
      (GScores.make pos neg cfg gn b).neg.Perm neg := by
  cases b
  · exact ⟨c12_sortPairs_perm pos, c12_sortPairs_perm neg⟩
  · exact ⟨List.Perm.refl _, List.Perm.refl _⟩

theorem c12_make_cfg (pos neg : List (Rat × Nat)) (cfg : Cfg) (gn : Option (List Nat))
    (b : Bool) : (GScores.make pos neg cfg gn b).cfg = cfg := by cases b <;> rfl

theorem c12_make_groups_some (pos neg : List (Rat × Nat)) (cfg : Cfg) (l : List Nat)
    (b : Bool) : (GScores.make pos neg cfg (some l) b).groups = l := by cases b <;> rfl

theorem c12_make_groups_none (pos neg : List (Rat × Nat)) (cfg : Cfg) (b : Bool) :
    (GScores.make pos neg cfg none b).groups = c12_defaultGroups pos neg := by cases b <;> rfl

/-! ### the cache -/

/-- every cached entry is the freshly computed object of its key -/
def CacheInv (st : GState) : Prop := ∀ p ∈ st.cache, p.2 = st.g.groupScores p.1

theorem c12_lookup_mem {l : List (Nat × Scores)} {k : Nat} {s : Scores}
    (h : l.lookup k = some s) : (k, s) ∈ l := by
  induction l with
  | nil => simp at h
  | cons a l ih =>
    obtain ⟨k', s'⟩ := a
    rw [List.lookup_cons] at h
    by_cases hk : (k == k') = true
    · simp only [hk] at h
      have hk' : k = k' := by simpa using hk
      injection h with h
      subst hk' h; exact List.mem_cons_self
    · have hk' : (k == k') = false := by simpa using hk
      simp only [hk'] at h
      exact List.mem_cons_of_mem _ (ih h)

theorem c12_fetch_spec (st : GState) (hc : CacheInv st) (grp : Nat) :
    (st.fetch grp).2 = st.g.getItem grp ∧ CacheInv (st.fetch grp).1 ∧
    (st.fetch grp).1.g = st.g := by
  unfold GState.fetch GScores.getItem
  by_cases hm : st.g.groups.contains grp = true
  · rw [if_pos hm, if_pos hm]
    cases hl : st.cache.lookup grp with
    | some s =>
      have hs : s = st.g.groupScores grp := hc _ (c12_lookup_mem hl)
      exact ⟨by rw [hs], hc, rfl⟩
    | none =>
      refine ⟨rfl, ?_, rfl⟩
      intro p hp
      rcases List.mem_cons.mp hp with rfl | hp
      · rfl
      · exact hc p hp
  · rw [if_neg hm, if_neg hm]
    exact ⟨rfl, hc, rfl⟩

theorem c12_fetchAll_spec (st : GState) (hc : CacheInv st) (grps : List Nat)
    (hg : ∀ grp ∈ grps, grp ∈ st.g.groups) :
    (st.fetchAll grps).2 = .ok (grps.map st.g.groupScores) ∧ CacheInv (st.fetchAll grps).1 ∧
    (st.fetchAll grps).1.g = st.g := by
  induction grps generalizing st with
  | nil => exact ⟨rfl, hc, rfl⟩
  | cons grp rest ih =>
    obtain ⟨f1, f2, f3⟩ := c12_fetch_spec st hc grp
    have hm : st.g.groups.contains grp = true := by
      simpa using hg grp List.mem_cons_self
    have f1' : (st.fetch grp).2 = .ok (st.g.groupScores grp) := by
      rw [f1]; simp only [GScores.getItem, hm, if_true]
    obtain ⟨i1, i2, i3⟩ := ih (st.fetch grp).1 f2
      (fun x hx => by rw [f3]; exact hg x (List.mem_cons_of_mem _ hx))
    unfold GState.fetchAll
    simp only [f1']
    rw [i1, f3] at *
    exact ⟨rfl, i2, i3⟩

theorem c12_step_spec (st : GState) (hc : CacheInv st) (q : GQuery) :
    (st.step q).2 = st.g.answer q ∧ CacheInv (st.step q).1 ∧ (st.step q).1.g = st.g := by
  cases q with
  | getItem grp =>
    obtain ⟨f1, f2, f3⟩ := c12_fetch_spec st hc grp
    exact ⟨by simp only [GState.step, GScores.answer, f1], f2, f3⟩
  | groupCm t =>
    obtain ⟨f1, f2, f3⟩ := c12_fetchAll_spec st hc st.g.groups (fun _ h => h)
    refine ⟨?_, f2, f3⟩
    simp only [GState.step, GScores.answer, f1, Except.map, GScores.groupCm, List.map_map,
      Function.comp_def]
  | groupRate n t =>
    obtain ⟨f1, f2, f3⟩ := c12_fetchAll_spec st hc st.g.groups (fun _ h => h)
    refine ⟨?_, f2, f3⟩
    simp only [GState.step, GScores.answer, f1, Except.map, GScores.groupRate, GScores.groupCm,
      List.map_map, Function.comp_def]
  | overallCm t => exact ⟨rfl, hc, rfl⟩

theorem c12_run_spec (st : GState) (hc : CacheInv st) (qs : List GQuery) :
    (st.run qs).2 = qs.map st.g.answer ∧ CacheInv (st.run qs).1 ∧ (st.run qs).1.g = st.g := by
  induction qs generalizing st with
  | nil => exact ⟨rfl, hc, rfl⟩
  | cons q qs ih =>
    obtain ⟨s1, s2, s3⟩ := c12_step_spec st hc q
    obtain ⟨i1, i2, i3⟩ := ih (st.step q).1 s2
    unfold GState.run
    simp only [List.map_cons, s1, i1, s3, true_and]
    exact ⟨i2, by rw [i3, s3]⟩

/-! ### gathering pairs -/

theorem c12_gatherPairs_eq (a : List (Rat × Nat)) (idx : List Nat) :
    c12_gatherPairs a idx =
      idx.map (fun i => ((a.map (·.1)).getD i 0, (a.map (·.2)).getD i 0)) := by
  unfold c12_gatherPairs gather c12_gatherN
  rw [List.zip_map']

theorem c12_getD_pair (a : List (Rat × Nat)) (i : Nat) (h : i < a.length) :
    ((a.map (·.1)).getD i 0, (a.map (·.2)).getD i 0) = a[i] := by
  simp [List.getD_eq_getElem?_getD, List.getElem?_eq_getElem h]

/-- scores and labels are gathered by the same indices: every gathered pair is a source pair -/
theorem c12_gatherPairs_mem (a : List (Rat × Nat)) (idx : List Nat)
    (hi : ∀ i ∈ idx, i < a.length) : ∀ p ∈ c12_gatherPairs a idx, p ∈ a := by
  intro p hp
  rw [c12_gatherPairs_eq, List.mem_map] at hp
  obtain ⟨i, hi', rfl⟩ := hp
  rw [c12_getD_pair a i (hi i hi')]
  exact List.getElem_mem _

theorem c12_gatherPairs_fst (a : List (Rat × Nat)) (idx : List Nat) :
    (c12_gatherPairs a idx).map (·.1) = gather (a.map (·.1)) idx := by
  rw [c12_gatherPairs_eq, List.map_map]; rfl

theorem c12_gatherPairs_length (a : List (Rat × Nat)) (idx : List Nat) :
    (c12_gatherPairs a idx).length = idx.length := by
  rw [c12_gatherPairs_eq, List.length_map]

/-- the `is_sorted=True` path of single-pass sampling, with labels -/
theorem c12_gatherPairs_sorted (a : List (Rat × Nat)) (idx : List Nat)
    (ha : a.Pairwise (fun x y => x.1 ≤ y.1)) (hidx : idx.Pairwise (· ≤ ·))
    (hi : ∀ i ∈ idx, i < a.length) :
    (c12_gatherPairs a idx).Pairwise (fun x y => x.1 ≤ y.1) := by
  rw [c12_sorted_iff, c12_gatherPairs_fst]
  exact gather_sorted _ _ ((c12_sorted_iff a).mp ha) hidx (by simpa using hi)

/-! ### sampling a source without easy samples draws no easy samples -/

theorem c12_drawStrata_noeasy (s : Scores) (st : RngState) (h : (drawStrata s st).2.ok = true)
    (hp : s.easyPos = 0) (hn : s.easyNeg = 0) :
    (drawStrata s st).1.easyPos = 0 ∧ (drawStrata s st).1.easyNeg = 0 := by
  simp only [drawStrata, drawScalar_fst, drawScalar_snd] at h ⊢
  obtain ⟨h3, r3⟩ := draw_ok h
  obtain ⟨_, r2⟩ := draw_ok h3
  have e2 := (binomial_none_range r2).2.1 (easyPosRatio_zero s hp)
  have e3 := (binomial_none_range r3).2.1 (easyNegRatio_zero s hn)
  simp only [e2, e3, easyDrawn]
  constructor <;> split <;> omega

theorem c12_sampleIndices_noeasy (s : Scores) (sp : Bool) (st : RngState)
    (h : (sampleIndices s false sp st).2.ok = true) (hp : s.easyPos = 0) (hn : s.easyNeg = 0) :
    (sampleIndices s false sp st).1.easyPos = 0 ∧ (sampleIndices s false sp st).1.easyNeg = 0 := by
  have hstrata : (strataFor s false st).2.ok = true := by
    unfold sampleIndices at h
    cases sp with
    | true =>
      simp only [↓reduceIte] at h
      have hf1 := (forceOne_spec _ _ _ _ h).1
      have hc2 := (forceOne_spec _ _ _ _ hf1).1
      have hc1 := (singlePassCounts_spec _ _ _ hc2).1
      exact (singlePassCounts_spec _ _ _ hc1).1
    | false =>
      simp only [Bool.false_eq_true, ↓reduceIte] at h
      exact (draw_ok (draw_ok h).1).1
  have e : strataFor s false st = drawStrata s st := rfl
  rw [e] at hstrata
  have := c12_drawStrata_noeasy s st hstrata hp hn
  unfold sampleIndices
  cases sp <;> simp only [↓reduceIte, Bool.false_eq_true, e] <;> exact this

/-! ### the `by_group` loop -/

theorem c12_countP_label_piece (l : List Rat) (grp grp' : Nat) :
    (l.map (fun x => (x, grp))).countP (fun p => p.2 == grp') =
      if grp = grp' then l.length else 0 := by
  rw [List.countP_map]
  by_cases h : grp = grp'
  · subst h
    simp only [Function.comp_def, beq_self_eq_true, if_true]
    induction l with
    | nil => rfl
    | cons a l ih => simp [ih]
  · have : (grp == grp') = false := by simpa using h
    simp only [Function.comp_def, this, h, if_false]
    induction l with
    | nil => rfl
    | cons a l ih => simp

/-- What an `ok` run of the loop knows: the run was `ok` from the start, every drawn pair is a
pair of the source of the same class, and (replacement sampling) each label is drawn as many times
as the group list names it times the number of samples carrying it. -/
theorem c12_byGroupLoop_spec (g : GScores) (sp : Bool) (grps : List Nat) (st : RngState)
    (h : (c12_byGroupLoop g sp grps st).2.ok = true) :
    st.ok = true ∧
    (∀ p ∈ (c12_byGroupLoop g sp grps st).1.1, p ∈ g.pos ∧ p.2 ∈ grps) ∧
    (∀ p ∈ (c12_byGroupLoop g sp grps st).1.2, p ∈ g.neg ∧ p.2 ∈ grps) ∧
    (sp = false → ∀ grp,
      (c12_byGroupLoop g sp grps st).1.1.countP (fun p => p.2 == grp) +
      (c12_byGroupLoop g sp grps st).1.2.countP (fun p => p.2 == grp) =
      grps.count grp * Spec.C12.labelCount g grp) := by
  induction grps generalizing st with
  | nil =>
    refine ⟨h, ?_, ?_, ?_⟩ <;> simp [c12_byGroupLoop]
  | cons grp rest ih =>
    simp only [c12_byGroupLoop] at h ⊢
    obtain ⟨i0, i1, i2, i3⟩ := ih _ h
    obtain ⟨s0, facts⟩ := sampleIndices_spec (g.groupScores grp) false sp st i0
    refine ⟨s0, ?_, ?_, ?_⟩
    · intro p hp
      rcases List.mem_append.mp hp with hp | hp
      · obtain ⟨x, hx, rfl⟩ := List.mem_map.mp hp
        have := gather_mem _ _ facts.posRange x hx
        exact ⟨c12_mem_filterGroup.mp this, List.mem_cons_self⟩
      · exact ⟨(i1 p hp).1, List.mem_cons_of_mem _ (i1 p hp).2⟩
    · intro p hp
      rcases List.mem_append.mp hp with hp | hp
      · obtain ⟨x, hx, rfl⟩ := List.mem_map.mp hp
        have := gather_mem _ _ facts.negRange x hx
        exact ⟨c12_mem_filterGroup.mp this, List.mem_cons_self⟩
      · exact ⟨(i2 p hp).1, List.mem_cons_of_mem _ (i2 p hp).2⟩
    · intro hsp grp'
      subst hsp
      have hne := c12_sampleIndices_noeasy (g.groupScores grp) false st i0 rfl rfl
      have htot := facts.total rfl
      rw [hne.1, hne.2] at htot
      have hN : (g.groupScores grp).nbAll =
          (c12_filterGroup g.pos grp).length + (c12_filterGroup g.neg grp).length := by
        simp only [Scores.nbAll, Scores.nbEasy, Scores.nbHard, c12_groupScores_eq]; omega
      rw [hN, c12_length_filterGroup, c12_length_filterGroup] at htot
      have i3' := i3 rfl grp'
      simp only [List.countP_append, c12_countP_label_piece, gather_length, List.count_cons]
      by_cases hg : grp = grp'
      · subst hg
        simp only [if_true, beq_self_eq_true, Nat.add_mul, Nat.one_mul, Spec.C12.labelCount] at i3' ⊢
        omega
      · have hb : (grp == grp') = false := by simpa using hg
        simp only [hg, if_false, hb, Bool.false_eq_true, Nat.add_zero, Nat.zero_add] at i3' ⊢
        exact i3'

/-! ### `bootstrap_sample`: the ways a sample comes about -/

/-- the run on `script` returned the sample `out` and was `ok` -/
def GRun (g : GScores) (c : GBootCfg) (script : List (List Nat)) (out : GScores) : Prop :=
  (g.runSample c script).1 = .ok out ∧ (g.runSample c script).2.ok = true

/-- Every successful `ok` run: smoothing off, replacement or single-pass, and either an index
sample of the whole object (no / label stratification) or the group loop. -/
theorem c12_bootstrap_cases (g : GScores) (c : GBootCfg) (script : List (List Nat))
    (out : GScores) (h : GRun g c script out) :
    c.smoothing = false ∧ ∃ sp : Bool,
      ((g.samplingMethod c = .replacement ∧ sp = false) ∨
       (g.samplingMethod c = .singlePass ∧ sp = true)) ∧
      (((c.strat = .none ∨ c.strat = .byLabel) ∧ ∃ r : Indices,
          IndexFacts g.toScores (c.strat == .byLabel) sp r ∧
          out = GScores.make (c12_gatherPairs g.pos r.idxPos) (c12_gatherPairs g.neg r.idxNeg)
            g.cfg (some g.groups) sp) ∨
       (c.strat = .byGroup ∧ g.groups ≠ [] ∧
          (c12_byGroupLoop g sp g.groups (RngState.init script)).2.ok = true ∧
          out = GScores.make (c12_byGroupLoop g sp g.groups (RngState.init script)).1.1
            (c12_byGroupLoop g sp g.groups (RngState.init script)).1.2 g.cfg (some g.groups)
            false)) := by
  obtain ⟨h1, h2⟩ := h
  unfold GScores.runSample GScores.bootstrapSample at h1 h2
  by_cases hs : c.smoothing = true
  · rw [if_pos hs] at h1; exact absurd h1 (by simp)
  · rw [if_neg hs] at h1 h2
    refine ⟨by simpa using hs, ?_⟩
    have key : ∀ sp : Bool, (g.resample c.strat sp (RngState.init script)).1 = .ok out →
        (g.resample c.strat sp (RngState.init script)).2.ok = true →
        (((c.strat = .none ∨ c.strat = .byLabel) ∧ ∃ r : Indices,
          IndexFacts g.toScores (c.strat == .byLabel) sp r ∧
          out = GScores.make (c12_gatherPairs g.pos r.idxPos) (c12_gatherPairs g.neg r.idxNeg)
            g.cfg (some g.groups) sp) ∨
        (c.strat = .byGroup ∧ g.groups ≠ [] ∧
          (c12_byGroupLoop g sp g.groups (RngState.init script)).2.ok = true ∧
          out = GScores.make (c12_byGroupLoop g sp g.groups (RngState.init script)).1.1
            (c12_byGroupLoop g sp g.groups (RngState.init script)).1.2 g.cfg (some g.groups)
            false)) := by
      intro sp k1 k2
      unfold GScores.resample at k1 k2
      cases hst : c.strat with
      | none =>
        left
        simp only [hst] at k1 k2 ⊢
        refine ⟨Or.inl trivial, _, (sampleIndices_spec g.toScores _ sp _ k2).2, ?_⟩
        injection k1 with k1; exact k1.symm
      | byLabel =>
        left
        simp only [hst] at k1 k2 ⊢
        refine ⟨Or.inr trivial, _, (sampleIndices_spec g.toScores _ sp _ k2).2, ?_⟩
        injection k1 with k1; exact k1.symm
      | byGroup =>
        right
        simp only [hst] at k1 k2
        by_cases he : g.groups.isEmpty = true
        · simp only [he, if_true] at k1; exact absurd k1 (by simp)
        · simp only [he] at k1 k2
          refine ⟨rfl, by simpa using he, k2, ?_⟩
          injection k1 with k1; exact k1.symm
      | unknown =>
        simp only [hst] at k1; exact absurd k1 (by simp)
    cases hm : g.samplingMethod c with
    | replacement =>
      simp only [hm] at h1 h2
      exact ⟨false, Or.inl ⟨rfl, rfl⟩, key false h1 h2⟩
    | singlePass =>
      simp only [hm] at h1 h2
      exact ⟨true, Or.inr ⟨rfl, rfl⟩, key true h1 h2⟩
    | proportion => simp only [hm] at h1; exact absurd h1 (by simp)
    | unknown => simp only [hm] at h1; exact absurd h1 (by simp)
    | dynamic => simp only [hm] at h1; exact absurd h1 (by simp)

/-! ### the requests of each stratification mode (`Spec.C12.stratReqsOK`) -/

section Requests
open Spec.C11 Spec.C12

/-- the stratum stage: the requests it adds (`XR`, most recent first) are what the first stage of
`consumeReqs` accepts -/
theorem c12_strata_consume (s : Scores) (b : Bool) (st : RngState)
    (hok : (strataFor s b st).2.ok = true) :
    ∃ XR : Obs, (strataFor s b st).2.trace = XR ++ st.trace ∧
      ∀ rest, (if b = true then some (s.pos.length, s.neg.length, XR.reverse ++ rest)
        else strataReqs 0 s (XR.reverse ++ rest)) =
        some ((strataFor s b st).1.hardPos, (strataFor s b st).1.hardNeg, rest) := by
  rcases strataFor_shape s b st hok with ⟨hb, htr, hv⟩ | ⟨hb, r1, r2, r3, n1, n2, hsum, htr, hp, hn⟩
  · subst hb
    exact ⟨[], by simp [htr], fun rest => by simp [hv]⟩
  · subst hb
    refine ⟨_, htr, fun rest => ?_⟩
    simp only [Bool.false_eq_true, if_false, List.reverse_cons, List.reverse_nil, List.cons_append,
      List.nil_append, strataReqs, beq_self_eq_true, closeQ_refl, Bool.and_true, hsum, if_true,
      hp, hn]

/-- The requests one `_sample_indices` call adds to the trace (`newR`, most recent first) are
exactly what `consumeReqs` accepts, whatever follows. -/
theorem c12_sampleIndices_consume (s : Scores) (b sp : Bool) (st : RngState)
    (hok : (sampleIndices s b sp st).2.ok = true) :
    ∃ newR : Obs, (sampleIndices s b sp st).2.trace = newR ++ st.trace ∧
      ∀ tail, consumeReqs 0 s b sp (newR.reverse ++ tail) = some tail := by
  unfold sampleIndices at hok ⊢
  cases sp with
  | false =>
    simp only [Bool.false_eq_true, ↓reduceIte, draw_trace] at hok ⊢
    have ha : (strataFor s b st).2.ok = true := (draw_ok (draw_ok hok).1).1
    obtain ⟨XR, hX, hstart⟩ := c12_strata_consume s b st ha
    refine ⟨?p2 :: ?p1 :: XR, ?h1, ?h2⟩
    case h1 => rw [hX]; rfl
    case h2 =>
      intro tail
      unfold consumeReqs
      simp only [List.reverse_cons, List.append_assoc, List.cons_append, List.nil_append]
      rw [hstart]
      simp only [Bool.false_eq_true, if_false, choiceReqOK, beq_self_eq_true, Bool.and_self,
        if_true]
  | true =>
    simp only [↓reduceIte] at hok ⊢
    have hf1 := (forceOne_spec _ _ _ _ hok).1
    have hc2 := (forceOne_spec _ _ _ _ hf1).1
    have hc1 := (singlePassCounts_spec _ _ _ hc2).1
    have ha : (strataFor s b st).2.ok = true := (singlePassCounts_spec _ _ _ hc1).1
    obtain ⟨XR, hX, hstart⟩ := c12_strata_consume s b st ha
    rcases forceOne_trace s.neg.length (strataFor s b st).1.hardNeg
      (singlePassCounts s.neg.length (strataFor s b st).1.hardNeg
        (singlePassCounts s.pos.length (strataFor s b st).1.hardPos (strataFor s b st).2).2).1
      (forceOne s.pos.length (strataFor s b st).1.hardPos
        (singlePassCounts s.pos.length (strataFor s b st).1.hardPos (strataFor s b st).2).1
        (singlePassCounts s.neg.length (strataFor s b st).1.hardNeg
          (singlePassCounts s.pos.length (strataFor s b st).1.hardPos (strataFor s b st).2).2).2).2
      with ⟨c2, x2, t2⟩ | ⟨c2, t2⟩ <;>
    rcases forceOne_trace s.pos.length (strataFor s b st).1.hardPos
      (singlePassCounts s.pos.length (strataFor s b st).1.hardPos (strataFor s b st).2).1
      (singlePassCounts s.neg.length (strataFor s b st).1.hardNeg
        (singlePassCounts s.pos.length (strataFor s b st).1.hardPos (strataFor s b st).2).2).2
      with ⟨c1, x1, t1⟩ | ⟨c1, t1⟩
    · rw [t2, t1]
      simp only [singlePassCounts, draw_trace] at c1 c2 ⊢
      refine ⟨?a4 :: ?a3 :: ?a2 :: ?a1 :: XR, ?h1, ?h2⟩
      case h1 => rw [hX]; rfl
      case h2 =>
        intro tail
        unfold consumeReqs
        simp only [List.reverse_cons, List.append_assoc, List.cons_append, List.nil_append]
        rw [hstart]
        simp only [if_true, countsReqOK_model, Bool.true_and, forcedReqs, c1, c2, and_self,
          List.cons_append, List.nil_append, List.length_cons, List.length_nil,
          List.take_succ_cons, List.take_zero, List.map_cons, List.map_nil, beq_self_eq_true,
          List.drop_succ_cons, List.drop_zero]
    · rw [t2, t1]
      simp only [singlePassCounts, draw_trace] at c1 c2 ⊢
      refine ⟨?b3 :: ?b2 :: ?b1 :: XR, ?h1, ?h2⟩
      case h1 => rw [hX]; rfl
      case h2 =>
        intro tail
        unfold consumeReqs
        simp only [List.reverse_cons, List.append_assoc, List.cons_append, List.nil_append]
        rw [hstart]
        simp only [if_true, if_false, countsReqOK_model, Bool.true_and, forcedReqs, c1, c2,
          and_self, List.nil_append, List.length_cons, List.length_nil,
          List.take_succ_cons, List.take_zero, List.map_cons, List.map_nil, beq_self_eq_true,
          List.drop_succ_cons, List.drop_zero]
    · rw [t2, t1]
      simp only [singlePassCounts, draw_trace] at c1 c2 ⊢
      refine ⟨?c3 :: ?c2 :: ?c1 :: XR, ?h1, ?h2⟩
      case h1 => rw [hX]; rfl
      case h2 =>
        intro tail
        unfold consumeReqs
        simp only [List.reverse_cons, List.append_assoc, List.cons_append, List.nil_append]
        rw [hstart]
        simp only [if_true, if_false, countsReqOK_model, Bool.true_and, forcedReqs, c1, c2,
          and_self, List.append_nil, List.length_cons,
          List.length_nil, List.take_succ_cons, List.take_zero, List.map_cons, List.map_nil,
          beq_self_eq_true, List.drop_succ_cons, List.drop_zero]
    · rw [t2, t1]
      simp only [singlePassCounts, draw_trace] at c1 c2 ⊢
      refine ⟨?d2 :: ?d1 :: XR, ?h1, ?h2⟩
      case h1 => rw [hX]; rfl
      case h2 =>
        intro tail
        unfold consumeReqs
        simp only [List.reverse_cons, List.append_assoc, List.cons_append, List.nil_append]
        rw [hstart]
        simp only [if_true, if_false, countsReqOK_model, Bool.true_and, forcedReqs, c1, c2,
          List.append_nil, List.length_nil, List.take_zero, List.map_nil,
          beq_self_eq_true, List.drop_zero]

/-- the requests of the `by_group` loop: one `_sample_indices(by_label=False)` block per listed
group, in order -/
theorem c12_byGroupLoop_consume (g : GScores) (sp : Bool) (grps : List Nat) (st : RngState)
    (hok : (c12_byGroupLoop g sp grps st).2.ok = true) :
    ∃ newR : Obs, (c12_byGroupLoop g sp grps st).2.trace = newR ++ st.trace ∧
      ∀ tail, grps.foldl (fun acc grp => acc.bind (consumeReqs 0 (g.groupScores grp) false sp))
        (some (newR.reverse ++ tail)) = some tail := by
  induction grps generalizing st with
  | nil => exact ⟨[], by simp [c12_byGroupLoop], fun tail => rfl⟩
  | cons grp rest ih =>
    simp only [c12_byGroupLoop] at hok ⊢
    obtain ⟨n2, t2, k2⟩ := ih _ hok
    have hok1 := (c12_byGroupLoop_spec g sp rest _ hok).1
    obtain ⟨n1, t1, k1⟩ := c12_sampleIndices_consume (g.groupScores grp) false sp st hok1
    refine ⟨n2 ++ n1, by rw [t2, t1, List.append_assoc], fun tail => ?_⟩
    simp only [List.foldl_cons, Option.bind_some, List.reverse_append, List.append_assoc, k1, k2]

end Requests

end SA
