/-
The normalised core of threshold setting: `_invert_increasing_function` on a sorted list.
`cntLt s t = #{x ∈ s : x < t}`, `cntLe s t = #{x ∈ s : x ≤ t}`.
-/
import SA.Proofs.Threshold

namespace SA

def cntLt (s : List ℚ) (t : ℚ) : ℕ := s.countP (fun x => decide (x < t))
def cntLe (s : List ℚ) (t : ℚ) : ℕ := s.countP (fun x => decide (x ≤ t))

theorem cntLt_le_cntLe (s : List ℚ) (t : ℚ) : cntLt s t ≤ cntLe s t := by
  unfold cntLt cntLe
  apply List.countP_mono_left
  intro x _ h
  simp only [decide_eq_true_eq] at *
  exact le_of_lt h

theorem cntLe_le_length (s : List ℚ) (t : ℚ) : cntLe s t ≤ s.length := List.countP_le_length

theorem lt_iff_cntLt (s : List ℚ) (hs : s.Pairwise (· ≤ ·)) (t : ℚ) (i : ℕ) (hi : i < s.length) :
    s[i] < t ↔ i < cntLt s t := by
  have := sorted_prefix s hs (fun x => decide (x < t))
    (by intro a b hab hb; simp only [decide_eq_true_eq] at *; exact lt_of_le_of_lt hab hb) i hi
  simpa [cntLt] using this

theorem le_iff_cntLe (s : List ℚ) (hs : s.Pairwise (· ≤ ·)) (t : ℚ) (i : ℕ) (hi : i < s.length) :
    s[i] ≤ t ↔ i < cntLe s t := by
  have := sorted_prefix s hs (fun x => decide (x ≤ t))
    (by intro a b hab hb; simp only [decide_eq_true_eq] at *; exact le_trans hab hb) i hi
  simpa [cntLe] using this

/-- counts are monotone in the threshold, and `cntLe` below is at most `cntLt` above -/
theorem cntLe_le_cntLt_of_lt (s : List ℚ) (a b : ℚ) (h : a < b) : cntLe s a ≤ cntLt s b := by
  unfold cntLt cntLe
  apply List.countP_mono_left
  intro x _ hx
  simp only [decide_eq_true_eq] at *
  exact lt_of_le_of_lt hx h

theorem cntLt_mono (s : List ℚ) (a b : ℚ) (h : a ≤ b) : cntLt s a ≤ cntLt s b := by
  unfold cntLt
  apply List.countP_mono_left
  intro x _ hx
  simp only [decide_eq_true_eq] at *
  exact lt_of_lt_of_le hx h

theorem cntLe_mono (s : List ℚ) (a b : ℚ) (h : a ≤ b) : cntLe s a ≤ cntLe s b := by
  unfold cntLe
  apply List.countP_mono_left
  intro x _ hx
  simp only [decide_eq_true_eq] at *
  exact le_trans hx h

/-- the `linear` branch of `_invert_increasing_function` for an index target `x` -/
def interp (s : List ℚ) (x : ℚ) : ℚ :=
  (((ceilQ x : ℤ) : ℚ) - x) * s.getD (clampIdx x.floor s.length) 0 +
    (1 - (((ceilQ x : ℤ) : ℚ) - x)) * s.getD (clampIdx (ceilQ x) s.length) 0

theorem getD_eq (s : List ℚ) (i : ℕ) (hi : i < s.length) : s.getD i 0 = s[i] := by
  simp [List.getD_eq_getElem?_getD, List.getElem?_eq_getElem hi]

/-- Core bracket lemma for an index target `0 ≤ x < N`. -/
theorem interp_bracket (s : List ℚ) (hs : s.Pairwise (· ≤ ·)) (x : ℚ)
    (hx0 : 0 ≤ x) (hxN : x < s.length) :
    (cntLt s (interp s x) : ℤ) ≤ ⌈x⌉ ∧ ⌊x⌋ + 1 ≤ (cntLe s (interp s x) : ℤ) := by
  have hfl0 : 0 ≤ ⌊x⌋ := Int.floor_nonneg.mpr hx0
  have hflN : ⌊x⌋ < (s.length : ℤ) := by
    have h1 : (⌊x⌋ : ℚ) ≤ x := Int.floor_le x
    have h2 : (⌊x⌋ : ℚ) < (s.length : ℚ) := lt_of_le_of_lt h1 hxN
    exact_mod_cast h2
  obtain ⟨k, hk⟩ := Int.eq_ofNat_of_zero_le hfl0
  have hkN : k < s.length := by rw [hk] at hflN; exact_mod_cast hflN
  have hflq : x.floor = (k : ℤ) := by show ⌊x⌋ = _; exact hk
  have hLle : cntLt s (interp s x) ≤ s.length := List.countP_le_length
  by_cases hint : (⌊x⌋ : ℚ) = x
  · -- grid target: threshold is s[k]
    have hce : ⌈x⌉ = (k : ℤ) := by
      rw [← hk]; rw [← hint]; simp
    have hthr : interp s x = s[k] := by
      unfold interp
      rw [ceilQ_eq, hce, hflq]
      have hxk : x = (k : ℚ) := by rw [← hint, hk]; simp
      have hc : clampIdx (k : ℤ) s.length = k := by unfold clampIdx; omega
      rw [hc, hxk, getD_eq s k hkN]; simp
    rw [hthr, hce, hk]
    constructor
    · have : ¬ (k < cntLt s s[k]) := by
        intro h; exact lt_irrefl _ ((lt_iff_cntLt s hs s[k] k hkN).mpr h)
      omega
    · have := (le_iff_cntLe s hs s[k] k hkN).mp (le_refl _)
      omega
  · -- off-grid target
    have hlt : (⌊x⌋ : ℚ) < x := lt_of_le_of_ne (Int.floor_le x) hint
    have hce : ⌈x⌉ = (k : ℤ) + 1 := by
      rw [← hk]
      rw [Int.ceil_eq_iff]; constructor
      · push_cast; linarith
      · push_cast; have := Int.lt_floor_add_one x; linarith
    have hla0 : 0 < ((k : ℚ) + 1 - x) := by
      have := Int.lt_floor_add_one x; rw [hk] at this; push_cast at this; linarith
    have hla1 : ((k : ℚ) + 1 - x) < 1 := by rw [hk] at hlt; push_cast at hlt; linarith
    have hcl : clampIdx (k : ℤ) s.length = k := by unfold clampIdx; omega
    by_cases hlast : k + 1 < s.length
    · have hch : clampIdx ((k : ℤ) + 1) s.length = k + 1 := by unfold clampIdx; omega
      have hthr : interp s x =
          ((k : ℚ) + 1 - x) * s[k] + (1 - ((k : ℚ) + 1 - x)) * s[k+1] := by
        unfold interp
        rw [ceilQ_eq, hce, hflq, hcl, hch, getD_eq s k hkN, getD_eq s (k+1) hlast]
        push_cast; ring
      have hord : s[k] ≤ s[k+1] :=
        List.pairwise_iff_getElem.mp hs k (k+1) hkN hlast (by omega)
      have h1 : s[k] ≤ interp s x := by rw [hthr]; nlinarith
      have h2 : interp s x ≤ s[k+1] := by rw [hthr]; nlinarith
      rw [hce, hk]
      constructor
      · have : ¬ (k + 1 < cntLt s (interp s x)) := by
          intro h
          have := (lt_iff_cntLt s hs _ (k+1) hlast).mpr h
          exact absurd this (not_lt.mpr h2)
        omega
      · have := (le_iff_cntLe s hs _ k hkN).mp h1
        omega
    · have hkl : k + 1 = s.length := by omega
      have hch : clampIdx ((k : ℤ) + 1) s.length = k := by unfold clampIdx; omega
      have hthr : interp s x = s[k] := by
        unfold interp
        rw [ceilQ_eq, hce, hflq, hcl, hch, getD_eq s k hkN]
        push_cast; ring
      rw [hthr, hce, hk]
      constructor
      · have : cntLt s s[k] ≤ s.length := List.countP_le_length
        omega
      · have := (le_iff_cntLe s hs s[k] k hkN).mp (le_refl _)
        omega

theorem cnt_of_all_gt (s : List ℚ) (t : ℚ) (h : ∀ x ∈ s, t < x) :
    cntLt s t = 0 ∧ cntLe s t = 0 := by
  unfold cntLt cntLe
  constructor <;> rw [List.countP_eq_zero] <;> intro x hx <;> have := h x hx <;> simp <;> linarith

theorem cnt_of_all_lt (s : List ℚ) (t : ℚ) (h : ∀ x ∈ s, x < t) :
    cntLt s t = s.length ∧ cntLe s t = s.length := by
  unfold cntLt cntLe
  constructor <;> rw [List.countP_eq_length] <;> intro x hx <;> have := h x hx <;> simp <;> linarith

/-- value of `invertIncreasing` (linear) for an interior target -/
theorem invertIncreasing_interior (u : Ulp) (s : List ℚ) (r : ℚ) (lc : Bool)
    (h1 : r < 1) (h0 : 0 < (if lc then r else r - 1 / (s.length : ℚ))) :
    invertIncreasing u s r lc .linear = interp s (indexTarget s r lc) := by
  unfold invertIncreasing indexTarget interp
  have h1' : ¬ (1 ≤ r) := by linarith
  have h0' : ¬ ((if lc = true then r else r - 1 / (s.length : ℚ)) ≤ 0) := by linarith
  simp only [h1', decide_false, Bool.false_eq_true, if_false, h0']

def clip01 (r : ℚ) : ℚ := max 0 (min r 1)

/-- **Normalised bracket.** On a sorted non-empty list, for every target `r` and both
continuity conventions, the counts strictly below and up to the returned threshold bracket
`clip01 r * N` to within one sample. -/
theorem invert_bracket (u : Ulp) (hu : u.Lawful) (s : List ℚ) (hs : s.Pairwise (· ≤ ·))
    (hne : s.length ≠ 0) (r : ℚ) (lc : Bool) :
    ((cntLt s (invertIncreasing u s r lc .linear) : ℚ) - 1 ≤ clip01 r * (s.length : ℚ)) ∧
    (clip01 r * (s.length : ℚ) ≤ (cntLe s (invertIncreasing u s r lc .linear) : ℚ) + 1) := by
  have hN : (0 : ℚ) < (s.length : ℚ) := by exact_mod_cast Nat.pos_of_ne_zero hne
  by_cases h1 : 1 ≤ r
  · -- upper special case
    rw [invertIncreasing_high u s r lc .linear h1]
    have hall : ∀ x ∈ s, x < u.up (s.getD (s.length - 1) 0) := fun x hx =>
      lt_of_le_of_lt (le_last_of_sorted s hs x hx) (hu.lt_up _)
    obtain ⟨hL, hU⟩ := cnt_of_all_lt s _ hall
    have hc : clip01 r = 1 := by unfold clip01; rw [min_eq_right h1]; simp
    rw [hL, hU, hc]; constructor <;> linarith
  · rw [not_le] at h1
    by_cases h0 : (if lc then r else r - 1 / (s.length : ℚ)) ≤ 0
    · -- lower special case
      have hthr : invertIncreasing u s r lc .linear = u.down (s.getD 0 0) := by
        unfold invertIncreasing
        have h1' : ¬ (1 ≤ r) := by linarith
        simp only [h1', decide_false, Bool.false_eq_true, if_false]
        rw [if_pos]; simpa using h0
      rw [hthr]
      have hall : ∀ x ∈ s, u.down (s.getD 0 0) < x := fun x hx =>
        lt_of_lt_of_le (hu.down_lt _) (head_le_of_sorted s hs x hx)
      obtain ⟨hL, hU⟩ := cnt_of_all_gt s _ hall
      rw [hL, hU]
      have hr : r ≤ 1 / (s.length : ℚ) := by
        have hinv : (0:ℚ) ≤ 1 / (s.length : ℚ) := by positivity
        cases lc <;> simp only [Bool.false_eq_true, if_false, if_true] at h0 <;> linarith
      have hc0 : 0 ≤ clip01 r := le_max_left _ _
      have hc1 : clip01 r ≤ 1 / (s.length : ℚ) := by
        unfold clip01
        apply max_le (by positivity)
        exact le_trans (min_le_left _ _) hr
      constructor
      · push_cast; nlinarith
      · push_cast
        calc clip01 r * (s.length : ℚ) ≤ 1 / (s.length : ℚ) * (s.length : ℚ) :=
              mul_le_mul_of_nonneg_right hc1 (le_of_lt hN)
          _ = 1 := by field_simp
          _ ≤ 0 + 1 := by norm_num
    · -- interior target
      rw [not_le] at h0
      rw [invertIncreasing_interior u s r lc h1 h0]
      have hr0 : 0 < r := by
        have hinv : (0:ℚ) ≤ 1 / (s.length : ℚ) := by positivity
        cases lc <;> simp only [Bool.false_eq_true, if_false, if_true] at h0 <;> linarith
      have hc : clip01 r = r := by
        unfold clip01; rw [min_eq_left (le_of_lt h1)]; exact max_eq_right (le_of_lt hr0)
      rw [hc]
      have hx0 : 0 ≤ indexTarget s r lc := by
        unfold indexTarget; exact le_of_lt (mul_pos h0 hN)
      have hxN : indexTarget s r lc < (s.length : ℚ) := by
        unfold indexTarget
        have hinv : (0:ℚ) ≤ 1 / (s.length : ℚ) := by positivity
        have : (if lc = true then r else r - 1 / (s.length : ℚ)) < 1 := by
          cases lc <;> simp only [Bool.false_eq_true, if_false, if_true] <;> linarith
        calc _ < 1 * (s.length : ℚ) := mul_lt_mul_of_pos_right this hN
          _ = _ := one_mul _
      obtain ⟨hL, hU⟩ := interp_bracket s hs _ hx0 hxN
      have hLq : (cntLt s (interp s (indexTarget s r lc)) : ℚ) ≤ (⌈indexTarget s r lc⌉ : ℚ) := by
        exact_mod_cast hL
      have hUq : ((⌊indexTarget s r lc⌋ : ℚ) + 1) ≤ (cntLe s (interp s (indexTarget s r lc)) : ℚ) := by
        exact_mod_cast hU
      have hceil := Int.ceil_lt_add_one (indexTarget s r lc)
      have hfloor := Int.lt_floor_add_one (indexTarget s r lc)
      constructor
      · cases lc
        · -- x = rN - 1: ⌈x⌉ < x + 1 = rN
          have : indexTarget s r false = r * (s.length : ℚ) - 1 := by
            unfold indexTarget; simp only [Bool.false_eq_true, if_false]; field_simp
          rw [this] at hceil hLq ⊢; linarith
        · have : indexTarget s r true = r * (s.length : ℚ) := by
            unfold indexTarget; simp only [if_true]
          rw [this] at hceil hLq ⊢; linarith
      · cases lc
        · have : indexTarget s r false = r * (s.length : ℚ) - 1 := by
            unfold indexTarget; simp only [Bool.false_eq_true, if_false]; field_simp
          rw [this] at hfloor hUq ⊢; linarith
        · have : indexTarget s r true = r * (s.length : ℚ) := by
            unfold indexTarget; simp only [if_true]
          rw [this] at hfloor hUq ⊢; linarith

end SA

namespace SA

/-! ### tie-free lists: exact counts -/

theorem cnt_strict (s : List ℚ) (hs : s.Pairwise (· < ·)) (i : ℕ) (hi : i < s.length) :
    cntLt s s[i] = i ∧ cntLe s s[i] = i + 1 := by
  have hs' : s.Pairwise (· ≤ ·) := hs.imp le_of_lt
  constructor
  · have h1 : ¬ (i < cntLt s s[i]) := fun h => lt_irrefl _ ((lt_iff_cntLt s hs' _ i hi).mpr h)
    have h2 : ∀ j (hj : j < i), j < cntLt s s[i] := fun j hj =>
      (lt_iff_cntLt s hs' _ j (by omega)).mp (List.pairwise_iff_getElem.mp hs j i (by omega) hi hj)
    rcases Nat.eq_zero_or_pos i with h0 | h0
    · omega
    · have := h2 (i - 1) (by omega); omega
  · have h1 : i < cntLe s s[i] := (le_iff_cntLe s hs' _ i hi).mp (le_refl _)
    have h2 : cntLe s s[i] ≤ s.length := List.countP_le_length
    by_contra hne
    have h3 : i + 1 < cntLe s s[i] := by omega
    have h4 : i + 1 < s.length := by omega
    have := (le_iff_cntLe s hs' s[i] (i+1) h4).mpr h3
    have := List.pairwise_iff_getElem.mp hs i (i+1) hi h4 (by omega)
    linarith

theorem cnt_between (s : List ℚ) (hs : s.Pairwise (· ≤ ·)) (k : ℕ) (hk : k + 1 < s.length) (t : ℚ)
    (h1 : s[k] < t) (h2 : t < s[k+1]) : cntLt s t = k + 1 ∧ cntLe s t = k + 1 := by
  have a1 : k < cntLt s t := (lt_iff_cntLt s hs t k (by omega)).mp h1
  have a2 : ¬ (k + 1 < cntLe s t) := fun h =>
    absurd ((le_iff_cntLe s hs t (k+1) hk).mpr h) (not_le.mpr h2)
  have a3 := cntLt_le_cntLe s t
  omega

/-- Exact counts at the interpolated threshold on a strictly sorted list. -/
theorem interp_exact (s : List ℚ) (hs : s.Pairwise (· < ·)) (x : ℚ)
    (hx0 : 0 ≤ x) (hxN : x < s.length) :
    ((⌊x⌋ : ℚ) = x → (cntLt s (interp s x) : ℤ) = ⌊x⌋ ∧ (cntLe s (interp s x) : ℤ) = ⌊x⌋ + 1) ∧
    ((⌊x⌋ : ℚ) ≠ x → ⌊x⌋ + 1 < (s.length : ℤ) →
      (cntLt s (interp s x) : ℤ) = ⌊x⌋ + 1 ∧ (cntLe s (interp s x) : ℤ) = ⌊x⌋ + 1) ∧
    ((⌊x⌋ : ℚ) ≠ x → ⌊x⌋ + 1 = (s.length : ℤ) →
      (cntLt s (interp s x) : ℤ) = ⌊x⌋ ∧ (cntLe s (interp s x) : ℤ) = ⌊x⌋ + 1) := by
  have hs' : s.Pairwise (· ≤ ·) := hs.imp le_of_lt
  have hfl0 : 0 ≤ ⌊x⌋ := Int.floor_nonneg.mpr hx0
  have hflN : ⌊x⌋ < (s.length : ℤ) := by
    have h1 : (⌊x⌋ : ℚ) ≤ x := Int.floor_le x
    have h2 : (⌊x⌋ : ℚ) < (s.length : ℚ) := lt_of_le_of_lt h1 hxN
    exact_mod_cast h2
  obtain ⟨k, hk⟩ := Int.eq_ofNat_of_zero_le hfl0
  have hkN : k < s.length := by rw [hk] at hflN; exact_mod_cast hflN
  have hflq : x.floor = (k : ℤ) := by show ⌊x⌋ = _; exact hk
  have hcl : clampIdx (k : ℤ) s.length = k := by unfold clampIdx; omega
  refine ⟨?_, ?_, ?_⟩
  · intro hint
    have hce : ⌈x⌉ = (k : ℤ) := by rw [← hk]; rw [← hint]; simp
    have hthr : interp s x = s[k] := by
      unfold interp
      rw [ceilQ_eq, hce, hflq]
      have hxk : x = (k : ℚ) := by rw [← hint, hk]; simp
      rw [hcl, hxk, getD_eq s k hkN]; simp
    obtain ⟨c1, c2⟩ := cnt_strict s hs k hkN
    rw [hthr, hk, c1, c2]; simp
  · intro hint hlast
    have hlt : (⌊x⌋ : ℚ) < x := lt_of_le_of_ne (Int.floor_le x) hint
    have hce : ⌈x⌉ = (k : ℤ) + 1 := by
      rw [← hk, Int.ceil_eq_iff]; constructor
      · push_cast; linarith
      · push_cast; have := Int.lt_floor_add_one x; linarith
    have hla0 : 0 < ((k : ℚ) + 1 - x) := by
      have := Int.lt_floor_add_one x; rw [hk] at this; push_cast at this; linarith
    have hla1 : ((k : ℚ) + 1 - x) < 1 := by rw [hk] at hlt; push_cast at hlt; linarith
    have hlast' : k + 1 < s.length := by rw [hk] at hlast; exact_mod_cast hlast
    have hch : clampIdx ((k : ℤ) + 1) s.length = k + 1 := by unfold clampIdx; omega
    have hthr : interp s x =
        ((k : ℚ) + 1 - x) * s[k] + (1 - ((k : ℚ) + 1 - x)) * s[k+1] := by
      unfold interp
      rw [ceilQ_eq, hce, hflq, hcl, hch, getD_eq s k hkN, getD_eq s (k+1) hlast']
      push_cast; ring
    have hord : s[k] < s[k+1] :=
      List.pairwise_iff_getElem.mp hs k (k+1) hkN hlast' (by omega)
    have h1 : s[k] < interp s x := by rw [hthr]; nlinarith
    have h2 : interp s x < s[k+1] := by rw [hthr]; nlinarith
    obtain ⟨c1, c2⟩ := cnt_between s hs' k hlast' _ h1 h2
    rw [hk, c1, c2]; simp
  · intro hint hlast
    have hlt : (⌊x⌋ : ℚ) < x := lt_of_le_of_ne (Int.floor_le x) hint
    have hce : ⌈x⌉ = (k : ℤ) + 1 := by
      rw [← hk, Int.ceil_eq_iff]; constructor
      · push_cast; linarith
      · push_cast; have := Int.lt_floor_add_one x; linarith
    have hkl : k + 1 = s.length := by rw [hk] at hlast; exact_mod_cast hlast
    have hch : clampIdx ((k : ℤ) + 1) s.length = k := by unfold clampIdx; omega
    have hthr : interp s x = s[k] := by
      unfold interp
      rw [ceilQ_eq, hce, hflq, hcl, hch, getD_eq s k hkN]
      push_cast; ring
    obtain ⟨c1, c2⟩ := cnt_strict s hs k hkN
    rw [hthr, hk, c1, c2]; simp

/-- **Normalised round trip (tie-free).** On a strictly sorted list every count `c` between
`cntLt` and `cntLe` at the returned threshold is within one sample of `clip01 r * N`. -/
theorem invert_within (u : Ulp) (hu : u.Lawful) (s : List ℚ) (hs : s.Pairwise (· < ·))
    (hne : s.length ≠ 0) (r : ℚ) (lc : Bool) (c : ℕ)
    (hc1 : cntLt s (invertIncreasing u s r lc .linear) ≤ c)
    (hc2 : c ≤ cntLe s (invertIncreasing u s r lc .linear)) :
    ((c : ℚ) - 1 ≤ clip01 r * (s.length : ℚ)) ∧ (clip01 r * (s.length : ℚ) ≤ (c : ℚ) + 1) := by
  have hs' : s.Pairwise (· ≤ ·) := hs.imp le_of_lt
  have hN : (0 : ℚ) < (s.length : ℚ) := by exact_mod_cast Nat.pos_of_ne_zero hne
  obtain ⟨hB1, hB2⟩ := invert_bracket u hu s hs' hne r lc
  by_cases h1 : 1 ≤ r
  · rw [invertIncreasing_high u s r lc .linear h1] at hc1 hc2 hB1 hB2
    have hall : ∀ x ∈ s, x < u.up (s.getD (s.length - 1) 0) := fun x hx =>
      lt_of_le_of_lt (le_last_of_sorted s hs' x hx) (hu.lt_up _)
    obtain ⟨hL, hU⟩ := cnt_of_all_lt s _ hall
    have : c = s.length := by omega
    subst this
    rw [hL] at hB1; rw [hU] at hB2; exact ⟨hB1, hB2⟩
  · rw [not_le] at h1
    by_cases h0 : (if lc then r else r - 1 / (s.length : ℚ)) ≤ 0
    · have hthr : invertIncreasing u s r lc .linear = u.down (s.getD 0 0) := by
        unfold invertIncreasing
        have h1' : ¬ (1 ≤ r) := by linarith
        simp only [h1', decide_false, Bool.false_eq_true, if_false]
        rw [if_pos]; simpa using h0
      rw [hthr] at hc1 hc2 hB1 hB2
      have hall : ∀ x ∈ s, u.down (s.getD 0 0) < x := fun x hx =>
        lt_of_lt_of_le (hu.down_lt _) (head_le_of_sorted s hs' x hx)
      obtain ⟨hL, hU⟩ := cnt_of_all_gt s _ hall
      have : c = 0 := by omega
      subst this
      rw [hL] at hB1; rw [hU] at hB2; exact ⟨hB1, hB2⟩
    · rw [not_le] at h0
      rw [invertIncreasing_interior u s r lc h1 h0] at hc1 hc2
      have hr0 : 0 < r := by
        have hinv : (0:ℚ) ≤ 1 / (s.length : ℚ) := by positivity
        cases lc <;> simp only [Bool.false_eq_true, if_false, if_true] at h0 <;> linarith
      have hc : clip01 r = r := by
        unfold clip01; rw [min_eq_left (le_of_lt h1)]; exact max_eq_right (le_of_lt hr0)
      rw [hc]
      have hx0 : 0 ≤ indexTarget s r lc := by
        unfold indexTarget; exact le_of_lt (mul_pos h0 hN)
      have hxN : indexTarget s r lc < (s.length : ℚ) := by
        unfold indexTarget
        have hinv : (0:ℚ) ≤ 1 / (s.length : ℚ) := by positivity
        have : (if lc = true then r else r - 1 / (s.length : ℚ)) < 1 := by
          cases lc <;> simp only [Bool.false_eq_true, if_false, if_true] <;> linarith
        calc _ < 1 * (s.length : ℚ) := mul_lt_mul_of_pos_right this hN
          _ = _ := one_mul _
      obtain ⟨e1, e2, e3⟩ := interp_exact s hs _ hx0 hxN
      have hfloor := Int.lt_floor_add_one (indexTarget s r lc)
      have hfloor' := Int.floor_le (indexTarget s r lc)
      have hc1z : (cntLt s (interp s (indexTarget s r lc)) : ℤ) ≤ (c : ℤ) := by exact_mod_cast hc1
      have hc2z : (c : ℤ) ≤ (cntLe s (interp s (indexTarget s r lc)) : ℤ) := by exact_mod_cast hc2
      have hflN : ⌊indexTarget s r lc⌋ + 1 ≤ (s.length : ℤ) := by
        have h2 : (⌊indexTarget s r lc⌋ : ℚ) < (s.length : ℚ) := lt_of_le_of_lt hfloor' hxN
        have : ⌊indexTarget s r lc⌋ < (s.length : ℤ) := by exact_mod_cast h2
        omega
      have hxeq : indexTarget s r lc = if lc then r * (s.length : ℚ) else r * (s.length : ℚ) - 1 := by
        unfold indexTarget
        cases lc <;> simp only [Bool.false_eq_true, if_false, if_true]
        field_simp
      -- c is within {⌊x⌋, ⌊x⌋+1}; relate to r*N
      have hcq : ((⌊indexTarget s r lc⌋ : ℤ) : ℚ) ≤ (c : ℚ) ∧ (c : ℚ) ≤ ((⌊indexTarget s r lc⌋ : ℤ) : ℚ) + 1 := by
        by_cases hint : (⌊indexTarget s r lc⌋ : ℚ) = indexTarget s r lc
        · obtain ⟨a1, a2⟩ := e1 hint
          constructor
          · have : ⌊indexTarget s r lc⌋ ≤ (c : ℤ) := by omega
            exact_mod_cast this
          · have : (c : ℤ) ≤ ⌊indexTarget s r lc⌋ + 1 := by omega
            exact_mod_cast this
        · rcases lt_or_eq_of_le hflN with hl | hl
          · obtain ⟨a1, a2⟩ := e2 hint hl
            constructor
            · have : ⌊indexTarget s r lc⌋ ≤ (c : ℤ) := by omega
              exact_mod_cast this
            · have : (c : ℤ) ≤ ⌊indexTarget s r lc⌋ + 1 := by omega
              exact_mod_cast this
          · obtain ⟨a1, a2⟩ := e3 hint hl
            constructor
            · have : ⌊indexTarget s r lc⌋ ≤ (c : ℤ) := by omega
              exact_mod_cast this
            · have : (c : ℤ) ≤ ⌊indexTarget s r lc⌋ + 1 := by omega
              exact_mod_cast this
      obtain ⟨q1, q2⟩ := hcq
      cases lc
      · -- x = rN - 1; need finer info in the off-grid case (c = ⌊x⌋ + 1)
        simp only [Bool.false_eq_true, if_false] at hxeq
        constructor
        · -- c - 1 ≤ rN : c ≤ ⌊x⌋ + 1 ≤ x + 1 = rN
          linarith
        · -- rN ≤ c + 1: rN = x + 1 < ⌊x⌋ + 2; need c ≥ ⌊x⌋ + ... use cases
          by_cases hint : (⌊indexTarget s r false⌋ : ℚ) = indexTarget s r false
          · linarith
          · have hl : ⌊indexTarget s r false⌋ + 1 < (s.length : ℤ) := by
              have hx2 : indexTarget s r false < (s.length : ℚ) - 1 := by
                rw [hxeq]; nlinarith
              have : (⌊indexTarget s r false⌋ : ℚ) < (s.length : ℚ) - 1 := lt_of_le_of_lt hfloor' hx2
              have : ((⌊indexTarget s r false⌋ + 1 : ℤ) : ℚ) < ((s.length : ℤ) : ℚ) := by
                push_cast; linarith
              exact_mod_cast this
            obtain ⟨a1, a2⟩ := e2 hint hl
            have : (c : ℤ) = ⌊indexTarget s r false⌋ + 1 := by omega
            have : (c : ℚ) = ((⌊indexTarget s r false⌋ : ℤ) : ℚ) + 1 := by exact_mod_cast this
            linarith
      · simp only [if_true] at hxeq
        constructor <;> linarith

end SA
