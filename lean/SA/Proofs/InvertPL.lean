/-
Helper lemmas for C17: one crossing segment, monotone samples, `argminL`.
-/
import SA.Spec.C17
import Mathlib.Tactic.Linarith
import Mathlib.Tactic.Ring
import Mathlib.Tactic.FieldSimp
import Mathlib.Tactic.Positivity

namespace SA

theorem absR_nonneg (a : ℚ) : 0 ≤ absPL a := by
  unfold absPL; split <;> linarith

theorem absR_eq_zero {a : ℚ} (h : absPL a ≤ 0) : a = 0 := by
  unfold absPL at h; split at h <;> linarith

theorem absR_zero : absPL (0 : ℚ) = 0 := by simp [absPL]

/-- a crossing segment has distinct end values and an interpolation weight in `[0, 1)` -/
theorem crossing_la (a b t : ℚ) (h : isCrossing a b t = true) :
    a ≠ b ∧ 0 ≤ (t - a) / (b - a) ∧ (t - a) / (b - a) < 1 := by
  simp only [isCrossing, Bool.or_eq_true, Bool.and_eq_true, decide_eq_true_eq, gt_iff_lt,
    ge_iff_le] at h
  rcases h with ⟨h1, h2⟩ | ⟨h1, h2⟩
  · have hba : 0 < b - a := by linarith
    exact ⟨by intro e; subst e; linarith, div_nonneg (by linarith) hba.le,
      (div_lt_one hba).mpr (by linarith)⟩
  · have hab : 0 < a - b := by linarith
    have e : (t - a) / (b - a) = (a - t) / (a - b) := by
      rw [div_eq_div_iff (by linarith) (by linarith)]; ring
    rw [e]
    exact ⟨by intro e; subst e; linarith, div_nonneg (by linarith) hab.le,
      (div_lt_one hab).mpr (by linarith)⟩

/-- the point computed on a crossing segment with `x0 < x1`: it lies in `[x0, x1)` and solves the
interpolation equation -/
theorem seg_spec (x0 x1 a b t : ℚ) (hx : x0 < x1) (h : isCrossing a b t = true) :
    x0 ≤ (1 - (t - a) / (b - a)) * x0 + (t - a) / (b - a) * x1 ∧
    (1 - (t - a) / (b - a)) * x0 + (t - a) / (b - a) * x1 < x1 ∧
    ((1 - (t - a) / (b - a)) * x0 + (t - a) / (b - a) * x1 - x0) * (b - a)
      = (t - a) * (x1 - x0) := by
  obtain ⟨hab, h0, h1⟩ := crossing_la a b t h
  have hne : b - a ≠ 0 := by intro e; apply hab; linarith
  have hla : (t - a) / (b - a) * (b - a) = t - a := div_mul_cancel₀ _ hne
  generalize (t - a) / (b - a) = la at *
  have hdx : 0 < x1 - x0 := by linarith
  refine ⟨?_, ?_, ?_⟩
  · have := mul_nonneg h0 hdx.le
    nlinarith
  · have : 0 < (1 - la) * (x1 - x0) := mul_pos (by linarith) hdx
    nlinarith
  · calc ((1 - la) * x0 + la * x1 - x0) * (b - a) = la * (b - a) * (x1 - x0) := by ring
      _ = (t - a) * (x1 - x0) := by rw [hla]

theorem getD_eq' (l : List ℚ) (i : ℕ) (hi : i < l.length) : l.getD i 0 = l[i] := by
  simp [List.getD_eq_getElem?_getD, hi]

/-- a non-decreasing list, by index -/
theorem getD_mono (x : List ℚ) (hx : x.Pairwise (· ≤ ·)) (i j : ℕ) (hij : i ≤ j)
    (hj : j < x.length) : x.getD i 0 ≤ x.getD j 0 := by
  rw [getD_eq' x i (by omega), getD_eq' x j hj]
  rcases Nat.lt_or_eq_of_le hij with h | h
  · exact (List.pairwise_iff_getElem.mp hx) i j (by omega) hj h
  · subst h; exact le_refl _

theorem mem_crossIdx (y : List ℚ) (t : ℚ) (j : ℕ) :
    j ∈ crossIdx y t ↔ j + 1 < y.length ∧ isCrossing (y.getD j 0) (y.getD (j + 1) 0) t = true := by
  unfold crossIdx
  rw [List.mem_filter, List.mem_range]
  constructor
  · rintro ⟨h1, h2⟩; exact ⟨by omega, h2⟩
  · rintro ⟨h1, h2⟩; exact ⟨by omega, h2⟩

theorem crossIdx_pairwise (y : List ℚ) (t : ℚ) : (crossIdx y t).Pairwise (· < ·) := by
  unfold crossIdx
  exact List.Pairwise.filter _ List.pairwise_lt_range

/-- `argminL` returns the first index holding the minimum -/
theorem argminL_spec (d : List ℚ) (hd : d ≠ []) :
    argminL d < d.length ∧ (∀ k, k < d.length → d.getD (argminL d) 0 ≤ d.getD k 0) ∧
    (∀ k, k < argminL d → d.getD (argminL d) 0 < d.getD k 0) := by
  induction d with
  | nil => exact absurd rfl hd
  | cons v vs ih =>
    by_cases hvs : vs = []
    · subst hvs
      refine ⟨by simp [argminL], ?_, ?_⟩
      · intro k hk
        have : k = 0 := by simpa using hk
        subst this; simp [argminL]
      · intro k hk; simp [argminL] at hk
    · obtain ⟨i1, i2, i3⟩ := ih hvs
      have hemp : vs.isEmpty = false := by
        cases vs with
        | nil => exact absurd rfl hvs
        | cons _ _ => rfl
      by_cases hle : v ≤ vs.getD (argminL vs) 0
      · have e : argminL (v :: vs) = 0 := by
          rw [argminL, hemp]; simp only [Bool.false_or, decide_eq_true_eq]; rw [if_pos hle]
        rw [e]
        refine ⟨by simp, ?_, ?_⟩
        · intro k hk
          cases k with
          | zero => simp
          | succ k =>
            simp only [List.getD_cons_zero, List.getD_cons_succ]
            exact le_trans hle (i2 k (by simpa using hk))
        · intro k hk; omega
      · have e : argminL (v :: vs) = argminL vs + 1 := by
          rw [argminL, hemp]; simp only [Bool.false_or, decide_eq_true_eq]; rw [if_neg hle]
        rw [e]
        rw [not_le] at hle
        refine ⟨by simpa using i1, ?_, ?_⟩
        · intro k hk
          cases k with
          | zero => simp only [List.getD_cons_zero, List.getD_cons_succ]; exact hle.le
          | succ k =>
            simp only [List.getD_cons_succ]
            exact i2 k (by simpa using hk)
        · intro k hk
          cases k with
          | zero => simp only [List.getD_cons_zero, List.getD_cons_succ]; exact hle
          | succ k =>
            simp only [List.getD_cons_succ]
            exact i3 k (by omega)

theorem getD_map_abs (y : List ℚ) (t : ℚ) (i : ℕ) (hi : i < y.length) :
    (y.map fun v => absPL (v - t)).getD i 0 = absPL (y.getD i 0 - t) := by
  simp [List.getD_eq_getElem?_getD, hi]

/-- `argminAbs` is in range, minimises `|y - t|`, and is the first such index -/
theorem argminAbs_spec (y : List ℚ) (t : ℚ) (hy : y ≠ []) :
    argminAbs y t < y.length ∧
    (∀ k, k < y.length → absPL (y.getD (argminAbs y t) 0 - t) ≤ absPL (y.getD k 0 - t)) ∧
    (∀ k, k < argminAbs y t → absPL (y.getD (argminAbs y t) 0 - t) < absPL (y.getD k 0 - t)) := by
  have hd : (y.map fun v => absPL (v - t)) ≠ [] := by simpa using hy
  obtain ⟨h1, h2, h3⟩ := argminL_spec _ hd
  rw [List.length_map] at h1 h2
  unfold argminAbs
  refine ⟨h1, ?_, ?_⟩
  · intro k hk
    have := h2 k hk
    rwa [getD_map_abs y t _ h1, getD_map_abs y t k hk] at this
  · intro k hk
    have := h3 k hk
    rwa [getD_map_abs y t _ h1, getD_map_abs y t k (by omega)] at this

end SA
