/-
Helper lemmas for C05: index maps, the accumulation loop, finite sums, permutations.
-/
import SA.Spec.C05
import Mathlib.Data.List.Nodup
import Mathlib.Data.List.Perm.Basic
import Mathlib.Algebra.BigOperators.Group.List.Basic
import Mathlib.Algebra.Order.Field.Rat
import Mathlib.Tactic.Linarith
import Mathlib.Tactic.Ring

namespace SA
open Spec.C05

/-! ### lists of class codes -/

theorem getD_mem_of_lt (l : List Nat) (i : Nat) (hi : i < l.length) : l.getD i 0 ∈ l := by
  induction l generalizing i with
  | nil => simp at hi
  | cons c cs ih =>
    cases i with
    | zero => simp
    | succ k =>
      simp only [List.length_cons, Nat.add_lt_add_iff_right] at hi
      simp only [List.getD_cons_succ, List.mem_cons]
      exact Or.inr (ih k hi)

theorem getD_idxOf (l : List Nat) (x : Nat) (hx : x ∈ l) : l.getD (l.idxOf x) 0 = x := by
  induction l with
  | nil => simp at hx
  | cons c cs ih =>
    by_cases h : c = x
    · subst h; simp
    · have hx' : x ∈ cs := by
        rcases List.mem_cons.mp hx with h1 | h1
        · exact absurd h1.symm h
        · exact h1
      rw [List.idxOf_cons_ne _ h]
      simp only [Nat.succ_eq_add_one, List.getD_cons_succ]
      exact ih hx'

theorem idxOf_getD (l : List Nat) (hnd : l.Nodup) (i : Nat) (hi : i < l.length) :
    l.idxOf (l.getD i 0) = i := by
  induction l generalizing i with
  | nil => simp at hi
  | cons c cs ih =>
    have hc : c ∉ cs := (List.nodup_cons.mp hnd).1
    have hcs : cs.Nodup := (List.nodup_cons.mp hnd).2
    cases i with
    | zero => simp
    | succ k =>
      simp only [List.length_cons, Nat.add_lt_add_iff_right] at hi
      simp only [List.getD_cons_succ]
      have hm := getD_mem_of_lt cs k hi
      have hne : c ≠ cs.getD k 0 := fun h => hc (h ▸ hm)
      rw [List.idxOf_cons_ne _ hne, ih hcs k hi]

/-- for a class list without duplicates, "sits at position `i`" and "is the class `classes[i]`"
are the same thing -/
theorem idx_eq_iff (l : List Nat) (hnd : l.Nodup) (i : Nat) (hi : i < l.length) (x : Nat)
    (hx : x ∈ l) : i = l.idxOf x ↔ x = l.getD i 0 := by
  constructor
  · intro h; rw [h, getD_idxOf l x hx]
  · intro h; rw [h, idxOf_getD l hnd i hi]

/-! ### `idx_map` -/

theorem idxMapFrom_none (cs : List Nat) (k x : Nat) : idxMapFrom cs k x = none ↔ x ∉ cs := by
  induction cs generalizing k with
  | nil => simp [idxMapFrom]
  | cons c cs ih =>
    simp only [idxMapFrom, List.mem_cons, not_or]
    cases h : idxMapFrom cs (k + 1) x with
    | some i =>
      have : ¬ x ∉ cs := fun hn => by rw [(ih (k + 1)).mpr hn] at h; cases h
      simp only [reduceCtorEq, false_iff, not_and]
      intro _; exact this
    | none =>
      have hn := (ih (k + 1)).mp h
      by_cases hx : x = c <;> simp [hx, hn]

theorem idxMapFrom_nodup (cs : List Nat) (k x : Nat) (hnd : cs.Nodup) (hx : x ∈ cs) :
    idxMapFrom cs k x = some (k + cs.idxOf x) := by
  induction cs generalizing k with
  | nil => simp at hx
  | cons c cs ih =>
    have hc : c ∉ cs := (List.nodup_cons.mp hnd).1
    have hcs : cs.Nodup := (List.nodup_cons.mp hnd).2
    by_cases h : x = c
    · subst h
      have : idxMapFrom cs (k + 1) x = none := (idxMapFrom_none cs (k + 1) x).mpr hc
      simp [idxMapFrom, this]
    · have hx' : x ∈ cs := by
        rcases List.mem_cons.mp hx with h1 | h1
        · exact absurd h1 h
        · exact h1
      have hne : c ≠ x := fun e => h e.symm
      simp only [idxMapFrom, ih (k + 1) hcs hx', List.idxOf_cons_ne _ hne, Nat.succ_eq_add_one]
      congr 1; omega

theorem idxMapFrom_lt (cs : List Nat) (k x i : Nat) (h : idxMapFrom cs k x = some i) :
    k ≤ i ∧ i < k + cs.length := by
  induction cs generalizing k with
  | nil => simp [idxMapFrom] at h
  | cons c cs ih =>
    simp only [idxMapFrom] at h
    cases h1 : idxMapFrom cs (k + 1) x with
    | some i' =>
      simp only [h1, Option.some.injEq] at h
      have := ih (k + 1) (h ▸ h1)
      simp only [List.length_cons]; omega
    | none =>
      simp only [h1] at h
      by_cases hx : x = c
      · simp only [hx, if_true, Option.some.injEq] at h
        simp only [List.length_cons]; omega
      · simp [hx] at h

theorem idxMap_nodup (cs : List Nat) (x : Nat) (hnd : cs.Nodup) (hx : x ∈ cs) :
    idxMap cs x = some (cs.idxOf x) := by
  simp [idxMap, idxMapFrom_nodup cs 0 x hnd hx]

theorem idxMap_none (cs : List Nat) (x : Nat) : idxMap cs x = none ↔ x ∉ cs :=
  idxMapFrom_none cs 0 x

/-! ### the accumulation loop -/

/-- the loop adds, at position `(i, j)`, the weight of every sample whose label is `classes[i]`
and whose prediction is `classes[j]` -/
theorem accumulate_spec (classes : List Nat) (hnd : classes.Nodup) (samples : List Sample)
    (hin : ∀ s ∈ samples, s.label ∈ classes ∧ s.pred ∈ classes) (M0 : Mat) :
    ∃ M, accumulate classes samples M0 = .ok M ∧
      ∀ i j, i < classes.length → j < classes.length →
        M i j = M0 i j + weightOf samples (classes.getD i 0) (classes.getD j 0) := by
  induction samples generalizing M0 with
  | nil => exact ⟨M0, rfl, fun i j _ _ => by simp [weightOf]⟩
  | cons s rest ih =>
    obtain ⟨hl, hp⟩ := hin s List.mem_cons_self
    obtain ⟨M, hM, hE⟩ := ih (fun s' hs' => hin s' (List.mem_cons_of_mem _ hs'))
      (addAt M0 (classes.idxOf s.label) (classes.idxOf s.pred) s.weight)
    refine ⟨M, ?_, fun i j hi hj => ?_⟩
    · simp only [accumulate, idxMap_nodup classes _ hnd hl, idxMap_nodup classes _ hnd hp, hM]
    · rw [hE i j hi hj]
      have e1 := idx_eq_iff classes hnd i hi s.label hl
      have e2 := idx_eq_iff classes hnd j hj s.pred hp
      simp only [addAt, weightOf]
      by_cases h : i = classes.idxOf s.label ∧ j = classes.idxOf s.pred
      · have h' : s.label = classes.getD i 0 ∧ s.pred = classes.getD j 0 :=
          ⟨e1.mp h.1, e2.mp h.2⟩
        rw [if_pos h, if_pos h']; ring
      · have h' : ¬ (s.label = classes.getD i 0 ∧ s.pred = classes.getD j 0) :=
          fun hh => h ⟨e1.mpr hh.1, e2.mpr hh.2⟩
        rw [if_neg h, if_neg h']; ring

/-- positions outside the class range are never written -/
theorem accumulate_outside (classes : List Nat) (samples : List Sample) (M0 M : Mat)
    (h : accumulate classes samples M0 = .ok M) (i j : Nat)
    (hij : classes.length ≤ i ∨ classes.length ≤ j) : M i j = M0 i j := by
  induction samples generalizing M0 with
  | nil => simp only [accumulate, Except.ok.injEq] at h; rw [← h]
  | cons s rest ih =>
    simp only [accumulate] at h
    cases h1 : idxMap classes s.label with
    | none => simp [h1] at h
    | some a =>
      cases h2 : idxMap classes s.pred with
      | none => simp [h1, h2] at h
      | some b =>
        simp only [h1, h2] at h
        rw [ih _ h]
        have ha : a < classes.length := by
          have := idxMapFrom_lt classes 0 s.label a h1; omega
        have hb : b < classes.length := by
          have := idxMapFrom_lt classes 0 s.pred b h2; omega
        have : ¬ (i = a ∧ j = b) := by omega
        simp only [addAt, if_neg this]

/-- the loop fails exactly when some label or prediction is not a class, and then with KeyError -/
theorem accumulate_error_iff (classes : List Nat) (samples : List Sample) (M0 : Mat) :
    accumulate classes samples M0 = .error .keyError ↔
      ∃ s ∈ samples, s.label ∉ classes ∨ s.pred ∉ classes := by
  induction samples generalizing M0 with
  | nil => simp [accumulate]
  | cons s rest ih =>
    simp only [accumulate, List.mem_cons, exists_eq_or_imp]
    cases h1 : idxMap classes s.label with
    | none => simp [(idxMap_none classes s.label).mp h1]
    | some a =>
      have hl : s.label ∈ classes := by
        by_contra hn; rw [(idxMap_none classes s.label).mpr hn] at h1; cases h1
      cases h2 : idxMap classes s.pred with
      | none => simp [(idxMap_none classes s.pred).mp h2]
      | some b =>
        have hp : s.pred ∈ classes := by
          by_contra hn; rw [(idxMap_none classes s.pred).mpr hn] at h2; cases h2
        simp only [ih, hl, hp, not_true_eq_false, or_self, false_or]

theorem accumulate_error_kind (classes : List Nat) (samples : List Sample) (M0 : Mat) (e : Err)
    (h : accumulate classes samples M0 = .error e) : e = .keyError := by
  induction samples generalizing M0 with
  | nil => simp [accumulate] at h
  | cons s rest ih =>
    simp only [accumulate] at h
    cases h1 : idxMap classes s.label with
    | none => simp only [h1, Except.error.injEq] at h; exact h.symm
    | some a =>
      cases h2 : idxMap classes s.pred with
      | none => simp only [h1, h2, Except.error.injEq] at h; exact h.symm
      | some b => simp only [h1, h2] at h; exact ih _ h

/-! ### finite sums -/

theorem sumTo_congr (n : Nat) (f g : Nat → Rat) (h : ∀ k, k < n → f k = g k) :
    sumTo n f = sumTo n g := by
  induction n with
  | zero => rfl
  | succ n ih =>
    simp only [sumTo]
    rw [ih (fun k hk => h k (Nat.lt_succ_of_lt hk)), h n (Nat.lt_succ_self n)]

theorem sumTo_add (n : Nat) (f g : Nat → Rat) :
    sumTo n (fun k => f k + g k) = sumTo n f + sumTo n g := by
  induction n with
  | zero => simp [sumTo]
  | succ n ih => simp only [sumTo, ih]; ring

theorem sumTo_sub (n : Nat) (f g : Nat → Rat) :
    sumTo n (fun k => f k - g k) = sumTo n f - sumTo n g := by
  induction n with
  | zero => simp [sumTo]
  | succ n ih => simp only [sumTo, ih]; ring

theorem sumTo_zero (n : Nat) : sumTo n (fun _ => 0) = 0 := by
  induction n with
  | zero => rfl
  | succ n ih => simp [sumTo, ih]

theorem sumTo_nonneg (n : Nat) (f : Nat → Rat) (h : ∀ k, k < n → 0 ≤ f k) : 0 ≤ sumTo n f := by
  induction n with
  | zero => simp [sumTo]
  | succ n ih =>
    simp only [sumTo]
    have := ih (fun k hk => h k (Nat.lt_succ_of_lt hk))
    have := h n (Nat.lt_succ_self n)
    linarith

/-- exchanging the order of a double sum -/
theorem sumTo_comm (n m : Nat) (f : Nat → Nat → Rat) :
    sumTo n (fun i => sumTo m (fun j => f i j)) = sumTo m (fun j => sumTo n (fun i => f i j)) := by
  induction n with
  | zero => simp [sumTo, sumTo_zero]
  | succ n ih => simp only [sumTo]; rw [ih, ← sumTo_add]

/-- one term taken out of the sum -/
theorem sumTo_split (n : Nat) (f : Nat → Rat) (j : Nat) (hj : j < n) :
    sumTo n f = f j + sumTo n (fun i => if i = j then 0 else f i) := by
  induction n with
  | zero => omega
  | succ n ih =>
    simp only [sumTo]
    by_cases h : j = n
    · subst h
      have : sumTo j (fun i => if i = j then 0 else f i) = sumTo j f :=
        sumTo_congr j _ _ (fun k hk => by simp [Nat.ne_of_lt hk])
      rw [this, if_pos rfl]; ring
    · have hj' : j < n := by omega
      have hn : ¬ n = j := fun e => h e.symm
      rw [ih hj', if_neg hn]; ring

theorem sumTo_eq_sum (n : Nat) (f : Nat → Rat) : sumTo n f = ((List.range n).map f).sum := by
  induction n with
  | zero => simp [sumTo]
  | succ n ih => rw [List.sum_range_succ, ← ih]; rfl

theorem map_getD_range (p : List Nat) :
    (List.range p.length).map (fun i => p.getD i 0) = p := by
  apply List.ext_getElem
  · simp
  · intro i h1 h2
    simp only [List.getElem_map, List.getElem_range]
    simp [List.getD_eq_getElem?_getD, h2]

/-- a sum over `0..n-1` may be taken in any order -/
theorem sumTo_perm (n : Nat) (p : List Nat) (hp : p.Perm (List.range n)) (f : Nat → Rat) :
    sumTo n (fun i => f (p.getD i 0)) = sumTo n f := by
  have hlen : p.length = n := by rw [hp.length_eq, List.length_range]
  rw [sumTo_eq_sum, sumTo_eq_sum]
  have : (List.range n).map (fun i => f (p.getD i 0)) = p.map f := by
    conv_rhs => rw [← map_getD_range p]
    rw [List.map_map, hlen]; rfl
  rw [this]
  exact (hp.map f).sum_eq

theorem perm_getD_lt (n : Nat) (p : List Nat) (hp : p.Perm (List.range n)) (i : Nat) (hi : i < n) :
    p.getD i 0 < n := by
  have hlen : p.length = n := by rw [hp.length_eq, List.length_range]
  have := getD_mem_of_lt p i (by omega)
  exact List.mem_range.mp (hp.mem_iff.mp this)

/-! ### totals -/

theorem total_eq_colSums (n : Nat) (M : Mat) : total n M = sumTo n (colSum n M) := by
  unfold total rowSum colSum; exact sumTo_comm n n M

theorem rowSum_permute (n : Nat) (p : List Nat) (hp : p.Perm (List.range n)) (M : Mat) (i : Nat) :
    rowSum n (permute p M) i = rowSum n M (p.getD i 0) := by
  unfold rowSum permute; exact sumTo_perm n p hp (fun k => M (p.getD i 0) k)

theorem colSum_permute (n : Nat) (p : List Nat) (hp : p.Perm (List.range n)) (M : Mat) (j : Nat) :
    colSum n (permute p M) j = colSum n M (p.getD j 0) := by
  unfold colSum permute; exact sumTo_perm n p hp (fun k => M k (p.getD j 0))

theorem total_permute (n : Nat) (p : List Nat) (hp : p.Perm (List.range n)) (M : Mat) :
    total n (permute p M) = total n M := by
  unfold total
  rw [sumTo_congr n _ _ (fun i _ => rowSum_permute n p hp M i)]
  exact sumTo_perm n p hp (rowSum n M)

theorem trace_permute (n : Nat) (p : List Nat) (hp : p.Perm (List.range n)) (M : Mat) :
    trace n (permute p M) = trace n M := by
  unfold trace permute; exact sumTo_perm n p hp (fun k => M k k)

/-! ### default classes (`np.unique`) -/

theorem mem_insertU (x y : Nat) (l : List Nat) : y ∈ insertU x l ↔ y = x ∨ y ∈ l := by
  induction l with
  | nil => simp [insertU]
  | cons c cs ih =>
    simp only [insertU]
    by_cases h1 : x < c
    · simp [h1]
    · by_cases h2 : x = c
      · subst h2; simp
      · simp only [h1, h2, if_false, List.mem_cons, ih]
        constructor
        · rintro (h | h | h)
          · exact Or.inr (Or.inl h)
          · exact Or.inl h
          · exact Or.inr (Or.inr h)
        · rintro (h | h | h)
          · exact Or.inr (Or.inl h)
          · exact Or.inl h
          · exact Or.inr (Or.inr h)

theorem insertU_sorted (x : Nat) (l : List Nat) (h : l.Pairwise (· < ·)) :
    (insertU x l).Pairwise (· < ·) := by
  induction l with
  | nil => simp [insertU]
  | cons c cs ih =>
    obtain ⟨hc, hcs⟩ := List.pairwise_cons.mp h
    simp only [insertU]
    by_cases h1 : x < c
    · simp only [h1, if_true]
      refine List.pairwise_cons.mpr ⟨fun a ha => ?_, h⟩
      rcases List.mem_cons.mp ha with e | e
      · rw [e]; exact h1
      · exact Nat.lt_trans h1 (hc a e)
    · by_cases h2 : x = c
      · subst h2; simp only [Nat.lt_irrefl, if_false, if_true]; exact h
      · simp only [h1, h2, if_false]
        refine List.pairwise_cons.mpr ⟨fun a ha => ?_, ih hcs⟩
        rcases (mem_insertU x a cs).mp ha with e | e
        · rw [e]; omega
        · exact hc a e

theorem mem_uniqueSorted (y : Nat) (l : List Nat) : y ∈ uniqueSorted l ↔ y ∈ l := by
  induction l with
  | nil => simp [uniqueSorted]
  | cons c cs ih =>
    have : uniqueSorted (c :: cs) = insertU c (uniqueSorted cs) := rfl
    rw [this, mem_insertU, ih]; simp

theorem uniqueSorted_sorted (l : List Nat) : (uniqueSorted l).Pairwise (· < ·) := by
  induction l with
  | nil => simp [uniqueSorted]
  | cons c cs ih =>
    have : uniqueSorted (c :: cs) = insertU c (uniqueSorted cs) := rfl
    rw [this]; exact insertU_sorted c _ ih

theorem mem_defaultClasses (y : Nat) (labels preds : List Nat) :
    y ∈ defaultClasses labels preds ↔ y ∈ labels ∨ y ∈ preds := by
  simp [defaultClasses, mem_uniqueSorted]

theorem defaultClasses_sorted (labels preds : List Nat) :
    (defaultClasses labels preds).Pairwise (· < ·) := uniqueSorted_sorted _

theorem defaultClasses_nodup (labels preds : List Nat) : (defaultClasses labels preds).Nodup :=
  (defaultClasses_sorted labels preds).imp (fun h => Nat.ne_of_lt h)

/-! ### sets of class names, index quantifiers -/

theorem sameSet_iff (a b : List Nat) : sameSet a b = true ↔ ∀ x, x ∈ a ↔ x ∈ b := by
  simp only [sameSet, Bool.and_eq_true, List.all_eq_true, List.contains_iff_mem]
  constructor
  · rintro ⟨h1, h2⟩ x; exact ⟨h1 x, h2 x⟩
  · intro h; exact ⟨fun x hx => (h x).mp hx, fun x hx => (h x).mpr hx⟩

theorem sameSet_of_perm (a b : List Nat) (h : a.Perm b) : sameSet a b = true :=
  (sameSet_iff a b).mpr (fun _ => h.mem_iff)

theorem allIdx_iff (n : Nat) (f : Nat → Bool) : allIdx n f = true ↔ ∀ i, i < n → f i = true := by
  simp [allIdx, List.all_eq_true]

theorem allIdx2_iff (n : Nat) (f : Nat → Nat → Bool) :
    allIdx2 n f = true ↔ ∀ i j, i < n → j < n → f i j = true := by
  simp only [allIdx2, allIdx_iff]
  constructor
  · intro h i j hi hj; exact h i hi j hj
  · intro h i hi j hj; exact h i j hi hj

end SA
