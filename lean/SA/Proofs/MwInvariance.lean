/-
Order-invariance of the two AUC reference semantics (`mannWhitney`, `stepArea`): both depend on
the scores only through comparisons between a positive and a negative and through counts.
Generic transfer lemmas used by C08 (affine maps, negation) and C09 (materialised easy samples).
-/
import SA.Proofs.Auc
import SA.Proofs.AucStep

namespace SA

/-! ### pair counts under a map of the scores -/

/-- Σ_{p ∈ pos} #{q ∈ neg : r p q} is unchanged when both lists are mapped by `f` and the
relation is replaced by one that agrees on images. -/
theorem mwi_pairs_map (f : ℚ → ℚ) (r r' : ℚ → ℚ → Bool) (pos neg : List ℚ)
    (h : ∀ p q, r' (f p) (f q) = r p q) :
    ((pos.map f).map fun p => (neg.map f).countP fun q => r' p q).sum =
      (pos.map fun p => neg.countP fun q => r p q).sum := by
  rw [List.map_map]
  congr 1
  apply List.map_congr_left
  intro p _
  simp only [Function.comp_def, List.countP_map, h]

/-- the pair count does not depend on the order of either list (here: both reversed) -/
theorem mwi_pairs_reverse (r : ℚ → ℚ → Bool) (pos neg : List ℚ) :
    (pos.reverse.map fun p => neg.reverse.countP fun q => r p q).sum =
      (pos.map fun p => neg.countP fun q => r p q).sum := by
  rw [List.map_reverse, List.sum_reverse]
  congr 1
  apply List.map_congr_left
  intro p _
  exact List.countP_reverse

/-- the comparison `ranksAbove` is invariant under an increasing affine map -/
theorem mwi_ranksAbove_affine (sc : Label) (a b : ℚ) (ha : 0 < a) (p q : ℚ) :
    ranksAbove sc (a * p + b) (a * q + b) = ranksAbove sc p q := by
  cases sc <;> simp only [ranksAbove] <;> rw [decide_eq_decide] <;>
    constructor <;> intro h <;> nlinarith

/-- negating both scores and flipping `score_class` leaves the comparison unchanged -/
theorem mwi_ranksAbove_negate (sc : Label) (p q : ℚ) :
    ranksAbove sc.flip (-p) (-q) = ranksAbove sc p q := by
  cases sc <;> simp only [ranksAbove, Label.flip] <;> rw [decide_eq_decide] <;>
    constructor <;> intro h <;> linarith

/-! ### the Mann–Whitney statistic is a function of counts -/

/-- `mannWhitney` is determined by the class sizes, the easy counts, the win count and the tie
count. -/
theorem mwi_mw_congr (s s' : Scores) (hp : s'.pos.length = s.pos.length)
    (hn : s'.neg.length = s.neg.length) (hep : s'.easyPos = s.easyPos)
    (hen : s'.easyNeg = s.easyNeg) (hw : mwWins s' = mwWins s) (ht : mwTies s' = mwTies s) :
    mannWhitney s' = mannWhitney s := by
  rw [mannWhitney_eq, mannWhitney_eq, hp, hn, hep, hen, hw, ht]

/-! ### the step area is a function of the levels along the rank order of the negatives -/

/-- `stepAreaAux` along a mapped list, for an object with the same totals and the same levels -/
theorem mwi_stepAux_map (s s' : Scores) (f : ℚ → ℚ) (lo hi : ℚ)
    (hN : s'.neg.length + s'.easyNeg = s.neg.length + s.easyNeg)
    (hP : s'.pos.length + s'.easyPos = s.pos.length + s.easyPos) (l : List ℚ)
    (hw : ∀ q ∈ l, s'.easyPos + winsOver s' (f q) = s.easyPos + winsOver s q) (j : ℕ) :
    stepAreaAux s' lo hi (l.map f) j = stepAreaAux s lo hi l j := by
  induction l generalizing j with
  | nil => simp only [List.map_nil, stepAreaAux]
  | cons q rest ih =>
    simp only [List.map_cons, stepAreaAux]
    rw [ih (fun q' hq' => hw q' (List.mem_cons_of_mem _ hq')) (j + 1), hN, hP,
      hw q List.mem_cons_self]

/-- `stepArea` is determined by the totals, the number of scored negatives and the levels along
the rank order. -/
theorem mwi_step_congr (s s' : Scores) (f : ℚ → ℚ) (lo hi : ℚ)
    (hn : s'.neg.length = s.neg.length) (hen : s'.easyNeg = s.easyNeg)
    (hP : s'.pos.length + s'.easyPos = s.pos.length + s.easyPos)
    (hl : negsByRank s' = (negsByRank s).map f)
    (hw : ∀ q ∈ negsByRank s, s'.easyPos + winsOver s' (f q) = s.easyPos + winsOver s q) :
    stepArea s' lo hi = stepArea s lo hi := by
  have hN : s'.neg.length + s'.easyNeg = s.neg.length + s.easyNeg := by rw [hn, hen]
  unfold stepArea
  rw [hl, mwi_stepAux_map s s' f lo hi hN hP _ hw, hN, hP, hn]

/-! ### materialising easy samples (C09) -/

/-- pair count when `k` copies of `Mp` are appended to the first list and `m` copies of `Mn` to
the second, `Mp` being related to everything in the second list and everything in the first
list being related to `Mn` -/
theorem mwi_pairs_append_true (r : ℚ → ℚ → Bool) (pos neg : List ℚ) (k m : ℕ) (Mp Mn : ℚ)
    (h1 : ∀ p ∈ pos, r p Mn = true) (h2 : ∀ q ∈ neg, r Mp q = true) (h3 : r Mp Mn = true) :
    ((pos ++ List.replicate k Mp).map fun p =>
        (neg ++ List.replicate m Mn).countP fun q => r p q).sum =
      (pos.map fun p => neg.countP fun q => r p q).sum + pos.length * m + k * (neg.length + m) := by
  rw [List.map_append, List.sum_append]
  have e1 : (pos.map fun p => (neg ++ List.replicate m Mn).countP fun q => r p q) =
      pos.map fun p => m + neg.countP fun q => r p q := by
    apply List.map_congr_left
    intro p hp
    rw [List.countP_append, List.countP_replicate, h1 p hp, if_pos rfl]; omega
  have e2 : ((neg ++ List.replicate m Mn).countP fun q => r Mp q) = neg.length + m := by
    rw [List.countP_append, List.countP_replicate, h3, if_pos rfl]
    congr 1
    rw [List.countP_eq_length]
    exact fun q hq => h2 q hq
  rw [e1, sum_map_const_add, List.map_replicate, e2]
  have e3 : ∀ (n c : ℕ), (List.replicate n c).sum = n * c := by
    intro n c
    induction n with
    | zero => simp
    | succ n ih => rw [List.replicate_succ, List.sum_cons, ih, Nat.succ_mul]; omega
  rw [e3]; omega

/-- ... and when nothing involving `Mp` or `Mn` is related -/
theorem mwi_pairs_append_false (r : ℚ → ℚ → Bool) (pos neg : List ℚ) (k m : ℕ) (Mp Mn : ℚ)
    (h1 : ∀ p ∈ pos, r p Mn = false) (h2 : ∀ q ∈ neg, r Mp q = false) (h3 : r Mp Mn = false) :
    ((pos ++ List.replicate k Mp).map fun p =>
        (neg ++ List.replicate m Mn).countP fun q => r p q).sum =
      (pos.map fun p => neg.countP fun q => r p q).sum := by
  rw [List.map_append, List.sum_append]
  have e1 : (pos.map fun p => (neg ++ List.replicate m Mn).countP fun q => r p q) =
      pos.map fun p => neg.countP fun q => r p q := by
    apply List.map_congr_left
    intro p hp
    rw [List.countP_append, List.countP_replicate, h1 p hp]; simp
  have e2 : ((neg ++ List.replicate m Mn).countP fun q => r Mp q) = 0 := by
    rw [List.countP_append, List.countP_replicate, h3]
    simp only [Bool.false_eq_true, if_false, Nat.add_zero]
    rw [List.countP_eq_zero]
    intro q hq
    rw [h2 q hq]; simp
  rw [e1, List.map_replicate, e2]
  have e3 : ∀ (n : ℕ), (List.replicate n 0).sum = 0 := by
    intro n
    induction n with
    | zero => simp
    | succ n ih => rw [List.replicate_succ, List.sum_cons, ih]
  rw [e3]; omega

/-- Step area of an object `M` in which the easy samples of `E` are materialised: `M` has no easy
samples, its scored negatives in rank order are those of `E` followed by the materialised easy
negatives `Mn`, every level along the negatives of `E` is unchanged, and every positive of `M`
ranks above `Mn`. -/
theorem mwi_step_materialise (E M : Scores) (lo hi : ℚ) (hlu : lo ≤ hi) (Mn : ℚ)
    (hME : M.easyPos = 0) (hMN : M.easyNeg = 0)
    (hP : M.pos.length = E.pos.length + E.easyPos)
    (hN : M.neg.length = E.neg.length + E.easyNeg)
    (hl : negsByRank M = negsByRank E ++ List.replicate E.easyNeg Mn)
    (hw : ∀ q ∈ negsByRank E, winsOver M q = E.easyPos + winsOver E q)
    (hwM : E.easyNeg ≠ 0 → winsOver M Mn = M.pos.length) :
    stepArea M lo hi = stepArea E lo hi := by
  have hP' : M.pos.length + M.easyPos = E.pos.length + E.easyPos := by rw [hME, hP]; rfl
  have hN' : M.neg.length + M.easyNeg = E.neg.length + E.easyNeg := by rw [hMN, hN]; rfl
  unfold stepArea
  rw [hP', hN']
  by_cases h : E.pos.length + E.easyPos = 0 ∨ E.neg.length + E.easyNeg = 0
  · rw [if_pos h, if_pos h]
  · rw [if_neg h, if_neg h]
    rw [not_or] at h
    obtain ⟨hPne, hNne⟩ := h
    have hNq : ((E.neg.length + E.easyNeg : ℕ) : ℚ) ≠ 0 := by exact_mod_cast hNne
    have hPq : ((E.pos.length + E.easyPos : ℕ) : ℚ) ≠ 0 := by exact_mod_cast hPne
    have e1 : stepAreaAux M lo hi (negsByRank E) 0 = stepAreaAux E lo hi (negsByRank E) 0 := by
      have := mwi_stepAux_map E M id lo hi hN' hP' (negsByRank E)
        (fun q hq => by rw [hME, Nat.zero_add]; exact hw q hq) 0
      rwa [List.map_id] at this
    have e2 := stepAreaAux_const M lo hi hlu 1 (List.replicate E.easyNeg Mn)
      (0 + (negsByRank E).length) (by
        intro q hq
        rw [List.mem_replicate] at hq
        obtain ⟨hm, rfl⟩ := hq
        rw [hwM hm, hME, Nat.zero_add, Nat.add_zero]
        apply div_self
        rw [hP]; exact hPq)
    rw [hl, stepAreaAux_append, e1, e2, hN']
    simp only [List.length_replicate, negsByRank_length, Nat.zero_add, mul_one]
    rw [hN, div_self hNq, overlap_self]
    rw [add_zero]

end SA
