/-
Index arithmetic of the row-major N-d array model (`SA/Model/NdArray.lean`).
-/
import SA.Model.NdArray
import Mathlib.Tactic.Linarith
import Mathlib.Tactic.Ring
import Mathlib.Data.List.Nodup

namespace SA

theorem shapeProd_append (s t : List ℕ) : shapeProd (s ++ t) = shapeProd s * shapeProd t := by
  induction s with
  | nil => simp [shapeProd]
  | cons d ds ih => simp [shapeProd, ih, Nat.mul_assoc]

theorem InRange.length_eq : ∀ {s i : List ℕ}, InRange s i → i.length = s.length
  | [], [], _ => rfl
  | [], _ :: _, h => by simp [InRange] at h
  | _ :: _, [], h => by simp [InRange] at h
  | _ :: ds, _ :: is, h => by
    simp only [InRange] at h
    simp [InRange.length_eq h.2]

theorem flatIndex_lt : ∀ {s i : List ℕ}, InRange s i → flatIndex s i < shapeProd s
  | [], [], _ => by simp [flatIndex, shapeProd]
  | [], _ :: _, h => by simp [InRange] at h
  | _ :: _, [], h => by simp [InRange] at h
  | d :: ds, i :: is, h => by
    simp only [InRange] at h
    have h2 := flatIndex_lt h.2
    simp only [flatIndex, shapeProd]
    calc i * shapeProd ds + flatIndex ds is < i * shapeProd ds + shapeProd ds := by omega
      _ = (i + 1) * shapeProd ds := by ring
      _ ≤ d * shapeProd ds := Nat.mul_le_mul_right _ h.1

theorem unravel_flatIndex : ∀ {s i : List ℕ}, InRange s i → unravel s (flatIndex s i) = i
  | [], [], _ => rfl
  | [], _ :: _, h => by simp [InRange] at h
  | _ :: _, [], h => by simp [InRange] at h
  | d :: ds, i :: is, h => by
    simp only [InRange] at h
    have h2 := flatIndex_lt h.2
    have hP : 0 < shapeProd ds := by omega
    simp only [flatIndex, unravel]
    have e1 : (i * shapeProd ds + flatIndex ds is) / shapeProd ds = i := by
      rw [Nat.add_comm, Nat.add_mul_div_right _ _ hP, Nat.div_eq_of_lt h2, Nat.zero_add]
    have e2 : (i * shapeProd ds + flatIndex ds is) % shapeProd ds = flatIndex ds is := by
      rw [Nat.add_comm, Nat.add_mul_mod_self_right, Nat.mod_eq_of_lt h2]
    rw [e1, e2, unravel_flatIndex h.2]

theorem unravel_inRange : ∀ {s : List ℕ} {t : ℕ}, t < shapeProd s → InRange s (unravel s t)
  | [], _, _ => by simp [unravel, InRange]
  | d :: ds, t, h => by
    simp only [shapeProd] at h
    have hP : 0 < shapeProd ds := by
      rcases Nat.eq_zero_or_pos (shapeProd ds) with h0 | h0
      · rw [h0] at h; omega
      · exact h0
    simp only [unravel, InRange]
    refine ⟨?_, unravel_inRange (Nat.mod_lt _ hP)⟩
    rw [Nat.div_lt_iff_lt_mul hP]; exact h

theorem flatIndex_unravel : ∀ {s : List ℕ} {t : ℕ}, t < shapeProd s → flatIndex s (unravel s t) = t
  | [], t, h => by simp only [shapeProd] at h; simp [flatIndex]; omega
  | d :: ds, t, h => by
    simp only [shapeProd] at h
    have hP : 0 < shapeProd ds := by
      rcases Nat.eq_zero_or_pos (shapeProd ds) with h0 | h0
      · rw [h0] at h; omega
      · exact h0
    simp only [unravel, flatIndex]
    rw [flatIndex_unravel (Nat.mod_lt _ hP)]
    exact Nat.div_add_mod' t (shapeProd ds)

theorem flatIndex_append : ∀ (s1 s2 i1 i2 : List ℕ), i1.length = s1.length →
    flatIndex (s1 ++ s2) (i1 ++ i2) = flatIndex s1 i1 * shapeProd s2 + flatIndex s2 i2
  | [], s2, [], i2, _ => by simp [flatIndex]
  | [], _, _ :: _, _, h => by simp at h
  | _ :: _, _, [], _, h => by simp at h
  | d :: ds, s2, i :: is, i2, h => by
    have h' : is.length = ds.length := by simpa using h
    simp only [List.cons_append, flatIndex, flatIndex_append ds s2 is i2 h', shapeProd_append]
    ring

theorem inRange_append : ∀ {s1 s2 i1 i2 : List ℕ}, InRange s1 i1 → InRange s2 i2 →
    InRange (s1 ++ s2) (i1 ++ i2)
  | [], _, [], _, _, h2 => by simpa using h2
  | [], _, _ :: _, _, h, _ => by simp [InRange] at h
  | _ :: _, _, [], _, h, _ => by simp [InRange] at h
  | _ :: _, _, _ :: _, _, h1, h2 => by
    simp only [InRange] at h1
    simp only [List.cons_append, InRange]
    exact ⟨h1.1, inRange_append h1.2 h2⟩

theorem inRange_of_append : ∀ {s1 s2 i1 i2 : List ℕ}, i1.length = s1.length →
    InRange (s1 ++ s2) (i1 ++ i2) → InRange s1 i1 ∧ InRange s2 i2
  | [], _, [], _, _, h => by simpa [InRange] using h
  | [], _, _ :: _, _, h, _ => by simp at h
  | _ :: _, _, [], _, h, _ => by simp at h
  | d :: ds, s2, i :: is, i2, hl, h => by
    have hl' : is.length = ds.length := by simpa using hl
    simp only [List.cons_append, InRange] at h
    have := inRange_of_append hl' h.2
    simp only [InRange]
    exact ⟨⟨h.1, this.1⟩, this.2⟩

theorem inRange_take_drop {s1 s2 idx : List ℕ} (h : InRange (s1 ++ s2) idx) :
    InRange s1 (idx.take s1.length) ∧ InRange s2 (idx.drop s1.length) := by
  have hl := h.length_eq
  rw [List.length_append] at hl
  apply inRange_of_append (by simp; omega)
  rw [List.take_append_drop]; exact h

namespace Nd
variable {α : Type}

theorem ofFn_shape (s : List ℕ) (f : List ℕ → α) : (ofFn s f).shape = s := rfl

theorem ofFn_wf (s : List ℕ) (f : List ℕ → α) : (ofFn s f).WF := by
  simp [WF, ofFn]

theorem ofFn_size (s : List ℕ) (f : List ℕ → α) : (ofFn s f).size = shapeProd s := rfl

/-- the defining property of `ofFn` -/
theorem ofFn_get [Inhabited α] {s i : List ℕ} (f : List ℕ → α) (h : InRange s i) :
    (ofFn s f).get i = f i := by
  have hlt := flatIndex_lt h
  simp only [get, ofFn, List.getD_eq_getElem?_getD, List.getElem?_map,
    List.getElem?_range hlt, Option.map_some, Option.getD_some, unravel_flatIndex h]

/-- every entry of the buffer of `ofFn s f` is a value of `f` at a valid multi-index -/
theorem mem_ofFn_data {s : List ℕ} {f : List ℕ → α} {x : α} (h : x ∈ (ofFn s f).data) :
    ∃ i, InRange s i ∧ x = f i := by
  simp only [ofFn, List.mem_map, List.mem_range] at h
  obtain ⟨t, ht, rfl⟩ := h
  exact ⟨_, unravel_inRange ht, rfl⟩

theorem ofFn_data_eq_nil {s : List ℕ} (f : List ℕ → α) (h : shapeProd s = 0) :
    (ofFn s f).data = [] := by
  simp [ofFn, h]

end Nd
/-! ### `np.moveaxis(ci, source=[0, 1], destination=[-1, -2])` for any rank -/

theorem nd_filter_not_01 (r : ℕ) :
    (List.range (r + 2)).filter (fun n => !([0, 1] : List ℕ).contains n) =
      (List.range r).map (· + 2) := by
  induction r with
  | zero => decide
  | succ r ih =>
    rw [List.range_succ, List.filter_append, ih, List.range_succ (n := r), List.map_append]
    simp

theorem nd_insertIdx_len {α : Type} (l : List α) (n : ℕ) (a : α) (h : n = l.length) :
    l.insertIdx n a = l ++ [a] := by
  subst h; exact List.insertIdx_length_self ..

theorem moveaxisOrder_lead2 (r : ℕ) :
    moveaxisOrder (r + 2) [0, 1] [r + 1, r] = (List.range r).map (· + 2) ++ [1, 0] := by
  unfold moveaxisOrder
  rw [nd_filter_not_01]
  have hs : sortPairs ([r + 1, r].zip [0, 1]) = [(r, 1), (r + 1, 0)] := by
    simp [sortPairs, insertPair]
  rw [hs]
  simp only [List.foldl_cons, List.foldl_nil]
  have h1 : ((List.range r).map (· + 2)).insertIdx r 1 = (List.range r).map (· + 2) ++ [1] := by
    exact nd_insertIdx_len _ _ _ (by simp)
  rw [h1]
  have h2 : ((List.range r).map (· + 2) ++ [1]).insertIdx (r + 1) 0 =
      ((List.range r).map (· + 2) ++ [1]) ++ [0] := by
    exact nd_insertIdx_len _ _ _ (by simp)
  rw [h2]; simp

theorem normAxis_nonneg (rank : ℕ) (k : ℕ) (h : k < rank) : normAxis rank (k : ℤ) = .ok k := by
  unfold normAxis
  rw [if_pos (by omega), if_neg (by omega)]; simp

theorem normAxis_neg (rank : ℕ) (k : ℕ) (h : 0 < k) (h' : k ≤ rank) :
    normAxis rank (-(k : ℤ)) = .ok (rank - k) := by
  unfold normAxis
  rw [if_pos (by omega), if_pos (by omega)]
  congr 1; omega

theorem moveaxis_lead2 {α : Type} [Inhabited α] (a : Nd α) (d0 d1 : ℕ) (Y : List ℕ)
    (h : a.shape = d0 :: d1 :: Y) :
    a.moveaxis [0, 1] [-1, -2] =
      .ok (a.transpose ((List.range Y.length).map (· + 2) ++ [1, 0])) := by
  unfold Nd.moveaxis
  have hr : a.shape.length = Y.length + 2 := by rw [h]; simp
  rw [hr]
  have e0 : normAxis (Y.length + 2) 0 = .ok 0 := normAxis_nonneg _ 0 (by omega)
  have e1 : normAxis (Y.length + 2) 1 = .ok 1 := normAxis_nonneg _ 1 (by omega)
  have e2 : normAxis (Y.length + 2) (-1) = .ok (Y.length + 1) := by
    have := normAxis_neg (Y.length + 2) 1 (by omega) (by omega)
    simpa using this
  have e3 : normAxis (Y.length + 2) (-2) = .ok (Y.length) := by
    have := normAxis_neg (Y.length + 2) 2 (by omega) (by omega)
    simpa using this
  simp only [List.mapM_cons, List.mapM_nil, e0, e1, e2, e3, bind, Except.bind, pure, Except.pure]
  simp [moveaxisOrder_lead2]

theorem nd_map_getD_range {α : Type} (l : List α) (d : α) :
    (List.range l.length).map (fun m => l.getD m d) = l := by
  apply List.ext_getElem
  · simp
  · intro i h1 h2
    simp at h1
    simp [h1]

theorem nd_range_add_two (r : ℕ) : List.range (r + 2) = 0 :: 1 :: (List.range r).map (· + 2) := by
  rw [List.range_succ_eq_map, List.range_succ_eq_map]
  simp [List.map_map, Function.comp_def]

theorem idxOf_lead2_shift (r m : ℕ) (h : m < r) :
    ((List.range r).map (· + 2) ++ [1, 0]).idxOf (m + 2) = m := by
  have hnd : ((List.range r).map (· + 2)).Nodup :=
    List.Nodup.map (fun a b hab => by simpa using hab) List.nodup_range
  have hlen : m < ((List.range r).map (· + 2)).length := by simpa using h
  have hm : ((List.range r).map (· + 2))[m] = m + 2 := by simp
  have hmem : m + 2 ∈ (List.range r).map (· + 2) := by
    rw [← hm]; exact List.getElem_mem hlen
  rw [List.idxOf_append, if_pos hmem]
  conv_lhs => rw [← hm]
  exact hnd.idxOf_getElem m hlen

theorem idxOf_lead2_zero (r : ℕ) : ((List.range r).map (· + 2) ++ [1, 0]).idxOf 0 = r + 1 := by
  rw [List.idxOf_append, if_neg (by simp)]
  simp; try omega

theorem idxOf_lead2_one (r : ℕ) : ((List.range r).map (· + 2) ++ [1, 0]).idxOf 1 = r := by
  rw [List.idxOf_append, if_neg (by simp)]
  simp; try omega

theorem transpose_lead2_shape {α : Type} [Inhabited α] (a : Nd α) (d0 d1 : ℕ) (Y : List ℕ)
    (h : a.shape = d0 :: d1 :: Y) :
    (a.transpose ((List.range Y.length).map (· + 2) ++ [1, 0])).shape = Y ++ [d1, d0] := by
  unfold Nd.transpose
  rw [Nd.ofFn_shape, h, List.map_append, List.map_map]
  have : ((fun ax => (d0 :: d1 :: Y).getD ax 0) ∘ fun x => x + 2) = fun m => Y.getD m 0 := by
    funext m; simp
  rw [this, nd_map_getD_range]
  simp

theorem transpose_lead2_get {α : Type} [Inhabited α] (a : Nd α) (d0 d1 : ℕ) (Y : List ℕ)
    (h : a.shape = d0 :: d1 :: Y) (y : List ℕ) (z k : ℕ) (hy : InRange Y y) (hz : z < d1)
    (hk : k < d0) :
    (a.transpose ((List.range Y.length).map (· + 2) ++ [1, 0])).get (y ++ [z, k]) =
      a.get (k :: z :: y) := by
  have hsh := transpose_lead2_shape a d0 d1 Y h
  have hyl := hy.length_eq
  have hin : InRange (Y ++ [d1, d0]) (y ++ [z, k]) :=
    inRange_append hy (by simp [InRange, hz, hk])
  unfold Nd.transpose at hsh ⊢
  rw [Nd.ofFn_shape] at hsh
  rw [hsh, Nd.ofFn_get _ hin]
  congr 1
  rw [h]
  simp only [List.length_cons]
  rw [nd_range_add_two, List.map_cons, List.map_cons, idxOf_lead2_zero, idxOf_lead2_one, List.map_map]
  have e0 : (y ++ [z, k]).getD (Y.length + 1) 0 = k := by
    rw [← hyl]; simp [List.getD_eq_getElem?_getD]
  have e1 : (y ++ [z, k]).getD (Y.length) 0 = z := by
    rw [← hyl]; simp [List.getD_eq_getElem?_getD]
  rw [e0, e1]
  congr 2
  rw [← hyl]
  conv_rhs => rw [← nd_map_getD_range y 0]
  apply List.map_congr_left
  intro m hm
  simp only [List.mem_range] at hm
  simp only [Function.comp]
  rw [idxOf_lead2_shift _ _ hm]
  simp [List.getD_eq_getElem?_getD, List.getElem?_append_left hm]

end SA
