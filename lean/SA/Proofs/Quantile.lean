/-
NumPy's linear quantile on a sorted list: monotone in the level, within the range of the data,
invariant under permutation, equivariant under increasing affine maps.
-/
import SA.Model.Bootstrap
import SA.Proofs.Coherence

namespace SA

/-- the interpolation formula of `quantileLinear` on the sorted finite values -/
def qcore (v : List ℚ) (q : ℚ) : ℚ :=
  let h : ℚ := q * ((v.length : ℚ) - 1)
  v.getD (clampIdx h.floor v.length) 0 +
    (h - ((h.floor : ℤ) : ℚ)) * (v.getD (clampIdx (ceilQ h) v.length) 0 - v.getD (clampIdx h.floor v.length) 0)

theorem quantileLinear_eq (vals : List (Option ℚ)) (q : ℚ) :
    quantileLinear vals q =
      if (sortQ (vals.filterMap id)).length = 0 then none
      else some (qcore (sortQ (vals.filterMap id)) q) := rfl

/-- NumPy's `a + t (b - a)` form equals the convex-combination form used in threshold setting -/
theorem qcore_eq_interp (v : List ℚ) (q : ℚ) :
    qcore v q = rawThr v (q * ((v.length : ℚ) - 1)) .linear := by
  unfold qcore rawThr interp
  simp only []
  generalize q * ((v.length : ℚ) - 1) = h
  by_cases hint : ((h.floor : ℤ) : ℚ) = h
  · have hc : ceilQ h = h.floor := by
      rw [ceilQ_eq]; have : (⌊h⌋ : ℚ) = h := hint
      rw [← this]; simp
    simp only [hc, hint]; ring
  · have hlt : ((h.floor : ℤ) : ℚ) < h := lt_of_le_of_ne (Int.floor_le h) hint
    have hc : ceilQ h = h.floor + 1 := by
      rw [ceilQ_eq, Int.ceil_eq_iff]; constructor
      · push_cast; have : ((⌊h⌋ : ℤ) : ℚ) < h := hlt; linarith
      · push_cast; have := Int.lt_floor_add_one h; have h3 : h.floor = ⌊h⌋ := rfl; rw [h3]; linarith
    simp only [hc]; push_cast; ring

theorem qcore_mono (v : List ℚ) (hs : v.Pairwise (· ≤ ·)) (hne : v.length ≠ 0) (q1 q2 : ℚ)
    (h0 : 0 ≤ q1) (h : q1 ≤ q2) : qcore v q1 ≤ qcore v q2 := by
  rw [qcore_eq_interp, qcore_eq_interp]
  have hl : (0 : ℚ) ≤ (v.length : ℚ) - 1 := by
    have : (1 : ℚ) ≤ (v.length : ℚ) := by exact_mod_cast Nat.pos_of_ne_zero hne
    linarith
  exact raw_mono v hs hne .linear _ _ (mul_nonneg h0 hl) (mul_le_mul_of_nonneg_right h hl)

theorem qcore_bounds (v : List ℚ) (hs : v.Pairwise (· ≤ ·)) (hne : v.length ≠ 0) (q : ℚ) :
    v.getD 0 0 ≤ qcore v q ∧ qcore v q ≤ v.getD (v.length - 1) 0 := by
  rw [qcore_eq_interp]; exact raw_bounds v hs hne _ .linear

/-- two sorted lists that are permutations of each other are equal -/
theorem sortQ_eq_of_perm (l l' : List ℚ) (h : l.Perm l') : sortQ l = sortQ l' := by
  apply List.Perm.eq_of_pairwise' (r := (· ≤ ·)) (sortQ_pairwise l) (sortQ_pairwise l')
  exact (sortQ_perm l).trans (h.trans (sortQ_perm l').symm)

/-- sorting commutes with an increasing affine map -/
theorem sortQ_map_affine (l : List ℚ) (c d : ℚ) (hc : 0 < c) :
    sortQ (l.map fun x => c * x + d) = (sortQ l).map fun x => c * x + d := by
  apply List.Perm.eq_of_pairwise' (r := (· ≤ ·)) (sortQ_pairwise _)
  · have := sortQ_pairwise l
    rw [List.pairwise_map]
    exact this.imp (fun {a b} hab => by nlinarith)
  · exact (sortQ_perm _).trans ((sortQ_perm l).symm.map _)

theorem getD_map_affine (v : List ℚ) (c d : ℚ) (i : ℕ) (hi : i < v.length) :
    (v.map fun x => c * x + d).getD i 0 = c * v.getD i 0 + d := by
  rw [getD_eq _ i (by simpa using hi), getD_eq v i hi]; simp

theorem qcore_map_affine (v : List ℚ) (hne : v.length ≠ 0) (c d q : ℚ) :
    qcore (v.map fun x => c * x + d) q = c * qcore v q + d := by
  unfold qcore
  simp only [List.length_map]
  rw [getD_map_affine v c d _ (clampIdx_lt _ _ hne), getD_map_affine v c d _ (clampIdx_lt _ _ hne)]
  ring

end SA
