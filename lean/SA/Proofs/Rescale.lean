/-
The easy-sample target rescaling of `threshold_at_*` is exactly "clip the target to the
achievable range and express it as a fraction of the scored samples" (all six metrics).
-/
import SA.Proofs.Invert

namespace SA
open Spec

theorem clipQ_mul (x lo hi c : ℚ) (hc : 0 < c) :
    clipQ x lo hi * c = clipQ (x * c) (lo * c) (hi * c) := by
  unfold clipQ
  rw [max_mul_of_nonneg _ _ (le_of_lt hc), min_mul_of_nonneg _ _ (le_of_lt hc)]

theorem clipQ_shift (x b n : ℚ) : clipQ x b (b + n) = b + clipQ (x - b) 0 n := by
  unfold clipQ
  rw [← add_zero b, ← max_add_add_left, ← min_add_add_left]
  simp

theorem clip_core (a h : ℚ) (hh : 0 < h) :
    clip01 (min (max a 0 / h) 1) * h = clipQ a 0 h := by
  unfold clip01 clipQ
  have h1 : (0:ℚ) ≤ min (max a 0 / h) 1 :=
    le_min (div_nonneg (le_max_right _ _) (le_of_lt hh)) (by norm_num)
  rw [min_eq_left (min_le_right _ _), max_eq_right h1]
  rw [min_mul_of_nonneg _ _ (le_of_lt hh), div_mul_cancel₀ _ (ne_of_gt hh), one_mul]
  rcases le_total a 0 with ha | ha
  · rw [max_eq_right ha, min_eq_left (le_of_lt hh), min_eq_left (le_trans ha (le_of_lt hh)),
      max_eq_left ha]
  · rw [max_eq_left ha]
    rw [max_eq_right (le_min ha (le_of_lt hh))]

theorem clip_core' (a h : ℚ) (hh : 0 < h) :
    clip01 (min (a / h) 1) * h = clipQ a 0 h := by
  rw [← clip_core a h hh]
  congr 1
  unfold clip01
  rcases le_total a 0 with ha | ha
  · have h1 : a / h ≤ 0 := div_nonpos_of_nonpos_of_nonneg ha (le_of_lt hh)
    rw [max_eq_right ha]
    simp only [zero_div]
    rw [min_eq_left (le_trans h1 (by norm_num)), min_eq_left (le_trans h1 (by norm_num))]
    rw [max_eq_left h1]
    simp
  · rw [max_eq_left ha]

theorem denom_pos (s : Scores) (metric : Metric) (hne : (s.metricArray metric).length ≠ 0) :
    (0 : ℚ) < (denom s metric : ℚ) := by
  have : 0 < denom s metric := by
    cases metric <;> simp only [Scores.metricArray] at hne <;>
      simp only [denom, Scores.nbAllPos, Scores.nbAllNeg, Scores.nbAll, Scores.nbHard,
        Scores.nbEasy] <;>
      first
      | omega
      | (rw [length_concat] at hne; omega)
  exact_mod_cast this

theorem maxNum_eq (s : Scores) (metric : Metric) :
    maxNum s metric = minNum s metric + (s.metricArray metric).length := by
  cases metric <;> simp only [maxNum, minNum, Scores.metricArray, length_concat] <;> omega

/-- **Rescaling lemma.** For every metric: (target clipped to the achievable range) × (whole
population) = (lowest achievable count) + clip01(rescaled target) × (number of scored samples). -/
theorem rescale_spec (s : Scores) (metric : Metric) (r : ℚ)
    (hne : (s.metricArray metric).length ≠ 0) :
    clipped s metric r * (denom s metric : ℚ) =
      (minNum s metric : ℚ) + clip01 (s.rescale metric r) * ((s.metricArray metric).length : ℚ) := by
  have hd := denom_pos s metric hne
  have hn : (0 : ℚ) < ((s.metricArray metric).length : ℚ) := by
    exact_mod_cast Nat.pos_of_ne_zero hne
  unfold clipped
  rw [clipQ_mul _ _ _ _ hd, div_mul_cancel₀ _ (ne_of_gt hd), div_mul_cancel₀ _ (ne_of_gt hd),
    maxNum_eq]
  push_cast
  rw [clipQ_shift]
  congr 1
  cases metric <;> simp only [Scores.rescale, Scores.metricArray, denom, minNum] at hn ⊢
  · -- tpr
    rw [clip_core _ _ hn]
  · -- fnr
    have hh : (s.nbAllPos : ℚ) = (s.easyPos : ℚ) + (s.pos.length : ℚ) := by
      unfold Scores.nbAllPos; push_cast; ring
    have : r / s.hardPosRatio = (r * (s.nbAllPos : ℚ) - ((0 : ℕ) : ℚ)) / (s.pos.length : ℚ) := by
      unfold Scores.hardPosRatio
      split
      · rename_i he
        push_cast; rw [hh]; field_simp; ring
      · rename_i he
        have : s.easyPos = 0 := by omega
        rw [hh, this]; push_cast; field_simp; ring
    rw [this, clip_core' _ _ hn]
  · -- tnr
    rw [clip_core _ _ hn]
  · -- fpr
    have hh : (s.nbAllNeg : ℚ) = (s.easyNeg : ℚ) + (s.neg.length : ℚ) := by
      unfold Scores.nbAllNeg; push_cast; ring
    have : r / s.hardNegRatio = (r * (s.nbAllNeg : ℚ) - ((0 : ℕ) : ℚ)) / (s.neg.length : ℚ) := by
      unfold Scores.hardNegRatio
      split
      · rename_i he
        push_cast; rw [hh]; field_simp; ring
      · rename_i he
        have : s.easyNeg = 0 := by omega
        rw [hh, this]; push_cast; field_simp; ring
    rw [this, clip_core' _ _ hn]
  all_goals
    have hlen : (s.concat.length : ℚ) = (s.nbHard : ℚ) := by
      rw [length_concat]; unfold Scores.nbHard; push_cast; ring
    have hh : s.nbHard ≠ 0 := by
      intro h0; rw [hlen, h0] at hn; simp at hn
    have hall : (0 : ℚ) < (s.nbAll : ℚ) := by
      have : (0:ℚ) < (s.nbHard : ℚ) := by exact_mod_cast Nat.pos_of_ne_zero hh
      have h2 : (s.nbAll : ℚ) = (s.nbEasy : ℚ) + (s.nbHard : ℚ) := by
        unfold Scores.nbAll; push_cast; ring
      have h3 : (0:ℚ) ≤ (s.nbEasy : ℚ) := by positivity
      linarith
    rw [hardRatio_eq s hh]
  · -- topr
    have : max (r - (s.easyPos : ℚ) / (s.nbAll : ℚ)) 0 / ((s.nbHard : ℚ) / (s.nbAll : ℚ)) =
        max (r * (s.nbAll : ℚ) - (s.easyPos : ℚ)) 0 / (s.concat.length : ℚ) := by
      rw [hlen, div_div_eq_mul_div, max_mul_of_nonneg _ _ (le_of_lt hall), sub_mul,
        div_mul_cancel₀ _ (ne_of_gt hall), zero_mul]
    rw [this, clip_core _ _ hn]
  · -- tonr
    have : max (r - (s.easyNeg : ℚ) / (s.nbAll : ℚ)) 0 / ((s.nbHard : ℚ) / (s.nbAll : ℚ)) =
        max (r * (s.nbAll : ℚ) - (s.easyNeg : ℚ)) 0 / (s.concat.length : ℚ) := by
      rw [hlen, div_div_eq_mul_div, max_mul_of_nonneg _ _ (le_of_lt hall), sub_mul,
        div_mul_cancel₀ _ (ne_of_gt hall), zero_mul]
    rw [this, clip_core _ _ hn]

end SA
