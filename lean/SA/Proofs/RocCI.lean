/-
Helper lemmas for C16: folds of `min` / `max`, the envelope computed by one loop iteration of
`_aggregate_rectangles`, and the agreement of the NaN-aware (float) definitions with the
rational ones on defined inputs.
-/
import SA.Model.RocCI
import Mathlib.Tactic.Linarith
import Mathlib.Order.Lattice
import Mathlib.Algebra.Order.Field.Rat

namespace SA

/-! ### folds -/

theorem c16_foldl_min_le_init (l : List ℚ) (a : ℚ) : l.foldl min a ≤ a := by
  induction l generalizing a with
  | nil => exact le_refl _
  | cons b l ih => exact le_trans (ih (min a b)) (min_le_left _ _)

theorem c16_foldl_min_le_mem (l : List ℚ) (a v : ℚ) (hv : v ∈ l) : l.foldl min a ≤ v := by
  induction l generalizing a with
  | nil => cases hv
  | cons b l ih =>
    rcases List.mem_cons.mp hv with rfl | h
    · exact le_trans (c16_foldl_min_le_init l _) (min_le_right _ _)
    · exact ih (min a b) h

theorem c16_foldl_min_mem (l : List ℚ) (a : ℚ) : l.foldl min a = a ∨ l.foldl min a ∈ l := by
  induction l generalizing a with
  | nil => exact Or.inl rfl
  | cons b l ih =>
    rcases ih (min a b) with h | h
    · rcases min_choice a b with h' | h'
      · left; rw [List.foldl_cons, h, h']
      · right; rw [List.foldl_cons, h, h']; exact List.mem_cons_self
    · right; exact List.mem_cons_of_mem _ h

theorem c16_foldl_max_ge_init (l : List ℚ) (a : ℚ) : a ≤ l.foldl max a := by
  induction l generalizing a with
  | nil => exact le_refl _
  | cons b l ih => exact le_trans (le_max_left _ _) (ih (max a b))

theorem c16_foldl_max_ge_mem (l : List ℚ) (a v : ℚ) (hv : v ∈ l) : v ≤ l.foldl max a := by
  induction l generalizing a with
  | nil => cases hv
  | cons b l ih =>
    rcases List.mem_cons.mp hv with rfl | h
    · exact le_trans (le_max_right _ _) (c16_foldl_max_ge_init l _)
    · exact ih (max a b) h

theorem c16_foldl_max_mem (l : List ℚ) (a : ℚ) : l.foldl max a = a ∨ l.foldl max a ∈ l := by
  induction l generalizing a with
  | nil => exact Or.inl rfl
  | cons b l ih =>
    rcases ih (max a b) with h | h
    · rcases max_choice a b with h' | h'
      · left; rw [List.foldl_cons, h, h']
      · right; rw [List.foldl_cons, h, h']; exact List.mem_cons_self
    · right; exact List.mem_cons_of_mem _ h

/-! ### one loop iteration -/

theorem envelopeAt_fst (x : ℚ) (own : Iv) (rects : List (Iv × Iv)) :
    (envelopeAt x own rects).1 =
      ((rects.filter fun r => coversQ r.1 x).map fun r => r.2.1).foldl min own.1 := by
  unfold envelopeAt
  exact min_eq_right (c16_foldl_min_le_init _ _)

theorem envelopeAt_snd (x : ℚ) (own : Iv) (rects : List (Iv × Iv)) :
    (envelopeAt x own rects).2 =
      ((rects.filter fun r => coversQ r.1 x).map fun r => r.2.2).foldl max own.2 := by
  unfold envelopeAt
  exact max_eq_right (c16_foldl_max_ge_init _ _)

/-- the result of one iteration is the min / max over the point's own rectangle and the covering
rectangles: a lower (upper) bound of all of them that is attained by one of them -/
theorem envelopeAt_spec (x : ℚ) (own : Iv) (rects : List (Iv × Iv)) :
    ((envelopeAt x own rects).1 ≤ own.1 ∧
     (∀ r ∈ rects, coversQ r.1 x = true → (envelopeAt x own rects).1 ≤ r.2.1) ∧
     ((envelopeAt x own rects).1 = own.1 ∨
       ∃ r ∈ rects, coversQ r.1 x = true ∧ (envelopeAt x own rects).1 = r.2.1)) ∧
    (own.2 ≤ (envelopeAt x own rects).2 ∧
     (∀ r ∈ rects, coversQ r.1 x = true → r.2.2 ≤ (envelopeAt x own rects).2) ∧
     ((envelopeAt x own rects).2 = own.2 ∨
       ∃ r ∈ rects, coversQ r.1 x = true ∧ (envelopeAt x own rects).2 = r.2.2)) := by
  rw [envelopeAt_fst, envelopeAt_snd]
  refine ⟨⟨c16_foldl_min_le_init _ _, ?_, ?_⟩, ⟨c16_foldl_max_ge_init _ _, ?_, ?_⟩⟩
  · intro r hr hc
    apply c16_foldl_min_le_mem
    exact List.mem_map.mpr ⟨r, List.mem_filter.mpr ⟨hr, hc⟩, rfl⟩
  · rcases c16_foldl_min_mem ((rects.filter fun r => coversQ r.1 x).map fun r => r.2.1) own.1 with h | h
    · exact Or.inl h
    · right
      obtain ⟨r, hr, hv⟩ := List.mem_map.mp h
      obtain ⟨hr1, hr2⟩ := List.mem_filter.mp hr
      exact ⟨r, hr1, hr2, hv.symm⟩
  · intro r hr hc
    apply c16_foldl_max_ge_mem
    exact List.mem_map.mpr ⟨r, List.mem_filter.mpr ⟨hr, hc⟩, rfl⟩
  · rcases c16_foldl_max_mem ((rects.filter fun r => coversQ r.1 x).map fun r => r.2.2) own.2 with h | h
    · exact Or.inl h
    · right
      obtain ⟨r, hr, hv⟩ := List.mem_map.mp h
      obtain ⟨hr1, hr2⟩ := List.mem_filter.mp hr
      exact ⟨r, hr1, hr2, hv.symm⟩

theorem length_aggregateRectangles (x : List ℚ) (dxp dyp : List Iv) :
    (aggregateRectangles x dxp dyp).length = min x.length dyp.length := by
  simp [aggregateRectangles]

theorem length_aggregateRectanglesO (x : List (Option ℚ)) (dxp dyp : List OIv) :
    (aggregateRectanglesO x dxp dyp).length = min x.length dyp.length := by
  simp [aggregateRectanglesO]

/-- every row of the aggregate is the envelope at some point `(x_j, dyp_j)` -/
theorem mem_aggregateRectangles (x : List ℚ) (dxp dyp : List Iv) (b : Iv)
    (hb : b ∈ aggregateRectangles x dxp dyp) :
    ∃ xj own, own ∈ dyp ∧ b = envelopeAt xj own (dxp.zip dyp) := by
  unfold aggregateRectangles at hb
  obtain ⟨p, hp, rfl⟩ := List.mem_map.mp hb
  exact ⟨p.1, p.2, (List.of_mem_zip hp).2, rfl⟩

/-! ### NaN-aware definitions on defined inputs -/

theorem c16_foldl_nanMin2_some (l : List ℚ) (a : ℚ) :
    (l.map some).foldl nanMin2 (some a) = some (l.foldl min a) := by
  induction l generalizing a with
  | nil => rfl
  | cons b l ih => simp only [List.map_cons, List.foldl_cons, nanMin2, ih]

theorem c16_foldl_nanMax2_some (l : List ℚ) (a : ℚ) :
    (l.map some).foldl nanMax2 (some a) = some (l.foldl max a) := by
  induction l generalizing a with
  | nil => rfl
  | cons b l ih => simp only [List.map_cons, List.foldl_cons, nanMax2, ih]

theorem c16_pyMin_some (a b : ℚ) : pyMin (some a) (some b) = some (min a b) := by
  unfold pyMin ltN
  by_cases h : b < a
  · simp only [h, decide_true, if_true, min_eq_right (le_of_lt h)]
  · simp only [h, decide_false, Bool.false_eq_true, if_false, min_eq_left (not_lt.mp h)]

theorem c16_pyMax_some (a b : ℚ) : pyMax (some a) (some b) = some (max a b) := by
  unfold pyMax ltN
  by_cases h : a < b
  · simp only [h, decide_true, if_true, max_eq_right (le_of_lt h)]
  · simp only [h, decide_false, Bool.false_eq_true, if_false, max_eq_left (not_lt.mp h)]

theorem coversO_lift (r : Iv) (x : ℚ) : coversO r.lift (some x) = coversQ r x := rfl

theorem c16_zip_map_lift (dxp dyp : List Iv) :
    (dxp.map Iv.lift).zip (dyp.map Iv.lift) =
      (dxp.zip dyp).map fun r => (r.1.lift, r.2.lift) := by
  rw [List.zip_map]
  rfl

theorem envelopeAtO_lift (x : ℚ) (own : Iv) (rects : List (Iv × Iv)) :
    envelopeAtO (some x) own.lift (rects.map fun r => (r.1.lift, r.2.lift)) =
      (envelopeAt x own rects).lift := by
  unfold envelopeAtO envelopeAt
  have hf : (rects.map fun r => (r.1.lift, r.2.lift)).filter (fun r => coversO r.1 (some x)) =
      (rects.filter fun r => coversQ r.1 x).map fun r => (r.1.lift, r.2.lift) := by
    rw [List.filter_map]
    rfl
  simp only [hf, List.map_map]
  have h1 : ((fun r : OIv × OIv => r.2.1) ∘ fun r : Iv × Iv => (r.1.lift, r.2.lift)) =
      (some ∘ fun r : Iv × Iv => r.2.1) := rfl
  have h2 : ((fun r : OIv × OIv => r.2.2) ∘ fun r : Iv × Iv => (r.1.lift, r.2.lift)) =
      (some ∘ fun r : Iv × Iv => r.2.2) := rfl
  rw [h1, h2, ← List.map_map, ← List.map_map]
  simp only [Iv.lift]
  rw [c16_foldl_nanMin2_some, c16_foldl_nanMax2_some, c16_pyMin_some, c16_pyMax_some]

/-- on defined inputs the float version of `_aggregate_rectangles` is the rational one -/
theorem aggregateRectanglesO_lift (x : List ℚ) (dxp dyp : List Iv) :
    aggregateRectanglesO (x.map some) (dxp.map Iv.lift) (dyp.map Iv.lift) =
      (aggregateRectangles x dxp dyp).map Iv.lift := by
  unfold aggregateRectanglesO aggregateRectangles
  rw [c16_zip_map_lift, List.zip_map, List.map_map, List.map_map]
  apply List.map_congr_left
  intro p _
  exact envelopeAtO_lift p.1 p.2 (dxp.zip dyp)

theorem ruleOfThreeRowO_lift (powA : ℚ) (n : ℕ) (p : ℚ) (c : Iv) :
    ruleOfThreeRowO powA n (some p) c.lift = (ruleOfThreeRow powA n p c).lift := by
  unfold ruleOfThreeRowO ruleOfThreeRow
  by_cases h1 : p < 1 / ((n : ℕ) : ℚ) <;> by_cases h2 : p > (((n : ℕ) : ℚ) - 1) / ((n : ℕ) : ℚ) <;>
    simp only [h1, h2, if_true, if_false, Iv.lift]

theorem applyRuleOfThreeO_lift (powA : ℚ) (p : List ℚ) (ci : List Iv) (n : ℕ) (hn : n ≠ 0) :
    applyRuleOfThree powA p ci n = .ok (ruleOfThreeRows powA n p ci) ∧
    applyRuleOfThreeO powA (p.map some) (ci.map Iv.lift) n =
      .ok ((ruleOfThreeRows powA n p ci).map Iv.lift) := by
  unfold applyRuleOfThree applyRuleOfThreeO ruleOfThreeRows
  rw [if_neg hn, if_neg hn]
  refine ⟨rfl, ?_⟩
  rw [List.zip_map, List.map_map, List.map_map]
  congr 1
  apply List.map_congr_left
  intro r _
  exact ruleOfThreeRowO_lift powA n r.1 r.2

end SA
