/-
Helper lemmas for `roc_with_ci` on the scripted RNG (SA/Model/RocCIScript.lean):
* `bootstrap_sample` started in ANY state of the script (the C11 theorems are stated for a run that
  starts at the beginning of the script; the same facts hold from the middle of one),
* the loop of `bootstrap_metric` (`drawMapped`),
* the `_metric` closure (`jointMetric`) and the joint interval (`jointBootCI`).
-/
import SA.Model.RocCIScript
import SA.Theorems.C11Progress
import SA.Theorems.C14
import SA.Theorems.C16

namespace SA

/-! ### `bootstrap_sample` from any state -/

/-- a later `ok` implies an earlier `ok` -/
theorem c16s_sample_ok_mono (s : Scores) (c : BootCfg) (st : RngState)
    (h : (bootstrapSample s c st).2.ok = true) : st.ok = true := by
  unfold bootstrapSample at h
  cases hm : samplingMethod s c with
  | replacement =>
    simp only [hm] at h
    by_cases hs : c.smoothing = true
    · simp only [hs, if_true] at h
      exact (sampleIndices_spec s c.byLabel false st (draw_ok (draw_ok h).1).1).1
    · simp only [hs] at h
      exact (sampleIndices_spec s c.byLabel false st h).1
  | singlePass =>
    simp only [hm] at h
    by_cases hs : c.smoothing = true
    · simp only [hs, if_true] at h
      exact (sampleIndices_spec s c.byLabel true st h).1
    · simp only [hs] at h
      exact (sampleIndices_spec s c.byLabel true st h).1
  | proportion =>
    simp only [hm] at h
    cases hr : c.ratio with
    | none => simp only [hr] at h; exact h
    | some ratio =>
      simp only [hr] at h
      by_cases f1 : (Req.choiceFrom s.pos.length (some (proportionSize c ratio s.pos.length)) false).feasible = true
      · simp only [f1, Bool.not_true, Bool.false_eq_true, if_false] at h
        by_cases f2 : (Req.choiceFrom s.neg.length (some (proportionSize c ratio s.neg.length)) false).feasible = true
        · simp only [f2, Bool.not_true, Bool.false_eq_true, if_false] at h
          exact (draw_ok (draw_ok h).1).1
        · simp only [f2] at h
          exact (draw_ok (by simpa using h)).1
      · simp only [f1] at h
        simpa using h
  | unknown => simp only [hm] at h; exact h
  | dynamic => simp only [hm] at h; exact h

/-- a runnable configuration returns a sample on every script, from every state -/
theorem c16s_sample_isOk (s : Scores) (c : BootCfg) (st : RngState) (h : c11p_Runnable s c) :
    ∃ out, (bootstrapSample s c st).1 = .ok out := by
  unfold bootstrapSample
  rcases h with hm | ⟨hm, hs⟩ | ⟨hm, ratio, hr, q1, q2⟩
  · simp only [hm]
    exact ⟨_, rfl⟩
  · simp only [hm, hs, Bool.false_eq_true, if_false]
    exact ⟨_, rfl⟩
  · have f1 := c11p_choiceFrom_feasible (c11p_proportionSize_pos c ratio s.pos.length) q1
    have f2 := c11p_choiceFrom_feasible (c11p_proportionSize_pos c ratio s.neg.length) q2
    simp only [hm, hr, f1, f2, Bool.not_true, Bool.false_eq_true, if_false]
    exact ⟨_, rfl⟩

/-- `C11_at_least_one`, `C11_flags`, `C11_inv` for a sample drawn in the middle of a script -/
theorem c16s_sample_wellformed (s : Scores) (c : BootCfg) (st : RngState) (out : Scores)
    (h : (bootstrapSample s c st).1 = .ok out) (hok : (bootstrapSample s c st).2.ok = true) :
    (s.pos ≠ [] → out.pos ≠ []) ∧ (s.neg ≠ [] → out.neg ≠ []) ∧ out.cfg = s.cfg ∧
    (Inv s → Inv out) := by
  have pos_len : ∀ {l : List Rat}, l ≠ [] → l.length > 0 := fun hl =>
    List.length_pos_iff.mpr hl
  rcases (bootstrapSample_cases s c st out h hok) with ⟨_, r, f, rfl⟩ | ⟨_, _, r, f, rfl⟩ |
      ⟨_, ratio, ip, ineg, _, l1, _, _, l2, _, _, rfl⟩
  · exact ⟨fun hp => ne_nil_of_perm_gather (make_perm _ _ _ _ _ _).1 (f.posOne (pos_len hp)),
      fun hn => ne_nil_of_perm_gather (make_perm _ _ _ _ _ _).2 (f.negOne (pos_len hn)),
      make_cfg _ _ _ _ _ _, fun _ => make_sorted _ _ _ _ _ _ (fun hh => absurd hh (by simp))⟩
  · exact ⟨fun hp => ne_nil_of_perm_gather (make_perm _ _ _ _ _ _).1 (f.posOne (pos_len hp)),
      fun hn => ne_nil_of_perm_gather (make_perm _ _ _ _ _ _).2 (f.negOne (pos_len hn)),
      make_cfg _ _ _ _ _ _, fun hs => make_sorted _ _ _ _ _ _ (fun _ =>
        ⟨gather_sorted _ _ hs.1 (f.sortedIdx rfl).1 f.posRange,
         gather_sorted _ _ hs.2 (f.sortedIdx rfl).2 f.negRange⟩)⟩
  · have hsz : ∀ n, proportionSize c ratio n ≥ 1 := fun n => by
      unfold proportionSize; exact Nat.le_max_right _ _
    refine ⟨fun _ => ne_nil_of_perm_gather (make_perm _ _ _ _ _ _).1 ?_,
      fun _ => ne_nil_of_perm_gather (make_perm _ _ _ _ _ _).2 ?_,
      make_cfg _ _ _ _ _ _, fun _ => make_sorted _ _ _ _ _ _ (fun hh => absurd hh (by simp))⟩
    · intro hh; rw [hh] at l1; have := hsz s.pos.length; simp at l1; omega
    · intro hh; rw [hh] at l2; have := hsz s.neg.length; simp at l2; omega

/-! ### the replicate loop -/

theorem c16s_drawMapped_ok_mono {α : Type} (s : Scores) (c : BootCfg) (k : Scores → Except Err α)
    (n : ℕ) (st : RngState) (h : (drawMapped s c k n st).2.ok = true) : st.ok = true := by
  induction n generalizing st with
  | zero => exact h
  | succ n ih =>
    rcases hb : bootstrapSample s c st with ⟨r, st1⟩
    have hst1 : st1 = (bootstrapSample s c st).2 := by rw [hb]
    cases r with
    | error e =>
      simp only [drawMapped, hb] at h
      rw [hst1] at h
      exact c16s_sample_ok_mono s c st h
    | ok smp =>
      cases hk : k smp with
      | error e =>
        simp only [drawMapped, hb, hk] at h
        rw [hst1] at h
        exact c16s_sample_ok_mono s c st h
      | ok a =>
        rcases hd : drawMapped s c k n st1 with ⟨r2, st2⟩
        have hst2 : st2 = (drawMapped s c k n st1).2 := by rw [hd]
        have h2 : st2.ok = true := by
          cases r2 <;> simpa only [drawMapped, hb, hk, hd] using h
        rw [hst2] at h2
        have := ih st1 h2
        rw [hst1] at this
        exact c16s_sample_ok_mono s c st this

/-- **the loop returns.** Runnable configuration, final state `ok`, and `k` accepts every sample an
`ok` draw can produce: the loop returns `n` values, each with the property `Q` that `k` guarantees,
and its final state is the state after `n` consecutive `bootstrap_sample` calls. -/
theorem c16s_drawMapped_total {α : Type} (s : Scores) (c : BootCfg) (k : Scores → Except Err α)
    (Q : α → Prop) (hrun : c11p_Runnable s c)
    (hk : ∀ st smp, (bootstrapSample s c st).1 = .ok smp → (bootstrapSample s c st).2.ok = true →
      ∃ a, k smp = .ok a ∧ Q a)
    (n : ℕ) (st : RngState) (hok : (drawMapped s c k n st).2.ok = true) :
    ∃ l, (drawMapped s c k n st).1 = .ok l ∧ l.length = n ∧ (∀ a ∈ l, Q a) ∧
      (drawMapped s c k n st).2 = sampleStates s c n st := by
  induction n generalizing st with
  | zero => exact ⟨[], rfl, rfl, fun _ h => absurd h (by simp), rfl⟩
  | succ n ih =>
    obtain ⟨smp, hsmp⟩ := c16s_sample_isOk s c st hrun
    rcases hb : bootstrapSample s c st with ⟨r, st1⟩
    have hst1 : st1 = (bootstrapSample s c st).2 := by rw [hb]
    have hr : r = .ok smp := by rw [hb] at hsmp; exact hsmp
    subst hr
    -- `st1` is `ok`: every later state is reached from it
    have hst1ok : st1.ok = true := by
      cases hk1 : k smp with
      | error e =>
        simpa only [drawMapped, hb, hk1] using hok
      | ok a =>
        rcases hd : drawMapped s c k n st1 with ⟨r2, st2⟩
        have h2 : st2.ok = true := by
          cases r2 <;> simpa only [drawMapped, hb, hk1, hd] using hok
        have hst2 : st2 = (drawMapped s c k n st1).2 := by rw [hd]
        rw [hst2] at h2
        exact c16s_drawMapped_ok_mono s c k n st1 h2
    obtain ⟨a, ha, hQ⟩ := hk st smp (by rw [hb]) (by rw [hb]; exact hst1ok)
    rcases hd : drawMapped s c k n st1 with ⟨r2, st2⟩
    have hst2 : st2 = (drawMapped s c k n st1).2 := by rw [hd]
    have h2 : st2.ok = true := by
      cases r2 <;> simpa only [drawMapped, hb, ha, hd] using hok
    rw [hst2] at h2
    obtain ⟨l, hl, hlen, hall, hstate⟩ := ih st1 h2
    rw [hd] at hl hstate
    simp only at hl hstate
    subst hl
    refine ⟨a :: l, ?_, ?_, ?_, ?_⟩
    · simp only [drawMapped, hb, ha, hd]
    · simp only [List.length_cons, hlen]
    · intro x hx
      rcases List.mem_cons.mp hx with rfl | hx
      · exact hQ
      · exact hall x hx
    · simp only [drawMapped, hb, ha, hd, sampleStates]
      rw [hstate]

/-- the values are `k` of the samples that `drawSamples` draws, and both loops end in the same
state -/
theorem c16s_drawMapped_samples {α : Type} (s : Scores) (c : BootCfg) (k : Scores → Except Err α)
    (n : ℕ) (st : RngState) (l : List α) (h : (drawMapped s c k n st).1 = .ok l) :
    ∃ L, drawSamples s c n st = (.ok L, (drawMapped s c k n st).2) ∧
      List.Forall₂ (fun smp a => k smp = .ok a) L l := by
  induction n generalizing st l with
  | zero =>
    simp only [drawMapped] at h
    injection h with h
    subst h
    exact ⟨[], rfl, List.Forall₂.nil⟩
  | succ n ih =>
    rcases hb : bootstrapSample s c st with ⟨r, st1⟩
    cases r with
    | error e => simp only [drawMapped, hb] at h; cases h
    | ok smp =>
      cases hk : k smp with
      | error e => simp only [drawMapped, hb, hk] at h; cases h
      | ok a =>
        rcases hd : drawMapped s c k n st1 with ⟨r2, st2⟩
        cases r2 with
        | error e => simp only [drawMapped, hb, hk, hd] at h; cases h
        | ok rest =>
          simp only [drawMapped, hb, hk, hd] at h
          injection h with h
          subst h
          obtain ⟨L, hL, hF⟩ := ih st1 rest (by rw [hd])
          rw [hd] at hL
          refine ⟨smp :: L, ?_, List.Forall₂.cons hk hF⟩
          unfold drawSamples at hL ⊢
          simp only [drawMapped, hb, hk, hd, hL]

theorem c16s_sampleStates_succ (s : Scores) (c : BootCfg) (n : ℕ) (st : RngState) :
    sampleStates s c (n + 1) st = (bootstrapSample s c (sampleStates s c n st)).2 := by
  induction n generalizing st with
  | zero => rfl
  | succ n ih =>
    show sampleStates s c (n + 1) (bootstrapSample s c st).2 = _
    rw [ih]
    rfl

/-! ### the trace only grows -/

theorem c16s_draw_suffix (r : Req) (st : RngState) : st.trace <:+ (draw r st).2.trace := by
  rw [draw_trace]; exact List.suffix_cons _ _

theorem c16s_drawStrata_suffix (s : Scores) (st : RngState) :
    st.trace <:+ (drawStrata s st).2.trace := by
  simp only [drawStrata, drawScalar_snd]
  exact ((c16s_draw_suffix _ st).trans (c16s_draw_suffix _ _)).trans (c16s_draw_suffix _ _)

theorem c16s_strataFor_suffix (s : Scores) (b : Bool) (st : RngState) :
    st.trace <:+ (strataFor s b st).2.trace := by
  cases b with
  | true => exact List.suffix_refl _
  | false => exact c16s_drawStrata_suffix s st

theorem c16s_forceOne_suffix (k n : ℕ) (counts : List ℕ) (st : RngState) :
    st.trace <:+ (forceOne k n counts st).2.trace := by
  rcases forceOne_trace k n counts st with ⟨_, x, h⟩ | ⟨_, h⟩
  · rw [h]; exact List.suffix_cons _ _
  · rw [h]

theorem c16s_sampleIndices_suffix (s : Scores) (b sp : Bool) (st : RngState) :
    st.trace <:+ (sampleIndices s b sp st).2.trace := by
  unfold sampleIndices
  cases sp with
  | true =>
    simp only [↓reduceIte, singlePassCounts]
    exact ((((c16s_strataFor_suffix s b st).trans (c16s_draw_suffix _ _)).trans
      (c16s_draw_suffix _ _)).trans (c16s_forceOne_suffix _ _ _ _)).trans
      (c16s_forceOne_suffix _ _ _ _)
  | false =>
    simp only [Bool.false_eq_true, ↓reduceIte]
    exact ((c16s_strataFor_suffix s b st).trans (c16s_draw_suffix _ _)).trans
      (c16s_draw_suffix _ _)

/-- `bootstrap_sample` only appends to the trace -/
theorem c16s_sample_suffix (s : Scores) (c : BootCfg) (st : RngState) :
    st.trace <:+ (bootstrapSample s c st).2.trace := by
  unfold bootstrapSample
  cases hm : samplingMethod s c with
  | replacement =>
    simp only []
    by_cases hs : c.smoothing = true
    · simp only [hs, if_true]
      exact ((c16s_sampleIndices_suffix s _ _ st).trans (c16s_draw_suffix _ _)).trans
        (c16s_draw_suffix _ _)
    · simp only [hs]
      exact c16s_sampleIndices_suffix s _ _ st
  | singlePass =>
    simp only []
    by_cases hs : c.smoothing = true
    · simp only [hs, if_true]
      exact c16s_sampleIndices_suffix s _ _ st
    · simp only [hs]
      exact c16s_sampleIndices_suffix s _ _ st
  | proportion =>
    simp only []
    cases hr : c.ratio with
    | none => exact List.suffix_refl _
    | some ratio =>
      simp only []
      by_cases f1 : (Req.choiceFrom s.pos.length (some (proportionSize c ratio s.pos.length)) false).feasible = true
      · simp only [f1, Bool.not_true, Bool.false_eq_true, if_false]
        by_cases f2 : (Req.choiceFrom s.neg.length (some (proportionSize c ratio s.neg.length)) false).feasible = true
        · simp only [f2, Bool.not_true, Bool.false_eq_true, if_false]
          exact (c16s_draw_suffix _ st).trans (c16s_draw_suffix _ _)
        · simp only [f2]
          exact (c16s_draw_suffix _ st).trans (List.suffix_cons _ _)
      · simp only [f1]
        exact List.suffix_cons _ _
  | unknown => exact List.suffix_refl _
  | dynamic => exact List.suffix_refl _

/-- in terms of requests in call order: the requests before the call are a prefix of those after -/
theorem c16s_requests_prefix_of_suffix {st st' : RngState} (h : st.trace <:+ st'.trace) :
    st.requests <+: st'.requests := by
  obtain ⟨l, hl⟩ := h
  refine ⟨(l.reverse).map (·.1), ?_⟩
  simp only [RngState.requests, RngState.paired, ← hl, List.reverse_append, List.map_append]

/-- the requests one `bootstrap_sample` call issues when started in state `st` -/
def callRequests (s : Scores) (c : BootCfg) (st : RngState) : List Req :=
  (bootstrapSample s c st).2.requests.drop st.requests.length

theorem c16s_sample_requests (s : Scores) (c : BootCfg) (st : RngState) :
    (bootstrapSample s c st).2.requests = st.requests ++ callRequests s c st := by
  obtain ⟨t, ht⟩ := c16s_requests_prefix_of_suffix (c16s_sample_suffix s c st)
  unfold callRequests
  rw [← ht, List.drop_left]

/-- the requests after `n` consecutive calls: those before, followed by the requests of call
`0, 1, ..., n-1`, each started in the state its predecessor left -/
theorem c16s_sampleStates_requests (s : Scores) (c : BootCfg) (n : ℕ) (st : RngState) :
    (sampleStates s c n st).requests =
      st.requests ++ ((List.range n).map fun j => callRequests s c (sampleStates s c j st)).flatten := by
  induction n with
  | zero => simp [sampleStates]
  | succ n ih =>
    rw [c16s_sampleStates_succ, c16s_sample_requests, ih, List.range_succ, List.map_append,
      List.flatten_append, List.append_assoc]
    simp

/-! ### the `_metric` closure -/

/-- a possibly-NaN number that is a defined rate in `[0, 1]` -/
def UnitO (x : Option ℚ) : Prop := ∃ q, x = some q ∧ 0 ≤ q ∧ q ≤ 1

theorem c16s_fnrQ_unit (s : Scores) (t : ℚ) : 0 ≤ s.fnrQ t ∧ s.fnrQ t ≤ 1 := by
  unfold Scores.fnrQ CM.p
  constructor
  · exact div_nonneg (Nat.cast_nonneg _) (Nat.cast_nonneg _)
  · apply div_le_one_of_le₀ _ (Nat.cast_nonneg _)
    exact_mod_cast Nat.le_add_left _ _

theorem c16s_fprQ_unit (s : Scores) (t : ℚ) : 0 ≤ s.fprQ t ∧ s.fprQ t ≤ 1 := by
  unfold Scores.fprQ CM.n
  constructor
  · exact div_nonneg (Nat.cast_nonneg _) (Nat.cast_nonneg _)
  · apply div_le_one_of_le₀ _ (Nat.cast_nonneg _)
    exact_mod_cast Nat.le_add_right _ _

/-- `_metric` never raises on an object with a scored positive and a scored negative, whatever the
targets; it returns one FNR per FPR target and one FPR per FNR target, all defined and in `[0,1]` -/
theorem c16s_jointMetric_ok (u : Ulp) (fT gT : List ℚ) (s : Scores) (hp : s.pos.length ≠ 0)
    (hn : s.neg.length ≠ 0) :
    ∃ v, jointMetric u fT gT s = .ok v ∧ v.1.length = gT.length ∧ v.2.length = fT.length ∧
      ∀ x ∈ jointFlat v, UnitO x := by
  unfold jointMetric Scores.thresholdAtArr
  simp only [Scores.metricArray, hn, hp, if_false]
  refine ⟨_, rfl, by simp, by simp, ?_⟩
  intro x hx
  simp only [jointFlat, List.mem_append, List.mem_map] at hx
  rcases hx with ⟨t, _, rfl⟩ | ⟨t, _, rfl⟩
  · exact ⟨_, (c16_rates_defined s t).1 hp, c16s_fnrQ_unit s t⟩
  · exact ⟨_, (c16_rates_defined s t).2 hn, c16s_fprQ_unit s t⟩

/-- without a scored negative or positive `_metric` raises `ValueError` -/
theorem c16s_jointMetric_error (u : Ulp) (fT gT : List ℚ) (s : Scores)
    (h : s.neg.length = 0 ∨ s.pos.length = 0) : jointMetric u fT gT s = .error .valueError := by
  unfold jointMetric Scores.thresholdAtArr
  by_cases hn : s.neg.length = 0
  · simp only [Scores.metricArray, hn, if_true]
  · have hp : s.pos.length = 0 := h.resolve_left hn
    simp only [Scores.metricArray, hn, hp, if_true, if_false]

/-! ### the interval of one component -/

theorem c16s_filterMap_ne_nil (col : List (Option ℚ)) (hne : col ≠ [])
    (hall : ∀ x ∈ col, UnitO x) : col.filterMap id ≠ [] := by
  cases col with
  | nil => exact absurd rfl hne
  | cons x rest =>
    obtain ⟨q, rfl, _⟩ := hall x (List.mem_cons_self ..)
    simp

theorem c16s_mem_filterMap_unit (col : List (Option ℚ)) (hall : ∀ x ∈ col, UnitO x) (a : ℚ)
    (ha : a ∈ col.filterMap id) : 0 ≤ a ∧ a ≤ 1 := by
  obtain ⟨x, hx, hxa⟩ := List.mem_filterMap.mp ha
  obtain ⟨q, rfl, h0, h1⟩ := hall x hx
  simp only [id] at hxa
  injection hxa with hxa
  subst hxa
  exact ⟨h0, h1⟩

/-- a linear quantile (any level) of defined rates in `[0,1]` is a defined number in `[0,1]` -/
theorem c16s_quantile_unit (col : List (Option ℚ)) (hne : col ≠ []) (hall : ∀ x ∈ col, UnitO x)
    (q : ℚ) : UnitO (quantileLinear col q) := by
  have h := C13_in_range col q
  cases hq : quantileLinear col q with
  | none =>
    rw [hq] at h
    exact absurd h (c16s_filterMap_ne_nil col hne hall)
  | some r =>
    rw [hq] at h
    obtain ⟨⟨a, ha, har⟩, ⟨b, hb, hrb⟩⟩ := h
    exact ⟨r, rfl, le_trans (c16s_mem_filterMap_unit col hall a ha).1 har,
      le_trans hrb (c16s_mem_filterMap_unit col hall b hb).2⟩

/-- **one component, all three methods, any oracles, any alpha:** both limits are defined numbers in
`[0, 1]` when the replicates are defined rates in `[0,1]` and there is at least one -/
theorem c16s_bootstrapCI_unit (nrm : Normal) (p15 : ℚ → ℚ) (m : BootMethod) (col : List (Option ℚ))
    (th al : ℚ) (hne : col ≠ []) (hall : ∀ x ∈ col, UnitO x) :
    UnitO (bootstrapCI nrm p15 m col th al).1 ∧ UnitO (bootstrapCI nrm p15 m col th al).2 := by
  have hf : ∃ p0, fracLe col th = some p0 := by
    unfold fracLe
    have : (col.filterMap id).length ≠ 0 := by
      intro h0
      exact c16s_filterMap_ne_nil col hne hall (List.eq_nil_of_length_eq_zero h0)
    simp only [this, if_false]
    exact ⟨_, rfl⟩
  obtain ⟨p0, hp0⟩ := hf
  cases m <;> simp only [bootstrapCI, hp0] <;>
    exact ⟨c16s_quantile_unit col hne hall _, c16s_quantile_unit col hne hall _⟩

/-! ### the joint interval -/

/-- what a successful run knows about the point estimate and the replicates -/
structure RepsFacts (est : JointVal) (reps : List JointVal) : Prop where
  nonempty : reps ≠ []
  lens : ∀ v ∈ reps, v.1.length = est.1.length ∧ v.2.length = est.2.length
  unit : ∀ v ∈ reps, ∀ x ∈ jointFlat v, UnitO x
  estUnit : ∀ x ∈ jointFlat est, UnitO x

theorem c16s_getD_eq {α : Type} (l : List α) (d : α) (n : ℕ) (h : n < l.length) :
    l.getD n d = l[n] := (List.getElem_eq_getD d).symm

theorem c16s_jointFlat_length (v : JointVal) : (jointFlat v).length = v.1.length + v.2.length := by
  simp [jointFlat]

/-- every row of the interval array is the C13 formula on a non-empty column of defined rates -/
theorem c16s_bootCIOf_rows (nrm : Normal) (p15 : ℚ → ℚ) (m : BootMethod) (al : ℚ) (est : JointVal)
    (reps : List JointVal) (h : RepsFacts est reps) :
    ∀ r ∈ bootstrapCIOf nrm p15 m (fun j => reps.getD j est) jointFlat est reps.length al,
      ∃ col th, col ≠ [] ∧ (∀ x ∈ col, UnitO x) ∧ r = bootstrapCI nrm p15 m col th al := by
  intro r hr
  unfold bootstrapCIOf at hr
  obtain ⟨k, hk, rfl⟩ := List.mem_map.mp hr
  have hk' : k < (jointFlat est).length := List.mem_range.mp hk
  obtain ⟨th, hth, _, _⟩ := h.estUnit _ (List.getElem_mem hk')
  have hget : (jointFlat est).getD k none = some th := by
    rw [c16s_getD_eq _ _ _ hk', hth]
  refine ⟨column (bootstrapMetric (fun j => reps.getD j est) jointFlat reps.length) k, th, ?_, ?_, ?_⟩
  · apply c14_column_ne_nil
    have := List.length_pos_iff.mpr h.nonempty
    omega
  · rw [c14_column_eq]
    intro x hx
    obtain ⟨j, hj, rfl⟩ := List.mem_map.mp hx
    have hj' : j < reps.length := List.mem_range.mp hj
    have hmem : reps.getD j est ∈ reps := by
      rw [c16s_getD_eq _ _ _ hj']; exact List.getElem_mem hj'
    have hlen : k < (jointFlat (reps.getD j est)).length := by
      rw [c16s_jointFlat_length, (h.lens _ hmem).1, (h.lens _ hmem).2, ← c16s_jointFlat_length]
      exact hk'
    rw [c16s_getD_eq _ _ _ hlen]
    exact h.unit _ hmem _ (List.getElem_mem hlen)
  · simp only [hget, ciComponent]

theorem c16s_bootCIOf_length (nrm : Normal) (p15 : ℚ → ℚ) (m : BootMethod) (al : ℚ) (est : JointVal)
    (reps : List JointVal) :
    (bootstrapCIOf nrm p15 m (fun j => reps.getD j est) jointFlat est reps.length al).length =
      est.1.length + est.2.length := by
  rw [(C14_ci nrm p15 m _ jointFlat est reps.length al).1, c16s_jointFlat_length]

/-- rows that are defined can be written as lifted intervals -/
theorem c16s_exists_lift (P : Iv → Prop) (l : List OIv)
    (h : ∀ r ∈ l, ∃ a b, r = (some a, some b) ∧ P (a, b)) :
    ∃ bf : List Iv, l = bf.map Iv.lift ∧ bf.length = l.length ∧ ∀ r ∈ bf, P r := by
  induction l with
  | nil => exact ⟨[], rfl, rfl, fun _ hr => absurd hr (by simp)⟩
  | cons x rest ih =>
    obtain ⟨a, b, rfl, hP⟩ := h x (List.mem_cons_self ..)
    obtain ⟨bf, hbf, hlen, hall⟩ := ih (fun r hr => h r (List.mem_cons_of_mem _ hr))
    refine ⟨(a, b) :: bf, ?_, ?_, ?_⟩
    · simp only [List.map_cons, Iv.lift, hbf]
    · simp only [List.length_cons, hlen]
    · intro r hr
      rcases List.mem_cons.mp hr with rfl | hr
      · exact hP
      · exact hall r hr

/-- the property of a pointwise interval that C16 needs: in `[0,1]`, and ordered if the row it
comes from is -/
def RowGood (ord : Prop) (r : Iv) : Prop :=
  ((0 ≤ r.1 ∧ r.1 ≤ 1) ∧ (0 ≤ r.2 ∧ r.2 ≤ 1)) ∧ (ord → r.1 ≤ r.2)

/-- **the joint interval of a successful run.** Both halves have one row per target, every row is
a pair of defined numbers in `[0,1]` (all methods, any oracles, any alpha), and the rows are ordered
whenever every row of the interval array is (`hord`, discharged for the quantile and BC methods by
`C13_ordered_quantile` / `C13_ordered_bc`). -/
theorem c16s_jointBootCI_facts (nrm : Normal) (p15 : ℚ → ℚ) (m : BootMethod) (al : ℚ) (est : JointVal)
    (reps : List JointVal) (h : RepsFacts est reps) (ord : Prop)
    (hord : ord → ∀ r ∈ bootstrapCIOf nrm p15 m (fun j => reps.getD j est) jointFlat est
      reps.length al, optLe r.1 r.2) :
    ∃ bf bg : List Iv, jointBootCI nrm p15 m al est reps = (bf.map Iv.lift, bg.map Iv.lift) ∧
      bf.length = est.1.length ∧ bg.length = est.2.length ∧
      (∀ r ∈ bf, RowGood ord r) ∧ (∀ r ∈ bg, RowGood ord r) := by
  have hrows : ∀ r ∈ bootstrapCIOf nrm p15 m (fun j => reps.getD j est) jointFlat est reps.length al,
      ∃ a b, r = (some a, some b) ∧ RowGood ord (a, b) := by
    intro r hr
    obtain ⟨col, th, hne, hall, rfl⟩ := c16s_bootCIOf_rows nrm p15 m al est reps h r hr
    obtain ⟨⟨a, ha, a0, a1⟩, ⟨b, hb, b0, b1⟩⟩ := c16s_bootstrapCI_unit nrm p15 m col th al hne hall
    refine ⟨a, b, Prod.ext ha hb, ⟨⟨a0, a1⟩, ⟨b0, b1⟩⟩, fun ho => ?_⟩
    have := hord ho _ hr
    rw [ha, hb] at this
    exact this
  obtain ⟨b1, hb1, hl1, hall1⟩ := c16s_exists_lift (RowGood ord)
    ((bootstrapCIOf nrm p15 m (fun j => reps.getD j est) jointFlat est reps.length al).take est.1.length)
    (fun r hr => hrows r (List.mem_of_mem_take hr))
  obtain ⟨b2, hb2, hl2, hall2⟩ := c16s_exists_lift (RowGood ord)
    ((bootstrapCIOf nrm p15 m (fun j => reps.getD j est) jointFlat est reps.length al).drop est.1.length)
    (fun r hr => hrows r (List.mem_of_mem_drop hr))
  refine ⟨b1, b2, ?_, ?_, ?_, hall1, hall2⟩
  · simp only [jointBootCI, hb1, hb2]
  · rw [hl1, List.length_take, c16s_bootCIOf_length]; omega
  · rw [hl2, List.length_drop, c16s_bootCIOf_length]; omega

/-! ### an `ok` run consumes exactly one answer per request -/

/-- between `st` and `st'` the requests `l` (most recent first) were issued, and the answers they
received are exactly the answers `st'` has read beyond `st`, in order -/
def Consumed (st st' : RngState) : Prop :=
  ∃ l : List (Req × List ℕ), st'.trace = l ++ st.trace ∧
    st.responses = l.reverse.map (·.2) ++ st'.responses

theorem Consumed.refl (st : RngState) : Consumed st st := ⟨[], rfl, rfl⟩

theorem Consumed.trans {a b c : RngState} (h1 : Consumed a b) (h2 : Consumed b c) : Consumed a c := by
  obtain ⟨l1, t1, r1⟩ := h1
  obtain ⟨l2, t2, r2⟩ := h2
  refine ⟨l2 ++ l1, by rw [t2, t1, List.append_assoc], ?_⟩
  rw [r1, r2, List.reverse_append, List.map_append, List.append_assoc]

theorem c16s_draw_consumed (r : Req) (st : RngState) (h : (draw r st).2.ok = true) :
    Consumed st (draw r st).2 := by
  unfold draw at h ⊢
  cases hr : st.responses with
  | nil => simp [hr] at h
  | cons x rest =>
    exact ⟨[(r, x)], rfl, by simp [hr]⟩

theorem c16s_drawStrata_consumed (s : Scores) (st : RngState) (h : (drawStrata s st).2.ok = true) :
    Consumed st (drawStrata s st).2 := by
  simp only [drawStrata, drawScalar_snd] at h ⊢
  have h2 := (draw_ok h).1
  have h1 := (draw_ok h2).1
  exact ((c16s_draw_consumed _ st h1).trans (c16s_draw_consumed _ _ h2)).trans
    (c16s_draw_consumed _ _ h)

theorem c16s_strataFor_consumed (s : Scores) (b : Bool) (st : RngState)
    (h : (strataFor s b st).2.ok = true) : Consumed st (strataFor s b st).2 := by
  cases b with
  | true => exact Consumed.refl st
  | false => exact c16s_drawStrata_consumed s st h

theorem c16s_forceOne_consumed (k n : ℕ) (counts : List ℕ) (st : RngState)
    (h : (forceOne k n counts st).2.ok = true) : Consumed st (forceOne k n counts st).2 := by
  unfold forceOne at h ⊢
  by_cases c : n > 0 ∧ counts.all (· == 0) = true
  · simp only [c, and_self, if_true, drawScalar_snd] at h ⊢
    exact c16s_draw_consumed _ st h
  · simp only [c, if_false]
    exact Consumed.refl st

theorem c16s_sampleIndices_consumed (s : Scores) (b sp : Bool) (st : RngState)
    (h : (sampleIndices s b sp st).2.ok = true) : Consumed st (sampleIndices s b sp st).2 := by
  unfold sampleIndices at h ⊢
  cases sp with
  | true =>
    simp only [↓reduceIte] at h ⊢
    have hf1 := (forceOne_spec _ _ _ _ h).1
    have hc2 := (forceOne_spec _ _ _ _ hf1).1
    have hc1 := (singlePassCounts_spec _ _ _ hc2).1
    have ha := (singlePassCounts_spec _ _ _ hc1).1
    exact ((((c16s_strataFor_consumed s b st ha).trans (c16s_draw_consumed _ _ hc1)).trans
      (c16s_draw_consumed _ _ hc2)).trans (c16s_forceOne_consumed _ _ _ _ hf1)).trans
      (c16s_forceOne_consumed _ _ _ _ h)
  | false =>
    simp only [Bool.false_eq_true, ↓reduceIte] at h ⊢
    have hd1 := (draw_ok h).1
    have ha := (draw_ok hd1).1
    exact ((c16s_strataFor_consumed s b st ha).trans (c16s_draw_consumed _ _ hd1)).trans
      (c16s_draw_consumed _ _ h)

/-- **one `bootstrap_sample` call that returns a sample and ends `ok` reads exactly the answers of
its own requests** (a call that raises on an infeasible `choice` records the request without
reading an answer) -/
theorem c16s_sample_consumed (s : Scores) (c : BootCfg) (st : RngState) (out : Scores)
    (hres : (bootstrapSample s c st).1 = .ok out)
    (h : (bootstrapSample s c st).2.ok = true) : Consumed st (bootstrapSample s c st).2 := by
  unfold bootstrapSample at h hres ⊢
  cases hm : samplingMethod s c with
  | replacement =>
    simp only [hm] at h ⊢
    by_cases hs : c.smoothing = true
    · simp only [hs, if_true] at h ⊢
      have h2 := (draw_ok h).1
      have h1 := (draw_ok h2).1
      exact ((c16s_sampleIndices_consumed s _ _ st h1).trans (c16s_draw_consumed _ _ h2)).trans
        (c16s_draw_consumed _ _ h)
    · simp only [hs] at h ⊢
      exact c16s_sampleIndices_consumed s _ _ st h
  | singlePass =>
    simp only [hm] at h ⊢
    by_cases hs : c.smoothing = true
    · simp only [hs, if_true] at h ⊢
      exact c16s_sampleIndices_consumed s _ _ st h
    · simp only [hs] at h ⊢
      exact c16s_sampleIndices_consumed s _ _ st h
  | proportion =>
    simp only [hm] at h hres ⊢
    cases hr : c.ratio with
    | none => exact Consumed.refl st
    | some ratio =>
      simp only [hr] at h hres ⊢
      by_cases f1 : (Req.choiceFrom s.pos.length (some (proportionSize c ratio s.pos.length)) false).feasible = true
      · simp only [f1, Bool.not_true, Bool.false_eq_true, if_false] at h hres ⊢
        by_cases f2 : (Req.choiceFrom s.neg.length (some (proportionSize c ratio s.neg.length)) false).feasible = true
        · simp only [f2, Bool.not_true, Bool.false_eq_true, if_false] at h ⊢
          have h1 := (draw_ok h).1
          exact (c16s_draw_consumed _ st h1).trans (c16s_draw_consumed _ _ h)
        · simp only [f2] at hres
          exact absurd hres (by simp)
      · simp only [f1] at hres
        exact absurd hres (by simp)
  | unknown => exact Consumed.refl st
  | dynamic => exact Consumed.refl st

/-- `n` consecutive calls of a runnable configuration -/
theorem c16s_sampleStates_consumed (s : Scores) (c : BootCfg) (hrun : c11p_Runnable s c) (n : ℕ)
    (st : RngState) (h : (sampleStates s c n st).ok = true) : Consumed st (sampleStates s c n st) := by
  induction n with
  | zero => exact Consumed.refl st
  | succ n ih =>
    rw [c16s_sampleStates_succ] at h ⊢
    have hprev := c16s_sample_ok_mono s c _ h
    obtain ⟨out, hout⟩ := c16s_sample_isOk s c (sampleStates s c n st) hrun
    exact (ih hprev).trans (c16s_sample_consumed s c _ out hout h)

end SA
