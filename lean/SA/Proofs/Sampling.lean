/-
Helper lemmas for the sampling model (SA/Model/Rng.lean, SA/Model/Sampling.lean): what an `ok`
run knows about each answer, the stratum arithmetic of `_sample_indices`, `np.repeat`, gathering.
-/
import SA.Model.Sampling
import SA.Spec.C11
import SA.Proofs.Bisect
import Mathlib.Tactic.Linarith
import Mathlib.Algebra.Order.Field.Basic
import Mathlib.Tactic.FieldSimp
import Mathlib.Tactic.Ring
import Mathlib.Data.List.Perm.Subperm
import Mathlib.Data.List.Nodup

namespace SA

/-! ### `draw` -/

theorem draw_ok {r : Req} {st : RngState} (h : (draw r st).2.ok = true) :
    st.ok = true ∧ r.inRange (draw r st).1 = true := by
  unfold draw at *
  cases hr : st.responses with
  | nil => simp [hr] at h
  | cons x rest =>
    simp only [hr, Bool.and_eq_true] at h ⊢
    exact h

@[simp] theorem draw_trace (r : Req) (st : RngState) :
    (draw r st).2.trace = (r, (draw r st).1) :: st.trace := by
  unfold draw
  cases st.responses <;> rfl

@[simp] theorem drawScalar_fst (r : Req) (st : RngState) :
    (drawScalar r st).1 = (draw r st).1.headD 0 := rfl

@[simp] theorem drawScalar_snd (r : Req) (st : RngState) :
    (drawScalar r st).2 = (draw r st).2 := rfl

/-- a scalar binomial answer lies in the support -/
theorem binomial_none_range {n : Nat} {p : Rat} {r : List Nat}
    (h : (Req.binomial n p none).inRange r = true) :
    r.headD 0 ≤ n ∧ (p ≤ 0 → r.headD 0 = 0) ∧ (1 ≤ p → r.headD 0 = n) := by
  simp only [Req.inRange, sizeLen, Bool.and_eq_true, beq_iff_eq] at h
  obtain ⟨hl, ha⟩ := h
  match r, hl with
  | [x], _ =>
    simp only [List.all_cons, List.all_nil, Bool.and_true, binomialInSupport, Bool.and_eq_true,
      Bool.or_eq_true, decide_eq_true_eq, beq_iff_eq] at ha
    obtain ⟨⟨h1, h2⟩, h3⟩ := ha
    refine ⟨h1, fun hp => ?_, fun hp => ?_⟩
    · rcases h2 with h2 | h2
      · exact absurd h2 (not_lt.mpr hp)
      · exact h2
    · rcases h3 with h3 | h3
      · exact absurd h3 (not_lt.mpr hp)
      · exact h3

theorem sized_length {q : Req} {k : Nat} {r : List Nat}
    (hq : (∃ n p, q = .binomial n p (some k)) ∨ (∃ l, q = .poisson l (some k)) ∨
      (∃ n b, q = .choice n (some k) b) ∨ (∃ n b, q = .choiceFrom n (some k) b))
    (h : q.inRange r = true) : r.length = k := by
  rcases hq with ⟨n, p, rfl⟩ | ⟨l, rfl⟩ | ⟨n, b, rfl⟩ | ⟨n, b, rfl⟩ <;>
    simp only [Req.inRange, sizeLen, Bool.and_eq_true, beq_iff_eq] at h
  · exact h.1
  · exact h.1
  · exact h.1.1
  · exact h.1.1

theorem choice_range {n : Nat} {size : Option Nat} {b : Bool} {r : List Nat}
    (h : (Req.choice n size b).inRange r = true) :
    r.length = sizeLen size ∧ ∀ x ∈ r, x < n := by
  simp only [Req.inRange, Bool.and_eq_true, beq_iff_eq, List.all_eq_true, decide_eq_true_eq] at h
  exact ⟨h.1.1, h.1.2⟩

theorem choiceFrom_range {n : Nat} {size : Option Nat} {r : List Nat}
    (h : (Req.choiceFrom n size false).inRange r = true) :
    r.length = sizeLen size ∧ (∀ x ∈ r, x < n) ∧ r.Nodup := by
  simp only [Req.inRange, Bool.and_eq_true, beq_iff_eq, List.all_eq_true, decide_eq_true_eq,
    Bool.false_or] at h
  exact ⟨h.1.1, h.1.2, h.2⟩

/-! ### stratum arithmetic -/

theorem nbAll_split (s : Scores) : s.nbAll = s.nbAllPos + s.nbAllNeg := by
  simp only [Scores.nbAll, Scores.nbEasy, Scores.nbHard, Scores.nbAllPos, Scores.nbAllNeg]; omega

theorem posNegRatio_zero (s : Scores) (h : s.nbAllPos = 0) : s.posNegRatio ≤ 0 := by
  unfold Scores.posNegRatio
  split
  · simp [h]
  · exact le_refl _

theorem posNegRatio_one (s : Scores) (h : s.nbAllNeg = 0) (hN : s.nbAll > 0) :
    1 ≤ s.posNegRatio := by
  unfold Scores.posNegRatio
  have : s.nbAllPos = s.nbAll := by rw [nbAll_split, h]; rfl
  simp only [hN, if_true, this]
  have h0 : ((s.nbAll : Nat) : Rat) ≠ 0 := by exact_mod_cast (Nat.pos_iff_ne_zero.mp hN)
  rw [div_self h0]

/-- the class sizes after the corrections: they add up to the total, each class that is present
in the source gets at least one sample, a class that is absent gets none -/
theorem classSizes_spec (s : Scores) (b : Nat) (hb : b ≤ s.nbAll)
    (h0 : s.nbAllPos = 0 → b = 0) (h1 : s.nbAllNeg = 0 → b = s.nbAll) :
    (classSizes s b).1 + (classSizes s b).2 = s.nbAll ∧
    (s.nbAllPos > 0 → (classSizes s b).1 ≥ 1) ∧ (s.nbAllNeg > 0 → (classSizes s b).2 ≥ 1) ∧
    (s.nbAllPos = 0 → (classSizes s b).1 = 0) ∧ (s.nbAllNeg = 0 → (classSizes s b).2 = 0) := by
  have hN := nbAll_split s
  simp only [classSizes]
  by_cases c1 : b = 0 ∧ s.nbAllPos > 0
  · simp only [c1, and_self, if_true]
    by_cases c2 : s.nbAll - 1 = 0 ∧ s.nbAllNeg > 0
    · simp only [c2, and_self, if_true]; omega
    · simp only [c2, if_false]; omega
  · simp only [c1, if_false]
    by_cases c2 : s.nbAll - b = 0 ∧ s.nbAllNeg > 0
    · simp only [c2, and_self, if_true]; omega
    · simp only [c2, if_false]; omega

theorem easyPosRatio_zero (s : Scores) (h : s.easyPos = 0) : s.easyPosRatio ≤ 0 := by
  simp [Scores.easyPosRatio, Scores.hardPosRatio, h]

theorem easyNegRatio_zero (s : Scores) (h : s.easyNeg = 0) : s.easyNegRatio ≤ 0 := by
  simp [Scores.easyNegRatio, Scores.hardNegRatio, h]

theorem easyPosRatio_one (s : Scores) (h : s.pos.length = 0) (he : s.easyPos > 0) :
    1 ≤ s.easyPosRatio := by
  simp [Scores.easyPosRatio, Scores.hardPosRatio, h, he]

theorem easyNegRatio_one (s : Scores) (h : s.neg.length = 0) (he : s.easyNeg > 0) :
    1 ≤ s.easyNegRatio := by
  simp [Scores.easyNegRatio, Scores.hardNegRatio, h, he]

/-- one class: `n` samples of which the binomial answered `e` easy ones; `k` scored and `ez` easy
samples in the source -/
theorem hardEasy_spec (n e k ez : Nat) (he : e ≤ n) (hn : k + ez > 0 → n ≥ 1)
    (hn0 : k + ez = 0 → n = 0) (h0 : ez = 0 → e = 0) (h1 : k = 0 → ez > 0 → e = n) :
    hardDrawn n e k + easyDrawn n e k = n ∧ (k > 0 → hardDrawn n e k ≥ 1) ∧
    (k = 0 → hardDrawn n e k = 0) := by
  unfold hardDrawn easyDrawn
  by_cases c : n - e = 0 ∧ k > 0
  · simp only [c, and_self, if_true]; omega
  · simp only [c, if_false]
    refine ⟨by omega, fun hk => by omega, fun hk => ?_⟩
    by_cases hz : ez = 0
    · have := hn0 (by omega); omega
    · have := h1 hk (by omega); omega


/-- What an `ok` run of the non-stratified stratum draw knows. -/
structure StrataFacts (s : Scores) (a : Strata) : Prop where
  total : a.hardPos + a.hardNeg + a.easyPos + a.easyNeg = s.nbAll
  posOne : s.pos.length > 0 → a.hardPos ≥ 1
  negOne : s.neg.length > 0 → a.hardNeg ≥ 1
  posZero : s.pos.length = 0 → a.hardPos = 0
  negZero : s.neg.length = 0 → a.hardNeg = 0

theorem drawStrata_spec (s : Scores) (st : RngState) (h : (drawStrata s st).2.ok = true) :
    st.ok = true ∧ StrataFacts s (drawStrata s st).1 := by
  simp only [drawStrata, drawScalar_fst, drawScalar_snd] at h ⊢
  obtain ⟨h3, r3⟩ := draw_ok h
  obtain ⟨h2, r2⟩ := draw_ok h3
  obtain ⟨h1, r1⟩ := draw_ok h2
  refine ⟨h1, ?_⟩
  obtain ⟨b1, b2, b3⟩ := binomial_none_range r1
  generalize ((draw (Req.binomial s.nbAll s.posNegRatio none) st).1).headD 0 = b at *
  generalize (draw (Req.binomial s.nbAll s.posNegRatio none) st).2 = st1 at *
  have hcs := classSizes_spec s b b1 (fun hp => b2 (posNegRatio_zero s hp))
    (fun hn => by
      by_cases hN : s.nbAll > 0
      · exact b3 (posNegRatio_one s hn hN)
      · omega)
  obtain ⟨cT, cP, cN, cP0, cN0⟩ := hcs
  obtain ⟨e1, e2, e3⟩ := binomial_none_range r2
  obtain ⟨f1, f2, f3⟩ := binomial_none_range r3
  generalize ((draw (Req.binomial (classSizes s b).1 s.easyPosRatio none) st1).1).headD 0 = e at *
  generalize (draw (Req.binomial (classSizes s b).1 s.easyPosRatio none) st1).2 = st2 at *
  generalize ((draw (Req.binomial (classSizes s b).2 s.easyNegRatio none) st2).1).headD 0 = f at *
  have hP := hardEasy_spec (classSizes s b).1 e s.pos.length s.easyPos e1
    (fun hk => cP (by simp only [Scores.nbAllPos]; omega))
    (fun hk => cP0 (by simp only [Scores.nbAllPos]; omega))
    (fun hz => e2 (easyPosRatio_zero s hz)) (fun hk hz => e3 (easyPosRatio_one s hk hz))
  have hQ := hardEasy_spec (classSizes s b).2 f s.neg.length s.easyNeg f1
    (fun hk => cN (by simp only [Scores.nbAllNeg]; omega))
    (fun hk => cN0 (by simp only [Scores.nbAllNeg]; omega))
    (fun hz => f2 (easyNegRatio_zero s hz)) (fun hk hz => f3 (easyNegRatio_one s hk hz))
  exact ⟨by simp only []; omega, hP.2.1, hQ.2.1, hP.2.2, hQ.2.2⟩

theorem strataFor_spec (s : Scores) (byLabel : Bool) (st : RngState)
    (h : (strataFor s byLabel st).2.ok = true) :
    st.ok = true ∧ StrataFacts s (strataFor s byLabel st).1 ∧
    (byLabel = true → (strataFor s byLabel st).1 = ⟨s.pos.length, s.neg.length, s.easyPos, s.easyNeg⟩) := by
  unfold strataFor at *
  cases byLabel with
  | true =>
    have e : (if true = true then
        ((⟨s.pos.length, s.neg.length, s.easyPos, s.easyNeg⟩ : Strata), st)
        else drawStrata s st) = (⟨s.pos.length, s.neg.length, s.easyPos, s.easyNeg⟩, st) := rfl
    rw [e] at h ⊢
    refine ⟨h, ⟨?_, fun h => h, fun h => h, fun h => h, fun h => h⟩, fun _ => rfl⟩
    show s.pos.length + s.neg.length + s.easyPos + s.easyNeg = s.nbAll
    simp only [Scores.nbAll, Scores.nbEasy, Scores.nbHard]; omega
  | false =>
    simp only [Bool.false_eq_true, if_false] at h ⊢
    obtain ⟨h1, h2⟩ := drawStrata_spec s st h
    exact ⟨h1, h2, fun h => absurd h (by simp)⟩

/-! ### multiplicities -/

theorem singlePassCounts_spec (size n : Nat) (st : RngState)
    (h : (singlePassCounts size n st).2.ok = true) :
    st.ok = true ∧ (singlePassCounts size n st).1.length = size := by
  unfold singlePassCounts at *
  obtain ⟨h1, r1⟩ := draw_ok h
  refine ⟨h1, sized_length ?_ r1⟩
  unfold singlePassReq
  by_cases c : n < 100
  · simp only [c, if_true]; exact Or.inl ⟨_, _, rfl⟩
  · simp only [c, if_false]; exact Or.inr (Or.inl ⟨_, rfl⟩)

theorem forceOne_spec (k n : Nat) (counts : List Nat) (st : RngState)
    (h : (forceOne k n counts st).2.ok = true) :
    st.ok = true ∧ (forceOne k n counts st).1.length = counts.length ∧
    (n > 0 → counts.length = k → ∃ x ∈ (forceOne k n counts st).1, x ≠ 0) := by
  unfold forceOne at *
  by_cases c : n > 0 ∧ counts.all (· == 0) = true
  · simp only [c, and_self, if_true, drawScalar_fst, drawScalar_snd] at h ⊢
    obtain ⟨h1, r1⟩ := draw_ok h
    obtain ⟨hl, hx⟩ := choice_range r1
    refine ⟨h1, by simp, fun _ hk => ?_⟩
    generalize (draw (Req.choice k none true) st).1 = r at *
    match r, hl with
    | [x], _ =>
      have hxk : x < counts.length := by rw [hk]; exact hx x (by simp)
      refine ⟨1, ?_, by omega⟩
      simp only [List.headD_cons]
      exact List.mem_iff_getElem.mpr ⟨x, by simpa using hxk, by simp⟩
  · simp only [c, if_false] at h ⊢
    refine ⟨h, by first | rfl | trivial, fun hn _ => ?_⟩
    have : ¬ (counts.all (· == 0) = true) := fun hh => c ⟨hn, hh⟩
    simp only [List.all_eq_true, beq_iff_eq, not_forall] at this
    obtain ⟨x, hx, hne⟩ := this
    exact ⟨x, hx, hne⟩

/-! ### `np.repeat(np.arange(k), counts)` -/

theorem mem_repeatArange {a : Nat} {cs : List Nat} {i : Nat} (h : i ∈ repeatArange a cs) :
    a ≤ i ∧ i < a + cs.length := by
  induction cs generalizing a with
  | nil => simp [repeatArange] at h
  | cons c cs ih =>
    simp only [repeatArange, List.mem_append, List.mem_replicate] at h
    rcases h with ⟨_, rfl⟩ | h
    · simp
    · have := ih h; simp only [List.length_cons]; omega

theorem repeatArange_pairwise (a : Nat) (cs : List Nat) : (repeatArange a cs).Pairwise (· ≤ ·) := by
  induction cs generalizing a with
  | nil => simp [repeatArange]
  | cons c cs ih =>
    simp only [repeatArange]
    rw [List.pairwise_append]
    refine ⟨?_, ih (a + 1), ?_⟩
    · rw [List.pairwise_replicate]; right; exact le_refl _
    · intro x hx y hy
      have hx' := (List.mem_replicate.mp hx).2
      have := (mem_repeatArange hy).1
      omega

theorem repeatArange_ne_nil (a : Nat) (cs : List Nat) (h : ∃ x ∈ cs, x ≠ 0) :
    repeatArange a cs ≠ [] := by
  induction cs generalizing a with
  | nil => simp at h
  | cons c cs ih =>
    simp only [repeatArange]
    by_cases hc : c = 0
    · subst hc
      simp only [List.replicate_zero, List.nil_append]
      apply ih
      obtain ⟨x, hx, hne⟩ := h
      simp only [List.mem_cons] at hx
      rcases hx with rfl | hx
      · exact absurd rfl hne
      · exact ⟨x, hx, hne⟩
    · intro hh
      have := congrArg List.length hh
      simp at this
      omega

theorem mem_repeatIdx {cs : List Nat} {i : Nat} (h : i ∈ repeatIdx cs) : i < cs.length := by
  have := mem_repeatArange h; omega

/-! ### gathering -/

theorem getD_of_lt (a : List Rat) (i : Nat) (h : i < a.length) : a.getD i 0 = a[i] := by
  simp [List.getD_eq_getElem?_getD, List.getElem?_eq_getElem h]

theorem gather_length (a : List Rat) (idx : List Nat) : (gather a idx).length = idx.length := by
  simp [gather]

theorem gather_mem (a : List Rat) (idx : List Nat) (hi : ∀ i ∈ idx, i < a.length) :
    ∀ v ∈ gather a idx, v ∈ a := by
  intro v hv
  simp only [gather, List.mem_map] at hv
  obtain ⟨i, hi', rfl⟩ := hv
  have := hi i hi'
  rw [getD_of_lt _ _ this]
  exact List.getElem_mem _

/-- the `is_sorted=True` fast path: gathering a sorted array by a non-decreasing index list gives
a sorted array -/
theorem gather_sorted (a : List Rat) (idx : List Nat) (ha : a.Pairwise (· ≤ ·))
    (hidx : idx.Pairwise (· ≤ ·)) (hi : ∀ i ∈ idx, i < a.length) :
    (gather a idx).Pairwise (· ≤ ·) := by
  unfold gather
  rw [List.pairwise_map]
  refine List.Pairwise.imp_of_mem ?_ hidx
  intro i j hi' hj' hij
  have h1 := hi i hi'
  have h2 := hi j hj'
  rw [getD_of_lt _ _ h1, getD_of_lt _ _ h2]
  rcases Nat.lt_or_ge i j with hlt | hge
  · exact (List.pairwise_iff_getElem.mp ha) i j h1 h2 hlt
  · have : i = j := by omega
    subst this; exact le_refl _

/-- sampling without replacement: no value is gathered more often than the source holds it -/
theorem gather_count_le (a : List Rat) (idx : List Nat) (hn : idx.Nodup)
    (hi : ∀ i ∈ idx, i < a.length) (v : Rat) : (gather a idx).count v ≤ a.count v := by
  have hsub : idx.Subperm (List.range a.length) :=
    List.subperm_of_subset hn (fun i h => List.mem_range.mpr (hi i h))
  have hmap : (idx.map (fun i => a.getD i 0)).Subperm
      ((List.range a.length).map (fun i => a.getD i 0)) := by
    obtain ⟨l, hp, hs⟩ := hsub
    exact ⟨l.map _, hp.map _, hs.map _⟩
  have hr : (List.range a.length).map (fun i => a.getD i 0) = a := by
    apply List.ext_getElem
    · simp
    · intro i h1 h2
      simp only [List.getElem_map, List.getElem_range]
      exact getD_of_lt _ _ h2
  rw [hr] at hmap
  exact hmap.count_le v


/-! ### `_sample_indices` -/

/-- What an `ok` run of `sampleIndices` knows about its result. -/
structure IndexFacts (s : Scores) (byLabel sp : Bool) (r : Indices) : Prop where
  posRange : ∀ i ∈ r.idxPos, i < s.pos.length
  negRange : ∀ i ∈ r.idxNeg, i < s.neg.length
  sortedIdx : sp = true → r.idxPos.Pairwise (· ≤ ·) ∧ r.idxNeg.Pairwise (· ≤ ·)
  total : sp = false → r.idxPos.length + r.idxNeg.length + r.easyPos + r.easyNeg = s.nbAll
  easy : byLabel = true → r.easyPos = s.easyPos ∧ r.easyNeg = s.easyNeg
  hard : byLabel = true → sp = false →
    r.idxPos.length = s.pos.length ∧ r.idxNeg.length = s.neg.length
  posOne : s.pos.length > 0 → r.idxPos ≠ []
  negOne : s.neg.length > 0 → r.idxNeg ≠ []

theorem sampleIndices_spec (s : Scores) (byLabel sp : Bool) (st : RngState)
    (h : (sampleIndices s byLabel sp st).2.ok = true) :
    st.ok = true ∧ IndexFacts s byLabel sp (sampleIndices s byLabel sp st).1 := by
  unfold sampleIndices at *
  cases sp with
  | true =>
    simp only [↓reduceIte] at h ⊢
    obtain ⟨hf1, l2, n2⟩ := forceOne_spec _ _ _ _ h
    obtain ⟨hc2, l1, n1⟩ := forceOne_spec _ _ _ _ hf1
    obtain ⟨hc1, len2⟩ := singlePassCounts_spec _ _ _ hc2
    obtain ⟨ha, len1⟩ := singlePassCounts_spec _ _ _ hc1
    obtain ⟨h0, facts, hby⟩ := strataFor_spec s byLabel st ha
    refine ⟨h0, ⟨?_, ?_, fun _ => ⟨repeatArange_pairwise _ _, repeatArange_pairwise _ _⟩,
      fun hh => absurd hh (by simp), ?_, fun _ hh => absurd hh (by simp), ?_, ?_⟩⟩
    · intro i hi
      have := mem_repeatIdx hi
      rw [l1, len1] at this; exact this
    · intro i hi
      have := mem_repeatIdx hi
      rw [l2, len2] at this; exact this
    · intro hb
      have := hby hb
      simp only [this, and_self]
    · intro hk
      exact repeatArange_ne_nil _ _ (n1 (facts.posOne hk) len1)
    · intro hk
      exact repeatArange_ne_nil _ _ (n2 (facts.negOne hk) len2)
  | false =>
    simp only [Bool.false_eq_true, ↓reduceIte] at h ⊢
    obtain ⟨hd1, r2⟩ := draw_ok h
    obtain ⟨ha, r1⟩ := draw_ok hd1
    obtain ⟨h0, facts, hby⟩ := strataFor_spec s byLabel st ha
    obtain ⟨len1, rg1⟩ := choice_range r1
    obtain ⟨len2, rg2⟩ := choice_range r2
    simp only [sizeLen] at len1 len2
    refine ⟨h0, ⟨rg1, rg2, fun hh => absurd hh (by simp), ?_, ?_, ?_, ?_, ?_⟩⟩
    · intro _
      have := facts.total
      simp only [len1, len2]; omega
    · intro hb
      have := hby hb
      simp only [this, and_self]
    · intro hb _
      have := hby hb
      simp only [this] at len1 len2 ⊢
      exact ⟨len1, len2⟩
    · intro hk hnil
      have := facts.posOne hk
      have h1 := congrArg List.length hnil
      simp only [List.length_nil] at h1
      rw [len1] at h1; omega
    · intro hk hnil
      have := facts.negOne hk
      have h1 := congrArg List.length hnil
      simp only [List.length_nil] at h1
      rw [len2] at h1; omega


/-! ### `Scores.make` -/

theorem make_cfg (p n : List Rat) (ep en : Nat) (cfg : Cfg) (b : Bool) :
    (Scores.make p n ep en cfg b).cfg = cfg := by cases b <;> rfl

theorem make_easy (p n : List Rat) (ep en : Nat) (cfg : Cfg) (b : Bool) :
    (Scores.make p n ep en cfg b).easyPos = ep ∧ (Scores.make p n ep en cfg b).easyNeg = en := by
  cases b <;> exact ⟨rfl, rfl⟩

theorem make_perm (p n : List Rat) (ep en : Nat) (cfg : Cfg) (b : Bool) :
    (Scores.make p n ep en cfg b).pos.Perm p ∧ (Scores.make p n ep en cfg b).neg.Perm n := by
  cases b
  · exact ⟨sortQ_perm p, sortQ_perm n⟩
  · exact ⟨List.Perm.refl _, List.Perm.refl _⟩

theorem make_sorted (p n : List Rat) (ep en : Nat) (cfg : Cfg) (b : Bool)
    (h : b = true → p.Pairwise (· ≤ ·) ∧ n.Pairwise (· ≤ ·)) :
    (Scores.make p n ep en cfg b).pos.Pairwise (· ≤ ·) ∧
    (Scores.make p n ep en cfg b).neg.Pairwise (· ≤ ·) := by
  cases b
  · exact ⟨sortQ_pairwise p, sortQ_pairwise n⟩
  · exact h rfl

/-! ### `bootstrap_sample`: the three ways a sample comes about -/

/-- Every successful `ok` run of `bootstrapSample` is one of: a replacement sample, a single-pass
sample (smoothing off), a proportion sample; with what the run knows in each case. -/
theorem bootstrapSample_cases (s : Scores) (c : BootCfg) (st : RngState) (out : Scores)
    (h : (bootstrapSample s c st).1 = .ok out) (hok : (bootstrapSample s c st).2.ok = true) :
    (samplingMethod s c = .replacement ∧ ∃ r : Indices, IndexFacts s c.byLabel false r ∧
      out = Scores.make (gather s.pos r.idxPos) (gather s.neg r.idxNeg) r.easyPos r.easyNeg
        s.cfg false) ∨
    (samplingMethod s c = .singlePass ∧ c.smoothing = false ∧
      ∃ r : Indices, IndexFacts s c.byLabel true r ∧
      out = Scores.make (gather s.pos r.idxPos) (gather s.neg r.idxNeg) r.easyPos r.easyNeg
        s.cfg true) ∨
    (samplingMethod s c = .proportion ∧ ∃ (ratio : Rat) (ip ineg : List Nat),
      c.ratio = some ratio ∧
      ip.length = proportionSize c ratio s.pos.length ∧ (∀ i ∈ ip, i < s.pos.length) ∧ ip.Nodup ∧
      ineg.length = proportionSize c ratio s.neg.length ∧ (∀ i ∈ ineg, i < s.neg.length) ∧
      ineg.Nodup ∧
      out = Scores.make (gather s.pos ip) (gather s.neg ineg) (truncNat (c.fmul ratio s.easyPos))
        (truncNat (c.fmul ratio s.easyNeg)) s.cfg false) := by
  unfold bootstrapSample at h hok
  cases hm : samplingMethod s c with
  | replacement =>
    left
    simp only [hm] at h hok
    refine ⟨rfl, (sampleIndices s c.byLabel false st).1, ?_, ?_⟩
    · apply (sampleIndices_spec s c.byLabel false st ?_).2
      by_cases hs : c.smoothing = true
      · simp only [hs, if_true] at hok
        exact (draw_ok (draw_ok hok).1).1
      · simp only [hs] at hok
        exact hok
    · injection h with h; exact h.symm
  | singlePass =>
    right; left
    simp only [hm] at h hok
    by_cases hs : c.smoothing = true
    · simp only [hs, if_true] at h
      exact absurd h (by simp)
    · simp only [hs] at h hok
      refine ⟨rfl, by simpa using hs, (sampleIndices s c.byLabel true st).1,
        (sampleIndices_spec s c.byLabel true st hok).2, ?_⟩
      injection h with h; exact h.symm
  | proportion =>
    right; right
    simp only [hm] at h hok
    cases hr : c.ratio with
    | none => simp only [hr] at h; exact absurd h (by simp)
    | some ratio =>
      simp only [hr] at h hok
      by_cases f1 : (Req.choiceFrom s.pos.length (some (proportionSize c ratio s.pos.length)) false).feasible = true
      · simp only [f1, Bool.not_true, Bool.false_eq_true, if_false] at h hok
        by_cases f2 : (Req.choiceFrom s.neg.length (some (proportionSize c ratio s.neg.length)) false).feasible = true
        · simp only [f2, Bool.not_true, Bool.false_eq_true, if_false] at h hok
          obtain ⟨hd1, r2⟩ := draw_ok hok
          obtain ⟨_, r1⟩ := draw_ok hd1
          obtain ⟨l1, g1, n1⟩ := choiceFrom_range r1
          obtain ⟨l2, g2, n2⟩ := choiceFrom_range r2
          refine ⟨rfl, ratio, _, _, rfl, l1, g1, n1, l2, g2, n2, ?_⟩
          injection h with h; exact h.symm
        · simp only [f2] at h; exact absurd h (by simp)
      · simp only [f1] at h; exact absurd h (by simp)
  | unknown => simp only [hm] at h; exact absurd h (by simp)
  | dynamic => simp only [hm] at h; exact absurd h (by simp)


/-! ### the model's own requests satisfy the unbiasedness relations -/

section Unbiased
open Spec.C11

theorem closeQ_refl (a : Rat) : closeQ 0 a a = true := by
  simp [closeQ, absQ]

/-- the requests of the stratum draw and what they determine -/
theorem strataFor_shape (s : Scores) (b : Bool) (st : RngState)
    (hok : (strataFor s b st).2.ok = true) :
    (b = true ∧ (strataFor s b st).2.trace = st.trace ∧
      (strataFor s b st).1 = ⟨s.pos.length, s.neg.length, s.easyPos, s.easyNeg⟩) ∨
    (b = false ∧ ∃ (r1 r2 r3 : List Nat) (n1 n2 : Nat), n1 + n2 = s.nbAll ∧
      (strataFor s b st).2.trace =
        [(Req.binomial n2 s.easyNegRatio none, r3), (Req.binomial n1 s.easyPosRatio none, r2),
         (Req.binomial s.nbAll s.posNegRatio none, r1)] ++ st.trace ∧
      (strataFor s b st).1.hardPos = hardDrawn n1 (r2.headD 0) s.pos.length ∧
      (strataFor s b st).1.hardNeg = hardDrawn n2 (r3.headD 0) s.neg.length) := by
  cases b with
  | true => left; exact ⟨rfl, rfl, rfl⟩
  | false =>
    right
    refine ⟨rfl, ?_⟩
    have e : strataFor s false st = drawStrata s st := rfl
    rw [e] at hok ⊢
    simp only [drawStrata, drawScalar_fst, drawScalar_snd] at hok
    obtain ⟨h3, _⟩ := draw_ok hok
    obtain ⟨h2, _⟩ := draw_ok h3
    obtain ⟨_, r1⟩ := draw_ok h2
    obtain ⟨b1, b2, b3⟩ := binomial_none_range r1
    have hcs := classSizes_spec s _ b1 (fun hp => b2 (posNegRatio_zero s hp))
      (fun hn => by
        by_cases hN : s.nbAll > 0
        · exact b3 (posNegRatio_one s hn hN)
        · omega)
    simp only [drawStrata, drawScalar_fst, drawScalar_snd, draw_trace]
    exact ⟨_, _, _, _, _, hcs.1, rfl, rfl, rfl⟩


theorem forceOne_trace (k n : Nat) (counts : List Nat) (st : RngState) :
    ((n > 0 ∧ counts.all (· == 0) = true) ∧
      ∃ x, (forceOne k n counts st).2.trace = (Req.choice k none true, x) :: st.trace) ∨
    (¬ (n > 0 ∧ counts.all (· == 0) = true) ∧ (forceOne k n counts st).2.trace = st.trace) := by
  unfold forceOne
  by_cases c : n > 0 ∧ counts.all (· == 0) = true
  · left
    refine ⟨c, ?_⟩
    simp only [c, and_self, if_true, drawScalar_snd, draw_trace]
    exact ⟨_, rfl⟩
  · right
    refine ⟨c, ?_⟩
    simp only [c, if_false]

/-- the first stage of `unbiasedOK` on the model's own stratum requests -/
theorem start_eq (s : Scores) (b : Bool) (st : RngState) (ht : st.trace = [])
    (hok : (strataFor s b st).2.ok = true) (rest : Obs) :
    (if b = true then some (s.pos.length, s.neg.length,
        (strataFor s b st).2.trace.reverse ++ rest)
      else strataReqs 0 s ((strataFor s b st).2.trace.reverse ++ rest)) =
    some ((strataFor s b st).1.hardPos, (strataFor s b st).1.hardNeg, rest) := by
  rcases strataFor_shape s b st hok with ⟨hb, htr, hv⟩ | ⟨hb, r1, r2, r3, n1, n2, hsum, htr, hp, hn⟩
  · subst hb
    simp only [htr, ht, hv, List.reverse_nil, List.nil_append, if_true]
  · subst hb
    simp only [Bool.false_eq_true, if_false, htr, ht, List.append_nil, List.reverse_cons,
      List.reverse_nil, List.nil_append, List.cons_append, strataReqs, beq_self_eq_true,
      closeQ_refl, Bool.and_true, hsum, if_true, hp, hn]

theorem isNormal_choice (n : Nat) (sz : Option Nat) (r : Bool) :
    isNormal (Req.choice n sz r) = false := rfl
theorem isNormal_binomial (n : Nat) (p : Rat) (sz : Option Nat) :
    isNormal (Req.binomial n p sz) = false := rfl
theorem isNormal_singlePassReq (k n : Nat) : isNormal (singlePassReq k n) = false := by
  unfold singlePassReq; split <;> rfl

theorem strata_filter (s : Scores) (b : Bool) (st : RngState) (ht : st.trace = [])
    (hok : (strataFor s b st).2.ok = true) (rest : Obs) :
    ((strataFor s b st).2.trace.reverse ++ rest).filter (fun x => !isNormal x.1) =
    (strataFor s b st).2.trace.reverse ++ rest.filter (fun x => !isNormal x.1) := by
  rcases strataFor_shape s b st hok with ⟨_, htr, _⟩ | ⟨_, r1, r2, r3, n1, n2, _, htr, _, _⟩
  · simp only [htr, ht, List.reverse_nil, List.nil_append]
  · simp only [htr, ht, List.append_nil, List.reverse_cons, List.reverse_nil, List.nil_append,
      List.cons_append, List.filter_cons, isNormal_binomial, Bool.not_false, if_true]

theorem countsReqOK_model (k n : Nat) : countsReqOK 0 k n (singlePassReq k n) = true := by
  unfold singlePassReq
  by_cases hk : k = 0
  · by_cases c : n < 100 <;> simp [c, countsReqOK, hk]
  · have hk' : ((max k 1 : Nat) : Rat) = (k : Rat) := by
      have : max k 1 = k := by omega
      rw [this]
    have hk0 : (k : Rat) ≠ 0 := by exact_mod_cast hk
    by_cases c : n < 100
    · simp only [c, if_true, countsReqOK, beq_self_eq_true, Bool.true_and, Bool.or_eq_true,
        beq_iff_eq, hk, false_or, hk']
      have : (1 : Rat) / (k : Rat) * (k : Rat) = 1 := by field_simp
      rw [this]; exact closeQ_refl 1
    · simp only [c, if_false, countsReqOK, beq_self_eq_true, Bool.true_and, Bool.or_eq_true,
        beq_iff_eq, hk, false_or, hk']
      have : (n : Rat) * (1 / (k : Rat)) * (k : Rat) = (n : Rat) := by field_simp
      rw [this]; exact closeQ_refl _

/-- The requests `_sample_indices` issues satisfy the unbiasedness relations exactly. -/
theorem sampleIndices_unbiased (s : Scores) (b sp : Bool) (st : RngState) (ht : st.trace = [])
    (hok : (sampleIndices s b sp st).2.ok = true) (tail : Obs)
    (htail : tail.filter (fun x => !isNormal x.1) = []) :
    unbiasedOK 0 s b sp ((sampleIndices s b sp st).2.trace.reverse ++ tail) = true := by
  unfold sampleIndices at hok ⊢
  cases sp with
  | false =>
    simp only [Bool.false_eq_true, ↓reduceIte, draw_trace] at hok ⊢
    have ha : (strataFor s b st).2.ok = true := (draw_ok (draw_ok hok).1).1
    simp only [unbiasedOK, List.reverse_cons, List.append_assoc, List.cons_append, List.nil_append]
    rw [strata_filter s b st ht ha, start_eq s b st ht ha]
    simp only [List.filter_cons, isNormal_choice, Bool.not_false, if_true, htail, choiceReqOK,
      beq_self_eq_true, Bool.and_self, Bool.false_eq_true, if_false]
  | true =>
    simp only [↓reduceIte] at hok ⊢
    have hf1 := (forceOne_spec _ _ _ _ hok).1
    have hc2 := (forceOne_spec _ _ _ _ hf1).1
    have hc1 := (singlePassCounts_spec _ _ _ hc2).1
    have ha : (strataFor s b st).2.ok = true := (singlePassCounts_spec _ _ _ hc1).1
    rcases forceOne_trace s.neg.length (strataFor s b st).1.hardNeg
      (singlePassCounts s.neg.length (strataFor s b st).1.hardNeg
        (singlePassCounts s.pos.length (strataFor s b st).1.hardPos (strataFor s b st).2).2).1
      (forceOne s.pos.length (strataFor s b st).1.hardPos
        (singlePassCounts s.pos.length (strataFor s b st).1.hardPos (strataFor s b st).2).1
        (singlePassCounts s.neg.length (strataFor s b st).1.hardNeg
          (singlePassCounts s.pos.length (strataFor s b st).1.hardPos (strataFor s b st).2).2).2).2
      with ⟨c2, x2, t2⟩ | ⟨c2, t2⟩ <;>
    rcases forceOne_trace s.pos.length (strataFor s b st).1.hardPos
      (singlePassCounts s.pos.length (strataFor s b st).1.hardPos (strataFor s b st).2).1
      (singlePassCounts s.neg.length (strataFor s b st).1.hardNeg
        (singlePassCounts s.pos.length (strataFor s b st).1.hardPos (strataFor s b st).2).2).2
      with ⟨c1, x1, t1⟩ | ⟨c1, t1⟩ <;>
    · rw [t2, t1]
      simp only [singlePassCounts, draw_trace] at c1 c2 ⊢
      simp only [unbiasedOK, List.reverse_cons, List.nil_append, List.append_assoc,
        List.cons_append]
      rw [strata_filter s b st ht ha, start_eq s b st ht ha]
      simp only [List.filter_cons, isNormal_singlePassReq, isNormal_choice,
        Bool.not_false, if_true, htail, countsReqOK_model, Bool.true_and, forcedReqs, c1, c2,
        and_self, List.map_cons, List.map_nil, List.nil_append, List.cons_append, if_false,
        beq_self_eq_true]


/-! ### kinds of requests (for the dynamic switch) -/

theorem isSizedCounts_singlePassReq (k n : Nat) : isSizedCounts (singlePassReq k n) = true := by
  unfold singlePassReq; split <;> rfl
theorem isSizedChoice_singlePassReq (k n : Nat) : isSizedChoice (singlePassReq k n) = false := by
  unfold singlePassReq; split <;> rfl

theorem isSizedChoice_some (n k : Nat) (r : Bool) : isSizedChoice (Req.choice n (some k) r) = true := rfl
theorem isSizedChoice_none (n : Nat) (r : Bool) : isSizedChoice (Req.choice n none r) = false := rfl
theorem isSizedCounts_choice (n : Nat) (sz : Option Nat) (r : Bool) :
    isSizedCounts (Req.choice n sz r) = false := rfl
theorem isSizedChoice_normal (n : Nat) : isSizedChoice (Req.normal n) = false := rfl
theorem isSizedCounts_normal (n : Nat) : isSizedCounts (Req.normal n) = false := rfl
theorem isSizedChoice_binomial (n : Nat) (p : Rat) (sz : Option Nat) :
    isSizedChoice (Req.binomial n p sz) = false := rfl
theorem isSizedCounts_binomial_none (n : Nat) (p : Rat) :
    isSizedCounts (Req.binomial n p none) = false := rfl

/-- the stratum draw issues neither sized choices nor sized multiplicity requests -/
theorem strataFor_kinds (s : Scores) (b : Bool) (st : RngState) (ht : st.trace = [])
    (hok : (strataFor s b st).2.ok = true) :
    (strataFor s b st).2.trace.any (fun x => isSizedChoice x.1) = false ∧
    (strataFor s b st).2.trace.any (fun x => isSizedCounts x.1) = false := by
  rcases strataFor_shape s b st hok with ⟨_, htr, _⟩ | ⟨_, r1, r2, r3, n1, n2, _, htr, _, _⟩
  · simp [htr, ht]
  · simp [htr, ht, isSizedChoice_binomial, isSizedCounts_binomial_none]

/-- kinds of requests of `_sample_indices`: replacement issues sized choices and no sized
multiplicities, single-pass the converse -/
theorem sampleIndices_kinds (s : Scores) (b sp : Bool) (st : RngState) (ht : st.trace = [])
    (hok : (sampleIndices s b sp st).2.ok = true) :
    (sampleIndices s b sp st).2.trace.any (fun x => isSizedChoice x.1) = !sp ∧
    (sampleIndices s b sp st).2.trace.any (fun x => isSizedCounts x.1) = sp := by
  unfold sampleIndices at hok ⊢
  cases sp with
  | false =>
    simp only [Bool.false_eq_true, ↓reduceIte, draw_trace] at hok ⊢
    have ha : (strataFor s b st).2.ok = true := (draw_ok (draw_ok hok).1).1
    obtain ⟨k1, k2⟩ := strataFor_kinds s b st ht ha
    simp only [List.any_cons, isSizedChoice_some, isSizedCounts_choice, k1, k2, Bool.or_false,
      Bool.true_or, Bool.not_false, and_self]
  | true =>
    simp only [↓reduceIte] at hok ⊢
    have hf1 := (forceOne_spec _ _ _ _ hok).1
    have hc2 := (forceOne_spec _ _ _ _ hf1).1
    have hc1 := (singlePassCounts_spec _ _ _ hc2).1
    have ha : (strataFor s b st).2.ok = true := (singlePassCounts_spec _ _ _ hc1).1
    obtain ⟨k1, k2⟩ := strataFor_kinds s b st ht ha
    rcases forceOne_trace s.neg.length (strataFor s b st).1.hardNeg
      (singlePassCounts s.neg.length (strataFor s b st).1.hardNeg
        (singlePassCounts s.pos.length (strataFor s b st).1.hardPos (strataFor s b st).2).2).1
      (forceOne s.pos.length (strataFor s b st).1.hardPos
        (singlePassCounts s.pos.length (strataFor s b st).1.hardPos (strataFor s b st).2).1
        (singlePassCounts s.neg.length (strataFor s b st).1.hardNeg
          (singlePassCounts s.pos.length (strataFor s b st).1.hardPos (strataFor s b st).2).2).2).2
      with ⟨_, x2, t2⟩ | ⟨_, t2⟩ <;>
    rcases forceOne_trace s.pos.length (strataFor s b st).1.hardPos
      (singlePassCounts s.pos.length (strataFor s b st).1.hardPos (strataFor s b st).2).1
      (singlePassCounts s.neg.length (strataFor s b st).1.hardNeg
        (singlePassCounts s.pos.length (strataFor s b st).1.hardPos (strataFor s b st).2).2).2
      with ⟨_, x1, t1⟩ | ⟨_, t1⟩ <;>
    · rw [t2, t1]
      simp only [singlePassCounts, draw_trace, List.any_cons, isSizedChoice_singlePassReq,
        isSizedCounts_singlePassReq, isSizedChoice_none, isSizedCounts_choice, k1, k2,
        Bool.or_false, Bool.or_true, Bool.not_true, and_self]


end Unbiased


/-! ### the identity script: every source score is reachable -/

theorem draw_cons {r : Req} {st : RngState} {x : List Nat} {rest : List (List Nat)}
    (hr : st.responses = x :: rest) (hok : st.ok = true) (hin : r.inRange x = true) :
    (draw r st).1 = x ∧ (draw r st).2.responses = rest ∧ (draw r st).2.ok = true := by
  unfold draw
  rw [hr]
  simp only [hok, hin, Bool.and_self, and_self]

theorem classSizes_id (s : Scores) : classSizes s s.nbAllPos = (s.nbAllPos, s.nbAllNeg) := by
  have hN := nbAll_split s
  simp only [classSizes]
  have c1 : ¬ (s.nbAllPos = 0 ∧ s.nbAllPos > 0) := by omega
  have c2 : ¬ (s.nbAll - s.nbAllPos = 0 ∧ s.nbAllNeg > 0) := by omega
  simp only [c1, c2, if_false]
  congr 1; omega

theorem hardEasy_id (k e : Nat) : hardDrawn (e + k) e k = k ∧ easyDrawn (e + k) e k = e := by
  unfold hardDrawn easyDrawn
  have c : ¬ (e + k - e = 0 ∧ k > 0) := by omega
  simp only [c, if_false, and_true]; omega

theorem inRange_classSplit (s : Scores) :
    (Req.binomial s.nbAll s.posNegRatio none).inRange [s.nbAllPos] = true := by
  have hN := nbAll_split s
  simp only [Req.inRange, sizeLen, List.length_singleton, beq_self_eq_true, List.all_cons,
    List.all_nil, Bool.and_true, Bool.true_and, binomialInSupport, Bool.and_eq_true,
    Bool.or_eq_true, decide_eq_true_eq, beq_iff_eq]
  refine ⟨⟨by omega, ?_⟩, ?_⟩
  · by_cases h0 : s.nbAllPos = 0
    · right; exact h0
    · left
      have hN0 : s.nbAll > 0 := by omega
      simp only [Scores.posNegRatio, hN0, if_true]
      have h1 : (0 : Rat) < (s.nbAllPos : Rat) := by exact_mod_cast Nat.pos_of_ne_zero h0
      have h2 : (0 : Rat) < (s.nbAll : Rat) := by exact_mod_cast hN0
      exact div_pos h1 h2
  · by_cases h0 : s.nbAllNeg = 0
    · right; omega
    · left
      have hN0 : s.nbAll > 0 := by omega
      simp only [Scores.posNegRatio, hN0, if_true]
      have h2 : (0 : Rat) < (s.nbAll : Rat) := by exact_mod_cast hN0
      rw [div_lt_one h2]
      exact_mod_cast (by omega : s.nbAllPos < s.nbAll)

theorem inRange_easy (k e : Nat) :
    (Req.binomial (e + k)
      (1 - (if e > 0 then (k : Rat) / ((k + e : Nat) : Rat) else 1)) none).inRange [e] = true := by
  simp only [Req.inRange, sizeLen, List.length_singleton, beq_self_eq_true, List.all_cons,
    List.all_nil, Bool.and_true, Bool.true_and, binomialInSupport, Bool.and_eq_true,
    Bool.or_eq_true, decide_eq_true_eq, beq_iff_eq]
  refine ⟨⟨by omega, ?_⟩, ?_⟩
  · by_cases h0 : e = 0
    · right; exact h0
    · left
      have he : e > 0 := Nat.pos_of_ne_zero h0
      simp only [he, if_true]
      have h2 : (0 : Rat) < ((k + e : Nat) : Rat) := by exact_mod_cast (by omega : 0 < k + e)
      have : (k : Rat) / ((k + e : Nat) : Rat) < 1 := by
        rw [div_lt_one h2]; exact_mod_cast (by omega : k < k + e)
      linarith
  · by_cases hk : k = 0
    · right; omega
    · left
      by_cases he : e > 0
      · simp only [he, if_true]
        have h2 : (0 : Rat) < ((k + e : Nat) : Rat) := by exact_mod_cast (by omega : 0 < k + e)
        have h1 : (0 : Rat) < (k : Rat) := by exact_mod_cast Nat.pos_of_ne_zero hk
        have := div_pos h1 h2
        linarith
      · simp only [he, if_false]; norm_num

theorem inRange_range (k : Nat) : (Req.choice k (some k) true).inRange (List.range k) = true := by
  simp [Req.inRange, sizeLen]

theorem inRange_ones (k : Nat) : (singlePassReq k k).inRange (List.replicate k 1) = true := by
  unfold singlePassReq
  by_cases c : k < 100
  · simp only [c, if_true, Req.inRange, sizeLen, List.length_replicate, beq_self_eq_true,
      Bool.true_and, List.all_eq_true, List.mem_replicate, binomialInSupport, Bool.and_eq_true,
      Bool.or_eq_true, decide_eq_true_eq, beq_iff_eq]
    rintro x ⟨hk, rfl⟩
    have hk' : max k 1 = k := by omega
    rw [hk']
    have h1 : (0 : Rat) < (k : Rat) := by exact_mod_cast Nat.pos_of_ne_zero hk
    refine ⟨⟨by omega, Or.inl (one_div_pos.mpr h1)⟩, ?_⟩
    by_cases h1k : k = 1
    · right; omega
    · left
      rw [div_lt_one h1]
      exact_mod_cast (by omega : 1 < k)
  · simp only [c, if_false, Req.inRange, sizeLen, List.length_replicate, beq_self_eq_true,
      Bool.true_and, List.all_eq_true, List.mem_replicate, Bool.or_eq_true, decide_eq_true_eq,
      beq_iff_eq]
    rintro x ⟨hk, rfl⟩
    left
    have hk' : max k 1 = k := by omega
    rw [hk']
    have h1 : (0 : Rat) < (k : Rat) := by exact_mod_cast Nat.pos_of_ne_zero hk
    exact mul_pos h1 (one_div_pos.mpr h1)

theorem repeatArange_ones (a k : Nat) : repeatArange a (List.replicate k 1) = List.range' a k := by
  induction k generalizing a with
  | zero => rfl
  | succ k ih =>
    simp only [List.replicate_succ, repeatArange, List.replicate_zero,
      List.singleton_append, ih, List.range'_succ]

theorem gather_range (a : List Rat) : gather a (List.range a.length) = a := by
  unfold gather
  apply List.ext_getElem
  · simp
  · intro i h1 h2
    simp only [List.getElem_map, List.getElem_range]
    exact getD_of_lt _ _ h2


/-- the script under which the sample is the source itself -/
def identityScript (s : Scores) (byLabel sp : Bool) : List (List Nat) :=
  (if byLabel then [] else [[s.nbAllPos], [s.easyPos], [s.easyNeg]]) ++
  (if sp then [List.replicate s.pos.length 1, List.replicate s.neg.length 1]
   else [List.range s.pos.length, List.range s.neg.length])

theorem strataFor_identity (s : Scores) (b : Bool) (st : RngState) (rest : List (List Nat))
    (hok : st.ok = true)
    (hr : st.responses = (if b then [] else [[s.nbAllPos], [s.easyPos], [s.easyNeg]]) ++ rest) :
    (strataFor s b st).1 = ⟨s.pos.length, s.neg.length, s.easyPos, s.easyNeg⟩ ∧
    (strataFor s b st).2.responses = rest ∧ (strataFor s b st).2.ok = true := by
  cases b with
  | true =>
    have hr' : st.responses = rest := by simpa using hr
    exact ⟨rfl, hr', hok⟩
  | false =>
    have e : strataFor s false st = drawStrata s st := rfl
    rw [e]
    simp only [Bool.false_eq_true, if_false, List.cons_append, List.nil_append] at hr
    obtain ⟨e1, q1, k1⟩ := draw_cons (r := .binomial s.nbAll s.posNegRatio none) hr hok
      (inRange_classSplit s)
    have i2 : (Req.binomial s.nbAllPos s.easyPosRatio none).inRange [s.easyPos] = true :=
      inRange_easy s.pos.length s.easyPos
    have i3 : (Req.binomial s.nbAllNeg s.easyNegRatio none).inRange [s.easyNeg] = true :=
      inRange_easy s.neg.length s.easyNeg
    obtain ⟨e2, q2, k2⟩ := draw_cons (r := .binomial s.nbAllPos s.easyPosRatio none) q1 k1 i2
    obtain ⟨e3, q3, k3⟩ := draw_cons (r := .binomial s.nbAllNeg s.easyNegRatio none) q2 k2 i3
    simp only [drawStrata, drawScalar_fst, drawScalar_snd, e1, List.headD_cons, classSizes_id,
      e2, e3, q3, k3, and_true]
    have hp := hardEasy_id s.pos.length s.easyPos
    have hn := hardEasy_id s.neg.length s.easyNeg
    simp only [Scores.nbAllPos, Scores.nbAllNeg, hp.1, hp.2, hn.1, hn.2]

theorem forceOne_ones (k : Nat) (st : RngState) :
    forceOne k k (List.replicate k 1) st = (List.replicate k 1, st) := by
  unfold forceOne
  have c : ¬ (k > 0 ∧ (List.replicate k 1).all (· == 0) = true) := by
    rintro ⟨hk, h⟩
    simp only [List.all_eq_true, List.mem_replicate, beq_iff_eq] at h
    have := h 1 ⟨by omega, rfl⟩
    omega
  simp only [c, if_false]

/-- On the identity script `_sample_indices` selects every index exactly once. -/
theorem sampleIndices_identity (s : Scores) (b sp : Bool) (st : RngState) (hok : st.ok = true)
    (hr : st.responses = identityScript s b sp) :
    (sampleIndices s b sp st).1 =
      ⟨List.range s.pos.length, List.range s.neg.length, s.easyPos, s.easyNeg⟩ ∧
    (sampleIndices s b sp st).2.ok = true := by
  unfold identityScript at hr
  obtain ⟨a1, a2, a3⟩ := strataFor_identity s b st _ hok hr
  unfold sampleIndices
  cases sp with
  | true =>
    simp only [↓reduceIte] at a2 ⊢
    simp only [a1, singlePassCounts]
    obtain ⟨e1, q1, k1⟩ := draw_cons (r := singlePassReq s.pos.length s.pos.length) a2 a3
      (inRange_ones _)
    obtain ⟨e2, q2, k2⟩ := draw_cons (r := singlePassReq s.neg.length s.neg.length) q1 k1
      (inRange_ones _)
    simp only [e1, e2, forceOne_ones, repeatIdx, repeatArange_ones, k2, and_true,
      List.range_eq_range']
  | false =>
    simp only [Bool.false_eq_true, ↓reduceIte] at a2 ⊢
    simp only [a1]
    obtain ⟨e1, q1, k1⟩ := draw_cons (r := .choice s.pos.length (some s.pos.length) true) a2 a3
      (inRange_range _)
    obtain ⟨e2, q2, k2⟩ := draw_cons (r := .choice s.neg.length (some s.neg.length) true) q1 k1
      (inRange_range _)
    simp only [e1, e2, k2, and_true]


end SA
