/-
Lemmas behind SA/Theorems/C11Unbiased.lean: the monadic sampling program of SA/Model/SamplingM.lean

* run on scripts (`stateRng`): it IS the existing model `sampleIndices`; corrected and uncorrected
  programs agree on scripts that trigger no correction;
* run on expectations (`exRng E` for a `Lawful` oracle): consequences of the laws, the tower
  property through the three binomials of the non-stratified branch, the replacement and the
  single-pass part.
-/
import SA.Model.SamplingM
import SA.Theorems.C11Progress
import Mathlib.Algebra.BigOperators.Group.Finset.Basic
import Mathlib.Tactic.LinearCombination
import Mathlib.Tactic.FieldSimp
import Mathlib.Tactic.Positivity
import Mathlib.Algebra.Order.Field.Basic

namespace SA.C11U
open SA

/-! ## scripts -/

theorem c11u_forceOneM_state (k n : Nat) (c : List Nat) (st : RngState) :
    forceOneM stateRng k n c st = forceOne k n c st := by
  unfold forceOneM forceOne
  split <;> rfl

theorem c11u_strataForM_state (s : Scores) (byLabel : Bool) (st : RngState) :
    strataForM stateRng s byLabel st = strataFor s byLabel st := by
  cases byLabel <;> rfl

/-- the monadic program run on scripts IS the existing model (same output, same final state) -/
theorem c11u_sampleIndicesM_state_aux (s : Scores) (byLabel singlePass : Bool) (st : RngState) :
    sampleIndicesM stateRng s byLabel singlePass st = sampleIndices s byLabel singlePass st := by
  cases singlePass
  · cases byLabel <;> rfl
  · unfold sampleIndices
    simp only [if_true, ← c11u_strataForM_state, ← c11u_forceOneM_state]
    rfl

theorem c11u_draw_fst (r : Req) (st : RngState) : (draw r st).1 = st.responses.getD 0 [] := by
  unfold draw; cases st.responses <;> rfl

theorem c11u_draw_responses (r : Req) (st : RngState) :
    (draw r st).2.responses = st.responses.drop 1 := by
  unfold draw; cases st.responses <;> rfl

theorem c11u_drawScalar_fst (r : Req) (st : RngState) :
    (drawScalar r st).1 = scalarAt st.responses 0 := by
  unfold drawScalar scalarAt; simp only [c11u_draw_fst]

theorem c11u_drawScalar_responses (r : Req) (st : RngState) :
    (drawScalar r st).2.responses = st.responses.drop 1 := c11u_draw_responses r st

theorem c11u_scalarAt_drop (l : List (List Nat)) (j i : Nat) :
    scalarAt (l.drop j) i = scalarAt l (j + i) := by
  unfold scalarAt; simp only [List.getD_eq_getElem?_getD, List.getElem?_drop]

theorem c11u_forceOneM_none (k n : Nat) (c : List Nat) (h : countsUncorrected n c = true) :
    forceOneM stateRng k n c = pure c := by
  unfold forceOneM
  have : ¬ (n > 0 ∧ c.all (· == 0) = true) := by
    intro hh
    simp only [countsUncorrected, Bool.not_eq_true', Bool.and_eq_false_iff, decide_eq_false_iff_not] at h
    rcases h with h | h
    · exact h hh.1
    · rw [hh.2] at h; exact Bool.noConfusion h
  rw [if_neg this]

theorem c11u_singlePass_eq (s : Scores) (a : Strata) (st : RngState)
    (h1 : countsUncorrected a.hardPos (st.responses.getD 0 []) = true)
    (h2 : countsUncorrected a.hardNeg (st.responses.getD 1 []) = true) :
    singlePassPartM stateRng s a st = singlePassPartU stateRng s a st := by
  have e1 : (draw (singlePassReq s.pos.length a.hardPos) st).1 = st.responses.getD 0 [] :=
    c11u_draw_fst _ _
  have e2 : (draw (singlePassReq s.neg.length a.hardNeg)
      (draw (singlePassReq s.pos.length a.hardPos) st).2).1 = st.responses.getD 1 [] := by
    rw [c11u_draw_fst, c11u_draw_responses]
    simp only [List.getD_eq_getElem?_getD, List.getElem?_drop]
  rw [← e1] at h1
  rw [← e2] at h2
  show (do
    let f1 ← forceOneM stateRng s.pos.length a.hardPos (draw (singlePassReq s.pos.length a.hardPos) st).1
    let f2 ← forceOneM stateRng s.neg.length a.hardNeg (draw (singlePassReq s.neg.length a.hardNeg)
      (draw (singlePassReq s.pos.length a.hardPos) st).2).1
    (pure ⟨repeatIdx f1, repeatIdx f2, a.easyPos, a.easyNeg⟩ : StateM RngState Indices))
     (draw (singlePassReq s.neg.length a.hardNeg)
      (draw (singlePassReq s.pos.length a.hardPos) st).2).2 = _
  rw [c11u_forceOneM_none _ _ _ h1, c11u_forceOneM_none _ _ _ h2]
  rfl



theorem c11u_classSizes_none (s : Scores) (b : Nat)
    (h1 : ¬ (b = 0 ∧ s.nbAllPos > 0)) (h2 : ¬ (s.nbAll - b = 0 ∧ s.nbAllNeg > 0)) :
    classSizes s b = (b, s.nbAll - b) := by
  simp only [classSizes, h1, h2, if_false]

theorem c11u_hardDrawn_none (n e k : Nat) (h : ¬ (n - e = 0 ∧ k > 0)) :
    hardDrawn n e k = n - e ∧ easyDrawn n e k = e := by
  simp only [hardDrawn, easyDrawn, h, if_false, and_self]

theorem c11u_strataUncorrected_iff (s : Scores) (b e1 e2 : Nat) :
    strataUncorrected s b e1 e2 = true ↔
      ¬ (b = 0 ∧ s.nbAllPos > 0) ∧ ¬ (s.nbAll - b = 0 ∧ s.nbAllNeg > 0) ∧
      ¬ (b - e1 = 0 ∧ s.pos.length > 0) ∧ ¬ ((s.nbAll - b) - e2 = 0 ∧ s.neg.length > 0) := by
  simp only [strataUncorrected, Bool.and_eq_true, Bool.not_eq_true', Bool.and_eq_false_iff,
    decide_eq_false_iff_not, not_and_or, and_assoc]

/-- the three scalar draws of the non-stratified branch, as state transformers -/
theorem c11u_drawStrata_eq (s : Scores) (st : RngState)
    (h : strataUncorrected s (scalarAt st.responses 0) (scalarAt st.responses 1)
      (scalarAt st.responses 2) = true) :
    drawStrataM stateRng s st = drawStrataU stateRng s st := by
  obtain ⟨h1, h2, h3, h4⟩ := (c11u_strataUncorrected_iff _ _ _ _).1 h
  set r1 := Req.binomial s.nbAll s.posNegRatio none with hr1
  have eb : (drawScalar r1 st).1 = scalarAt st.responses 0 := c11u_drawScalar_fst _ _
  have cs : classSizes s (drawScalar r1 st).1 = ((drawScalar r1 st).1, s.nbAll - (drawScalar r1 st).1) := by
    rw [eb]; exact c11u_classSizes_none s _ h1 h2
  show drawStrata s st = _
  unfold drawStrata
  simp only [← hr1, cs]
  set st1 := (drawScalar r1 st).2 with hst1
  set b := (drawScalar r1 st).1 with hb
  set r2 := Req.binomial b s.easyPosRatio none with hr2
  have ee1 : (drawScalar r2 st1).1 = scalarAt st.responses 1 := by
    rw [c11u_drawScalar_fst, hst1, c11u_drawScalar_responses, c11u_scalarAt_drop]
  set st2 := (drawScalar r2 st1).2 with hst2
  set r3 := Req.binomial (s.nbAll - b) s.easyNegRatio none with hr3
  have ee2 : (drawScalar r3 st2).1 = scalarAt st.responses 2 := by
    rw [c11u_drawScalar_fst, hst2, c11u_drawScalar_responses, hst1, c11u_drawScalar_responses,
      List.drop_drop, c11u_scalarAt_drop]
  rw [← eb] at h3 h4
  rw [← ee1] at h3
  rw [← ee2] at h4
  rw [(c11u_hardDrawn_none _ _ _ h3).1, (c11u_hardDrawn_none _ _ _ h3).2,
    (c11u_hardDrawn_none _ _ _ h4).1, (c11u_hardDrawn_none _ _ _ h4).2]
  rfl

theorem c11u_drawStrataU_responses (s : Scores) (st : RngState) :
    (drawStrataU stateRng s st).2.responses = st.responses.drop 3 := by
  show (drawScalar _ (drawScalar _ (drawScalar _ st).2).2).2.responses = _
  rw [c11u_drawScalar_responses, c11u_drawScalar_responses, c11u_drawScalar_responses,
    List.drop_drop, List.drop_drop]

theorem c11u_drawStrataU_fst (s : Scores) (st : RngState) :
    (drawStrataU stateRng s st).1 =
      ⟨scalarAt st.responses 0 - scalarAt st.responses 1,
       (s.nbAll - scalarAt st.responses 0) - scalarAt st.responses 2,
       scalarAt st.responses 1, scalarAt st.responses 2⟩ := by
  let d1 := drawScalar (.binomial s.nbAll s.posNegRatio none) st
  let d2 := drawScalar (.binomial d1.1 s.easyPosRatio none) d1.2
  let d3 := drawScalar (.binomial (s.nbAll - d1.1) s.easyNegRatio none) d2.2
  show (⟨d1.1 - d2.1, (s.nbAll - d1.1) - d3.1, d2.1, d3.1⟩ : Strata) = _
  have e1 : d1.1 = scalarAt st.responses 0 := c11u_drawScalar_fst _ _
  have e2 : d2.1 = scalarAt st.responses 1 := by
    rw [c11u_drawScalar_fst, c11u_drawScalar_responses, c11u_scalarAt_drop]
  have e3 : d3.1 = scalarAt st.responses 2 := by
    rw [c11u_drawScalar_fst, c11u_drawScalar_responses, c11u_drawScalar_responses,
      List.drop_drop, c11u_scalarAt_drop]
  rw [e1, e2, e3]



/-! ## expectations: consequences of the laws -/


variable {E : Oracle}

theorem Lawful.smul (L : Lawful E) (r : Req) (c : ℚ) (f : List Nat → ℚ) :
    E r (fun x => c * f x) = c * E r f := by
  have h := L.lin r f f c 0
  have e : (fun x => c * f x + 0 * f x) = (fun x => c * f x) := by funext x; ring
  rw [e] at h; rw [h]; ring

theorem Lawful.add (L : Lawful E) (r : Req) (f g : List Nat → ℚ) :
    E r (fun x => f x + g x) = E r f + E r g := by
  have h := L.lin r f g 1 1
  have e : (fun x => 1 * f x + 1 * g x) = (fun x => f x + g x) := by funext x; ring
  rw [e] at h; rw [h]; ring

theorem Lawful.zero (L : Lawful E) (r : Req) : E r (fun _ => 0) = 0 := by
  have h := L.smul r 0 (fun _ => 0)
  have e : (fun _ : List Nat => (0 : ℚ) * 0) = (fun _ => 0) := by funext x; ring
  rw [e] at h; rw [h]; ring

/-- affine integrands on the support: only the mean of `f` is needed -/
theorem Lawful.affine (L : Lawful E) (r : Req) (hr : r.feasible = true) (a c : ℚ)
    (f k : List Nat → ℚ) (hk : ∀ x, r.inRange x = true → k x = a * f x + c) :
    E r k = a * E r f + c := by
  rw [L.supp r k (fun x => a * f x + c * (fun _ => 1) x) (by intro x hx; rw [hk x hx]; ring),
    L.lin, L.norm r 1 hr]; ring

theorem Lawful.sum (L : Lawful E) (r : Req) (n : Nat) (f : Nat → List Nat → ℚ) :
    E r (fun x => ∑ i ∈ Finset.range n, f i x) = ∑ i ∈ Finset.range n, E r (f i) := by
  induction n with
  | zero => simpa using L.zero r
  | succ n ih =>
    simp only [Finset.sum_range_succ]
    rw [L.add r (fun x => ∑ i ∈ Finset.range n, f i x) (f n), ih]



theorem c11u_binomial_feasible {n : Nat} {p : ℚ} {size : Option Nat} (h0 : 0 ≤ p) (h1 : p ≤ 1) :
    (Req.binomial n p size).feasible = true := by
  simp only [Req.feasible, Bool.and_eq_true, decide_eq_true_eq]; exact ⟨h0, h1⟩

/-- scalar binomial, integrand affine on the support -/
theorem Lawful.binAffine (L : Lawful E) (n : Nat) (p : ℚ) (h0 : 0 ≤ p) (h1 : p ≤ 1) (a c : ℚ)
    (k : List Nat → ℚ)
    (hk : ∀ x, (Req.binomial n p none).inRange x = true → k x = a * ((x.headD 0 : Nat) : ℚ) + c) :
    E (.binomial n p none) k = a * ((n : ℚ) * p) + c := by
  rw [L.affine _ (c11u_binomial_feasible h0 h1) a c _ k hk, L.binomial_scalar n p h0 h1]

/-- the stratum sizes that can come out of the (uncorrected or corrected) non-stratified branch
on answers in the support: they add up to the source's total, and a class without scored samples
in the source gets no scored sample -/
def StrataSupp (s : Scores) (a : Strata) : Prop :=
  a.hardPos + a.easyPos + a.hardNeg + a.easyNeg = s.nbAll ∧
  (s.pos.length = 0 → a.hardPos = 0) ∧ (s.neg.length = 0 → a.hardNeg = 0)

theorem c11u_easyPos_bounds (s : Scores) : 0 ≤ s.easyPosRatio ∧ s.easyPosRatio ≤ 1 :=
  c11p_easy_bounds s.pos.length s.easyPos
theorem c11u_easyNeg_bounds (s : Scores) : 0 ≤ s.easyNegRatio ∧ s.easyNegRatio ≤ 1 :=
  c11p_easy_bounds s.neg.length s.easyNeg

theorem c11u_drawStrataU_ex (E : Oracle) (s : Scores) (k : Strata → ℚ) :
    drawStrataU (exRng E) s k =
      E (.binomial s.nbAll s.posNegRatio none) (fun x1 =>
        E (.binomial (x1.headD 0) s.easyPosRatio none) (fun x2 =>
          E (.binomial (s.nbAll - x1.headD 0) s.easyNegRatio none) (fun x3 =>
            k ⟨x1.headD 0 - x2.headD 0, (s.nbAll - x1.headD 0) - x3.headD 0,
              x2.headD 0, x3.headD 0⟩))) := rfl

/-- on the support of the three binomials the uncorrected strata are `StrataSupp` -/
theorem c11u_strataSupp_of_inRange (s : Scores) (x1 x2 x3 : List Nat)
    (h1 : (Req.binomial s.nbAll s.posNegRatio none).inRange x1 = true)
    (h2 : (Req.binomial (x1.headD 0) s.easyPosRatio none).inRange x2 = true)
    (h3 : (Req.binomial (s.nbAll - x1.headD 0) s.easyNegRatio none).inRange x3 = true) :
    x1.headD 0 ≤ s.nbAll ∧ x2.headD 0 ≤ x1.headD 0 ∧ x3.headD 0 ≤ s.nbAll - x1.headD 0 ∧
    StrataSupp s ⟨x1.headD 0 - x2.headD 0, (s.nbAll - x1.headD 0) - x3.headD 0,
      x2.headD 0, x3.headD 0⟩ := by
  obtain ⟨a1, a2, a3⟩ := binomial_none_range h1
  obtain ⟨b1, b2, b3⟩ := binomial_none_range h2
  obtain ⟨c1, c2, c3⟩ := binomial_none_range h3
  have hN := nbAll_split s
  refine ⟨a1, b1, c1, ?_, ?_, ?_⟩
  · show x1.headD 0 - x2.headD 0 + x2.headD 0 + (s.nbAll - x1.headD 0 - x3.headD 0) + x3.headD 0 = _
    omega
  · intro hH
    show x1.headD 0 - x2.headD 0 = 0
    by_cases he : s.easyPos > 0
    · have := b3 (easyPosRatio_one s hH he); omega
    · have hp : s.nbAllPos = 0 := by unfold Scores.nbAllPos; omega
      have := a2 (posNegRatio_zero s hp); omega
  · intro hK
    show s.nbAll - x1.headD 0 - x3.headD 0 = 0
    by_cases he : s.easyNeg > 0
    · have := c3 (easyNegRatio_one s hK he); omega
    · have hn : s.nbAllNeg = 0 := by unfold Scores.nbAllNeg; omega
      by_cases hN0 : s.nbAll > 0
      · have := a3 (posNegRatio_one s hn hN0); omega
      · omega

/-- only the values on `StrataSupp` strata matter -/
theorem c11u_drawStrataU_congr (L : Lawful E) (s : Scores) (k k' : Strata → ℚ)
    (h : ∀ a, StrataSupp s a → k a = k' a) :
    drawStrataU (exRng E) s k = drawStrataU (exRng E) s k' := by
  rw [c11u_drawStrataU_ex, c11u_drawStrataU_ex]
  refine L.supp _ _ _ (fun x1 h1 => ?_)
  refine L.supp _ _ _ (fun x2 h2 => ?_)
  refine L.supp _ _ _ (fun x3 h3 => ?_)
  exact h _ (c11u_strataSupp_of_inRange s x1 x2 x3 h1 h2 h3).2.2.2

/-- the affine functionals of the strata: tower property through the three binomials -/
theorem c11u_drawStrataU_affine (L : Lawful E) (s : Scores) (α β γ δ c : ℚ) :
    drawStrataU (exRng E) s (fun a => α * (a.hardPos : ℚ) + β * (a.easyPos : ℚ) +
        γ * (a.hardNeg : ℚ) + δ * (a.easyNeg : ℚ) + c) =
      α * (s.pos.length : ℚ) + β * (s.easyPos : ℚ) + γ * (s.neg.length : ℚ) +
        δ * (s.easyNeg : ℚ) + c := by
  obtain ⟨p0, p1⟩ := c11p_posNegRatio_bounds s
  obtain ⟨q0, q1⟩ := c11u_easyPos_bounds s
  obtain ⟨r0, r1⟩ := c11u_easyNeg_bounds s
  obtain ⟨m1, m2, m3, -⟩ := C11_mean_identities s
  rw [c11u_drawStrataU_ex]
  -- innermost: affine in e2
  have st3 : ∀ b e1 : Nat, E (.binomial (s.nbAll - b) s.easyNegRatio none) (fun x3 =>
      α * (((b - e1 : Nat)) : ℚ) + β * (e1 : ℚ) + γ * (((s.nbAll - b) - x3.headD 0 : Nat) : ℚ) +
        δ * ((x3.headD 0 : Nat) : ℚ) + c) =
      (δ - γ) * (((s.nbAll - b : Nat) : ℚ) * s.easyNegRatio) +
        (α * (((b - e1 : Nat)) : ℚ) + β * (e1 : ℚ) + γ * ((s.nbAll - b : Nat) : ℚ) + c) := by
    intro b e1
    refine L.binAffine _ _ r0 r1 _ _ _ (fun x3 h3 => ?_)
    have := (binomial_none_range h3).1
    rw [Nat.cast_sub this]; ring
  have st2 : ∀ b : Nat, E (.binomial b s.easyPosRatio none) (fun x2 =>
      (δ - γ) * (((s.nbAll - b : Nat) : ℚ) * s.easyNegRatio) +
        (α * (((b - x2.headD 0 : Nat)) : ℚ) + β * ((x2.headD 0 : Nat) : ℚ) +
          γ * ((s.nbAll - b : Nat) : ℚ) + c)) =
      (β - α) * ((b : ℚ) * s.easyPosRatio) +
        ((δ - γ) * (((s.nbAll - b : Nat) : ℚ) * s.easyNegRatio) + α * (b : ℚ) +
          γ * ((s.nbAll - b : Nat) : ℚ) + c) := by
    intro b
    refine L.binAffine _ _ q0 q1 _ _ _ (fun x2 h2 => ?_)
    have := (binomial_none_range h2).1
    rw [Nat.cast_sub this]; ring
  simp only [st3, st2]
  rw [L.binAffine _ _ p0 p1
    ((β - α) * s.easyPosRatio + α - (δ - γ) * s.easyNegRatio - γ)
    ((δ - γ) * ((s.nbAll : ℚ) * s.easyNegRatio) + γ * (s.nbAll : ℚ) + c) _ (fun x1 h1 => by
      have := (binomial_none_range h1).1
      rw [Nat.cast_sub this]; ring)]
  have hN : (s.nbAll : ℚ) = (s.nbAllPos : ℚ) + (s.nbAllNeg : ℚ) := by
    rw [nbAll_split]; push_cast; ring
  have hP : (s.nbAllPos : ℚ) = (s.easyPos : ℚ) + (s.pos.length : ℚ) := by
    unfold Scores.nbAllPos; push_cast; ring
  have hQ : (s.nbAllNeg : ℚ) = (s.easyNeg : ℚ) + (s.neg.length : ℚ) := by
    unfold Scores.nbAllNeg; push_cast; ring
  rw [m1]
  rw [hN]
  linear_combination (β - α) * m2 + (δ - γ) * m3 + α * hP + γ * hQ



theorem c11u_choice_feasible {n k : Nat} (h : n = 0 → k = 0) :
    (Req.choice n (some k) true).feasible = true := by
  rw [← c11p_WF_eq_feasible]; exact c11p_choice_WF h

theorem c11u_singlePassReq_feasible (size n : Nat) : (singlePassReq size n).feasible = true := by
  rw [← c11p_WF_eq_feasible]; exact c11p_singlePassReq_WF size n

/-! ### replacement: `choice(n, size=m, replace=True)` -/

theorem c11u_choice_length (L : Lawful E) (n m : Nat) (h : n = 0 → m = 0) (g : Nat → ℚ) :
    E (.choice n (some m) true) (fun d => g d.length) = g m := by
  rw [L.supp _ _ (fun _ => g m) (fun x hx => by rw [(choice_range hx).1]; rfl),
    L.norm _ _ (c11u_choice_feasible h)]

/-! ### single pass: `np.repeat(np.arange(n), counts)` -/

theorem c11u_count_repeatArange (a i : Nat) (cs : List Nat) :
    (repeatArange a cs).count (a + i) = cs.getD i 0 := by
  induction cs generalizing a i with
  | nil => simp [repeatArange]
  | cons c cs ih =>
    simp only [repeatArange, List.count_append, List.count_replicate]
    cases i with
    | zero =>
      have h0 : (repeatArange (a + 1) cs).count a = 0 := by
        apply List.count_eq_zero_of_not_mem
        intro hm
        have := (mem_repeatArange hm).1
        omega
      simp [h0]
    | succ i =>
      have : a + (i + 1) = (a + 1) + i := by omega
      rw [this, ih]
      simp
      omega

theorem c11u_count_repeatIdx (i : Nat) (cs : List Nat) : (repeatIdx cs).count i = cs.getD i 0 := by
  have := c11u_count_repeatArange 0 i cs
  rwa [Nat.zero_add] at this

theorem c11u_length_repeatArange (a : Nat) (cs : List Nat) :
    (repeatArange a cs).length = cs.sum := by
  induction cs generalizing a with
  | nil => rfl
  | cons c cs ih => simp [repeatArange, ih]

theorem c11u_sum_getD (cs : List Nat) :
    ((cs.sum : Nat) : ℚ) = ∑ i ∈ Finset.range cs.length, ((cs.getD i 0 : Nat) : ℚ) := by
  induction cs with
  | nil => simp
  | cons c cs ih =>
    rw [List.length_cons, Finset.sum_range_succ', List.sum_cons]
    push_cast
    rw [ih]
    simp [add_comm]


/-! ### the two parts of `_sample_indices` under expectations -/

theorem c11u_replacementPart_ex (E : Oracle) (s : Scores) (a : Strata) (k : Indices → ℚ) :
    replacementPartM (exRng E) s a k =
      E (.choice s.pos.length (some a.hardPos) true) (fun d1 =>
        E (.choice s.neg.length (some a.hardNeg) true) (fun d2 =>
          k ⟨d1, d2, a.easyPos, a.easyNeg⟩)) := rfl

theorem c11u_singlePassPartU_ex (E : Oracle) (s : Scores) (a : Strata) (k : Indices → ℚ) :
    singlePassPartU (exRng E) s a k =
      E (singlePassReq s.pos.length a.hardPos) (fun c1 =>
        E (singlePassReq s.neg.length a.hardNeg) (fun c2 =>
          k ⟨repeatIdx c1, repeatIdx c2, a.easyPos, a.easyNeg⟩)) := rfl

/-- the part of the program after the strata are fixed -/
def partU (E : Oracle) (s : Scores) (singlePass : Bool) (a : Strata) : Ex Indices :=
  if singlePass then singlePassPartU (exRng E) s a else replacementPartM (exRng E) s a

theorem c11u_sampleIndicesU_ex (E : Oracle) (s : Scores) (byLabel singlePass : Bool)
    (k : Indices → ℚ) :
    sampleIndicesU (exRng E) s byLabel singlePass k =
      strataForU (exRng E) s byLabel (fun a => partU E s singlePass a k) := by
  cases singlePass <;> rfl

theorem c11u_strataForU_true (E : Oracle) (s : Scores) (k : Strata → ℚ) :
    strataForU (exRng E) s true k = k ⟨s.pos.length, s.neg.length, s.easyPos, s.easyNeg⟩ := rfl

theorem c11u_strataForU_false (E : Oracle) (s : Scores) (k : Strata → ℚ) :
    strataForU (exRng E) s false k = drawStrataU (exRng E) s k := rfl

theorem c11u_strataSupp_source (s : Scores) :
    StrataSupp s ⟨s.pos.length, s.neg.length, s.easyPos, s.easyNeg⟩ := by
  refine ⟨?_, fun h => h, fun h => h⟩
  show s.pos.length + s.easyPos + s.neg.length + s.easyNeg = s.nbAll
  simp only [Scores.nbAll, Scores.nbEasy, Scores.nbHard]; omega

/-- **Tower property.**  If, for all stratum sizes that can occur, the expectation of `k` given
the strata is affine in the four stratum sizes, then the overall expectation is the same affine
function of the SOURCE's stratum sizes — stratified or not, single-pass or not. -/
theorem c11u_sampleIndicesU_affine (L : Lawful E) (s : Scores) (byLabel singlePass : Bool)
    (k : Indices → ℚ) (α β γ δ c : ℚ)
    (h : ∀ a, StrataSupp s a → partU E s singlePass a k =
      α * (a.hardPos : ℚ) + β * (a.easyPos : ℚ) + γ * (a.hardNeg : ℚ) + δ * (a.easyNeg : ℚ) + c) :
    sampleIndicesU (exRng E) s byLabel singlePass k =
      α * (s.pos.length : ℚ) + β * (s.easyPos : ℚ) + γ * (s.neg.length : ℚ) +
        δ * (s.easyNeg : ℚ) + c := by
  rw [c11u_sampleIndicesU_ex]
  cases byLabel
  · rw [c11u_strataForU_false, c11u_drawStrataU_congr L s _ _ h, c11u_drawStrataU_affine L]
  · rw [c11u_strataForU_true, h _ (c11u_strataSupp_source s)]

/-- what does not depend on the negative indices is decided by the first request of the part
(the easy counts are passed through) -/
theorem c11u_partU_pos (L : Lawful E) (s : Scores) (singlePass : Bool) (a : Strata)
    (ha : StrataSupp s a) (g : List Nat → Nat → Nat → ℚ) :
    partU E s singlePass a (fun r => g r.idxPos r.easyPos r.easyNeg) =
      if singlePass then E (singlePassReq s.pos.length a.hardPos)
        (fun c => g (repeatIdx c) a.easyPos a.easyNeg)
      else E (.choice s.pos.length (some a.hardPos) true) (fun d => g d a.easyPos a.easyNeg) := by
  cases singlePass
  · show replacementPartM (exRng E) s a _ = E (.choice s.pos.length (some a.hardPos) true) _
    rw [c11u_replacementPart_ex]
    refine congrArg _ (funext fun d1 => ?_)
    exact L.norm _ (g d1 a.easyPos a.easyNeg) (c11u_choice_feasible ha.2.2)
  · show singlePassPartU (exRng E) s a _ = E (singlePassReq s.pos.length a.hardPos) _
    rw [c11u_singlePassPartU_ex]
    refine congrArg _ (funext fun c1 => ?_)
    exact L.norm _ (g (repeatIdx c1) a.easyPos a.easyNeg) (c11u_singlePassReq_feasible _ _)

/-- what does not depend on the positive indices is decided by the second request of the part -/
theorem c11u_partU_neg (L : Lawful E) (s : Scores) (singlePass : Bool) (a : Strata)
    (ha : StrataSupp s a) (g : List Nat → Nat → Nat → ℚ) :
    partU E s singlePass a (fun r => g r.idxNeg r.easyPos r.easyNeg) =
      if singlePass then E (singlePassReq s.neg.length a.hardNeg)
        (fun c => g (repeatIdx c) a.easyPos a.easyNeg)
      else E (.choice s.neg.length (some a.hardNeg) true) (fun d => g d a.easyPos a.easyNeg) := by
  cases singlePass
  · show replacementPartM (exRng E) s a _ = E (.choice s.neg.length (some a.hardNeg) true) _
    rw [c11u_replacementPart_ex]
    exact L.norm _ (E (.choice s.neg.length (some a.hardNeg) true)
      (fun d => g d a.easyPos a.easyNeg)) (c11u_choice_feasible ha.2.1)
  · show singlePassPartU (exRng E) s a _ = E (singlePassReq s.neg.length a.hardNeg) _
    rw [c11u_singlePassPartU_ex]
    exact L.norm _ (E (singlePassReq s.neg.length a.hardNeg)
      (fun c => g (repeatIdx c) a.easyPos a.easyNeg)) (c11u_singlePassReq_feasible _ _)

/-- the easy counts are passed through -/
theorem c11u_partU_easy (L : Lawful E) (s : Scores) (singlePass : Bool) (a : Strata)
    (ha : StrataSupp s a) (g : Nat → Nat → ℚ) :
    partU E s singlePass a (fun r => g r.easyPos r.easyNeg) = g a.easyPos a.easyNeg := by
  have := c11u_partU_pos L s singlePass a ha (fun _ e1 e2 => g e1 e2)
  cases singlePass
  · exact this.trans (L.norm _ _ (c11u_choice_feasible ha.2.1))
  · exact this.trans (L.norm _ _ (c11u_singlePassReq_feasible _ _))

/-! ### means of one request -/

/-- single pass, one multiplicity: `Bin(m, 1/n)` for `m < 100`, `Poisson(m/n)` otherwise -/
theorem c11u_singlePass_component (L : Lawful E) (n m i : Nat) (hi : i < n) :
    E (singlePassReq n m) (fun c => ((c.getD i 0 : Nat) : ℚ)) = (m : ℚ) / (n : ℚ) := by
  have hmax : max n 1 = n := by omega
  have hn0 : (0 : ℚ) < (n : ℚ) := by exact_mod_cast (by omega : 0 < n)
  have hp0 : (0 : ℚ) ≤ 1 / (n : ℚ) := by positivity
  have hp1 : 1 / (n : ℚ) ≤ 1 := by
    rw [div_le_one hn0]; exact_mod_cast (by omega : 1 ≤ n)
  by_cases h : m < 100
  · simp only [singlePassReq, hmax, h, if_true]
    rw [L.binomial_vec m _ n i hp0 hp1 hi]; ring
  · simp only [singlePassReq, hmax, h, if_false]
    rw [L.poisson_vec _ n i (by positivity) hi]; ring

theorem c11u_singlePass_count (L : Lawful E) (n m i : Nat) (hi : i < n) :
    E (singlePassReq n m) (fun c => (((repeatIdx c).count i : Nat) : ℚ)) = (m : ℚ) / (n : ℚ) := by
  simp only [c11u_count_repeatIdx]
  exact c11u_singlePass_component L n m i hi

theorem c11u_singlePassReq_length {n m : Nat} {x : List Nat}
    (h : (singlePassReq n m).inRange x = true) : x.length = n := by
  by_cases hm : m < 100
  · simp only [singlePassReq, hm, if_true] at h
    exact sized_length (Or.inl ⟨_, _, rfl⟩) h
  · simp only [singlePassReq, hm, if_false] at h
    exact sized_length (Or.inr (Or.inl ⟨_, rfl⟩)) h

theorem c11u_singlePass_length (L : Lawful E) (n m : Nat) (h : n = 0 → m = 0) :
    E (singlePassReq n m) (fun c => (((repeatIdx c).length : Nat) : ℚ)) = (m : ℚ) := by
  rw [L.supp _ _ (fun c => ∑ i ∈ Finset.range n, ((c.getD i 0 : Nat) : ℚ)) (fun x hx => by
    show (((repeatArange 0 x).length : Nat) : ℚ) = _
    rw [c11u_length_repeatArange, c11u_sum_getD, c11u_singlePassReq_length hx])]
  rw [L.sum, Finset.sum_congr rfl (fun i hi =>
    c11u_singlePass_component L n m i (Finset.mem_range.mp hi))]
  rw [Finset.sum_const, Finset.card_range, nsmul_eq_mul]
  by_cases hn : n = 0
  · rw [h hn, hn]; simp
  · have : (n : ℚ) ≠ 0 := by exact_mod_cast hn
    field_simp

end SA.C11U
