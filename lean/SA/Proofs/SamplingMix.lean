/-
Non-vacuity of `SA.C11U.Lawful`: the concrete oracle `simpleOracle` (finite mixtures, see
SA/Model/SamplingM.lean) satisfies every law, vector cases included.
-/
import SA.Proofs.SamplingM
import Mathlib.Data.Rat.Floor
import Mathlib.Tactic.Linarith

namespace SA.C11U
open SA

/-! ### weighted sums -/

theorem c11u_mixSum_nil (f : List Nat → ℚ) : mixSum [] f = 0 := rfl

theorem c11u_mixSum_cons (w : ℚ) (x : List Nat) (m : List (ℚ × List Nat)) (f : List Nat → ℚ) :
    mixSum ((w, x) :: m) f = w * f x + mixSum m f := by
  simp [mixSum]

theorem c11u_mixSum_lin (m : List (ℚ × List Nat)) (f g : List Nat → ℚ) (a b : ℚ) :
    mixSum m (fun x => a * f x + b * g x) = a * mixSum m f + b * mixSum m g := by
  induction m with
  | nil => simp [c11u_mixSum_nil]
  | cons wx m ih =>
    obtain ⟨w, x⟩ := wx
    rw [c11u_mixSum_cons, c11u_mixSum_cons, c11u_mixSum_cons, ih]; ring

theorem c11u_mixSum_congr (m : List (ℚ × List Nat)) (f g : List Nat → ℚ)
    (h : ∀ wx ∈ m, wx.1 = 0 ∨ f wx.2 = g wx.2) : mixSum m f = mixSum m g := by
  induction m with
  | nil => rfl
  | cons wx m ih =>
    obtain ⟨w, x⟩ := wx
    rw [c11u_mixSum_cons, c11u_mixSum_cons, ih (fun y hy => h y (List.mem_cons_of_mem _ hy))]
    rcases h (w, x) List.mem_cons_self with h0 | h0
    · simp only at h0; rw [h0]; ring
    · simp only at h0; rw [h0]

theorem c11u_mixSum_const (m : List (ℚ × List Nat)) (c : ℚ) :
    mixSum m (fun _ => c) = c * (m.map (·.1)).sum := by
  induction m with
  | nil => simp [c11u_mixSum_nil]
  | cons wx m ih =>
    obtain ⟨w, x⟩ := wx
    rw [c11u_mixSum_cons, ih]; simp; ring

/-! ### the two-point mixture -/

theorem c11u_floor_toNat (m : ℚ) (hm : 0 ≤ m) :
    ((m.floor.toNat : Nat) : ℚ) ≤ m ∧ m < ((m.floor.toNat : Nat) : ℚ) + 1 := by
  have h0 : 0 ≤ ⌊m⌋ := Int.floor_nonneg.mpr hm
  have e : m.floor = ⌊m⌋ := rfl
  have hc : ((m.floor.toNat : Nat) : ℚ) = ((⌊m⌋ : ℤ) : ℚ) := by
    rw [e]
    have : ((⌊m⌋.toNat : Nat) : ℤ) = ⌊m⌋ := Int.toNat_of_nonneg h0
    exact_mod_cast this
  rw [hc]
  exact ⟨Int.floor_le m, Int.lt_floor_add_one m⟩

theorem c11u_twoPoint_weights (m : ℚ) (len : Nat) : ((twoPoint m len).map (·.1)).sum = 1 := by
  simp [twoPoint]

theorem c11u_twoPoint_mean (m : ℚ) (len : Nat) (f : List Nat → ℚ)
    (hv : ∀ a : Nat, f (List.replicate len a) = (a : ℚ)) :
    mixSum (twoPoint m len) f = m := by
  simp only [twoPoint, c11u_mixSum_cons, c11u_mixSum_nil, hv]
  push_cast; ring

/-- the points of a two-point mixture that carry weight: `⌊m⌋`, and `⌊m⌋ + 1` when `⌊m⌋ < m` -/
theorem c11u_twoPoint_supp (m : ℚ) (hm : 0 ≤ m) (len : Nat) (P : Nat → Prop)
    (hlo : P m.floor.toNat) (hhi : ((m.floor.toNat : Nat) : ℚ) < m → P (m.floor.toNat + 1))
    (wx : ℚ × List Nat) (h : wx ∈ twoPoint m len) :
    wx.1 = 0 ∨ ∃ v, P v ∧ wx.2 = List.replicate len v := by
  simp only [twoPoint, List.mem_cons, List.not_mem_nil, or_false] at h
  rcases h with rfl | rfl
  · exact Or.inr ⟨_, hlo, rfl⟩
  · by_cases h0 : m - ((m.floor.toNat : Nat) : ℚ) = 0
    · exact Or.inl h0
    · refine Or.inr ⟨_, hhi ?_, rfl⟩
      have := (c11u_floor_toNat m hm).1
      exact lt_of_le_of_ne this (fun e => h0 (by rw [e]; ring))

theorem c11u_inRange_replicate_binomial (n : Nat) (p : ℚ) (size : Option Nat) (v : Nat)
    (h : binomialInSupport n p v = true) :
    (Req.binomial n p size).inRange (List.replicate (sizeLen size) v) = true := by
  simp only [Req.inRange, List.length_replicate, beq_self_eq_true, Bool.true_and,
    List.all_eq_true]
  intro x hx
  rw [List.eq_of_mem_replicate hx]; exact h

theorem c11u_inRange_replicate_poisson (lam : ℚ) (size : Option Nat) (v : Nat)
    (h : 0 < lam ∨ v = 0) :
    (Req.poisson lam size).inRange (List.replicate (sizeLen size) v) = true := by
  simp only [Req.inRange, List.length_replicate, beq_self_eq_true, Bool.true_and,
    List.all_eq_true]
  intro x hx
  rw [List.eq_of_mem_replicate hx]
  simpa using h

/-- binomial: both points of the two-point mixture around `n p` lie in the support -/
theorem c11u_binomial_points (n : Nat) (p : ℚ) (h0 : 0 ≤ p) (h1 : p ≤ 1) :
    binomialInSupport n p ((n : ℚ) * p).floor.toNat = true ∧
    (((((n : ℚ) * p).floor.toNat : Nat) : ℚ) < (n : ℚ) * p →
      binomialInSupport n p (((n : ℚ) * p).floor.toNat + 1) = true) := by
  have hn0 : (0 : ℚ) ≤ (n : ℚ) := by exact_mod_cast Nat.zero_le n
  have hm0 : 0 ≤ (n : ℚ) * p := mul_nonneg hn0 h0
  have hmn : (n : ℚ) * p ≤ n := by nlinarith
  obtain ⟨f1, f2⟩ := c11u_floor_toNat _ hm0
  set lo := ((n : ℚ) * p).floor.toNat with hlo
  simp only [binomialInSupport, Bool.and_eq_true, Bool.or_eq_true, decide_eq_true_eq, beq_iff_eq]
  refine ⟨⟨⟨?_, ?_⟩, ?_⟩, fun hlt => ⟨⟨?_, ?_⟩, ?_⟩⟩
  · have : (lo : ℚ) ≤ n := le_trans f1 hmn
    exact_mod_cast this
  · by_cases hp : 0 < p
    · exact Or.inl hp
    · right
      have : p = 0 := le_antisymm (not_lt.mp hp) h0
      rw [this, mul_zero] at f1
      have : (lo : ℚ) ≤ (0 : Nat) := by exact_mod_cast f1
      have := Nat.cast_le.mp this
      omega
  · by_cases hp : p < 1
    · exact Or.inl hp
    · right
      have : p = 1 := le_antisymm h1 (not_lt.mp hp)
      rw [this, mul_one] at f1 f2
      have a : lo ≤ n := by exact_mod_cast f1
      have b : n < lo + 1 := by exact_mod_cast f2
      omega
  · have : (lo : ℚ) < n := lt_of_lt_of_le hlt hmn
    have : lo < n := by exact_mod_cast this
    omega
  · left
    by_contra hp
    have : p = 0 := le_antisymm (not_lt.mp hp) h0
    rw [this, mul_zero] at hlt
    have : (0 : ℚ) ≤ (lo : ℚ) := by exact_mod_cast Nat.zero_le lo
    linarith
  · left
    by_contra hp
    have : p = 1 := le_antisymm h1 (not_lt.mp hp)
    rw [this, mul_one] at hlt f2
    have a : lo < n := by exact_mod_cast hlt
    have b : n < lo + 1 := by exact_mod_cast f2
    omega

/-! ### `choice` -/

theorem c11u_inRange_replicate_choice (n : Nat) (size : Option Nat) (j : Nat) (hj : j < n) :
    (Req.choice n size true).inRange (List.replicate (sizeLen size) j) = true := by
  simp only [Req.inRange, List.length_replicate, beq_self_eq_true, Bool.true_and, Bool.true_or,
    Bool.and_true, List.all_eq_true, decide_eq_true_eq]
  intro x hx
  rw [List.eq_of_mem_replicate hx]; exact hj

theorem c11u_inRange_replicate_choiceFrom (n : Nat) (size : Option Nat) (j : Nat) (hj : j < n) :
    (Req.choiceFrom n size true).inRange (List.replicate (sizeLen size) j) = true := by
  simp only [Req.inRange, List.length_replicate, beq_self_eq_true, Bool.true_and, Bool.true_or,
    Bool.and_true, List.all_eq_true, decide_eq_true_eq]
  intro x hx
  rw [List.eq_of_mem_replicate hx]; exact hj

theorem c11u_inRange_range_choice (n : Nat) (size : Option Nat) (b : Bool) (h : sizeLen size ≤ n) :
    (Req.choice n size b).inRange (List.range (sizeLen size)) = true := by
  simp only [Req.inRange, List.length_range, beq_self_eq_true, Bool.true_and, Bool.and_eq_true,
    List.all_eq_true, decide_eq_true_eq, List.mem_range, Bool.or_eq_true]
  exact ⟨fun x hx => by omega, Or.inr List.nodup_range⟩

theorem c11u_inRange_range_choiceFrom (n : Nat) (size : Option Nat) (b : Bool)
    (h : sizeLen size ≤ n) :
    (Req.choiceFrom n size b).inRange (List.range (sizeLen size)) = true := by
  simp only [Req.inRange, List.length_range, beq_self_eq_true, Bool.true_and, Bool.and_eq_true,
    List.all_eq_true, decide_eq_true_eq, List.mem_range, Bool.or_eq_true]
  exact ⟨fun x hx => by omega, Or.inr List.nodup_range⟩

/-- uniform weights over `range n` add up to one -/
theorem c11u_uniform_total (n len : Nat) (hn : 0 < n) :
    (((List.range n).map (fun j => ((1 : ℚ) / (n : ℚ), List.replicate len j))).map (·.1)).sum
      = 1 := by
  have h0 : (n : ℚ) ≠ 0 := by exact_mod_cast (by omega : n ≠ 0)
  simp only [List.map_map, Function.comp_def, List.map_const', List.length_range,
    List.sum_replicate, nsmul_eq_mul]
  field_simp

theorem c11u_sum_ite (n j : Nat) (c : ℚ) :
    ((List.range n).map (fun j' => if j' = j then c else 0)).sum = if j < n then c else 0 := by
  induction n with
  | zero => simp
  | succ n ih =>
    rw [List.range_succ, List.map_append, List.sum_append, ih]
    by_cases h1 : j < n
    · have : ¬ (n = j) := by omega
      simp [h1, this, Nat.lt_succ_of_lt h1]
    · by_cases h2 : n = j
      · subst h2; simp
      · have : ¬ (j < n + 1) := by omega
        simp [h1, h2, this]

/-- in the uniform mixture of constant sequences of length `k`, `j < n` occurs `k / n` times -/
theorem c11u_uniform_count (n k j : Nat) (hj : j < n) :
    mixSum ((List.range n).map (fun j' => ((1 : ℚ) / (n : ℚ), List.replicate k j')))
      (fun x => ((x.count j : Nat) : ℚ)) = (k : ℚ) / (n : ℚ) := by
  simp only [mixSum, List.map_map, Function.comp_def, List.count_replicate]
  have e : (fun j' : Nat => (1 : ℚ) / (n : ℚ) * (((if (j' == j) = true then k else 0 : Nat)) : ℚ))
      = (fun j' => if j' = j then (k : ℚ) / (n : ℚ) else 0) := by
    funext j'
    by_cases h : j' = j
    · simp [h]; ring
    · simp [h]
  rw [e, c11u_sum_ite, if_pos hj]

/-! ### the concrete oracle is lawful -/

theorem c11u_simpleMix_supp (r : Req) (wx : ℚ × List Nat) (h : wx ∈ simpleMix r) :
    wx.1 = 0 ∨ r.inRange wx.2 = true := by
  cases r with
  | binomial n p size =>
    by_cases hp : 0 ≤ p ∧ p ≤ 1
    · simp only [simpleMix, hp, and_self, if_true] at h
      obtain ⟨b1, b2⟩ := c11u_binomial_points n p hp.1 hp.2
      rcases c11u_twoPoint_supp _ (mul_nonneg (by exact_mod_cast Nat.zero_le n) hp.1) _
        (fun v => binomialInSupport n p v = true) b1 b2 wx h with h0 | ⟨v, hv, e⟩
      · exact Or.inl h0
      · right; rw [e]; exact c11u_inRange_replicate_binomial n p size v hv
    · simp only [simpleMix, hp, if_false, List.not_mem_nil] at h
  | poisson lam size =>
    by_cases hl : 0 ≤ lam
    · simp only [simpleMix, hl, if_true] at h
      obtain ⟨f1, f2⟩ := c11u_floor_toNat lam hl
      rcases c11u_twoPoint_supp lam hl _ (fun v => 0 < lam ∨ v = 0)
        (by
          by_cases h0 : 0 < lam
          · exact Or.inl h0
          · right
            have : lam = 0 := le_antisymm (not_lt.mp h0) hl
            have f1' : ((lam.floor.toNat : Nat) : ℚ) ≤ 0 := le_trans f1 (le_of_eq this)
            have : ((lam.floor.toNat : Nat) : ℚ) ≤ (0 : Nat) := by exact_mod_cast f1'
            have := Nat.cast_le.mp this
            omega)
        (fun hlt => Or.inl (lt_of_le_of_lt (by exact_mod_cast Nat.zero_le _) hlt))
        wx h with h0 | ⟨v, hv, e⟩
      · exact Or.inl h0
      · right; rw [e]; exact c11u_inRange_replicate_poisson lam size v hv
    · simp only [simpleMix, hl, if_false, List.not_mem_nil] at h
  | choice n size repl =>
    cases repl
    · by_cases hs : sizeLen size ≤ n
      · simp only [simpleMix, hs, if_true, List.mem_singleton] at h
        right; rw [h]; exact c11u_inRange_range_choice n size false hs
      · simp only [simpleMix, hs, if_false, List.not_mem_nil] at h
    · by_cases hs : sizeLen size = 0
      · simp only [simpleMix, hs, if_true, List.mem_singleton] at h
        right; rw [h]
        simp [Req.inRange, hs]
      · simp only [simpleMix, hs, if_false, List.mem_map, List.mem_range] at h
        obtain ⟨j, hj, rfl⟩ := h
        right; exact c11u_inRange_replicate_choice n size j hj
  | choiceFrom n size repl =>
    cases repl
    · by_cases hs : sizeLen size ≤ n
      · simp only [simpleMix, hs, if_true, List.mem_singleton] at h
        right; rw [h]; exact c11u_inRange_range_choiceFrom n size false hs
      · simp only [simpleMix, hs, if_false, List.not_mem_nil] at h
    · by_cases hs : sizeLen size = 0
      · simp only [simpleMix, hs, if_true, List.mem_singleton] at h
        right; rw [h]
        simp [Req.inRange, hs]
      · simp only [simpleMix, hs, if_false, List.mem_map, List.mem_range] at h
        obtain ⟨j, hj, rfl⟩ := h
        right; exact c11u_inRange_replicate_choiceFrom n size j hj
  | normal k => right; rfl

theorem c11u_simpleMix_total (r : Req) (hf : r.feasible = true) :
    ((simpleMix r).map (·.1)).sum = 1 := by
  cases r with
  | binomial n p size =>
    simp only [Req.feasible, Bool.and_eq_true, decide_eq_true_eq] at hf
    simp only [simpleMix, hf, and_self, if_true]
    exact c11u_twoPoint_weights _ _
  | poisson lam size =>
    simp only [Req.feasible, decide_eq_true_eq] at hf
    simp only [simpleMix, hf, if_true]
    exact c11u_twoPoint_weights _ _
  | choice n size repl =>
    simp only [Req.feasible, Bool.and_eq_true, Bool.or_eq_true, decide_eq_true_eq,
      beq_iff_eq] at hf
    cases repl
    · have hs : sizeLen size ≤ n := by simpa using hf.2
      simp [simpleMix, hs]
    · by_cases hs : sizeLen size = 0
      · simp [simpleMix, hs]
      · simp only [simpleMix, hs, if_false]
        exact c11u_uniform_total n _ (by rcases hf.1 with h | h; exact h; exact absurd h hs)
  | choiceFrom n size repl =>
    simp only [Req.feasible, Bool.and_eq_true, Bool.or_eq_true, decide_eq_true_eq,
      beq_iff_eq] at hf
    cases repl
    · have hs : sizeLen size ≤ n := by simpa using hf.2
      simp [simpleMix, hs]
    · by_cases hs : sizeLen size = 0
      · simp [simpleMix, hs]
      · simp only [simpleMix, hs, if_false]
        exact c11u_uniform_total n _ (by rcases hf.1 with h | h; exact h; exact absurd h hs)
  | normal k => simp [simpleMix]

/-- **Non-vacuity of the laws**: the concrete mixture oracle satisfies all of `Lawful`
(scalar and vector binomial, Poisson, and `choice` with replacement included). -/
theorem c11u_simpleOracle_lawful : Lawful simpleOracle where
  lin r f g a b := c11u_mixSum_lin _ f g a b
  norm r c hf := by
    show mixSum (simpleMix r) (fun _ => c) = c
    rw [c11u_mixSum_const, c11u_simpleMix_total r hf, mul_one]
  supp r f g h := by
    refine c11u_mixSum_congr _ f g (fun wx hwx => ?_)
    rcases c11u_simpleMix_supp r wx hwx with h0 | h0
    · exact Or.inl h0
    · exact Or.inr (h _ h0)
  binomial_scalar n p h0 h1 := by
    simp only [simpleOracle, ofMix, simpleMix, h0, h1, and_self, if_true]
    exact c11u_twoPoint_mean _ _ _ (fun a => by simp [sizeLen])
  binomial_vec n p size i h0 h1 hi := by
    simp only [simpleOracle, ofMix, simpleMix, h0, h1, and_self, if_true]
    exact c11u_twoPoint_mean _ _ _ (fun a => by simp [sizeLen, hi])
  poisson_vec lam size i h0 hi := by
    simp only [simpleOracle, ofMix, simpleMix, h0, if_true]
    exact c11u_twoPoint_mean _ _ _ (fun a => by simp [sizeLen, hi])
  choice_count n k j hj := by
    by_cases hk : k = 0
    · subst hk; simp [simpleOracle, ofMix, simpleMix, sizeLen, mixSum]
    · simp only [simpleOracle, ofMix, simpleMix, sizeLen, hk, if_false]
      exact c11u_uniform_count n k j hj

end SA.C11U
