/-
Helper lemmas for `showbias` on the scripted RNG (SA/Model/ShowbiasScript.lean):
* the `score_object` built from the frame's rows: its group list, group matrices and overall
  matrix are those of the table model SA/Model/Showbias.lean,
* `GroupScores.bootstrap_sample` started in ANY state of a script (the C12 theorems are stated for
  a run that starts at the beginning of the script),
* the loop of `bootstrap_metric` (`gDrawMapped`),
* NaN limits of `bootstrapCI` / `ciComponent`.
-/
import SA.Model.ShowbiasScript
import SA.Theorems.C12Ties
import SA.Theorems.C18
import SA.Proofs.RocCIScript

namespace SA

/-! ### group ids -/

theorem c18s_code_lt (rows : List SbRow) (k : List Nat) (hk : k ∈ groupKeys rows) :
    sbKeyCode rows k < (groupKeys rows).length :=
  List.findIdx_lt_length_of_exists ⟨k, hk, by simp⟩

theorem c18s_code_get (rows : List SbRow) (k : List Nat) (hk : k ∈ groupKeys rows) :
    (groupKeys rows)[sbKeyCode rows k]'(c18s_code_lt rows k hk) = k := by
  have h := List.findIdx_getElem (xs := groupKeys rows) (p := (· == k)) (w := c18s_code_lt rows k hk)
  exact beq_iff_eq.mp h

theorem c18s_row_key_mem (rows : List SbRow) (r : SbRow) (hr : r ∈ rows) :
    r.key ∈ groupKeys rows := ((C18_rows rows).1 r.key).mpr ⟨r, hr, rfl⟩

/-- the id of `groupKeys[i]` is `i` -/
theorem c18s_code_of_get (rows : List SbRow) (i : Nat) (hi : i < (groupKeys rows).length) :
    sbKeyCode rows (groupKeys rows)[i] = i := by
  have hnd := (C18_rows rows).2.2.1
  have hk : (groupKeys rows)[i] ∈ groupKeys rows := List.getElem_mem _
  have h1 := c18s_code_get rows _ hk
  exact (List.Nodup.getElem_inj_iff hnd).mp h1

/-- on keys of the frame the id identifies the key -/
theorem c18s_code_eq_iff (rows : List SbRow) (k : List Nat) (i : Nat)
    (hi : i < (groupKeys rows).length) (hk : k ∈ groupKeys rows) :
    sbKeyCode rows k = i ↔ k = (groupKeys rows)[i] := by
  constructor
  · intro h
    have := c18s_code_get rows k hk
    simp only [h] at this
    exact this.symm
  · intro h
    rw [h]; exact c18s_code_of_get rows i hi

/-! ### the object built from the rows -/

/-- the labelled positives / negatives handed to the constructor -/
def sbPosPairs (rows : List SbRow) : List (Rat × Nat) :=
  ((sbSamples rows).filter (fun s => s.1)).map (·.2)
def sbNegPairs (rows : List SbRow) : List (Rat × Nat) :=
  ((sbSamples rows).filter (fun s => !s.1)).map (·.2)

theorem sbObject_eq (cfg : Cfg) (rows : List SbRow) :
    sbObject cfg rows = GScores.make (sbPosPairs rows) (sbNegPairs rows) cfg none false := rfl

theorem sbObject_inv (cfg : Cfg) (rows : List SbRow) : GInv (sbObject cfg rows) :=
  (C12_from_labels (sbSamples rows) cfg).2.2

theorem sbObject_cfg (cfg : Cfg) (rows : List SbRow) : (sbObject cfg rows).cfg = cfg :=
  c12_make_cfg _ _ _ _ _

theorem sbObject_perm (cfg : Cfg) (rows : List SbRow) :
    (sbObject cfg rows).pos.Perm (sbPosPairs rows) ∧ (sbObject cfg rows).neg.Perm (sbNegPairs rows) :=
  c12_make_perm _ _ _ _ _

theorem c18s_codes_sorted_id (l : List Nat) (h : l.Pairwise (· < ·)) : c12_codes l = l := by
  induction l with
  | nil => rfl
  | cons a t ih =>
    rw [List.pairwise_cons] at h
    have : c12_codes (a :: t) = c12_insertU a (c12_codes t) := rfl
    rw [this, ih h.2]
    cases t with
    | nil => rfl
    | cons b t' =>
      have hab : a < b := h.1 b List.mem_cons_self
      simp only [c12_insertU, hab, if_true]

theorem c18s_range_sorted (n : Nat) : (List.range n).Pairwise (· < ·) := by
  simpa using List.pairwise_lt_range (n := n)

theorem c18s_label_mem (rows : List SbRow) (c : Nat) :
    c ∈ ((sbPosPairs rows ++ sbNegPairs rows).map (·.2)) ↔ ∃ r ∈ rows, sbKeyCode rows r.key = c := by
  simp only [sbPosPairs, sbNegPairs, sbSamples, List.map_append, List.map_map, List.mem_append,
    List.mem_map, List.mem_filter, Function.comp_def]
  constructor
  · rintro (⟨s, ⟨⟨r, hr, rfl⟩, _⟩, rfl⟩ | ⟨s, ⟨⟨r, hr, rfl⟩, _⟩, rfl⟩) <;> exact ⟨r, hr, rfl⟩
  · rintro ⟨r, hr, rfl⟩
    by_cases hp : r.isPos = true
    · exact Or.inl ⟨_, ⟨⟨r, hr, rfl⟩, hp⟩, rfl⟩
    · exact Or.inr ⟨_, ⟨⟨r, hr, rfl⟩, by simpa using hp⟩, rfl⟩

/-- **the group list**: the ids `0 .. G-1`, i.e. `groups[i]` stands for the `i`-th row label -/
theorem sbObject_groups (cfg : Cfg) (rows : List SbRow) :
    (sbObject cfg rows).groups = List.range (groupKeys rows).length := by
  rw [sbObject_eq, c12_make_groups_none]
  unfold c12_defaultGroups
  rw [← c18s_codes_sorted_id (List.range _) (c18s_range_sorted _)]
  apply c12_codes_ext
  intro c
  rw [c18s_label_mem, List.mem_range]
  constructor
  · rintro ⟨r, hr, rfl⟩
    exact c18s_code_lt rows r.key (c18s_row_key_mem rows r hr)
  · intro hc
    have hk : (groupKeys rows)[c] ∈ groupKeys rows := List.getElem_mem _
    obtain ⟨r, hr, hkey⟩ := ((C18_rows rows).1 _).mp hk
    exact ⟨r, hr, by rw [hkey]; exact c18s_code_of_get rows c hc⟩

theorem c18s_countCM_perm {p p' n n' : List Rat} (hp : p.Perm p') (hn : n.Perm n') (a b : Nat)
    (cfg : Cfg) (t : ERat) : countCM p n a b cfg t = countCM p' n' a b cfg t := by
  unfold countCM
  rw [hp.countP_eq, hp.countP_eq, hn.countP_eq, hn.countP_eq]

/-- the scores of the class carrying id `i` are the scores of the rows with key `k` -/
theorem c18s_filter_pairs (rows rs : List SbRow) (k : List Nat) (i : Nat)
    (h : ∀ r ∈ rs, (sbKeyCode rows r.key == i) = (r.key == k)) :
    c12_filterGroup (((rs.map fun r => (r.isPos, r.score, sbKeyCode rows r.key)).filter
      (fun s => s.1)).map (·.2)) i = sbPos (rs.filter (fun r => r.key == k)) ∧
    c12_filterGroup (((rs.map fun r => (r.isPos, r.score, sbKeyCode rows r.key)).filter
      (fun s => !s.1)).map (·.2)) i = sbNeg (rs.filter (fun r => r.key == k)) := by
  induction rs with
  | nil => exact ⟨rfl, rfl⟩
  | cons r rs ih =>
    obtain ⟨ih1, ih2⟩ := ih (fun r' hr' => h r' (List.mem_cons_of_mem _ hr'))
    have hr := h r List.mem_cons_self
    unfold c12_filterGroup sbPos sbNeg at *
    cases hp : r.isPos <;> cases hk : (r.key == k) <;>
      simp only [List.map_cons, List.filter_cons, hp, hk, hr ▸ hk, Bool.not_true, Bool.not_false,
        Bool.false_eq_true, if_false, if_true, ih1, ih2, and_self]

theorem c18s_filterGroup_pairs (rows : List SbRow) (i : Nat) (hi : i < (groupKeys rows).length) :
    c12_filterGroup (sbPosPairs rows) i = sbPos (groupRows rows (groupKeys rows)[i]) ∧
    c12_filterGroup (sbNegPairs rows) i = sbNeg (groupRows rows (groupKeys rows)[i]) := by
  apply c18s_filter_pairs rows rows
  intro r hr
  have := c18s_code_eq_iff rows r.key i hi (c18s_row_key_mem rows r hr)
  by_cases hc : sbKeyCode rows r.key = i
  · have e1 : (sbKeyCode rows r.key == i) = true := beq_iff_eq.mpr hc
    have e2 : (r.key == (groupKeys rows)[i]) = true := beq_iff_eq.mpr (this.mp hc)
    rw [e1, e2]
  · have hk : ¬ r.key = (groupKeys rows)[i] := fun h' => hc (this.mpr h')
    have e1 : (sbKeyCode rows r.key == i) = false := beq_eq_false_iff_ne.mpr hc
    have e2 : (r.key == (groupKeys rows)[i]) = false := beq_eq_false_iff_ne.mpr hk
    rw [e1, e2]

/-- **a group matrix of the object** is the matrix counted from the rows with that key -/
theorem sbObject_groupCM (cfg : Cfg) (rows : List SbRow) (i : Nat)
    (hi : i < (groupKeys rows).length) (t : ERat) :
    ((sbObject cfg rows).groupScores i).cm t = groupCM cfg rows (groupKeys rows)[i] t := by
  have hinv := sbObject_inv cfg rows
  obtain ⟨pp, pn⟩ := sbObject_perm cfg rows
  obtain ⟨fp, fn⟩ := c18s_filterGroup_pairs rows i hi
  rw [cm_eq_countCM_of_sorted _ (c12_groupScores_sorted hinv i).1 (c12_groupScores_sorted hinv i).2]
  show countCM (c12_filterGroup _ i) (c12_filterGroup _ i) 0 0 (sbObject cfg rows).cfg t = _
  rw [sbObject_cfg]
  unfold groupCM rowsCM
  rw [← fp, ← fn]
  exact c18s_countCM_perm ((pp.filter _).map _) ((pn.filter _).map _) 0 0 cfg t

theorem c18s_pairs_fst (rows : List SbRow) :
    (sbPosPairs rows).map (·.1) = sbPos rows ∧ (sbNegPairs rows).map (·.1) = sbNeg rows := by
  unfold sbPosPairs sbNegPairs sbSamples sbPos sbNeg
  constructor
  · rw [List.filter_map, List.map_map, List.map_map]; rfl
  · rw [List.filter_map, List.map_map, List.map_map]; rfl

/-- **the overall matrix of the object** is the matrix counted from all rows -/
theorem sbObject_overallCM (cfg : Cfg) (rows : List SbRow) (t : ERat) :
    (sbObject cfg rows).overallCm t = rowsCM cfg rows t := by
  obtain ⟨pp, pn⟩ := sbObject_perm cfg rows
  obtain ⟨e1, e2⟩ := c18s_pairs_fst rows
  rw [C12_overall_cm _ (sbObject_inv cfg rows), sbObject_cfg]
  unfold rowsCM
  rw [← e1, ← e2]
  exact c18s_countCM_perm (pp.map _) (pn.map _) 0 0 cfg t

/-! ### any admissible order of the rows -/

/-- `g` is an admissible `score_object` for the rows: an admissible joint order of the object the
model builds (same pairs per class, sorted by score, same flags and group list) -/
def SbObjectOf (cfg : Cfg) (rows : List SbRow) (g : GScores) : Prop :=
  c12_TieEq (sbObject cfg rows) g

theorem SbObjectOf.self (cfg : Cfg) (rows : List SbRow) : SbObjectOf cfg rows (sbObject cfg rows) :=
  c12_TieEq.refl (sbObject_inv cfg rows)

theorem SbObjectOf.groups_eq {cfg : Cfg} {rows : List SbRow} {g : GScores}
    (h : SbObjectOf cfg rows g) : g.groups = List.range (groupKeys rows).length := by
  rw [c12_TieEq.groups h, sbObject_groups]

/-- **the point estimate**: the (G, T) array of group metrics is the un-normalised table -/
theorem c18s_groupMetric_eq {cfg : Cfg} {rows : List SbRow} {g : GScores}
    (h : SbObjectOf cfg rows g) (metric : SbMetric) (ts : List ERat) :
    sbGroupMetric metric ts g =
      (groupKeys rows).map fun k => ts.map fun t => sbEntry metric cfg rows k t := by
  unfold sbGroupMetric
  rw [h.groups_eq]
  apply List.ext_getElem
  · simp
  · intro i h1 h2
    simp only [List.length_map, List.length_range] at h1
    simp only [List.getElem_map, List.getElem_range]
    apply List.map_congr_left
    intro t _
    rw [c12_tieEq_groupScores h, sbObject_groupCM cfg rows i h1]
    rfl

theorem c18s_overallMetric_eq {cfg : Cfg} {rows : List SbRow} {g : GScores}
    (h : SbObjectOf cfg rows g) (metric : SbMetric) (ts : List ERat) :
    sbOverallMetric metric ts g = ts.map fun t => sbOverall metric cfg rows t := by
  unfold sbOverallMetric
  apply List.map_congr_left
  intro t _
  rw [(c12_tieEq_obs h).overallCm, sbObject_overallCM]
  rfl

/-! ### `GroupScores.bootstrap_sample` from any state -/

/-- the built-in sampling configurations that `showbias` can run without raising by design:
smoothing off (rejected for `GroupScores`), replacement / single-pass / dynamic sampling (proportion
sampling is rejected), a known stratification, at least one group -/
def SbRunnable (g : GScores) (c : GBootCfg) : Prop :=
  c.smoothing = false ∧ (c.method = .replacement ∨ c.method = .singlePass ∨ c.method = .dynamic) ∧
  c.strat ≠ .unknown ∧ g.groups ≠ []

theorem c18s_bootstrap_eq (g : GScores) (c : GBootCfg) (h : SbRunnable g c) (st : RngState) :
    ∃ sp : Bool, g.bootstrapSample c st = g.resample c.strat sp st := by
  obtain ⟨hs, hm, _, _⟩ := h
  unfold GScores.bootstrapSample
  rw [hs]
  simp only [Bool.false_eq_true, if_false]
  have : g.samplingMethod c = .replacement ∨ g.samplingMethod c = .singlePass := by
    unfold GScores.samplingMethod
    rcases hm with hm | hm | hm
    · left; simp [hm]
    · right; simp [hm]
    · simp only [hm, ne_eq, not_true_eq_false, if_false]
      split
      · left; rfl
      · split
        · left; rfl
        · right; rfl
  rcases this with e | e
  · exact ⟨false, by rw [e]⟩
  · exact ⟨true, by rw [e]⟩

/-- what ONE `resample` started in any state returns: always a sample carrying the source's group
list and flags; on an in-support run a sorted object whose pairs are pairs of the source's same
class (labels attached) -/
theorem c18s_resample_facts (g : GScores) (hg : GInv g) (strat : Strat) (hs : strat ≠ .unknown)
    (hne : g.groups ≠ []) (sp : Bool) (st : RngState) :
    ∃ smp, (g.resample strat sp st).1 = .ok smp ∧ smp.groups = g.groups ∧ smp.cfg = g.cfg ∧
      ((g.resample strat sp st).2.ok = true →
        st.ok = true ∧ GInv smp ∧ (∀ p ∈ smp.pos, p ∈ g.pos) ∧ (∀ p ∈ smp.neg, p ∈ g.neg)) := by
  have idx : ∀ b : Bool, ∃ smp,
      (Except.ok (GScores.make
        (c12_gatherPairs g.pos (sampleIndices g.toScores b sp st).1.idxPos)
        (c12_gatherPairs g.neg (sampleIndices g.toScores b sp st).1.idxNeg) g.cfg (some g.groups) sp) :
        Except Err GScores) = .ok smp ∧ smp.groups = g.groups ∧ smp.cfg = g.cfg ∧
      ((sampleIndices g.toScores b sp st).2.ok = true →
        st.ok = true ∧ GInv smp ∧ (∀ p ∈ smp.pos, p ∈ g.pos) ∧ (∀ p ∈ smp.neg, p ∈ g.neg)) := by
    intro b
    refine ⟨_, rfl, c12_make_groups_some _ _ _ _ _, c12_make_cfg _ _ _ _ _, fun hok => ?_⟩
    obtain ⟨h0, f⟩ := sampleIndices_spec g.toScores b sp st hok
    have hpr : ∀ i ∈ (sampleIndices g.toScores b sp st).1.idxPos, i < g.pos.length := fun i hi => by
      simpa [GScores.toScores] using f.posRange i hi
    have hnr : ∀ i ∈ (sampleIndices g.toScores b sp st).1.idxNeg, i < g.neg.length := fun i hi => by
      simpa [GScores.toScores] using f.negRange i hi
    have hp := c12_make_perm (c12_gatherPairs g.pos (sampleIndices g.toScores b sp st).1.idxPos)
      (c12_gatherPairs g.neg (sampleIndices g.toScores b sp st).1.idxNeg) g.cfg (some g.groups) sp
    refine ⟨h0, ?_, fun p hp' => c12_gatherPairs_mem _ _ hpr p (hp.1.mem_iff.mp hp'),
      fun p hp' => c12_gatherPairs_mem _ _ hnr p (hp.2.mem_iff.mp hp')⟩
    apply c12_make_inv
    intro hsp
    exact ⟨c12_gatherPairs_sorted _ _ hg.1 (f.sortedIdx hsp).1 hpr,
      c12_gatherPairs_sorted _ _ hg.2 (f.sortedIdx hsp).2 hnr⟩
  cases strat with
  | none => exact idx false
  | byLabel => exact idx true
  | unknown => exact absurd rfl hs
  | byGroup =>
    have he : g.groups.isEmpty = false := by
      cases hgr : g.groups with
      | nil => exact absurd hgr hne
      | cons a l => rfl
    simp only [GScores.resample, he, Bool.false_eq_true, if_false]
    refine ⟨_, rfl, c12_make_groups_some _ _ _ _ _, c12_make_cfg _ _ _ _ _, fun hok => ?_⟩
    obtain ⟨h0, l1, l2, _⟩ := c12_byGroupLoop_spec g sp g.groups st hok
    have hp := c12_make_perm (c12_byGroupLoop g sp g.groups st).1.1
      (c12_byGroupLoop g sp g.groups st).1.2 g.cfg (some g.groups) false
    exact ⟨h0, c12_make_inv _ _ _ _ _ (fun hh => absurd hh (by simp)),
      fun p hp' => (l1 p (hp.1.mem_iff.mp hp')).1, fun p hp' => (l2 p (hp.2.mem_iff.mp hp')).1⟩

/-- the same for `bootstrap_sample` with a runnable configuration -/
theorem c18s_sample_facts (g : GScores) (hg : GInv g) (c : GBootCfg) (h : SbRunnable g c)
    (st : RngState) :
    ∃ smp, (g.bootstrapSample c st).1 = .ok smp ∧ smp.groups = g.groups ∧ smp.cfg = g.cfg ∧
      ((g.bootstrapSample c st).2.ok = true →
        st.ok = true ∧ GInv smp ∧ (∀ p ∈ smp.pos, p ∈ g.pos) ∧ (∀ p ∈ smp.neg, p ∈ g.neg)) := by
  obtain ⟨sp, e⟩ := c18s_bootstrap_eq g c h st
  rw [e]
  exact c18s_resample_facts g hg c.strat h.2.2.1 h.2.2.2 sp st

/-! ### the trace only grows -/

theorem c18s_byGroupLoop_suffix (g : GScores) (sp : Bool) (grps : List Nat) (st : RngState) :
    st.trace <:+ (c12_byGroupLoop g sp grps st).2.trace := by
  induction grps generalizing st with
  | nil => exact List.suffix_refl _
  | cons grp rest ih =>
    simp only [c12_byGroupLoop]
    exact (c16s_sampleIndices_suffix _ _ _ st).trans (ih _)

theorem c18s_sample_suffix (g : GScores) (c : GBootCfg) (st : RngState) :
    st.trace <:+ (g.bootstrapSample c st).2.trace := by
  have key : ∀ sp, st.trace <:+ (g.resample c.strat sp st).2.trace := by
    intro sp
    unfold GScores.resample
    cases c.strat with
    | none => exact c16s_sampleIndices_suffix _ _ _ st
    | byLabel => exact c16s_sampleIndices_suffix _ _ _ st
    | byGroup =>
      simp only
      split <;> exact c18s_byGroupLoop_suffix g sp g.groups st
    | unknown => exact List.suffix_refl _
  unfold GScores.bootstrapSample
  split
  · exact List.suffix_refl _
  · cases g.samplingMethod c with
    | replacement => exact key false
    | singlePass => exact key true
    | proportion => exact List.suffix_refl _
    | unknown => exact List.suffix_refl _
    | dynamic => exact List.suffix_refl _

/-- the requests one `GroupScores.bootstrap_sample` call issues when started in state `st` -/
def gCallRequests (g : GScores) (c : GBootCfg) (st : RngState) : List Req :=
  (g.bootstrapSample c st).2.requests.drop st.requests.length

theorem c18s_sample_requests (g : GScores) (c : GBootCfg) (st : RngState) :
    (g.bootstrapSample c st).2.requests = st.requests ++ gCallRequests g c st := by
  obtain ⟨t, ht⟩ := c16s_requests_prefix_of_suffix (c18s_sample_suffix g c st)
  unfold gCallRequests
  rw [← ht, List.drop_left]

theorem c18s_states_succ (g : GScores) (c : GBootCfg) (n : Nat) (st : RngState) :
    gSampleStates g c (n + 1) st = (g.bootstrapSample c (gSampleStates g c n st)).2 := by
  induction n generalizing st with
  | zero => rfl
  | succ n ih =>
    show gSampleStates g c (n + 1) (g.bootstrapSample c st).2 = _
    rw [ih]
    rfl

/-- the requests after `n` consecutive calls: those before, followed by the requests of call
`0, 1, ..., n-1`, each started in the state its predecessor left -/
theorem c18s_states_requests (g : GScores) (c : GBootCfg) (n : Nat) (st : RngState) :
    (gSampleStates g c n st).requests =
      st.requests ++ ((List.range n).map fun j => gCallRequests g c (gSampleStates g c j st)).flatten := by
  induction n with
  | zero => simp [gSampleStates]
  | succ n ih =>
    rw [c18s_states_succ, c18s_sample_requests, ih, List.range_succ, List.map_append,
      List.flatten_append, List.append_assoc]
    simp

/-! ### the loop of `bootstrap_metric` -/

/-- a loop that returns ends in the state after `n` consecutive `bootstrap_sample` calls -/
theorem c18s_draw_state {α : Type} (g : GScores) (c : GBootCfg) (k : GScores → α) (n : Nat)
    (st : RngState) (l : List α) (h : (gDrawMapped g c k n st).1 = .ok l) :
    (gDrawMapped g c k n st).2 = gSampleStates g c n st ∧ l.length = n := by
  induction n generalizing st l with
  | zero =>
    simp only [gDrawMapped] at h
    injection h with h
    subst h
    exact ⟨rfl, rfl⟩
  | succ n ih =>
    rcases hb : g.bootstrapSample c st with ⟨r, st1⟩
    cases r with
    | error e => simp only [gDrawMapped, hb] at h; cases h
    | ok smp =>
      rcases hd : gDrawMapped g c k n st1 with ⟨r2, st2⟩
      cases r2 with
      | error e => simp only [gDrawMapped, hb, hd] at h; cases h
      | ok rest =>
        simp only [gDrawMapped, hb, hd] at h
        injection h with h
        subst h
        obtain ⟨hs, hl⟩ := ih st1 rest (by rw [hd])
        rw [hd] at hs
        simp only at hs
        refine ⟨?_, by simp only [List.length_cons, hl]⟩
        simp only [gDrawMapped, hb, hd, gSampleStates]
        exact hs

theorem c18s_states_ok_mono (g : GScores) (hg : GInv g) (c : GBootCfg) (h : SbRunnable g c)
    (n : Nat) (st : RngState) (hok : (gSampleStates g c n st).ok = true) : st.ok = true := by
  induction n generalizing st with
  | zero => exact hok
  | succ n ih =>
    have h1 := ih (g.bootstrapSample c st).2 hok
    obtain ⟨_, _, _, _, hf⟩ := c18s_sample_facts g hg c h st
    exact (hf h1).1

/-- **the loop on a runnable configuration.**  It returns `n` replicates — `k` of `n` samples —
and the state after `n` draws, whatever the script; every sample carries the source's group list
and flags; and if the run is in-support (`ok` at the end) every sample is sorted and consists of
pairs of the source's same class. -/
theorem c18s_draw_spec {α : Type} (g : GScores) (hg : GInv g) (c : GBootCfg) (h : SbRunnable g c)
    (k : GScores → α) (n : Nat) (st : RngState) :
    ∃ smps : List GScores, smps.length = n ∧
      gDrawMapped g c k n st = (.ok (smps.map k), gSampleStates g c n st) ∧
      (∀ smp ∈ smps, smp.groups = g.groups ∧ smp.cfg = g.cfg) ∧
      ((gSampleStates g c n st).ok = true → ∀ smp ∈ smps,
        GInv smp ∧ (∀ p ∈ smp.pos, p ∈ g.pos) ∧ (∀ p ∈ smp.neg, p ∈ g.neg)) := by
  induction n generalizing st with
  | zero => exact ⟨[], rfl, rfl, by simp, by simp⟩
  | succ n ih =>
    obtain ⟨smp, hsmp, hgr, hcf, hf⟩ := c18s_sample_facts g hg c h st
    obtain ⟨smps, hl, hd, hall, hin⟩ := ih (g.bootstrapSample c st).2
    rcases hb : g.bootstrapSample c st with ⟨r, st1⟩
    rw [hb] at hsmp hd hin hf
    simp only at hsmp hd hin hf
    subst hsmp
    refine ⟨smp :: smps, by simp [hl], ?_, ?_, ?_⟩
    · simp only [gDrawMapped, hb, hd, List.map_cons, gSampleStates]
    · intro x hx
      rcases List.mem_cons.mp hx with rfl | hx
      · exact ⟨hgr, hcf⟩
      · exact hall x hx
    · intro hok x hx
      simp only [gSampleStates, hb] at hok
      rcases List.mem_cons.mp hx with rfl | hx
      · exact (hf (c18s_states_ok_mono g hg c h n st1 hok)).2
      · exact hin hok x hx

/-! ### arrays: cells, rows, normalisation -/

theorem c18s_cell_range (G T : Nat) (f : Nat → Nat → Option Rat) (i j : Nat) (hi : i < G)
    (hj : j < T) :
    sbCellAt ((List.range G).map fun i => (List.range T).map fun j => f i j) i j = f i j := by
  simp [sbCellAt, List.getD_eq_getElem?_getD, hi, hj]

theorem c18s_cell_map (keys : List (List Nat)) (ts : List ERat) (f : List Nat → ERat → Option Rat)
    (i j : Nat) (hi : i < keys.length) (hj : j < ts.length) :
    sbCellAt (keys.map fun k => ts.map fun t => f k t) i j = f keys[i] ts[j] := by
  simp [sbCellAt, List.getD_eq_getElem?_getD, hi, hj]

theorem c18s_norm_row (ts : List ERat) (e : ERat → Option Rat) (D : Nat → Option Rat)
    (D' : ERat → Option Rat) (h : ∀ j (hj : j < ts.length), D j = D' ts[j]) :
    (List.range (ts.map e).length).map (fun j => divNorm ((ts.map e).getD j none) (D j)) =
      ts.map fun t => divNorm (e t) (D' t) := by
  apply List.ext_getElem
  · simp
  · intro j h1 h2
    simp only [List.length_map, List.length_range] at h1
    simp only [List.getElem_map, List.getElem_range, List.getD_eq_getElem?_getD, List.getElem?_map,
      List.getElem?_eq_getElem h1, Option.map_some, Option.getD_some, h j h1]

theorem c18s_colAt (keys : List (List Nat)) (ts : List ERat) (f : List Nat → ERat → Option Rat)
    (j : Nat) (hj : j < ts.length) :
    sbColAt (keys.map fun k => ts.map fun t => f k t) j = keys.map fun k => f k ts[j] := by
  unfold sbColAt
  rw [List.map_map]
  apply List.map_congr_left
  intro k _
  simp [List.getD_eq_getElem?_getD, hj]

/-- **the value frame** is the table of SA/Model/Showbias.lean: `_apply_normalization` on the
(G, T) array of group metrics gives, cell by cell, the normalised entry `sbCellVal` -/
theorem c18s_values_eq (metric : SbMetric) (cfg : Cfg) (mode : NormMode) (rows : List SbRow)
    (ts : List ERat) :
    sbNormalise mode ((groupKeys rows).map fun k => ts.map fun t => sbEntry metric cfg rows k t)
        (ts.map fun t => sbOverall metric cfg rows t) =
      (groupKeys rows).map fun k => ts.map fun t => sbCellVal metric cfg mode rows k t := by
  cases mode with
  | none => rfl
  | byOverall =>
    simp only [sbNormalise, List.map_map, Function.comp_def]
    apply List.map_congr_left
    intro k _
    exact c18s_norm_row ts _ _ (fun t => sbOverall metric cfg rows t) (fun j hj => by
      simp [List.getD_eq_getElem?_getD, hj])
  | byMin =>
    simp only [sbNormalise, List.map_map, Function.comp_def]
    apply List.map_congr_left
    intro k _
    exact c18s_norm_row ts _ _ (fun t => colMin (sbRawCol metric cfg rows t)) (fun j hj => by
      rw [c18s_colAt _ _ _ j hj]; rfl)

theorem c18s_normalise_length (mode : NormMode) (a : List (List (Option Rat)))
    (ov : List (Option Rat)) :
    (sbNormalise mode a ov).length = a.length ∧
    ∀ i, ((sbNormalise mode a ov).getD i []).length = (a.getD i []).length := by
  cases mode <;> simp only [sbNormalise, List.length_map, true_and] <;> intro i
  · trivial
  all_goals
    by_cases hi : i < a.length
    · simp [List.getD_eq_getElem?_getD, hi]
    · simp [List.getD_eq_getElem?_getD, hi]

/-! ### NaN limits -/

theorem c18s_quantile_none (vals : List (Option Rat)) (q : Rat) :
    quantileLinear vals q = none ↔ vals.filterMap id = [] := by
  have hl : (sortQ (vals.filterMap id)).length = (vals.filterMap id).length :=
    (sortQ_perm _).length_eq
  by_cases h0 : (vals.filterMap id).length = 0
  · have e : quantileLinear vals q = none := by
      unfold quantileLinear
      exact if_pos (hl.trans h0)
    exact ⟨fun _ => List.eq_nil_of_length_eq_zero h0, fun _ => e⟩
  · have e : quantileLinear vals q ≠ none := by
      intro h
      simp only [quantileLinear] at h
      rw [if_neg (fun h' => h0 (hl.symm.trans h'))] at h
      cases h
    exact ⟨fun h => absurd h e, fun h => absurd (by rw [h]; rfl) h0⟩

theorem c18s_fracLe_none (vals : List (Option Rat)) (th : Rat) :
    fracLe vals th = none ↔ vals.filterMap id = [] := by
  by_cases h0 : (vals.filterMap id).length = 0
  · have e : fracLe vals th = none := by
      unfold fracLe
      exact if_pos h0
    exact ⟨fun _ => List.eq_nil_of_length_eq_zero h0, fun _ => e⟩
  · have e : fracLe vals th ≠ none := by
      intro h
      simp only [fracLe] at h
      rw [if_neg h0] at h
      cases h
    exact ⟨fun h => absurd h e, fun h => absurd (by rw [h]; rfl) h0⟩

/-- a limit of `utils.bootstrap_ci` is NaN exactly when the component has no finite replicate —
both limits together, for every method -/
theorem c18s_bootstrapCI_nan (nrm : Normal) (p15 : Rat → Rat) (m : BootMethod)
    (vals : List (Option Rat)) (th al : Rat) :
    ((bootstrapCI nrm p15 m vals th al).1 = none ↔ vals.filterMap id = []) ∧
    ((bootstrapCI nrm p15 m vals th al).2 = none ↔ vals.filterMap id = []) := by
  have key : ∀ m', m' ≠ BootMethod.quantile →
      ((bootstrapCI nrm p15 m' vals th al).1 = none ↔ vals.filterMap id = []) ∧
      ((bootstrapCI nrm p15 m' vals th al).2 = none ↔ vals.filterMap id = []) := by
    intro m' hm'
    cases hf : fracLe vals th with
    | none =>
      have he := (c18s_fracLe_none vals th).mp hf
      cases m' with
      | quantile => exact absurd rfl hm'
      | bc => simp only [bootstrapCI, hf, he, and_self]
      | bca => simp only [bootstrapCI, hf, he, and_self]
    | some p0 =>
      cases m' with
      | quantile => exact absurd rfl hm'
      | bc => simp only [bootstrapCI, hf, c18s_quantile_none, and_self]
      | bca => simp only [bootstrapCI, hf, c18s_quantile_none, and_self]
  cases m with
  | quantile => simp only [bootstrapCI, c18s_quantile_none, and_self]
  | bc => exact key .bc (by simp)
  | bca => exact key .bca (by simp)

/-! ### a metric that is NaN on the data is NaN on every sample of the data -/

/-- the denominator of a rate as a count (`none` for the count metrics, which are never NaN) -/
def sbDen (m : CM) : SbMetric → Option Nat
  | .tp | .tn | .fp | .fn | .p | .n | .top | .ton | .pop => none
  | .accuracy | .errorRate | .topr | .tonr => some (m.tp + m.fn + m.fp + m.tn)
  | .tpr | .fnr => some (m.tp + m.fn)
  | .tnr | .fpr => some (m.fp + m.tn)
  | .ppv | .fdr => some (m.tp + m.fp)
  | .npv | .for_ => some (m.fn + m.tn)

theorem c18s_divQ_none (a b : Rat) : divQ a b = none ↔ b = 0 := by
  unfold divQ
  by_cases h : b = 0
  · simp [h]
  · simp [h]

/-- a metric is NaN exactly when its denominator count is 0 -/
theorem c18s_metric_none_iff (m : CM) (metric : SbMetric) :
    m.toQ.sbMetric metric = none ↔ sbDen m metric = some 0 := by
  cases metric <;>
    simp only [CMq.sbMetric, CM.toQ, sbDen, CMq.accuracy, CMq.errorRate, CMq.tpr, CMq.tnr, CMq.fpr,
      CMq.fnr, CMq.topr, CMq.tonr, CMq.ppv, CMq.npv, CMq.fdr, CMq.for_, CMq.p, CMq.n, CMq.top,
      CMq.ton, CMq.pop, Option.map_eq_none_iff, c18s_divQ_none, reduceCtorEq, Option.some.injEq] <;>
    norm_cast

/-- every cell that is empty in `m` is empty in `m'` -/
def CM.Dominated (m' m : CM) : Prop :=
  (m.tp = 0 → m'.tp = 0) ∧ (m.fn = 0 → m'.fn = 0) ∧ (m.fp = 0 → m'.fp = 0) ∧ (m.tn = 0 → m'.tn = 0)

theorem c18s_metric_nan_mono (m m' : CM) (h : CM.Dominated m' m) (metric : SbMetric)
    (hn : m.toQ.sbMetric metric = none) : m'.toQ.sbMetric metric = none := by
  rw [c18s_metric_none_iff] at hn ⊢
  obtain ⟨h1, h2, h3, h4⟩ := h
  cases metric <;> simp only [sbDen, reduceCtorEq, Option.some.injEq] at hn ⊢ <;> omega

theorem c18s_countP_zero_of_subset {l l' : List Rat} (f : Rat → Bool) (hs : ∀ x ∈ l', x ∈ l)
    (h : l.countP f = 0) : l'.countP f = 0 := by
  rw [List.countP_eq_zero] at h ⊢
  exact fun a ha => h a (hs a ha)

/-- the group matrix of a sample whose labelled pairs are pairs of the source is dominated by the
source's group matrix -/
theorem c18s_group_cm_dominated (g smp : GScores) (hg : GInv g) (hs : GInv smp)
    (hcfg : smp.cfg = g.cfg) (hp : ∀ p ∈ smp.pos, p ∈ g.pos) (hn : ∀ p ∈ smp.neg, p ∈ g.neg)
    (grp : Nat) (t : ERat) :
    CM.Dominated ((smp.groupScores grp).cm t) ((g.groupScores grp).cm t) := by
  rw [cm_eq_countCM_of_sorted _ (c12_groupScores_sorted hg grp).1 (c12_groupScores_sorted hg grp).2,
    cm_eq_countCM_of_sorted _ (c12_groupScores_sorted hs grp).1 (c12_groupScores_sorted hs grp).2]
  have sp : ∀ x ∈ c12_filterGroup smp.pos grp, x ∈ c12_filterGroup g.pos grp := fun x hx =>
    c12_mem_filterGroup.mpr (hp _ (c12_mem_filterGroup.mp hx))
  have sn : ∀ x ∈ c12_filterGroup smp.neg grp, x ∈ c12_filterGroup g.neg grp := fun x hx =>
    c12_mem_filterGroup.mpr (hn _ (c12_mem_filterGroup.mp hx))
  show CM.Dominated (countCM (c12_filterGroup smp.pos grp) (c12_filterGroup smp.neg grp) 0 0 smp.cfg t)
    (countCM (c12_filterGroup g.pos grp) (c12_filterGroup g.neg grp) 0 0 g.cfg t)
  rw [hcfg]
  simp only [CM.Dominated, countCM, Nat.add_zero]
  exact ⟨c18s_countP_zero_of_subset _ sp, c18s_countP_zero_of_subset _ sp,
    c18s_countP_zero_of_subset _ sn, c18s_countP_zero_of_subset _ sn⟩

theorem c18s_filterMap_map_nil {α : Type} (l : List α) (f : α → Option Rat) :
    (l.map f).filterMap id = [] ↔ ∀ x ∈ l, f x = none := by
  induction l with
  | nil => simp
  | cons a l ih =>
    cases h : f a with
    | none => simp [h]
    | some v => simp [h]

/-- entry `[i, j]` of the group metric of an object that lists the groups `0 .. G-1` -/
theorem c18s_groupMetric_cell (metric : SbMetric) (ts : List ERat) (smp : GScores) (G : Nat)
    (hgr : smp.groups = List.range G) (i j : Nat) (hi : i < G) (hj : j < ts.length) :
    sbCellAt (sbGroupMetric metric ts smp) i j =
      ((smp.groupScores i).cm ts[j]).toQ.sbMetric metric := by
  unfold sbGroupMetric
  rw [hgr]
  simp [sbCellAt, List.getD_eq_getElem?_getD, hi, hj]

end SA
