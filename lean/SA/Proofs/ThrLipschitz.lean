/-
Lipschitz and inverse-Lipschitz bounds for threshold setting with `method = linear`
(`_invert_increasing_function` on a sorted list), in the target.

* `c06d_maxGap`, `c06d_minGap`: largest / smallest difference of consecutive list entries.
* `interp` (the linear branch) is the clamped piecewise-linear function through `(k, s[k])`:
  cell formula `c06d_interp_cell`, slope bounds `c06d_interp_lip` (upper, all targets) and
  `c06d_interp_invlip` (lower, index targets in `[0, N-1]`).
* `invertIncreasing` differs from `interp` only by the two `nextafter` sentinels
  (`c06d_invert_le_interp`, `c06d_interp_le_invert`, `c06d_invert_lip`).
* count bounds at a threshold near a returned one (`c06d_cntLe_near`, `c06d_cntLt_near`).
-/
import SA.Theorems.C06

namespace SA

/-! ### consecutive gaps -/

/-- largest difference of consecutive entries (0 for lists shorter than 2) -/
def c06d_maxGap : List ℚ → ℚ
  | a :: b :: r => max (b - a) (c06d_maxGap (b :: r))
  | _ => 0

/-- smallest difference of consecutive entries (1 for lists shorter than 2) -/
def c06d_minGap : List ℚ → ℚ
  | a :: b :: c :: r => min (b - a) (c06d_minGap (b :: c :: r))
  | a :: b :: [] => b - a
  | _ => 1

theorem c06d_maxGap_nonneg : ∀ l : List ℚ, 0 ≤ c06d_maxGap l
  | [] => le_refl _
  | [_] => le_refl _
  | _ :: b :: r => le_trans (c06d_maxGap_nonneg (b :: r)) (le_max_right _ _)

theorem c06d_gap_le_max : ∀ (l : List ℚ) (i : ℕ) (h : i + 1 < l.length),
    l[i + 1] - l[i] ≤ c06d_maxGap l
  | [], _, h => by simp at h
  | [_], _, h => by simp at h
  | a :: b :: r, 0, _ => by
    simp only [c06d_maxGap, List.getElem_cons_succ, List.getElem_cons_zero]
    exact le_max_left _ _
  | a :: b :: r, i + 1, h => by
    simp only [c06d_maxGap, List.getElem_cons_succ]
    have h' : i + 1 < (b :: r).length := by simpa using h
    exact le_trans (c06d_gap_le_max (b :: r) i h') (le_max_right _ _)

theorem c06d_min_le_gap : ∀ (l : List ℚ) (i : ℕ) (h : i + 1 < l.length),
    c06d_minGap l ≤ l[i + 1] - l[i]
  | [], _, h => by simp at h
  | [_], _, h => by simp at h
  | [a, b], 0, _ => by simp [c06d_minGap]
  | [a, b], i + 1, h => by simp at h; omega
  | a :: b :: c :: r, 0, _ => by
    simp only [c06d_minGap, List.getElem_cons_succ, List.getElem_cons_zero]
    exact min_le_left _ _
  | a :: b :: c :: r, i + 1, h => by
    simp only [c06d_minGap, List.getElem_cons_succ]
    have h' : i + 1 < (b :: c :: r).length := by simpa using h
    exact le_trans (min_le_right _ _) (c06d_min_le_gap (b :: c :: r) i h')

theorem c06d_minGap_pos : ∀ (l : List ℚ), l.Pairwise (· < ·) → 0 < c06d_minGap l
  | [], _ => by simp [c06d_minGap]
  | [_], _ => by simp [c06d_minGap]
  | [a, b], h => by
    simp only [c06d_minGap]
    have := (List.pairwise_cons.mp h).1 b (by simp)
    linarith
  | a :: b :: c :: r, h => by
    simp only [c06d_minGap]
    have h1 := (List.pairwise_cons.mp h).1 b (by simp)
    have h2 := c06d_minGap_pos (b :: c :: r) (List.pairwise_cons.mp h).2
    exact lt_min (by linarith) h2

/-- telescoping: `minGap · (b − a) ≤ l[b] − l[a] ≤ maxGap · (b − a)` -/
theorem c06d_telescope (l : List ℚ) (a : ℕ) : ∀ (d : ℕ) (h : a + d < l.length),
    c06d_minGap l * (d : ℚ) ≤ l[a + d] - l[a] ∧ l[a + d] - l[a] ≤ c06d_maxGap l * (d : ℚ) := by
  intro d
  induction d with
  | zero => intro h; simp
  | succ d ih =>
    intro h
    obtain ⟨i1, i2⟩ := ih (by omega)
    have g1 := c06d_gap_le_max l (a + d) (by omega)
    have g2 := c06d_min_le_gap l (a + d) (by omega)
    have e : l[a + (d + 1)] = l[a + d + 1] := by congr 1
    rw [e]
    push_cast
    constructor <;> linarith

/-! ### the clamped sample `S k = s[clamp k]` -/

/-- `s[clamp(k, 0, N-1)]` for an integer index -/
def c06d_S (s : List ℚ) (k : ℤ) : ℚ := s.getD (clampIdx k s.length) 0

theorem c06d_S_diff_le (s : List ℚ) (hne : s.length ≠ 0) (i j : ℤ) (hij : i ≤ j) :
    c06d_S s j - c06d_S s i ≤ c06d_maxGap s * ((j - i : ℤ) : ℚ) := by
  unfold c06d_S
  have hi := clampIdx_lt i s.length hne
  have hj := clampIdx_lt j s.length hne
  have hm := clampIdx_mono i j s.length hij
  obtain ⟨d, hd⟩ := Nat.exists_eq_add_of_le hm
  have hdle : (d : ℤ) ≤ j - i := by
    have : (clampIdx j s.length : ℤ) - (clampIdx i s.length : ℤ) ≤ j - i := by
      unfold clampIdx; omega
    omega
  rw [getD_eq s _ hi, getD_eq s _ hj]
  have ht := (c06d_telescope s (clampIdx i s.length) d (by omega)).2
  have e : s[clampIdx j s.length] = s[clampIdx i s.length + d] := by congr 1
  rw [e]
  have hdq : (d : ℚ) ≤ ((j - i : ℤ) : ℚ) := by exact_mod_cast hdle
  have := mul_le_mul_of_nonneg_left hdq (c06d_maxGap_nonneg s)
  linarith

theorem c06d_S_diff_ge (s : List ℚ) (i j : ℤ) (h0 : 0 ≤ i) (hij : i ≤ j)
    (hj : j < (s.length : ℤ)) :
    c06d_minGap s * ((j - i : ℤ) : ℚ) ≤ c06d_S s j - c06d_S s i := by
  unfold c06d_S
  obtain ⟨a, rfl⟩ := Int.eq_ofNat_of_zero_le h0
  obtain ⟨b, rfl⟩ := Int.eq_ofNat_of_zero_le (le_trans h0 hij)
  have hb : b < s.length := by exact_mod_cast hj
  have hab : a ≤ b := by exact_mod_cast hij
  have ca : clampIdx (a : ℤ) s.length = a := by unfold clampIdx; omega
  have cb : clampIdx (b : ℤ) s.length = b := by unfold clampIdx; omega
  obtain ⟨d, hd⟩ := Nat.exists_eq_add_of_le hab
  rw [ca, cb, getD_eq s a (by omega), getD_eq s b hb]
  have ht := (c06d_telescope s a d (by omega)).1
  have e : s[b] = s[a + d] := by congr 1
  rw [e]
  have : ((b : ℤ) - (a : ℤ) : ℤ) = (d : ℤ) := by omega
  rw [this]
  exact_mod_cast ht

theorem c06d_S_mono (s : List ℚ) (hs : s.Pairwise (· ≤ ·)) (hne : s.length ≠ 0) (i j : ℤ)
    (hij : i ≤ j) : c06d_S s i ≤ c06d_S s j :=
  getD_mono s hs _ _ (clampIdx_mono i j s.length hij) (clampIdx_lt j s.length hne)

/-! ### `interp` on a closed cell -/

/-- **Cell formula.** On `[k, k+1]` the linear branch is the chord through the two clamped
samples (all integers `k`, endpoints included). -/
theorem c06d_interp_cell (s : List ℚ) (k : ℤ) (x : ℚ) (h1 : (k : ℚ) ≤ x) (h2 : x ≤ (k : ℚ) + 1) :
    interp s x = ((k : ℚ) + 1 - x) * c06d_S s k + (x - (k : ℚ)) * c06d_S s (k + 1) := by
  unfold interp c06d_S
  rw [ceilQ_eq]
  have hfl : x.floor = ⌊x⌋ := rfl
  rw [hfl]
  rcases eq_or_lt_of_le h1 with he | hlt
  · -- x = k
    have hf : ⌊x⌋ = k := by rw [← he]; simp
    have hc : ⌈x⌉ = k := by rw [← he]; simp
    rw [hf, hc, ← he]; ring
  · rcases eq_or_lt_of_le h2 with he | hlt2
    · -- x = k + 1
      have hx : x = ((k + 1 : ℤ) : ℚ) := by push_cast; exact he
      have hf : ⌊x⌋ = k + 1 := by rw [hx]; simp
      have hc : ⌈x⌉ = k + 1 := by rw [hx]; simp
      rw [hf, hc, he]; push_cast; ring
    · have hf : ⌊x⌋ = k := by
        rw [Int.floor_eq_iff]; exact ⟨le_of_lt hlt, hlt2⟩
      have hc : ⌈x⌉ = k + 1 := by
        rw [Int.ceil_eq_iff]; push_cast; constructor <;> linarith
      rw [hf, hc]; push_cast; ring

theorem c06d_interp_int (s : List ℚ) (k : ℤ) : interp s (k : ℚ) = c06d_S s k := by
  rw [c06d_interp_cell s k (k : ℚ) (le_refl _) (by linarith)]; ring

/-- below index 0 the linear branch is the first sample -/
theorem c06d_interp_low (s : List ℚ) (x : ℚ) (hx : x ≤ 0) : interp s x = s.getD 0 0 := by
  have h1 := Int.le_ceil x
  have h2 := Int.ceil_lt_add_one x
  rw [c06d_interp_cell s (⌈x⌉ - 1) x (by push_cast; linarith) (by push_cast; linarith)]
  have hf : ⌈x⌉ ≤ 0 := by
    rw [Int.ceil_le]; push_cast; exact hx
  have c1 : clampIdx (⌈x⌉ - 1) s.length = 0 := by unfold clampIdx; omega
  have c2 : clampIdx (⌈x⌉ - 1 + 1) s.length = 0 := by unfold clampIdx; omega
  unfold c06d_S
  rw [c1, c2]; push_cast; ring

/-- from index `N-1` on the linear branch is the last sample -/
theorem c06d_interp_high (s : List ℚ) (hne : s.length ≠ 0) (x : ℚ)
    (hx : (s.length : ℚ) - 1 ≤ x) : interp s x = s.getD (s.length - 1) 0 := by
  have hpos : 0 < s.length := Nat.pos_of_ne_zero hne
  have h1 := Int.floor_le x
  have h2 := Int.lt_floor_add_one x
  rw [c06d_interp_cell s ⌊x⌋ x h1 (le_of_lt h2)]
  have hf : (s.length : ℤ) - 1 ≤ ⌊x⌋ := by
    rw [Int.le_floor]; push_cast; exact hx
  have c1 : clampIdx ⌊x⌋ s.length = s.length - 1 := by unfold clampIdx; omega
  have c2 : clampIdx (⌊x⌋ + 1) s.length = s.length - 1 := by unfold clampIdx; omega
  unfold c06d_S
  rw [c1, c2]; ring

/-! ### slope bounds of `interp` -/

/-- **Lipschitz upper bound (index scale).** `interp` never rises faster than the largest gap. -/
theorem c06d_interp_lip (s : List ℚ) (hne : s.length ≠ 0) (x y : ℚ) (hxy : x ≤ y) :
    interp s y - interp s x ≤ c06d_maxGap s * (y - x) := by
  have hx1 := Int.floor_le x
  have hx2 := Int.lt_floor_add_one x
  have hy1 := Int.floor_le y
  have hy2 := Int.lt_floor_add_one y
  have hM := c06d_maxGap_nonneg s
  have hij : ⌊x⌋ ≤ ⌊y⌋ := Int.floor_le_floor hxy
  have gx := c06d_S_diff_le s hne ⌊x⌋ (⌊x⌋ + 1) (by omega)
  have gy := c06d_S_diff_le s hne ⌊y⌋ (⌊y⌋ + 1) (by omega)
  have ex : ((⌊x⌋ + 1 - ⌊x⌋ : ℤ) : ℚ) = 1 := by simp
  have ey : ((⌊y⌋ + 1 - ⌊y⌋ : ℤ) : ℚ) = 1 := by simp
  rw [ex, mul_one] at gx
  rw [ey, mul_one] at gy
  rcases eq_or_lt_of_le hij with he | hlt
  · -- same cell
    rw [c06d_interp_cell s ⌊x⌋ x hx1 (le_of_lt hx2),
      c06d_interp_cell s ⌊x⌋ y (by rw [he]; exact hy1) (by rw [he]; exact le_of_lt hy2)]
    have : c06d_maxGap s * (y - x) - ((((⌊x⌋ : ℚ) + 1 - y) * c06d_S s ⌊x⌋ +
        (y - (⌊x⌋ : ℚ)) * c06d_S s (⌊x⌋ + 1)) - (((⌊x⌋ : ℚ) + 1 - x) * c06d_S s ⌊x⌋ +
        (x - (⌊x⌋ : ℚ)) * c06d_S s (⌊x⌋ + 1))) =
        (y - x) * (c06d_maxGap s - (c06d_S s (⌊x⌋ + 1) - c06d_S s ⌊x⌋)) := by ring
    have h0 : 0 ≤ (y - x) * (c06d_maxGap s - (c06d_S s (⌊x⌋ + 1) - c06d_S s ⌊x⌋)) :=
      mul_nonneg (by linarith) (by linarith)
    linarith
  · -- different cells
    have hmid := c06d_S_diff_le s hne (⌊x⌋ + 1) ⌊y⌋ (by omega)
    push_cast at hmid
    rw [c06d_interp_cell s ⌊x⌋ x hx1 (le_of_lt hx2), c06d_interp_cell s ⌊y⌋ y hy1 (le_of_lt hy2)]
    have a1 : 0 ≤ ((⌊x⌋ : ℚ) + 1 - x) * (c06d_maxGap s - (c06d_S s (⌊x⌋ + 1) - c06d_S s ⌊x⌋)) :=
      mul_nonneg (by linarith) (by linarith)
    have a2 : 0 ≤ (y - (⌊y⌋ : ℚ)) * (c06d_maxGap s - (c06d_S s (⌊y⌋ + 1) - c06d_S s ⌊y⌋)) :=
      mul_nonneg (by linarith) (by linarith)
    nlinarith [a1, a2, hmid]

/-- **Inverse Lipschitz bound (index scale).** Between index targets `0 ≤ x ≤ y ≤ N-1`, `interp`
rises at least as fast as the smallest gap. -/
theorem c06d_interp_invlip (s : List ℚ) (x y : ℚ) (hx0 : 0 ≤ x) (hxy : x ≤ y)
    (hyN : y ≤ (s.length : ℚ) - 1) :
    c06d_minGap s * (y - x) ≤ interp s y - interp s x := by
  have hx1 := Int.floor_le x
  have hx2 := Int.lt_floor_add_one x
  have hy1 := Int.floor_le y
  have hy2 := Int.lt_floor_add_one y
  have hij : ⌊x⌋ ≤ ⌊y⌋ := Int.floor_le_floor hxy
  have hfx0 : 0 ≤ ⌊x⌋ := Int.floor_nonneg.mpr hx0
  have hfyN : ⌊y⌋ ≤ (s.length : ℤ) - 1 := by
    have : (⌊y⌋ : ℚ) ≤ (((s.length : ℤ) - 1 : ℤ) : ℚ) := by push_cast; linarith
    exact_mod_cast this
  -- the last cell: either `y` is its left end, or the cell lies inside the list
  have gy : (y - (⌊y⌋ : ℚ)) * c06d_minGap s ≤
      (y - (⌊y⌋ : ℚ)) * (c06d_S s (⌊y⌋ + 1) - c06d_S s ⌊y⌋) := by
    rcases eq_or_lt_of_le hfyN with he | hlt
    · have : y = (⌊y⌋ : ℚ) := by
        have : ((⌊y⌋ : ℤ) : ℚ) = (s.length : ℚ) - 1 := by rw [he]; push_cast; ring
        linarith
      rw [← this]; simp
    · have g := c06d_S_diff_ge s ⌊y⌋ (⌊y⌋ + 1) (by omega) (by omega) (by omega)
      have e : ((⌊y⌋ + 1 - ⌊y⌋ : ℤ) : ℚ) = 1 := by simp
      rw [e, mul_one] at g
      exact mul_le_mul_of_nonneg_left g (by linarith)
  rcases eq_or_lt_of_le hij with he | hlt
  · rw [c06d_interp_cell s ⌊y⌋ x (by rw [← he]; exact hx1) (by rw [← he]; exact le_of_lt hx2),
      c06d_interp_cell s ⌊y⌋ y hy1 (le_of_lt hy2)]
    -- same cell: need the gap bound scaled by (y - x) ≤ (y - ⌊y⌋)
    rcases eq_or_lt_of_le hfyN with he' | hlt'
    · have hyy : y = (⌊y⌋ : ℚ) := by
        have : ((⌊y⌋ : ℤ) : ℚ) = (s.length : ℚ) - 1 := by rw [he']; push_cast; ring
        linarith
      have hxx : x = y := by
        have : (⌊y⌋ : ℚ) ≤ x := by rw [← he]; exact hx1
        linarith
      rw [hxx]; simp
    · have g := c06d_S_diff_ge s ⌊y⌋ (⌊y⌋ + 1) (by omega) (by omega) (by omega)
      have e : ((⌊y⌋ + 1 - ⌊y⌋ : ℤ) : ℚ) = 1 := by simp
      rw [e, mul_one] at g
      have h0 : 0 ≤ (y - x) * ((c06d_S s (⌊y⌋ + 1) - c06d_S s ⌊y⌋) - c06d_minGap s) :=
        mul_nonneg (by linarith) (by linarith)
      nlinarith [h0]
  · have gx := c06d_S_diff_ge s ⌊x⌋ (⌊x⌋ + 1) hfx0 (by omega) (by omega)
    have ex : ((⌊x⌋ + 1 - ⌊x⌋ : ℤ) : ℚ) = 1 := by simp
    rw [ex, mul_one] at gx
    have hmid := c06d_S_diff_ge s (⌊x⌋ + 1) ⌊y⌋ (by omega) (by omega) (by omega)
    push_cast at hmid
    rw [c06d_interp_cell s ⌊x⌋ x hx1 (le_of_lt hx2), c06d_interp_cell s ⌊y⌋ y hy1 (le_of_lt hy2)]
    have a1 : 0 ≤ ((⌊x⌋ : ℚ) + 1 - x) * ((c06d_S s (⌊x⌋ + 1) - c06d_S s ⌊x⌋) - c06d_minGap s) :=
      mul_nonneg (by linarith) (by linarith)
    nlinarith [a1, gy, hmid]

/-! ### `invertIncreasing` against `interp`: only the two sentinels differ -/

/-- size of the step from the first sample down to the lower sentinel -/
def c06d_jumpLo (u : Ulp) (s : List ℚ) : ℚ := s.getD 0 0 - u.down (s.getD 0 0)
/-- size of the step from the last sample up to the upper sentinel -/
def c06d_jumpHi (u : Ulp) (s : List ℚ) : ℚ :=
  u.up (s.getD (s.length - 1) 0) - s.getD (s.length - 1) 0
/-- total `nextafter` slack of the list -/
def c06d_jump (u : Ulp) (s : List ℚ) : ℚ := c06d_jumpLo u s + c06d_jumpHi u s

theorem c06d_jumpLo_pos (u : Ulp) (hu : u.Lawful) (s : List ℚ) : 0 < c06d_jumpLo u s := by
  unfold c06d_jumpLo; have := hu.down_lt (s.getD 0 0); linarith

theorem c06d_jumpHi_pos (u : Ulp) (hu : u.Lawful) (s : List ℚ) : 0 < c06d_jumpHi u s := by
  unfold c06d_jumpHi; have := hu.lt_up (s.getD (s.length - 1) 0); linarith

theorem c06d_indexTarget_le (s : List ℚ) (r : ℚ) (lc : Bool) :
    indexTarget s r lc ≤ r * (s.length : ℚ) := by
  unfold indexTarget
  have hN : (0 : ℚ) ≤ (s.length : ℚ) := by positivity
  have hinv : (0 : ℚ) ≤ 1 / (s.length : ℚ) := by positivity
  apply mul_le_mul_of_nonneg_right _ hN
  cases lc <;> simp only [Bool.false_eq_true, if_false, if_true] <;> linarith

theorem c06d_indexTarget_ge (s : List ℚ) (hne : s.length ≠ 0) (r : ℚ) (lc : Bool) :
    r * (s.length : ℚ) - 1 ≤ indexTarget s r lc := by
  unfold indexTarget
  have hN : (0 : ℚ) < (s.length : ℚ) := by exact_mod_cast Nat.pos_of_ne_zero hne
  cases lc <;> simp only [Bool.false_eq_true, if_false, if_true]
  · have : (r - 1 / (s.length : ℚ)) * (s.length : ℚ) = r * (s.length : ℚ) - 1 := by
      field_simp
    linarith
  · linarith

theorem c06d_indexTarget_sub (s : List ℚ) (r1 r2 : ℚ) (lc : Bool) :
    indexTarget s r2 lc - indexTarget s r1 lc = (r2 - r1) * (s.length : ℚ) := by
  unfold indexTarget
  cases lc <;> simp only [Bool.false_eq_true, if_false, if_true] <;> ring

/-- below the upper special case the returned threshold is at most the interpolated one -/
theorem c06d_invert_le_interp (u : Ulp) (hu : u.Lawful) (s : List ℚ) (r : ℚ) (lc : Bool)
    (h1 : r < 1) : invertIncreasing u s r lc .linear ≤ interp s (indexTarget s r lc) := by
  rw [invertIncreasing_eq]
  have h1' : ¬ (1 ≤ r) := not_le.mpr h1
  simp only [h1', if_false]
  by_cases b : (if lc then r else r - 1 / (s.length : ℚ)) ≤ 0
  · simp only [b, if_true]
    have hx : indexTarget s r lc ≤ 0 := by
      unfold indexTarget
      exact mul_nonpos_of_nonpos_of_nonneg b (by positivity)
    rw [c06d_interp_low s _ hx]
    exact le_of_lt (hu.down_lt _)
  · simp only [b, if_false]
    exact le_refl _

/-- above the lower special case the returned threshold is at least the interpolated one -/
theorem c06d_interp_le_invert (u : Ulp) (hu : u.Lawful) (s : List ℚ) (hne : s.length ≠ 0)
    (r : ℚ) (lc : Bool) (h0 : 0 < (if lc then r else r - 1 / (s.length : ℚ))) :
    interp s (indexTarget s r lc) ≤ invertIncreasing u s r lc .linear := by
  rw [invertIncreasing_eq]
  by_cases a : 1 ≤ r
  · simp only [a, if_true]
    have hN : (0 : ℚ) < (s.length : ℚ) := by exact_mod_cast Nat.pos_of_ne_zero hne
    have hx : (s.length : ℚ) - 1 ≤ indexTarget s r lc := by
      have := c06d_indexTarget_ge s hne r lc
      nlinarith
    rw [c06d_interp_high s hne _ hx]
    exact le_of_lt (hu.lt_up _)
  · have b : ¬ (if lc then r else r - 1 / (s.length : ℚ)) ≤ 0 := not_le.mpr h0
    simp only [a, b, if_false]
    exact le_refl _

/-- the returned threshold is within the sentinel steps of the interpolated one, all targets -/
theorem c06d_invert_near_interp (u : Ulp) (hu : u.Lawful) (s : List ℚ)
    (hs : s.Pairwise (· ≤ ·)) (hne : s.length ≠ 0) (r : ℚ) (lc : Bool) :
    interp s (indexTarget s r lc) - c06d_jumpLo u s ≤ invertIncreasing u s r lc .linear ∧
    invertIncreasing u s r lc .linear ≤ interp s (indexTarget s r lc) + c06d_jumpHi u s := by
  have jl := c06d_jumpLo_pos u hu s
  have jh := c06d_jumpHi_pos u hu s
  constructor
  · by_cases a : 1 ≤ r
    · rw [invertIncreasing_high u s r lc .linear a]
      have hb := (raw_bounds s hs hne (indexTarget s r lc) .linear).2
      have := hu.lt_up (s.getD (s.length - 1) 0)
      simp only [rawThr] at hb
      linarith
    · by_cases b : (if lc then r else r - 1 / (s.length : ℚ)) ≤ 0
      · rw [invertIncreasing_eq]
        simp only [a, b, if_true, if_false]
        have hx : indexTarget s r lc ≤ 0 := by
          unfold indexTarget
          exact mul_nonpos_of_nonpos_of_nonneg b (by positivity)
        rw [c06d_interp_low s _ hx]
        unfold c06d_jumpLo; linarith
      · have := c06d_interp_le_invert u hu s hne r lc (not_le.mp b)
        linarith
  · by_cases a : 1 ≤ r
    · rw [invertIncreasing_high u s r lc .linear a]
      have hN : (0 : ℚ) < (s.length : ℚ) := by exact_mod_cast Nat.pos_of_ne_zero hne
      have hx : (s.length : ℚ) - 1 ≤ indexTarget s r lc := by
        have := c06d_indexTarget_ge s hne r lc
        nlinarith
      rw [c06d_interp_high s hne _ hx]
      unfold c06d_jumpHi; linarith
    · have := c06d_invert_le_interp u hu s r lc (not_le.mp a)
      linarith

/-- **Lipschitz upper bound of `_invert_increasing_function` (linear) in the target**, up to the
two sentinel steps: for `r1 ≤ r2`,
`thr(r2) − thr(r1) ≤ N · maxGap · (r2 − r1) + (s[0] − down s[0]) + (up s[N-1] − s[N-1])`. -/
theorem c06d_invert_lip (u : Ulp) (hu : u.Lawful) (s : List ℚ) (hs : s.Pairwise (· ≤ ·))
    (hne : s.length ≠ 0) (lc : Bool) (r1 r2 : ℚ) (h : r1 ≤ r2) :
    invertIncreasing u s r2 lc .linear - invertIncreasing u s r1 lc .linear ≤
      (s.length : ℚ) * c06d_maxGap s * (r2 - r1) + c06d_jump u s := by
  have n1 := (c06d_invert_near_interp u hu s hs hne r1 lc).1
  have n2 := (c06d_invert_near_interp u hu s hs hne r2 lc).2
  have hN : (0 : ℚ) ≤ (s.length : ℚ) := by positivity
  have hx : indexTarget s r1 lc ≤ indexTarget s r2 lc := by
    have := c06d_indexTarget_sub s r1 r2 lc
    have : 0 ≤ (r2 - r1) * (s.length : ℚ) := mul_nonneg (by linarith) hN
    linarith
  have hl := c06d_interp_lip s hne _ _ hx
  rw [c06d_indexTarget_sub] at hl
  unfold c06d_jump
  have e : c06d_maxGap s * ((r2 - r1) * (s.length : ℚ)) =
      (s.length : ℚ) * c06d_maxGap s * (r2 - r1) := by ring
  linarith

/-- **Without sentinels**: if neither target is in a special case the bound is purely
Lipschitz. -/
theorem c06d_invert_lip_interior (u : Ulp) (s : List ℚ) (hne : s.length ≠ 0) (lc : Bool)
    (r1 r2 : ℚ) (h : r1 ≤ r2) (h0 : 0 < (if lc then r1 else r1 - 1 / (s.length : ℚ)))
    (h1 : r2 < 1) :
    invertIncreasing u s r2 lc .linear - invertIncreasing u s r1 lc .linear ≤
      (s.length : ℚ) * c06d_maxGap s * (r2 - r1) := by
  have h0' : 0 < (if lc then r2 else r2 - 1 / (s.length : ℚ)) := by
    cases lc <;> simp only [Bool.false_eq_true, if_false, if_true] at h0 ⊢ <;> linarith
  rw [invertIncreasing_interior u s r1 lc (by linarith) h0,
    invertIncreasing_interior u s r2 lc h1 h0']
  have hN : (0 : ℚ) ≤ (s.length : ℚ) := by positivity
  have hx : indexTarget s r1 lc ≤ indexTarget s r2 lc := by
    have := c06d_indexTarget_sub s r1 r2 lc
    have : 0 ≤ (r2 - r1) * (s.length : ℚ) := mul_nonneg (by linarith) hN
    linarith
  have hl := c06d_interp_lip s hne _ _ hx
  rw [c06d_indexTarget_sub] at hl
  have e : c06d_maxGap s * ((r2 - r1) * (s.length : ℚ)) =
      (s.length : ℚ) * c06d_maxGap s * (r2 - r1) := by ring
  linarith

/-- **Strict monotonicity (inverse Lipschitz) of `_invert_increasing_function` (linear)** on a
tie-free list, for two interior targets whose index targets stay below `N − 1`:
`thr(r2) − thr(r1) ≥ N · minGap · (r2 − r1)`. -/
theorem c06d_invert_invlip (u : Ulp) (s : List ℚ) (lc : Bool) (r1 r2 : ℚ) (h : r1 ≤ r2)
    (h0 : 0 < (if lc then r1 else r1 - 1 / (s.length : ℚ))) (h1 : r2 < 1)
    (hx2 : indexTarget s r2 lc ≤ (s.length : ℚ) - 1) :
    (s.length : ℚ) * c06d_minGap s * (r2 - r1) ≤
      invertIncreasing u s r2 lc .linear - invertIncreasing u s r1 lc .linear := by
  have h0' : 0 < (if lc then r2 else r2 - 1 / (s.length : ℚ)) := by
    cases lc <;> simp only [Bool.false_eq_true, if_false, if_true] at h0 ⊢ <;> linarith
  rw [invertIncreasing_interior u s r1 lc (by linarith) h0,
    invertIncreasing_interior u s r2 lc h1 h0']
  have hN : (0 : ℚ) ≤ (s.length : ℚ) := by positivity
  have hx : indexTarget s r1 lc ≤ indexTarget s r2 lc := by
    have := c06d_indexTarget_sub s r1 r2 lc
    have : 0 ≤ (r2 - r1) * (s.length : ℚ) := mul_nonneg (by linarith) hN
    linarith
  have hx0 : 0 ≤ indexTarget s r1 lc := by
    unfold indexTarget; exact mul_nonneg (le_of_lt h0) hN
  have hl := c06d_interp_invlip s _ _ hx0 hx hx2
  rw [c06d_indexTarget_sub] at hl
  have e : c06d_minGap s * ((r2 - r1) * (s.length : ℚ)) =
      (s.length : ℚ) * c06d_minGap s * (r2 - r1) := by ring
  linarith

/-! ### counts at a threshold near a returned one (tie-free list) -/

theorem c06d_getElem_eq_interp (s : List ℚ) (m : ℕ) (hm : m < s.length) :
    s[m] = interp s (m : ℚ) := by
  have h := c06d_interp_int s (m : ℤ)
  have c : clampIdx (m : ℤ) s.length = m := by unfold clampIdx; omega
  unfold c06d_S at h
  rw [c, getD_eq s m hm] at h
  rw [← h]; simp

/-- **Count bound, upper side.** Tie-free list: if `y ≤ thr(r) + D` then at most
`clip01 r · N + 1 + D / minGap` entries are `≤ y`. -/
theorem c06d_cntLe_near (u : Ulp) (hu : u.Lawful) (s : List ℚ) (hs : s.Pairwise (· < ·))
    (hne : s.length ≠ 0) (r : ℚ) (lc : Bool) (D y : ℚ) (hD : 0 ≤ D)
    (hy : y ≤ invertIncreasing u s r lc .linear + D) :
    (cntLe s y : ℚ) ≤ clip01 r * (s.length : ℚ) + 1 + D / c06d_minGap s := by
  have hs' : s.Pairwise (· ≤ ·) := hs.imp le_of_lt
  have hN : (0 : ℚ) < (s.length : ℚ) := by exact_mod_cast Nat.pos_of_ne_zero hne
  have hmg := c06d_minGap_pos s hs
  have hDm : 0 ≤ D / c06d_minGap s := div_nonneg hD (le_of_lt hmg)
  have hcl : (cntLe s y : ℚ) ≤ (s.length : ℚ) := by exact_mod_cast cntLe_le_length s y
  have hc0 : 0 ≤ clip01 r := le_max_left _ _
  by_cases h1 : 1 ≤ r
  · have hc : clip01 r = 1 := by unfold clip01; rw [min_eq_right h1]; simp
    rw [hc]; linarith
  rw [not_le] at h1
  have hG := c06d_invert_le_interp u hu s r lc h1
  have hr : r ≤ clip01 r := by
    unfold clip01; rw [min_eq_left (le_of_lt h1)]; exact le_max_right _ _
  have hxr : indexTarget s r lc ≤ clip01 r * (s.length : ℚ) :=
    le_trans (c06d_indexTarget_le s r lc) (mul_le_mul_of_nonneg_right hr (le_of_lt hN))
  rcases Nat.eq_zero_or_pos (cntLe s y) with hz | hpos
  · rw [hz]; push_cast
    have : 0 ≤ clip01 r * (s.length : ℚ) := mul_nonneg hc0 (le_of_lt hN)
    linarith
  -- the last entry `≤ y`
  have hcn := cntLe_le_length s y
  have hm : cntLe s y - 1 < s.length := by omega
  have hsm : s[cntLe s y - 1] ≤ y := (le_iff_cntLe s hs' y _ hm).mpr (by omega)
  have hcm : (cntLe s y : ℚ) = ((cntLe s y - 1 : ℕ) : ℚ) + 1 := by
    rw [Nat.cast_sub hpos]; push_cast; ring
  have hmN : ((cntLe s y - 1 : ℕ) : ℚ) ≤ (s.length : ℚ) - 1 := by
    have : ((cntLe s y - 1 : ℕ) : ℚ) + 1 ≤ (s.length : ℚ) := by rw [← hcm]; exact hcl
    linarith
  rw [c06d_getElem_eq_interp s _ hm] at hsm
  generalize ((cntLe s y - 1 : ℕ) : ℚ) = mq at *
  -- the clamped index target
  have hxhat : interp s (max (indexTarget s r lc) 0) = interp s (indexTarget s r lc) := by
    rcases le_total (indexTarget s r lc) 0 with hneg | hnn
    · rw [max_eq_right hneg, c06d_interp_low s _ hneg, c06d_interp_low s 0 (le_refl _)]
    · rw [max_eq_left hnn]
  have hxle : max (indexTarget s r lc) 0 ≤ clip01 r * (s.length : ℚ) :=
    max_le hxr (mul_nonneg hc0 (le_of_lt hN))
  by_cases hcase : mq ≤ max (indexTarget s r lc) 0
  · rw [hcm]; linarith
  · rw [not_le] at hcase
    have hl := c06d_interp_invlip s _ mq (le_max_right _ _) (le_of_lt hcase) hmN
    rw [hxhat] at hl
    have hq : mq - max (indexTarget s r lc) 0 ≤ D / c06d_minGap s := by
      rw [le_div_iff₀ hmg]
      have : c06d_minGap s * (mq - max (indexTarget s r lc) 0) ≤ D := by linarith
      linarith
    rw [hcm]; linarith

/-- **Count bound, lower side.** Tie-free list: if `thr(r) − D ≤ y` then at least
`clip01 r · N − 1 − D / minGap` entries are `< y`. -/
theorem c06d_cntLt_near (u : Ulp) (hu : u.Lawful) (s : List ℚ) (hs : s.Pairwise (· < ·))
    (hne : s.length ≠ 0) (r : ℚ) (lc : Bool) (D y : ℚ) (hD : 0 ≤ D)
    (hy : invertIncreasing u s r lc .linear - D ≤ y) :
    clip01 r * (s.length : ℚ) - 1 - D / c06d_minGap s ≤ (cntLt s y : ℚ) := by
  have hs' : s.Pairwise (· ≤ ·) := hs.imp le_of_lt
  have hN : (0 : ℚ) < (s.length : ℚ) := by exact_mod_cast Nat.pos_of_ne_zero hne
  have hmg := c06d_minGap_pos s hs
  have hDm : 0 ≤ D / c06d_minGap s := div_nonneg hD (le_of_lt hmg)
  have hc0 : (0 : ℚ) ≤ (cntLt s y : ℚ) := by positivity
  have hinv : (0 : ℚ) ≤ 1 / (s.length : ℚ) := by positivity
  by_cases b : (if lc then r else r - 1 / (s.length : ℚ)) ≤ 0
  · -- lower special case: the target is at most one sample
    have hr : r ≤ 1 / (s.length : ℚ) := by
      cases lc <;> simp only [Bool.false_eq_true, if_false, if_true] at b <;> linarith
    have hc1 : clip01 r ≤ 1 / (s.length : ℚ) := by
      unfold clip01
      exact max_le hinv (le_trans (min_le_left _ _) hr)
    have : clip01 r * (s.length : ℚ) ≤ 1 := by
      calc clip01 r * (s.length : ℚ) ≤ 1 / (s.length : ℚ) * (s.length : ℚ) :=
            mul_le_mul_of_nonneg_right hc1 (le_of_lt hN)
        _ = 1 := by field_simp
    linarith
  rw [not_le] at b
  have hG := c06d_interp_le_invert u hu s hne r lc b
  have hr0 : 0 < r := by
    cases lc <;> simp only [Bool.false_eq_true, if_false, if_true] at b <;> linarith
  have hcl1 : clip01 r ≤ 1 := by
    unfold clip01; exact max_le (by norm_num) (min_le_right _ _)
  have hclr : clip01 r ≤ r := by
    unfold clip01; exact max_le (le_of_lt hr0) (min_le_left _ _)
  have hcn : cntLt s y ≤ s.length := List.countP_le_length
  rcases Nat.lt_or_ge (cntLt s y) s.length with hlt | hge
  · -- the first entry not `< y`
    have hsm : y ≤ s[cntLt s y] := by
      by_contra hcon
      rw [not_le] at hcon
      exact lt_irrefl _ ((lt_iff_cntLt s hs' y _ hlt).mp hcon)
    rw [c06d_getElem_eq_interp s _ hlt] at hsm
    have hcN : ((cntLt s y : ℕ) : ℚ) ≤ (s.length : ℚ) - 1 := by
      have : ((cntLt s y + 1 : ℕ) : ℚ) ≤ (s.length : ℚ) := by exact_mod_cast hlt
      push_cast at this; linarith
    generalize ((cntLt s y : ℕ) : ℚ) = cq at *
    have hxhat : interp s (min (indexTarget s r lc) ((s.length : ℚ) - 1)) =
        interp s (indexTarget s r lc) := by
      rcases le_total (indexTarget s r lc) ((s.length : ℚ) - 1) with hle | hge'
      · rw [min_eq_left hle]
      · rw [min_eq_right hge', c06d_interp_high s hne _ hge', c06d_interp_high s hne _ (le_refl _)]
    have hxge : clip01 r * (s.length : ℚ) - 1 ≤ min (indexTarget s r lc) ((s.length : ℚ) - 1) := by
      apply le_min
      · have h1 := c06d_indexTarget_ge s hne r lc
        have h2 := mul_le_mul_of_nonneg_right hclr (le_of_lt hN)
        linarith
      · have h2 := mul_le_mul_of_nonneg_right hcl1 (le_of_lt hN)
        linarith
    by_cases hcase : min (indexTarget s r lc) ((s.length : ℚ) - 1) ≤ cq
    · linarith
    · rw [not_le] at hcase
      have hl := c06d_interp_invlip s cq _ hc0 (le_of_lt hcase) (min_le_right _ _)
      rw [hxhat] at hl
      have hq : min (indexTarget s r lc) ((s.length : ℚ) - 1) - cq ≤ D / c06d_minGap s := by
        rw [le_div_iff₀ hmg]
        have : c06d_minGap s * (min (indexTarget s r lc) ((s.length : ℚ) - 1) - cq) ≤ D := by
          linarith
        linarith
      linarith
  · have : cntLt s y = s.length := by omega
    rw [this]
    have h2 := mul_le_mul_of_nonneg_right hcl1 (le_of_lt hN)
    linarith

/-! ### thresholds of a `Scores` object as functions of the requested rate -/

open Spec in
/-- `threshold_at_<metric>(x)` (linear) is `_invert_increasing_function` at the normalised
target, with a continuity flag that does not depend on the target -/
theorem c06d_thrVal_eq (u : Ulp) (s : Scores) (metric : Metric) (x : ℚ)
    (hne : (s.metricArray metric).length ≠ 0) :
    thrVal u s metric x = invertIncreasing u (s.metricArray metric) (normTarget s metric x)
      (normLc s.cfg metric.increasing metric.ratioClass) .linear := by
  have h1 := thrVal_ok u s metric x hne
  rw [thresholdAt_eq u s metric x .linear hne] at h1
  have h2 := (Except.ok.inj h1).symm
  rw [h2]
  split <;> rfl

/-- two-sided Lipschitz bound of `_invert_increasing_function` for targets at distance `≤ w` -/
theorem c06d_invert_lip_abs (u : Ulp) (hu : u.Lawful) (s : List ℚ) (hs : s.Pairwise (· ≤ ·))
    (hne : s.length ≠ 0) (lc : Bool) (r1 r2 w : ℚ) (h1 : r2 - r1 ≤ w) (h2 : r1 - r2 ≤ w) :
    invertIncreasing u s r2 lc .linear - invertIncreasing u s r1 lc .linear ≤
      (s.length : ℚ) * c06d_maxGap s * w + c06d_jump u s := by
  have hN : (0 : ℚ) ≤ (s.length : ℚ) := by positivity
  have hK : 0 ≤ (s.length : ℚ) * c06d_maxGap s := mul_nonneg hN (c06d_maxGap_nonneg s)
  have hJ : 0 < c06d_jump u s := by
    unfold c06d_jump; linarith [c06d_jumpLo_pos u hu s, c06d_jumpHi_pos u hu s]
  rcases le_total r1 r2 with h | h
  · have := c06d_invert_lip u hu s hs hne lc r1 r2 h
    have := mul_le_mul_of_nonneg_left h1 hK
    linarith
  · have := invert_mono u hu s hs hne lc .linear r2 r1 h
    have hw : 0 ≤ w := by linarith
    have := mul_nonneg hK hw
    linarith

theorem c06d_min_one_lip (a b : ℚ) (h : a ≤ b) :
    0 ≤ min b 1 - min a 1 ∧ min b 1 - min a 1 ≤ b - a := by
  constructor
  · have := min_le_min_right 1 h; linarith
  · rcases le_total b 1 with hb | hb
    · rw [min_eq_left hb, min_eq_left (le_trans h hb)]
    · rw [min_eq_right hb]
      rcases le_total a 1 with ha | ha
      · rw [min_eq_left ha]; linarith
      · rw [min_eq_right ha]; linarith

open Spec in
theorem c06d_normTarget_dist (s : Scores) (metric : Metric) (x y h : ℚ)
    (hr : s.rescale metric y - s.rescale metric x ≤ h)
    (hr' : s.rescale metric x - s.rescale metric y ≤ h) :
    normTarget s metric y - normTarget s metric x ≤ h ∧
      normTarget s metric x - normTarget s metric y ≤ h := by
  unfold normTarget
  split <;> constructor <;> linarith

theorem c06d_len_neg (s : Scores) (h : s.neg.length ≠ 0) :
    (s.neg.length : ℚ) = s.hardNegRatio * (s.nbAllNeg : ℚ) := by
  have hd := maxNum_div_denom_fpr s h
  have hpos := denom_pos s .fpr h
  simp only [Spec.maxNum, Spec.denom] at hd hpos
  rw [← hd, div_mul_cancel₀ _ (ne_of_gt hpos)]

theorem c06d_len_pos (s : Scores) (h : s.pos.length ≠ 0) :
    (s.pos.length : ℚ) = s.hardPosRatio * (s.nbAllPos : ℚ) := by
  have hd := maxNum_div_denom_fnr s h
  have hpos := denom_pos s .fnr h
  simp only [Spec.maxNum, Spec.denom] at hd hpos
  rw [← hd, div_mul_cancel₀ _ (ne_of_gt hpos)]

/-- **Lipschitz bound of `threshold_at_fpr` (linear) in the requested rate**, both directions:
`|thr_fpr(y) − thr_fpr(x)| ≤ N_neg · maxGap(neg) · (y − x) + sentinel steps` for `x ≤ y`
(`N_neg` counts the easy negatives too: this is where the rescaling by `hard_neg_ratio` goes). -/
theorem c06d_thrVal_fpr_lip (u : Ulp) (hu : u.Lawful) (s : Scores)
    (hn : s.neg.Pairwise (· ≤ ·)) (hne : s.neg.length ≠ 0) (x y : ℚ) (hxy : x ≤ y) :
    thrVal u s .fpr y - thrVal u s .fpr x ≤
        (s.nbAllNeg : ℚ) * c06d_maxGap s.neg * (y - x) + c06d_jump u s.neg ∧
    thrVal u s .fpr x - thrVal u s .fpr y ≤
        (s.nbAllNeg : ℚ) * c06d_maxGap s.neg * (y - x) + c06d_jump u s.neg := by
  have hh := (hardNegRatio_pos s hne).1
  have hdiv : x / s.hardNegRatio ≤ y / s.hardNegRatio := div_le_div_of_nonneg_right hxy (le_of_lt hh)
  obtain ⟨m1, m2⟩ := c06d_min_one_lip _ _ hdiv
  have hw : y / s.hardNegRatio - x / s.hardNegRatio = (y - x) / s.hardNegRatio := by ring
  rw [hw] at m2
  have hw0 : 0 ≤ (y - x) / s.hardNegRatio := div_nonneg (by linarith) (le_of_lt hh)
  obtain ⟨d1, d2⟩ := c06d_normTarget_dist s .fpr x y ((y - x) / s.hardNegRatio)
    (by simp only [Scores.rescale]; exact m2) (by simp only [Scores.rescale]; linarith)
  rw [c06d_thrVal_eq u s .fpr x hne, c06d_thrVal_eq u s .fpr y hne]
  have hlen : ((s.metricArray .fpr).length : ℚ) * c06d_maxGap (s.metricArray .fpr) *
      ((y - x) / s.hardNegRatio) = (s.nbAllNeg : ℚ) * c06d_maxGap s.neg * (y - x) := by
    simp only [Scores.metricArray]
    rw [c06d_len_neg s hne]
    field_simp
  constructor
  · have := c06d_invert_lip_abs u hu (s.metricArray .fpr) hn hne
      (normLc s.cfg Metric.fpr.increasing Metric.fpr.ratioClass) _ _ _ d1 d2
    rw [hlen] at this; exact this
  · have := c06d_invert_lip_abs u hu (s.metricArray .fpr) hn hne
      (normLc s.cfg Metric.fpr.increasing Metric.fpr.ratioClass) _ _ _ d2 d1
    rw [hlen] at this; exact this

/-- **Lipschitz bound of `threshold_at_fnr` (linear) in the requested rate.** -/
theorem c06d_thrVal_fnr_lip (u : Ulp) (hu : u.Lawful) (s : Scores)
    (hp : s.pos.Pairwise (· ≤ ·)) (hne : s.pos.length ≠ 0) (x y : ℚ) (hxy : x ≤ y) :
    thrVal u s .fnr y - thrVal u s .fnr x ≤
        (s.nbAllPos : ℚ) * c06d_maxGap s.pos * (y - x) + c06d_jump u s.pos ∧
    thrVal u s .fnr x - thrVal u s .fnr y ≤
        (s.nbAllPos : ℚ) * c06d_maxGap s.pos * (y - x) + c06d_jump u s.pos := by
  have hh := (hardPosRatio_pos s hne).1
  have hdiv : x / s.hardPosRatio ≤ y / s.hardPosRatio := div_le_div_of_nonneg_right hxy (le_of_lt hh)
  obtain ⟨m1, m2⟩ := c06d_min_one_lip _ _ hdiv
  have hw : y / s.hardPosRatio - x / s.hardPosRatio = (y - x) / s.hardPosRatio := by ring
  rw [hw] at m2
  have hw0 : 0 ≤ (y - x) / s.hardPosRatio := div_nonneg (by linarith) (le_of_lt hh)
  obtain ⟨d1, d2⟩ := c06d_normTarget_dist s .fnr x y ((y - x) / s.hardPosRatio)
    (by simp only [Scores.rescale]; exact m2) (by simp only [Scores.rescale]; linarith)
  rw [c06d_thrVal_eq u s .fnr x hne, c06d_thrVal_eq u s .fnr y hne]
  have hlen : ((s.metricArray .fnr).length : ℚ) * c06d_maxGap (s.metricArray .fnr) *
      ((y - x) / s.hardPosRatio) = (s.nbAllPos : ℚ) * c06d_maxGap s.pos * (y - x) := by
    simp only [Scores.metricArray]
    rw [c06d_len_pos s hne]
    field_simp
  constructor
  · have := c06d_invert_lip_abs u hu (s.metricArray .fnr) hp hne
      (normLc s.cfg Metric.fnr.increasing Metric.fnr.ratioClass) _ _ _ d1 d2
    rw [hlen] at this; exact this
  · have := c06d_invert_lip_abs u hu (s.metricArray .fnr) hp hne
      (normLc s.cfg Metric.fnr.increasing Metric.fnr.ratioClass) _ _ _ d2 d1
    rw [hlen] at this; exact this

/-! ### non-vacuity of the main lemmas (list `[0, 1, 3, 4]`, half-step oracle) -/

/-- `c06d_telescope`, `c06d_gap_le_max`, `c06d_min_le_gap` -/
example : c06d_minGap [0, 1, 3, 4] = 1 ∧ c06d_maxGap [0, 1, 3, 4] = 2 := by
  constructor <;> decide +kernel

/-- `c06d_interp_cell`, `c06d_interp_lip`, `c06d_interp_invlip` (index targets `1/2 ≤ 5/2 ≤ 3`) -/
example : c06d_minGap [0, 1, 3, 4] * (5 / 2 - 1 / 2) ≤
    interp [0, 1, 3, 4] (5 / 2) - interp [0, 1, 3, 4] (1 / 2) ∧
    interp [0, 1, 3, 4] (5 / 2) - interp [0, 1, 3, 4] (1 / 2) ≤
      c06d_maxGap [0, 1, 3, 4] * (5 / 2 - 1 / 2) :=
  ⟨c06d_interp_invlip [0, 1, 3, 4] (1 / 2) (5 / 2) (by norm_num) (by norm_num)
      (by simp; norm_num),
    c06d_interp_lip [0, 1, 3, 4] (by simp) (1 / 2) (5 / 2) (by norm_num)⟩

/-- `c06d_invert_lip`, `c06d_invert_lip_abs` -/
example : invertIncreasing Ulp.half [0, 1, 3, 4] (3 / 4) true .linear -
    invertIncreasing Ulp.half [0, 1, 3, 4] (1 / 4) true .linear ≤
      (([0, 1, 3, 4] : List ℚ).length : ℚ) * c06d_maxGap [0, 1, 3, 4] * (3 / 4 - 1 / 4) +
        c06d_jump Ulp.half [0, 1, 3, 4] :=
  c06d_invert_lip Ulp.half Ulp.half_lawful [0, 1, 3, 4] (by norm_num) (by simp) true _ _
    (by norm_num)

/-- `c06d_invert_lip_interior`, `c06d_invert_invlip` (targets `1/4 ≤ 1/2`, index targets `1, 2`) -/
example : (([0, 1, 3, 4] : List ℚ).length : ℚ) * c06d_minGap [0, 1, 3, 4] * (1 / 2 - 1 / 4) ≤
    invertIncreasing Ulp.half [0, 1, 3, 4] (1 / 2) true .linear -
      invertIncreasing Ulp.half [0, 1, 3, 4] (1 / 4) true .linear :=
  c06d_invert_invlip Ulp.half [0, 1, 3, 4] true _ _ (by norm_num) (by simp) (by norm_num)
    (by simp [indexTarget]; norm_num)

/-- `c06d_cntLe_near`, `c06d_cntLt_near` (`y` a quarter above the threshold for `r = 1/2`) -/
example : (cntLe [0, 1, 3, 4] (invertIncreasing Ulp.half [0, 1, 3, 4] (1 / 2) true .linear + 1 / 4) : ℚ)
    ≤ clip01 (1 / 2) * (([0, 1, 3, 4] : List ℚ).length : ℚ) + 1 + (1 / 4) / c06d_minGap [0, 1, 3, 4] ∧
    clip01 (1 / 2) * (([0, 1, 3, 4] : List ℚ).length : ℚ) - 1 - (1 / 4) / c06d_minGap [0, 1, 3, 4] ≤
    (cntLt [0, 1, 3, 4] (invertIncreasing Ulp.half [0, 1, 3, 4] (1 / 2) true .linear + 1 / 4) : ℚ) :=
  ⟨c06d_cntLe_near Ulp.half Ulp.half_lawful [0, 1, 3, 4] (by norm_num) (by simp) _ true (1 / 4) _
      (by norm_num) (le_refl _),
    c06d_cntLt_near Ulp.half Ulp.half_lawful [0, 1, 3, 4] (by norm_num) (by simp) _ true (1 / 4) _
      (by norm_num) (by linarith)⟩

end SA
