/-
Lemmas about threshold setting: floor/ceil bridge, sentinel thresholds, rescaling at the
boundary targets.
-/
import SA.Model.Threshold
import SA.Spec.C02
import SA.Proofs.Bisect
import Mathlib.Tactic.Linarith
import Mathlib.Tactic.Ring
import Mathlib.Tactic.FieldSimp
import Mathlib.Tactic.Positivity
import Mathlib.Data.Rat.Floor
import Mathlib.Algebra.Order.Floor.Ring

namespace SA

theorem ceilQ_eq (x : ℚ) : ceilQ x = ⌈x⌉ := by
  unfold ceilQ
  have : (-x).floor = ⌊-x⌋ := rfl
  rw [this, Int.floor_neg]; simp

/-- Hypotheses on the `nextafter` oracle used by the C02/C03 theorems. -/
structure Ulp.Lawful (u : Ulp) : Prop where
  down_lt : ∀ x, u.down x < x
  lt_up : ∀ x, x < u.up x

/-! ### counts at thresholds outside the range of a list -/

theorem countP_accept_of_all_gt (cfg : Cfg) (l : List ℚ) (t : ℚ) (h : ∀ x ∈ l, t < x) :
    l.countP (fun x => accept cfg x (.fin t)) = if cfg.scoreClass = .pos then l.length else 0 := by
  obtain ⟨sc, ec⟩ := cfg
  cases sc <;> cases ec <;> simp only [accept, ltE, leE, reduceCtorEq, if_true, if_false]
  · rw [List.countP_eq_length]; intro x hx; have := h x hx; simp; linarith
  · rw [List.countP_eq_length]; intro x hx; have := h x hx; simp; linarith
  · rw [List.countP_eq_zero]; intro x hx; have := h x hx; simp; linarith
  · rw [List.countP_eq_zero]; intro x hx; have := h x hx; simp; linarith

theorem countP_accept_of_all_lt (cfg : Cfg) (l : List ℚ) (t : ℚ) (h : ∀ x ∈ l, x < t) :
    l.countP (fun x => accept cfg x (.fin t)) = if cfg.scoreClass = .pos then 0 else l.length := by
  obtain ⟨sc, ec⟩ := cfg
  cases sc <;> cases ec <;> simp only [accept, ltE, leE, reduceCtorEq, if_true, if_false]
  · rw [List.countP_eq_zero]; intro x hx; have := h x hx; simp; linarith
  · rw [List.countP_eq_zero]; intro x hx; have := h x hx; simp; linarith
  · rw [List.countP_eq_length]; intro x hx; have := h x hx; simp; linarith
  · rw [List.countP_eq_length]; intro x hx; have := h x hx; simp; linarith

/-- every element of a sorted list is ≥ its first element -/
theorem head_le_of_sorted (l : List ℚ) (hs : l.Pairwise (· ≤ ·)) (x : ℚ) (hx : x ∈ l) :
    l.getD 0 0 ≤ x := by
  cases l with
  | nil => simp at hx
  | cons a l =>
    rw [List.pairwise_cons] at hs
    simp only [List.getD_cons_zero]
    rcases List.mem_cons.mp hx with h | h
    · rw [h]
    · exact hs.1 x h

/-- every element of a sorted list is ≤ its last element -/
theorem le_last_of_sorted (l : List ℚ) (hs : l.Pairwise (· ≤ ·)) (x : ℚ) (hx : x ∈ l) :
    x ≤ l.getD (l.length - 1) 0 := by
  obtain ⟨i, hi, rfl⟩ := List.getElem_of_mem hx
  have hlast : l.length - 1 < l.length := by omega
  have hd : l.getD (l.length - 1) 0 = l[l.length - 1] := by
    simp [List.getD_eq_getElem?_getD, List.getElem?_eq_getElem hlast]
  rw [hd]
  rcases Nat.lt_or_ge i (l.length - 1) with h | h
  · exact List.pairwise_iff_getElem.mp hs i (l.length - 1) hi hlast h
  · have : i = l.length - 1 := by omega
    subst this; exact le_refl _

/-! ### the two special cases of `_invert_increasing_function` -/

theorem invertIncreasing_low (u : Ulp) (s : List ℚ) (r : ℚ) (lc : Bool) (m : Method)
    (hr : r ≤ 0) : invertIncreasing u s r lc m = u.down (s.getD 0 0) := by
  unfold invertIncreasing
  have h1 : ¬ (1 ≤ r) := by linarith
  have hn : (0 : ℚ) ≤ 1 / (s.length : ℚ) := by positivity
  have h2 : (if lc = true then r else r - 1 / (s.length : ℚ)) ≤ 0 := by
    split <;> linarith
  simp only [h1, decide_false, Bool.false_eq_true, if_false, h2, if_true]

theorem invertIncreasing_high (u : Ulp) (s : List ℚ) (r : ℚ) (lc : Bool) (m : Method)
    (hr : 1 ≤ r) : invertIncreasing u s r lc m = u.up (s.getD (s.length - 1) 0) := by
  unfold invertIncreasing
  simp only [hr, decide_true, if_true]

/-- Is the normalised target the requested one (even number of flips)? -/
def evenFlips (cfg : Cfg) (increasing : Bool) : Bool := increasing == (cfg.scoreClass == .pos)

theorem thresholdAtRatio_low (u : Ulp) (cfg : Cfg) (a : List ℚ) (r : ℚ) (inc : Bool)
    (rc : Label) (m : Method) (hr : r ≤ 0) :
    thresholdAtRatio u cfg a r inc rc m =
      if evenFlips cfg inc then u.down (a.getD 0 0) else u.up (a.getD (a.length - 1) 0) := by
  obtain ⟨sc, ec⟩ := cfg
  unfold thresholdAtRatio normalise evenFlips
  cases inc <;> cases sc <;> simp
  · exact invertIncreasing_high _ _ _ _ _ (by linarith)
  · exact invertIncreasing_low _ _ _ _ _ (by linarith)
  · exact invertIncreasing_low _ _ _ _ _ (by linarith)
  · exact invertIncreasing_high _ _ _ _ _ (by linarith)

theorem thresholdAtRatio_high (u : Ulp) (cfg : Cfg) (a : List ℚ) (r : ℚ) (inc : Bool)
    (rc : Label) (m : Method) (hr : 1 ≤ r) :
    thresholdAtRatio u cfg a r inc rc m =
      if evenFlips cfg inc then u.up (a.getD (a.length - 1) 0) else u.down (a.getD 0 0) := by
  obtain ⟨sc, ec⟩ := cfg
  unfold thresholdAtRatio normalise evenFlips
  cases inc <;> cases sc <;> simp
  · exact invertIncreasing_low _ _ _ _ _ (by linarith)
  · exact invertIncreasing_high _ _ _ _ _ (by linarith)
  · exact invertIncreasing_high _ _ _ _ _ (by linarith)
  · exact invertIncreasing_low _ _ _ _ _ (by linarith)

/-! ### easy-sample rescaling at the boundary targets -/

theorem length_concat (s : Scores) : s.concat.length = s.neg.length + s.pos.length := by
  unfold Scores.concat; rw [length_sortQ, List.length_append]

theorem hardPosRatio_pos (s : Scores) (h : s.pos.length ≠ 0) :
    0 < s.hardPosRatio ∧ s.hardPosRatio ≤ 1 := by
  unfold Scores.hardPosRatio
  have hl : (0 : ℚ) < (s.pos.length : ℚ) := by exact_mod_cast Nat.pos_of_ne_zero h
  split
  · rename_i he
    have he' : (0 : ℚ) < (s.easyPos : ℚ) := by exact_mod_cast he
    push_cast
    constructor
    · positivity
    · rw [div_le_one (by linarith)]; linarith
  · exact ⟨by norm_num, le_refl _⟩

theorem hardNegRatio_pos (s : Scores) (h : s.neg.length ≠ 0) :
    0 < s.hardNegRatio ∧ s.hardNegRatio ≤ 1 := by
  unfold Scores.hardNegRatio
  have hl : (0 : ℚ) < (s.neg.length : ℚ) := by exact_mod_cast Nat.pos_of_ne_zero h
  split
  · rename_i he
    have he' : (0 : ℚ) < (s.easyNeg : ℚ) := by exact_mod_cast he
    push_cast
    constructor
    · positivity
    · rw [div_le_one (by linarith)]; linarith
  · exact ⟨by norm_num, le_refl _⟩

theorem hardRatio_eq (s : Scores) (h : s.nbHard ≠ 0) :
    s.hardRatio = (s.nbHard : ℚ) / (s.nbAll : ℚ) := by
  unfold Scores.hardRatio Scores.easyRatio
  have hh : (0 : ℚ) < (s.nbHard : ℚ) := by exact_mod_cast Nat.pos_of_ne_zero h
  have hall : (s.nbAll : ℚ) = (s.nbEasy : ℚ) + (s.nbHard : ℚ) := by
    unfold Scores.nbAll; push_cast; ring
  have he0 : (0 : ℚ) ≤ (s.nbEasy : ℚ) := by positivity
  split
  · rw [hall]; field_simp; ring
  · rename_i he
    have : s.nbEasy = 0 := by omega
    rw [hall, this]; simp
    rw [div_self (ne_of_gt hh)]

theorem rescale_low (s : Scores) (metric : Metric) (r : ℚ) (hr : r ≤ 0) :
    s.rescale metric r ≤ 0 := by
  have hmin : ∀ x : ℚ, x ≤ 0 → min x 1 ≤ 0 := fun x hx => le_trans (min_le_left _ _) hx
  cases metric <;> simp only [Scores.rescale] <;> apply hmin
  · have : max (r * (s.nbAllPos : ℚ) - (s.easyPos : ℚ)) 0 = 0 := by
      apply max_eq_right
      have h1 : (0 : ℚ) ≤ (s.nbAllPos : ℚ) := by positivity
      have h2 : (0 : ℚ) ≤ (s.easyPos : ℚ) := by positivity
      nlinarith
    rw [this]; simp
  · by_cases h : s.pos.length = 0
    · unfold Scores.hardPosRatio
      split
      · simp [h]
      · simpa using hr
    · exact div_nonpos_of_nonpos_of_nonneg hr (le_of_lt (hardPosRatio_pos s h).1)
  · have : max (r * (s.nbAllNeg : ℚ) - (s.easyNeg : ℚ)) 0 = 0 := by
      apply max_eq_right
      have h1 : (0 : ℚ) ≤ (s.nbAllNeg : ℚ) := by positivity
      have h2 : (0 : ℚ) ≤ (s.easyNeg : ℚ) := by positivity
      nlinarith
    rw [this]; simp
  · by_cases h : s.neg.length = 0
    · unfold Scores.hardNegRatio
      split
      · simp [h]
      · simpa using hr
    · exact div_nonpos_of_nonpos_of_nonneg hr (le_of_lt (hardNegRatio_pos s h).1)
  · have : max (r - (s.easyPos : ℚ) / (s.nbAll : ℚ)) 0 = 0 := by
      apply max_eq_right
      have : (0 : ℚ) ≤ (s.easyPos : ℚ) / (s.nbAll : ℚ) := by positivity
      linarith
    rw [this]; simp
  · have : max (r - (s.easyNeg : ℚ) / (s.nbAll : ℚ)) 0 = 0 := by
      apply max_eq_right
      have : (0 : ℚ) ≤ (s.easyNeg : ℚ) / (s.nbAll : ℚ) := by positivity
      linarith
    rw [this]; simp

theorem rescale_high (s : Scores) (metric : Metric) (r : ℚ) (hr : 1 ≤ r)
    (hne : (s.metricArray metric).length ≠ 0) : 1 ≤ s.rescale metric r := by
  have hmin : ∀ x : ℚ, 1 ≤ x → 1 ≤ min x 1 := fun x hx => le_min hx (le_refl _)
  cases metric <;> simp only [Scores.rescale] <;> apply hmin <;>
    simp only [Scores.metricArray] at hne
  · have hl : (0 : ℚ) < (s.pos.length : ℚ) := by exact_mod_cast Nat.pos_of_ne_zero hne
    rw [le_div_iff₀ hl]
    have : (s.nbAllPos : ℚ) = (s.easyPos : ℚ) + (s.pos.length : ℚ) := by
      unfold Scores.nbAllPos; push_cast; ring
    have h2 : (0 : ℚ) ≤ (s.easyPos : ℚ) := by positivity
    apply le_max_of_le_left
    rw [this]; nlinarith
  · obtain ⟨h1, h2⟩ := hardPosRatio_pos s hne
    rw [le_div_iff₀ h1]; linarith
  · have hl : (0 : ℚ) < (s.neg.length : ℚ) := by exact_mod_cast Nat.pos_of_ne_zero hne
    rw [le_div_iff₀ hl]
    have : (s.nbAllNeg : ℚ) = (s.easyNeg : ℚ) + (s.neg.length : ℚ) := by
      unfold Scores.nbAllNeg; push_cast; ring
    have h2 : (0 : ℚ) ≤ (s.easyNeg : ℚ) := by positivity
    apply le_max_of_le_left
    rw [this]; nlinarith
  · obtain ⟨h1, h2⟩ := hardNegRatio_pos s hne
    rw [le_div_iff₀ h1]; linarith
  all_goals
    rw [length_concat] at hne
    have hh : s.nbHard ≠ 0 := by unfold Scores.nbHard; omega
    have hhq : (0 : ℚ) < (s.nbHard : ℚ) := by exact_mod_cast Nat.pos_of_ne_zero hh
    have hall : (s.nbAll : ℚ) = (s.easyPos : ℚ) + (s.easyNeg : ℚ) + (s.nbHard : ℚ) := by
      unfold Scores.nbAll Scores.nbEasy; push_cast; ring
    have hallpos : (0 : ℚ) < (s.nbAll : ℚ) := by
      rw [hall]; have : (0:ℚ) ≤ (s.easyPos : ℚ) := by positivity
      have : (0:ℚ) ≤ (s.easyNeg : ℚ) := by positivity
      linarith
    rw [hardRatio_eq s hh, le_div_iff₀ (by positivity)]
    apply le_max_of_le_left
    rw [one_mul, div_le_iff₀ hallpos, sub_mul, div_mul_cancel₀ _ (ne_of_gt hallpos)]
    have h1 : (0:ℚ) ≤ (s.easyPos : ℚ) := by positivity
    have h2 : (0:ℚ) ≤ (s.easyNeg : ℚ) := by positivity
    nlinarith

end SA
