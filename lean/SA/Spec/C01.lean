/-
C01 spec clauses as executable predicates of (input, observed output).
The driver evaluates them on the implementation's observed matrices; SA/Theorems/C01.lean
proves the model satisfies them for all inputs.
-/
import SA.Model.Basic

namespace SA.Spec.C01
open SA

/-- cells are exactly the counts by the documented decision rule (+ easy samples) -/
def cellsOK (pos neg : List Rat) (ep en : Nat) (cfg : Cfg) (t : ERat) (m : CM) : Bool :=
  m == countCM pos neg ep en cfg t

/-- row sums do not depend on the threshold -/
def totalsOK (pos neg : List Rat) (ep en : Nat) (m : CM) : Bool :=
  m.tp + m.fn == pos.length + ep && m.fp + m.tn == neg.length + en

/-- the pointwise membership array summed over samples is the count -/
def pointwiseOK (cfg : Cfg) (samples : List (Bool × Rat)) (t : ERat) (m : CM) : Bool :=
  m == countCM ((samples.filter (fun s => s.1)).map (·.2))
    ((samples.filter (fun s => !s.1)).map (·.2)) 0 0 cfg t

end SA.Spec.C01
