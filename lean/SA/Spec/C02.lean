/-
C02 / C03 spec clauses: executable predicates of (input, observed thresholds, observed
confusion matrices at and next to those thresholds).
-/
import SA.Model.Threshold

namespace SA.Spec
open SA

/-- numerator of the lowest / highest achievable value of a metric -/
def minNum (s : Scores) : Metric → Nat
  | .tpr => s.easyPos
  | .fnr => 0
  | .tnr => s.easyNeg
  | .fpr => 0
  | .topr => s.easyPos
  | .tonr => s.easyNeg

def maxNum (s : Scores) : Metric → Nat
  | .tpr => s.easyPos + s.pos.length
  | .fnr => s.pos.length
  | .tnr => s.easyNeg + s.neg.length
  | .fpr => s.neg.length
  | .topr => s.easyPos + (s.pos.length + s.neg.length)
  | .tonr => s.easyNeg + (s.pos.length + s.neg.length)

/-- relevant population, easy samples included -/
def denom (s : Scores) : Metric → Nat
  | .tpr => s.nbAllPos
  | .fnr => s.nbAllPos
  | .tnr => s.nbAllNeg
  | .fpr => s.nbAllNeg
  | .topr => s.nbAll
  | .tonr => s.nbAll

def rateQ (s : Scores) (metric : Metric) (m : CM) : Rat :=
  (m.rateNum metric : Rat) / (denom s metric : Rat)

def clipQ (x lo hi : Rat) : Rat := max lo (min x hi)

/-- target clipped to the achievable range -/
def clipped (s : Scores) (metric : Metric) (r : Rat) : Rat :=
  clipQ r ((minNum s metric : Rat) / (denom s metric : Rat))
    ((maxNum s metric : Rat) / (denom s metric : Rat))

def absQ (x : Rat) : Rat := if x < 0 then -x else x

namespace C03

/-- `r ≤ 0` ⇒ the metric at the returned threshold is exactly its lowest achievable value;
`r ≥ 1` ⇒ exactly its highest. `m` is the matrix at the returned threshold. -/
def extremeOK (s : Scores) (metric : Metric) (r : Rat) (m : CM) : Bool :=
  (if r ≤ 0 then m.rateNum metric == minNum s metric else true) &&
  (if 1 ≤ r then m.rateNum metric == maxNum s metric else true)

end C03

namespace C02

/-- the values of the metric just below (`mB`) and just above (`mA`) the returned threshold
bracket the clipped target to within one sample (+ `eps` for float rounding of the target). -/
def bracketOK (s : Scores) (metric : Metric) (r eps : Rat) (mB mA : CM) : Bool :=
  let n : Rat := (denom s metric : Rat)
  let rc := clipped s metric r
  let a := rateQ s metric mB
  let b := rateQ s metric mA
  decide (min a b - 1 / n - eps ≤ rc) && decide (rc ≤ max a b + 1 / n + eps)

/-- the metric at the returned threshold is within one sample of the clipped target -/
def withinOK (s : Scores) (metric : Metric) (r eps : Rat) (m : CM) : Bool :=
  decide (absQ (rateQ s metric m - clipped s metric r) ≤ 1 / (denom s metric : Rat) + eps)

/-- no repeated value in a sorted list -/
def strictlySorted : List Rat → Bool
  | a :: b :: rest => decide (a < b) && strictlySorted (b :: rest)
  | _ => true

/-- tie-free relevant scores ⇒ `withinOK` -/
def tiefreeOK (s : Scores) (metric : Metric) (r eps : Rat) (m : CM) : Bool :=
  if strictlySorted (s.metricArray metric) then withinOK s metric r eps m else true

/-- `lower` / `higher` return a sample score or a sentinel one ulp outside the range -/
def memberOK (ulp : Ulp) (s : Scores) (metric : Metric) (t : Rat) : Bool :=
  let a := s.metricArray metric
  a.contains t || t == ulp.down (a.getD 0 0) || t == ulp.up (a.getD (a.length - 1) 0)

/-- metric(lower) ≤ metric(higher) -/
def orderOK (metric : Metric) (mLo mHi : CM) : Bool := mLo.rateNum metric ≤ mHi.rateNum metric

/-- `linear` lies between `lower` and `higher` (up to `epst`) -/
def betweenOK (tLin tLo tHi epst : Rat) : Bool :=
  decide (min tLo tHi - epst ≤ tLin) && decide (tLin ≤ max tLo tHi + epst)

/-- `linear` is the convex combination of the two, weighted by the fractional part of the
index target; only claimed for interior targets (neither special case applies). -/
def convexOK (s : Scores) (metric : Metric) (r : Rat) (tLin tLo tHi epst : Rat) : Bool :=
  let a := s.metricArray metric
  let n := normalise s.cfg (s.rescale metric r) metric.increasing metric.ratioClass .lower
  let r2 := n.1
  let lc := n.2.1
  let x := indexTarget a r2 lc
  let shifted : Rat := if lc then r2 else r2 - 1 / (a.length : Rat)
  if decide (1 ≤ r2) || decide (shifted ≤ 0) then true
  else
    let la : Rat := ((ceilQ x : Int) : Rat) - x
    -- which observed threshold plays the role of the normalised lower one
    let nLo := if n.2.2 == .lower then tLo else tHi
    let nHi := if n.2.2 == .lower then tHi else tLo
    decide (absQ (tLin - (la * nLo + (1 - la) * nHi)) ≤ epst)

/-- direction in which the threshold moves with the target: `true` = non-decreasing -/
def thresholdIncreasing (cfg : Cfg) (metric : Metric) : Bool :=
  metric.increasing == (cfg.scoreClass == .pos)

/-- thresholds for ascending targets are monotone in the right direction -/
def monotoneOK (cfg : Cfg) (metric : Metric) (epst : Rat) : List Rat → Bool
  | t1 :: t2 :: rest =>
    (if thresholdIncreasing cfg metric then decide (t1 ≤ t2 + epst) else decide (t2 ≤ t1 + epst))
      && monotoneOK cfg metric epst (t2 :: rest)
  | _ => true

end C02
end SA.Spec
