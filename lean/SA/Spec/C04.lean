/-
C04 spec clauses.  Observed rates are passed as `Option Rat` (`none` = NaN) in the order
  [tpr, fnr, tnr, fpr, ppv, fdr, npv, for_, topr, tonr, accuracy, errorRate]
and observed basic counts as [p, n, top, ton, pop].
-/
import SA.Model.Metrics

namespace SA.Spec.C04
open SA

def absQ (x : Rat) : Rat := if x < 0 then -x else x
def near (eps a b : Rat) : Bool := decide (absQ (a - b) ≤ eps)

/-- P+N = TOP+TON = POP on the observed counts -/
def countsOK (eps : Rat) (p n top ton pop : Rat) : Bool :=
  near eps (p + n) pop && near eps (top + ton) pop

/-- a complementary pair sums to one when defined, and both are NaN together -/
def pairOK (eps : Rat) : Option Rat → Option Rat → Bool
  | some a, some b => near eps (a + b) 1
  | none, none => true
  | _, _ => false

def inUnit (eps : Rat) : Option Rat → Bool
  | some a => decide (-eps ≤ a) && decide (a ≤ 1 + eps)
  | none => true

/-- NaN exactly when the denominator is zero -/
def nanIff (den : Rat) (r : Option Rat) : Bool := (den == 0) == r.isNone

structure Rates where
  tpr : Option Rat
  fnr : Option Rat
  tnr : Option Rat
  fpr : Option Rat
  ppv : Option Rat
  fdr : Option Rat
  npv : Option Rat
  for_ : Option Rat
  topr : Option Rat
  tonr : Option Rat
  acc : Option Rat
  err : Option Rat

def modelRates (m : CMq) : Rates :=
  ⟨m.tpr, m.fnr, m.tnr, m.fpr, m.ppv, m.fdr, m.npv, m.for_, m.topr, m.tonr, m.accuracy, m.errorRate⟩

/-- the six complement identities -/
def complementsOK (eps : Rat) (r : Rates) : Bool :=
  pairOK eps r.tpr r.fnr && pairOK eps r.tnr r.fpr && pairOK eps r.ppv r.fdr &&
  pairOK eps r.npv r.for_ && pairOK eps r.topr r.tonr && pairOK eps r.acc r.err

def rangeOK (eps : Rat) (r : Rates) : Bool :=
  inUnit eps r.tpr && inUnit eps r.fnr && inUnit eps r.tnr && inUnit eps r.fpr &&
  inUnit eps r.ppv && inUnit eps r.fdr && inUnit eps r.npv && inUnit eps r.for_ &&
  inUnit eps r.topr && inUnit eps r.tonr && inUnit eps r.acc && inUnit eps r.err

def nanOK (m : CMq) (r : Rates) : Bool :=
  nanIff m.p r.tpr && nanIff m.p r.fnr && nanIff m.n r.tnr && nanIff m.n r.fpr &&
  nanIff m.top r.ppv && nanIff m.top r.fdr && nanIff m.ton r.npv && nanIff m.ton r.for_ &&
  nanIff m.pop r.topr && nanIff m.pop r.tonr && nanIff m.pop r.acc && nanIff m.pop r.err

/-- definitions: each observed rate is its defining quotient -/
def defOK (eps : Rat) (num den : Rat) : Option Rat → Bool
  | some a => den != 0 && near (eps * (1 + absQ den)) (a * den) num  -- relative to the population
  | none => den == 0

def definitionsOK (eps : Rat) (m : CMq) (r : Rates) : Bool :=
  defOK eps m.tp m.p r.tpr && defOK eps m.fn m.p r.fnr && defOK eps m.tn m.n r.tnr &&
  defOK eps m.fp m.n r.fpr && defOK eps m.tp m.top r.ppv && defOK eps m.fp m.top r.fdr &&
  defOK eps m.tn m.ton r.npv && defOK eps m.fn m.ton r.for_ && defOK eps m.top m.pop r.topr &&
  defOK eps m.ton m.pop r.tonr && defOK eps (m.tp + m.tn) m.pop r.acc &&
  defOK eps (m.fn + m.fp) m.pop r.err

/-! Confidence intervals: observed `(lo, hi)` or NaN. -/

/-- centred on the rate; half-width squared equals `z² p(1-p)/n`; NaN exactly when the rate is -/
def ciOK (eps : Rat) (z count nobs : Rat) : Option (Rat × Rat) → Bool
  | none => nobs == 0
  | some (lo, hi) =>
    match binomialCIParts count nobs with
    | none => false
    | some (p, v) =>
      near eps (lo + hi) (2 * p) &&
      near eps (((hi - lo) / 2) * ((hi - lo) / 2)) (z * z * v) && decide (lo ≤ hi + eps)

/-- interval of the complementary rate is the mirrored interval -/
def mirrorOK (eps : Rat) : Option (Rat × Rat) → Option (Rat × Rat) → Bool
  | some (lo, hi), some (lo', hi') => near eps lo' (1 - hi) && near eps hi' (1 - lo)
  | none, none => true
  | _, _ => false

/-- nested in alpha: the interval for the larger alpha lies inside the one for the smaller -/
def nestedOK (eps : Rat) : Option (Rat × Rat) → Option (Rat × Rat) → Bool
  | some (lo1, hi1), some (lo2, hi2) => decide (lo1 ≤ lo2 + eps) && decide (hi2 ≤ hi1 + eps)
  | none, none => true
  | _, _ => false

end SA.Spec.C04
