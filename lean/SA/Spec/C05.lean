/-
C05 spec clauses, evaluated on the implementation's observed matrices (`Mat` = the observed
array read through `Mat.ofList`) and on the model's own outputs (theorems in Theorems/C05.lean).
-/
import SA.Model.Multiclass
import SA.Spec.C04

namespace SA.Spec.C05
open SA SA.Spec.C04

def allIdx (n : Nat) (f : Nat → Bool) : Bool := (List.range n).all f
def allIdx2 (n : Nat) (f : Nat → Nat → Bool) : Bool := allIdx n fun i => allIdx n fun j => f i j

/-- the documented content of an entry: total weight of the samples with label `a` and
prediction `b` -/
def weightOf : List Sample → Nat → Nat → Rat
  | [], _, _ => 0
  | s :: r, a, b => (if s.label = a ∧ s.pred = b then s.weight else 0) + weightOf r a b

/-- entry `[i, j]` is the total weight of the samples with label `classes[i]` and prediction
`classes[j]` -/
def entryOK (eps : Rat) (classes : List Nat) (samples : List Sample) (obs : Mat) : Bool :=
  allIdx2 classes.length fun i j =>
    near eps (obs i j) (weightOf samples (classes.getD i 0) (classes.getD j 0))

/-- a matrix given by labels (`get r c` = the value for label class `r`, predicted class `c`) is
laid out in the requested class order -/
def reorderOK (eps : Rat) (get : Nat → Nat → Rat) (classes : List Nat) (obs : Mat) : Bool :=
  allIdx2 classes.length fun i j => near eps (obs i j) (get (classes.getD i 0) (classes.getD j 0))

/-- the value for a pair of labels, of a matrix stored in the class order `src` -/
def byLabel (src : List Nat) (M : Mat) : Nat → Nat → Rat := fun r c => M (src.idxOf r) (src.idxOf c)

/-- the value for a pair of labels, of a frame with row names `rows` and column names `cols` -/
def byLabel2 (rows cols : List Nat) (M : Mat) : Nat → Nat → Rat :=
  fun r c => M (rows.idxOf r) (cols.idxOf c)

/-- every one-vs-all 2x2 sums to the total of the N x N matrix -/
def ovaConservesOK (eps : Rat) (n : Nat) (M : Mat) (cells : Nat → CMq) : Bool :=
  allIdx n fun j => near eps (cells j).pop (total n M)

/-- TP_j is the diagonal entry, P_j the row sum and TOP_j the column sum -/
def ovaCellsOK (eps : Rat) (n : Nat) (M : Mat) (cells : Nat → CMq) : Bool :=
  allIdx n fun j => near eps (cells j).tp (M j j) && near eps (cells j).p (rowSum n M j) &&
    near eps (cells j).top (colSum n M j)

/-- accuracy is trace over population, NaN exactly when the population is zero -/
def accuracyOK (eps : Rat) (n : Nat) (M : Mat) (acc : Option Rat) : Bool :=
  defOK eps (trace n M) (total n M) acc

/-- observed per-class counts `tp`, `p`, `top` against the N x N matrix -/
def classCountsOK (eps : Rat) (n : Nat) (M : Mat) (tp p top : Nat → Rat) : Bool :=
  allIdx n fun j => near eps (tp j) (M j j) && near eps (p j) (rowSum n M j) &&
    near eps (top j) (colSum n M j)

/-- observed per-class recall, precision, false positive rate and class accuracy against the
N x N matrix -/
def classRatesOK (eps : Rat) (n : Nat) (M : Mat) (tpr ppv fpr cacc : Nat → Option Rat) : Bool :=
  allIdx n fun j =>
    defOK eps (M j j) (rowSum n M j) (tpr j) &&
    defOK eps (M j j) (colSum n M j) (ppv j) &&
    defOK eps (colSum n M j - M j j) (total n M - rowSum n M j) (fpr j) &&
    defOK eps (total n M - rowSum n M j - colSum n M j + 2 * M j j) (total n M) (cacc j)

def nearO (eps : Rat) : Option Rat → Option Rat → Bool
  | some a, some b => near eps a b
  | none, none => true
  | _, _ => false

def nearL (eps : Rat) : List (Option Rat) → List (Option Rat) → Bool
  | [], [] => true
  | a :: as, b :: bs => nearO eps a b && nearL eps as bs
  | _, _ => false

/-- permutation equivariance of a per-class quantity: position `i` of the permuted run holds
what position `p[i]` of the original run holds -/
def permOK (eps : Rat) (n : Nat) (p : List Nat) (v w : Nat → List (Option Rat)) : Bool :=
  allIdx n fun i => nearL eps (w i) (v (p.getD i 0))

def cellList (c : CMq) : List (Option Rat) := [some c.tp, some c.fn, some c.fp, some c.tn]

/-- the `as_dict` form has the classes as keys, in order, and under `classes[j]` the `j`-th entry
of the array form -/
def asDictOK {α} [BEq α] (classes : List Nat) (vals : List α) (d : List (Nat × α)) : Bool :=
  (d.map Prod.fst == classes) && (vals.length == classes.length) &&
  allIdx classes.length fun j =>
    match d.lookup (classes.getD j 0), vals[j]? with
    | some a, some b => a == b
    | _, _ => false

end SA.Spec.C05
