/-
C06 spec clauses: observed `(t, e)` of `eer()` and the implementation's own matrix at `t`.
-/
import SA.Model.Eer
import SA.Spec.C02

namespace SA.Spec.C06
open SA SA.Spec

/-- 0 ≤ e ≤ min(hard_pos_ratio, hard_neg_ratio) (≤ 1) -/
def rangeOK (eps : Rat) (s : Scores) (e : Rat) : Bool :=
  decide (-eps ≤ e) && decide (e ≤ min s.hardPosRatio s.hardNegRatio + eps) && decide (e ≤ 1 + eps)

/-- |FPR(t) − e| ≤ 1/N_neg, from the matrix `m` at `t` -/
def fprSideOK (eps : Rat) (s : Scores) (e : Rat) (m : CM) : Bool :=
  decide (absQ (rateQ s .fpr m - e) ≤ 1 / (denom s .fpr : Rat) + eps)

/-- |FNR(t) − e| ≤ 1/N_pos -/
def fnrSideOK (eps : Rat) (s : Scores) (e : Rat) (m : CM) : Bool :=
  decide (absQ (rateQ s .fnr m - e) ≤ 1 / (denom s .fnr : Rat) + eps)

/-- no value repeated within or across the classes -/
def tieFree (s : Scores) : Bool := C02.strictlySorted (sortQ (s.pos ++ s.neg))

/-- tie-free ⇒ both sides within one sample -/
def crossingOK (eps : Rat) (s : Scores) (e : Rat) (m : CM) : Bool :=
  if tieFree s then fprSideOK eps s e m && fnrSideOK eps s e m else true

/-- a reported EER of exactly 0 comes with a threshold without errors -/
def zeroOK (e : Rat) (m : CM) : Bool := if e = 0 then m.fp == 0 && m.fn == 0 else true

end SA.Spec.C06
