/-
C07 spec clauses, evaluated on the observed AUC values.
-/
import SA.Model.Auc

namespace SA.Spec.C07
open SA

def nearO (eps : Rat) : Option Rat → Option Rat → Bool
  | some a, some b => decide (absR (a - b) ≤ eps)
  | none, none => true
  | _, _ => false

/-- the full AUC (FPR on x, TPR on y) is the Mann–Whitney statistic -/
def mwOK (eps : Rat) (s : Scores) (obs : Option Rat) : Bool := nearO eps (mannWhitney s) obs

/-- without cross-class ties the partial AUC over `[lower, upper]` is the exact step area -/
def stepOK (eps : Rat) (s : Scores) (lower upper : Rat) (obs : Option Rat) : Bool :=
  if noCrossTies s then nearO eps (stepArea s lower upper) obs else true

/-- `obs ≤ upper - lower` and `obs ≥ 0` -/
def boundOK (eps lower upper : Rat) : Option Rat → Bool
  | some a => decide (-eps ≤ a) && decide (a ≤ upper - lower + eps)
  | none => true

end SA.Spec.C07
