/-
C08 spec clauses: relations between the observed outputs of two runs (original and
transformed object).
-/
import SA.Model.Basic

namespace SA.Spec.C08
open SA

/-- matrix of the swapped object = matrix of the original with rows and columns exchanged -/
def swapOK (m m' : CM) : Bool := m' == ⟨m.tn, m.fp, m.fn, m.tp⟩

/-- matrices agree (negated / rescaled object at the mapped threshold) -/
def sameOK (m m' : CM) : Bool := m == m'

def absQ (x : Rat) : Rat := if x < 0 then -x else x

/-- a threshold of the transformed object is the image of the original threshold -/
def mappedOK (eps a b t t' : Rat) : Bool := decide (absQ (t' - (a * t + b)) ≤ eps)

end SA.Spec.C08
