/-
C10 — executable predicates evaluated by the driver on an OBSERVED history: the query list
and, for each query, a token describing what the implementation returned (exact encoding of
the value, or the exception type).  Imports the model only.
-/
import SA.Model.History

namespace SA.Spec.C10
open SA

/-- one observation per query -/
def lengthOK {β : Type} (qs : List Query) (obs : List β) : Bool := obs.length == qs.length

/-- two (query, observation) pairs do not contradict each other: if they are the same question
(same query after resolving aliases) the observations are identical -/
def sameAnswer {β : Type} [DecidableEq β] (a b : Query × β) : Bool :=
  !(decide (a.1.norm = b.1.norm)) || decide (a.2 = b.2)

/-- per position: no other position of the history contradicts it -/
def repeatFlags {β : Type} [DecidableEq β] (qs : List Query) (obs : List β) : List Bool :=
  (qs.zip obs).map fun a => (qs.zip obs).all (sameAnswer a)

/-- Repeat / alias clause: whenever two calls of the history are the same question, the two
observations are identical.  This is "repeating a deterministic query returns identical
results" together with "aliases return identical values", on whatever was observed. -/
def repeatOK {β : Type} [DecidableEq β] (qs : List Query) (obs : List β) : Bool :=
  (repeatFlags qs obs).all id

/-- Shape clauses. `x` is the shape of the argument array, `out` the shape of the result. -/
def matrixShapeOK (x out : List Nat) : Bool := out == x ++ [2, 2]
def sameShapeOK (x out : List Nat) : Bool := out == x
def pointwiseShapeOK (a x out : List Nat) : Bool := out == a ++ x ++ [2, 2]

end SA.Spec.C10
