/-
C11 spec clauses as executable predicates of (source, configuration, OBSERVED sample, OBSERVED
request trace).  The driver evaluates them on what the implementation produced; SA/Theorems/C11.lean
proves the model satisfies them on every run whose answers lie in the supports.
-/
import SA.Model.Sampling

namespace SA.Spec.C11
open SA

def absQ (x : Rat) : Rat := if x < 0 then -x else x

/-- `a` equals `b` up to relative error `eps` (`eps = 0`: equality) -/
def closeQ (eps a b : Rat) : Bool := decide (absQ (a - b) ≤ eps * absQ b)

/-- the sample keeps `score_class` and `equal_class` -/
def flagsOK (s out : Scores) : Bool := out.cfg == s.cfg

/-- every sampled score is a score of the source's same class (smoothing off) -/
def subsetOK (s out : Scores) : Bool :=
  out.pos.all (fun v => s.pos.contains v) && out.neg.all (fun v => s.neg.contains v)

/-- multiset inclusion: no score is sampled more often than the source holds it
(sampling without replacement) -/
def multisetOK (s out : Scores) : Bool :=
  out.pos.all (fun v => decide (out.pos.count v ≤ s.pos.count v)) &&
  out.neg.all (fun v => decide (out.neg.count v ≤ s.neg.count v))

/-- the held arrays are non-decreasing: by C01 (`cm_eq_countCM_of_sorted`) this is what makes
every metric of the sample equal direct counting -/
def sortedOK (out : Scores) : Bool :=
  decide (out.pos.Pairwise (· ≤ ·)) && decide (out.neg.Pairwise (· ≤ ·))

/-- at least one scored positive / negative whenever the source has one -/
def atLeastOneOK (s out : Scores) : Bool :=
  (s.pos.isEmpty || !out.pos.isEmpty) && (s.neg.isEmpty || !out.neg.isEmpty)

/-- replacement sampling preserves the total number of samples -/
def totalOK (s out : Scores) : Bool := out.nbAll == s.nbAll

/-- stratified by label: easy strata exact; scored strata exact for replacement sampling -/
def strataOK (s : Scores) (singlePass : Bool) (out : Scores) : Bool :=
  out.easyPos == s.easyPos && out.easyNeg == s.easyNeg &&
  (singlePass || (out.pos.length == s.pos.length && out.neg.length == s.neg.length))

/-- the float product oracle is a faithful rounding of the exact product -/
def fmulOK (c : BootCfg) (ratio : Rat) (n : Nat) : Bool :=
  decide (absQ (c.fmul ratio n - ratio * n) ≤ absQ (ratio * n) / 4503599627370496)

/-- proportion sampling: `max(⌊ratio·n⌋, 1)` scored samples per class drawn without
replacement, `⌊ratio·easy⌋` easy samples -/
def proportionOK (c : BootCfg) (ratio : Rat) (s out : Scores) : Bool :=
  out.pos.length == proportionSize c ratio s.pos.length &&
  out.neg.length == proportionSize c ratio s.neg.length &&
  out.easyPos == truncNat (c.fmul ratio s.easyPos) &&
  out.easyNeg == truncNat (c.fmul ratio s.easyNeg) &&
  multisetOK s out

def isSizedChoice : Req → Bool
  | .choice _ (some _) _ => true
  | _ => false

def isSizedCounts : Req → Bool
  | .binomial _ _ (some _) => true
  | .poisson _ (some _) => true
  | _ => false

/-- "dynamic" resolves to single-pass sampling exactly when both classes have at least 100
scored samples and smoothing is off; read off the kind of requests issued -/
def dynamicOK (s : Scores) (smoothing : Bool) (obs : List Req) : Bool :=
  let expectRepl := decide (s.pos.length < 100) || decide (s.neg.length < 100) || smoothing
  if expectRepl then obs.any isSizedChoice && !obs.any isSizedCounts
  else obs.any isSizedCounts && !obs.any isSizedChoice

/-! ### Unbiasedness, as relations between the request parameters

With the textbook means (`E Bin(n,p) = n·p`, `E Poisson(lam) = lam`, uniform `choice`):
* class split `Bin(N, p)` with `N = nb_all_samples`, `p = nb_all_pos / N`: expected class sizes
  are the source's,
* easy split `Bin(n_class, easy ratio of the class)` with the two class sizes adding up to `N`:
  expected stratum sizes are the source's,
* multiplicities of the `k` scored samples of a class: `size = k` draws of `Bin(n, p)` with
  `p·k = 1`, or of `Poisson(lam)` with `lam·k = n`, where `n` is the number of scored samples
  drawn for that class: every score is selected `n/k` times on average,
* replacement: `n` uniform draws from `range(k)`: the same mean.
-/

abbrev Obs := List (Req × List Nat)

/-- the three scalar binomials of non-stratified sampling; returns the numbers of scored
samples to draw per class and the remaining requests -/
def strataReqs (eps : Rat) (s : Scores) : Obs → Option (Nat × Nat × Obs)
  | (.binomial n0 p0 none, _) :: (.binomial n1 p1 none, r1) :: (.binomial n2 p2 none, r2) :: rest =>
    if n0 == s.nbAll && closeQ eps p0 s.posNegRatio && n1 + n2 == s.nbAll &&
        closeQ eps p1 s.easyPosRatio && closeQ eps p2 s.easyNegRatio then
      some (hardDrawn n1 (r1.headD 0) s.pos.length, hardDrawn n2 (r2.headD 0) s.neg.length, rest)
    else none
  | _ => none

/-- a multiplicity request for a class with `k` scored samples of which `n` are to be drawn -/
def countsReqOK (eps : Rat) (k n : Nat) : Req → Bool
  | .binomial n' p (some size) => size == k && n' == n && (k == 0 || closeQ eps (p * k) 1)
  | .poisson lam (some size) => size == k && (k == 0 || closeQ eps (lam * k) n)
  | _ => false

/-- a replacement request for a class -/
def choiceReqOK (k n : Nat) : Req → Bool
  | .choice a (some size) true => a == k && size == n
  | _ => false

/-- the at-least-one corrections of single-pass sampling: exactly when all multiplicities of a
class are zero (and some are to be drawn) one index is drawn uniformly from that class -/
def forcedReqs (kPos kNeg nPos nNeg : Nat) (rPos rNeg : List Nat) : List Req :=
  (if nPos > 0 ∧ rPos.all (· == 0) = true then [Req.choice kPos none true] else []) ++
  (if nNeg > 0 ∧ rNeg.all (· == 0) = true then [Req.choice kNeg none true] else [])

def isNormal : Req → Bool
  | .normal _ => true
  | _ => false

def unbiasedOK (eps : Rat) (s : Scores) (byLabel singlePass : Bool) (obs : Obs) : Bool :=
  let obs := obs.filter (fun x => !isNormal x.1)
  let start : Option (Nat × Nat × Obs) :=
    if byLabel then some (s.pos.length, s.neg.length, obs) else strataReqs eps s obs
  match start with
  | none => false
  | some (hp, hn, rest) =>
    if singlePass then
      match rest with
      | (q1, r1) :: (q2, r2) :: extra =>
        countsReqOK eps s.pos.length hp q1 && countsReqOK eps s.neg.length hn q2 &&
        extra.map (·.1) == forcedReqs s.pos.length s.neg.length hp hn r1 r2
      | _ => false
    else
      match rest with
      | [(q1, _), (q2, _)] => choiceReqOK s.pos.length hp q1 && choiceReqOK s.neg.length hn q2
      | _ => false

end SA.Spec.C11
