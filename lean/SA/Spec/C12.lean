/-
C12 spec clauses as executable predicates of (input / source, OBSERVED output).  The driver
evaluates them on what the implementation produced; SA/Theorems/C12.lean proves the model
satisfies them (for sampling: on every run whose answers lie in the supports).
-/
import SA.Model.Group
import SA.Spec.C11

namespace SA.Spec.C12
open SA

/-- the same multiset of `(score, label)` pairs: every score kept the label it was given -/
def permOK (src obs : List (Rat × Nat)) : Bool := obs.isPerm src

/-- every observed `(score, label)` pair is a pair of the source (same class): a selection of the
source's pairs, labels still attached -/
def attachedOK (src obs : List (Rat × Nat)) : Bool := obs.all (fun p => src.contains p)

/-- the held array is non-decreasing in the score -/
def sortedOK (l : List (Rat × Nat)) : Bool := decide (l.Pairwise (fun a b => a.1 ≤ b.1))

/-- `gs[grp]` holds exactly the scores whose label is `grp`, in the order of the held arrays,
with the object's flags and no easy samples -/
def getitemOK (g : GScores) (grp : Nat) (obs : Scores) : Bool :=
  obs.pos == c12_filterGroup g.pos grp && obs.neg == c12_filterGroup g.neg grp &&
  obs.easyPos == 0 && obs.easyNeg == 0 && obs.cfg == g.cfg

/-- a group's matrix is the count by the documented decision rule over the scores carrying that
label -/
def groupCmOK (g : GScores) (grp : Nat) (t : ERat) (obs : CM) : Bool :=
  obs == countCM (c12_filterGroup g.pos grp) (c12_filterGroup g.neg grp) 0 0 g.cfg t

/-- the precondition of the partition clause: the group list is duplicate-free and contains every
label that occurs in the data (true for the default list) -/
def coversOK (g : GScores) : Bool :=
  decide g.groups.Nodup && (g.pos ++ g.neg).all (fun p => g.groups.contains p.2)

/-- the group matrices sum cell-wise to the overall matrix -/
def partitionOK (groupCms : List CM) (overall : CM) : Bool := c12_sumCM groupCms == overall

/-- number of samples (both classes) carrying label `grp` -/
def labelCount (g : GScores) (grp : Nat) : Nat :=
  g.pos.countP (fun p => p.2 == grp) + g.neg.countP (fun p => p.2 == grp)

/-- stratified by group: every group keeps its number of samples -/
def groupCountsOK (src out : GScores) : Bool :=
  src.groups.all (fun grp => labelCount out grp == labelCount src grp)

/-- the list and order of group names is preserved -/
def namesOK (src out : GScores) : Bool := out.groups == src.groups

/-- flags preserved -/
def flagsOK (src out : GScores) : Bool := out.cfg == src.cfg

/-- `swap()`: pairs move to the other class with their labels, flags flipped -/
def swapOK (g obs : GScores) : Bool :=
  obs.pos == g.neg && obs.neg == g.pos && obs.cfg == g.cfg.swap

/-! ### what each stratification mode asks of the RNG

`None` draws the class split of the whole object, `by_label` keeps it, `by_group` draws, for each
listed group in order, the class split INSIDE the group (so only the group's total is preserved).
Read off the observed requests with the per-call relations of `Spec.C11` (class split
`Bin(N, nb_pos/N)`, multiplicities `size = k`, replacement draws from `range(k)`, forced index
exactly when all multiplicities are zero). -/

open Spec.C11 in
/-- consume the requests of ONE `_sample_indices(by_label, single_pass)` call on `s` from the front
of `obs`; the remaining requests, or `none` if they do not fit -/
def consumeReqs (eps : Rat) (s : Scores) (byLabel singlePass : Bool) (obs : Obs) : Option Obs :=
  let start : Option (Nat × Nat × Obs) :=
    if byLabel then some (s.pos.length, s.neg.length, obs) else strataReqs eps s obs
  match start with
  | none => none
  | some (hp, hn, rest) =>
    if singlePass then
      match rest with
      | (q1, r1) :: (q2, r2) :: extra =>
        let forced := forcedReqs s.pos.length s.neg.length hp hn r1 r2
        if countsReqOK eps s.pos.length hp q1 && countsReqOK eps s.neg.length hn q2 &&
            (extra.take forced.length).map (·.1) == forced then some (extra.drop forced.length)
        else none
      | _ => none
    else
      match rest with
      | (q1, _) :: (q2, _) :: extra =>
        if choiceReqOK s.pos.length hp q1 && choiceReqOK s.neg.length hn q2 then some extra else none
      | _ => none

def isDone : Option Spec.C11.Obs → Bool
  | some [] => true
  | _ => false

/-- the observed requests are those of the stratification mode -/
def stratReqsOK (eps : Rat) (g : GScores) (strat : Strat) (singlePass : Bool)
    (obs : Spec.C11.Obs) : Bool :=
  match strat with
  | .none => isDone (consumeReqs eps g.toScores false singlePass obs)
  | .byLabel => isDone (consumeReqs eps g.toScores true singlePass obs)
  | .byGroup => isDone (g.groups.foldl
      (fun acc grp => acc.bind (consumeReqs eps (g.groupScores grp) false singlePass)) (some obs))
  | .unknown => true

end SA.Spec.C12
