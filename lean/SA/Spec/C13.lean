/-
C13 spec clauses: observed limits `(lo, hi)` (each possibly NaN = none) of
`utils.bootstrap_ci` for one metric component and one alpha.
-/
import SA.Model.Bootstrap

namespace SA.Spec.C13
open SA

def absQ (x : Rat) : Rat := if x < 0 then -x else x

def nearO (eps : Rat) : Option Rat → Option Rat → Bool
  | some a, some b => decide (absQ (a - b) ≤ eps)
  | none, none => true
  | _, _ => false

/-- the observed limits are what the documented formula gives (the model *is* the formula) -/
def formulaOK (eps : Rat) (model obs : Option Rat × Option Rat) : Bool :=
  nearO eps model.1 obs.1 && nearO eps model.2 obs.2

/-- ordered, with NaN only together -/
def orderedOK : Option Rat × Option Rat → Bool
  | (some lo, some hi) => decide (lo ≤ hi)
  | (none, none) => true
  | _ => false

/-- within the range of the finite replicates -/
def inRangeOK (vals : List (Option Rat)) : Option Rat × Option Rat → Bool
  | (some lo, some hi) =>
    let fin := vals.filterMap id
    fin.any (fun a => decide (a ≤ lo)) && fin.any (fun b => decide (hi ≤ b))
  | (none, none) => (vals.filterMap id).isEmpty
  | _ => false

end SA.Spec.C13
