/-
C13 spec clauses for the whole-array call of `utils.bootstrap_ci`: the observed array has shape
`metric_shape + alpha_shape + (2,)` and entry `[y..., a..., k]` is limit `k` of the documented
one-component formula on the replicates `theta[:, y...]` at level `alpha[a...]` (estimate
`theta_hat[y...]`).  For bc / bca alpha is a scalar and contributes no axis.
-/
import SA.Model.BootstrapVec
import SA.Spec.C13

namespace SA.Spec.C13
open SA

/-- the `k`-th limit of a `(lower, upper)` pair -/
def limitOf (k : Nat) (p : Option Rat × Option Rat) : Option Rat := if k = 0 then p.1 else p.2

/-- the array the property prescribes, built directly from the one-component formula -/
def vecExpected (nrm : Normal) (pow15 : Rat → Rat) (m : BootMethod) (theta : Nd (Option Rat))
    (thetaHat : Option (Nd Rat)) (alpha : Nd Rat) : Nd (Option Rat) :=
  let Y := theta.shape.tail
  let A := if m = .quantile then alpha.shape else []
  Nd.ofFn (Y ++ A ++ [2]) fun idx =>
    let y := idx.take Y.length
    let a := (idx.drop Y.length).take A.length
    let k := idx.getLastD 0
    let th : Rat := match thetaHat with
      | some h => h.get y
      | none => 0
    let al : Rat := if m = .quantile then alpha.get a else alpha.data.headD 0
    limitOf k (bootstrapCI nrm pow15 m (theta.column y) th al)

def vecShapeOK (expected : Nd (Option Rat)) (obsShape : List Nat) : Bool := obsShape == expected.shape

def vecEntriesOK (eps : Rat) (expected : Nd (Option Rat)) (obs : List (Option Rat)) : Bool :=
  obs.length == expected.data.length &&
    (List.zip expected.data obs).all fun (e, o) => nearO eps e o

end SA.Spec.C13
