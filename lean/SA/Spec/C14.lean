/-
C14 spec clauses, evaluated on the implementation's observed outputs:

* `rowsOK eps observed expected` — the replicate matrix returned by `bootstrap_metric` is, row by
  row, the metric of the recorded samples (`expected` is computed by the harness by applying the
  metric to the samples the sampler handed out);
* `identityOK eps estimate ci` — under an identity sampler both limits of every component equal
  the point estimate (NaN with NaN);
* the interval itself is judged with `Spec.C13.formulaOK` against `bootstrapCIOf`.
-/
import SA.Model.BootMetric
import SA.Spec.C13

namespace SA.Spec.C14
open SA SA.Spec.C13

/-- one row: same length, componentwise equal up to `eps`, NaN exactly where expected -/
def rowOK (eps : Rat) : List (Option Rat) → List (Option Rat) → Bool
  | [], [] => true
  | a :: as, b :: bs => nearO eps a b && rowOK eps as bs
  | _, _ => false

/-- per-row verdicts (only meaningful when the numbers of rows agree: see `rowsOK`) -/
def rowVerdicts (eps : Rat) : List (List (Option Rat)) → List (List (Option Rat)) → List Bool
  | a :: as, b :: bs => rowOK eps a b :: rowVerdicts eps as bs
  | _, _ => []

/-- same number of rows, every row OK -/
def rowsOK (eps : Rat) : List (List (Option Rat)) → List (List (Option Rat)) → Bool
  | [], [] => true
  | a :: as, b :: bs => rowOK eps a b && rowsOK eps as bs
  | _, _ => false

/-- interval collapsed onto the estimate, component by component -/
def identityOK (eps : Rat) : List (Option Rat) → List (Option Rat × Option Rat) → Bool
  | [], [] => true
  | e :: es, c :: cs => nearO eps e c.1 && nearO eps e c.2 && identityOK eps es cs
  | _, _ => false

end SA.Spec.C14
