/-
C15 spec clauses: executable predicates of (input, observed curve).  Observed rates are
`Option Rat` (`none` = NaN); observed matrices are the implementation's own `scores.cm` cells
at the returned thresholds.
-/
import SA.Model.Roc
import SA.Spec.C02

namespace SA.Spec.C15
open SA SA.Spec

/-- `|a - b| ≤ eps`, NaN only with NaN -/
def nearO (eps : Rat) : Option Rat → Option Rat → Bool
  | some a, some b => decide (absQ (a - b) ≤ eps)
  | none, none => true
  | _, _ => false

/-- thresholds, FNR and FPR have the same length `n` and the returned rates are the rates of
the matrices at the returned thresholds -/
def ratesMatchOK (eps : Rat) (n : Nat) (cms : List CM) (ofnr ofpr : List (Option Rat)) : Bool :=
  cms.length == n && ofnr.length == n && ofpr.length == n &&
  (cms.zip ofnr).all (fun p => nearO eps p.2 p.1.fnr) &&
  (cms.zip ofpr).all (fun p => nearO eps p.2 p.1.fpr)

/-- `a ≤ b` on possibly-NaN values (NaN only next to NaN) -/
def leO : Option Rat → Option Rat → Bool
  | some a, some b => decide (a ≤ b)
  | none, none => true
  | _, _ => false

/-- the observed x-axis values are non-decreasing along the curve -/
def monotoneOK : List (Option Rat) → Bool
  | a :: b :: rest => leO a b && monotoneOK (b :: rest)
  | _ => true

/-- every required value occurs among the returned thresholds (relative tolerance `eps`) -/
def containsOK (eps : Rat) (required ts : List Rat) : Bool :=
  required.all fun v => ts.any fun t => decide (absQ (t - v) ≤ eps * (1 + absQ v))

def optLen : Option (List Rat) → Nat
  | none => 0
  | some l => l.length

/-- number of points of the curve: the supplied points if there are any (`nb_points` is then
ignored), else `nb_points`, else one per scored sample -/
def expectedLength (s : Scores) (fnr fpr thr : Option (List Rat)) (nb : Option Nat) : Nat :=
  let k := optLen thr + optLen fnr + optLen fpr
  if k = 0 then
    match nb with
    | none => s.pos.length + s.neg.length
    | some n => n
  else k

def lengthOK (s : Scores) (fnr fpr thr : Option (List Rat)) (nb : Option Nat) (n : Nat) : Bool :=
  n == expectedLength s fnr fpr thr nb

/-- TPR / TNR views are the complements of FNR / FPR, NaN exactly where those are -/
def viewsOK (eps : Rat) (ofnr ofpr otpr otnr : List (Option Rat)) : Bool :=
  otpr.length == ofnr.length && otnr.length == ofpr.length &&
  (ofnr.zip otpr).all (fun p => nearO eps p.2 (oneMinus p.1)) &&
  (ofpr.zip otnr).all (fun p => nearO eps p.2 (oneMinus p.1))

end SA.Spec.C15
