/-
C16 spec clauses: executable predicates of (input, observed curve with bands).  Observed numbers
are `Option Rat` (`none` = NaN); a band is a list of rows `(lower, upper)`.
-/
import SA.Model.RocCI
import SA.Spec.C15

namespace SA.Spec.C16
open SA SA.Spec

/-- both entries of a row within `eps`, NaN only with NaN -/
def rowNear (eps : Rat) (a b : OIv) : Bool := C15.nearO eps a.1 b.1 && C15.nearO eps a.2 b.2

/-- same number of rows, each within `eps` -/
def bandNear (eps : Rat) (model obs : List OIv) : Bool :=
  obs.length == model.length && (model.zip obs).all fun p => rowNear eps p.1 p.2

/-- the band has one `(lower, upper)` row per threshold (the `(n, 2)` shape; that every row has
two entries is in the type) -/
def shapeOK (n : Nat) (band : List OIv) : Bool := band.length == n

/-- no NaN in the band -/
def nanFreeOK (band : List OIv) : Bool := band.all fun r => r.1.isSome && r.2.isSome

/-- `lower <= upper` in every row (a NaN entry fails the comparison) -/
def orderedOK (band : List OIv) : Bool := band.all fun r => leN r.1 r.2

/-- every entry within `[0, 1]` up to `eps` (a NaN entry fails) -/
def unitOK (eps : Rat) (band : List OIv) : Bool :=
  band.all fun r =>
    leN (some (-eps)) r.1 && leN r.1 (some (1 + eps)) && leN (some (-eps)) r.2 && leN r.2 (some (1 + eps))

/-- the observed band is the envelope recomputed from the OBSERVED rectangles: at every point the
min / max over the point's own rectangle and all rectangles whose x-interval covers the point -/
def envelopeOK (eps : Rat) (x : List (Option Rat)) (dxp dyp band : List OIv) : Bool :=
  bandNear eps (aggregateRectanglesO x dxp dyp) band

/-- the observed rows are the input rows with the rule-of-three substitution, triggered by the
exact rates `p` of the object -/
def ruleOfThreeOK (eps : Rat) (powA : Rat) (n : Nat) (p : List (Option Rat)) (ciIn ciOut : List OIv) :
    Bool :=
  match applyRuleOfThreeO powA p ciIn n with
  | .error _ => false
  | .ok m => bandNear eps m ciOut

/-- the returned bands are the closed form of `roc_with_ci`: rule of three on the pointwise
(bootstrap) intervals `bf`, `bg`, then the FNR band is the envelope over the FPR axis and the FPR
band the envelope over the FNR axis.  `pf`, `pg` are the exact rates (they decide the rule of
three), `xf`, `xg` the rates as returned (the x-values of the aggregation). -/
def closedFormOK (eps : Rat) (powPos powNeg : Rat) (npos nneg : Nat)
    (pf pg xf xg : List (Option Rat)) (bf bg bandF bandG : List OIv) : Bool :=
  match applyRuleOfThreeO powPos pf bf npos, applyRuleOfThreeO powNeg pg bg nneg with
  | .ok cf, .ok cg =>
    bandNear eps (aggregateRectanglesO xg cg cf) bandF && bandNear eps (aggregateRectanglesO xf cf cg) bandG
  | _, _ => false

/-- the four thresholds just outside the score ranges are among the returned thresholds -/
def sentinelsOK (u : Ulp) (s : Scores) (ts : List Rat) : Bool :=
  (sentinelThresholds u s).all fun v => ts.contains v

/-- number of points of a `roc_with_ci` curve: the plain support (C15), the extra points beyond
its range (`extra` of them) and the four sentinels -/
def supportLengthOK (s : Scores) (fnr fpr thr : Option (List Rat)) (nb : Option Nat) (extra n : Nat) :
    Bool :=
  n == C15.expectedLength s fnr fpr thr nb + extra + 4

end SA.Spec.C16
