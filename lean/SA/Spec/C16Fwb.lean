/-
C16 spec clauses for `fixed_width_band_ci`: executable predicates of (input, observed output).
Observed numbers are `Option Rat` (`none` = NaN); a band is a list of rows `(lower, upper)`.
-/
import SA.Model.FixedWidth
import SA.Spec.C16

namespace SA.Spec.C16Fwb
open SA SA.Spec

/-- two arrays: same length, entries within `eps`, NaN only with NaN -/
def arrNear (eps : Rat) (model : List Rat) (obs : List (Option Rat)) : Bool :=
  obs.length == model.length && (model.zip obs).all fun p => C15.nearO eps (some p.1) p.2

/-- the three well-formedness clauses of C16 on both bands: shape `(n, 2)`, NaN-free, ordered -/
def wellFormedOK (n : Nat) (bandF bandG : List OIv) : Bool :=
  C16.shapeOK n bandF && C16.shapeOK n bandG &&
  C16.nanFreeOK bandF && C16.nanFreeOK bandG &&
  C16.orderedOK bandF && C16.orderedOK bandG

/-- every entry of the band lies in `[0, top]` up to `eps` (`top = nextafter(1, inf)`: the
displaced curves start at ordinate `top`, so the FWB band may exceed 1 by one ulp) -/
def rangeOK (eps top : Rat) (band : List OIv) : Bool :=
  band.all fun r =>
    leN (some (-eps)) r.1 && leN r.1 (some (top + eps)) && leN (some (-eps)) r.2 && leN r.2 (some (top + eps))

/-- an observed `_displace_curve(x, y, v)` call: the result is the clipped translate with the two
end points reset to `(0, top)` and `(top, 0)` -/
def displaceOK (eps top : Rat) (x y : List Rat) (v0 v1 : Rat) (ox oy : List (Option Rat)) : Bool :=
  match c16f_displaceCurve top x y v0 v1 with
  | .error _ => false
  | .ok (mx, my) => arrNear eps mx ox && arrNear eps my oy

/-- non-decreasing -/
def nondecOK : List Rat → Bool
  | a :: b :: rest => decide (a ≤ b) && nondecOK (b :: rest)
  | _ => true

/-- an observed displaced curve is a valid interpolation table in both directions: abscissae
non-decreasing from `0` to `top`, ordinates non-increasing from `top` to `0` -/
def curveSortedOK (top : Rat) (ox oy : List Rat) : Bool :=
  nondecOK ox && nondecOK oy.reverse &&
  ox.head? == some 0 && ox.getLast? == some top && oy.head? == some top && oy.getLast? == some 0

/-- an observed tube radius is `0.0` or a midpoint `(2 m + 1) / 256` of the 7-step bisection of
`(0, 1)`; in particular `0 ≤ r < 1` -/
def radiusGridOK : Option Rat → Bool
  | none => false
  | some r => decide (r = 0) || (decide (0 < r) && decide (r < 1) && decide ((r * 256).den = 1) &&
      decide ((r * 256).num % 2 = 1))

/-- an observed `_find_tube_radius` call agrees with the model -/
def radiusOK (eps top : Rat) (x y xs ys : List Rat) (k : Rat) (obs : Option Rat) : Bool :=
  match c16f_findTubeRadius top x y xs ys k with
  | .error _ => false
  | .ok r => C15.nearO eps (some r) obs

/-- the observed slope is `sqrt(len(neg) / len(pos))`: `k ≥ 0` and `k² = nneg / npos` up to `eps` -/
def slopeOK (eps : Rat) (npos nneg : Nat) (k : Rat) : Bool :=
  decide (0 ≤ k) && decide (npos ≠ 0) &&
  decide (absQ (k * k - (nneg : Rat) / (npos : Rat)) ≤ eps * (1 + (nneg : Rat) / (npos : Rat)))

/-- the observed `delta` is the linear quantile of the observed radii at level `1 - alpha`
(upper limit of the quantile interval at significance `2 alpha`) -/
def deltaOK (eps : Rat) (radii : List Rat) (alpha : Rat) (obs : Option Rat) : Bool :=
  C15.nearO eps (c16f_deltaOf radii alpha) obs

/-- the two final displacement vectors are `+(delta, delta k)` and `-(delta, delta k)` with
`delta ≥ 0` -/
def vectorsOK (eps : Rat) (k delta : Rat) (vp0 vp1 vm0 vm1 : Rat) : Bool :=
  decide (0 ≤ delta) &&
  decide (absQ (vp0 - delta) ≤ eps) && decide (absQ (vp1 - delta * k) ≤ eps) &&
  decide (absQ (vm0 + delta) ≤ eps) && decide (absQ (vm1 + delta * k) ≤ eps)

/-- the relation between the bands and the OBSERVED displaced curves `(fP, gP)` (by `+v`) and
`(fM, gM)` (by `-v`): the lower FNR band is the minus curve read as FNR over FPR at the curve's FPR
values, the upper one the plus curve; the lower / upper FPR band is the minus / plus curve read as
FPR over FNR at the curve's FNR values. -/
def bandRelOK (eps : Rat) (f g fP gP fM gM : List Rat) (bandF bandG : List OIv) : Bool :=
  match c16f_interp g gM.reverse fM.reverse, c16f_interp g gP.reverse fP.reverse,
        c16f_interp f fM gM, c16f_interp f fP gP with
  | .ok a, .ok b, .ok c, .ok d =>
    C16.bandNear eps ((a.zip b).map Iv.lift) bandF && C16.bandNear eps ((c.zip d).map Iv.lift) bandG
  | _, _, _, _ => false

/-- the bands are the closed form of the model from the curve, the slope and `delta` -/
def closedFormOK (eps top : Rat) (f g : List Rat) (k delta : Rat) (bandF bandG : List OIv) : Bool :=
  match c16f_bandFromDelta top f g k delta with
  | .error _ => false
  | .ok b => C16.bandNear eps (b.1.map Iv.lift) bandF && C16.bandNear eps (b.2.map Iv.lift) bandG

end SA.Spec.C16Fwb
