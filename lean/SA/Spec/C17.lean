/-
C17 spec clauses: executable predicates of (samples `x y`, target `t`, observed result `zs`).
`eps = 0` for the model; a small `eps` when evaluated on the implementation's float output.
-/
import SA.Model.InvertPL

namespace SA.Spec.C17
open SA

/-- the target lies strictly between two values -/
def straddles (a b t : Rat) : Bool :=
  (decide (a < t) && decide (t < b)) || (decide (b < t) && decide (t < a))

/-- "the samples cross or touch the target": some sample equals it, or two adjacent samples lie
strictly on either side of it -/
def crossOrTouch (y : List Rat) (t : Rat) : Bool :=
  y.any (fun v => decide (v = t)) ||
    (List.range (y.length - 1)).any fun j => straddles (y.getD j 0) (y.getD (j + 1) 0) t

/-- `z` lies on segment `j` and the interpolant of segment `j` at `z` equals `t`:
`(z - x[j]) * (y[j+1] - y[j]) = (t - y[j]) * (x[j+1] - x[j])` (division-free form of
`y[j] + (z - x[j]) * (y[j+1] - y[j]) / (x[j+1] - x[j]) = t`), up to `eps` in the `x`- or the
`y`-direction.  On a degenerate segment (`x[j] = x[j+1]`) the sample value itself must be `t`. -/
def solvesAt (x y : List Rat) (t z eps : Rat) (j : Nat) : Bool :=
  let x0 := x.getD j 0
  let x1 := x.getD (j + 1) 0
  let y0 := y.getD j 0
  let y1 := y.getD (j + 1) 0
  decide (x0 - eps ≤ z) && decide (z ≤ x1 + eps) &&
    (if x0 = x1 then decide (absPL (y0 - t) ≤ eps)
     else decide (absPL ((z - x0) * (y1 - y0) - (t - y0) * (x1 - x0))
       ≤ eps * ((x1 - x0) + absPL (y1 - y0))))

/-- every returned point is a solution of `interp(z) = t` on some segment (a single sample is its
own "segment") -/
def solvesOK (x y : List Rat) (t : Rat) (zs : List Rat) (eps : Rat) : Bool :=
  zs.all fun z =>
    (List.range (x.length - 1)).any (solvesAt x y t z eps) ||
      (x.length == 1 && decide (z = x.getD 0 0) && decide (absPL (y.getD 0 0 - t) ≤ eps))

/-- strictly increasing -/
def increasingOK : List Rat → Bool
  | a :: b :: r => decide (a < b) && increasingOK (b :: r)
  | _ => true

/-- every returned point lies in `[x[0], x[n-1]]` -/
def inRangeOK (x zs : List Rat) (eps : Rat) : Bool :=
  zs.all fun z => decide (x.getD 0 0 - eps ≤ z) && decide (z ≤ x.getD (x.length - 1) 0 + eps)

/-- exactly one point, it is a sample point `x[i]`, and `|y[i] - t|` is minimal -/
def fallbackOK (x y : List Rat) (t : Rat) (zs : List Rat) (eps : Rat) : Bool :=
  match zs with
  | [z] => (List.range y.length).any fun i =>
      decide (z = x.getD i 0) &&
        (List.range y.length).all fun k =>
          decide (absPL (y.getD i 0 - t) ≤ absPL (y.getD k 0 - t) + eps)
  | _ => false

/-- segment `j` carries a reportable solution in `[x[j], x[j+1])`: the target lies strictly between
its end values, or its left end value equals the target and its right one does not -/
def segSolves (a b t : Rat) : Bool := straddles a b t || (decide (a = t) && !decide (b = t))

/-- completeness: if some segment carries a reportable solution, the result has exactly one point
per such segment, the `i`-th point lying on the `i`-th such segment.  (Not reported: a touch at
the very last sample, and of a plateau at the target value anything but its right end.) -/
def completeOK (x y : List Rat) (t : Rat) (zs : List Rat) (eps : Rat) : Bool :=
  let js := (List.range (y.length - 1)).filter fun j =>
    segSolves (y.getD j 0) (y.getD (j + 1) 0) t
  js.isEmpty || (zs.length == js.length &&
    (js.zip zs).all fun (j, z) =>
      decide (x.getD j 0 - eps ≤ z) && decide (z ≤ x.getD (j + 1) 0 + eps))

/-- the whole property for one target -/
def resultOK (x y : List Rat) (t : Rat) (zs : List Rat) (eps : Rat) : Bool :=
  !zs.isEmpty && increasingOK zs && inRangeOK x zs eps && completeOK x y t zs eps &&
    (if crossOrTouch y t then solvesOK x y t zs eps else fallbackOK x y t zs eps)

/-- the evaluation points used are the selected ones (`threshold_at_metric`) -/
def pointsOK (mpts opts : List Rat) (eps : Rat) : Bool :=
  mpts.length == opts.length && (mpts.zip opts).all fun (a, b) => decide (absPL (a - b) ≤ eps)

end SA.Spec.C17
