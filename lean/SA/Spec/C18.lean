/-
C18 spec clauses, evaluated on the frame(s) returned by `showbias`.

The observed frame is passed as its index (one key = one code per group column for every frame
row, in frame order), its columns (the thresholds) and its values (rows x thresholds, `none` =
NaN).  `rows` is the input data, so every clause compares the observed frame with what the
property text says about the DATA: labels, metric by counting, normalisation.
-/
import SA.Model.Showbias

namespace SA.Spec.C18
open SA

def absQ (x : Rat) : Rat := if x < 0 then -x else x

/-- relative/absolute closeness, NaN only with NaN -/
def nearO (eps : Rat) : Option Rat → Option Rat → Bool
  | some a, some b => decide (absQ (a - b) ≤ eps * (1 + absQ b))
  | none, none => true
  | _, _ => false

def rowNear (eps : Rat) (a b : List (Option Rat)) : Bool :=
  a.length == b.length && (a.zip b).all (fun p => nearO eps p.1 p.2)

/-- **labels.** The index of the frame is exactly the list of distinct group-value combinations
occurring in the data, each once, in sorted order, and the columns are the thresholds. -/
def labelsOK (rows : List SbRow) (ts : List ERat) (obsIdx : List (List Nat))
    (obsCols : List ERat) : Bool :=
  obsIdx == groupKeys rows && obsCols == ts

/-- **entry** (un-normalised frame). The row labelled `k` holds, for every threshold, the metric
of the matrix obtained by counting the data rows whose group values are `k`. -/
def entryOK (eps : Rat) (metric : SbMetric) (cfg : Cfg) (rows : List SbRow) (ts : List ERat)
    (obsIdx : List (List Nat)) (obs : List (List (Option Rat))) : Bool :=
  obsIdx.length == obs.length &&
  (obsIdx.zip obs).all fun p => rowNear eps p.2 (ts.map fun t => sbEntry metric cfg rows p.1 t)

/-- **normalisation.** The row labelled `k` holds the entry divided by the overall metric
(`by_overall`) resp. by the smallest group value (`by_min`) of that threshold, unchanged where the
divisor is 0. -/
def normOK (eps : Rat) (metric : SbMetric) (cfg : Cfg) (mode : NormMode) (rows : List SbRow)
    (ts : List ERat) (obsIdx : List (List Nat)) (obs : List (List (Option Rat))) : Bool :=
  obsIdx.length == obs.length &&
  (obsIdx.zip obs).all fun p =>
    p.2.length == ts.length &&
    (ts.zip p.2).all fun tq =>
      match sbCell metric cfg mode rows p.1 tq.1 with
      | none => false
      | some c => nearO eps tq.2 c

/-- column `j` of an observed table -/
def obsCol (obs : List (List (Option Rat))) (j : Nat) : List (Option Rat) :=
  obs.map fun r => r.getD j none

/-- **smallest row is 1** (`by_min`). In every column whose un-normalised entries are all defined
the smallest observed value is 1 when the smallest entry is positive and 0 when it is 0. -/
def minRowOK (eps : Rat) (metric : SbMetric) (cfg : Cfg) (rows : List SbRow) (ts : List ERat)
    (obs : List (List (Option Rat))) : Bool :=
  (ts.zipIdx).all fun tj =>
    match colMin (sbRawCol metric cfg rows tj.1) with
    | none => true
    | some m =>
      if m = 0 then nearO eps (colMin (obsCol obs tj.2)) (some 0)
      else if 0 < m then nearO eps (colMin (obsCol obs tj.2)) (some 1)
      else true

/-- **intervals ordered**: `lower <= upper` wherever both are defined; same shape. -/
def ciOrderedOK (eps : Rat) (lower upper : List (List (Option Rat))) : Bool :=
  lower.length == upper.length &&
  (lower.zip upper).all fun p =>
    p.1.length == p.2.length &&
    (p.1.zip p.2).all fun q =>
      match q.1, q.2 with
      | some lo, some hi => decide (lo ≤ hi + eps)
      | _, _ => true

end SA.Spec.C18
