/-
C19 spec clauses as executable predicates of (input, observed output).
The driver evaluates them on what the implementation's `FraudScores` did; SA/Theorems/C19.lean
proves the model satisfies them for all inputs.
-/
import SA.Model.Fraud
import SA.Spec.C01

namespace SA.Spec.C19
open SA

/-- some genuine or fraud score lies outside `[0, 1]` (on the inputs as given, unsorted) -/
def anyOutside (genuines frauds : List Rat) : Bool :=
  (genuines ++ frauds).any (fun x => decide (x < 0) || decide (1 < x))

/-- the `Scores` configuration a `FraudScores` object must behave as -/
def cfgOf (sc : DocLabel) : Cfg := ⟨docToBinary sc, .pos⟩

/-- ValueError exactly when some score lies outside `[0, 1]`; `raised` = the implementation
raised ValueError -/
def validOK (genuines frauds : List Rat) (raised : Bool) : Bool :=
  raised == anyOutside genuines frauds

/-- the observed matrix at `t` is the count by the decision rule of a
`Scores(pos=genuines, neg=frauds, score_class=translated, equal_class="pos")` object -/
def cmOK (genuines frauds : List Rat) (eg ef : Nat) (sc : DocLabel) (t : ERat) (m : CM) : Bool :=
  Spec.C01.cellsOK genuines frauds eg ef (cfgOf sc) t m

/-- the observed `.genuines` / `.frauds` (and `.pos` / `.neg`) are the sorted inputs -/
def aliasOK (genuines frauds : List Rat) (obsGenuines obsFrauds obsPos obsNeg : List Rat) : Bool :=
  obsGenuines == sortQ genuines && obsFrauds == sortQ frauds &&
  obsPos == obsGenuines && obsNeg == obsFrauds

/-- the observed flags are the translated score class and `equal_class = pos` -/
def flagsOK (sc : DocLabel) (obsScoreClass obsEqualClass : Label) : Bool :=
  obsScoreClass == docToBinary sc && obsEqualClass == Label.pos

/-- observed translation tables: `d2b` = images of genuine, fraud; `b2d` = images of pos, neg.
genuine<->pos, fraud<->neg and the two maps are mutually inverse. -/
def labelsOK (d2bG d2bF : Label) (b2dP b2dN : DocLabel) : Bool :=
  let d2b : DocLabel → Label := fun l => match l with | .genuine => d2bG | .fraud => d2bF
  let b2d : Label → DocLabel := fun b => match b with | .pos => b2dP | .neg => b2dN
  d2bG == Label.pos && d2bF == Label.neg && b2dP == DocLabel.genuine && b2dN == DocLabel.fraud &&
  b2d (d2b .genuine) == DocLabel.genuine && b2d (d2b .fraud) == DocLabel.fraud &&
  d2b (b2d .pos) == Label.pos && d2b (b2d .neg) == Label.neg

end SA.Spec.C19
