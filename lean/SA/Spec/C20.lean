/-
C20 spec clauses, evaluated on the observed outputs of
`score_analysis.experimental.{NormalDataset, BernoulliDataset, CorrelatedBernoullilDataset}`.
`eps` is a relative/absolute tolerance (`eps = 0` in the theorems about the model).
-/
import SA.Model.Datasets

namespace SA.Spec.C20
open SA

def absQ (x : Rat) : Rat := if x < 0 then -x else x

/-- `|a - b| ≤ eps (1 + |b|)` -/
def near (eps a b : Rat) : Bool := decide (absQ (a - b) ≤ eps * (1 + absQ b))

/-- same length and pointwise `near` -/
def nearAll (eps : Rat) : List Rat → List Rat → Bool
  | [], [] => true
  | a :: as, b :: bs => near eps a b && nearAll eps as bs
  | _, _ => false

/-- inverse relation: mapping the implementation's outputs back returns the inputs -/
def inverseOK (eps : Rat) (inputs roundtrip : List Rat) : Bool := nearAll eps roundtrip inputs

/-- `|a - b| ≤ eps |b|` (purely relative: for rates deep in a tail, where an absolute tolerance sees nothing) -/
def nearRel (eps a b : Rat) : Bool := decide (absQ (a - b) ≤ eps * absQ b)

/-- same length and pointwise `nearRel` -/
def nearRelAll (eps : Rat) : List Rat → List Rat → Bool
  | [], [] => true
  | a :: as, b :: bs => nearRel eps a b && nearRelAll eps as bs
  | _, _ => false

/-- inverse relation with a relative tolerance on the inputs (tail rates) -/
def inverseRelOK (eps : Rat) (inputs roundtrip : List Rat) : Bool := nearRelAll eps roundtrip inputs

/-- the rates of a ROC curve are the analytic FNR / FPR at its thresholds -/
def rocOK (eps : Rat) (N : StdNormal) (d : NormalDataset) (R : ROC) : Bool :=
  nearAll eps R.fnr (R.thresholds.map (d.fnr N)) && nearAll eps R.fpr (R.thresholds.map (d.fpr N))

/-- `k` is the largest integer not exceeding `x`, to accuracy `eps (1 + |x|)` -/
def floorOK (eps x : Rat) (k : Int) : Bool :=
  decide ((k : Rat) ≤ x + eps * (1 + absQ x)) && decide (x - eps * (1 + absQ x) < (k : Rat) + 1)

/-- `from_metrics`: observed FNR(0), FPR(0), `n`, number of positives `nbPos`, `p_pos` -/
def fromMetricsOK (eps : Rat) (fnr fpr : Rat) (fnrSupport fprSupport : Int)
    (fnr0 fpr0 : Rat) (n nbPos : Int) (pPos : Rat) : Bool :=
  near eps fnr0 fnr && near eps fpr0 fpr &&
  floorOK eps ((fnrSupport : Rat) / fnr) nbPos && floorOK eps ((fprSupport : Rat) / fpr) (n - nbPos) &&
  near eps (pPos * (n : Rat)) (nbPos : Rat)

/-- `sample`: `k` positive and `n - k` negative scores, score direction kept -/
def sampleOK (n k : Int) (sc : Label) (pos neg : List Rat) (obsSc : Label) : Bool :=
  decide ((pos.length : Int) = k) && decide ((neg.length : Int) = n - k) && decide (sc = obsSc)

/-- all entries are 0 or 1 -/
def binaryAll (l : List Nat) : Bool := l.all fun x => decide (x ≤ 1)

/-- non-random Bernoulli sample: `n` entries 0/1 with `⌊n p⌋` ones -/
def bernoulliOK (eps : Rat) (n : Nat) (p : Rat) (data : List Nat) : Bool :=
  decide (data.length = n) && binaryAll data && floorOK eps ((n : Rat) * p) (data.count 1 : Nat)

/-- the joint probabilities sum to one -/
def jointSumOK (eps : Rat) (p : List Rat) : Bool := near eps p.sum 1

/-- is some joint probability negative? -/
def jointInvalid (p : List Rat) : Bool := p.any fun q => decide (q < 0)

/-- ValueError exactly when the joint distribution is invalid -/
def validOK (p : List Rat) (raised : Bool) : Bool := raised == jointInvalid p

/-- `(2, n)` array of 0/1 values -/
def shapeOK (n : Nat) (rows : List (List Nat)) : Bool :=
  decide (rows.length = 2) && rows.all fun r => decide (r.length = n) && binaryAll r

/-- the number of ones in a row is within `slack` draws of `n p` -/
def marginalOK (slack : Rat) (n : Nat) (p : Rat) (row : List Nat) : Bool :=
  decide (absQ (((row.count 1 : Nat) : Rat) - (n : Rat) * p) ≤ slack)

/-- the sharper bound satisfied by the algorithm: `0 ≤ ones - n p < 2` -/
def marginalTightOK (eps : Rat) (n : Nat) (p : Rat) (row : List Nat) : Bool :=
  decide (-eps ≤ ((row.count 1 : Nat) : Rat) - (n : Rat) * p) &&
  decide (((row.count 1 : Nat) : Rat) - (n : Rat) * p < 2 + eps)

/-- `row0 + 2 row1`: the joint cell index of every column -/
def rejoin (row0 row1 : List Nat) : List Nat := (row0.zip row1).map fun ab => ab.1 + 2 * ab.2

/-- cell `i` of the joint sample (`row0 + 2 row1 = i`) occurs `⌊n p_i⌋` times, `i = 0, 1, 2` -/
def cellsOK (eps : Rat) (n : Nat) : List Rat → List Nat → List Nat → Bool
  | [q0, q1, q2, _], row0, row1 =>
    let joint := rejoin row0 row1
    decide (joint.length = n) &&
    floorOK eps ((n : Rat) * q0) (joint.count 0 : Nat) &&
    floorOK eps ((n : Rat) * q1) (joint.count 1 : Nat) &&
    floorOK eps ((n : Rat) * q2) (joint.count 2 : Nat)
  | _, _, _ => false

end SA.Spec.C20
