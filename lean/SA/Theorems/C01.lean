/-
C01 — the confusion matrix at a threshold equals counting by the documented decision rule.
Property theorems only; helper lemmas are in SA/Proofs.
-/
import SA.Proofs.Bisect
import SA.Spec.C01

namespace SA

/-- `cm` on sorted arrays is counting (all four configurations, thresholds incl. ±inf). -/
theorem cm_eq_countCM_of_sorted (s : Scores) (hp : s.pos.Pairwise (· ≤ ·))
    (hn : s.neg.Pairwise (· ≤ ·)) (t : ERat) :
    s.cm t = countCM s.pos s.neg s.easyPos s.easyNeg s.cfg t := by
  obtain ⟨pos, neg, ep, en, ⟨sc, ec⟩⟩ := s
  have hLp := searchsorted_left pos hp t
  have hRp := searchsorted_right pos hp t
  have hLn := searchsorted_left neg hn t
  have hRn := searchsorted_right neg hn t
  have h1 := countP_not (fun x => ltE x t) pos
  have h2 := countP_not (fun x => leE x t) pos
  have h3 := countP_not (fun x => ltE x t) neg
  have h4 := countP_not (fun x => leE x t) neg
  cases sc <;> cases ec <;>
    simp only [Scores.cm, cmSide, countCM, accept, hLp, hRp, hLn, hRn, h1, h2, h3, h4,
      Bool.not_not]

/-- **C01 (cells).** For any input lists (unsorted, with duplicates, shared values, empty),
any easy counts, any of the four configurations and any threshold (incl. ±inf), the matrix
of the constructed object is the count by the decision rule, easy positives added to TP and
easy negatives to TN. -/
theorem C01_cells (pos neg : List Rat) (ep en : Nat) (cfg : Cfg) (t : ERat) :
    (Scores.make pos neg ep en cfg false).cm t = countCM pos neg ep en cfg t := by
  have h := cm_eq_countCM_of_sorted (Scores.make pos neg ep en cfg false)
    (by simpa [Scores.make] using sortQ_pairwise pos)
    (by simpa [Scores.make] using sortQ_pairwise neg) t
  rw [h]
  simp only [Scores.make, Bool.false_eq_true, if_false, countCM, countP_sortQ]

/-- **C01 (is_sorted=True).** Same under the caller's contract that the inputs are sorted. -/
theorem C01_cells_sorted_flag (pos neg : List Rat) (ep en : Nat) (cfg : Cfg) (t : ERat)
    (hp : pos.Pairwise (· ≤ ·)) (hn : neg.Pairwise (· ≤ ·)) :
    (Scores.make pos neg ep en cfg true).cm t = countCM pos neg ep en cfg t := by
  have h := cm_eq_countCM_of_sorted (Scores.make pos neg ep en cfg true)
    (by simpa [Scores.make] using hp) (by simpa [Scores.make] using hn) t
  rw [h]; simp [Scores.make]

/-- **C01 (totals).** TP+FN and FP+TN do not depend on the threshold. -/
theorem C01_totals (pos neg : List Rat) (ep en : Nat) (cfg : Cfg) (t : ERat) :
    let m := (Scores.make pos neg ep en cfg false).cm t
    m.tp + m.fn = pos.length + ep ∧ m.fp + m.tn = neg.length + en := by
  simp only [C01_cells, countCM]
  have h1 := countP_not (fun x => accept cfg x t) pos
  have h2 := countP_not (fun x => accept cfg x t) neg
  have h3 : pos.countP (fun x => accept cfg x t) ≤ pos.length := List.countP_le_length
  have h4 : neg.countP (fun x => accept cfg x t) ≤ neg.length := List.countP_le_length
  constructor <;> omega

private theorem foldl_add_shift (cfg : Cfg) (t : ERat) (l : List (Bool × Rat)) (acc : CM) :
    l.foldl (fun acc s => acc.add (pointwiseCell cfg s.1 s.2 t)) acc =
      acc.add (l.foldl (fun acc s => acc.add (pointwiseCell cfg s.1 s.2 t)) ⟨0, 0, 0, 0⟩) := by
  induction l generalizing acc with
  | nil => simp [CM.add]
  | cons a l ih =>
    simp only [List.foldl_cons]
    rw [ih, ih (CM.add ⟨0, 0, 0, 0⟩ _)]
    simp only [CM.add, CM.mk.injEq]
    refine ⟨?_, ?_, ?_, ?_⟩ <;> omega

/-- **C01 (pointwise).** Summing the per-sample membership array of `pointwise_cm` over the
samples gives the matrix obtained by counting (no easy samples), for any label encoding. -/
theorem C01_pointwise_sum (cfg : Cfg) (samples : List (Bool × Rat)) (t : ERat) :
    pointwiseSum cfg samples t =
      countCM ((samples.filter (fun s => s.1)).map (·.2))
        ((samples.filter (fun s => !s.1)).map (·.2)) 0 0 cfg t := by
  unfold pointwiseSum
  induction samples with
  | nil => simp [countCM]
  | cons a l ih =>
    rw [List.foldl_cons, foldl_add_shift, ih]
    obtain ⟨b, x⟩ := a
    obtain ⟨sc, ec⟩ := cfg
    cases b <;> cases sc <;> cases ec <;>
      cases h1 : ltE x t <;> cases h2 : leE x t <;>
      simp [CM.add, pointwiseCell, countCM, accept, h1, h2] <;> omega

/-- **C01 (from_labels).** `from_labels` followed by `cm` equals the pointwise sum plus the
easy samples; in particular both routes give the same matrix. -/
theorem C01_from_labels (cfg : Cfg) (samples : List (Bool × Rat)) (ep en : Nat) (t : ERat) :
    (Scores.fromLabels samples ep en cfg false).cm t =
      (pointwiseSum cfg samples t).add ⟨ep, 0, 0, en⟩ := by
  unfold Scores.fromLabels
  rw [C01_cells, C01_pointwise_sum]
  simp [countCM, CM.add]

/-! ### The executable spec clauses hold of the model (what the driver evaluates on the
implementation's observed output is proved of the model for all inputs). -/

theorem C01_spec_cells (pos neg : List Rat) (ep en : Nat) (cfg : Cfg) (t : ERat) :
    Spec.C01.cellsOK pos neg ep en cfg t ((Scores.make pos neg ep en cfg false).cm t) = true := by
  simp [Spec.C01.cellsOK, C01_cells]

theorem C01_spec_totals (pos neg : List Rat) (ep en : Nat) (cfg : Cfg) (t : ERat) :
    Spec.C01.totalsOK pos neg ep en ((Scores.make pos neg ep en cfg false).cm t) = true := by
  have := C01_totals pos neg ep en cfg t
  simp only [Spec.C01.totalsOK, Bool.and_eq_true, beq_iff_eq]
  exact this

theorem C01_spec_pointwise (cfg : Cfg) (samples : List (Bool × Rat)) (t : ERat) :
    Spec.C01.pointwiseOK cfg samples t (pointwiseSum cfg samples t) = true := by
  simp [Spec.C01.pointwiseOK, C01_pointwise_sum]

/-- Non-vacuity: a concrete unsorted input with ties across classes and easy samples
(evaluated through the theorem; the hypothesis of the `is_sorted` variant is satisfiable). -/
example : (Scores.make [3, 1, 2, 2] [2, 0, 5] 4 7 ⟨.neg, .pos⟩ false).cm (.fin 2)
    = ⟨3 + 4, 1, 2, 1 + 7⟩ := by rw [C01_cells]; decide +kernel

example : ([1, 2, 2, 3] : List Rat).Pairwise (· ≤ ·) := by decide +kernel

end SA
