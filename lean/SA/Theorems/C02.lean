/-
C02 — threshold setting round-trips within one sample; its methods are coherent.
-/
import SA.Proofs.Counts
import SA.Proofs.Coherence
import SA.Theorems.C03
import Mathlib.Tactic.GCongr

namespace SA
open Spec

theorem normalise_fst (cfg : Cfg) (r : ℚ) (inc : Bool) (rc : Label) (m : Method) :
    (normalise cfg r inc rc m).1 = if evenFlips cfg inc then r else 1 - r := by
  obtain ⟨sc, ec⟩ := cfg
  cases inc <;> cases sc <;> simp [normalise, evenFlips]

theorem normalise_linear (cfg : Cfg) (r : ℚ) (inc : Bool) (rc : Label) :
    (normalise cfg r inc rc .linear).2.2 = .linear := by
  obtain ⟨sc, ec⟩ := cfg
  cases inc <;> cases sc <;> simp [normalise, Method.reverse]

theorem clip01_one_sub (x : ℚ) : clip01 (1 - x) = 1 - clip01 x := by
  unfold clip01
  rcases le_total x 0 with h0 | h0
  · rw [min_eq_right (by linarith), min_eq_left (by linarith : x ≤ 1), max_eq_left h0]; simp
  · rcases le_total x 1 with h1 | h1
    · rw [min_eq_left (by linarith), min_eq_left h1, max_eq_right h0, max_eq_right (by linarith)]
    · rw [min_eq_left (by linarith), min_eq_right h1, max_eq_left (by linarith)]; simp

theorem belowCount_le_cntLt_of_lt (cfg : Cfg) (a : List ℚ) (t t' : ℚ) (h : t < t') :
    belowCount cfg a t ≤ cntLt a t' := by
  unfold belowCount
  split
  · exact le_trans (cntLt_le_cntLe a t) (cntLe_le_cntLt_of_lt a t t' h)
  · exact cntLe_le_cntLt_of_lt a t t' h

theorem cntLe_le_belowCount_of_lt (cfg : Cfg) (a : List ℚ) (t t' : ℚ) (h : t < t') :
    cntLe a t ≤ belowCount cfg a t' := by
  unfold belowCount
  split
  · exact cntLe_le_cntLt_of_lt a t t' h
  · exact le_trans (cntLe_le_cntLt_of_lt a t t' h) (cntLt_le_cntLe a t')

theorem le_max_add_of_right (a b c x : ℚ) (h : x ≤ b + c) : x ≤ max a b + c := by
  have := le_max_right a b; linarith
theorem le_max_add_of_left (a b c x : ℚ) (h : x ≤ a + c) : x ≤ max a b + c := by
  have := le_max_left a b; linarith
theorem min_sub_le_of_left (a b c x : ℚ) (h : a - c ≤ x) : min a b - c ≤ x := by
  have := min_le_left a b; linarith
theorem min_sub_le_of_right (a b c x : ℚ) (h : b - c ≤ x) : min a b - c ≤ x := by
  have := min_le_right a b; linarith

/-- **C02 (bracket).** For all six metrics, four configurations, easy counts and every real
target `r`: the values of the metric at any threshold below and any threshold above the
returned (linear) threshold bracket `r` clipped to the achievable range to within one sample
of the relevant population (easy samples included). Ties are allowed. -/
theorem C02_bracket (u : Ulp) (hu : u.Lawful) (s : Scores)
    (hp : s.pos.Pairwise (· ≤ ·)) (hn : s.neg.Pairwise (· ≤ ·))
    (metric : Metric) (r thr : ℚ) (h : s.thresholdAt u metric r .linear = .ok thr)
    (tB tA : ℚ) (hB : tB < thr) (hA : thr < tA) :
    C02.bracketOK s metric r 0 (s.cm (.fin tB)) (s.cm (.fin tA)) = true := by
  unfold Scores.thresholdAt at h
  split at h
  · cases h
  rename_i hne
  injection h with h
  simp only [thresholdAtRatio] at h
  rw [normalise_linear] at h
  have harr := metricArray_sorted s hp hn metric
  obtain ⟨hL, hU⟩ := invert_bracket u hu (s.metricArray metric) harr hne
    (normalise s.cfg (s.rescale metric r) metric.increasing metric.ratioClass .linear).1
    (normalise s.cfg (s.rescale metric r) metric.increasing metric.ratioClass .linear).2.1
  rw [h, normalise_fst] at hL hU
  have hd := denom_pos s metric hne
  have hspec := rescale_spec s metric r hne
  have hnB := rateNum_eq s hp hn metric tB
  have hnA := rateNum_eq s hp hn metric tA
  have h1 := belowCount_le_cntLt_of_lt s.cfg (s.metricArray metric) tB thr hB
  have h2 := cntLe_le_belowCount_of_lt s.cfg (s.metricArray metric) thr tA hA
  have h3 := belowCount_le_length s.cfg (s.metricArray metric) tB
  have h4 := belowCount_le_length s.cfg (s.metricArray metric) tA
  have h1q : ((belowCount s.cfg (s.metricArray metric) tB : ℕ) : ℚ) ≤ (cntLt (s.metricArray metric) thr : ℚ) := by
    exact_mod_cast h1
  have h2q : ((cntLe (s.metricArray metric) thr : ℕ) : ℚ) ≤ (belowCount s.cfg (s.metricArray metric) tA : ℚ) := by
    exact_mod_cast h2
  unfold C02.bracketOK
  simp only [Bool.and_eq_true, decide_eq_true_eq, sub_zero, add_zero]
  unfold rateQ
  rw [hnB, hnA]
  -- multiply through by the population
  have key : ∀ x : ℚ, x / (denom s metric : ℚ) - 1 / (denom s metric : ℚ) ≤ clipped s metric r ↔
      x - 1 ≤ clipped s metric r * (denom s metric : ℚ) := by
    intro x; rw [← sub_div, div_le_iff₀ hd]
  have key2 : ∀ x : ℚ, clipped s metric r ≤ x / (denom s metric : ℚ) + 1 / (denom s metric : ℚ) ↔
      clipped s metric r * (denom s metric : ℚ) ≤ x + 1 := by
    intro x; rw [← add_div, le_div_iff₀ hd]
  by_cases he : evenFlips s.cfg metric.increasing = true
  · simp only [he, if_true] at hL hU ⊢
    constructor
    · apply min_sub_le_of_left
      rw [key, hspec]; push_cast; linarith
    · apply le_max_add_of_right
      rw [key2, hspec]; push_cast; linarith
  · simp only [he, if_false, Bool.false_eq_true] at hL hU ⊢
    rw [clip01_one_sub] at hL hU
    have c3 : ((((s.metricArray metric).length - belowCount s.cfg (s.metricArray metric) tB : ℕ)) : ℚ)
        = ((s.metricArray metric).length : ℚ) - (belowCount s.cfg (s.metricArray metric) tB : ℚ) := by
      rw [Nat.cast_sub h3]
    have c4 : ((((s.metricArray metric).length - belowCount s.cfg (s.metricArray metric) tA : ℕ)) : ℚ)
        = ((s.metricArray metric).length : ℚ) - (belowCount s.cfg (s.metricArray metric) tA : ℚ) := by
      rw [Nat.cast_sub h4]
    constructor
    · apply min_sub_le_of_right
      rw [key, hspec]; push_cast; rw [c4]; linarith
    · apply le_max_add_of_left
      rw [key2, hspec]; push_cast; rw [c3]; linarith

theorem pairwise_of_strictlySorted : ∀ l : List ℚ, C02.strictlySorted l = true → l.Pairwise (· < ·)
  | [] => by simp
  | [a] => by simp
  | a :: b :: rest => by
    intro h
    simp only [C02.strictlySorted, Bool.and_eq_true, decide_eq_true_eq] at h
    have ih := pairwise_of_strictlySorted (b :: rest) h.2
    have ih' := List.pairwise_cons.mp ih
    rw [List.pairwise_cons]
    refine ⟨?_, ih⟩
    intro x hx
    rcases List.mem_cons.mp hx with rfl | hx
    · exact h.1
    · exact lt_trans h.1 (ih'.1 x hx)

theorem absQ_le (x d : ℚ) : absQ x ≤ d ↔ -d ≤ x ∧ x ≤ d := by
  by_cases hx : x < 0
  · simp only [absQ, hx, if_true]
    constructor
    · intro h; constructor <;> linarith
    · intro h; linarith [h.1]
  · simp only [absQ, hx, if_false]
    constructor
    · intro h; constructor <;> linarith
    · intro h; exact h.2

theorem cntLt_le_belowCount (cfg : Cfg) (a : List ℚ) (t : ℚ) : cntLt a t ≤ belowCount cfg a t := by
  unfold belowCount; split
  · exact le_refl _
  · exact cntLt_le_cntLe a t

theorem belowCount_le_cntLe (cfg : Cfg) (a : List ℚ) (t : ℚ) : belowCount cfg a t ≤ cntLe a t := by
  unfold belowCount; split
  · exact cntLt_le_cntLe a t
  · exact le_refl _

/-- **C02 (round trip, tie-free).** If the relevant scored samples are pairwise distinct, the
metric evaluated by the same object at the returned (linear) threshold is within one sample
(1/N of the relevant population, easy samples included) of the target clipped to the
achievable range — all six metrics, four configurations, all easy counts, every real target. -/
theorem C02_within (u : Ulp) (hu : u.Lawful) (s : Scores)
    (hp : s.pos.Pairwise (· ≤ ·)) (hn : s.neg.Pairwise (· ≤ ·))
    (metric : Metric) (r thr : ℚ) (h : s.thresholdAt u metric r .linear = .ok thr)
    (htf : C02.strictlySorted (s.metricArray metric) = true) :
    C02.withinOK s metric r 0 (s.cm (.fin thr)) = true := by
  unfold Scores.thresholdAt at h
  split at h
  · cases h
  rename_i hne
  injection h with h
  simp only [thresholdAtRatio] at h
  rw [normalise_linear] at h
  have hstrict := pairwise_of_strictlySorted _ htf
  have hb1 := cntLt_le_belowCount s.cfg (s.metricArray metric) thr
  have hb2 := belowCount_le_cntLe s.cfg (s.metricArray metric) thr
  rw [← h] at hb1 hb2
  obtain ⟨hL, hU⟩ := invert_within u hu (s.metricArray metric) hstrict hne _ _ _ hb1 hb2
  rw [h, normalise_fst] at hL hU
  have hd := denom_pos s metric hne
  have hspec := rescale_spec s metric r hne
  have hnum := rateNum_eq s hp hn metric thr
  have h3 := belowCount_le_length s.cfg (s.metricArray metric) thr
  unfold C02.withinOK
  simp only [decide_eq_true_eq, add_zero]
  rw [absQ_le]
  unfold rateQ
  rw [hnum]
  have e1 : ∀ x : ℚ, -(1 / (denom s metric : ℚ)) ≤ x / (denom s metric : ℚ) - clipped s metric r ↔
      clipped s metric r * (denom s metric : ℚ) - 1 ≤ x := by
    intro x
    constructor
    · intro a
      have : clipped s metric r ≤ (x + 1) / (denom s metric : ℚ) := by rw [add_div]; linarith
      rw [le_div_iff₀ hd] at this; linarith
    · intro a
      have : clipped s metric r ≤ (x + 1) / (denom s metric : ℚ) := by
        rw [le_div_iff₀ hd]; linarith
      rw [add_div] at this; linarith
  have e2 : ∀ x : ℚ, x / (denom s metric : ℚ) - clipped s metric r ≤ 1 / (denom s metric : ℚ) ↔
      x ≤ clipped s metric r * (denom s metric : ℚ) + 1 := by
    intro x
    constructor
    · intro a
      have : (x - 1) / (denom s metric : ℚ) ≤ clipped s metric r := by rw [sub_div]; linarith
      rw [div_le_iff₀ hd] at this; linarith
    · intro a
      have : (x - 1) / (denom s metric : ℚ) ≤ clipped s metric r := by
        rw [div_le_iff₀ hd]; linarith
      rw [sub_div] at this; linarith
  rw [e1, e2, hspec]
  by_cases he : evenFlips s.cfg metric.increasing = true
  · simp only [he, if_true] at hL hU ⊢
    push_cast; constructor <;> linarith
  · simp only [he, if_false, Bool.false_eq_true] at hL hU ⊢
    rw [clip01_one_sub] at hL hU
    push_cast; rw [Nat.cast_sub h3]; constructor <;> linarith

/-- **C02 (tie-free, spec form).** -/
theorem C02_tiefree (u : Ulp) (hu : u.Lawful) (s : Scores)
    (hp : s.pos.Pairwise (· ≤ ·)) (hn : s.neg.Pairwise (· ≤ ·))
    (metric : Metric) (r thr : ℚ) (h : s.thresholdAt u metric r .linear = .ok thr) :
    C02.tiefreeOK s metric r 0 (s.cm (.fin thr)) = true := by
  unfold C02.tiefreeOK
  split
  · rename_i htf; exact C02_within u hu s hp hn metric r thr h htf
  · rfl

/-! ### coherence of the three methods and monotonicity in the target -/

theorem normalise_method (cfg : Cfg) (r : ℚ) (inc : Bool) (rc : Label) (m : Method) :
    (normalise cfg r inc rc m).2.2 = if evenFlips cfg inc then m else m.reverse := by
  obtain ⟨sc, ec⟩ := cfg
  cases inc <;> cases sc <;> cases m <;> simp [normalise, evenFlips, Method.reverse]

/-- the continuity flag handed to `_invert_increasing_function` -/
def normLc (cfg : Cfg) (inc : Bool) (rc : Label) : Bool := (normalise cfg 0 inc rc .linear).2.1

theorem normalise_lc (cfg : Cfg) (r : ℚ) (inc : Bool) (rc : Label) (m : Method) :
    (normalise cfg r inc rc m).2.1 = normLc cfg inc rc := by
  obtain ⟨sc, ec⟩ := cfg
  cases inc <;> cases sc <;> cases ec <;> cases rc <;> simp [normalise, normLc]

/-- normalised target of a metric -/
def normTarget (s : Scores) (metric : Metric) (r : ℚ) : ℚ :=
  if evenFlips s.cfg metric.increasing then s.rescale metric r else 1 - s.rescale metric r

theorem thresholdAt_eq (u : Ulp) (s : Scores) (metric : Metric) (r : ℚ) (m : Method)
    (hne : (s.metricArray metric).length ≠ 0) :
    s.thresholdAt u metric r m = .ok (invertIncreasing u (s.metricArray metric)
      (normTarget s metric r) (normLc s.cfg metric.increasing metric.ratioClass)
      (if evenFlips s.cfg metric.increasing then m else m.reverse)) := by
  unfold Scores.thresholdAt
  rw [if_neg hne]
  simp only [thresholdAtRatio, normalise_fst, normalise_lc, normalise_method, normTarget]

theorem thresholdAt_ne (u : Ulp) (s : Scores) (metric : Metric) (r : ℚ) (m : Method) (t : ℚ)
    (h : s.thresholdAt u metric r m = .ok t) : (s.metricArray metric).length ≠ 0 := by
  unfold Scores.thresholdAt at h
  split at h
  · cases h
  · assumption

theorem belowCount_mono (cfg : Cfg) (a : List ℚ) (t t' : ℚ) (h : t ≤ t') :
    belowCount cfg a t ≤ belowCount cfg a t' := by
  unfold belowCount; split
  · exact cntLt_mono a t t' h
  · exact cntLe_mono a t t' h

/-- **C02 (members).** `lower` and `higher` return an actual sample score of the relevant
class, or the sentinel one ulp outside the score range. -/
theorem C02_member (u : Ulp) (s : Scores) (metric : Metric) (r t : ℚ) (m : Method)
    (hm : m ≠ .linear) (h : s.thresholdAt u metric r m = .ok t) :
    C02.memberOK u s metric t = true := by
  have hne := thresholdAt_ne u s metric r m t h
  rw [thresholdAt_eq u s metric r m hne] at h
  injection h with h
  have hm' : (if evenFlips s.cfg metric.increasing then m else m.reverse) ≠ .linear := by
    split
    · exact hm
    · cases m <;> simp [Method.reverse] at hm ⊢
  have := invert_member u (s.metricArray metric) hne (normTarget s metric r)
    (normLc s.cfg metric.increasing metric.ratioClass) _ hm'
  rw [h] at this
  unfold C02.memberOK
  simp only [Bool.or_eq_true, List.contains_iff_mem, beq_iff_eq]
  rcases this with a | a | a
  · exact Or.inl (Or.inl a)
  · exact Or.inl (Or.inr a)
  · exact Or.inr a

/-- **C02 (order).** metric(lower) ≤ metric(higher), for all metrics and configurations: this
is where the method reversal for decreasing metrics and for `score_class = neg` matters. -/
theorem C02_order (u : Ulp) (s : Scores) (hp : s.pos.Pairwise (· ≤ ·)) (hn : s.neg.Pairwise (· ≤ ·))
    (metric : Metric) (r tLo tHi : ℚ)
    (hLo : s.thresholdAt u metric r .lower = .ok tLo)
    (hHi : s.thresholdAt u metric r .higher = .ok tHi) :
    C02.orderOK metric (s.cm (.fin tLo)) (s.cm (.fin tHi)) = true := by
  have hne := thresholdAt_ne u s metric r .lower tLo hLo
  rw [thresholdAt_eq u s metric r _ hne] at hLo hHi
  injection hLo with hLo
  injection hHi with hHi
  have harr := metricArray_sorted s hp hn metric
  obtain ⟨o1, o2⟩ := invert_order u (s.metricArray metric) harr hne (normTarget s metric r)
    (normLc s.cfg metric.increasing metric.ratioClass)
  have o := le_trans o1 o2
  unfold C02.orderOK
  simp only [decide_eq_true_eq]
  rw [rateNum_eq s hp hn, rateNum_eq s hp hn]
  by_cases he : evenFlips s.cfg metric.increasing = true
  · simp only [he, if_true] at hLo hHi ⊢
    rw [← hLo, ← hHi]
    exact Nat.add_le_add_left (belowCount_mono _ _ _ _ o) _
  · simp only [he, if_false, Bool.false_eq_true, Method.reverse] at hLo hHi ⊢
    rw [← hLo, ← hHi]
    have := belowCount_mono s.cfg (s.metricArray metric) _ _ o
    omega

/-- **C02 (between).** The linear threshold lies between the `lower` and `higher` ones. -/
theorem C02_between (u : Ulp) (s : Scores) (hp : s.pos.Pairwise (· ≤ ·)) (hn : s.neg.Pairwise (· ≤ ·))
    (metric : Metric) (r tLin tLo tHi : ℚ)
    (hLin : s.thresholdAt u metric r .linear = .ok tLin)
    (hLo : s.thresholdAt u metric r .lower = .ok tLo)
    (hHi : s.thresholdAt u metric r .higher = .ok tHi) :
    C02.betweenOK tLin tLo tHi 0 = true := by
  have hne := thresholdAt_ne u s metric r .lower tLo hLo
  rw [thresholdAt_eq u s metric r _ hne] at hLo hHi hLin
  injection hLo with hLo
  injection hHi with hHi
  injection hLin with hLin
  have harr := metricArray_sorted s hp hn metric
  obtain ⟨o1, o2⟩ := invert_order u (s.metricArray metric) harr hne (normTarget s metric r)
    (normLc s.cfg metric.increasing metric.ratioClass)
  unfold C02.betweenOK
  simp only [Bool.and_eq_true, decide_eq_true_eq, sub_zero, add_zero]
  by_cases he : evenFlips s.cfg metric.increasing = true
  · simp only [he, if_true] at hLo hHi hLin
    rw [← hLo, ← hHi, ← hLin]
    exact ⟨le_trans (min_le_left _ _) o1, le_trans o2 (le_max_right _ _)⟩
  · simp only [he, if_false, Bool.false_eq_true, Method.reverse] at hLo hHi hLin
    rw [← hLo, ← hHi, ← hLin]
    exact ⟨le_trans (min_le_right _ _) o1, le_trans o2 (le_max_left _ _)⟩

/-- **C02 (convex).** For interior targets the linear threshold equals the convex combination
of the two neighbouring sample thresholds, weighted by the fractional part of the index
target (`⌈x⌉ - x`). -/
theorem C02_convex (u : Ulp) (s : Scores) (metric : Metric) (r tLin tLo tHi : ℚ)
    (hLin : s.thresholdAt u metric r .linear = .ok tLin)
    (hLo : s.thresholdAt u metric r .lower = .ok tLo)
    (hHi : s.thresholdAt u metric r .higher = .ok tHi) :
    C02.convexOK s metric r tLin tLo tHi 0 = true := by
  have hne := thresholdAt_ne u s metric r .lower tLo hLo
  rw [thresholdAt_eq u s metric r _ hne] at hLo hHi hLin
  injection hLo with hLo
  injection hHi with hHi
  injection hLin with hLin
  unfold C02.convexOK
  simp only [normalise_fst, normalise_lc, normalise_method]
  by_cases he : evenFlips s.cfg metric.increasing = true
  · simp only [he, if_true, normTarget] at hLo hHi hLin ⊢
    by_cases hcond : (decide (1 ≤ s.rescale metric r) ||
          decide ((if normLc s.cfg metric.increasing metric.ratioClass = true then s.rescale metric r
              else s.rescale metric r - 1 / ↑(s.metricArray metric).length) ≤ 0)) = true
    · rw [if_pos hcond]
    · rw [if_neg hcond]
      simp only [Bool.or_eq_true, decide_eq_true_eq, not_or] at hcond
      obtain ⟨c1, c2⟩ := hcond
      have hconv := invert_convex u (s.metricArray metric) (s.rescale metric r)
        (normLc s.cfg metric.increasing metric.ratioClass) c1 c2
      simp only [decide_eq_true_eq, beq_self_eq_true, if_true]
      rw [absQ_le, ← hLo, ← hHi, ← hLin, hconv]; constructor <;> simp
  · simp only [he, if_false, Bool.false_eq_true, Method.reverse, normTarget] at hLo hHi hLin ⊢
    by_cases hcond : (decide (1 ≤ 1 - s.rescale metric r) ||
          decide ((if normLc s.cfg metric.increasing metric.ratioClass = true then 1 - s.rescale metric r
              else 1 - s.rescale metric r - 1 / ↑(s.metricArray metric).length) ≤ 0)) = true
    · rw [if_pos hcond]
    · rw [if_neg hcond]
      simp only [Bool.or_eq_true, decide_eq_true_eq, not_or] at hcond
      obtain ⟨c1, c2⟩ := hcond
      have hconv := invert_convex u (s.metricArray metric) (1 - s.rescale metric r)
        (normLc s.cfg metric.increasing metric.ratioClass) c1 c2
      have : (Method.higher == Method.lower) = false := by decide
      simp only [decide_eq_true_eq, this, if_false, Bool.false_eq_true]
      rw [absQ_le, ← hLo, ← hHi, ← hLin, hconv]; constructor <;> simp

/-! ### monotonicity in the target -/

theorem hardPosRatio_nonneg (s : Scores) : 0 ≤ s.hardPosRatio := by
  unfold Scores.hardPosRatio; split <;> positivity

theorem hardNegRatio_nonneg (s : Scores) : 0 ≤ s.hardNegRatio := by
  unfold Scores.hardNegRatio; split <;> positivity

theorem hardRatio_nonneg (s : Scores) : 0 ≤ s.hardRatio := by
  unfold Scores.hardRatio Scores.easyRatio
  split
  · rename_i he
    have h1 : (0:ℚ) < (s.nbAll : ℚ) := by
      have : 0 < s.nbAll := by unfold Scores.nbAll; omega
      exact_mod_cast this
    have h2 : (s.nbEasy : ℚ) ≤ (s.nbAll : ℚ) := by
      have : s.nbEasy ≤ s.nbAll := by unfold Scores.nbAll; omega
      exact_mod_cast this
    have : (s.nbEasy : ℚ) / (s.nbAll : ℚ) ≤ 1 := by rw [div_le_one h1]; exact h2
    linarith
  · norm_num

theorem rescale_mono (s : Scores) (metric : Metric) (r1 r2 : ℚ) (h : r1 ≤ r2) :
    s.rescale metric r1 ≤ s.rescale metric r2 := by
  have hmin : ∀ a b : ℚ, a ≤ b → min a 1 ≤ min b 1 := fun a b hab => min_le_min hab (le_refl _)
  have hmax : ∀ a b : ℚ, a ≤ b → max a 0 ≤ max b 0 := fun a b hab => max_le_max hab (le_refl _)
  cases metric <;> simp only [Scores.rescale] <;> apply hmin
  · apply div_le_div_of_nonneg_right _ (by positivity)
    apply hmax
    have : (0:ℚ) ≤ (s.nbAllPos : ℚ) := by positivity
    nlinarith
  · exact div_le_div_of_nonneg_right h (hardPosRatio_nonneg s)
  · apply div_le_div_of_nonneg_right _ (by positivity)
    apply hmax
    have : (0:ℚ) ≤ (s.nbAllNeg : ℚ) := by positivity
    nlinarith
  · exact div_le_div_of_nonneg_right h (hardNegRatio_nonneg s)
  · apply div_le_div_of_nonneg_right _ (hardRatio_nonneg s)
    apply hmax; linarith
  · apply div_le_div_of_nonneg_right _ (hardRatio_nonneg s)
    apply hmax; linarith

/-- **C02 (monotone).** For every metric, configuration and method the returned threshold is
a monotone function of the target; the direction is given by the metric and `score_class`. -/
theorem C02_monotone (u : Ulp) (hu : u.Lawful) (s : Scores)
    (hp : s.pos.Pairwise (· ≤ ·)) (hn : s.neg.Pairwise (· ≤ ·))
    (metric : Metric) (m : Method) (r1 r2 t1 t2 : ℚ) (h : r1 ≤ r2)
    (h1 : s.thresholdAt u metric r1 m = .ok t1) (h2 : s.thresholdAt u metric r2 m = .ok t2) :
    if C02.thresholdIncreasing s.cfg metric then t1 ≤ t2 else t2 ≤ t1 := by
  have hne := thresholdAt_ne u s metric r1 m t1 h1
  rw [thresholdAt_eq u s metric _ _ hne] at h1 h2
  injection h1 with h1
  injection h2 with h2
  have harr := metricArray_sorted s hp hn metric
  have hr := rescale_mono s metric r1 r2 h
  have hev : C02.thresholdIncreasing s.cfg metric = evenFlips s.cfg metric.increasing := rfl
  rw [hev]
  by_cases he : evenFlips s.cfg metric.increasing = true
  · simp only [he, if_true, normTarget] at h1 h2 ⊢
    rw [← h1, ← h2]
    exact invert_mono u hu _ harr hne _ _ _ _ hr
  · simp only [he, if_false, Bool.false_eq_true, normTarget] at h1 h2 ⊢
    rw [← h1, ← h2]
    exact invert_mono u hu _ harr hne _ _ _ _ (by linarith)

/-- list form: thresholds of ascending targets satisfy the executable predicate -/
theorem C02_monotoneOK (u : Ulp) (hu : u.Lawful) (s : Scores)
    (hp : s.pos.Pairwise (· ≤ ·)) (hn : s.neg.Pairwise (· ≤ ·))
    (metric : Metric) (m : Method) :
    ∀ (rs ts : List ℚ), rs.Pairwise (· ≤ ·) →
      List.Forall₂ (fun r t => s.thresholdAt u metric r m = .ok t) rs ts →
      C02.monotoneOK s.cfg metric 0 ts = true := by
  intro rs ts hrs hf
  induction hf with
  | nil => rfl
  | @cons r t rs' ts' hrt hrest ih =>
    cases hrest with
    | nil => rfl
    | @cons r2 t2 rs'' ts'' hrt2 hrest2 =>
      rw [List.pairwise_cons] at hrs
      have hmono := C02_monotone u hu s hp hn metric m r r2 t t2 (hrs.1 r2 (by simp)) hrt hrt2
      have ih' := ih hrs.2
      unfold C02.monotoneOK
      simp only [Bool.and_eq_true, add_zero]
      refine ⟨?_, ih'⟩
      by_cases hti : C02.thresholdIncreasing s.cfg metric = true
      · simp only [hti, if_true] at hmono ⊢; simpa using hmono
      · simp only [hti, if_false, Bool.false_eq_true] at hmono ⊢; simpa using hmono

end SA

namespace SA
/-- Non-vacuity: the hypotheses of the C02 theorems are satisfiable (a lawful oracle, a
successful call on tie-free data with easy samples). -/
example : Ulp.half.Lawful ∧
    (∃ thr, (Scores.make [3, 1, 4, 2] [0, 1] 5 2 ⟨.neg, .pos⟩ false).thresholdAt Ulp.half .tnr
      (1 / 2) .linear = .ok thr) ∧
    Spec.C02.strictlySorted [1, 2, 3, 4] = true := by
  refine ⟨Ulp.half_lawful, ?_, by decide +kernel⟩
  rw [C03_error_iff]; simp [Scores.metricArray, Scores.make, length_sortQ]
end SA
