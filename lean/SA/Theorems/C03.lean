/-
C03 — extreme operating points are honoured exactly.
-/
import SA.Proofs.Threshold
import SA.Theorems.C01

namespace SA
open Spec

def Metric.usesPos : Metric → Bool
  | .tnr => false
  | .fpr => false
  | _ => true

def Metric.usesNeg : Metric → Bool
  | .tpr => false
  | .fnr => false
  | _ => true

/-- Counting at a threshold below every relevant score: with `score_class = pos` everything is
accepted, otherwise nothing is. -/
theorem rateNum_below (s : Scores) (metric : Metric) (t : ℚ)
    (hP : metric.usesPos = true → ∀ x ∈ s.pos, t < x)
    (hN : metric.usesNeg = true → ∀ x ∈ s.neg, t < x) :
    (countCM s.pos s.neg s.easyPos s.easyNeg s.cfg (.fin t)).rateNum metric =
      if (s.cfg.scoreClass = .pos) = (metric.increasing = false)
      then maxNum s metric else minNum s metric := by
  have cp := fun h => countP_accept_of_all_gt s.cfg s.pos t (hP h)
  have cn := fun h => countP_accept_of_all_gt s.cfg s.neg t (hN h)
  have np := countP_not (fun x => accept s.cfg x (.fin t)) s.pos
  have nn := countP_not (fun x => accept s.cfg x (.fin t)) s.neg
  cases metric <;> cases hsc : s.cfg.scoreClass <;>
    first
    | (have cp' := cp (by decide); have cn' := cn (by decide); rw [hsc] at cp' cn'
       simp [countCM, CM.rateNum, CM.top, CM.ton, minNum, maxNum, Metric.increasing, np, nn,
         cp', cn'] <;> omega)
    | (have cp' := cp (by decide); rw [hsc] at cp'
       simp [countCM, CM.rateNum, minNum, maxNum, Metric.increasing, np, cp'] <;> omega)
    | (have cn' := cn (by decide); rw [hsc] at cn'
       simp [countCM, CM.rateNum, minNum, maxNum, Metric.increasing, nn, cn'] <;> omega)

/-- Counting at a threshold above every relevant score. -/
theorem rateNum_above (s : Scores) (metric : Metric) (t : ℚ)
    (hP : metric.usesPos = true → ∀ x ∈ s.pos, x < t)
    (hN : metric.usesNeg = true → ∀ x ∈ s.neg, x < t) :
    (countCM s.pos s.neg s.easyPos s.easyNeg s.cfg (.fin t)).rateNum metric =
      if (s.cfg.scoreClass = .pos) = (metric.increasing = false)
      then minNum s metric else maxNum s metric := by
  have cp := fun h => countP_accept_of_all_lt s.cfg s.pos t (hP h)
  have cn := fun h => countP_accept_of_all_lt s.cfg s.neg t (hN h)
  have np := countP_not (fun x => accept s.cfg x (.fin t)) s.pos
  have nn := countP_not (fun x => accept s.cfg x (.fin t)) s.neg
  cases metric <;> cases hsc : s.cfg.scoreClass <;>
    first
    | (have cp' := cp (by decide); have cn' := cn (by decide); rw [hsc] at cp' cn'
       simp [countCM, CM.rateNum, CM.top, CM.ton, minNum, maxNum, Metric.increasing, np, nn,
         cp', cn'] <;> omega)
    | (have cp' := cp (by decide); rw [hsc] at cp'
       simp [countCM, CM.rateNum, minNum, maxNum, Metric.increasing, np, cp'] <;> omega)
    | (have cn' := cn (by decide); rw [hsc] at cn'
       simp [countCM, CM.rateNum, minNum, maxNum, Metric.increasing, nn, cn'] <;> omega)

theorem metricArray_sorted (s : Scores) (hp : s.pos.Pairwise (· ≤ ·))
    (hn : s.neg.Pairwise (· ≤ ·)) (metric : Metric) :
    (s.metricArray metric).Pairwise (· ≤ ·) := by
  cases metric <;> simp only [Scores.metricArray, Scores.concat] <;>
    first | exact hp | exact hn | exact sortQ_pairwise _

theorem mem_metricArray_pos (s : Scores) (metric : Metric) (h : metric.usesPos = true)
    (x : ℚ) (hx : x ∈ s.pos) : x ∈ s.metricArray metric := by
  cases metric <;> simp [Metric.usesPos] at h <;> simp only [Scores.metricArray, Scores.concat] <;>
    first
    | exact hx
    | exact (sortQ_perm _).mem_iff.mpr (List.mem_append_right _ hx)

theorem mem_metricArray_neg (s : Scores) (metric : Metric) (h : metric.usesNeg = true)
    (x : ℚ) (hx : x ∈ s.neg) : x ∈ s.metricArray metric := by
  cases metric <;> simp [Metric.usesNeg] at h <;> simp only [Scores.metricArray, Scores.concat] <;>
    first
    | exact hx
    | exact (sortQ_perm _).mem_iff.mpr (List.mem_append_left _ hx)

/-- **C03 (low end).** For every metric, configuration, easy counts and method: a target
`r ≤ 0` yields a threshold at which the metric's count is exactly its lowest achievable
value. Holds for any `nextafter` oracle with `down x < x < up x`. -/
theorem C03_extreme_low (u : Ulp) (hu : u.Lawful) (s : Scores)
    (hp : s.pos.Pairwise (· ≤ ·)) (hn : s.neg.Pairwise (· ≤ ·))
    (metric : Metric) (m : Method) (r : ℚ) (hr : r ≤ 0) (thr : ℚ)
    (h : s.thresholdAt u metric r m = .ok thr) :
    (s.cm (.fin thr)).rateNum metric = minNum s metric := by
  unfold Scores.thresholdAt at h
  split at h
  · cases h
  · rename_i hne
    injection h with h
    rw [thresholdAtRatio_low _ _ _ _ _ _ _ (rescale_low s metric r hr)] at h
    rw [cm_eq_countCM_of_sorted s hp hn]
    have harr := metricArray_sorted s hp hn metric
    by_cases he : evenFlips s.cfg metric.increasing = true
    · rw [if_pos he] at h
      subst h
      rw [rateNum_below]
      · rw [if_neg]
        unfold evenFlips at he
        cases hsc : s.cfg.scoreClass <;> cases hi : metric.increasing <;> simp [hsc, hi] at he ⊢
      · intro hP x hx
        exact lt_of_lt_of_le (hu.down_lt _)
          (head_le_of_sorted _ harr x (mem_metricArray_pos s metric hP x hx))
      · intro hN x hx
        exact lt_of_lt_of_le (hu.down_lt _)
          (head_le_of_sorted _ harr x (mem_metricArray_neg s metric hN x hx))
    · rw [if_neg he] at h
      subst h
      rw [rateNum_above]
      · rw [if_pos]
        unfold evenFlips at he
        cases hsc : s.cfg.scoreClass <;> cases hi : metric.increasing <;> simp [hsc, hi] at he ⊢
      · intro hP x hx
        exact lt_of_le_of_lt (le_last_of_sorted _ harr x (mem_metricArray_pos s metric hP x hx))
          (hu.lt_up _)
      · intro hN x hx
        exact lt_of_le_of_lt (le_last_of_sorted _ harr x (mem_metricArray_neg s metric hN x hx))
          (hu.lt_up _)

/-- **C03 (high end).** A target `r ≥ 1` yields a threshold at which the metric's count is
exactly its highest achievable value. -/
theorem C03_extreme_high (u : Ulp) (hu : u.Lawful) (s : Scores)
    (hp : s.pos.Pairwise (· ≤ ·)) (hn : s.neg.Pairwise (· ≤ ·))
    (metric : Metric) (m : Method) (r : ℚ) (hr : 1 ≤ r) (thr : ℚ)
    (h : s.thresholdAt u metric r m = .ok thr) :
    (s.cm (.fin thr)).rateNum metric = maxNum s metric := by
  unfold Scores.thresholdAt at h
  split at h
  · cases h
  · rename_i hne
    injection h with h
    rw [thresholdAtRatio_high _ _ _ _ _ _ _ (rescale_high s metric r hr hne)] at h
    rw [cm_eq_countCM_of_sorted s hp hn]
    have harr := metricArray_sorted s hp hn metric
    by_cases he : evenFlips s.cfg metric.increasing = true
    · rw [if_pos he] at h
      subst h
      rw [rateNum_above]
      · rw [if_neg]
        unfold evenFlips at he
        cases hsc : s.cfg.scoreClass <;> cases hi : metric.increasing <;> simp [hsc, hi] at he ⊢
      · intro hP x hx
        exact lt_of_le_of_lt (le_last_of_sorted _ harr x (mem_metricArray_pos s metric hP x hx))
          (hu.lt_up _)
      · intro hN x hx
        exact lt_of_le_of_lt (le_last_of_sorted _ harr x (mem_metricArray_neg s metric hN x hx))
          (hu.lt_up _)
    · rw [if_neg he] at h
      subst h
      rw [rateNum_below]
      · rw [if_pos]
        unfold evenFlips at he
        cases hsc : s.cfg.scoreClass <;> cases hi : metric.increasing <;> simp [hsc, hi] at he ⊢
      · intro hP x hx
        exact lt_of_lt_of_le (hu.down_lt _)
          (head_le_of_sorted _ harr x (mem_metricArray_pos s metric hP x hx))
      · intro hN x hx
        exact lt_of_lt_of_le (hu.down_lt _)
          (head_le_of_sorted _ harr x (mem_metricArray_neg s metric hN x hx))

/-- **C03 (spec form, constructed object).** The executable predicate the driver evaluates on
the implementation's matrices holds of the model for every input, unsorted lists included. -/
theorem C03_spec_extreme (u : Ulp) (hu : u.Lawful) (pos neg : List ℚ) (ep en : ℕ) (cfg : Cfg)
    (metric : Metric) (m : Method) (r : ℚ) (thr : ℚ)
    (h : (Scores.make pos neg ep en cfg false).thresholdAt u metric r m = .ok thr) :
    C03.extremeOK (Scores.make pos neg ep en cfg false) metric r
      ((Scores.make pos neg ep en cfg false).cm (.fin thr)) = true := by
  have hp : (Scores.make pos neg ep en cfg false).pos.Pairwise (· ≤ ·) := by
    simpa [Scores.make] using sortQ_pairwise pos
  have hn : (Scores.make pos neg ep en cfg false).neg.Pairwise (· ≤ ·) := by
    simpa [Scores.make] using sortQ_pairwise neg
  unfold C03.extremeOK
  by_cases h0 : r ≤ 0
  · have h1 : ¬ (1 ≤ r) := by linarith
    simp [h0, h1, C03_extreme_low u hu _ hp hn metric m r h0 thr h]
  · by_cases h1 : 1 ≤ r
    · simp [h0, h1, C03_extreme_high u hu _ hp hn metric m r h1 thr h]
    · simp [h0, h1]

/-- The error branch: threshold setting fails exactly when the relevant class is empty. -/
theorem C03_error_iff (u : Ulp) (s : Scores) (metric : Metric) (m : Method) (r : ℚ) :
    (∃ thr, s.thresholdAt u metric r m = .ok thr) ↔ (s.metricArray metric).length ≠ 0 := by
  unfold Scores.thresholdAt
  split <;> simp_all

/-- Non-vacuity: a lawful oracle exists (±1/2 steps) and a concrete call succeeds. -/
def Ulp.half : Ulp := ⟨fun x => x - 1 / 2, fun x => x + 1 / 2⟩

theorem Ulp.half_lawful : Ulp.half.Lawful :=
  ⟨fun x => by show x - 1 / 2 < x; linarith, fun x => by show x < x + 1 / 2; linarith⟩

example : ∃ thr, (Scores.make [5] [3, 1, 2] 0 0 ⟨.pos, .pos⟩ false).thresholdAt Ulp.half .fpr 0
    .linear = .ok thr := by
  rw [C03_error_iff]; simp [Scores.metricArray, Scores.make, length_sortQ]

end SA
