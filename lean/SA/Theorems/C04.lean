/-
C04 — binary metrics obey their defining algebra, NaN rule and normal-approximation CIs.
-/
import SA.Spec.C04
import Mathlib.Tactic.Linarith
import Mathlib.Tactic.Ring
import Mathlib.Tactic.FieldSimp
import Mathlib.Tactic.Positivity

namespace SA
open Spec.C04

/-- non-negative cells -/
def CMq.Nonneg (m : CMq) : Prop := 0 ≤ m.tp ∧ 0 ≤ m.fn ∧ 0 ≤ m.fp ∧ 0 ≤ m.tn

theorem near_self (a : ℚ) : near 0 a a = true := by simp [near, Spec.C04.absQ]

theorem near_of_eq (a b : ℚ) (h : a = b) : near 0 a b = true := by subst h; exact near_self a

/-- **C04 (counts).** P+N = TOP+TON = POP. -/
theorem C04_counts (m : CMq) : countsOK 0 m.p m.n m.top m.ton m.pop = true := by
  simp only [countsOK, Bool.and_eq_true]
  constructor <;> apply near_of_eq <;> simp only [CMq.p, CMq.n, CMq.top, CMq.ton, CMq.pop] <;> ring

theorem pairOK_div (a b d : ℚ) (h : a + b = d) :
    pairOK 0 (divQ a d) (divQ b d) = true := by
  unfold divQ
  by_cases hd : d = 0
  · simp [hd, pairOK]
  · simp only [hd, if_false, pairOK]
    apply near_of_eq
    rw [← add_div, h, div_self hd]

theorem pairOK_compl (a d : ℚ) :
    pairOK 0 (divQ a d) ((divQ a d).map (fun x => 1 - x)) = true := by
  unfold divQ
  by_cases hd : d = 0
  · simp [hd, pairOK]
  · simp only [hd, if_false, pairOK, Option.map]
    apply near_of_eq; ring

/-- **C04 (complements).** TPR+FNR = TNR+FPR = PPV+FDR = NPV+FOR = TOPR+TONR =
accuracy+error = 1 whenever defined, and both members of a pair are NaN together. -/
theorem C04_complements (m : CMq) : complementsOK 0 (modelRates m) = true := by
  simp only [complementsOK, modelRates, Bool.and_eq_true]
  refine ⟨⟨⟨⟨⟨?_, ?_⟩, ?_⟩, ?_⟩, ?_⟩, ?_⟩
  · exact pairOK_div _ _ _ rfl
  · exact pairOK_div _ _ _ (by simp only [CMq.n]; ring)
  · exact pairOK_compl _ _
  · exact pairOK_compl _ _
  · exact pairOK_div _ _ _ (by simp only [CMq.top, CMq.ton, CMq.pop]; ring)
  · exact pairOK_compl _ _

theorem inUnit_div (a d : ℚ) (h0 : 0 ≤ a) (h1 : a ≤ d) : inUnit 0 (divQ a d) = true := by
  unfold divQ
  by_cases hd : d = 0
  · simp [hd, inUnit]
  · have hdpos : 0 < d := lt_of_le_of_ne (le_trans h0 h1) (Ne.symm hd)
    simp only [hd, if_false, inUnit, Bool.and_eq_true, decide_eq_true_eq, neg_zero, add_zero]
    exact ⟨div_nonneg h0 (le_of_lt hdpos), (div_le_one hdpos).mpr h1⟩

theorem inUnit_compl (a d : ℚ) (h0 : 0 ≤ a) (h1 : a ≤ d) :
    inUnit 0 ((divQ a d).map (fun x => 1 - x)) = true := by
  unfold divQ
  by_cases hd : d = 0
  · simp [hd, inUnit]
  · have hdpos : 0 < d := lt_of_le_of_ne (le_trans h0 h1) (Ne.symm hd)
    simp only [hd, if_false, inUnit, Option.map, Bool.and_eq_true, decide_eq_true_eq, neg_zero,
      add_zero]
    have a1 : 0 ≤ a / d := div_nonneg h0 (le_of_lt hdpos)
    have a2 : a / d ≤ 1 := (div_le_one hdpos).mpr h1
    constructor <;> linarith

/-- **C04 (range).** Every rate of a non-negative matrix lies in [0,1]. -/
theorem C04_range (m : CMq) (h : m.Nonneg) : rangeOK 0 (modelRates m) = true := by
  obtain ⟨h1, h2, h3, h4⟩ := h
  simp only [rangeOK, modelRates, Bool.and_eq_true, CMq.tpr, CMq.fnr, CMq.tnr, CMq.fpr, CMq.ppv,
    CMq.fdr, CMq.npv, CMq.for_, CMq.topr, CMq.tonr, CMq.accuracy, CMq.errorRate, CMq.p, CMq.n,
    CMq.top, CMq.ton, CMq.pop]
  refine ⟨⟨⟨⟨⟨⟨⟨⟨⟨⟨⟨?_, ?_⟩, ?_⟩, ?_⟩, ?_⟩, ?_⟩, ?_⟩, ?_⟩, ?_⟩, ?_⟩, ?_⟩, ?_⟩ <;>
    first
    | (apply inUnit_div <;> linarith)
    | (apply inUnit_compl <;> linarith)

theorem nanIff_div (a d : ℚ) : nanIff d (divQ a d) = true := by
  unfold nanIff divQ; by_cases hd : d = 0 <;> simp [hd]

theorem nanIff_compl (a d : ℚ) : nanIff d ((divQ a d).map (fun x => 1 - x)) = true := by
  unfold nanIff divQ; by_cases hd : d = 0 <;> simp [hd]

/-- **C04 (NaN locus).** A rate is NaN exactly when its denominator is zero (all 12 rates). -/
theorem C04_nan (m : CMq) : nanOK m (modelRates m) = true := by
  simp only [nanOK, modelRates, Bool.and_eq_true, CMq.tpr, CMq.fnr, CMq.tnr, CMq.fpr, CMq.ppv,
    CMq.fdr, CMq.npv, CMq.for_, CMq.topr, CMq.tonr, CMq.accuracy, CMq.errorRate]
  refine ⟨⟨⟨⟨⟨⟨⟨⟨⟨⟨⟨?_, ?_⟩, ?_⟩, ?_⟩, ?_⟩, ?_⟩, ?_⟩, ?_⟩, ?_⟩, ?_⟩, ?_⟩, ?_⟩ <;>
    first | exact nanIff_div _ _ | exact nanIff_compl _ _

theorem defOK_div (a d : ℚ) : defOK 0 a d (divQ a d) = true := by
  unfold defOK divQ
  by_cases hd : d = 0
  · simp [hd]
  · simp only [hd, if_false, Bool.and_eq_true, bne_iff_ne, ne_eq, not_false_eq_true, true_and,
      zero_mul]
    apply near_of_eq; field_simp

theorem defOK_compl (a b d : ℚ) (h : a + b = d) :
    defOK 0 b d ((divQ a d).map (fun x => 1 - x)) = true := by
  unfold defOK divQ
  by_cases hd : d = 0
  · simp [hd]
  · simp only [hd, if_false, Option.map, Bool.and_eq_true, bne_iff_ne, ne_eq, not_false_eq_true,
      true_and, zero_mul]
    apply near_of_eq; field_simp; first | done | linarith

/-- **C04 (definitions).** Each rate is its defining quotient (FDR = FP/TOP, FOR = FN/TON,
error rate = (FN+FP)/POP included). -/
theorem C04_definitions (m : CMq) : definitionsOK 0 m (modelRates m) = true := by
  simp only [definitionsOK, modelRates, Bool.and_eq_true, CMq.tpr, CMq.fnr, CMq.tnr, CMq.fpr,
    CMq.ppv, CMq.fdr, CMq.npv, CMq.for_, CMq.topr, CMq.tonr, CMq.accuracy, CMq.errorRate]
  refine ⟨⟨⟨⟨⟨⟨⟨⟨⟨⟨⟨?_, ?_⟩, ?_⟩, ?_⟩, ?_⟩, ?_⟩, ?_⟩, ?_⟩, ?_⟩, ?_⟩, ?_⟩, ?_⟩ <;>
    first
    | exact defOK_div _ _
    | (apply defOK_compl; (try simp only [CMq.top, CMq.ton, CMq.pop]); (try ring))

/-! ### normal-approximation intervals -/

/-- **C04 (CI centre and half-width).** For any `z` and any square-root function the
interval is centred on the rate with half-width `z * sqrt(p(1-p)/n)`; NaN iff `nobs = 0`. -/
theorem C04_ci_shape (z : ℚ) (sqrt : ℚ → ℚ) (count nobs : ℚ) :
    match binomialCI z sqrt count nobs with
    | none => nobs = 0
    | some (lo, hi) => nobs ≠ 0 ∧ lo + hi = 2 * (count / nobs) ∧
        (hi - lo) / 2 = z * sqrt (count / nobs * (1 - count / nobs) / nobs) := by
  unfold binomialCI divQ
  by_cases hn : nobs = 0
  · simp [hn]
  · simp only [hn, if_false]
    refine ⟨hn, by ring, by ring⟩

/-- spec form, for a square-root oracle that is exact on the radicand at hand -/
theorem C04_ci_spec (z : ℚ) (sqrt : ℚ → ℚ) (count nobs : ℚ) (hz : 0 ≤ z)
    (hs0 : ∀ v, 0 ≤ sqrt v)
    (hsq : ∀ p v, binomialCIParts count nobs = some (p, v) → sqrt v * sqrt v = v) :
    ciOK 0 z count nobs (binomialCI z sqrt count nobs) = true := by
  unfold binomialCI binomialCIParts divQ at *
  by_cases hn : nobs = 0
  · simp [hn, ciOK]
  · simp only [hn, if_false] at hsq ⊢
    have hv := hsq _ _ rfl
    simp only [ciOK, binomialCIParts, divQ, hn, if_false, Bool.and_eq_true, decide_eq_true_eq,
      add_zero]
    refine ⟨⟨near_of_eq _ _ (by ring), near_of_eq _ _ ?_⟩, ?_⟩
    · have : (count / nobs + z * sqrt (count / nobs * (1 - count / nobs) / nobs) -
          (count / nobs - z * sqrt (count / nobs * (1 - count / nobs) / nobs))) / 2 =
          z * sqrt (count / nobs * (1 - count / nobs) / nobs) := by ring
      rw [this]
      calc _ = z * z * (sqrt (count / nobs * (1 - count / nobs) / nobs) *
              sqrt (count / nobs * (1 - count / nobs) / nobs)) := by ring
        _ = _ := by rw [hv]
    · have := mul_nonneg hz (hs0 (count / nobs * (1 - count / nobs) / nobs))
      linarith

/-- **C04 (mirror).** The interval of the complementary rate (count `nobs - count`) is the
mirrored interval `[1 - hi, 1 - lo]` — for any square-root function. -/
theorem C04_ci_mirror (z : ℚ) (sqrt : ℚ → ℚ) (count nobs : ℚ) :
    mirrorOK 0 (binomialCI z sqrt count nobs) (binomialCI z sqrt (nobs - count) nobs) = true := by
  unfold binomialCI divQ
  by_cases hn : nobs = 0
  · simp [hn, mirrorOK]
  · simp only [hn, if_false, mirrorOK, Bool.and_eq_true]
    have hp : (nobs - count) / nobs = 1 - count / nobs := by field_simp
    have hv : (nobs - count) / nobs * (1 - (nobs - count) / nobs) / nobs =
        count / nobs * (1 - count / nobs) / nobs := by rw [hp]; ring
    rw [hv, hp]
    constructor <;> apply near_of_eq <;> ring

/-- **C04 (nested).** If `z₂ ≤ z₁` (i.e. `alpha₁ ≤ alpha₂`, `norm.isf` being antitone) and the
square root is non-negative, the interval for `z₂` lies inside the one for `z₁`. -/
theorem C04_ci_nested (z1 z2 : ℚ) (sqrt : ℚ → ℚ) (count nobs : ℚ) (hz : z2 ≤ z1)
    (hs0 : ∀ v, 0 ≤ sqrt v) :
    nestedOK 0 (binomialCI z1 sqrt count nobs) (binomialCI z2 sqrt count nobs) = true := by
  unfold binomialCI divQ
  by_cases hn : nobs = 0
  · simp [hn, nestedOK]
  · simp only [hn, if_false, nestedOK, Bool.and_eq_true, decide_eq_true_eq, add_zero]
    have := mul_le_mul_of_nonneg_right hz (hs0 (count / nobs * (1 - count / nobs) / nobs))
    constructor <;> linarith

/-- the four interval wrappers use the right count and population -/
theorem C04_ci_wrappers (z : ℚ) (sqrt : ℚ → ℚ) (m : CMq) :
    mirrorOK 0 (m.tprCI z sqrt) (m.fnrCI z sqrt) = true ∧
    mirrorOK 0 (m.tnrCI z sqrt) (m.fprCI z sqrt) = true := by
  have h1 : m.fn = m.p - m.tp := by simp only [CMq.p]; ring
  have h2 : m.fp = m.n - m.tn := by simp only [CMq.n]; ring
  unfold CMq.tprCI CMq.fnrCI CMq.tnrCI CMq.fprCI
  rw [h1, h2]
  exact ⟨C04_ci_mirror _ _ _ _, C04_ci_mirror _ _ _ _⟩

/-- Non-vacuity of `C04_ci_spec`: count = 2 of nobs = 4 has radicand 1/16, on which the
function `v ↦ if v = 1/16 then 1/4 else 0` is an exact non-negative square root. -/
example : ∃ sqrt : ℚ → ℚ, (∀ v, 0 ≤ sqrt v) ∧
    (∀ p v, binomialCIParts 2 4 = some (p, v) → sqrt v * sqrt v = v) := by
  refine ⟨fun v => if v = 1 / 16 then 1 / 4 else 0, ?_, ?_⟩
  · intro v; show 0 ≤ (if v = 1 / 16 then (1 / 4 : ℚ) else 0); split <;> norm_num
  · intro p v h
    have : v = 1 / 16 := by
      simp only [binomialCIParts, divQ] at h
      norm_num at h
      rw [← h.2]
    subst this; norm_num

example : (⟨3, 1, 0, 0⟩ : CMq).Nonneg := by unfold CMq.Nonneg; norm_num

end SA
