/-
C04, third tie — `utils.binomial_ci` regenerated from the source (`SA/Model/CIDefs.lean`, `harness/cidefs.py`).

* `modelCI_eval`: the model's row in the IR evaluates to `SA.binomialCI` for EVERY count, nobs, z and every total square-root
  function (no hypothesis: the IR row is the code), NaN exactly when `nobs = 0` (`modelCI_nan_iff`).
* `ci_bridge`: a translated row the checker accepts evaluates to `SA.binomialCI` on every input and asks `isf` for
  `alpha / 2`, so `C04_ci_spec` / `_mirror` / `_nested` / `ci_fl_error` apply to the translated code.
* `checkCI_mismatch_sound`: a reported mismatch is another `isf` argument, another stacking axis, or a witness
  `(count, nobs, z)` at which a limit differs from the model's under the exact square root on rational squares, both values
  inside the fragment.

NOT proved (partial, see the file header of the model): the canonical form "(centre, z^2 * radicand)" with a rational
normaliser, which would make the mathematically equal rewrites `sqrt(z*z*p*(1-p)/n)` and `sqrt((p/n)*(1-p))` come out `ok`
instead of `undecided`; the full statement would be

  theorem ci_canonical_sound (d : CIDef) (h : canon d = canon modelCIDef) (c n z) (sq) (hsq : ∀ x, 0 ≤ x → 0 ≤ sq x ∧ sq x ^ 2 = x)
      (hc : 0 ≤ c) (hcn : c ≤ n) (hz : 0 ≤ z) : limits d c n z sq = limits modelCIDef c n z sq
-/
import SA.Model.CIDefs
import SA.Theorems.C05Defs

namespace SA.CIDefs
open SA SA.MetricExpr

/-- the model's row evaluates to the model's `binomialCI` for every input and every square-root function -/
theorem modelCI_eval (z : ℚ) (sqrt : ℚ → ℚ) (c n : ℚ) :
    (modelCIDef.lo.eval c n z (fun x => some (sqrt x)), modelCIDef.hi.eval c n z (fun x => some (sqrt x))) =
      match binomialCI z sqrt c n with
      | none => (Val.nan, Val.nan)
      | some (lo, hi) => (Val.num lo, Val.num hi) := by
  by_cases hn : n = 0
  · subst hn
    simp [modelCIDef, CExpr.eval, Val.whereNZ, Val.add, Val.sub, Val.div, vmul, vsqrt, binomialCI, divQ]
  · simp [modelCIDef, CExpr.eval, Val.whereNZ, Val.add, Val.sub, Val.div, vmul, vsqrt, binomialCI, divQ, hn]

/-- NaN exactly when there is no trial -/
theorem modelCI_nan_iff (z : ℚ) (sqrt : ℚ → ℚ) (c n : ℚ) :
    modelCIDef.lo.eval c n z (fun x => some (sqrt x)) = Val.nan ↔ n = 0 := by
  have h := modelCI_eval z sqrt c n
  by_cases hn : n = 0
  · simp only [hn, iff_true]
    rw [hn] at h
    simp only [binomialCI, divQ, if_true] at h
    exact (Prod.mk.inj h).1
  · simp only [hn, iff_false]
    simp only [binomialCI, divQ, hn, if_false] at h
    rw [(Prod.mk.inj h).1]
    intro hc; cases hc

theorem checkCI_ok_sound (d : CIDef) (h : checkCI d = .ok) : d = modelCIDef := by
  unfold checkCI at h
  by_cases hd : d = modelCIDef
  · exact hd
  · simp only [hd, if_false] at h
    split at h
    · cases h
    · split at h
      · cases h
      · split at h <;> cases h

/-- **bridge**: an accepted row computes the model's `binomialCI` on every input, asks `isf` for `alpha / 2` and stacks the
limits along the last axis -/
theorem ci_bridge (d : CIDef) (h : checkCI d = .ok) :
    d.isfA = 1 / 2 ∧ d.isfB = 0 ∧ d.stackAxis = -1 ∧
    ∀ (z : ℚ) (sqrt : ℚ → ℚ) (c n : ℚ),
      (d.lo.eval c n z (fun x => some (sqrt x)), d.hi.eval c n z (fun x => some (sqrt x))) =
        match binomialCI z sqrt c n with
        | none => (Val.nan, Val.nan)
        | some (lo, hi) => (Val.num lo, Val.num hi) := by
  rw [checkCI_ok_sound d h]
  exact ⟨rfl, rfl, rfl, modelCI_eval⟩

/-- a reported mismatch is definite -/
theorem checkCI_mismatch_sound (d : CIDef) (i : Nat) (h : checkCI d = .mismatch i) :
    (i = 100 ∧ (d.isfA ≠ 1 / 2 ∨ d.isfB ≠ 0)) ∨ (i = 101 ∧ d.stackAxis ≠ -1) ∨
    ∃ w, ciWitnesses[i]? = some w ∧ differsAt d w = true := by
  unfold checkCI at h
  by_cases hd : d = modelCIDef
  · simp [hd] at h
  · simp only [hd, if_false] at h
    split at h
    · rename_i hne
      cases h
      exact Or.inl ⟨rfl, by simpa [modelCIDef] using hne⟩
    · split at h
      · rename_i hax
        cases h
        exact Or.inr (Or.inl ⟨rfl, by simpa [modelCIDef] using hax⟩)
      · split at h
        · rename_i k hk
          cases h
          obtain ⟨w, hw, hp, _⟩ := SA.CmDefs.firstIdx_sound _ _ _ _ hk
          exact Or.inr (Or.inr ⟨w, by simpa using hw, hp⟩)
        · cases h

/-- the model's row is accepted; a wrong tail, `p(1-p)/n^2`, `count/(nobs+1)`... are definite mismatches; the equal
rewrite `sqrt(z*z*p*(1-p)/n)` is `undecided` (not an alarm) -/
example : checkCI modelCIDef = .ok := by decide +kernel
example : checkCI { modelCIDef with isfA := 1 } = .mismatch 100 := by decide +kernel
example :
    let p := CExpr.guard .nobs (.divRaw .count .nobs)
    let std := CExpr.sqrt (.guard .nobs (.divRaw (.divRaw (.mul p (.sub (.const 1) p)) .nobs) .nobs))
    checkCI ⟨.sub p (.mul .z std), .add p (.mul .z std), 1 / 2, 0, -1⟩ = .mismatch 0 := by decide +kernel
example :
    let p := CExpr.guard .nobs (.divRaw .count .nobs)
    let d := CExpr.sqrt (.guard .nobs (.divRaw (.mul (.mul .z .z) (.mul p (.sub (.const 1) p))) .nobs))
    checkCI ⟨.sub p d, .add p d, 1 / 2, 0, -1⟩ = .undecided := by decide +kernel

end SA.CIDefs
