/-
C04 — the definitions of `score_analysis/metrics.py` as regenerated from the source (`harness/metricdefs.py`,
IR and checker in `SA/Model/MetricExpr.lean`).

* `normalize_sound`     an expression and its normal form have the same value on EVERY matrix with rational cells
                        (on which the facts of the enclosing `np.where` branches hold)
* `model_table_sound`   the normal forms listed for the model are the model's functions `SA.CMq.*` on every matrix;
  `model_ci_sound`      the same for the four interval wrappers
* `nf_eq_model`         a translated definition whose normal form is (as data) the one listed for the model under
                        that name IS the model's metric on every matrix
* `nfOf_sound` / `ciNfOf_sound`  the same through a table of definitions that call one another
* `checkAll_covered_sound`   every name in the `covered` list of the generated theorem
                             `generated_c04_defs_ok : checkAll translated = ⟨true, [], covered⟩` denotes the model's
                             metric (or hands the model's `(count, nobs)` to `binomial_ci`) for all matrices
* `checkAll_mismatch_sound`  every entry of the `mismatches` list comes with a concrete matrix on which the
                             translated definition and the model differ
-/
import SA.Model.MetricExpr
import Mathlib.Tactic.Linarith
import Mathlib.Tactic.Ring
import Mathlib.Tactic.FieldSimp

namespace SA.MetricExpr
open SA

/-! ### linear forms -/

theorem Lin.eval_add (x y : Lin) (m : CMq) : (x.add y).eval m = x.eval m + y.eval m := by
  simp only [Lin.eval, Lin.add]; push_cast; ring

theorem Lin.eval_sub (x y : Lin) (m : CMq) : (x.sub y).eval m = x.eval m - y.eval m := by
  simp only [Lin.eval, Lin.sub]; push_cast; ring

theorem Lin.eval_smul (s : Int) (x : Lin) (m : CMq) : (x.smul s).eval m = s * x.eval m := by
  simp only [Lin.eval, Lin.smul]; push_cast; ring

theorem Lin.eval_zero (m : CMq) : Lin.zero.eval m = 0 := by
  simp [Lin.eval, Lin.zero]

theorem Lin.isConst_eval {x : Lin} {k : Int} (h : x.isConst = some k) (m : CMq) : x.eval m = k := by
  unfold Lin.isConst at h
  split at h
  · rename_i hc
    obtain ⟨h1, h2, h3, h4⟩ := hc
    injection h with h
    simp [Lin.eval, h1, h2, h3, h4, h]
  · exact absurd h (by simp)

/-! ### the arithmetic of normal forms -/

theorem nfAdd_sound {x y z : NF} (h : nfAdd x y = some z) (m : CMq) :
    (x.eval m).add (y.eval m) = z.eval m := by
  cases x with
  | lin a =>
    cases y with
    | lin b =>
      simp only [nfAdd, Option.some.injEq] at h; subst h
      simp only [NF.eval, Val.add, Lin.eval_add]
    | ratio n d =>
      simp only [nfAdd, Option.map_eq_some_iff] at h
      obtain ⟨k, hk, rfl⟩ := h
      have hc := Lin.isConst_eval hk m
      simp only [NF.eval]
      by_cases hd : d.eval m = 0
      · simp only [hd, if_true, Val.add]
      · simp only [hd, if_false, Val.add, Lin.eval_add, Lin.eval_smul, hc, Val.num.injEq]
        field_simp
  | ratio n d =>
    cases y with
    | lin b =>
      simp only [nfAdd, Option.map_eq_some_iff] at h
      obtain ⟨k, hk, rfl⟩ := h
      have hc := Lin.isConst_eval hk m
      simp only [NF.eval]
      by_cases hd : d.eval m = 0
      · simp only [hd, if_true, Val.add]
      · simp only [hd, if_false, Val.add, Lin.eval_add, Lin.eval_smul, hc, Val.num.injEq]
        field_simp
    | ratio n' d' =>
      simp only [nfAdd] at h
      split at h
      · rename_i hdd
        subst hdd
        injection h with h; subst h
        simp only [NF.eval]
        by_cases hd : d.eval m = 0
        · simp only [hd, if_true, Val.add]
        · simp only [hd, if_false, Val.add, Lin.eval_add, Val.num.injEq]
          field_simp
      · exact absurd h (by simp)

theorem nfSub_sound {x y z : NF} (h : nfSub x y = some z) (m : CMq) :
    (x.eval m).sub (y.eval m) = z.eval m := by
  cases x with
  | lin a =>
    cases y with
    | lin b =>
      simp only [nfSub, Option.some.injEq] at h; subst h
      simp only [NF.eval, Val.sub, Lin.eval_sub]
    | ratio n d =>
      simp only [nfSub, Option.map_eq_some_iff] at h
      obtain ⟨k, hk, rfl⟩ := h
      have hc := Lin.isConst_eval hk m
      simp only [NF.eval]
      by_cases hd : d.eval m = 0
      · simp only [hd, if_true, Val.sub]
      · simp only [hd, if_false, Val.sub, Lin.eval_sub, Lin.eval_smul, hc, Val.num.injEq]
        field_simp
  | ratio n d =>
    cases y with
    | lin b =>
      simp only [nfSub, Option.map_eq_some_iff] at h
      obtain ⟨k, hk, rfl⟩ := h
      have hc := Lin.isConst_eval hk m
      simp only [NF.eval]
      by_cases hd : d.eval m = 0
      · simp only [hd, if_true, Val.sub]
      · simp only [hd, if_false, Val.sub, Lin.eval_sub, Lin.eval_smul, hc, Val.num.injEq]
        field_simp
    | ratio n' d' =>
      simp only [nfSub] at h
      split at h
      · rename_i hdd
        subst hdd
        injection h with h; subst h
        simp only [NF.eval]
        by_cases hd : d.eval m = 0
        · simp only [hd, if_true, Val.sub]
        · simp only [hd, if_false, Val.sub, Lin.eval_sub, Val.num.injEq]
          field_simp
      · exact absurd h (by simp)

/-! ### facts of the enclosing branches -/

theorem knows_true {ctx : Ctx} {m : CMq} (hc : ctx.Holds m) {l : Lin} (h : knows ctx l true = true) :
    l.eval m ≠ 0 := by
  simp only [knows, List.any_eq_true, Bool.and_eq_true, decide_eq_true_eq, beq_iff_eq] at h
  obtain ⟨p, hp, h1, h2⟩ := h
  have := (hc p hp).1 h2
  rwa [h1] at this

theorem knows_false {ctx : Ctx} {m : CMq} (hc : ctx.Holds m) {l : Lin} (h : knows ctx l false = true) :
    l.eval m = 0 := by
  simp only [knows, List.any_eq_true, Bool.and_eq_true, decide_eq_true_eq, beq_iff_eq] at h
  obtain ⟨p, hp, h1, h2⟩ := h
  have := (hc p hp).2 h2
  rwa [h1] at this

theorem Ctx.Holds.nil (m : CMq) : Ctx.Holds [] m := by
  intro p hp; cases hp

theorem Ctx.Holds.cons_true {ctx : Ctx} {m : CMq} (hc : ctx.Holds m) {l : Lin} (h : l.eval m ≠ 0) :
    Ctx.Holds ((l, true) :: ctx) m := by
  intro p hp
  rcases List.mem_cons.mp hp with rfl | hp
  · exact ⟨fun _ => h, fun h' => by cases h'⟩
  · exact hc p hp

theorem Ctx.Holds.cons_false {ctx : Ctx} {m : CMq} (hc : ctx.Holds m) {l : Lin} (h : l.eval m = 0) :
    Ctx.Holds ((l, false) :: ctx) m := by
  intro p hp
  rcases List.mem_cons.mp hp with rfl | hp
  · exact ⟨fun h' => (by cases h'), fun _ => h⟩
  · exact hc p hp

theorem nanWhereZero_sound {l : Lin} {nb : NF} (h : nanWhereZero l nb = true) {m : CMq}
    (hl : l.eval m = 0) : nb.eval m = .nan := by
  cases nb with
  | lin _ => simp [nanWhereZero] at h
  | ratio n d =>
    simp only [nanWhereZero, Bool.or_eq_true, decide_eq_true_eq] at h
    have hd : d.eval m = 0 := by
      rcases h with h | h
      · rw [h]; exact Lin.eval_zero m
      · rw [h]; exact hl
    simp only [NF.eval, hd, if_true]

theorem nfWhere_sound {l : Lin} {na nb z : NF} (h : nfWhere l na nb = some z) (m : CMq) (va vb : Val)
    (ha : l.eval m ≠ 0 → va = na.eval m) (hb : l.eval m = 0 → vb = nb.eval m) :
    Val.whereNZ (.num (l.eval m)) va vb = z.eval m := by
  unfold nfWhere at h
  by_cases hl : l.eval m = 0
  · simp only [Val.whereNZ, hl, if_true]
    rw [hb hl]
    split at h
    · rename_i he; injection h with h; rw [← h, he]
    · cases na with
      | lin _ => exact absurd h (by simp)
      | ratio n d =>
        simp only at h
        split at h
        · rename_i hc
          injection h with h; subst h
          rw [nanWhereZero_sound hc.2 hl]
          simp only [NF.eval, hl, if_true]
        · exact absurd h (by simp)
  · simp only [Val.whereNZ, hl, if_false]
    rw [ha hl]
    split at h
    · injection h with h; rw [← h]
    · cases na with
      | lin _ => exact absurd h (by simp)
      | ratio n d =>
        simp only at h
        split at h
        · rename_i hc
          injection h with h; subst h
          rw [hc.1]
        · exact absurd h (by simp)

/-! ### `normalize_sound` -/

theorem cellLin_sound {i j : Nat} {l : Lin} (h : cellLin i j = some l) (m : CMq) :
    Val.ofIdx (cellVal m i j) = .num (l.eval m) := by
  unfold cellLin at h
  split at h <;> first
    | (injection h with h; subst h; simp [cellVal, Val.ofIdx, Lin.eval])
    | exact absurd h (by simp)

theorem rowLin_sound {i : Nat} {l : Lin} (h : rowLin i = some l) (m : CMq) :
    Val.ofIdx (rowVal m i) = .num (l.eval m) := by
  unfold rowLin at h
  split at h <;> first
    | (injection h with h; subst h; simp [rowVal, Val.ofIdx, Lin.eval])
    | exact absurd h (by simp)

theorem colLin_sound {j : Nat} {l : Lin} (h : colLin j = some l) (m : CMq) :
    Val.ofIdx (colVal m j) = .num (l.eval m) := by
  unfold colLin at h
  split at h <;> first
    | (injection h with h; subst h; simp [colVal, Val.ofIdx, Lin.eval])
    | exact absurd h (by simp)

/-- **normal forms are sound.**  For ALL rational cell values: if the callees' values are those of their normal
forms and the facts of the enclosing branches hold of the matrix, an expression has the value of its normal form.
(`oneMinus (safeDiv n d)` becomes `ratio (d - n) d`; see `normalize_oneMinus_safeDiv`.) -/
theorem normalize_sound (env : Nat → Option NF) (venv : Nat → Val) (m : CMq)
    (henv : ∀ s nf, env s = some nf → venv s = nf.eval m) :
    ∀ (e : Expr) (ctx : Ctx) (nf : NF), ctx.Holds m → normalize env ctx e = some nf →
      eval venv m e = nf.eval m := by
  intro e
  induction e with
  | cell i j =>
    intro ctx nf _ h
    simp only [normalize, Option.map_eq_some_iff] at h
    obtain ⟨l, hl, rfl⟩ := h
    simp only [eval, NF.eval]; exact cellLin_sound hl m
  | rowSum i =>
    intro ctx nf _ h
    simp only [normalize, Option.map_eq_some_iff] at h
    obtain ⟨l, hl, rfl⟩ := h
    simp only [eval, NF.eval]; exact rowLin_sound hl m
  | colSum j =>
    intro ctx nf _ h
    simp only [normalize, Option.map_eq_some_iff] at h
    obtain ⟨l, hl, rfl⟩ := h
    simp only [eval, NF.eval]; exact colLin_sound hl m
  | total =>
    intro ctx nf _ h
    simp only [normalize, Option.some.injEq] at h; subst h
    simp [eval, NF.eval, Lin.eval]
  | diagSum =>
    intro ctx nf _ h
    simp only [normalize, Option.some.injEq] at h; subst h
    simp [eval, NF.eval, Lin.eval]
  | const c =>
    intro ctx nf _ h
    simp only [normalize, Option.some.injEq] at h; subst h
    simp [eval, NF.eval, Lin.eval]
  | nan =>
    intro ctx nf _ h
    simp only [normalize, Option.some.injEq] at h; subst h
    simp [eval, NF.eval, Lin.eval_zero]
  | add a b iha ihb =>
    intro ctx nf hc h
    simp only [normalize] at h
    cases ha : normalize env ctx a with
    | none => simp [ha] at h
    | some x =>
      cases hb : normalize env ctx b with
      | none => simp [ha, hb] at h
      | some y =>
        simp only [ha, hb] at h
        simp only [eval, iha ctx x hc ha, ihb ctx y hc hb]
        exact nfAdd_sound h m
  | sub a b iha ihb =>
    intro ctx nf hc h
    simp only [normalize] at h
    cases ha : normalize env ctx a with
    | none => simp [ha] at h
    | some x =>
      cases hb : normalize env ctx b with
      | none => simp [ha, hb] at h
      | some y =>
        simp only [ha, hb] at h
        simp only [eval, iha ctx x hc ha, ihb ctx y hc hb]
        exact nfSub_sound h m
  | divRaw a b iha ihb =>
    intro ctx nf hc h
    simp only [normalize] at h
    cases ha : normalize env ctx a with
    | none => simp [ha] at h
    | some x =>
      cases hb : normalize env ctx b with
      | none => simp [ha, hb] at h
      | some y =>
        cases x with
        | ratio _ _ => simp [ha, hb] at h
        | lin n =>
          cases y with
          | ratio _ _ => simp [ha, hb] at h
          | lin d =>
            simp only [ha, hb] at h
            split at h
            · rename_i hk
              injection h with h; subst h
              have hd := knows_true hc hk
              simp only [eval, iha ctx _ hc ha, ihb ctx _ hc hb, NF.eval, Val.div, hd, if_false]
            · exact absurd h (by simp)
  | whereNZ c a b ihc iha ihb =>
    intro ctx nf hc h
    simp only [normalize] at h
    cases hcn : normalize env ctx c with
    | none => simp [hcn] at h
    | some x =>
      cases x with
      | ratio _ _ => simp [hcn] at h
      | lin l =>
        simp only [hcn] at h
        have hcv := ihc ctx _ hc hcn
        simp only [eval, hcv, NF.eval]
        by_cases hk1 : knows ctx l true = true
        · simp only [hk1, if_true] at h
          have hl := knows_true hc hk1
          simp only [Val.whereNZ, hl, if_false]
          exact iha ctx nf hc h
        · simp only [hk1, Bool.false_eq_true, if_false] at h
          by_cases hk2 : knows ctx l false = true
          · simp only [hk2, if_true] at h
            have hl := knows_false hc hk2
            simp only [Val.whereNZ, hl, if_true]
            exact ihb ctx nf hc h
          · simp only [hk2, Bool.false_eq_true, if_false] at h
            cases hna : normalize env ((l, true) :: ctx) a with
            | none => simp [hna] at h
            | some na =>
              cases hnb : normalize env ((l, false) :: ctx) b with
              | none => simp [hna, hnb] at h
              | some nb =>
                simp only [hna, hnb] at h
                exact nfWhere_sound h m _ _
                  (fun hl => iha _ na (hc.cons_true hl) hna)
                  (fun hl => ihb _ nb (hc.cons_false hl) hnb)
  | call s =>
    intro ctx nf _ h
    simp only [normalize] at h
    simp only [eval]; exact henv s nf h

/-- the interesting case: `1 - np.divide(n, d, out=nan, where=d != 0)` is `(d - n) / d`, NaN iff `d = 0` -/
theorem normalize_oneMinus_safeDiv (env : Nat → Option NF) (n d : Expr) (ln ld : Lin)
    (hn : ∀ ctx, normalize env ctx n = some (.lin ln)) (hd : ∀ ctx, normalize env ctx d = some (.lin ld)) :
    normalize env [] (.oneMinus (.safeDiv n d)) = some (.ratio ((ld.smul 1).sub ln) ld) := by
  simp [Expr.oneMinus, Expr.safeDiv, normalize, hn, hd, knows, nfWhere, nanWhereZero, nfSub, Lin.isConst]

/-- ... whose value is `(d - n) / d` -/
theorem oneMinus_safeDiv_value (ln ld : Lin) (m : CMq) :
    (NF.ratio ((ld.smul 1).sub ln) ld).eval m =
      if ld.eval m = 0 then .nan else .num ((ld.eval m - ln.eval m) / ld.eval m) := by
  simp only [NF.eval, Lin.eval_sub, Lin.eval_smul, Int.cast_one, one_mul]

/-! ### the model's table -/

theorem ofOpt_divQ (a b : ℚ) : Val.ofOpt (divQ a b) = if b = 0 then .nan else .num (a / b) := by
  unfold divQ; split <;> rfl

theorem ofOpt_compl (a b : ℚ) :
    Val.ofOpt ((divQ a b).map fun x => 1 - x) = if b = 0 then .nan else .num (1 - a / b) := by
  unfold divQ; split <;> rfl

/-- every normal form listed for the model is the model's function of that name, on every matrix -/
theorem base_table_sound :
    ∀ s nf, baseNF.lookup s = some nf → ∃ f, baseFn.lookup s = some f ∧ ∀ m, nf.eval m = f m := by
  intro s nf h
  simp only [baseNF, baseFn, List.lookup] at h ⊢
  repeat' split at h
  all_goals first
    | (simp at h; done)
    | (injection h with h; subst h
       refine ⟨_, rfl, fun m => ?_⟩
       simp only [NF.eval, Lin.eval, CMq.p, CMq.n, CMq.top, CMq.ton, CMq.pop, CMq.accuracy, CMq.errorRate,
         CMq.tpr, CMq.fnr, CMq.tnr, CMq.fpr, CMq.topr, CMq.tonr, CMq.ppv, CMq.fdr, CMq.npv, CMq.for_,
         ofOpt_divQ, ofOpt_compl, Int.cast_zero, Int.cast_one, zero_mul, one_mul, add_zero, zero_add]
       try (split <;> first | rfl | (congr 1; field_simp; ring)))

theorem base_ci_sound :
    ∀ s c n, baseCI.lookup s = some (c, n) → ∃ F, baseCIFn.lookup s = some F ∧
      ∀ z sq m, F z sq m = binomialCI z sq (c.eval m) (n.eval m) := by
  intro s c n h
  simp only [baseCI, baseCIFn, List.lookup] at h ⊢
  repeat' split at h
  all_goals first
    | (simp at h; done)
    | (injection h with h; injection h with h1 h2; subst h1; subst h2
       refine ⟨_, rfl, fun z sq m => ?_⟩
       simp only [CMq.tprCI, CMq.tnrCI, CMq.fprCI, CMq.fnrCI, CMq.p, CMq.n, Lin.eval, Int.cast_zero, Int.cast_one,
         zero_mul, one_mul, add_zero, zero_add])

/-- **the model's table is the model.**  The normal form listed under a public name (aliases and
`ConfusionMatrix` methods resolved by `canon`) is the model's function `SA.CMq.*` on every matrix. -/
theorem model_table_sound (s : Nat) (nf : NF) (h : modelNF s = some nf) :
    ∃ f, modelFn s = some f ∧ ∀ m, nf.eval m = f m :=
  base_table_sound (canon s) nf h

/-- the interval functions of the model hand `(count, nobs)` of the table to `binomialCI` -/
theorem model_ci_sound (s : Nat) (c n : Lin) (h : modelCI s = some (c, n)) :
    ∃ F, modelCIFn s = some F ∧ ∀ z sq m, F z sq m = binomialCI z sq (c.eval m) (n.eval m) :=
  base_ci_sound (canon s) c n h

/-- **equal normal forms, equal functions.**  If the normal form of a translated definition equals (as data) the
one listed for the metric `s` in the model's table, the translated definition is the model's metric on all matrices
(given that the callees' values are those of their normal forms). -/
theorem nf_eq_model (env : Nat → Option NF) (e : Expr) (s : Nat) (nf : NF)
    (h1 : normalize env [] e = some nf) (h2 : modelNF s = some nf) :
    ∃ f, modelFn s = some f ∧ ∀ (venv : Nat → Val) (m : CMq),
      (∀ t nf', env t = some nf' → venv t = nf'.eval m) → eval venv m e = f m := by
  obtain ⟨f, hf, hfm⟩ := model_table_sound s nf h2
  refine ⟨f, hf, fun venv m henv => ?_⟩
  rw [normalize_sound env venv m henv e [] nf (Ctx.Holds.nil m) h1, hfm]

/-! ### tables -/

/-- the normal form computed for a definition of a table is its value on every matrix -/
theorem nfOf_sound : ∀ (defs : List Def) (s : Nat) (nf : NF), nfOf defs s = some nf →
    ∀ m, sem defs s m = nf.eval m := by
  intro defs
  induction defs with
  | nil => intro s nf h; simp [nfOf] at h
  | cons d rest ih =>
    intro s nf h m
    simp only [nfOf] at h
    simp only [sem]
    by_cases hn : d.id = s
    · simp only [hn, if_true] at h ⊢
      cases hb : d.body with
      | value e =>
        simp only [hb] at h ⊢
        exact normalize_sound (nfOf rest) _ m (fun t nf' ht => ih t nf' ht m) e [] nf (Ctx.Holds.nil m) h
      | ci c n => simp [hb] at h
      | ciOf c => simp [hb] at h
    · simp only [hn, if_false] at h ⊢
      exact ih s nf h m

/-- the two linear forms computed for an interval function are what it hands to `binomial_ci` on every matrix -/
theorem ciNfOf_sound : ∀ (defs : List Def) (s : Nat) (lc ln : Lin), ciNfOf defs s = some (lc, ln) →
    ∀ m, semCI defs s m = some (.num (lc.eval m), .num (ln.eval m)) := by
  intro defs
  induction defs with
  | nil => intro s lc ln h; simp [ciNfOf] at h
  | cons d rest ih =>
    intro s lc ln h m
    simp only [ciNfOf] at h
    simp only [semCI]
    by_cases hn : d.id = s
    · simp only [hn, if_true] at h ⊢
      cases hb : d.body with
      | value e => simp [hb] at h
      | ciOf c =>
        simp only [hb] at h ⊢
        exact ih c lc ln h m
      | ci c n =>
        simp only [hb] at h ⊢
        cases h1 : normalize (nfOf rest) [] c with
        | none => simp [h1] at h
        | some x =>
          cases h2 : normalize (nfOf rest) [] n with
          | none => simp [h1, h2] at h
          | some y =>
            cases x with
            | ratio _ _ => simp [h1, h2] at h
            | lin a =>
              cases y with
              | ratio _ _ => simp [h1, h2] at h
              | lin b =>
                simp only [h1, h2, Option.some.injEq, Prod.mk.injEq] at h
                obtain ⟨rfl, rfl⟩ := h
                have henv : ∀ t nf', nfOf rest t = some nf' → (fun t => sem rest t m) t = nf'.eval m :=
                  fun t nf' ht => nfOf_sound rest t nf' ht m
                rw [normalize_sound (nfOf rest) _ m henv c [] _ (Ctx.Holds.nil m) h1,
                  normalize_sound (nfOf rest) _ m henv n [] _ (Ctx.Holds.nil m) h2]
                simp only [NF.eval]
    · simp only [hn, if_false] at h ⊢
      exact ih s lc ln h m

/-- what verdict `ok` means: the definition IS the model's metric of that name on every matrix with rational
cells, or (interval functions) hands the model's `(count, nobs)` to `binomial_ci` -/
def Denotes (defs : List Def) (s : Nat) : Prop :=
  (∃ f, modelFn s = some f ∧ ∀ m, sem defs s m = f m) ∨
  (∃ F, modelCIFn s = some F ∧ ∀ m, ∃ c n : ℚ, semCI defs s m = some (.num c, .num n) ∧
    ∀ z sq, F z sq m = binomialCI z sq c n)

theorem verdict_ok_sound (defs : List Def) (s : Nat) (h : verdict defs s = .ok) : Denotes defs s := by
  unfold verdict at h
  cases h1 : modelNF s with
  | some mnf =>
    simp only [h1] at h
    by_cases h2 : nfOf defs s = some mnf
    · obtain ⟨f, hf, hfm⟩ := model_table_sound s mnf h1
      exact Or.inl ⟨f, hf, fun m => by rw [nfOf_sound defs s mnf h2 m, hfm]⟩
    · simp only [h2, if_false] at h
      split at h <;> cases h
  | none =>
    cases h3 : modelCI s with
    | none => simp [h1, h3] at h
    | some cn =>
      obtain ⟨mc, mn⟩ := cn
      simp only [h1, h3] at h
      by_cases h2 : ciNfOf defs s = some (mc, mn)
      · obtain ⟨F, hF, hFm⟩ := model_ci_sound s mc mn h3
        exact Or.inr ⟨F, hF, fun m => ⟨_, _, ciNfOf_sound defs s mc mn h2 m, fun z sq => hFm z sq m⟩⟩
      · simp only [h2, if_false] at h
        split at h <;> cases h

/-- **the generated theorem's `covered` list.**  Every name in the `covered` component of
`checkAll translated` denotes the model's metric for all matrices. -/
theorem checkAll_covered_sound (table : List Def) (s : Nat) (h : s ∈ (checkAll table).covered) :
    Denotes table.reverse s := by
  simp only [checkAll, List.mem_filter, beq_iff_eq] at h
  exact verdict_ok_sound _ _ h.2

theorem firstIdx_sound {α : Type} (p : α → Bool) : ∀ (l : List α) (k i : Nat), firstIdx p l k = some i →
    ∃ w, k ≤ i ∧ l[i - k]? = some w ∧ p w = true := by
  intro l
  induction l with
  | nil => intro k i h; simp [firstIdx] at h
  | cons x xs ih =>
    intro k i h
    simp only [firstIdx] at h
    by_cases hp : p x = true
    · simp only [hp, if_true, Option.some.injEq] at h
      subst h
      exact ⟨x, le_refl _, by simp, hp⟩
    · simp only [hp, Bool.false_eq_true, if_false] at h
      obtain ⟨w, hk, hw, hpw⟩ := ih (k + 1) i h
      refine ⟨w, by omega, ?_, hpw⟩
      have : i - k = (i - (k + 1)) + 1 := by omega
      rw [this, List.getElem?_cons_succ]; exact hw

/-- what a `mismatch i` verdict means: on the concrete matrix `witnesses[i]` the translated definition has a value
inside the fragment that is not the model's (or hands `binomial_ci` a pair with another centre / radicand) -/
def DiffersAt (defs : List Def) (s : Nat) (w : CMq) : Prop :=
  (∃ f, modelFn s = some f ∧ sem defs s w ≠ .bad ∧ sem defs s w ≠ f w) ∨
  (∃ (mc mn : Lin) (c n : ℚ), modelCI s = some (mc, mn) ∧ semCI defs s w = some (.num c, .num n) ∧
    binomialCIParts c n ≠ binomialCIParts (mc.eval w) (mn.eval w))

theorem differs_iff (a b : Val) (h : a.differs b = true) : a ≠ .bad ∧ a ≠ b := by
  simp only [Val.differs, Bool.and_eq_true, Bool.not_eq_true', decide_eq_true_eq] at h
  refine ⟨?_, h.2⟩
  intro ha; rw [ha] at h; simp [Val.isBad] at h

theorem verdict_mismatch_sound (defs : List Def) (s : Nat) (i : Nat) (h : verdict defs s = .mismatch i) :
    ∃ w, witnesses[i]? = some w ∧ DiffersAt defs s w := by
  unfold verdict at h
  cases h1 : modelNF s with
  | some mnf =>
    simp only [h1] at h
    by_cases h2 : nfOf defs s = some mnf
    · simp [h2] at h
    · simp only [h2, if_false] at h
      split at h
      · rename_i j hj
        injection h with h; subst h
        obtain ⟨w, _, hw, hp⟩ := firstIdx_sound _ _ _ _ hj
        obtain ⟨f, hf, hfm⟩ := model_table_sound s mnf h1
        have := differs_iff _ _ hp
        exact ⟨w, by simpa using hw, Or.inl ⟨f, hf, this.1, by rw [← hfm]; exact this.2⟩⟩
      · cases h
  | none =>
    cases h3 : modelCI s with
    | none => simp [h1, h3] at h
    | some cn =>
      obtain ⟨mc, mn⟩ := cn
      simp only [h1, h3] at h
      by_cases h2 : ciNfOf defs s = some (mc, mn)
      · simp [h2] at h
      · simp only [h2, if_false] at h
        split at h
        · rename_i j hj
          injection h with h; subst h
          obtain ⟨w, _, hw, hp⟩ := firstIdx_sound _ _ _ _ hj
          refine ⟨w, by simpa using hw, Or.inr ?_⟩
          cases hs : semCI defs s w with
          | none => simp [hs] at hp
          | some a =>
            simp only [hs] at hp
            obtain ⟨a1, a2⟩ := a
            cases a1 <;> cases a2 <;> simp only [ciDiffers, decide_eq_true_eq] at hp <;> try cases hp
            exact ⟨mc, mn, _, _, h3, rfl, hp⟩
        · cases h

/-- **the generated theorem's `mismatches` list.**  Every entry names a concrete matrix on which the translated
definition differs from the model. -/
theorem checkAll_mismatch_sound (table : List Def) (s : Nat) (i : Nat)
    (h : (s, i) ∈ (checkAll table).mismatches) :
    ∃ w, witnesses[i]? = some w ∧ DiffersAt table.reverse s w := by
  simp only [checkAll, List.mem_filterMap] at h
  obtain ⟨t, _, ht⟩ := h
  split at ht
  · rename_i j hj
    injection ht with ht
    injection ht with h1 h2
    subst h1; subst h2
    exact verdict_mismatch_sound _ _ _ hj
  · cases ht

/-- two `(count, nobs)` pairs with different centre / radicand give different intervals (already for `z = 1` and the
identity in place of the square root) -/
theorem ci_parts_differ (c n c' n' : ℚ) (h : binomialCIParts c n ≠ binomialCIParts c' n') :
    binomialCI 1 id c n ≠ binomialCI 1 id c' n' := by
  intro he
  apply h
  unfold binomialCI at he
  unfold binomialCIParts
  cases h1 : divQ c n with
  | none =>
    cases h2 : divQ c' n' with
    | none => rfl
    | some p' => simp [h1, h2] at he
  | some p =>
    cases h2 : divQ c' n' with
    | none => simp [h1, h2] at he
    | some p' =>
      simp only [h1, h2, Option.some.injEq, Prod.mk.injEq, id, one_mul] at he ⊢
      obtain ⟨e1, e2⟩ := he
      have hp : p = p' := by linarith
      subst hp
      exact ⟨rfl, by linarith⟩

/-! ### satisfiability of the hypotheses, examples, counter-examples -/

/-- the public names have distinct numbers, every number the alias table mentions is a public name, and the tables
list exactly the numbered names -/
theorem nameIds_wellformed :
    (nameIds.map (·.2)).Nodup ∧
    aliasOf.all (fun p => (nameIds.any fun q => q.2 == p.1) && (nameIds.any fun q => q.2 == p.2)) = true ∧
    (baseNF.map (·.1) ++ baseCI.map (·.1) ++ aliasOf.map (·.1)).Perm (nameIds.map (·.2)) := by
  decide +kernel

/-- `normalize_sound` is not vacuous: `1 - tp / (tp + fn)` guarded by `tp + fn != 0`, with `ppv` called through the
environment; the hypotheses hold of the matrix `[[3, 1], [2, 5]]` with `env` / `venv` built from the same definition -/
example :
    let env : Nat → Option NF := fun s => if s = 17 then some (.ratio ⟨1, 0, 0, 0, 0⟩ ⟨1, 0, 1, 0, 0⟩) else none
    let venv : Nat → Val := fun s => if s = 17 then .num (3 / 5) else .bad
    let m : CMq := ⟨3, 1, 2, 5⟩
    (∀ s nf, env s = some nf → venv s = nf.eval m) ∧ Ctx.Holds [] m ∧
    normalize env [] (.oneMinus (.call 17)) = some (.ratio ⟨0, 0, 1, 0, 0⟩ ⟨1, 0, 1, 0, 0⟩) ∧
    eval venv m (.oneMinus (.call 17)) = .num (2 / 5) := by
  refine ⟨?_, Ctx.Holds.nil _, by decide +kernel, by decide +kernel⟩
  intro s nf h
  by_cases hs : s = 17
  · subst hs
    simp only [if_true, Option.some.injEq] at h
    subst h
    decide +kernel
  · simp [hs] at h

/-- a context with facts is satisfiable and used: under "tp + fn is not zero" the unguarded division normalises -/
example : Ctx.Holds [(⟨1, 1, 0, 0, 0⟩, true), (⟨0, 0, 1, 1, 0⟩, false)] ⟨3, 1, 0, 0⟩ ∧
    normalize (fun _ => none) [(⟨1, 1, 0, 0, 0⟩, true)] (.divRaw (.cell 0 0) (.rowSum 0)) =
      some (.ratio ⟨1, 0, 0, 0, 0⟩ ⟨1, 1, 0, 0, 0⟩) ∧
    normalize (fun _ => none) [] (.divRaw (.cell 0 0) (.rowSum 0)) = none := by
  refine ⟨?_, by decide +kernel, by decide +kernel⟩
  intro p hp
  simp only [List.mem_cons, List.not_mem_nil, or_false] at hp
  rcases hp with rfl | rfl <;> constructor <;> intro h <;> first | (cases h; done) | decide +kernel

/-- the definitions as `metrics.py` writes them today (a hand copy of what the translator produces: `tp`, `p`, `top`,
`pop`, `accuracy` through the diagonal, `error_rate = 1 - accuracy`, `tpr`, `ppv`, `fdr = 1 - ppv`, `topr` through
calls, the alias `tar`, the interval `tpr_ci` and its alias, two `ConfusionMatrix` wrappers): all covered -/
def exampleTable : List Def := [
  ⟨0, "tp", .value (.cell 0 0)⟩, ⟨4, "p", .value (.rowSum 0)⟩, ⟨6, "top", .value (.colSum 0)⟩, ⟨8, "pop", .value .total⟩,
  ⟨9, "accuracy", .value (.safeDiv .diagSum .total)⟩, ⟨10, "error_rate", .value (.oneMinus (.call 9))⟩,
  ⟨11, "tpr", .value (.safeDiv (.cell 0 0) (.rowSum 0))⟩,
  ⟨17, "ppv", .value (.safeDiv (.cell 0 0) (.colSum 0))⟩, ⟨18, "fdr", .value (.oneMinus (.call 17))⟩,
  ⟨15, "topr", .value (.safeDiv (.call 6) (.call 8))⟩, ⟨25, "tar", .value (.call 11)⟩,
  ⟨21, "tpr_ci", .ci (.call 0) (.call 4)⟩, ⟨31, "tar_ci", .ciOf 21⟩,
  ⟨125, "ConfusionMatrix.tar", .value (.call 11)⟩, ⟨131, "ConfusionMatrix.tar_ci", .ciOf 21⟩]

example : checkAll exampleTable = ⟨true, [], [0, 4, 6, 8, 9, 10, 11, 17, 18, 15, 25, 21, 31, 125, 131]⟩ := by
  decide +kernel

/-- ... hence, by `checkAll_covered_sound`, `fdr` as the source writes it (`1 - ppv(matrix)`) IS the model's
`CMq.fdr` on every matrix -/
example : ∀ m : CMq, sem exampleTable.reverse 18 m = Val.ofOpt m.fdr := by
  have h := checkAll_covered_sound exampleTable 18 (by decide +kernel)
  rcases h with ⟨f, hf, hfm⟩ | ⟨F, hF, _⟩
  · have : f = fun m => Val.ofOpt m.fdr := by
      have h2 : modelFn 18 = some (fun m => Val.ofOpt m.fdr) := rfl
      rw [h2] at hf; injection hf with hf; exact hf.symm
    intro m; rw [hfm m, this]
  · have h2 : modelCIFn 18 = none := rfl
    rw [h2] at hF; cases hF

/-- the rewrite of the harmless change H3 (`np.where(p != 0, tp / np.where(p != 0, p, 1), np.nan)`) has the same
normal form as the masked division -/
example : normalize (fun _ => none) []
      (.whereNZ (.rowSum 0) (.divRaw (.cell 0 0) (.whereNZ (.rowSum 0) (.rowSum 0) (.const 1))) .nan) =
    normalize (fun _ => none) [] (.safeDiv (.cell 0 0) (.rowSum 0)) := by decide +kernel

/-- COUNTER-EXAMPLES, each rejected with a witness matrix:
* a swapped cell (`fnr` computed from `tp`): differs on `[[2, 3], [5, 7]]` (witness 0);
* a guard on the wrong quantity (seeded change C04_2: `npv` masked by `tn != 0` instead of `ton != 0`): no normal
  form, and NaN instead of 0 on `[[2, 3], [5, 0]]` (witness 4);
* a wrong denominator in an interval wrapper (`fnr_ci` with `nobs = n`): witness 0;
* a `ConfusionMatrix` wrapper forwarding to the wrong function (`frr` calling `metrics.fpr`): witness 0 -/
def mutantTable : List Def := [
  ⟨11, "tpr", .value (.safeDiv (.cell 0 0) (.rowSum 0))⟩,
  ⟨12, "fnr", .value (.safeDiv (.cell 0 0) (.rowSum 0))⟩,
  ⟨14, "fpr", .value (.safeDiv (.cell 1 0) (.rowSum 1))⟩,
  ⟨19, "npv", .value (.divWhere (.cell 1 1) (.colSum 1) (.cell 1 1))⟩,
  ⟨24, "fnr_ci", .ci (.cell 0 1) (.rowSum 1)⟩,
  ⟨126, "ConfusionMatrix.frr", .value (.call 14)⟩]

example : checkAll mutantTable = ⟨true, [(12, 0), (19, 4), (24, 0), (126, 0)], [11, 14]⟩ := by decide +kernel

example : ∃ w, witnesses[4]? = some w ∧ DiffersAt mutantTable.reverse 19 w :=
  checkAll_mismatch_sound mutantTable 19 4 (by decide +kernel)

/-- an ill-formed table (a call of a definition that comes later) is reported as not closed and covers nothing -/
example : checkAll [⟨18, "fdr", .value (.oneMinus (.call 17))⟩, ⟨17, "ppv", .value (.safeDiv (.cell 0 0) (.colSum 0))⟩] =
    ⟨false, [], [17]⟩ := by decide +kernel

end SA.MetricExpr
