/-
C05 — multi-class confusion matrices: construction from labels / predictions / weights,
equivalent input routes and class reordering, one-vs-all binarisation, per-class metrics,
permutation equivariance, accuracy.
-/
import SA.Proofs.Multiclass
import SA.Theorems.C04

namespace SA
open Spec.C04 Spec.C05

/-! ### construction from labels, predictions and weights -/

theorem checkClasses_ok (classes : List Nat) (hnd : classes.Nodup) (hlen : 2 ≤ classes.length) :
    checkClasses classes classes.length = .ok () := by
  simp [checkClasses, hnd, Nat.not_lt.mpr hlen]

/-- **C05 (entries).** For a class list without duplicates and samples whose labels and
predictions are classes, the construction succeeds, keeps the requested class order, and entry
`[i, j]` is the total weight of the samples with label `classes[i]` and prediction `classes[j]`. -/
theorem C05_entry (classes : List Nat) (samples : List Sample) (hnd : classes.Nodup)
    (hlen : 2 ≤ classes.length) (hin : ∀ s ∈ samples, s.label ∈ classes ∧ s.pred ∈ classes) :
    ∃ cm, fromSamples classes samples = .ok cm ∧ cm.n = classes.length ∧ cm.classes = classes ∧
      ∀ i j, i < classes.length → j < classes.length →
        cm.m i j = weightOf samples (classes.getD i 0) (classes.getD j 0) := by
  obtain ⟨M, hM, hE⟩ := accumulate_spec classes hnd samples hin Mat.zero
  refine ⟨⟨classes.length, classes, M⟩, ?_, rfl, rfl, fun i j hi hj => ?_⟩
  · simp only [fromSamples, hM, checkClasses_ok classes hnd hlen]
  · show M i j = _
    rw [hE i j hi hj]; simp [Mat.zero]

/-- the same, by class label: the entry at the positions of classes `a` and `b` -/
theorem C05_entry_by_label (classes : List Nat) (samples : List Sample) (hnd : classes.Nodup)
    (hlen : 2 ≤ classes.length) (hin : ∀ s ∈ samples, s.label ∈ classes ∧ s.pred ∈ classes) :
    ∃ cm, fromSamples classes samples = .ok cm ∧
      ∀ a b, a ∈ classes → b ∈ classes →
        cm.m (classes.idxOf a) (classes.idxOf b) = weightOf samples a b := by
  obtain ⟨cm, h1, _, _, h4⟩ := C05_entry classes samples hnd hlen hin
  refine ⟨cm, h1, fun a b ha hb => ?_⟩
  rw [h4 _ _ (List.idxOf_lt_length_of_mem ha) (List.idxOf_lt_length_of_mem hb),
    getD_idxOf classes a ha, getD_idxOf classes b hb]

/-- spec form of `C05_entry` -/
theorem C05_entry_spec (classes : List Nat) (samples : List Sample) (hnd : classes.Nodup)
    (hlen : 2 ≤ classes.length) (hin : ∀ s ∈ samples, s.label ∈ classes ∧ s.pred ∈ classes) :
    ∃ cm, fromSamples classes samples = .ok cm ∧ entryOK 0 classes samples cm.m = true := by
  obtain ⟨cm, h1, _, _, h4⟩ := C05_entry classes samples hnd hlen hin
  refine ⟨cm, h1, ?_⟩
  rw [entryOK, allIdx2_iff]
  intro i j hi hj
  exact near_of_eq _ _ (h4 i j hi hj)

theorem accumulate_ok_of_mem (classes : List Nat) (samples : List Sample) (M0 : Mat)
    (hin : ∀ s ∈ samples, s.label ∈ classes ∧ s.pred ∈ classes) :
    ∃ M, accumulate classes samples M0 = .ok M := by
  cases h : accumulate classes samples M0 with
  | ok M => exact ⟨M, rfl⟩
  | error e =>
    have he := accumulate_error_kind classes samples M0 e h
    subst he
    obtain ⟨s, hs, hbad⟩ := (accumulate_error_iff classes samples M0).mp h
    obtain ⟨h1, h2⟩ := hin s hs
    rcases hbad with hb | hb
    · exact absurd h1 hb
    · exact absurd h2 hb

theorem checkClasses_error (classes : List Nat) (n : Nat) (e : Err)
    (h : checkClasses classes n = .error e) : e = .valueError := by
  unfold checkClasses at h
  split at h
  · simp only [Except.error.injEq] at h; exact h.symm
  · split at h
    · simp only [Except.error.injEq] at h; exact h.symm
    · split at h
      · simp only [Except.error.injEq] at h; exact h.symm
      · cases h

/-- **C05 (KeyError).** The construction raises KeyError exactly when some label or prediction
is not among the classes (whatever the class list). -/
theorem C05_key_error (classes : List Nat) (samples : List Sample) :
    fromSamples classes samples = .error .keyError ↔
      ∃ s ∈ samples, s.label ∉ classes ∨ s.pred ∉ classes := by
  rw [← accumulate_error_iff classes samples Mat.zero]
  unfold fromSamples
  cases h : accumulate classes samples Mat.zero with
  | error e =>
    have he := accumulate_error_kind classes samples Mat.zero e h
    subst he; simp
  | ok M =>
    simp only [reduceCtorEq, iff_false]
    cases h2 : checkClasses classes classes.length with
    | error e =>
      have := checkClasses_error _ _ e h2
      subst this; simp
    | ok u => simp

/-- **C05 (ValueError).** With all labels and predictions among the classes, the construction
raises ValueError exactly when there are fewer than two classes or a duplicated class. -/
theorem C05_value_error (classes : List Nat) (samples : List Sample)
    (hin : ∀ s ∈ samples, s.label ∈ classes ∧ s.pred ∈ classes) :
    fromSamples classes samples = .error .valueError ↔
      classes.length < 2 ∨ ¬ classes.Nodup := by
  obtain ⟨M, hM⟩ := accumulate_ok_of_mem classes samples Mat.zero hin
  simp only [fromSamples, hM, checkClasses]
  by_cases h1 : classes.length < 2
  · simp [h1]
  · by_cases h2 : classes.Nodup
    · simp [h1, h2]
    · simp [h1, h2]

theorem mkSamples_mem (labels preds : List Nat) (weights : Option (List Rat))
    (samples : List Sample) (h : mkSamples labels preds weights = .ok samples) :
    ∀ s ∈ samples, s.label ∈ labels ∧ s.pred ∈ preds := by
  intro s hs
  unfold mkSamples at h
  cases weights with
  | none =>
    simp only [Except.ok.injEq] at h
    subst h
    obtain ⟨x, hx, rfl⟩ := List.mem_map.mp hs
    obtain ⟨h1, h2⟩ := List.of_mem_zip hx
    exact ⟨h1, h2⟩
  | some w =>
    simp only at h
    split at h
    · cases h
    · simp only [Except.ok.injEq] at h
      subst h
      obtain ⟨x, hx, rfl⟩ := List.mem_map.mp hs
      obtain ⟨h1, h2⟩ := List.of_mem_zip hx
      obtain ⟨h3, _⟩ := List.of_mem_zip h2
      exact ⟨h1, h3⟩

/-- **C05 (default classes).** Without `classes=` the classes are the labels and predictions
that occur, strictly increasing; no KeyError can arise; the entries are the total weights. -/
theorem C05_default_classes (labels preds : List Nat) (weights : Option (List Rat))
    (hw : ∀ w, weights = some w → w.length = labels.length)
    (h2 : 2 ≤ (defaultClasses labels preds).length) :
    ∃ cm samples, mkSamples labels preds weights = .ok samples ∧
      fromPredictions none labels preds weights = .ok cm ∧
      cm.classes = defaultClasses labels preds ∧
      cm.classes.Pairwise (· < ·) ∧ (∀ x, x ∈ cm.classes ↔ x ∈ labels ∨ x ∈ preds) ∧
      entryOK 0 cm.classes samples cm.m = true := by
  have hs : ∃ samples, mkSamples labels preds weights = .ok samples := by
    unfold mkSamples
    cases weights with
    | none => exact ⟨_, rfl⟩
    | some w => simp [hw w rfl]
  obtain ⟨samples, hsm⟩ := hs
  have hin : ∀ s ∈ samples, s.label ∈ defaultClasses labels preds ∧
      s.pred ∈ defaultClasses labels preds := by
    intro s hs
    obtain ⟨h1, h2⟩ := mkSamples_mem labels preds weights samples hsm s hs
    exact ⟨(mem_defaultClasses _ _ _).mpr (Or.inl h1), (mem_defaultClasses _ _ _).mpr (Or.inr h2)⟩
  obtain ⟨cm, hcm, _, hcls, hE⟩ := C05_entry (defaultClasses labels preds) samples
    (defaultClasses_nodup labels preds) h2 hin
  refine ⟨cm, samples, hsm, ?_, hcls, ?_, ?_, ?_⟩
  · simp only [fromPredictions, hsm, hcm]
  · rw [hcls]; exact defaultClasses_sorted labels preds
  · intro x; rw [hcls]; exact mem_defaultClasses x labels preds
  · rw [hcls, entryOK, allIdx2_iff]
    intro i j hi hj
    exact near_of_eq _ _ (hE i j hi hj)

/-! ### equivalent inputs and class reordering -/

/-- **C05 (reordering).** Building with a reordered class list gives the same value for every
pair of class labels, i.e. the matrix in the requested order; and this is what the dict /
DataFrame route (`reorder`) produces from the first matrix. -/
theorem C05_reorder (classes classes' : List Nat) (samples : List Sample) (hnd : classes.Nodup)
    (hlen : 2 ≤ classes.length) (hin : ∀ s ∈ samples, s.label ∈ classes ∧ s.pred ∈ classes)
    (hp : classes'.Perm classes) :
    ∃ cm cm', fromSamples classes samples = .ok cm ∧ fromSamples classes' samples = .ok cm' ∧
      cm'.classes = classes' ∧
      (∀ a b, a ∈ classes → b ∈ classes →
        cm'.m (classes'.idxOf a) (classes'.idxOf b) = cm.m (classes.idxOf a) (classes.idxOf b)) ∧
      (∀ i j, i < classes.length → j < classes.length →
        cm'.m i j = reorder classes cm.m classes' i j) := by
  have hnd' : classes'.Nodup := hp.nodup_iff.mpr hnd
  have hlen' : classes'.length = classes.length := hp.length_eq
  have hin' : ∀ s ∈ samples, s.label ∈ classes' ∧ s.pred ∈ classes' := fun s hs =>
    ⟨hp.mem_iff.mpr (hin s hs).1, hp.mem_iff.mpr (hin s hs).2⟩
  obtain ⟨cm, h1, hL⟩ := C05_entry_by_label classes samples hnd hlen hin
  obtain ⟨cm', h1', _, hc', hE'⟩ := C05_entry classes' samples hnd' (by omega) hin'
  obtain ⟨cm'', h1'', hL'⟩ := C05_entry_by_label classes' samples hnd' (by omega) hin'
  have : cm'' = cm' := by rw [h1'] at h1''; cases h1''; rfl
  subst this
  refine ⟨cm, cm'', h1, h1', hc', fun a b ha hb => ?_, fun i j hi hj => ?_⟩
  · rw [hL a b ha hb, hL' a b (hp.mem_iff.mpr ha) (hp.mem_iff.mpr hb)]
  · have hi' : i < classes'.length := by omega
    have hj' : j < classes'.length := by omega
    have ha := hp.mem_iff.mp (getD_mem_of_lt classes' i hi')
    have hb := hp.mem_iff.mp (getD_mem_of_lt classes' j hj')
    rw [hE' i j hi' hj']
    simp only [reorder, reorder2]
    rw [hL _ _ ha hb]

/-- spec form of `C05_reorder`: the two observed matrices agree label by label (this is the
predicate the driver evaluates on two real runs) -/
theorem C05_reorder_spec (classes classes' : List Nat) (samples : List Sample) (hnd : classes.Nodup)
    (hlen : 2 ≤ classes.length) (hin : ∀ s ∈ samples, s.label ∈ classes ∧ s.pred ∈ classes)
    (hp : classes'.Perm classes) :
    ∃ cm cm', fromSamples classes samples = .ok cm ∧ fromSamples classes' samples = .ok cm' ∧
      reorderOK 0 (byLabel classes cm.m) classes' cm'.m = true := by
  obtain ⟨cm, cm', h1, h2, _, _, h5⟩ := C05_reorder classes classes' samples hnd hlen hin hp
  refine ⟨cm, cm', h1, h2, ?_⟩
  rw [reorderOK, allIdx2_iff]
  intro i j hi hj
  have hlen' : classes'.length = classes.length := hp.length_eq
  exact near_of_eq _ _ (h5 i j (by omega) (by omega))

/-- spec form of the array route: read by labels, the matrix is the input matrix -/
theorem C05_array_spec (classes : List Nat) (hnd : classes.Nodup) (M : Mat) :
    reorderOK 0 (byLabel classes M) classes M = true := by
  rw [reorderOK, allIdx2_iff]
  intro i j hi hj
  apply near_of_eq
  simp only [byLabel, idxOf_getD classes hnd i hi, idxOf_getD classes hnd j hj]

/-- reordering to the source order changes nothing -/
theorem C05_reorder_id (src : List Nat) (hnd : src.Nodup) (M : Mat) (i j : Nat)
    (hi : i < src.length) (hj : j < src.length) : reorder src M src i j = M i j := by
  simp only [reorder, reorder2, idxOf_getD src hnd i hi, idxOf_getD src hnd j hj]

/-- reordering twice is reordering once (to the last requested order) -/
theorem C05_reorder_comp (src c1 c2 : List Nat) (M : Mat) (i j : Nat)
    (hi : c2.getD i 0 ∈ c1) (hj : c2.getD j 0 ∈ c1) :
    reorder c1 (reorder src M c1) c2 i j = reorder src M c2 i j := by
  simp only [reorder, reorder2, getD_idxOf c1 _ hi, getD_idxOf c1 _ hj]

/-- **C05 (array route).** `matrix=` with an array keeps the matrix and the given classes (or
`0..n-1`). -/
theorem C05_array_route (n : Nat) (M : Mat) (classes : List Nat) (hnd : classes.Nodup)
    (hlen : classes.length = n) (h2 : 2 ≤ n) :
    fromArray n M (some classes) = .ok ⟨n, classes, M⟩ ∧
    fromArray n M none = .ok ⟨n, List.range n, M⟩ := by
  constructor
  · subst hlen
    simp only [fromArray, checkClasses_ok classes hnd h2]
  · have := checkClasses_ok (List.range n) List.nodup_range (by simpa using h2)
    simp only [List.length_range] at this
    simp only [fromArray, this]

/-- **C05 (dict route).** A dict of dicts whose rows all have the outer keys as keys (in any
order), with `classes=` a reordering of the keys (or absent), yields the matrix whose entry
`[i, j]` is `matrix[classes[i]][classes[j]]`. -/
theorem C05_dict_route (d : DictMat) (classes : List Nat) (hnd : d.keys.Nodup)
    (h2 : 2 ≤ d.keys.length) (hrows : ∀ rk ∈ d.rowKeys, rk.Perm d.keys)
    (hp : classes.Perm d.keys) :
    ∃ cm, fromDict d (some classes) = .ok cm ∧ cm.classes = classes ∧ cm.n = classes.length ∧
      reorderOK 0 d.get classes cm.m = true ∧
    ∃ cm0, fromDict d none = .ok cm0 ∧ cm0.classes = d.keys ∧
      reorderOK 0 d.get d.keys cm0.m = true := by
  have hnd' : classes.Nodup := hp.nodup_iff.mpr hnd
  have hlen' : classes.length = d.keys.length := hp.length_eq
  have hrk : ∀ cls : List Nat, cls.Perm d.keys →
      (d.rowKeys.all fun rk => sameSet rk cls) = true := by
    intro cls hc
    rw [List.all_eq_true]
    intro rk hrk
    exact sameSet_of_perm rk cls ((hrows rk hrk).trans hc.symm)
  refine ⟨⟨classes.length, classes, fun i j => d.get (classes.getD i 0) (classes.getD j 0)⟩,
    ?_, rfl, rfl, ?_, ⟨d.keys.length, d.keys, fun i j => d.get (d.keys.getD i 0) (d.keys.getD j 0)⟩,
    ?_, rfl, ?_⟩
  · simp only [fromDict, sameSet_of_perm classes d.keys hp, if_true, hrk classes hp,
      not_true_eq_false, if_false, checkClasses_ok classes hnd' (by omega)]
  · rw [reorderOK, allIdx2_iff]; intro i j _ _; exact near_self _
  · simp only [fromDict, hrk d.keys (List.Perm.refl _), not_true_eq_false, if_false,
      checkClasses_ok d.keys hnd h2]
  · rw [reorderOK, allIdx2_iff]; intro i j _ _; exact near_self _

/-- **C05 (dict route, inconsistent keys).** A row whose keys are not the requested classes
makes the construction raise ValueError. -/
theorem C05_dict_inconsistent (d : DictMat) (rk : List Nat) (hrk : rk ∈ d.rowKeys)
    (hbad : sameSet rk d.keys = false) : fromDict d none = .error .valueError := by
  have : (d.rowKeys.all fun rk => sameSet rk d.keys) = false := by
    rw [List.all_eq_false]; exact ⟨rk, hrk, by simp [hbad]⟩
  simp [fromDict, this]

/-- **C05 (DataFrame route).** A frame whose row and column names are duplicate-free
reorderings of each other, with `classes=` a reordering of the names (or absent), yields the
matrix whose entry `[i, j]` is the frame value at row `classes[i]`, column `classes[j]`. -/
theorem C05_frame_route (rows cols : List Nat) (M : Mat) (classes : List Nat) (hnd : rows.Nodup)
    (h2 : 2 ≤ rows.length) (hc : cols.Perm rows) (hp : classes.Perm rows) :
    ∃ cm, fromFrame rows cols M (some classes) = .ok cm ∧ cm.classes = classes ∧
      reorderOK 0 (byLabel2 rows cols M) classes cm.m = true ∧
    ∃ cm0, fromFrame rows cols M none = .ok cm0 ∧ cm0.classes = rows ∧
      reorderOK 0 (byLabel2 rows cols M) rows cm0.m = true := by
  have hndc : cols.Nodup := hc.nodup_iff.mpr hnd
  have hnd' : classes.Nodup := hp.nodup_iff.mpr hnd
  have hlen' : classes.length = rows.length := hp.length_eq
  refine ⟨⟨classes.length, classes, reorder2 rows cols M classes⟩, ?_, rfl, ?_,
    ⟨rows.length, rows, reorder2 rows cols M rows⟩, ?_, rfl, ?_⟩
  · simp only [fromFrame, sameSet_of_perm rows cols hc.symm, not_true_eq_false, if_false, hnd, hndc,
      sameSet_of_perm classes rows hp, if_true, checkClasses_ok classes hnd' (by omega)]
  · rw [reorderOK, allIdx2_iff]; intro i j _ _; exact near_self _
  · simp only [fromFrame, sameSet_of_perm rows cols hc.symm, not_true_eq_false, if_false, hnd, hndc,
      checkClasses_ok rows hnd h2]
  · rw [reorderOK, allIdx2_iff]; intro i j _ _; exact near_self _

/-- the dict / DataFrame route applied to the matrix of one construction reproduces the
construction with the reordered class list: the four routes commute -/
theorem C05_routes_commute (classes classes' : List Nat) (samples : List Sample)
    (hnd : classes.Nodup) (hlen : 2 ≤ classes.length)
    (hin : ∀ s ∈ samples, s.label ∈ classes ∧ s.pred ∈ classes) (hp : classes'.Perm classes) :
    ∃ cm cm' fr, fromSamples classes samples = .ok cm ∧ fromSamples classes' samples = .ok cm' ∧
      fromFrame classes classes cm.m (some classes') = .ok fr ∧ fr.classes = cm'.classes ∧
      ∀ i j, i < classes.length → j < classes.length → fr.m i j = cm'.m i j := by
  obtain ⟨cm, cm', h1, h2, h3, _, h5⟩ := C05_reorder classes classes' samples hnd hlen hin hp
  have hnd' : classes'.Nodup := hp.nodup_iff.mpr hnd
  have hlen' : classes'.length = classes.length := hp.length_eq
  refine ⟨cm, cm', ⟨classes'.length, classes', reorder2 classes classes cm.m classes'⟩, h1, h2,
    ?_, h3.symm, fun i j hi hj => (h5 i j hi hj).symm⟩
  simp only [fromFrame, sameSet_of_perm classes classes (List.Perm.refl _), not_true_eq_false,
    if_false, hnd, sameSet_of_perm classes' classes hp, if_true,
    checkClasses_ok classes' hnd' (by omega)]

/-! ### one-vs-all -/

/-- **C05 (conservation).** Every one-vs-all 2x2 sums to the total of the N x N matrix. -/
theorem C05_ova_conserves (n : Nat) (M : Mat) (j : Nat) : (oneVsAll n M j).pop = total n M := by
  simp only [oneVsAll, CMq.pop]; ring

/-- **C05 (cells).** TP_j is the diagonal entry, P_j the row sum and TOP_j the column sum. -/
theorem C05_ova_cells (n : Nat) (M : Mat) (j : Nat) :
    (oneVsAll n M j).tp = M j j ∧ (oneVsAll n M j).p = rowSum n M j ∧
    (oneVsAll n M j).top = colSum n M j := by
  refine ⟨rfl, ?_, ?_⟩ <;> simp only [oneVsAll, CMq.p, CMq.top] <;> ring

/-- the condition-negative and outcome-negative counts are the complements -/
theorem C05_ova_negatives (n : Nat) (M : Mat) (j : Nat) :
    (oneVsAll n M j).n = total n M - rowSum n M j ∧
    (oneVsAll n M j).ton = total n M - colSum n M j := by
  constructor <;> simp only [oneVsAll, CMq.n, CMq.ton] <;> ring

/-- **C05 (marginals).** The P_j and the TOP_j each add up to the population, the TP_j to the
trace. -/
theorem C05_ova_marginals (n : Nat) (M : Mat) :
    sumTo n (fun j => (oneVsAll n M j).p) = total n M ∧
    sumTo n (fun j => (oneVsAll n M j).top) = total n M ∧
    sumTo n (fun j => (oneVsAll n M j).tp) = trace n M := by
  refine ⟨?_, ?_, rfl⟩
  · exact sumTo_congr n _ _ (fun j _ => (C05_ova_cells n M j).2.1)
  · rw [total_eq_colSums]
    exact sumTo_congr n _ _ (fun j _ => (C05_ova_cells n M j).2.2)

/-- the true-negative cell is the sum of the entries outside row `j` and column `j` -/
theorem ova_tn_eq (n : Nat) (M : Mat) (j : Nat) (hj : j < n) :
    (oneVsAll n M j).tn =
      sumTo n (fun i => if i = j then 0 else
        sumTo n (fun k => if k = j then 0 else M i k)) := by
  have hrow : ∀ i, rowSum n M i = M i j + sumTo n (fun k => if k = j then 0 else M i k) :=
    fun i => sumTo_split n (fun k => M i k) j hj
  have htot : total n M = rowSum n M j + sumTo n (fun i => if i = j then 0 else rowSum n M i) :=
    sumTo_split n (rowSum n M) j hj
  have hcol : colSum n M j = M j j + sumTo n (fun i => if i = j then 0 else M i j) :=
    sumTo_split n (fun i => M i j) j hj
  have hsplit : sumTo n (fun i => if i = j then 0 else rowSum n M i) =
      sumTo n (fun i => if i = j then 0 else M i j) +
      sumTo n (fun i => if i = j then 0 else sumTo n (fun k => if k = j then 0 else M i k)) := by
    rw [← sumTo_add]
    apply sumTo_congr
    intro i _
    by_cases h : i = j
    · simp [h]
    · simp only [h, if_false]; exact hrow i
  simp only [oneVsAll]
  rw [htot, hsplit, hcol]; ring

/-- **C05 (non-negative cells).** For a non-negative matrix all four cells of every one-vs-all
matrix are non-negative (so the C04 range theorem applies to every per-class rate). -/
theorem C05_ova_nonneg (n : Nat) (M : Mat) (hM : ∀ i k, i < n → k < n → 0 ≤ M i k) (j : Nat)
    (hj : j < n) : (oneVsAll n M j).Nonneg := by
  have hz : ∀ (f : Nat → Rat), (∀ k, k < n → 0 ≤ f k) →
      0 ≤ sumTo n (fun k => if k = j then 0 else f k) := by
    intro f hf
    apply sumTo_nonneg
    intro k hk
    by_cases h : k = j
    · simp [h]
    · simp only [h, if_false]; exact hf k hk
  refine ⟨hM j j hj hj, ?_, ?_, ?_⟩
  · have := sumTo_split n (fun k => M j k) j hj
    have h0 := hz (fun k => M j k) (fun k hk => hM j k hj hk)
    simp only [oneVsAll, rowSum]
    linarith
  · have := sumTo_split n (fun i => M i j) j hj
    have h0 := hz (fun i => M i j) (fun k hk => hM k j hk hj)
    simp only [oneVsAll, colSum]
    linarith
  · rw [ova_tn_eq n M j hj]
    exact hz _ (fun i hi => hz (fun k => M i k) (fun k hk => hM i k hi hk))

/-- spec form of conservation and cells -/
theorem C05_ova_spec (n : Nat) (M : Mat) :
    ovaConservesOK 0 n M (oneVsAll n M) = true ∧ ovaCellsOK 0 n M (oneVsAll n M) = true := by
  constructor
  · rw [ovaConservesOK, allIdx_iff]
    intro j _; exact near_of_eq _ _ (C05_ova_conserves n M j)
  · rw [ovaCellsOK, allIdx_iff]
    intro j _
    obtain ⟨h1, h2, h3⟩ := C05_ova_cells n M j
    simp only [Bool.and_eq_true]
    exact ⟨⟨near_of_eq _ _ h1, near_of_eq _ _ h2⟩, near_of_eq _ _ h3⟩

/-! ### per-class metrics -/

/-- **C05 (shape).** A per-class metric has one value per class. -/
theorem C05_class_metric_length {α} (f : CMq → α) (n : Nat) (M : Mat) :
    (classMetric f n M).length = n := by
  simp [classMetric]

theorem classMetric_get {α} (f : CMq → α) (n : Nat) (M : Mat) (j : Nat) (hj : j < n) :
    (classMetric f n M)[j]? = some (f (oneVsAll n M j)) := by
  simp [classMetric, hj]

/-- **C05 (per-class counts and rates).** Per-class TP / P / TOP are the diagonal, row sums and
column sums; recall is diagonal over row sum, precision diagonal over column sum, the false
positive rate `(colsum - diag) / (total - rowsum)`, the class accuracy
`(total - rowsum - colsum + 2 diag) / total` — NaN exactly when the denominator is zero. -/
theorem C05_class_rates (n : Nat) (M : Mat) :
    classCountsOK 0 n M (fun j => (oneVsAll n M j).tp) (fun j => (oneVsAll n M j).p)
      (fun j => (oneVsAll n M j).top) = true ∧
    classRatesOK 0 n M (fun j => (oneVsAll n M j).tpr) (fun j => (oneVsAll n M j).ppv)
      (fun j => (oneVsAll n M j).fpr) (fun j => (oneVsAll n M j).accuracy) = true := by
  constructor
  · rw [classCountsOK, allIdx_iff]
    intro j _
    obtain ⟨h1, h2, h3⟩ := C05_ova_cells n M j
    simp only [Bool.and_eq_true]
    exact ⟨⟨near_of_eq _ _ h1, near_of_eq _ _ h2⟩, near_of_eq _ _ h3⟩
  · rw [classRatesOK, allIdx_iff]
    intro j _
    obtain ⟨h1, h2, h3⟩ := C05_ova_cells n M j
    obtain ⟨h4, _⟩ := C05_ova_negatives n M j
    have h5 := C05_ova_conserves n M j
    have h6 : (oneVsAll n M j).fp = colSum n M j - M j j := rfl
    have h7 : (oneVsAll n M j).tp + (oneVsAll n M j).tn =
        total n M - rowSum n M j - colSum n M j + 2 * M j j := by
      simp only [oneVsAll]; ring
    simp only [Bool.and_eq_true, CMq.tpr, CMq.ppv, CMq.fpr, CMq.accuracy]
    rw [h7, h1, h2, h3, h4, h5, h6]
    exact ⟨⟨⟨defOK_div _ _, defOK_div _ _⟩, defOK_div _ _⟩, defOK_div _ _⟩

/-- **C05 (as_dict).** The dict form has the classes as keys, in class order, and under
`classes[j]` the `j`-th entry of the array form. -/
theorem C05_as_dict {α} [BEq α] [LawfulBEq α] (classes : List Nat) (vals : List α)
    (hnd : classes.Nodup) (hlen : vals.length = classes.length) :
    asDictOK classes vals (asDict classes vals) = true := by
  have hkeys : (asDict classes vals).map Prod.fst = classes := by
    unfold asDict
    rw [List.map_fst_zip]; omega
  simp only [asDictOK, hkeys, hlen, beq_self_eq_true, Bool.true_and, allIdx_iff]
  intro j hj
  have hjv : j < vals.length := by omega
  have hlook : (asDict classes vals).lookup (classes.getD j 0) = some vals[j] := by
    have key : ∀ (cs : List Nat) (vs : List α) (j : Nat) (hj : j < cs.length)
        (hjv : j < vs.length), cs.Nodup →
        (cs.zip vs).lookup (cs.getD j 0) = some vs[j] := by
      intro cs
      induction cs with
      | nil => intro vs j hj; simp at hj
      | cons c cs ih =>
        intro vs j hj hjv hnd
        cases vs with
        | nil => simp at hjv
        | cons v vs =>
          cases j with
          | zero => simp
          | succ k =>
            have hc : c ∉ cs := (List.nodup_cons.mp hnd).1
            simp only [List.length_cons, Nat.add_lt_add_iff_right] at hj hjv
            have hm := getD_mem_of_lt cs k hj
            have hne : cs.getD k 0 ≠ c := fun h => hc (h ▸ hm)
            simp only [List.getD_cons_succ, List.zip_cons_cons, List.getElem_cons_succ]
            rw [List.lookup_cons]
            have : (cs.getD k 0 == c) = false := beq_false_of_ne hne
            rw [this]
            exact ih vs k hj hjv (List.nodup_cons.mp hnd).2
    exact key classes vals j hj hjv hnd
  rw [hlook, List.getElem?_eq_getElem hjv]
  simp

/-! ### permutation equivariance -/

/-- **C05 (equivariance).** For a permutation `p` of `0..n-1`, the one-vs-all matrix of the
permuted matrix at position `i` is the one-vs-all matrix of the original at position `p[i]`. -/
theorem C05_equivariant (n : Nat) (p : List Nat) (hp : p.Perm (List.range n)) (M : Mat) (i : Nat) :
    oneVsAll n (permute p M) i = oneVsAll n M (p.getD i 0) := by
  simp only [oneVsAll, rowSum_permute n p hp, colSum_permute n p hp, total_permute n p hp]
  rfl

/-- hence every per-class metric permutes with the classes, and accuracy is invariant -/
theorem C05_equivariant_metrics {α} (f : CMq → α) (n : Nat) (p : List Nat)
    (hp : p.Perm (List.range n)) (M : Mat) :
    (∀ i, i < n → (classMetric f n (permute p M))[i]? = (classMetric f n M)[p.getD i 0]?) ∧
    accuracy n (permute p M) = accuracy n M := by
  constructor
  · intro i hi
    rw [classMetric_get f n _ i hi, classMetric_get f n M _ (perm_getD_lt n p hp i hi),
      C05_equivariant n p hp M i]
  · simp only [accuracy, trace_permute n p hp, total_permute n p hp]

theorem idxOf_range (n k : Nat) (hk : k < n) : (List.range n).idxOf k = k := by
  have h := idxOf_getD (List.range n) List.nodup_range k (by simpa using hk)
  have e : (List.range n).getD k 0 = k := by simp [List.getD_eq_getElem?_getD, hk]
  rw [e] at h; exact h

/-- the permuted matrix is the one obtained by re-requesting the classes `0..n-1` in the order
`p` (array route followed by the DataFrame route) -/
theorem permute_eq_reorder (n : Nat) (p : List Nat) (hp : p.Perm (List.range n)) (M : Mat)
    (i j : Nat) (hi : i < n) (hj : j < n) :
    reorder (List.range n) M p i j = permute p M i j := by
  have h1 := perm_getD_lt n p hp i hi
  have h2 := perm_getD_lt n p hp j hj
  simp only [reorder, reorder2, permute, idxOf_range n _ h1, idxOf_range n _ h2]

theorem nearO_self (a : Option Rat) : nearO 0 a a = true := by
  cases a with
  | none => rfl
  | some x => exact near_self x

theorem nearL_self (l : List (Option Rat)) : nearL 0 l l = true := by
  induction l with
  | nil => rfl
  | cons a as ih => simp only [nearL, nearO_self, ih, Bool.and_self]

/-- spec form of equivariance, for the cells and for any list of per-class values computed from
the one-vs-all matrix -/
theorem C05_equivariant_spec (n : Nat) (p : List Nat) (hp : p.Perm (List.range n)) (M : Mat)
    (f : CMq → List (Option Rat)) :
    permOK 0 n p (fun j => f (oneVsAll n M j)) (fun i => f (oneVsAll n (permute p M) i)) = true := by
  rw [permOK, allIdx_iff]
  intro i _
  rw [C05_equivariant n p hp M i]
  exact nearL_self _

/-! ### accuracy -/

/-- **C05 (accuracy).** Accuracy is trace over population; NaN exactly when the population is
zero. -/
theorem C05_accuracy (n : Nat) (M : Mat) :
    (accuracy n M = none ↔ total n M = 0) ∧
    (∀ a, accuracy n M = some a → total n M ≠ 0 ∧ a = trace n M / total n M) ∧
    accuracyOK 0 n M (accuracy n M) = true := by
  refine ⟨?_, ?_, ?_⟩
  · unfold accuracy divQ
    by_cases h : total n M = 0 <;> simp [h]
  · intro a ha
    unfold accuracy divQ at ha
    by_cases h : total n M = 0
    · simp [h] at ha
    · simp only [h, if_false, Option.some.injEq] at ha
      exact ⟨h, ha.symm⟩
  · exact defOK_div _ _

/-- accuracy in terms of the one-vs-all matrices: the TP_j add up to the numerator, and each
2x2 population is the denominator -/
theorem C05_accuracy_ova (n : Nat) (M : Mat) (j : Nat) :
    accuracy n M = divQ (sumTo n (fun k => (oneVsAll n M k).tp)) (oneVsAll n M j).pop := by
  rw [C05_ova_conserves, (C05_ova_marginals n M).2.2]; rfl

/-! ### the hypotheses are satisfiable -/

example : ([7, 3, 5] : List Nat).Nodup ∧ 2 ≤ ([7, 3, 5] : List Nat).length ∧
    (∀ s ∈ ([⟨3, 7, 2⟩, ⟨5, 5, 1 / 2⟩] : List Sample),
      s.label ∈ ([7, 3, 5] : List Nat) ∧ s.pred ∈ ([7, 3, 5] : List Nat)) ∧
    ([5, 7, 3] : List Nat).Perm [7, 3, 5] := by decide

example : (∀ w, (some [1, 2, 3] : Option (List Rat)) = some w → w.length = ([4, 4, 9] : List Nat).length) ∧
    2 ≤ (defaultClasses [4, 4, 9] [9, 1, 4]).length := by
  constructor
  · intro w h; cases h; rfl
  · decide

example : ([2, 0, 1] : List Nat).Perm (List.range 3) := by decide

example : ∃ d : DictMat, d.keys.Nodup ∧ 2 ≤ d.keys.length ∧ (∀ rk ∈ d.rowKeys, rk.Perm d.keys) ∧
    ([8, 4] : List Nat).Perm d.keys :=
  ⟨⟨[4, 8], [[8, 4], [4, 8]], fun _ _ => 1⟩, by decide, by decide, by decide, by decide⟩

example : ∃ d : DictMat, ∃ rk ∈ d.rowKeys, sameSet rk d.keys = false :=
  ⟨⟨[4, 8], [[4, 8], [4, 9]], fun _ _ => 1⟩, [4, 9], by decide, by decide⟩

example : ([4, 8] : List Nat).Nodup ∧ 2 ≤ ([4, 8] : List Nat).length ∧
    ([8, 4] : List Nat).Perm [4, 8] := by decide

example : ∀ i k, i < 2 → k < 2 → (0 : Rat) ≤ (fun a b => ((a + 2 * b : Nat) : Rat)) i k := by
  intro i k _ _; exact Nat.cast_nonneg _

example : ([9, 4, 6] : List Nat).Nodup ∧ ([9, 4, 6] : List Nat).length = 3 ∧ 2 ≤ 3 := by decide

example : ([9, 4] : List Nat).Nodup ∧ ([some (1 : Rat), none] : List (Option Rat)).length =
    ([9, 4] : List Nat).length := by decide

example : ([4, 9] : List Nat).getD 0 0 ∈ ([9, 4] : List Nat) ∧
    ([4, 9] : List Nat).getD 1 0 ∈ ([9, 4] : List Nat) := by decide

end SA
