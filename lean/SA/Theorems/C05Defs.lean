/-
C05, second tie — soundness of the checker for `one_vs_all` and the construction loop regenerated from the source
(`SA/Model/CmDefs.lean`, `harness/cmdefs.py`).

* `normalize_sound`: an expression over the four generators equals its normal form on EVERY rational matrix of EVERY size
  (induction-free linear algebra: no hypothesis on `n`, `M`, `j`).
* `modelOva_block`: the model's table denotes `SA.oneVsAll`; `modelOvaNF_sound`: its normal forms are those listed.
* `checkOva_ok_sound` / `ova_bridge`: a translated table the checker accepts denotes the model's one-vs-all block for all
  matrices, sits at `[..., j, a, b]` of a binary result, hence conservation / TP on the diagonal / P = row sum /
  TOP = column sum / complements / non-negativity (the existing C05 theorems) hold of the translated code.
* `cellVerdict_mismatch_sound`: a reported mismatch names a matrix on which the two differ; `ovaWitnesses_complete`: the
  witnesses separate ANY two distinct normal forms (so `undecided` cannot occur for a linear form that differs).
* `modelCons_run`: the model's construction row denotes `SA.fromPredictions`; `cons_bridge`, `cons_bridge_entries`: an
  accepted row builds, for a duplicate-free class list, the matrix of total weights per (label, prediction) pair
  (`SA.C05_entry`); `checkCons_mismatch_sound`.
-/
import SA.Model.CmDefs
import SA.Theorems.C05

namespace SA.CmDefs
open SA SA.Spec.C05

/-! ### linear forms -/

theorem OLin.eval_add (x y : OLin) (n : Nat) (M : Mat) (j : Nat) :
    (x.add y).eval n M j = x.eval n M j + y.eval n M j := by
  simp only [OLin.add, OLin.eval]; push_cast; ring

theorem OLin.eval_sub (x y : OLin) (n : Nat) (M : Mat) (j : Nat) :
    (x.sub y).eval n M j = x.eval n M j - y.eval n M j := by
  simp only [OLin.sub, OLin.eval]; push_cast; ring

/-- **soundness of the normaliser**: for ALL rational matrices of ANY size and any class index -/
theorem normalize_sound (e : OExpr) (n : Nat) (M : Mat) (j : Nat) :
    e.normalize.eval n M j = e.eval n M j := by
  induction e with
  | diag => simp [OExpr.normalize, OExpr.eval, OLin.eval]
  | rowSum => simp [OExpr.normalize, OExpr.eval, OLin.eval]
  | colSum => simp [OExpr.normalize, OExpr.eval, OLin.eval]
  | total => simp [OExpr.normalize, OExpr.eval, OLin.eval]
  | const c => simp [OExpr.normalize, OExpr.eval, OLin.eval]
  | add a b iha ihb => simp only [OExpr.normalize, OExpr.eval, OLin.eval_add, iha, ihb]
  | sub a b iha ihb => simp only [OExpr.normalize, OExpr.eval, OLin.eval_sub, iha, ihb]

/-! ### the model's table -/

/-- the model's table denotes the model's `oneVsAll` on every matrix -/
theorem modelOva_block (n : Nat) (M : Mat) (j : Nat) : modelOva.block n M j = oneVsAll n M j := by
  simp only [OvaDef.block, modelOva, OExpr.eval, oneVsAll]
  norm_num

/-- the normal forms listed for the model are those of its table -/
theorem modelOvaNF_eq : modelOva.cells.map OExpr.normalize = modelOvaNF := by decide

/-- the listed normal forms are the cells of `oneVsAll` -/
theorem modelOvaNF_sound (n : Nat) (M : Mat) (j : Nat) :
    modelOvaNF.map (fun l => l.eval n M j) =
      [(oneVsAll n M j).tp, (oneVsAll n M j).fn, (oneVsAll n M j).fp, (oneVsAll n M j).tn] := by
  simp only [modelOvaNF, List.map, OLin.eval, oneVsAll]
  refine List.cons_eq_cons.mpr ⟨by push_cast; ring, List.cons_eq_cons.mpr ⟨by push_cast; ring,
    List.cons_eq_cons.mpr ⟨by push_cast; ring, List.cons_eq_cons.mpr ⟨by push_cast; ring, rfl⟩⟩⟩⟩

/-! ### verdicts -/

theorem cellVerdict_ok_sound {e : OExpr} {m : OLin} (h : cellVerdict e m = .ok) (n : Nat) (M : Mat) (j : Nat) :
    e.eval n M j = m.eval n M j := by
  unfold cellVerdict at h
  by_cases hn : e.normalize = m
  · rw [← hn, normalize_sound]
  · simp only [hn, if_false] at h
    split at h <;> cases h

theorem firstIdx_sound {α : Type} (p : α → Bool) : ∀ (l : List α) (k i : Nat), firstIdx p l k = some i →
    ∃ x, l[i - k]? = some x ∧ p x = true ∧ k ≤ i := by
  intro l
  induction l with
  | nil => intro k i h; simp [firstIdx] at h
  | cons x xs ih =>
    intro k i h
    simp only [firstIdx] at h
    by_cases hp : p x = true
    · simp only [hp, if_true, Option.some.injEq] at h
      subst h
      exact ⟨x, by simp, hp, Nat.le_refl _⟩
    · simp only [hp] at h
      obtain ⟨y, hy, hpy, hk⟩ := ih (k + 1) i h
      refine ⟨y, ?_, hpy, by omega⟩
      have : i - k = (i - (k + 1)) + 1 := by omega
      rw [this, List.getElem?_cons_succ]; exact hy

/-- a reported mismatch names a witness matrix on which the translated cell and the model's differ -/
theorem cellVerdict_mismatch_sound {e : OExpr} {m : OLin} {i : Nat} (h : cellVerdict e m = .mismatch i) :
    ∃ w, ovaWitnesses[i]? = some w ∧ e.eval w.1 (Mat.ofList w.1 w.2.1) w.2.2 ≠ m.eval w.1 (Mat.ofList w.1 w.2.1) w.2.2 := by
  unfold cellVerdict at h
  by_cases hn : e.normalize = m
  · simp [hn] at h
  · simp only [hn, if_false] at h
    split at h
    · rename_i k hk
      cases h
      obtain ⟨w, hw, hp, _⟩ := firstIdx_sound _ _ _ _ hk
      refine ⟨w, by simpa using hw, ?_⟩
      have hp' := of_decide_eq_true hp
      simpa [wEval] using hp'
    · cases h

/-- the last five witnesses separate any two distinct linear forms -/
theorem ovaWitnesses_complete (l l' : OLin) (h : l ≠ l') : ∃ w ∈ ovaWitnesses, wEval l w ≠ wEval l' w := by
  by_contra hc
  rw [not_exists] at hc
  have hw : ∀ w ∈ ovaWitnesses, wEval l w = wEval l' w := fun w hm => by
    by_contra hne; exact hc w ⟨hm, hne⟩
  have e00 := hw (2, [1, 0, 0, 0], 0) (by simp [ovaWitnesses])
  have e01 := hw (2, [0, 1, 0, 0], 0) (by simp [ovaWitnesses])
  have e10 := hw (2, [0, 0, 1, 0], 0) (by simp [ovaWitnesses])
  have e11 := hw (2, [0, 0, 0, 1], 0) (by simp [ovaWitnesses])
  have ez := hw (2, [0, 0, 0, 0], 0) (by simp [ovaWitnesses])
  simp only [wEval, OLin.eval, SA.rowSum, SA.colSum, SA.total, sumTo, Mat.ofList, List.getD_cons_zero,
    List.getD_cons_succ, Nat.zero_mul, Nat.zero_add, Nat.one_mul, Nat.reduceAdd] at e00 e01 e10 e11 ez
  norm_num at e00 e01 e10 e11 ez
  apply h
  have hk : (l.k : ℚ) = l'.k := by exact_mod_cast ez
  have ht : (l.t : ℚ) = l'.t := by linarith
  have hr : (l.r : ℚ) = l'.r := by linarith
  have hcc : (l.c : ℚ) = l'.c := by linarith
  have hd : (l.d : ℚ) = l'.d := by linarith
  cases l; cases l'
  simp only [OLin.mk.injEq]
  exact ⟨by exact_mod_cast hd, by exact_mod_cast hr, by exact_mod_cast hcc, by exact_mod_cast ht, by exact_mod_cast hk⟩

/-- **soundness of the one-vs-all check**: an accepted table puts the block of class `j` at `[..., j, a, b]` of a
binary result and its block IS the model's `oneVsAll` on every rational matrix of every size -/
theorem checkOva_ok_sound (d : OvaDef) (h : checkOva d = ovaAllOk) :
    d.classAxis = -3 ∧ d.binary = true ∧ ∀ n M j, d.block n M j = oneVsAll n M j := by
  simp only [checkOva, ovaAllOk, OvaReport.mk.injEq, OvaDef.cells, modelOvaNF, List.zip_cons_cons, List.zip_nil_right,
    List.map_cons, List.map_nil, List.cons.injEq, and_true] at h
  obtain ⟨hax, hbin, h0, h1, h2, h3⟩ := h
  refine ⟨by simpa [modelOva] using of_decide_eq_true hax, by simpa [modelOva] using hbin, fun n M j => ?_⟩
  have hs := modelOvaNF_sound n M j
  simp only [modelOvaNF, List.map_cons, List.map_nil, List.cons.injEq, and_true] at hs
  obtain ⟨s0, s1, s2, s3⟩ := hs
  simp only [OvaDef.block, cellVerdict_ok_sound h0 n M j, cellVerdict_ok_sound h1 n M j,
    cellVerdict_ok_sound h2 n M j, cellVerdict_ok_sound h3 n M j, s0, s1, s2, s3]

/-- **bridge**: the existing C05 theorems about the model's one-vs-all hold of every accepted translation:
conservation, TP on the diagonal, P = row sum, TOP = column sum, the complements, and non-negative cells for a
non-negative matrix -/
theorem ova_bridge (d : OvaDef) (h : checkOva d = ovaAllOk) (n : Nat) (M : Mat) (j : Nat) :
    (d.block n M j).pop = total n M ∧ (d.block n M j).tp = M j j ∧ (d.block n M j).p = SA.rowSum n M j ∧
    (d.block n M j).top = SA.colSum n M j ∧ (d.block n M j).n = total n M - SA.rowSum n M j ∧
    (d.block n M j).ton = total n M - SA.colSum n M j ∧
    ((∀ i k, i < n → k < n → 0 ≤ M i k) → j < n → (d.block n M j).Nonneg) := by
  rw [(checkOva_ok_sound d h).2.2 n M j]
  obtain ⟨c1, c2, c3⟩ := C05_ova_cells n M j
  obtain ⟨n1, n2⟩ := C05_ova_negatives n M j
  exact ⟨C05_ova_conserves n M j, c1, c2, c3, n1, n2, fun hM hj => C05_ova_nonneg n M hM j hj⟩

/-- the model's own table is accepted (so the hypotheses of `checkOva_ok_sound` / `ova_bridge` are satisfiable),
and the vectorised / re-associated forms `total - rowsum - colsum + M[j,j]` are accepted too -/
example : checkOva modelOva = ovaAllOk := by decide +kernel
example : checkOva ⟨-3, true, .diag, .sub .rowSum .diag, .sub .colSum .diag,
    .add (.sub (.sub .total .rowSum) .colSum) .diag⟩ = ovaAllOk := by decide +kernel
/-- swapped FN / FP cells, a TN that forgets the diagonal, a wrong axis: definite mismatches with witnesses -/
example : checkOva ⟨-1, true, .diag, .sub .colSum .diag, .sub .rowSum .diag, .sub (.sub .total .rowSum) .colSum⟩ =
    ⟨false, true, [.ok, .mismatch 0, .mismatch 0, .mismatch 0]⟩ := by decide +kernel

/-! ### the construction loop -/

theorem modelCons_loop (classes : List Nat) (samples : List Sample) (M : Mat) :
    modelCons.loop classes samples M = accumulate classes samples M := by
  induction samples generalizing M with
  | nil => rfl
  | cons s rest ih =>
    simp only [ConsDef.loop, accumulate, modelCons, Field.of, Upd.apply]
    cases idxMap classes s.label with
    | none => rfl
    | some i =>
      cases idxMap classes s.pred with
      | none => rfl
      | some j => exact ih _

theorem modelCons_samples (labels preds : List Nat) (weights : Option (List Rat)) :
    modelCons.samples labels preds weights = mkSamples labels preds weights := by
  cases weights with
  | none => simp [ConsDef.samples, mkSamples, modelCons]
  | some w =>
    simp only [ConsDef.samples, mkSamples, modelCons, Bool.true_and, decide_eq_true_eq]

/-- the model's row denotes the model's `fromPredictions` -/
theorem modelCons_run (classes : Option (List Nat)) (labels preds : List Nat) (weights : Option (List Rat)) :
    modelCons.run classes labels preds weights = fromPredictions classes labels preds weights := by
  simp only [ConsDef.run, fromPredictions, modelCons_samples]
  cases mkSamples labels preds weights with
  | error e => rfl
  | ok samples =>
    have hz : (fun (_ _ : Nat) => ((modelCons.init : Int) : Rat)) = Mat.zero := by
      funext a b; simp [modelCons, Mat.zero]
    cases classes with
    | none => simp only [fromSamples, modelCons_loop, hz]; rfl
    | some c => simp only [fromSamples, modelCons_loop, hz]; rfl

theorem checkCons_ok_sound (d : ConsDef) (h : checkCons d = .ok) : d = modelCons := by
  unfold checkCons at h
  by_cases hd : d = modelCons
  · exact hd
  · simp only [hd, if_false] at h
    split at h
    · cases h
    · split at h <;> cases h

/-- **bridge**: an accepted construction row denotes the model's `fromPredictions` -/
theorem cons_bridge (d : ConsDef) (h : checkCons d = .ok) (classes : Option (List Nat)) (labels preds : List Nat)
    (weights : Option (List Rat)) : d.run classes labels preds weights = fromPredictions classes labels preds weights := by
  rw [checkCons_ok_sound d h, modelCons_run]

/-- **bridge to `C05_entry`**: with a duplicate-free class list of at least two classes containing every label and
prediction (and as many weights as labels), the translated construction succeeds, keeps the class order, and entry
`[i, j]` is the total weight of the samples with label `classes[i]` and prediction `classes[j]` -/
theorem cons_bridge_entries (d : ConsDef) (h : checkCons d = .ok) (classes labels preds : List Nat)
    (weights : Option (List Rat)) (hnd : classes.Nodup) (hlen : 2 ≤ classes.length)
    (hw : ∀ w, weights = some w → w.length = labels.length)
    (hin : ∀ x, (x ∈ labels ∨ x ∈ preds) → x ∈ classes) :
    ∃ samples cm, mkSamples labels preds weights = .ok samples ∧
      d.run (some classes) labels preds weights = .ok cm ∧ cm.n = classes.length ∧ cm.classes = classes ∧
      ∀ i j, i < classes.length → j < classes.length →
        cm.m i j = weightOf samples (classes.getD i 0) (classes.getD j 0) := by
  obtain ⟨samples, hs⟩ : ∃ samples, mkSamples labels preds weights = .ok samples := by
    cases weights with
    | none => exact ⟨_, rfl⟩
    | some w => exact ⟨(labels.zip (preds.zip w)).map fun x => ⟨x.1, x.2.1, x.2.2⟩, by simp [mkSamples, hw w rfl]⟩
  have hmem : ∀ s ∈ samples, s.label ∈ classes ∧ s.pred ∈ classes := by
    intro s hsm
    obtain ⟨h1, h2⟩ := mkSamples_mem labels preds weights samples hs s hsm
    exact ⟨hin _ (Or.inl h1), hin _ (Or.inr h2)⟩
  obtain ⟨cm, hcm, h2, h3, h4⟩ := C05_entry classes samples hnd hlen hmem
  refine ⟨samples, cm, hs, ?_, h2, h3, h4⟩
  rw [cons_bridge d h]
  simp only [fromPredictions, hs]
  exact hcm

/-- a reported mismatch of the construction row names a concrete input on which the translated row and the model
produce different results, or one of the three fields without a denotation differs -/
theorem checkCons_mismatch_sound (d : ConsDef) (i : Nat) (h : checkCons d = .mismatch i) :
    (∃ w, consWitnesses[i]? = some w ∧ sameOut (runOn d w) (runOn modelCons w) = false) ∨
    (i = consWitnesses.length ∧ (d.binaryDefault ≠ modelCons.binaryDefault ∨ d.givenAsIs ≠ modelCons.givenAsIs ∨
      d.enumerateMap ≠ modelCons.enumerateMap)) := by
  unfold checkCons at h
  by_cases hd : d = modelCons
  · simp [hd] at h
  · simp only [hd, if_false] at h
    split at h
    · rename_i k hk
      cases h
      obtain ⟨w, hw, hp, _⟩ := firstIdx_sound _ _ _ _ hk
      exact Or.inl ⟨w, by simpa using hw, by simpa using hp⟩
    · split at h
      · rename_i hne
        cases h
        exact Or.inr ⟨rfl, hne⟩
      · cases h

/-- hypotheses of `cons_bridge_entries` are satisfiable; the model's row is accepted -/
example : checkCons modelCons = .ok := by decide +kernel
example : ([7, 3, 5] : List Nat).Nodup ∧ 2 ≤ ([7, 3, 5] : List Nat).length ∧
    (∀ w, (some [1, 2] : Option (List Rat)) = some w → w.length = ([3, 5] : List Nat).length) ∧
    (∀ x, (x ∈ ([3, 5] : List Nat) ∨ x ∈ ([7, 5] : List Nat)) → x ∈ ([7, 3, 5] : List Nat)) := by
  refine ⟨by decide, by decide, ?_, ?_⟩
  · intro w hw; cases hw; rfl
  · intro x hx; simp only [List.mem_cons, List.not_mem_nil, or_false] at hx ⊢; omega
/-- a swapped (label, prediction) order, `=` instead of `+=`, classes inferred from the labels only: mismatches -/
example : checkCons { modelCons with rowBy := .pred, colBy := .label } = .mismatch 0 := by decide +kernel
example : checkCons { modelCons with upd := .assign } = .mismatch 0 := by decide +kernel
example : checkCons { modelCons with inferred := .uniqueLabels } = .mismatch 2 := by decide +kernel
example : checkCons { modelCons with defaultWeight := 2 } = .mismatch 1 := by decide +kernel
example : checkCons { modelCons with lengthCheck := false } = .mismatch 4 := by decide +kernel
example : checkCons { modelCons with binaryDefault := [0, 1] } = .mismatch 6 := by decide +kernel

end SA.CmDefs
