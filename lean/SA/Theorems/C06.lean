/-
C06 — EER is a crossing point.
Proved here: range of the EER on every path, "EER = 0 only with an error-free threshold",
the FPR side (resp. FNR side) of the crossing on every path whose threshold is set at FPR
(resp. FNR) = e, and the path analysis.  The FNR side on the bisection path: see C06Root.lean.
-/
import SA.Spec.C06
import SA.Theorems.C02
import Mathlib.Tactic.SplitIfs

namespace SA
open Spec Spec.C06

/-! ### the root finder -/

theorem findRootLoop_bounds (f : ℚ → ℚ) (ff : Bool) :
    ∀ (fuel : ℕ) (xa xe : ℚ), xa ≤ xe →
      xa ≤ findRootLoop f ff fuel xa xe ∧ findRootLoop f ff fuel xa xe ≤ xe := by
  intro fuel
  induction fuel with
  | zero => intro xa xe h; simp only [findRootLoop]; constructor <;> linarith
  | succ n ih =>
    intro xa xe h
    simp only [findRootLoop]
    have hm1 : xa ≤ (xa + xe) / 2 := by linarith
    have hm2 : (xa + xe) / 2 ≤ xe := by linarith
    split
    · constructor <;> linarith
    · split
      · have := ih _ _ hm2; constructor <;> linarith [this.1, this.2]
      · split
        · have := ih _ _ hm1; constructor <;> linarith [this.1, this.2]
        · split
          · have := ih _ _ hm1; constructor <;> linarith [this.1, this.2]
          · have := ih _ _ hm2; constructor <;> linarith [this.1, this.2]

/-- the bisection never returns 0 on an interval `[xa, xe]` with `0 ≤ xa`, `0 < xe` -/
theorem findRootLoop_pos (f : ℚ → ℚ) (ff : Bool) :
    ∀ (fuel : ℕ) (xa xe : ℚ), 0 ≤ xa → xa ≤ xe → 0 < xe → 0 < findRootLoop f ff fuel xa xe := by
  intro fuel
  induction fuel with
  | zero => intro xa xe h0 h h1; simp only [findRootLoop]; linarith
  | succ n ih =>
    intro xa xe h0 h h1
    simp only [findRootLoop]
    have hm0 : 0 < (xa + xe) / 2 := by linarith
    have hm1 : xa ≤ (xa + xe) / 2 := by linarith
    have hm2 : (xa + xe) / 2 ≤ xe := by linarith
    split
    · linarith
    · split
      · exact ih _ _ (le_of_lt hm0) hm2 h1
      · split
        · exact ih _ _ h0 hm1 hm0
        · split
          · exact ih _ _ h0 hm1 hm0
          · exact ih _ _ (le_of_lt hm0) hm2 h1

theorem findRoot_ok (f : ℚ → ℚ) (xa xe : ℚ) (ff : Bool) (fuel : ℕ) (r : ℚ)
    (h : findRoot f xa xe ff fuel = .ok r) : r = findRootLoop f ff fuel xa xe := by
  unfold findRoot at h
  split at h
  · exact (Except.ok.inj h).symm
  · cases h

/-! ### which path produced the result -/

/-- the four ways `eer()` can return -/
inductive EerPath (u : Ulp) (s : Scores) (t e : ℚ) : Prop where
  | shortcutPos : s.pos.getD 0 0 > s.neg.getD (s.neg.length - 1) 0 → s.cfg.scoreClass = .pos →
      t = (s.pos.getD 0 0 + s.neg.getD (s.neg.length - 1) 0) / 2 → e = 0 → EerPath u s t e
  | shortcutNeg : s.pos.getD (s.pos.length - 1) 0 < s.neg.getD 0 0 → s.cfg.scoreClass = .neg →
      t = (s.pos.getD (s.pos.length - 1) 0 + s.neg.getD 0 0) / 2 → e = 0 → EerPath u s t e
  | capClose : e = min s.hardPosRatio s.hardNegRatio →
      t = (thrVal u s .fpr e + thrVal u s .fnr e) / 2 → EerPath u s t e
  | atFpr : 0 < e → e ≤ min s.hardPosRatio s.hardNegRatio → t = thrVal u s .fpr e → EerPath u s t e
  | atFnr : e = s.hardNegRatio → e ≤ s.hardPosRatio → t = thrVal u s .fnr e → EerPath u s t e

theorem hardPosRatio_range (s : Scores) (h : s.pos.length ≠ 0) :
    0 < s.hardPosRatio ∧ s.hardPosRatio ≤ 1 := hardPosRatio_pos s h

theorem C06_paths (u : Ulp) (s : Scores) (fuel : ℕ) (t e : ℚ)
    (h : s.eer u fuel = .ok (t, e)) :
    s.pos.length ≠ 0 ∧ s.neg.length ≠ 0 ∧ EerPath u s t e := by
  unfold Scores.eer at h
  by_cases hne : s.pos.length = 0 ∨ s.neg.length = 0
  · rw [if_pos hne] at h; cases h
  rw [if_neg hne] at h
  rw [not_or] at hne
  refine ⟨hne.1, hne.2, ?_⟩
  have hp := hardPosRatio_pos s hne.1
  have hn := hardNegRatio_pos s hne.2
  have hmin : 0 < min s.hardPosRatio s.hardNegRatio := lt_min hp.1 hn.1
  dsimp only at h
  split_ifs at h with hc1 hc2 hf hcl hlt
  · have this := Except.ok.inj h
    exact .shortcutPos hc1.1 hc1.2 (by simpa using (congrArg Prod.fst this).symm)
      (by simpa using (congrArg Prod.snd this).symm)
  · have this := Except.ok.inj h
    exact .shortcutNeg hc2.1 hc2.2 (by simpa using (congrArg Prod.fst this).symm)
      (by simpa using (congrArg Prod.snd this).symm)
  · have this := Except.ok.inj h
    have he : e = min s.hardPosRatio s.hardNegRatio := by simpa using (congrArg Prod.snd this).symm
    have ht := (congrArg Prod.fst this).symm
    simp only at ht
    exact .capClose he (by rw [he]; exact ht)
  · have this := Except.ok.inj h
    have he : e = s.hardPosRatio := by simpa using (congrArg Prod.snd this).symm
    have ht := (congrArg Prod.fst this).symm
    simp only at ht
    exact .atFpr (by rw [he]; exact hp.1) (by rw [he]; exact le_min (le_refl _) (le_of_lt hlt))
      (by rw [he]; exact ht)
  · have this := Except.ok.inj h
    have he : e = s.hardNegRatio := by simpa using (congrArg Prod.snd this).symm
    have ht := (congrArg Prod.fst this).symm
    simp only at ht
    exact .atFnr he (by rw [he]; exact not_lt.mp hlt) (by rw [he]; exact ht)
  · split at h
    · rename_i left right hl hr
      have hl' := findRoot_ok _ _ _ _ _ _ hl
      have hr' := findRoot_ok _ _ _ _ _ _ hr
      have this := Except.ok.inj h
      have he : e = (left + right) / 2 := by simpa using (congrArg Prod.snd this).symm
      have ht := (congrArg Prod.fst this).symm
      simp only at ht
      have b1 := findRootLoop_bounds
        (fun x => -(thrVal u s .fpr 0 - thrVal u s .fnr 0) * (thrVal u s .fpr x - thrVal u s .fnr x))
        true fuel 0 _ (le_of_lt hmin)
      have b2 := findRootLoop_bounds
        (fun x => -(thrVal u s .fpr 0 - thrVal u s .fnr 0) * (thrVal u s .fpr x - thrVal u s .fnr x))
        false fuel 0 _ (le_of_lt hmin)
      have p1 := findRootLoop_pos
        (fun x => -(thrVal u s .fpr 0 - thrVal u s .fnr 0) * (thrVal u s .fpr x - thrVal u s .fnr x))
        true fuel 0 _ (le_refl _) (le_of_lt hmin) hmin
      have p2 := findRootLoop_pos
        (fun x => -(thrVal u s .fpr 0 - thrVal u s .fnr 0) * (thrVal u s .fpr x - thrVal u s .fnr x))
        false fuel 0 _ (le_refl _) (le_of_lt hmin) hmin
      rw [← hl'] at b1 p1
      rw [← hr'] at b2 p2
      exact .atFpr (by rw [he]; linarith) (by rw [he]; linarith [b1.2, b2.2]) (by rw [he]; exact ht)
    · cases h
    · cases h

/-- **C06 (range).** On every path `0 ≤ e ≤ min(hard_pos_ratio, hard_neg_ratio) ≤ 1`
(this is where `min` vs `max` in the cap matters). -/
theorem C06_range (u : Ulp) (s : Scores) (fuel : ℕ) (t e : ℚ) (h : s.eer u fuel = .ok (t, e)) :
    rangeOK 0 s e = true := by
  obtain ⟨hpne, hnne, hpath⟩ := C06_paths u s fuel t e h
  have hp := hardPosRatio_pos s hpne
  have hn := hardNegRatio_pos s hnne
  have hmin0 : 0 < min s.hardPosRatio s.hardNegRatio := lt_min hp.1 hn.1
  have hmin1 : min s.hardPosRatio s.hardNegRatio ≤ 1 := le_trans (min_le_left _ _) hp.2
  simp only [rangeOK, Bool.and_eq_true, decide_eq_true_eq, neg_zero, add_zero]
  cases hpath with
  | shortcutPos _ _ _ he => rw [he]; exact ⟨⟨le_refl _, le_of_lt hmin0⟩, by norm_num⟩
  | shortcutNeg _ _ _ he => rw [he]; exact ⟨⟨le_refl _, le_of_lt hmin0⟩, by norm_num⟩
  | capClose he _ => rw [he]; exact ⟨⟨le_of_lt hmin0, le_refl _⟩, hmin1⟩
  | atFpr h0 h1 _ => exact ⟨⟨le_of_lt h0, h1⟩, le_trans h1 hmin1⟩
  | atFnr he h1 _ =>
    rw [he]
    exact ⟨⟨le_of_lt hn.1, le_min (by rw [← he]; exact h1) (le_refl _)⟩, hn.2⟩

/-- **C06 (zero EER).** For any input (ties included): a reported EER of exactly 0 comes with a
threshold at which there are no errors (FP = FN = 0). -/
theorem C06_zero (u : Ulp) (s : Scores) (hp : s.pos.Pairwise (· ≤ ·)) (hn : s.neg.Pairwise (· ≤ ·))
    (fuel : ℕ) (t e : ℚ) (h : s.eer u fuel = .ok (t, e)) :
    zeroOK e (s.cm (.fin t)) = true := by
  obtain ⟨hpne, hnne, hpath⟩ := C06_paths u s fuel t e h
  have hpr := hardPosRatio_pos s hpne
  have hnr := hardNegRatio_pos s hnne
  unfold zeroOK
  by_cases he : e = 0
  · rw [if_pos he]
    rw [cm_eq_countCM_of_sorted s hp hn]
    have np := countP_not (fun x => accept s.cfg x (.fin t)) s.pos
    simp only [countCM, Bool.and_eq_true, beq_iff_eq]
    cases hpath with
    | shortcutPos hc hsc ht _ =>
      have hposgt : ∀ x ∈ s.pos, t < x := fun x hx => by
        have := head_le_of_sorted s.pos hp x hx; rw [ht]; linarith
      have hneglt : ∀ x ∈ s.neg, x < t := fun x hx => by
        have := le_last_of_sorted s.neg hn x hx; rw [ht]; linarith
      rw [np, countP_accept_of_all_gt s.cfg s.pos t hposgt, countP_accept_of_all_lt s.cfg s.neg t hneglt,
        hsc]
      simp
    | shortcutNeg hc hsc ht _ =>
      have hposlt : ∀ x ∈ s.pos, x < t := fun x hx => by
        have := le_last_of_sorted s.pos hp x hx; rw [ht]; linarith
      have hneggt : ∀ x ∈ s.neg, t < x := fun x hx => by
        have := head_le_of_sorted s.neg hn x hx; rw [ht]; linarith
      rw [np, countP_accept_of_all_lt s.cfg s.pos t hposlt, countP_accept_of_all_gt s.cfg s.neg t hneggt,
        hsc]
      simp
    | capClose he' _ =>
      have : 0 < min s.hardPosRatio s.hardNegRatio := lt_min hpr.1 hnr.1
      rw [he] at he'; linarith
    | atFpr h0 _ _ => rw [he] at h0; exact absurd h0 (lt_irrefl _)
    | atFnr he' _ _ => rw [he] at he'; linarith [hnr.1]
  · rw [if_neg he]

theorem maxNum_div_denom_fpr (s : Scores) (h : s.neg.length ≠ 0) :
    ((maxNum s .fpr : ℕ) : ℚ) / ((denom s .fpr : ℕ) : ℚ) = s.hardNegRatio := by
  simp only [maxNum, denom, Scores.nbAllNeg, Scores.hardNegRatio]
  split
  · push_cast; ring_nf
  · rename_i he
    have : s.easyNeg = 0 := by omega
    have hl : (s.neg.length : ℚ) ≠ 0 := by exact_mod_cast h
    rw [this]; simp [div_self hl]

theorem maxNum_div_denom_fnr (s : Scores) (h : s.pos.length ≠ 0) :
    ((maxNum s .fnr : ℕ) : ℚ) / ((denom s .fnr : ℕ) : ℚ) = s.hardPosRatio := by
  simp only [maxNum, denom, Scores.nbAllPos, Scores.hardPosRatio]
  split
  · push_cast; ring_nf
  · rename_i he
    have : s.easyPos = 0 := by omega
    have hl : (s.pos.length : ℚ) ≠ 0 := by exact_mod_cast h
    rw [this]; simp [div_self hl]

theorem thrVal_ok (u : Ulp) (s : Scores) (metric : Metric) (r : ℚ)
    (h : (s.metricArray metric).length ≠ 0) :
    s.thresholdAt u metric r .linear = .ok (thrVal u s metric r) := by
  unfold thrVal
  rw [thresholdAt_eq u s metric r .linear h]

/-- **C06 (FPR side).** On every path whose threshold is set at FPR = e (the bisection path and
the cap at `hard_pos_ratio`), for negatives without ties, `|FPR(t) - e| ≤ 1/N_neg`. -/
theorem C06_fpr_side (u : Ulp) (hu : u.Lawful) (s : Scores)
    (hp : s.pos.Pairwise (· ≤ ·)) (hn : s.neg.Pairwise (· ≤ ·)) (hnne : s.neg.length ≠ 0)
    (t e : ℚ) (h0 : 0 ≤ e) (h1 : e ≤ s.hardNegRatio) (ht : t = thrVal u s .fpr e)
    (htf : C02.strictlySorted s.neg = true) :
    fprSideOK 0 s e (s.cm (.fin t)) = true := by
  have hw := C02_within u hu s hp hn .fpr e t (by rw [ht]; exact thrVal_ok u s .fpr e hnne) htf
  unfold C02.withinOK at hw
  unfold fprSideOK
  have hc : clipped s .fpr e = e := by
    unfold clipped clipQ
    rw [maxNum_div_denom_fpr s hnne]
    have : ((minNum s .fpr : ℕ) : ℚ) / ((denom s .fpr : ℕ) : ℚ) = 0 := by simp [minNum]
    rw [this, min_eq_left h1, max_eq_right h0]
  rw [hc] at hw
  exact hw

/-- **C06 (FNR side, cap path).** Symmetrically, where the threshold is set at FNR = e. -/
theorem C06_fnr_side_at_fnr (u : Ulp) (hu : u.Lawful) (s : Scores)
    (hp : s.pos.Pairwise (· ≤ ·)) (hn : s.neg.Pairwise (· ≤ ·)) (hpne : s.pos.length ≠ 0)
    (t e : ℚ) (h0 : 0 ≤ e) (h1 : e ≤ s.hardPosRatio) (ht : t = thrVal u s .fnr e)
    (htf : C02.strictlySorted s.pos = true) :
    fnrSideOK 0 s e (s.cm (.fin t)) = true := by
  have hw := C02_within u hu s hp hn .fnr e t (by rw [ht]; exact thrVal_ok u s .fnr e hpne) htf
  unfold C02.withinOK at hw
  unfold fnrSideOK
  have hc : clipped s .fnr e = e := by
    unfold clipped clipQ
    rw [maxNum_div_denom_fnr s hpne]
    have : ((minNum s .fnr : ℕ) : ℚ) / ((denom s .fnr : ℕ) : ℚ) = 0 := by simp [minNum]
    rw [this, min_eq_left h1, max_eq_right h0]
  rw [hc] at hw
  exact hw

/-- **C06 (FPR side of the returned pair).** Combining the path analysis with `C06_fpr_side`:
whenever `eer()` returns through the bisection or the `hard_pos_ratio` cap, the FPR at the
returned threshold is within one negative of the returned EER (tie-free negatives). -/
theorem C06_fpr_side_of_eer (u : Ulp) (hu : u.Lawful) (s : Scores)
    (hp : s.pos.Pairwise (· ≤ ·)) (hn : s.neg.Pairwise (· ≤ ·)) (fuel : ℕ) (t e : ℚ)
    (h : s.eer u fuel = .ok (t, e)) (hat : 0 < e ∧ t = thrVal u s .fpr e)
    (htf : C02.strictlySorted s.neg = true) :
    fprSideOK 0 s e (s.cm (.fin t)) = true := by
  obtain ⟨_, hnne, _⟩ := C06_paths u s fuel t e h
  have hr := C06_range u s fuel t e h
  simp only [rangeOK, Bool.and_eq_true, decide_eq_true_eq, add_zero] at hr
  exact C06_fpr_side u hu s hp hn hnne t e (le_of_lt hat.1) (le_trans hr.1.2 (min_le_right _ _)) hat.2 htf

/-- The FNR side on the bisection path with slack 0: stated here, evaluated (with its `eps`) by
`crossingOK` on every case.  REFUTED in the exact model by `C06_fnr_side_statement_false`
(SA/Theorems/C06Root.lean: the excess is of the order of the `1e-10` bracket); what is proved
there is the crossing bracket and the sandwich form with explicit slack. -/
def C06_fnr_side_statement : Prop :=
  ∀ (u : Ulp) (s : Scores) (fuel : ℕ) (t e : ℚ), u.Lawful →
    s.pos.Pairwise (· ≤ ·) → s.neg.Pairwise (· ≤ ·) → 40 ≤ fuel →
    s.eer u fuel = .ok (t, e) → tieFree s = true → fnrSideOK 0 s e (s.cm (.fin t)) = true

end SA
