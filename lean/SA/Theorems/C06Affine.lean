/-
C06 / C08 — EER clause of the rescaling rule: an increasing affine map of all scores maps the
returned threshold by the same map and leaves the equal error rate unchanged.

`Scores.eer` inspects the scores only through (i) the first / last elements of the two arrays
(perfect-separation shortcut), (ii) the easy counts (hard ratios) and (iii) the two threshold
functions `threshold_at_fpr`, `threshold_at_fnr`.  Under `x ↦ a x + b` (a > 0) the thresholds are
mapped (`C08_affine_threshold`), so the function handed to the root finder is multiplied by
`a² > 0`; the root finder only inspects signs.
-/
import SA.Theorems.C06
import SA.Theorems.C08

namespace SA

/-! ### the root finder only inspects signs -/

theorem eeri_scale_neg (c y : ℚ) (hc : 0 < c) : c * y < 0 ↔ y < 0 := by
  constructor
  · intro h; by_contra h'; rw [not_lt] at h'; have := mul_nonneg hc.le h'; linarith
  · intro h; exact mul_neg_of_pos_of_neg hc h

theorem eeri_scale_pos (c y : ℚ) (hc : 0 < c) : c * y > 0 ↔ y > 0 := by
  constructor
  · intro h; by_contra h'; rw [not_lt] at h'
    have := mul_nonpos_of_nonneg_of_nonpos hc.le h'; linarith
  · intro h; exact mul_pos hc h

theorem eeri_scale_le (c y : ℚ) (hc : 0 < c) : c * y ≤ 0 ↔ y ≤ 0 := by
  rw [← not_lt, ← not_lt, ← gt_iff_lt, ← gt_iff_lt, eeri_scale_pos c y hc]

theorem eeri_scale_ge (c y : ℚ) (hc : 0 < c) : 0 ≤ c * y ↔ 0 ≤ y := by
  rw [← not_lt, ← not_lt, eeri_scale_neg c y hc]

/-- **C (root finder, loop).** Multiplying the function by a positive constant does not change
the bisection: only the signs of `f` at the midpoints are inspected. -/
theorem eeri_findRootLoop_scale (f : ℚ → ℚ) (c : ℚ) (hc : 0 < c) (ff : Bool) (fuel : ℕ)
    (xa xe : ℚ) :
    findRootLoop (fun x => c * f x) ff fuel xa xe = findRootLoop f ff fuel xa xe := by
  induction fuel generalizing xa xe with
  | zero => simp only [findRootLoop]
  | succ n ih =>
    simp only [findRootLoop, eeri_scale_neg _ _ hc, eeri_scale_pos _ _ hc, ih]

/-- **C (root finder).** `_find_root` is invariant under multiplying the function by a positive
constant (bracket check and loop). -/
theorem eeri_findRoot_scale (f : ℚ → ℚ) (c : ℚ) (hc : 0 < c) (xa xe : ℚ) (ff : Bool) (fuel : ℕ) :
    findRoot (fun x => c * f x) xa xe ff fuel = findRoot f xa xe ff fuel := by
  unfold findRoot
  simp only [eeri_scale_le _ _ hc, eeri_scale_ge _ _ hc, eeri_findRootLoop_scale f c hc]

/-! ### `eer()` as a function of what it reads from the object -/

/-- the function whose root is sought, in terms of the two threshold functions -/
def eeri_F (tf tn : ℚ → ℚ) : ℚ → ℚ := fun x => -(tf 0 - tn 0) * (tf x - tn x)

/-- `Scores.eer` in terms of: class sizes, first / last scores of the two arrays, `score_class`,
the two hard ratios and the two threshold functions. -/
def eeri_core (np nn : ℕ) (pos0 posL neg0 negL : ℚ) (sc : Label) (hpr hnr : ℚ)
    (tf tn : ℚ → ℚ) (fuel : ℕ) : Except Err (ℚ × ℚ) :=
  if np = 0 ∨ nn = 0 then .error .other else
  if pos0 > negL ∧ sc = .pos then .ok ((pos0 + negL) / 2, 0)
  else if posL < neg0 ∧ sc = .neg then .ok ((posL + neg0) / 2, 0)
  else
    if eeri_F tf tn (min hpr hnr) < 0 then
      if isClose hpr hnr then .ok ((tf (min hpr hnr) + tn (min hpr hnr)) / 2, min hpr hnr)
      else if hpr < hnr then .ok (tf hpr, hpr)
      else .ok (tn hnr, hnr)
    else
      match findRoot (eeri_F tf tn) 0 (min hpr hnr) true fuel,
            findRoot (eeri_F tf tn) 0 (min hpr hnr) false fuel with
      | .ok left, .ok right => .ok (tf ((left + right) / 2), (left + right) / 2)
      | .error e, _ => .error e
      | _, .error e => .error e

theorem eeri_eer_eq_core (u : Ulp) (s : Scores) (fuel : ℕ) :
    s.eer u fuel = eeri_core s.pos.length s.neg.length (s.pos.getD 0 0)
      (s.pos.getD (s.pos.length - 1) 0) (s.neg.getD 0 0) (s.neg.getD (s.neg.length - 1) 0)
      s.cfg.scoreClass s.hardPosRatio s.hardNegRatio (thrVal u s .fpr) (thrVal u s .fnr) fuel :=
  rfl

theorem eeri_F_affine (tf tn : ℚ → ℚ) (a b : ℚ) :
    eeri_F (fun x => a * tf x + b) (fun x => a * tn x + b) =
      fun x => (a * a) * eeri_F tf tn x := by
  funext x
  simp only [eeri_F]
  ring

/-- the affine image of the ingredients gives the affine image of the threshold and the same
rate -/
theorem eeri_core_affine (np nn : ℕ) (pos0 posL neg0 negL : ℚ) (sc : Label) (hpr hnr : ℚ)
    (tf tn : ℚ → ℚ) (fuel : ℕ) (a b : ℚ) (ha : 0 < a) :
    eeri_core np nn (a * pos0 + b) (a * posL + b) (a * neg0 + b) (a * negL + b) sc hpr hnr
        (fun x => a * tf x + b) (fun x => a * tn x + b) fuel =
      (eeri_core np nn pos0 posL neg0 negL sc hpr hnr tf tn fuel).map
        (fun (t, e) => (a * t + b, e)) := by
  have haa : 0 < a * a := mul_pos ha ha
  unfold eeri_core
  rw [eeri_F_affine, eeri_findRoot_scale _ _ haa, eeri_findRoot_scale _ _ haa]
  by_cases hE : np = 0 ∨ nn = 0
  · rw [if_pos hE, if_pos hE]; rfl
  rw [if_neg hE, if_neg hE]
  have c1 : (a * pos0 + b > a * negL + b) ↔ pos0 > negL :=
    ⟨fun h => by nlinarith, fun h => by nlinarith⟩
  have c2 : (a * posL + b < a * neg0 + b) ↔ posL < neg0 :=
    ⟨fun h => by nlinarith, fun h => by nlinarith⟩
  simp only [c1, c2]
  by_cases h1 : pos0 > negL ∧ sc = .pos
  · rw [if_pos h1, if_pos h1]
    simp only [Except.map, Except.ok.injEq, Prod.mk.injEq, and_true]
    ring
  rw [if_neg h1, if_neg h1]
  by_cases h2 : posL < neg0 ∧ sc = .neg
  · rw [if_pos h2, if_pos h2]
    simp only [Except.map, Except.ok.injEq, Prod.mk.injEq, and_true]
    ring
  rw [if_neg h2, if_neg h2]
  have c3 : (a * a * eeri_F tf tn (min hpr hnr) < 0) ↔ eeri_F tf tn (min hpr hnr) < 0 :=
    eeri_scale_neg _ _ haa
  simp only [c3]
  by_cases h3 : eeri_F tf tn (min hpr hnr) < 0
  · rw [if_pos h3, if_pos h3]
    by_cases h4 : isClose hpr hnr = true
    · rw [if_pos h4, if_pos h4]
      simp only [Except.map, Except.ok.injEq, Prod.mk.injEq, and_true]
      ring
    rw [if_neg h4, if_neg h4]
    by_cases h5 : hpr < hnr
    · rw [if_pos h5, if_pos h5]; rfl
    · rw [if_neg h5, if_neg h5]; rfl
  rw [if_neg h3, if_neg h3]
  cases findRoot (eeri_F tf tn) 0 (min hpr hnr) true fuel <;>
    cases findRoot (eeri_F tf tn) 0 (min hpr hnr) false fuel <;> rfl

/-! ### the rescaled object -/

/-- the value of a threshold call on the rescaled object, for a non-empty class -/
theorem eeri_thrVal_affine (u u' : Ulp) (s : Scores) (a b : ℚ) (ha : 0 < a)
    (hd : ∀ x, u'.down (a * x + b) = a * u.down x + b)
    (hup : ∀ x, u'.up (a * x + b) = a * u.up x + b) (metric : Metric) (r : ℚ)
    (h : (s.metricArray metric).length ≠ 0) :
    thrVal u' (s.affine a b) metric r = a * thrVal u s metric r + b := by
  have h1 := thrVal_ok u s metric r h
  have h2 := C08_affine_threshold u u' s a b ha hd hup metric r .linear
  rw [h1] at h2
  unfold thrVal
  rw [h2, h1]
  rfl

theorem eeri_hardPos_affine (s : Scores) (a b : ℚ) :
    (s.affine a b).hardPosRatio = s.hardPosRatio := by
  simp only [Scores.hardPosRatio, Scores.affine, List.length_map]

theorem eeri_hardNeg_affine (s : Scores) (a b : ℚ) :
    (s.affine a b).hardNegRatio = s.hardNegRatio := by
  simp only [Scores.hardNegRatio, Scores.affine, List.length_map]

/-- **C06 / C08 (rescaling, EER).** For `a > 0` and a `nextafter` oracle pair that commutes with
the map (as in `C08_affine_threshold`), `eer()` of the rescaled object returns the image of the
threshold and the same rate; errors (an empty class, a failed bracket check) are the same.  No
hypothesis on sortedness, ties, easy counts, configuration or fuel is needed. -/
theorem C06_affine (u u' : Ulp) (s : Scores) (a b : ℚ) (ha : 0 < a)
    (hd : ∀ x, u'.down (a * x + b) = a * u.down x + b)
    (hup : ∀ x, u'.up (a * x + b) = a * u.up x + b) (fuel : ℕ) :
    (s.affine a b).eer u' fuel = (s.eer u fuel).map (fun (t, e) => (a * t + b, e)) := by
  rw [eeri_eer_eq_core, eeri_eer_eq_core, eeri_hardPos_affine, eeri_hardNeg_affine]
  have hlp : (s.affine a b).pos.length = s.pos.length := List.length_map _
  have hln : (s.affine a b).neg.length = s.neg.length := List.length_map _
  have hcfg : (s.affine a b).cfg = s.cfg := rfl
  rw [hlp, hln, hcfg]
  by_cases hE : s.pos.length = 0 ∨ s.neg.length = 0
  · unfold eeri_core
    rw [if_pos hE, if_pos hE]; rfl
  rw [not_or] at hE
  obtain ⟨hp0, hn0⟩ := hE
  have g1 : (s.affine a b).pos.getD 0 0 = a * s.pos.getD 0 0 + b :=
    getD_map_affine s.pos a b 0 (by omega)
  have g2 : (s.affine a b).pos.getD (s.pos.length - 1) 0 =
      a * s.pos.getD (s.pos.length - 1) 0 + b := getD_map_affine s.pos a b _ (by omega)
  have g3 : (s.affine a b).neg.getD 0 0 = a * s.neg.getD 0 0 + b :=
    getD_map_affine s.neg a b 0 (by omega)
  have g4 : (s.affine a b).neg.getD (s.neg.length - 1) 0 =
      a * s.neg.getD (s.neg.length - 1) 0 + b := getD_map_affine s.neg a b _ (by omega)
  have t1 : thrVal u' (s.affine a b) .fpr = fun x => a * thrVal u s .fpr x + b := by
    funext x; exact eeri_thrVal_affine u u' s a b ha hd hup .fpr x hn0
  have t2 : thrVal u' (s.affine a b) .fnr = fun x => a * thrVal u s .fnr x + b := by
    funext x; exact eeri_thrVal_affine u u' s a b ha hd hup .fnr x hp0
  rw [g1, g2, g3, g4, t1, t2]
  exact eeri_core_affine _ _ _ _ _ _ _ _ _ _ _ fuel a b ha

/-- **Corollary.** In the `(t, e)` form: a successful call on `s` gives a successful call on
the rescaled object with the mapped threshold and the same EER, and conversely the rescaled
object fails exactly when `s` does. -/
theorem C06_affine_ok (u u' : Ulp) (s : Scores) (a b : ℚ) (ha : 0 < a)
    (hd : ∀ x, u'.down (a * x + b) = a * u.down x + b)
    (hup : ∀ x, u'.up (a * x + b) = a * u.up x + b) (fuel : ℕ) (t e : ℚ)
    (h : s.eer u fuel = .ok (t, e)) :
    (s.affine a b).eer u' fuel = .ok (a * t + b, e) := by
  rw [C06_affine u u' s a b ha hd hup fuel, h]; rfl

/-! ### non-vacuity -/

/-- Hypotheses of `C06_affine` are satisfiable (half-step oracle, translations). -/
example : (0 : ℚ) < 1 ∧ (∀ x, Ulp.half.down (1 * x + 7) = 1 * Ulp.half.down x + 7) ∧
    (∀ x, Ulp.half.up (1 * x + 7) = 1 * Ulp.half.up x + 7) :=
  ⟨by norm_num, fun x => by simp only [Ulp.half]; ring, fun x => by simp only [Ulp.half]; ring⟩

/-- ... and the statement is not vacuous: on this example the call succeeds (bisection path), so
`C06_affine_ok` applies. -/
example : (Scores.eer Ulp.half ⟨[1, 3, 5], [2, 4, 6], 0, 0, ⟨.pos, .pos⟩⟩ 8).isOk = true := by
  decide +kernel

end SA
