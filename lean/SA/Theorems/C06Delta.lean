/-
C06 — the FNR side on the bisection path of `Scores.eer()`, with an explicit data-dependent slack.

`C06_bisect_crossing` (C06Root.lean) brackets the returned `e` by targets `p ≤ e ≤ q`, `q − p < xtol`,
across which `thr_fpr − thr_fnr` changes sign.  Here this is turned into a bound on the FNR at the
returned threshold `t = thr_fpr(e)`:

* `C06_thr_gap_at_eer`: `|thr_fpr(e) − thr_fnr(e)| ≤ (L_fpr + L_fnr)·xtol + sentinel steps`, where
  `L_fpr = N_neg · maxGap(neg)`, `L_fnr = N_pos · maxGap(pos)` are the Lipschitz constants of the two
  threshold maps in the requested rate (`c06d_thrVal_fpr_lip`, `c06d_thrVal_fnr_lip`).
* `C06_fnr_side_near`: sandwich form with a slack `D` on the *threshold* axis.  Unlike
  `C06_fnr_side_sandwich` (slack on the target axis) it also covers the flat pieces of `thr_fnr`
  (one sample wide, next to a sentinel), where no nearby target reproduces a nearby threshold.
* `C06_fnr_side_bisect`: `|FNR(t) − e| ≤ 1/N_pos + c06d_delta u s` on the bisection path, with
  `c06d_delta u s = xtol + (N_neg·maxGap(neg)·xtol + J(neg)) / (N_pos·minGap(pos))`.
-/
import SA.Theorems.C06Root
import SA.Proofs.ThrLipschitz

namespace SA
open Spec Spec.C06

/-! ### the slack -/

/-- how far `thr_fpr` can move when the requested rate moves by `xtol`: Lipschitz constant
`N_neg · maxGap(neg)` (all negatives, easy ones included, times the largest gap between consecutive
negative scores) times `xtol`, plus the two `nextafter` steps at the ends of the negatives -/
def c06d_thrSlack (u : Ulp) (s : Scores) : ℚ :=
  (s.nbAllNeg : ℚ) * c06d_maxGap s.neg * xtol + c06d_jump u s.neg

/-- the slack of the FNR side: `xtol` (width of the crossing bracket) plus `c06d_thrSlack`
divided by the inverse-Lipschitz constant `N_pos · minGap(pos)` of `thr_fnr` -/
def c06d_delta (u : Ulp) (s : Scores) : ℚ :=
  xtol + c06d_thrSlack u s / ((s.nbAllPos : ℚ) * c06d_minGap s.pos)

theorem c06d_thrSlack_pos (u : Ulp) (hu : u.Lawful) (s : Scores) : 0 < c06d_thrSlack u s := by
  unfold c06d_thrSlack c06d_jump
  have h1 : (0 : ℚ) ≤ (s.nbAllNeg : ℚ) := by positivity
  have h2 := mul_nonneg (mul_nonneg h1 (c06d_maxGap_nonneg s.neg)) (le_of_lt c06f_xtol_pos)
  linarith [c06d_jumpLo_pos u hu s.neg, c06d_jumpHi_pos u hu s.neg]

/-! ### arithmetic helpers -/

theorem c06d_div_up (c N a : ℚ) (hN : 0 < N) (h : c ≤ a * N + 1) : c / N ≤ a + 1 / N := by
  have h1 : c / N ≤ (a * N + 1) / N := div_le_div_of_nonneg_right h (le_of_lt hN)
  rw [add_div, mul_div_cancel_right₀ _ (ne_of_gt hN)] at h1
  exact h1

theorem c06d_div_down (c N a : ℚ) (hN : 0 < N) (h : a * N - 1 ≤ c) : a - 1 / N ≤ c / N := by
  have h1 : (a * N - 1) / N ≤ c / N := div_le_div_of_nonneg_right h (le_of_lt hN)
  rw [sub_div, mul_div_cancel_right₀ _ (ne_of_gt hN)] at h1
  exact h1

/-- for a requested FNR in the achievable range, `clip01(rescaled) · #hard positives` is the
requested number of positives -/
theorem c06d_clip_fnr (s : Scores) (hpne : s.pos.length ≠ 0) (x : ℚ) (h0 : 0 ≤ x)
    (h1 : x ≤ s.hardPosRatio) :
    clip01 (s.rescale .fnr x) * (s.pos.length : ℚ) = x * (s.nbAllPos : ℚ) := by
  have hspec := rescale_spec s .fnr x hpne
  have hc : clipped s .fnr x = x := by
    unfold clipped clipQ
    rw [maxNum_div_denom_fnr s hpne]
    have : ((minNum s .fnr : ℕ) : ℚ) / ((denom s .fnr : ℕ) : ℚ) = 0 := by simp [minNum]
    rw [this, min_eq_left h1, max_eq_right h0]
  rw [hc] at hspec
  simp only [minNum, denom, Scores.metricArray, Nat.cast_zero, zero_add] at hspec
  exact hspec.symm

/-! ### sandwich with a slack on the threshold axis -/

/-- **C06 (FNR side, threshold-slack form).** Tie-free positives.  Let `p ≤ e ≤ q` be targets in
`[0, hard_pos_ratio]` with `q − p ≤ w`, and let `t` lie between `thr_fnr(p)` and `thr_fnr(q)` up
to a slack `D` on the threshold axis (in the direction in which FNR grows with the threshold).
Then `|FNR(t) − e| ≤ 1/N_pos + w + D / (N_pos · minGap(pos))`.  All configurations and easy
counts; covers the flat pieces of `thr_fnr`. -/
theorem C06_fnr_side_near (u : Ulp) (hu : u.Lawful) (s : Scores)
    (hp : s.pos.Pairwise (· ≤ ·)) (hn : s.neg.Pairwise (· ≤ ·)) (hpne : s.pos.length ≠ 0)
    (htf : C02.strictlySorted s.pos = true) (t e p q w D : ℚ)
    (h0 : 0 ≤ p) (hpe : p ≤ e) (heq : e ≤ q) (hq : q ≤ s.hardPosRatio) (hw : q - p ≤ w)
    (hD : 0 ≤ D)
    (hs : if evenFlips s.cfg Metric.fnr.increasing
      then thrVal u s .fnr p - D ≤ t ∧ t ≤ thrVal u s .fnr q + D
      else thrVal u s .fnr q - D ≤ t ∧ t ≤ thrVal u s .fnr p + D) :
    fnrSideOK (w + D / ((s.nbAllPos : ℚ) * c06d_minGap s.pos)) s e (s.cm (.fin t)) = true := by
  have hstrict := pairwise_of_strictlySorted _ htf
  have hmg := c06d_minGap_pos s.pos hstrict
  have hN : (0 : ℚ) < (s.nbAllPos : ℚ) := denom_pos s .fnr hpne
  have hn0 : (0 : ℚ) < (s.pos.length : ℚ) := by exact_mod_cast Nat.pos_of_ne_zero hpne
  have hZ : D / c06d_minGap s.pos = D / ((s.nbAllPos : ℚ) * c06d_minGap s.pos) * (s.nbAllPos : ℚ) := by
    field_simp
  have cp := c06d_clip_fnr s hpne p h0 (by linarith)
  have cq := c06d_clip_fnr s hpne q (by linarith) hq
  have b1 := cntLt_le_belowCount s.cfg s.pos t
  have b2 := belowCount_le_cntLe s.cfg s.pos t
  have b3 := belowCount_le_length s.cfg s.pos t
  have b1q : (cntLt s.pos t : ℚ) ≤ (belowCount s.cfg s.pos t : ℚ) := by exact_mod_cast b1
  have b2q : (belowCount s.cfg s.pos t : ℚ) ≤ (cntLe s.pos t : ℚ) := by exact_mod_cast b2
  have hnum := rateNum_eq s hp hn .fnr t
  rw [c06f_fnrSide_unfold]
  unfold rateQ
  rw [hnum]
  simp only [minNum, denom, Scores.metricArray, zero_add]
  rw [c06d_thrVal_eq u s .fnr p hpne, c06d_thrVal_eq u s .fnr q hpne] at hs
  simp only [Scores.metricArray] at hs
  generalize normLc s.cfg Metric.fnr.increasing Metric.fnr.ratioClass = lc at hs
  by_cases he : evenFlips s.cfg Metric.fnr.increasing = true
  · simp only [he, if_true, normTarget] at hs ⊢
    have A := c06d_cntLe_near u hu s.pos hstrict hpne _ lc D t hD hs.2
    have B := c06d_cntLt_near u hu s.pos hstrict hpne _ lc D t hD hs.1
    rw [cq] at A
    rw [cp] at B
    have up := c06d_div_up (belowCount s.cfg s.pos t : ℚ) (s.nbAllPos : ℚ)
      (q + D / ((s.nbAllPos : ℚ) * c06d_minGap s.pos)) hN (by rw [add_mul, ← hZ]; linarith)
    have dn := c06d_div_down (belowCount s.cfg s.pos t : ℚ) (s.nbAllPos : ℚ)
      (p - D / ((s.nbAllPos : ℚ) * c06d_minGap s.pos)) hN (by rw [sub_mul, ← hZ]; linarith)
    constructor <;> linarith
  · simp only [he, if_false, Bool.false_eq_true, normTarget] at hs ⊢
    have A := c06d_cntLe_near u hu s.pos hstrict hpne _ lc D t hD hs.2
    have B := c06d_cntLt_near u hu s.pos hstrict hpne _ lc D t hD hs.1
    rw [clip01_one_sub, sub_mul, one_mul, cp] at A
    rw [clip01_one_sub, sub_mul, one_mul, cq] at B
    rw [Nat.cast_sub b3]
    have up := c06d_div_up ((s.pos.length : ℚ) - (belowCount s.cfg s.pos t : ℚ)) (s.nbAllPos : ℚ)
      (q + D / ((s.nbAllPos : ℚ) * c06d_minGap s.pos)) hN (by rw [add_mul, ← hZ]; linarith)
    have dn := c06d_div_down ((s.pos.length : ℚ) - (belowCount s.cfg s.pos t : ℚ)) (s.nbAllPos : ℚ)
      (p - D / ((s.nbAllPos : ℚ) * c06d_minGap s.pos)) hN (by rw [sub_mul, ← hZ]; linarith)
    constructor <;> linarith

/-! ### which way the bracketed function changes sign -/

/-- a non-zero EER did not come from a perfect-separation shortcut -/
theorem c06d_eer_noshortcut (u : Ulp) (s : Scores) (fuel : ℕ) (t e : ℚ)
    (h : s.eer u fuel = .ok (t, e)) (he : e ≠ 0) :
    ¬ (s.pos.getD 0 0 > s.neg.getD (s.neg.length - 1) 0 ∧ s.cfg.scoreClass = .pos) ∧
    ¬ (s.pos.getD (s.pos.length - 1) 0 < s.neg.getD 0 0 ∧ s.cfg.scoreClass = .neg) := by
  unfold Scores.eer at h
  by_cases hne : s.pos.length = 0 ∨ s.neg.length = 0
  · rw [if_pos hne] at h; cases h
  rw [if_neg hne] at h
  dsimp only at h
  by_cases hc1 : s.pos.getD 0 0 > s.neg.getD (s.neg.length - 1) 0 ∧ s.cfg.scoreClass = .pos
  · rw [if_pos hc1] at h
    have this := Except.ok.inj h
    exact absurd (by simpa using (congrArg Prod.snd this).symm) he
  · rw [if_neg hc1] at h
    by_cases hc2 : s.pos.getD (s.pos.length - 1) 0 < s.neg.getD 0 0 ∧ s.cfg.scoreClass = .neg
    · rw [if_pos hc2] at h
      have this := Except.ok.inj h
      exact absurd (by simpa using (congrArg Prod.snd this).symm) he
    · exact ⟨hc1, hc2⟩

/-- thresholds for a requested rate of 0 are the sentinels -/
theorem c06d_thrVal_zero (u : Ulp) (s : Scores) (metric : Metric)
    (hne : (s.metricArray metric).length ≠ 0) :
    thrVal u s metric 0 =
      if evenFlips s.cfg metric.increasing then u.down ((s.metricArray metric).getD 0 0)
      else u.up ((s.metricArray metric).getD ((s.metricArray metric).length - 1) 0) := by
  have h1 := thrVal_ok u s metric 0 hne
  unfold Scores.thresholdAt at h1
  rw [if_neg hne] at h1
  rw [← Except.ok.inj h1]
  exact thresholdAtRatio_low u s.cfg _ _ _ _ _ (rescale_low s metric 0 (le_refl _))

/-- **Sign of `thr_fpr − thr_fnr` at the ends of the crossing bracket.** On the bisection path
(lawful oracle, fuel ≥ 34, `e ≠ 0`, not the cap path) there are `0 ≤ p ≤ e ≤ q ≤ min(hard ratios)`,
`q − p < xtol`, `t = thr_fpr(e)`, such that for `score_class = pos` the difference
`thr_fpr − thr_fnr` is `≥ 0` at `p` and `≤ 0` at `q`, and the other way round for
`score_class = neg`.  (The factor `sign` of the code is non-zero because the shortcut was not
taken.) -/
theorem c06d_crossing_signs (u : Ulp) (hu : u.Lawful) (s : Scores)
    (hp : s.pos.Pairwise (· ≤ ·)) (hn : s.neg.Pairwise (· ≤ ·)) (fuel : ℕ) (hfuel : 34 ≤ fuel)
    (t e : ℚ) (h : s.eer u fuel = .ok (t, e)) (he : e ≠ 0)
    (hcap : ¬ c06f_eerF u s (min s.hardPosRatio s.hardNegRatio) < 0) :
    ∃ p q : ℚ, 0 ≤ p ∧ p ≤ e ∧ e ≤ q ∧ q ≤ min s.hardPosRatio s.hardNegRatio ∧ q - p < xtol ∧
      t = thrVal u s .fpr e ∧
      (if s.cfg.scoreClass = .pos
       then thrVal u s .fpr q - thrVal u s .fnr q ≤ 0 ∧ 0 ≤ thrVal u s .fpr p - thrVal u s .fnr p
       else thrVal u s .fpr p - thrVal u s .fnr p ≤ 0 ∧
         0 ≤ thrVal u s .fpr q - thrVal u s .fnr q) := by
  obtain ⟨hpne, hnne, _⟩ := C06_paths u s fuel t e h
  obtain ⟨p, q, hp0, hpe, heq, hqM, hqp, hFp, hFq, ht⟩ :=
    C06_bisect_crossing u hu s hp hn fuel hfuel t e h he hcap
  obtain ⟨ns1, ns2⟩ := c06d_eer_noshortcut u s fuel t e h he
  refine ⟨p, q, hp0, hpe, heq, hqM, hqp, ht, ?_⟩
  have z1 := c06d_thrVal_zero u s .fpr hnne
  have z2 := c06d_thrVal_zero u s .fnr hpne
  unfold c06f_eerF at hFp hFq
  have hord_n := getD_mono s.neg hn 0 (s.neg.length - 1) (by omega) (by omega)
  have hord_p := getD_mono s.pos hp 0 (s.pos.length - 1) (by omega) (by omega)
  cases hsc : s.cfg.scoreClass
  · -- score_class = pos: thr_fpr(0) = up(neg_last) > down(pos_first) = thr_fnr(0)
    simp only [evenFlips, Metric.increasing, Scores.metricArray, hsc] at z1 z2
    simp only [if_true]
    rw [if_neg (by decide)] at z1
    rw [if_pos (by decide)] at z2
    have hle : s.pos.getD 0 0 ≤ s.neg.getD (s.neg.length - 1) 0 := by
      by_contra hcon
      exact ns1 ⟨not_le.mp hcon, hsc⟩
    have hd0 : 0 < thrVal u s .fpr 0 - thrVal u s .fnr 0 := by
      rw [z1, z2]
      have := hu.down_lt (s.pos.getD 0 0)
      have := hu.lt_up (s.neg.getD (s.neg.length - 1) 0)
      linarith
    generalize thrVal u s .fpr 0 - thrVal u s .fnr 0 = d0 at *
    constructor
    · by_contra hcon
      rw [not_le] at hcon
      have := mul_pos hd0 hcon
      linarith
    · by_contra hcon
      rw [not_le] at hcon
      have := mul_pos_of_neg_of_neg (neg_neg_of_pos hd0) hcon
      linarith
  · -- score_class = neg: thr_fpr(0) = down(neg_first) < up(pos_last) = thr_fnr(0)
    simp only [evenFlips, Metric.increasing, Scores.metricArray, hsc] at z1 z2
    simp only [reduceCtorEq, if_false]
    rw [if_pos (by decide)] at z1
    rw [if_neg (by decide)] at z2
    have hle : s.neg.getD 0 0 ≤ s.pos.getD (s.pos.length - 1) 0 := by
      by_contra hcon
      exact ns2 ⟨not_le.mp hcon, hsc⟩
    have hd0 : thrVal u s .fpr 0 - thrVal u s .fnr 0 < 0 := by
      rw [z1, z2]
      have := hu.down_lt (s.neg.getD 0 0)
      have := hu.lt_up (s.pos.getD (s.pos.length - 1) 0)
      linarith
    generalize thrVal u s .fpr 0 - thrVal u s .fnr 0 = d0 at *
    constructor
    · by_contra hcon
      rw [not_le] at hcon
      have := mul_pos (neg_pos_of_neg hd0) hcon
      linarith
    · by_contra hcon
      rw [not_le] at hcon
      have := mul_pos_of_neg_of_neg hd0 hcon
      linarith

/-! ### the bisection path -/

/-- **C06 (the two thresholds nearly agree at the returned EER).** On the bisection path,
`|thr_fpr(e) − thr_fnr(e)| ≤ (N_neg·maxGap(neg) + N_pos·maxGap(pos))·xtol + J(neg) + J(pos)`,
`J` = the two `nextafter` steps at the ends of a class.  Ties allowed, all configurations and easy
counts. -/
theorem C06_thr_gap_at_eer (u : Ulp) (hu : u.Lawful) (s : Scores)
    (hp : s.pos.Pairwise (· ≤ ·)) (hn : s.neg.Pairwise (· ≤ ·)) (fuel : ℕ) (hfuel : 34 ≤ fuel)
    (t e : ℚ) (h : s.eer u fuel = .ok (t, e)) (he : e ≠ 0)
    (hcap : ¬ c06f_eerF u s (min s.hardPosRatio s.hardNegRatio) < 0) :
    absQ (thrVal u s .fpr e - thrVal u s .fnr e) ≤
      ((s.nbAllNeg : ℚ) * c06d_maxGap s.neg + (s.nbAllPos : ℚ) * c06d_maxGap s.pos) * xtol +
        c06d_jump u s.neg + c06d_jump u s.pos := by
  obtain ⟨hpne, hnne, _⟩ := C06_paths u s fuel t e h
  obtain ⟨p, q, hp0, hpe, heq, hqM, hqp, ht, hsg⟩ :=
    c06d_crossing_signs u hu s hp hn fuel hfuel t e h he hcap
  obtain ⟨n1, n2⟩ := c06d_thrVal_fpr_lip u hu s hn hnne p e hpe
  obtain ⟨n3, n4⟩ := c06d_thrVal_fpr_lip u hu s hn hnne e q heq
  obtain ⟨p1, p2⟩ := c06d_thrVal_fnr_lip u hu s hp hpne p e hpe
  obtain ⟨p3, p4⟩ := c06d_thrVal_fnr_lip u hu s hp hpne e q heq
  have hKn : 0 ≤ (s.nbAllNeg : ℚ) * c06d_maxGap s.neg :=
    mul_nonneg (by positivity) (c06d_maxGap_nonneg s.neg)
  have hKp : 0 ≤ (s.nbAllPos : ℚ) * c06d_maxGap s.pos :=
    mul_nonneg (by positivity) (c06d_maxGap_nonneg s.pos)
  have w1 : (s.nbAllNeg : ℚ) * c06d_maxGap s.neg * (e - p) ≤
      (s.nbAllNeg : ℚ) * c06d_maxGap s.neg * xtol := mul_le_mul_of_nonneg_left (by linarith) hKn
  have w2 : (s.nbAllNeg : ℚ) * c06d_maxGap s.neg * (q - e) ≤
      (s.nbAllNeg : ℚ) * c06d_maxGap s.neg * xtol := mul_le_mul_of_nonneg_left (by linarith) hKn
  have w3 : (s.nbAllPos : ℚ) * c06d_maxGap s.pos * (e - p) ≤
      (s.nbAllPos : ℚ) * c06d_maxGap s.pos * xtol := mul_le_mul_of_nonneg_left (by linarith) hKp
  have w4 : (s.nbAllPos : ℚ) * c06d_maxGap s.pos * (q - e) ≤
      (s.nbAllPos : ℚ) * c06d_maxGap s.pos * xtol := mul_le_mul_of_nonneg_left (by linarith) hKp
  rw [absQ_le]
  by_cases hsc : s.cfg.scoreClass = .pos
  · simp only [hsc, if_true] at hsg
    constructor <;> linarith [hsg.1, hsg.2]
  · simp only [hsc, if_false] at hsg
    constructor <;> linarith [hsg.1, hsg.2]

/-- **C06 (FNR side on the bisection path, explicit slack).** Lawful `nextafter` oracle, sorted
classes, tie-free positives, fuel ≥ 34.  Whenever `eer()` returns `(t, e)` through the bisection
(`e ≠ 0` and not the cap path `f(maxEer) < 0`), the FNR computed by the same object at `t` satisfies
`|FNR(t) − e| ≤ 1/N_pos + c06d_delta u s`, where
`c06d_delta u s = xtol + (N_neg·maxGap(neg)·xtol + J(neg)) / (N_pos·minGap(pos))`.
All configurations and easy counts; ties among the negatives or across classes are allowed. -/
theorem C06_fnr_side_bisect (u : Ulp) (hu : u.Lawful) (s : Scores)
    (hp : s.pos.Pairwise (· ≤ ·)) (hn : s.neg.Pairwise (· ≤ ·))
    (htf : C02.strictlySorted s.pos = true) (fuel : ℕ) (hfuel : 34 ≤ fuel)
    (t e : ℚ) (h : s.eer u fuel = .ok (t, e)) (he : e ≠ 0)
    (hcap : ¬ c06f_eerF u s (min s.hardPosRatio s.hardNegRatio) < 0) :
    fnrSideOK (c06d_delta u s) s e (s.cm (.fin t)) = true := by
  obtain ⟨hpne, hnne, _⟩ := C06_paths u s fuel t e h
  obtain ⟨p, q, hp0, hpe, heq, hqM, hqp, ht, hsg⟩ :=
    c06d_crossing_signs u hu s hp hn fuel hfuel t e h he hcap
  obtain ⟨n1, n2⟩ := c06d_thrVal_fpr_lip u hu s hn hnne p e hpe
  obtain ⟨n3, n4⟩ := c06d_thrVal_fpr_lip u hu s hn hnne e q heq
  have hKn : 0 ≤ (s.nbAllNeg : ℚ) * c06d_maxGap s.neg :=
    mul_nonneg (by positivity) (c06d_maxGap_nonneg s.neg)
  have w1 : (s.nbAllNeg : ℚ) * c06d_maxGap s.neg * (e - p) ≤
      (s.nbAllNeg : ℚ) * c06d_maxGap s.neg * xtol := mul_le_mul_of_nonneg_left (by linarith) hKn
  have w2 : (s.nbAllNeg : ℚ) * c06d_maxGap s.neg * (q - e) ≤
      (s.nbAllNeg : ℚ) * c06d_maxGap s.neg * xtol := mul_le_mul_of_nonneg_left (by linarith) hKn
  unfold c06d_delta
  apply C06_fnr_side_near u hu s hp hn hpne htf t e p q xtol (c06d_thrSlack u s) hp0 hpe heq
    (le_trans hqM (min_le_left _ _)) (le_of_lt hqp) (le_of_lt (c06d_thrSlack_pos u hu s))
  unfold c06d_thrSlack
  rw [← ht] at n1 n2 n3 n4
  cases hsc : s.cfg.scoreClass
  · simp only [hsc, if_true] at hsg
    simp only [evenFlips, Metric.increasing, hsc]
    simp only [beq_self_eq_true, if_true]
    constructor <;> linarith [hsg.1, hsg.2]
  · simp only [hsc, reduceCtorEq, if_false] at hsg
    simp only [evenFlips, Metric.increasing, hsc]
    have : ((true : Bool) == (Label.neg == Label.pos)) = false := by decide
    simp only [this, Bool.false_eq_true, if_false]
    constructor <;> linarith [hsg.1, hsg.2]

/-- tie-free in the sense of the spec (no value repeated within or across the classes) implies
strictly increasing positives -/
theorem c06d_pos_strict_of_tieFree (s : Scores) (hp : s.pos.Pairwise (· ≤ ·))
    (h : tieFree s = true) : s.pos.Pairwise (· < ·) := by
  have h1 : (sortQ (s.pos ++ s.neg)).Pairwise (· < ·) := pairwise_of_strictlySorted _ h
  have h2 : (sortQ (s.pos ++ s.neg)).Nodup := h1.imp (fun hab => ne_of_lt hab)
  have h3 : (s.pos ++ s.neg).Nodup := (sortQ_perm _).nodup_iff.mp h2
  have h4 : s.pos.Nodup := (List.nodup_append.mp h3).1
  exact (hp.and h4).imp (fun hab => lt_of_le_of_ne hab.1 hab.2)

theorem c06d_strictlySorted_of_pairwise : ∀ l : List ℚ, l.Pairwise (· < ·) →
    C02.strictlySorted l = true
  | [], _ => rfl
  | [_], _ => rfl
  | a :: b :: r, h => by
    simp only [C02.strictlySorted, Bool.and_eq_true, decide_eq_true_eq]
    exact ⟨(List.pairwise_cons.mp h).1 b (by simp),
      c06d_strictlySorted_of_pairwise (b :: r) (List.pairwise_cons.mp h).2⟩

/-- **C06 (FNR side on the bisection path), spec-level hypotheses**: `tieFree s` as evaluated by
`crossingOK`. -/
theorem C06_fnr_side_bisect_tieFree (u : Ulp) (hu : u.Lawful) (s : Scores)
    (hp : s.pos.Pairwise (· ≤ ·)) (hn : s.neg.Pairwise (· ≤ ·))
    (htf : tieFree s = true) (fuel : ℕ) (hfuel : 34 ≤ fuel)
    (t e : ℚ) (h : s.eer u fuel = .ok (t, e)) (he : e ≠ 0)
    (hcap : ¬ c06f_eerF u s (min s.hardPosRatio s.hardNegRatio) < 0) :
    fnrSideOK (c06d_delta u s) s e (s.cm (.fin t)) = true :=
  C06_fnr_side_bisect u hu s hp hn
    (c06d_strictlySorted_of_pairwise _ (c06d_pos_strict_of_tieFree s hp htf)) fuel hfuel t e h he hcap

/-! ### non-vacuity -/

/-- four positives, five negatives, interleaved, no value repeated, easy samples in both classes;
`score_class = pos`, `equal_class = neg` -/
def c06d_exA : Scores := ⟨[1, 3, 4, 6], [0, 2, 5, 7, 8], 1, 2, ⟨.pos, .neg⟩⟩

/-- same shape with `score_class = neg` (low scores are positive) -/
def c06d_exB : Scores := ⟨[0, 2, 5, 9], [1, 4, 6, 7, 10], 2, 0, ⟨.neg, .pos⟩⟩

/-- a toy `nextafter` with a step of `2^-40` -/
def c06d_fine : Ulp := ⟨fun x => x - 1 / 1099511627776, fun x => x + 1 / 1099511627776⟩

theorem c06d_fine_lawful : c06d_fine.Lawful :=
  ⟨fun x => by show x - 1 / 1099511627776 < x; linarith,
   fun x => by show x < x + 1 / 1099511627776; linarith⟩

/-- does `eer()` (fuel 40) return through the bisection? -/
def c06d_onBisection (u : Ulp) (s : Scores) : Bool :=
  match s.eer u 40 with
  | .ok (_, e) => decide (e ≠ 0) &&
      !decide (c06f_eerF u s (min s.hardPosRatio s.hardNegRatio) < 0)
  | .error _ => false

theorem c06d_onBisection_spec (u : Ulp) (s : Scores) (h : c06d_onBisection u s = true) :
    ∃ t e : ℚ, s.eer u 40 = .ok (t, e) ∧ e ≠ 0 ∧
      ¬ c06f_eerF u s (min s.hardPosRatio s.hardNegRatio) < 0 := by
  unfold c06d_onBisection at h
  split at h
  · rename_i t e heq
    simp only [Bool.and_eq_true, decide_eq_true_eq, Bool.not_eq_true', decide_eq_false_iff_not] at h
    exact ⟨t, e, heq, h.1, h.2⟩
  · exact absurd h (by decide)

set_option maxRecDepth 100000 in
theorem c06d_exA_onBisection : c06d_onBisection c06d_fine c06d_exA = true := by decide +kernel

set_option maxRecDepth 100000 in
theorem c06d_exB_onBisection : c06d_onBisection Ulp.half c06d_exB = true := by decide +kernel

theorem c06d_exA_sorted : c06d_exA.pos.Pairwise (· ≤ ·) ∧ c06d_exA.neg.Pairwise (· ≤ ·) := by
  constructor <;> simp only [c06d_exA] <;> norm_num

theorem c06d_exB_sorted : c06d_exB.pos.Pairwise (· ≤ ·) ∧ c06d_exB.neg.Pairwise (· ≤ ·) := by
  constructor <;> simp only [c06d_exB] <;> norm_num

theorem c06d_exA_tieFree : tieFree c06d_exA = true := by
  unfold tieFree
  have hs : sortQ (c06d_exA.pos ++ c06d_exA.neg) = [0, 1, 2, 3, 4, 5, 6, 7, 8] := by
    apply List.Perm.eq_of_pairwise' (r := (· ≤ ·)) (sortQ_pairwise _)
    · norm_num
    · refine (sortQ_perm _).trans ?_
      simp only [c06d_exA]
      decide
  rw [hs]
  decide +kernel

theorem c06d_exB_tieFree : tieFree c06d_exB = true := by
  unfold tieFree
  have hs : sortQ (c06d_exB.pos ++ c06d_exB.neg) = [0, 1, 2, 4, 5, 6, 7, 9, 10] := by
    apply List.Perm.eq_of_pairwise' (r := (· ≤ ·)) (sortQ_pairwise _)
    · norm_num
    · refine (sortQ_perm _).trans ?_
      simp only [c06d_exB]
      decide
  rw [hs]
  decide +kernel

/-- hypotheses of `c06d_crossing_signs`, `C06_thr_gap_at_eer`, `C06_fnr_side_bisect` and
`C06_fnr_side_bisect_tieFree` on `c06d_exA` (`score_class = pos`, easy samples, fine oracle):
the run goes through the bisection; and the conclusion of the main theorem for it -/
example : ∃ t e : ℚ, c06d_exA.eer c06d_fine 40 = .ok (t, e) ∧ e ≠ 0 ∧
    ¬ c06f_eerF c06d_fine c06d_exA (min c06d_exA.hardPosRatio c06d_exA.hardNegRatio) < 0 ∧
    c06d_fine.Lawful ∧ c06d_exA.pos.Pairwise (· ≤ ·) ∧ c06d_exA.neg.Pairwise (· ≤ ·) ∧
    tieFree c06d_exA = true ∧ C02.strictlySorted c06d_exA.pos = true ∧ 34 ≤ 40 ∧
    fnrSideOK (c06d_delta c06d_fine c06d_exA) c06d_exA e (c06d_exA.cm (.fin t)) = true := by
  obtain ⟨t, e, h, he, hcap⟩ := c06d_onBisection_spec _ _ c06d_exA_onBisection
  exact ⟨t, e, h, he, hcap, c06d_fine_lawful, c06d_exA_sorted.1, c06d_exA_sorted.2,
    c06d_exA_tieFree, by decide +kernel, by norm_num,
    C06_fnr_side_bisect_tieFree c06d_fine c06d_fine_lawful c06d_exA c06d_exA_sorted.1
      c06d_exA_sorted.2 c06d_exA_tieFree 40 (by norm_num) t e h he hcap⟩

/-- the same on `c06d_exB` (`score_class = neg`, half-step oracle) -/
example : ∃ t e : ℚ, c06d_exB.eer Ulp.half 40 = .ok (t, e) ∧ e ≠ 0 ∧
    ¬ c06f_eerF Ulp.half c06d_exB (min c06d_exB.hardPosRatio c06d_exB.hardNegRatio) < 0 ∧
    Ulp.half.Lawful ∧ c06d_exB.pos.Pairwise (· ≤ ·) ∧ c06d_exB.neg.Pairwise (· ≤ ·) ∧
    tieFree c06d_exB = true ∧ C02.strictlySorted c06d_exB.pos = true ∧ 34 ≤ 40 ∧
    fnrSideOK (c06d_delta Ulp.half c06d_exB) c06d_exB e (c06d_exB.cm (.fin t)) = true := by
  obtain ⟨t, e, h, he, hcap⟩ := c06d_onBisection_spec _ _ c06d_exB_onBisection
  exact ⟨t, e, h, he, hcap, Ulp.half_lawful, c06d_exB_sorted.1, c06d_exB_sorted.2,
    c06d_exB_tieFree, by decide +kernel, by norm_num,
    C06_fnr_side_bisect_tieFree Ulp.half Ulp.half_lawful c06d_exB c06d_exB_sorted.1
      c06d_exB_sorted.2 c06d_exB_tieFree 40 (by norm_num) t e h he hcap⟩

/-- the slack is of the order of the bisection tolerance when the `nextafter` step is small
against the gaps: for `c06d_exA` with the `2^-40` oracle, `δ = 13/25·10^-9 + 2^-39/5 < 10^-9` -/
example : c06d_delta c06d_fine c06d_exA < 1 / 1000000000 := by decide +kernel

/-- and it is what the counterexample of `C06_fnr_side_statement_false` needs: with the
half-step oracle the sentinel steps dominate -/
example : c06d_delta Ulp.half c06f_cex = 2000000003 / 6000000000 := by decide +kernel

/-- hypotheses of `C06_fnr_side_near` (`p = e = q = 1/4`, `w = 0`, `D = 1/8`, `t` half a slack
above `thr_fnr(1/4)`) -/
example : fnrSideOK (0 + (1 / 8) / ((c06d_exA.nbAllPos : ℚ) * c06d_minGap c06d_exA.pos)) c06d_exA
    (1 / 4) (c06d_exA.cm (.fin (thrVal c06d_fine c06d_exA .fnr (1 / 4) + 1 / 16))) = true := by
  apply C06_fnr_side_near c06d_fine c06d_fine_lawful c06d_exA c06d_exA_sorted.1 c06d_exA_sorted.2
    (by decide) (by decide +kernel) _ (1 / 4) (1 / 4) (1 / 4) 0 (1 / 8)
  · norm_num
  · norm_num
  · norm_num
  · simp [Scores.hardPosRatio, c06d_exA]; norm_num
  · norm_num
  · norm_num
  · split <;> constructor <;> linarith

/-- hypotheses of `c06d_pos_strict_of_tieFree` / `c06d_strictlySorted_of_pairwise` -/
example : C02.strictlySorted c06d_exA.pos = true :=
  c06d_strictlySorted_of_pairwise _
    (c06d_pos_strict_of_tieFree c06d_exA c06d_exA_sorted.1 c06d_exA_tieFree)

/-- hypotheses of `c06d_eer_noshortcut`, `c06d_thrVal_zero`, `c06d_clip_fnr` -/
example : ∃ t e : ℚ, c06d_exA.eer c06d_fine 40 = .ok (t, e) ∧ e ≠ 0 ∧
    (c06d_exA.metricArray .fpr).length ≠ 0 ∧ c06d_exA.pos.length ≠ 0 ∧
    (0 : ℚ) ≤ 1 / 4 ∧ (1 / 4 : ℚ) ≤ c06d_exA.hardPosRatio := by
  obtain ⟨t, e, h, he, _⟩ := c06d_onBisection_spec _ _ c06d_exA_onBisection
  refine ⟨t, e, h, he, by decide, by decide, by norm_num, ?_⟩
  simp [Scores.hardPosRatio, c06d_exA]; norm_num

end SA
