/-
C06 — the bisection path of `Scores.eer()`.

* `_find_root`: the bracket invariant `f xa ≤ 0 ≤ f xe` is preserved, each step halves the
  bracket, and with fuel ≥ 34 on an interval of length ≤ 1 the loop exits by the tolerance test:
  the returned point is the midpoint of a bracket of width `< xtol = 1e-10` across which `f`
  changes sign (`c06f_findRoot_width`, `c06f_findRoot_tol`).
* On the bisection path the function `f` of `eer()` is monotone, and the returned `e` lies in a
  sign-change bracket of width `< xtol` (`C06_bisect_crossing`).
* FNR side: if the returned threshold is sandwiched between the FNR-thresholds at two targets
  within `δ` of `e`, then `|FNR(t) − e| ≤ 1/N_pos + δ` (`C06_fnr_side_sandwich`).
* The statement `C06_fnr_side_statement` (slack 0) is FALSE in the exact model: a tie-free
  counterexample is checked by the kernel (`C06_fnr_side_statement_false`); the excess is
  `1/(3·2^35) ≈ 1e-11`, i.e. below the bisection tolerance, as the analysis predicts.
* With an oracle that is only `Lawful` (samples may lie strictly between a score and its
  `nextafter` neighbour) the FNR side fails by whole samples (`C06_fnr_side_needs_tight_oracle`).
-/
import SA.Theorems.C06
import SA.Theorems.C15

namespace SA
open Spec Spec.C06

/-! ### the root finder -/

theorem c06f_absQ'_sub (xa xe : ℚ) (h : xa ≤ xe) : absQ' (xa - xe) = xe - xa := by
  unfold absQ'
  by_cases h' : xa - xe < 0
  · rw [if_pos h']; ring
  · rw [if_neg h']
    have : xa = xe := by linarith
    rw [this]

theorem c06f_xtol_pos : (0 : ℚ) < xtol := by unfold xtol; norm_num

/-- `res` is the midpoint of a sign-change bracket `[a, b] ⊆ [xa, xe]` obtained by `k ≤ fuel`
halvings, and either the tolerance test fired or the fuel ran out. -/
def c06f_Bracket (f : ℚ → ℚ) (xa xe : ℚ) (fuel : ℕ) (res : ℚ) : Prop :=
  ∃ (a b : ℚ) (k : ℕ), k ≤ fuel ∧ xa ≤ a ∧ a ≤ b ∧ b ≤ xe ∧ f a ≤ 0 ∧ 0 ≤ f b ∧
    b - a = (xe - xa) / 2 ^ k ∧ (b - a < xtol ∨ k = fuel) ∧ res = (a + b) / 2

theorem c06f_bracket_right (f : ℚ → ℚ) (xa xe : ℚ) (n : ℕ) (res : ℚ) (h : xa ≤ xe)
    (hb : c06f_Bracket f ((xa + xe) / 2) xe n res) : c06f_Bracket f xa xe (n + 1) res := by
  obtain ⟨a, b, k, hk, h1, h2, h3, h4, h5, h6, h7, h8⟩ := hb
  refine ⟨a, b, k + 1, by omega, by linarith, h2, h3, h4, h5, ?_, ?_, h8⟩
  · rw [h6, pow_succ]; field_simp; ring
  · rcases h7 with h7 | h7
    · exact Or.inl h7
    · exact Or.inr (by omega)

theorem c06f_bracket_left (f : ℚ → ℚ) (xa xe : ℚ) (n : ℕ) (res : ℚ) (h : xa ≤ xe)
    (hb : c06f_Bracket f xa ((xa + xe) / 2) n res) : c06f_Bracket f xa xe (n + 1) res := by
  obtain ⟨a, b, k, hk, h1, h2, h3, h4, h5, h6, h7, h8⟩ := hb
  refine ⟨a, b, k + 1, by omega, h1, h2, by linarith, h4, h5, ?_, ?_, h8⟩
  · rw [h6, pow_succ]; field_simp; ring
  · rcases h7 with h7 | h7
    · exact Or.inl h7
    · exact Or.inr (by omega)

/-- **Bracket invariant and width halving of `_find_root`.** Started on `xa ≤ xe` with
`f xa ≤ 0 ≤ f xe`, the loop returns the midpoint of a bracket `[a, b] ⊆ [xa, xe]` with
`f a ≤ 0 ≤ f b` of width exactly `(xe - xa) / 2^k` after `k ≤ fuel` halvings; it stopped
because `b - a < xtol` or because the fuel ran out (`k = fuel`).  Any `f`, both `find_first`
settings. -/
theorem c06f_findRoot_width (f : ℚ → ℚ) (ff : Bool) :
    ∀ (fuel : ℕ) (xa xe : ℚ), xa ≤ xe → f xa ≤ 0 → 0 ≤ f xe →
      c06f_Bracket f xa xe fuel (findRootLoop f ff fuel xa xe) := by
  intro fuel
  induction fuel with
  | zero =>
    intro xa xe h ha he
    exact ⟨xa, xe, 0, le_refl _, le_refl _, h, le_refl _, ha, he, by simp, Or.inr rfl,
      by simp [findRootLoop]⟩
  | succ n ih =>
    intro xa xe h ha he
    simp only [findRootLoop]
    by_cases htol : absQ' (xa - xe) < xtol
    · rw [if_pos htol]
      rw [c06f_absQ'_sub xa xe h] at htol
      exact ⟨xa, xe, 0, Nat.zero_le _, le_refl _, h, le_refl _, ha, he, by simp, Or.inl htol, rfl⟩
    · rw [if_neg htol]
      have hm1 : xa ≤ (xa + xe) / 2 := by linarith
      have hm2 : (xa + xe) / 2 ≤ xe := by linarith
      by_cases h1 : f ((xa + xe) / 2) < 0
      · rw [if_pos h1]
        exact c06f_bracket_right f xa xe n _ h (ih _ _ hm2 (le_of_lt h1) he)
      · rw [if_neg h1]
        by_cases h2 : f ((xa + xe) / 2) > 0
        · rw [if_pos h2]
          exact c06f_bracket_left f xa xe n _ h (ih _ _ hm1 ha (le_of_lt h2))
        · rw [if_neg h2]
          cases ff
          · simp only [Bool.false_eq_true, if_false]
            exact c06f_bracket_right f xa xe n _ h (ih _ _ hm2 (not_lt.mp h2) he)
          · simp only [if_true]
            exact c06f_bracket_left f xa xe n _ h (ih _ _ hm1 ha (not_lt.mp h1))

/-- **Termination by tolerance.** On an interval of length ≤ 1 (the EER interval `[0, maxEer]`)
34 halvings suffice (`2^-34 < 1e-10`): with fuel ≥ 34 the returned point is the midpoint of a
sign-change bracket of width `< xtol`, hence within `xtol/2` of both a point with `f ≤ 0` and a
point with `f ≥ 0`. -/
theorem c06f_findRoot_tol (f : ℚ → ℚ) (ff : Bool) (fuel : ℕ) (xa xe : ℚ) (h : xa ≤ xe)
    (ha : f xa ≤ 0) (he : 0 ≤ f xe) (hw : xe - xa ≤ 1) (hfuel : 34 ≤ fuel) :
    ∃ a b : ℚ, xa ≤ a ∧ a ≤ b ∧ b ≤ xe ∧ f a ≤ 0 ∧ 0 ≤ f b ∧ b - a < xtol ∧
      findRootLoop f ff fuel xa xe = (a + b) / 2 := by
  obtain ⟨a, b, k, hk, h1, h2, h3, h4, h5, h6, h7, h8⟩ := c06f_findRoot_width f ff fuel xa xe h ha he
  refine ⟨a, b, h1, h2, h3, h4, h5, ?_, h8⟩
  rcases h7 with h7 | h7
  · exact h7
  · rw [h6, h7]
    have hp : (0 : ℚ) < 2 ^ fuel := by positivity
    rw [div_lt_iff₀ hp]
    have h34 : (2 : ℚ) ^ 34 ≤ 2 ^ fuel := pow_le_pow_right₀ (by norm_num) hfuel
    have hx : (1 : ℚ) < xtol * 2 ^ 34 := by unfold xtol; norm_num
    have hxt := c06f_xtol_pos
    nlinarith

theorem c06f_findRoot_ok' (f : ℚ → ℚ) (xa xe : ℚ) (ff : Bool) (fuel : ℕ) (r : ℚ)
    (h : findRoot f xa xe ff fuel = .ok r) :
    (f xa ≤ 0 ∧ 0 ≤ f xe) ∧ r = findRootLoop f ff fuel xa xe := by
  unfold findRoot at h
  split at h
  · rename_i hc; exact ⟨hc, (Except.ok.inj h).symm⟩
  · cases h

/-! ### the function bisected by `eer()` -/

/-- the function `f` of `Scores.eer` (scores.py: `sign * (thr_fpr(x) - thr_fnr(x))`) -/
def c06f_eerF (u : Ulp) (s : Scores) (x : ℚ) : ℚ :=
  -(thrVal u s .fpr 0 - thrVal u s .fnr 0) * (thrVal u s .fpr x - thrVal u s .fnr x)

theorem c06f_thrVal_mono (u : Ulp) (hu : u.Lawful) (s : Scores)
    (hp : s.pos.Pairwise (· ≤ ·)) (hn : s.neg.Pairwise (· ≤ ·)) (metric : Metric)
    (hne : (s.metricArray metric).length ≠ 0) (r1 r2 : ℚ) (h : r1 ≤ r2) :
    if C02.thresholdIncreasing s.cfg metric then thrVal u s metric r1 ≤ thrVal u s metric r2
    else thrVal u s metric r2 ≤ thrVal u s metric r1 :=
  C02_monotone u hu s hp hn metric .linear r1 r2 _ _ h (thrVal_ok u s metric r1 hne)
    (thrVal_ok u s metric r2 hne)

/-- `thr_fpr − thr_fnr` is antitone in the target for `score_class = pos`, monotone otherwise -/
theorem c06f_diff_mono (u : Ulp) (hu : u.Lawful) (s : Scores)
    (hp : s.pos.Pairwise (· ≤ ·)) (hn : s.neg.Pairwise (· ≤ ·))
    (hpne : s.pos.length ≠ 0) (hnne : s.neg.length ≠ 0) (x y : ℚ) (h : x ≤ y) :
    if s.cfg.scoreClass = .pos then
      thrVal u s .fpr y - thrVal u s .fnr y ≤ thrVal u s .fpr x - thrVal u s .fnr x
    else thrVal u s .fpr x - thrVal u s .fnr x ≤ thrVal u s .fpr y - thrVal u s .fnr y := by
  have a := c06f_thrVal_mono u hu s hp hn .fpr hnne x y h
  have b := c06f_thrVal_mono u hu s hp hn .fnr hpne x y h
  cases hsc : s.cfg.scoreClass <;>
    simp only [C02.thresholdIncreasing, Metric.increasing, hsc] at a b <;>
    simp at a b ⊢ <;> linarith

/-- **`f` is monotone whenever the bisection is entered** (`¬ f(maxEer) < 0`). -/
theorem c06f_eerF_mono (u : Ulp) (hu : u.Lawful) (s : Scores)
    (hp : s.pos.Pairwise (· ≤ ·)) (hn : s.neg.Pairwise (· ≤ ·))
    (hpne : s.pos.length ≠ 0) (hnne : s.neg.length ≠ 0) (M : ℚ) (hM : 0 ≤ M)
    (hfM : ¬ c06f_eerF u s M < 0) (x y : ℚ) (hxy : x ≤ y) :
    c06f_eerF u s x ≤ c06f_eerF u s y := by
  have d0M := c06f_diff_mono u hu s hp hn hpne hnne 0 M hM
  have dxy := c06f_diff_mono u hu s hp hn hpne hnne x y hxy
  unfold c06f_eerF at hfM ⊢
  rw [not_lt] at hfM
  generalize thrVal u s .fpr 0 - thrVal u s .fnr 0 = d0 at *
  generalize thrVal u s .fpr M - thrVal u s .fnr M = dM at *
  generalize thrVal u s .fpr x - thrVal u s .fnr x = dx at *
  generalize thrVal u s .fpr y - thrVal u s .fnr y = dy at *
  by_cases hsc : s.cfg.scoreClass = .pos
  · simp only [hsc, if_true] at d0M dxy
    have hd0 : 0 ≤ d0 := by
      by_contra hcon
      rw [not_le] at hcon
      have : 0 < d0 * dM := mul_pos_of_neg_of_neg hcon (by linarith)
      linarith
    nlinarith [mul_nonneg hd0 (sub_nonneg.mpr dxy)]
  · simp only [hsc, if_false] at d0M dxy
    have hd0 : d0 ≤ 0 := by
      by_contra hcon
      rw [not_le] at hcon
      have : 0 < d0 * dM := mul_pos hcon (by linarith)
      linarith
    nlinarith [mul_nonneg (neg_nonneg.mpr hd0) (sub_nonneg.mpr dxy)]

/-! ### the form of the result on the bisection path -/

/-- Every successful `eer()` call either reports 0 (shortcuts), or took a cap path
(`f(maxEer) < 0`), or is the bisection: `e` is the mean of the two roots found on
`[0, maxEer]` and `t = thr_fpr(e)`. -/
theorem c06f_eer_form (u : Ulp) (s : Scores) (fuel : ℕ) (t e : ℚ)
    (h : s.eer u fuel = .ok (t, e)) :
    e = 0 ∨ c06f_eerF u s (min s.hardPosRatio s.hardNegRatio) < 0 ∨
    (c06f_eerF u s 0 ≤ 0 ∧ 0 ≤ c06f_eerF u s (min s.hardPosRatio s.hardNegRatio) ∧
      e = (findRootLoop (c06f_eerF u s) true fuel 0 (min s.hardPosRatio s.hardNegRatio) +
           findRootLoop (c06f_eerF u s) false fuel 0 (min s.hardPosRatio s.hardNegRatio)) / 2 ∧
      t = thrVal u s .fpr e) := by
  unfold Scores.eer at h
  by_cases hne : s.pos.length = 0 ∨ s.neg.length = 0
  · rw [if_pos hne] at h; cases h
  rw [if_neg hne] at h
  dsimp only at h
  split_ifs at h with hc1 hc2 hf hcl hlt
  · left
    have this := Except.ok.inj h
    simpa using (congrArg Prod.snd this).symm
  · left
    have this := Except.ok.inj h
    simpa using (congrArg Prod.snd this).symm
  · exact Or.inr (Or.inl hf)
  · exact Or.inr (Or.inl hf)
  · exact Or.inr (Or.inl hf)
  · right; right
    split at h
    · rename_i left right hl hr
      obtain ⟨⟨c0, cM⟩, hl'⟩ := c06f_findRoot_ok' (c06f_eerF u s) 0 _ true fuel left hl
      obtain ⟨_, hr'⟩ := c06f_findRoot_ok' (c06f_eerF u s) 0 _ false fuel right hr
      have this := Except.ok.inj h
      have he : e = (left + right) / 2 := by simpa using (congrArg Prod.snd this).symm
      have ht := (congrArg Prod.fst this).symm
      simp only at ht
      refine ⟨c0, cM, ?_, ?_⟩
      · rw [he, hl', hr']
      · rw [he]; exact ht
    · cases h
    · cases h

/-- combining two sign-change brackets around the two roots, for a monotone `F` -/
theorem c06f_between (F : ℚ → ℚ) (hmono : ∀ x y, 0 ≤ x → x ≤ y → F x ≤ F y) (M : ℚ)
    (aX bX aY bY e : ℚ) (x0 : 0 ≤ aX) (x1 : aX ≤ bX) (x3 : 0 ≤ F bX)
    (x4 : bX - aX < xtol) (x5 : bX ≤ M) (y1 : aY ≤ bY) (y2 : bY ≤ M) (y3 : F aY ≤ 0)
    (y4 : bY - aY < xtol) (y0 : 0 ≤ aY) (hXe : (aX + bX) / 2 ≤ e) (heY : e ≤ (aY + bY) / 2) :
    ∃ p q : ℚ, 0 ≤ p ∧ p ≤ e ∧ e ≤ q ∧ q ≤ M ∧ q - p < xtol ∧ F p ≤ 0 ∧ 0 ≤ F q := by
  have hxt := c06f_xtol_pos
  have he0 : 0 ≤ e := by linarith
  have heM : e ≤ M := by linarith
  by_cases c1 : aY ≤ e
  · by_cases c2 : e ≤ bX
    · exact ⟨aY, bX, y0, c1, c2, x5, by linarith, y3, x3⟩
    · rw [not_le] at c2
      exact ⟨aY, e, y0, c1, le_refl _, heM, by linarith, y3,
        le_trans x3 (hmono bX e (by linarith) (le_of_lt c2))⟩
  · rw [not_le] at c1
    have hFe : F e ≤ 0 := le_trans (hmono e aY he0 (le_of_lt c1)) y3
    by_cases c2 : e ≤ bX
    · exact ⟨e, bX, he0, le_refl _, c2, x5, by linarith, hFe, x3⟩
    · rw [not_le] at c2
      exact ⟨e, e, he0, le_refl _, le_refl _, heM, by linarith, hFe,
        le_trans x3 (hmono bX e (by linarith) (le_of_lt c2))⟩

/-- **C06 (bisection path: the returned EER is a crossing to within the tolerance).**
With fuel ≥ 34 (the model default is 40, the driver uses 64), whenever `eer()` returns through
the bisection (`e ≠ 0` and `f(maxEer) ≥ 0`), the reported `e` lies in an interval `[p, q]`
of width `< xtol = 1e-10` inside `[0, maxEer]` with `f p ≤ 0 ≤ f q`, where
`f = sign · (thr_fpr − thr_fnr)` is the function bisected by the code, and `t = thr_fpr(e)`.
Ties allowed, all configurations and easy counts. -/
theorem C06_bisect_crossing (u : Ulp) (hu : u.Lawful) (s : Scores)
    (hp : s.pos.Pairwise (· ≤ ·)) (hn : s.neg.Pairwise (· ≤ ·)) (fuel : ℕ) (hfuel : 34 ≤ fuel)
    (t e : ℚ) (h : s.eer u fuel = .ok (t, e)) (he : e ≠ 0)
    (hcap : ¬ c06f_eerF u s (min s.hardPosRatio s.hardNegRatio) < 0) :
    ∃ p q : ℚ, 0 ≤ p ∧ p ≤ e ∧ e ≤ q ∧ q ≤ min s.hardPosRatio s.hardNegRatio ∧ q - p < xtol ∧
      c06f_eerF u s p ≤ 0 ∧ 0 ≤ c06f_eerF u s q ∧ t = thrVal u s .fpr e := by
  obtain ⟨hpne, hnne, _⟩ := C06_paths u s fuel t e h
  have hpr := hardPosRatio_pos s hpne
  have hnr := hardNegRatio_pos s hnne
  have hM0 : 0 < min s.hardPosRatio s.hardNegRatio := lt_min hpr.1 hnr.1
  have hM1 : min s.hardPosRatio s.hardNegRatio ≤ 1 := le_trans (min_le_left _ _) hpr.2
  rcases c06f_eer_form u s fuel t e h with h0 | hc | ⟨c0, cM, heq, ht⟩
  · exact absurd h0 he
  · exact absurd hc hcap
  · have hmono : ∀ x y : ℚ, 0 ≤ x → x ≤ y → c06f_eerF u s x ≤ c06f_eerF u s y :=
      fun x y _ hxy => c06f_eerF_mono u hu s hp hn hpne hnne _ (le_of_lt hM0) hcap x y hxy
    obtain ⟨a1, b1, l1, l2, l3, l4, l5, l6, l7⟩ := c06f_findRoot_tol (c06f_eerF u s) true fuel 0 _
      (le_of_lt hM0) c0 cM (by linarith) hfuel
    obtain ⟨a2, b2, r1, r2, r3, r4, r5, r6, r7⟩ := c06f_findRoot_tol (c06f_eerF u s) false fuel 0 _
      (le_of_lt hM0) c0 cM (by linarith) hfuel
    rw [l7, r7] at heq
    rcases le_total ((a1 + b1) / 2) ((a2 + b2) / 2) with hle | hle
    · obtain ⟨p, q, g⟩ := c06f_between (c06f_eerF u s) hmono _ a1 b1 a2 b2 e l1 l2 l5 l6 l3
        r2 r3 r4 r6 r1 (by rw [heq]; linarith) (by rw [heq]; linarith)
      exact ⟨p, q, g.1, g.2.1, g.2.2.1, g.2.2.2.1, g.2.2.2.2.1, g.2.2.2.2.2.1, g.2.2.2.2.2.2, ht⟩
    · obtain ⟨p, q, g⟩ := c06f_between (c06f_eerF u s) hmono _ a2 b2 a1 b1 e r1 r2 r5 r6 r3
        l2 l3 l4 l6 l1 (by rw [heq]; linarith) (by rw [heq]; linarith)
      exact ⟨p, q, g.1, g.2.1, g.2.2.1, g.2.2.2.1, g.2.2.2.2.1, g.2.2.2.2.2.1, g.2.2.2.2.2.2, ht⟩

/-! ### the FNR side, given a sandwich -/

theorem c06f_fnrSide_unfold (s : Scores) (eps e : ℚ) (m : CM) :
    fnrSideOK eps s e m = true ↔
      -(1 / (denom s .fnr : ℚ) + eps) ≤ rateQ s .fnr m - e ∧
        rateQ s .fnr m - e ≤ 1 / (denom s .fnr : ℚ) + eps := by
  unfold fnrSideOK
  rw [decide_eq_true_eq, absQ_le]

/-- **C06 (FNR side, sandwich form).** Tie-free positives: if the threshold `t` lies between the
FNR-thresholds of two targets `e1, e2 ∈ [0, hard_pos_ratio]` with `e − δ ≤ e1` and `e2 ≤ e + δ`
(in the direction in which FNR grows with the threshold), then `|FNR(t) − e| ≤ 1/N_pos + δ`.
With `e1 = e2 = e`, `δ = 0` this is `C06_fnr_side_at_fnr`; on the bisection path the crossing
bracket of `C06_bisect_crossing` supplies such targets up to the Lipschitz constants of the two
threshold maps (not formalised), and `C06_fnr_side_statement_false` shows that `δ = 0` is not
achievable. -/
theorem C06_fnr_side_sandwich (u : Ulp) (hu : u.Lawful) (s : Scores)
    (hp : s.pos.Pairwise (· ≤ ·)) (hn : s.neg.Pairwise (· ≤ ·)) (hpne : s.pos.length ≠ 0)
    (htf : C02.strictlySorted s.pos = true) (t e e1 e2 δ : ℚ)
    (h01 : 0 ≤ e1) (h11 : e1 ≤ s.hardPosRatio) (h02 : 0 ≤ e2) (h12 : e2 ≤ s.hardPosRatio)
    (hd1 : e - δ ≤ e1) (hd2 : e2 ≤ e + δ)
    (hs : if evenFlips s.cfg Metric.fnr.increasing
      then thrVal u s .fnr e1 ≤ t ∧ t ≤ thrVal u s .fnr e2
      else thrVal u s .fnr e2 ≤ t ∧ t ≤ thrVal u s .fnr e1) :
    fnrSideOK δ s e (s.cm (.fin t)) = true := by
  have s1 := C06_fnr_side_at_fnr u hu s hp hn hpne _ e1 h01 h11 rfl htf
  have s2 := C06_fnr_side_at_fnr u hu s hp hn hpne _ e2 h02 h12 rfl htf
  rw [c06f_fnrSide_unfold] at s1 s2 ⊢
  have hd : (0 : ℚ) < (denom s .fnr : ℚ) := denom_pos s .fnr hpne
  have m1 : ((s.cm (.fin (thrVal u s .fnr e1))).rateNum .fnr) ≤ (s.cm (.fin t)).rateNum .fnr := by
    apply rateNum_le_of s hp hn .fnr
    by_cases hev : evenFlips s.cfg Metric.fnr.increasing = true
    · simp only [hev, if_true] at hs ⊢; exact hs.1
    · simp only [hev, if_false, Bool.false_eq_true] at hs ⊢; exact hs.2
  have m2 : (s.cm (.fin t)).rateNum .fnr ≤ ((s.cm (.fin (thrVal u s .fnr e2))).rateNum .fnr) := by
    apply rateNum_le_of s hp hn .fnr
    by_cases hev : evenFlips s.cfg Metric.fnr.increasing = true
    · simp only [hev, if_true] at hs ⊢; exact hs.2
    · simp only [hev, if_false, Bool.false_eq_true] at hs ⊢; exact hs.1
  have q1 : rateQ s .fnr (s.cm (.fin (thrVal u s .fnr e1))) ≤ rateQ s .fnr (s.cm (.fin t)) := by
    unfold rateQ
    exact div_le_div_of_nonneg_right (by exact_mod_cast m1) (le_of_lt hd)
  have q2 : rateQ s .fnr (s.cm (.fin t)) ≤ rateQ s .fnr (s.cm (.fin (thrVal u s .fnr e2))) := by
    unfold rateQ
    exact div_le_div_of_nonneg_right (by exact_mod_cast m2) (le_of_lt hd)
  constructor <;> linarith [s1.1, s1.2, s2.1, s2.2]

/-! ### the slack-free FNR-side statement is false -/

/-- counterexample data: three positives, four negatives, no ties, `score_class = pos`.  The
exact crossing is at `e* = 2/3` with `thr_fpr(2/3) = thr_fnr(2/3) = 1 = pos[2]`; the bisection
returns the dyadic `e = 2/3 − 1/(3·2^35) < e*`, so `t = thr_fpr(e)` is just above `pos[2]`,
all three positives are rejected and `FNR(t) − e = 1/3 + 1/(3·2^35) > 1/N_pos`. -/
def c06f_cex : Scores := ⟨[-2, -1, 1], [0, 3, 4, 5], 0, 0, ⟨.pos, .pos⟩⟩

/-- executable check of the counterexample (the matrix by counting, which is the object's
matrix on sorted arrays) -/
def c06f_cexCheck : Bool :=
  match c06f_cex.eer Ulp.half 40 with
  | .ok (t, e) =>
    !(fnrSideOK 0 c06f_cex e
      (countCM c06f_cex.pos c06f_cex.neg c06f_cex.easyPos c06f_cex.easyNeg c06f_cex.cfg (.fin t)))
  | .error _ => false

set_option maxRecDepth 100000 in
theorem c06f_cexCheck_true : c06f_cexCheck = true := by decide +kernel

theorem c06f_cex_sorted :
    c06f_cex.pos.Pairwise (· ≤ ·) ∧ c06f_cex.neg.Pairwise (· ≤ ·) := by
  constructor <;> simp only [c06f_cex] <;> norm_num

theorem c06f_cex_tieFree : tieFree c06f_cex = true := by
  unfold tieFree
  have hs : sortQ (c06f_cex.pos ++ c06f_cex.neg) = [-2, -1, 0, 1, 3, 4, 5] := by
    apply List.Perm.eq_of_pairwise' (r := (· ≤ ·)) (sortQ_pairwise _)
    · norm_num
    · refine (sortQ_perm _).trans ?_
      simp only [c06f_cex]
      decide
  rw [hs]
  decide +kernel

/-- **`C06_fnr_side_statement` is false** (exact model, slack 0): for the tie-free object
`c06f_cex`, the lawful half-step oracle and fuel 40, `eer()` returns `(t, e)` on the bisection
path with `|FNR(t) − e| > 1/N_pos` (by `1/(3·2^35)`).  The claim needs a slack of the order of
the bisection tolerance, cf. `C06_fnr_side_sandwich`. -/
theorem C06_fnr_side_statement_false : ¬ C06_fnr_side_statement := by
  intro hst
  have hc := c06f_cexCheck_true
  unfold c06f_cexCheck at hc
  split at hc
  · rename_i t e heq
    have := hst Ulp.half c06f_cex 40 t e Ulp.half_lawful c06f_cex_sorted.1 c06f_cex_sorted.2
      (le_refl _) heq c06f_cex_tieFree
    rw [cm_eq_countCM_of_sorted c06f_cex c06f_cex_sorted.1 c06f_cex_sorted.2] at this
    rw [this] at hc
    exact absurd hc (by decide)
  · exact absurd hc (by decide)

/-! ### a lawful but coarse `nextafter` oracle breaks the FNR side by whole samples -/

/-- eight positives strictly between `down(neg[0]) = -1/2` and `neg[0] = 0` (impossible for the
float64 `nextafter`, possible for an oracle that is only `Lawful`): the crossing sits on the
jump of `thr_fpr` at its lower sentinel, `e ≈ 3/4`, `t ≈ 0+`, `FNR(t) = 1`. -/
def c06f_cex2 : Scores :=
  ⟨[-9/20, -8/20, -7/20, -6/20, -5/20, -4/20, -3/20, -2/20], [0, 1, 2, 3], 0, 0, ⟨.pos, .pos⟩⟩

def c06f_cex2Check : Bool :=
  match c06f_cex2.eer Ulp.half 40 with
  | .ok (t, e) =>
    !(fnrSideOK (1 / 10) c06f_cex2 e
      (countCM c06f_cex2.pos c06f_cex2.neg c06f_cex2.easyPos c06f_cex2.easyNeg c06f_cex2.cfg
        (.fin t)))
  | .error _ => false

set_option maxRecDepth 100000 in
theorem c06f_cex2Check_true : c06f_cex2Check = true := by decide +kernel

theorem c06f_cex2_sorted :
    c06f_cex2.pos.Pairwise (· ≤ ·) ∧ c06f_cex2.neg.Pairwise (· ≤ ·) := by
  constructor <;> simp only [c06f_cex2] <;> norm_num

theorem c06f_cex2_tieFree : tieFree c06f_cex2 = true := by
  unfold tieFree
  have hs : sortQ (c06f_cex2.pos ++ c06f_cex2.neg) = c06f_cex2.pos ++ c06f_cex2.neg := by
    apply List.Perm.eq_of_pairwise' (r := (· ≤ ·)) (sortQ_pairwise _) _ (sortQ_perm _)
    simp only [c06f_cex2]
    norm_num
  rw [hs]
  decide +kernel

/-- **The FNR side needs a tight oracle.** With an oracle that is merely `Lawful` the FNR at the
returned threshold can be off by whole samples, not just by the bisection tolerance: here
`|FNR(t) − e| > 1/N_pos + 1/10` on tie-free data (`N_pos = 8`, `FNR(t) − e ≈ 1/4`).  Any
corrected FNR-side theorem must assume that no sample lies strictly between a score and its
`nextafter` neighbour (true for float64). -/
theorem C06_fnr_side_needs_tight_oracle :
    ∃ (u : Ulp) (s : Scores) (t e : ℚ), u.Lawful ∧ s.pos.Pairwise (· ≤ ·) ∧
      s.neg.Pairwise (· ≤ ·) ∧ tieFree s = true ∧ s.eer u 40 = .ok (t, e) ∧
      fnrSideOK (1 / 10) s e (s.cm (.fin t)) = false := by
  have hc := c06f_cex2Check_true
  unfold c06f_cex2Check at hc
  split at hc
  · rename_i t e heq
    refine ⟨Ulp.half, c06f_cex2, t, e, Ulp.half_lawful, c06f_cex2_sorted.1, c06f_cex2_sorted.2,
      c06f_cex2_tieFree, heq, ?_⟩
    rw [cm_eq_countCM_of_sorted c06f_cex2 c06f_cex2_sorted.1 c06f_cex2_sorted.2]
    simpa using hc
  · exact absurd hc (by decide)

/-! ### non-vacuity -/

/-- hypotheses of `c06f_findRoot_tol` -/
example : (0 : ℚ) ≤ 1 ∧ (fun x : ℚ => x - 1 / 3) 0 ≤ 0 ∧ 0 ≤ (fun x : ℚ => x - 1 / 3) 1 ∧
    (1 : ℚ) - 0 ≤ 1 ∧ 34 ≤ 40 := by norm_num

/-- hypotheses of `C06_bisect_crossing`: `c06f_cex` returns through the bisection -/
def c06f_cexOnBisection : Bool :=
  match c06f_cex.eer Ulp.half 40 with
  | .ok (_, e) => decide (e ≠ 0) &&
      !decide (c06f_eerF Ulp.half c06f_cex (min c06f_cex.hardPosRatio c06f_cex.hardNegRatio) < 0)
  | .error _ => false

set_option maxRecDepth 100000 in
example : c06f_cexOnBisection = true := by decide +kernel

/-- hypotheses of `C06_fnr_side_sandwich` (with `e1 = e2 = e`, `δ = 0`) -/
example : fnrSideOK 0 c06f_cex (1 / 3)
    (c06f_cex.cm (.fin (thrVal Ulp.half c06f_cex .fnr (1 / 3)))) = true := by
  apply C06_fnr_side_sandwich Ulp.half Ulp.half_lawful c06f_cex c06f_cex_sorted.1
    c06f_cex_sorted.2 (by decide) (by decide +kernel) _ (1 / 3) (1 / 3) (1 / 3) 0
  · norm_num
  · simp [Scores.hardPosRatio, c06f_cex]; norm_num
  · norm_num
  · simp [Scores.hardPosRatio, c06f_cex]; norm_num
  · norm_num
  · norm_num
  · split <;> exact ⟨le_refl _, le_refl _⟩

end SA
