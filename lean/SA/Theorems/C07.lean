/-
C07 — AUC.  Property theorems; helper lemmas are in SA/Proofs/Auc.lean.

Part A: the reference semantics (`stepArea`, `mannWhitney`) have the properties the rule
states (additivity over adjacent windows, bound by the window length, full step area =
Mann–Whitney statistic without cross-class ties, range, independence of `equal_class`,
invariance under `swap`).
-/
import SA.Proofs.Auc
import SA.Spec.C07
import SA.Proofs.AucWindow
import SA.Proofs.AucPartial
import SA.Proofs.AucAxes
import SA.Theorems.C03

namespace SA

/-! ## A. Reference semantics -/

/-- **A1.** The overlap of an interval with adjacent windows is additive. -/
theorem C07_overlap_additive (a b lo mid hi : ℚ) (hab : a ≤ b) (h1 : lo ≤ mid) (h2 : mid ≤ hi) :
    overlap a b lo mid + overlap a b mid hi = overlap a b lo hi :=
  overlap_split_window a b lo mid hi hab h1 h2

/-- **A1.** The step area is additive over adjacent windows: whenever the area over
`[lo, hi]` is defined (both classes non-empty) so are the two parts, and they add up. -/
theorem C07_step_additive (s : Scores) (lo mid hi : ℚ) (h1 : lo ≤ mid) (h2 : mid ≤ hi) :
    (stepArea s lo hi = none ∧ stepArea s lo mid = none ∧ stepArea s mid hi = none) ∨
    ∃ a b, stepArea s lo mid = some a ∧ stepArea s mid hi = some b ∧
      stepArea s lo hi = some (a + b) := by
  unfold stepArea
  by_cases h : s.pos.length + s.easyPos = 0 ∨ s.neg.length + s.easyNeg = 0
  · left; simp only [h, if_true, and_self]
  · right
    simp only [h, if_false]
    refine ⟨_, _, rfl, rfl, ?_⟩
    have hN : (0 : ℚ) < ((s.neg.length + s.easyNeg : ℕ) : ℚ) := by
      exact_mod_cast (by omega : 0 < s.neg.length + s.easyNeg)
    have hle : (s.neg.length : ℚ) / ((s.neg.length + s.easyNeg : ℕ) : ℚ) ≤ 1 := by
      rw [div_le_one hN]; push_cast; linarith [(Nat.cast_nonneg s.easyNeg : (0 : ℚ) ≤ _)]
    rw [← stepAreaAux_additive s lo mid hi h1 h2, ← overlap_split_window _ _ lo mid hi hle h1 h2]
    congr 1; ring

/-- **A2.** Over a window inside `[0, 1]` the step area lies between 0 and the window length. -/
theorem C07_step_le (s : Scores) (lo hi : ℚ) (h0 : 0 ≤ lo) (h : lo ≤ hi) (h1 : hi ≤ 1) (a : ℚ)
    (ha : stepArea s lo hi = some a) : 0 ≤ a ∧ a ≤ hi - lo := by
  unfold stepArea at ha
  by_cases hc : s.pos.length + s.easyPos = 0 ∨ s.neg.length + s.easyNeg = 0
  · simp only [hc, if_true] at ha; cases ha
  · simp only [hc, if_false, Option.some.injEq] at ha
    subst ha
    have hN : (0 : ℚ) < ((s.neg.length + s.easyNeg : ℕ) : ℚ) := by
      exact_mod_cast (by omega : 0 < s.neg.length + s.easyNeg)
    have hle : (s.neg.length : ℚ) / ((s.neg.length + s.easyNeg : ℕ) : ℚ) ≤ 1 := by
      rw [div_le_one hN]; push_cast; linarith [(Nat.cast_nonneg s.easyNeg : (0 : ℚ) ≤ _)]
    constructor
    · have := stepAreaAux_nonneg s lo hi (negsByRank s) 0
      have := overlap_nonneg ((s.neg.length : ℚ) / ((s.neg.length + s.easyNeg : ℕ) : ℚ)) 1 lo hi
      linarith
    · have h2 := stepAreaAux_le s lo hi h (negsByRank s) 0
      rw [negsByRank_length] at h2
      have h3 := overlap_split_interval
        (((0 : ℕ) : ℚ) / ((s.neg.length + s.easyNeg : ℕ) : ℚ))
        (((0 + s.neg.length : ℕ) : ℚ) / ((s.neg.length + s.easyNeg : ℕ) : ℚ)) 1 lo hi
        (by apply div_le_div_of_nonneg_right _ hN.le; push_cast; linarith [(Nat.cast_nonneg s.neg.length : (0 : ℚ) ≤ _)])
        (by rw [Nat.zero_add]; exact hle) h
      have h4 : overlap (((0 : ℕ) : ℚ) / ((s.neg.length + s.easyNeg : ℕ) : ℚ)) 1 lo hi = hi - lo := by
        apply overlap_window_subset _ _ _ _ h
        · simp only [Nat.cast_zero, zero_div]; exact h0
        · exact h1
      rw [Nat.zero_add] at h2 h3
      linarith

/-- **A3.** Without cross-class ties the full step area is the Mann–Whitney statistic. -/
theorem C07_step_full_eq_mw (s : Scores) (h : noCrossTies s = true) :
    stepArea s 0 1 = mannWhitney s := by
  rw [mannWhitney_eq]
  unfold stepArea
  by_cases hc : s.pos.length + s.easyPos = 0 ∨ s.neg.length + s.easyNeg = 0
  · simp only [hc, if_true]
  · simp only [hc, if_false, Option.some.injEq]
    rw [not_or] at hc
    have hN : (0 : ℚ) < ((s.neg.length + s.easyNeg : ℕ) : ℚ) := by
      exact_mod_cast (by omega : 0 < s.neg.length + s.easyNeg)
    have hP : (0 : ℚ) < ((s.pos.length + s.easyPos : ℕ) : ℚ) := by
      exact_mod_cast (by omega : 0 < s.pos.length + s.easyPos)
    have hle : (s.neg.length : ℚ) / ((s.neg.length + s.easyNeg : ℕ) : ℚ) ≤ 1 := by
      rw [div_le_one hN]; push_cast; linarith [(Nat.cast_nonneg s.easyNeg : (0 : ℚ) ≤ _)]
    rw [stepAreaAux_full s (negsByRank s) 0 (by rw [negsByRank_length]; omega),
      overlap_of_subset _ _ _ _ hle (by positivity) (le_refl _),
      ((negsByRank_perm s).map _).sum_eq, sum_map_const_add, ← mwWins_eq_sum_winsOver,
      mwTies_eq_zero s h]
    push_cast at hN hP ⊢
    field_simp
    ring

/-- **A4.** The Mann–Whitney statistic is a probability. -/
theorem C07_mw_range (s : Scores) (a : ℚ) (h : mannWhitney s = some a) : 0 ≤ a ∧ a ≤ 1 := by
  rw [mannWhitney_eq] at h
  by_cases hc : s.pos.length + s.easyPos = 0 ∨ s.neg.length + s.easyNeg = 0
  · simp only [hc, if_true] at h; cases h
  · simp only [hc, if_false, Option.some.injEq] at h
    subst h
    rw [not_or] at hc
    have hD : (0 : ℚ) < (((s.pos.length + s.easyPos) * (s.neg.length + s.easyNeg) : ℕ) : ℚ) := by
      exact_mod_cast Nat.mul_pos (by omega) (by omega)
    constructor
    · positivity
    · rw [div_le_one hD]
      have h1 := mwWins_add_ties_le s
      have h2 : ((mwWins s + mwTies s : ℕ) : ℚ) ≤ ((s.pos.length * s.neg.length : ℕ) : ℚ) := by
        exact_mod_cast h1
      have h3 : (0 : ℚ) ≤ (mwTies s : ℚ) := by positivity
      push_cast at h2 ⊢
      nlinarith

/-- **A4.** The Mann–Whitney statistic does not depend on `equal_class`. -/
theorem C07_mw_equal_class (s : Scores) (e : Label) :
    mannWhitney { s with cfg := ⟨s.cfg.scoreClass, e⟩ } = mannWhitney s := rfl

/-- **A4.** Exchanging the classes and flipping `score_class` (`Scores.swap`) leaves the
statistic unchanged. -/
theorem C07_mw_swap (s : Scores) : mannWhitney s.swap = mannWhitney s := by
  have hw : mwWins s.swap = mwWins s := by
    rw [mwWins_eq_sum_winsOver s.swap]
    unfold mwWins winsOver
    simp only [Scores.swap, Scores.make, if_true, Cfg.swap]
    congr 1
    apply List.map_congr_left
    intro p _
    congr 1
    funext q
    cases s.cfg.scoreClass <;> rfl
  have ht : mwTies s.swap = mwTies s := by
    unfold mwTies
    simp only [Scores.swap, Scores.make, if_true]
    rw [double_count (fun p q => decide (p = q)) s.neg s.pos]
    congr 1
    apply List.map_congr_left
    intro p _
    congr 1
    funext q
    simp only [eq_comm]
  rw [mannWhitney_eq, mannWhitney_eq, hw, ht]
  simp only [Scores.swap, Scores.make, if_true]
  by_cases hc : s.pos.length + s.easyPos = 0 ∨ s.neg.length + s.easyNeg = 0
  · have hc' : s.neg.length + s.easyNeg = 0 ∨ s.pos.length + s.easyPos = 0 := hc.symm
    simp only [hc, hc', if_true]
  · have hc' : ¬ (s.neg.length + s.easyNeg = 0 ∨ s.pos.length + s.easyPos = 0) := fun h => hc h.symm
    simp only [hc, hc', if_false, Option.some.injEq]
    have e1 : mwWins s + (s.easyNeg * (s.pos.length + s.easyPos) + s.neg.length * s.easyPos) =
        mwWins s + (s.easyPos * (s.neg.length + s.easyNeg) + s.pos.length * s.easyNeg) := by ring
    have e2 : (s.neg.length + s.easyNeg) * (s.pos.length + s.easyPos) =
        (s.pos.length + s.easyPos) * (s.neg.length + s.easyNeg) := by ring
    rw [e1, e2]

/-! ## B. The code-shaped model `Scores.auc` against the reference -/

/-- matrices by counting agree when the decisions agree on the data -/
theorem countCM_congr (pos neg : List ℚ) (ep en : ℕ) (cfg cfg' : Cfg) (t t' : ERat)
    (h : ∀ x ∈ pos ++ neg, accept cfg x t = accept cfg' x t') :
    countCM pos neg ep en cfg t = countCM pos neg ep en cfg' t' := by
  have h1 : ∀ x ∈ pos, accept cfg x t = accept cfg' x t' :=
    fun x hx => h x (List.mem_append_left _ hx)
  have h2 : ∀ x ∈ neg, accept cfg x t = accept cfg' x t' :=
    fun x hx => h x (List.mem_append_right _ hx)
  have e1 : pos.countP (fun x => accept cfg x t) = pos.countP (fun x => accept cfg' x t') :=
    List.countP_congr (fun x hx => by rw [h1 x hx])
  have e2 : pos.countP (fun x => !accept cfg x t) = pos.countP (fun x => !accept cfg' x t') :=
    List.countP_congr (fun x hx => by rw [h1 x hx])
  have e3 : neg.countP (fun x => accept cfg x t) = neg.countP (fun x => accept cfg' x t') :=
    List.countP_congr (fun x hx => by rw [h2 x hx])
  have e4 : neg.countP (fun x => !accept cfg x t) = neg.countP (fun x => !accept cfg' x t') :=
    List.countP_congr (fun x hx => by rw [h2 x hx])
  unfold countCM
  rw [e1, e2, e3, e4]

/-- **B1 (below).** One ulp below a data value `v` the matrix of *every* configuration is the
matrix at `v` itself of the configuration with the same `score_class` that puts `v` on the high
side: exactly the scores `< v` are on the low side, whatever `equal_class` is. -/
theorem C07_points_down (u : Ulp) (hu : u.Lawful) (s : Scores) (hp : s.pos.Pairwise (· ≤ ·))
    (hn : s.neg.Pairwise (· ≤ ·)) (hadj : u.AdjacentOn (s.pos ++ s.neg)) (v : ℚ)
    (hv : v ∈ s.pos ++ s.neg) :
    s.cm (.fin (u.down v)) =
      countCM s.pos s.neg s.easyPos s.easyNeg ⟨s.cfg.scoreClass, s.cfg.scoreClass⟩ (.fin v) := by
  rw [cm_eq_countCM_of_sorted s hp hn]
  exact countCM_congr _ _ _ _ _ _ _ _ (fun x hx => accept_at_down u hu _ hadj s.cfg x v hx hv)

/-- **B1 (above).** One ulp above a data value `v` exactly the scores `≤ v` are on the low
side, whatever `equal_class` is. -/
theorem C07_points_up (u : Ulp) (hu : u.Lawful) (s : Scores) (hp : s.pos.Pairwise (· ≤ ·))
    (hn : s.neg.Pairwise (· ≤ ·)) (hadj : u.AdjacentOn (s.pos ++ s.neg)) (v : ℚ)
    (hv : v ∈ s.pos ++ s.neg) :
    s.cm (.fin (u.up v)) =
      countCM s.pos s.neg s.easyPos s.easyNeg ⟨s.cfg.scoreClass, s.cfg.scoreClass.flip⟩ (.fin v) := by
  rw [cm_eq_countCM_of_sorted s hp hn]
  exact countCM_congr _ _ _ _ _ _ _ _ (fun x hx => accept_at_up u hu _ hadj s.cfg x v hx hv)

/-- **B1 (cells).** In terms of `cntLt` / `cntLe`: the numbers of scored positives / negatives
on the low side of the threshold at the two evaluation points of a data value. -/
theorem C07_points_counts (u : Ulp) (hu : u.Lawful) (sc l : List ℚ) (hl : ∀ x ∈ l, x ∈ sc)
    (hadj : u.AdjacentOn sc) (cfg : Cfg) (v : ℚ) (hv : v ∈ sc) :
    belowCount cfg l (u.down v) = cntLt l v ∧ belowCount cfg l (u.up v) = cntLe l v := by
  unfold belowCount cntLt cntLe
  constructor <;> split <;> apply List.countP_congr <;> intro x hx <;>
    simp only [decide_eq_true_eq]
  · exact lt_down_iff u hu sc hadj x v (hl x hx) hv
  · exact le_down_iff u hu sc hadj x v (hl x hx) hv
  · exact lt_up_iff u hu sc hadj x v (hl x hx) hv
  · exact le_up_iff u hu sc hadj x v (hl x hx) hv

/-- **B2.** The full AUC of the code-shaped model (FPR on x, TPR on y, all four
configurations, easy samples, ties across and within classes) is the Mann–Whitney statistic,
for a `nextafter` oracle that is lawful (`down x < x < up x`) and has no data value strictly
between a data value and its neighbours (consecutive floats in the data are allowed), and at
least one scored negative. -/
theorem C07_code_eq_mw (u : Ulp) (hu : u.Lawful) (s : Scores) (hp : s.pos.Pairwise (· ≤ ·))
    (hn : s.neg.Pairwise (· ≤ ·)) (hneg : s.neg ≠ [])
    (hadj : u.NeighbourOn (s.pos ++ s.neg)) :
    s.auc u 0 1 .fpr .tpr = mannWhitney s := by
  have hnl : 0 < s.neg.length := List.length_pos_iff.mpr hneg
  have hN : s.neg.length + s.easyNeg ≠ 0 := by omega
  rw [auc_eq_window u hu s hp hn hneg, mannWhitney_eq]
  by_cases hP : s.pos.length + s.easyPos = 0
  · simp only [hP, true_or, if_true]
  · have hc : ¬ (s.pos.length + s.easyPos = 0 ∨ s.neg.length + s.easyNeg = 0) := by
      rw [not_or]; exact ⟨hP, hN⟩
    rw [if_neg hP, if_neg hc,
      aucWindow_full_sweep s _ (sweep_orient u hu s hadj (by simp [hneg])) hP hN]

/-- **B3.** Without cross-class ties the partial AUC of the code-shaped model over any window
`[lower, upper] ⊆ [0, 1]` is the exact area under the empirical step ROC (all four
configurations, easy samples, ties within a class). -/
theorem C07_partial_eq_step (u : Ulp) (hu : u.Lawful) (s : Scores) (hp : s.pos.Pairwise (· ≤ ·))
    (hn : s.neg.Pairwise (· ≤ ·)) (hneg : s.neg ≠ [])
    (hadj : u.NeighbourOn (s.pos ++ s.neg)) (hnt : noCrossTies s = true)
    (lower upper : ℚ) (h0 : 0 ≤ lower) (hlu : lower ≤ upper) (h1 : upper ≤ 1) :
    s.auc u lower upper .fpr .tpr = stepArea s lower upper := by
  have hnl : 0 < s.neg.length := List.length_pos_iff.mpr hneg
  have hN : s.neg.length + s.easyNeg ≠ 0 := by omega
  rw [auc_eq_window u hu s hp hn hneg]
  unfold stepArea
  by_cases hP : s.pos.length + s.easyPos = 0
  · simp only [hP, true_or, if_true]
  · have hc : ¬ (s.pos.length + s.easyPos = 0 ∨ s.neg.length + s.easyNeg = 0) := by
      rw [not_or]; exact ⟨hP, hN⟩
    rw [if_neg hP, if_neg hc,
      aucWindow_sweep s hnt _ (sweep_orient u hu s hadj (by simp [hneg])) hP lower upper h0 hlu h1]

/-- **Corollary (code, additivity).** The partial AUC of the code-shaped model is additive over
adjacent windows. -/
theorem C07_code_additive (u : Ulp) (hu : u.Lawful) (s : Scores) (hp : s.pos.Pairwise (· ≤ ·))
    (hn : s.neg.Pairwise (· ≤ ·)) (hneg : s.neg ≠ [])
    (hadj : u.NeighbourOn (s.pos ++ s.neg)) (hnt : noCrossTies s = true)
    (lo mid hi : ℚ) (h0 : 0 ≤ lo) (h1 : lo ≤ mid) (h2 : mid ≤ hi) (h3 : hi ≤ 1) :
    (s.auc u lo hi .fpr .tpr = none ∧ s.auc u lo mid .fpr .tpr = none ∧
      s.auc u mid hi .fpr .tpr = none) ∨
    ∃ a b, s.auc u lo mid .fpr .tpr = some a ∧ s.auc u mid hi .fpr .tpr = some b ∧
      s.auc u lo hi .fpr .tpr = some (a + b) := by
  rw [C07_partial_eq_step u hu s hp hn hneg hadj hnt lo hi h0 (le_trans h1 h2) h3,
    C07_partial_eq_step u hu s hp hn hneg hadj hnt lo mid h0 h1 (le_trans h2 h3),
    C07_partial_eq_step u hu s hp hn hneg hadj hnt mid hi (le_trans h0 h1) h2 h3]
  exact C07_step_additive s lo mid hi h1 h2

/-- **Corollary (code, bound).** The partial AUC of the code-shaped model lies between 0 and
`upper - lower`. -/
theorem C07_code_le (u : Ulp) (hu : u.Lawful) (s : Scores) (hp : s.pos.Pairwise (· ≤ ·))
    (hn : s.neg.Pairwise (· ≤ ·)) (hneg : s.neg ≠ [])
    (hadj : u.NeighbourOn (s.pos ++ s.neg)) (hnt : noCrossTies s = true)
    (lower upper : ℚ) (h0 : 0 ≤ lower) (hlu : lower ≤ upper) (h1 : upper ≤ 1) (a : ℚ)
    (ha : s.auc u lower upper .fpr .tpr = some a) : 0 ≤ a ∧ a ≤ upper - lower := by
  rw [C07_partial_eq_step u hu s hp hn hneg hadj hnt lower upper h0 hlu h1] at ha
  exact C07_step_le s lower upper h0 hlu h1 a ha

/-- **Corollary (code, `equal_class`).** The full AUC of the code-shaped model does not depend
on `equal_class`. -/
theorem C07_code_equal_class (u : Ulp) (hu : u.Lawful) (s : Scores) (hp : s.pos.Pairwise (· ≤ ·))
    (hn : s.neg.Pairwise (· ≤ ·)) (hneg : s.neg ≠ [])
    (hadj : u.NeighbourOn (s.pos ++ s.neg)) (e : Label) :
    Scores.auc u { s with cfg := ⟨s.cfg.scoreClass, e⟩ } 0 1 .fpr .tpr = s.auc u 0 1 .fpr .tpr := by
  rw [C07_code_eq_mw u hu s hp hn hneg hadj,
    C07_code_eq_mw u hu { s with cfg := ⟨s.cfg.scoreClass, e⟩ } hp hn hneg hadj]
  rfl

/-- **Exchanged axes.** Over the full range, TPR on x and FPR on y give one minus the
Mann–Whitney statistic (any ties; both scored lists non-empty). -/
theorem C07_code_exchange (u : Ulp) (hu : u.Lawful) (s : Scores) (hp : s.pos.Pairwise (· ≤ ·))
    (hn : s.neg.Pairwise (· ≤ ·)) (hpos : s.pos ≠ []) (hneg : s.neg ≠ [])
    (hadj : u.NeighbourOn (s.pos ++ s.neg)) :
    s.auc u 0 1 .tpr .fpr = (mannWhitney s).map (fun a => 1 - a) := by
  have hnl : 0 < s.neg.length := List.length_pos_iff.mpr hneg
  have hpl : 0 < s.pos.length := List.length_pos_iff.mpr hpos
  have hN : s.neg.length + s.easyNeg ≠ 0 := by omega
  have hP : s.pos.length + s.easyPos ≠ 0 := by omega
  have hPq : (0 : ℚ) < ((s.pos.length + s.easyPos : ℕ) : ℚ) := by
    exact_mod_cast Nat.pos_of_ne_zero hP
  have hsc : s.pos ++ s.neg ≠ [] := by simp [hneg]
  have hpts := aucPoints_ne_nil u s hsc
  have hw := sweep_orient u hu s hadj hsc
  rw [auc_of_rates u s 0 1 .tpr .fpr (tpQ s) (fpQ s)
    (fun t => by rw [rate_tpr s hp hn, if_neg hP]) (fun t => by rw [rate_fpr s hp hn, if_neg hN]) hpts]
  have h0 := accCount_first s _ hw s.pos (fun x hx => List.mem_append_left _ hx)
  have h1 := accCount_last s _ hw s.pos (fun x hx => List.mem_append_left _ hx)
  have hlt : tpQ s ((orientAuc s.cfg (aucPoints u s)).head hw.ne) <
      tpQ s ((orientAuc s.cfg (aucPoints u s)).getLast hw.ne) := by
    unfold tpQ
    rw [h0, h1]
    apply div_lt_div_of_pos_right _ hPq
    exact_mod_cast (by omega : 0 + s.easyPos < s.pos.length + s.easyPos)
  rw [orient_choice s.cfg _ hpts (tpQ s) hw.ne hlt, aucWindow_exchange_sweep s _ hw hP hN,
    mannWhitney_eq]
  have hc : ¬ (s.pos.length + s.easyPos = 0 ∨ s.neg.length + s.easyNeg = 0) := by
    rw [not_or]; exact ⟨hP, hN⟩
  rw [if_neg hc]; rfl

/-- **Complemented y-axis.** Without cross-class ties, FNR against FPR over `[lower, upper]`
gives `(upper - lower)` minus the step area. -/
theorem C07_code_ycompl (u : Ulp) (hu : u.Lawful) (s : Scores) (hp : s.pos.Pairwise (· ≤ ·))
    (hn : s.neg.Pairwise (· ≤ ·)) (hneg : s.neg ≠ [])
    (hadj : u.NeighbourOn (s.pos ++ s.neg)) (hnt : noCrossTies s = true)
    (hP : s.pos.length + s.easyPos ≠ 0)
    (lower upper : ℚ) (h0 : 0 ≤ lower) (hlu : lower ≤ upper) (h1 : upper ≤ 1) :
    s.auc u lower upper .fpr .fnr = (stepArea s lower upper).map (fun a => (upper - lower) - a) := by
  have hnl : 0 < s.neg.length := List.length_pos_iff.mpr hneg
  have hN : s.neg.length + s.easyNeg ≠ 0 := by omega
  have hNq : (0 : ℚ) < ((s.neg.length + s.easyNeg : ℕ) : ℚ) := by
    exact_mod_cast Nat.pos_of_ne_zero hN
  have hsc : s.pos ++ s.neg ≠ [] := by simp [hneg]
  have hpts := aucPoints_ne_nil u s hsc
  have hw := sweep_orient u hu s hadj hsc
  rw [auc_of_rates u s lower upper .fpr .fnr (fpQ s) (fun t => 1 - tpQ s t)
    (fun t => by rw [rate_fpr s hp hn, if_neg hN]) (fun t => rate_fnr s hp hn t hP) hpts]
  have hlt : fpQ s ((orientAuc s.cfg (aucPoints u s)).head hw.ne) <
      fpQ s ((orientAuc s.cfg (aucPoints u s)).getLast hw.ne) := by
    rw [fpQ_orient_head u hu s hw.ne, fpQ_orient_last u hu s hw.ne]
    exact div_pos (by exact_mod_cast hnl) hNq
  rw [orient_choice s.cfg _ hpts (fpQ s) hw.ne hlt,
    aucWindow_ycompl_sweep s hnt _ hw hP hN lower upper h0 hlu h1]
  unfold stepArea
  have hc : ¬ (s.pos.length + s.easyPos = 0 ∨ s.neg.length + s.easyNeg = 0) := by
    rw [not_or]; exact ⟨hP, hN⟩
  rw [if_neg hc]; rfl

/-- **Complemented x-axis.** Without cross-class ties, TPR against TNR over `[lower, upper]`
is the step area over the mirrored window `[1 - upper, 1 - lower]`. -/
theorem C07_code_xcompl (u : Ulp) (hu : u.Lawful) (s : Scores) (hp : s.pos.Pairwise (· ≤ ·))
    (hn : s.neg.Pairwise (· ≤ ·)) (hneg : s.neg ≠ [])
    (hadj : u.NeighbourOn (s.pos ++ s.neg)) (hnt : noCrossTies s = true)
    (hP : s.pos.length + s.easyPos ≠ 0)
    (lower upper : ℚ) (h0 : 0 ≤ lower) (hlu : lower ≤ upper) (h1 : upper ≤ 1) :
    s.auc u lower upper .tnr .tpr = stepArea s (1 - upper) (1 - lower) := by
  have hnl : 0 < s.neg.length := List.length_pos_iff.mpr hneg
  have hN : s.neg.length + s.easyNeg ≠ 0 := by omega
  have hNq : (0 : ℚ) < ((s.neg.length + s.easyNeg : ℕ) : ℚ) := by
    exact_mod_cast Nat.pos_of_ne_zero hN
  have hsc : s.pos ++ s.neg ≠ [] := by simp [hneg]
  have hpts := aucPoints_ne_nil u s hsc
  have hw := sweep_orient u hu s hadj hsc
  rw [auc_of_rates u s lower upper .tnr .tpr (fun t => 1 - fpQ s t) (tpQ s)
    (fun t => rate_tnr s hp hn t hN) (fun t => by rw [rate_tpr s hp hn, if_neg hP]) hpts]
  have hlt : (fun t => 1 - fpQ s t) ((orientAuc s.cfg (aucPoints u s)).getLast hw.ne) <
      (fun t => 1 - fpQ s t) ((orientAuc s.cfg (aucPoints u s)).head hw.ne) := by
    show 1 - fpQ s _ < 1 - fpQ s _
    rw [fpQ_orient_head u hu s hw.ne, fpQ_orient_last u hu s hw.ne]
    have : (0 : ℚ) < (s.neg.length : ℚ) / ((s.neg.length + s.easyNeg : ℕ) : ℚ) :=
      div_pos (by exact_mod_cast hnl) hNq
    linarith
  rw [orient_choice_rev s.cfg _ hpts (fun t => 1 - fpQ s t) hw.ne hlt,
    aucWindow_xcompl_sweep s hnt _ hw hP lower upper h0 hlu h1]
  unfold stepArea
  have hc : ¬ (s.pos.length + s.easyPos = 0 ∨ s.neg.length + s.easyNeg = 0) := by
    rw [not_or]; exact ⟨hP, hN⟩
  rw [if_neg hc]

/-- **Complemented x-axis, as a relation between two runs of the code-shaped model.** -/
theorem C07_code_xcompl_mirror (u : Ulp) (hu : u.Lawful) (s : Scores) (hp : s.pos.Pairwise (· ≤ ·))
    (hn : s.neg.Pairwise (· ≤ ·)) (hneg : s.neg ≠ [])
    (hadj : u.NeighbourOn (s.pos ++ s.neg)) (hnt : noCrossTies s = true)
    (hP : s.pos.length + s.easyPos ≠ 0)
    (lower upper : ℚ) (h0 : 0 ≤ lower) (hlu : lower ≤ upper) (h1 : upper ≤ 1) :
    s.auc u (1 - upper) (1 - lower) .tnr .tpr = s.auc u lower upper .fpr .tpr := by
  rw [C07_code_xcompl u hu s hp hn hneg hadj hnt hP (1 - upper) (1 - lower) (by linarith)
    (by linarith) (by linarith),
    C07_partial_eq_step u hu s hp hn hneg hadj hnt lower upper h0 hlu h1]
  congr 1 <;> ring

/-- **Complemented y-axis, as a relation between two runs of the code-shaped model.** -/
theorem C07_code_ycompl_rel (u : Ulp) (hu : u.Lawful) (s : Scores) (hp : s.pos.Pairwise (· ≤ ·))
    (hn : s.neg.Pairwise (· ≤ ·)) (hneg : s.neg ≠ [])
    (hadj : u.NeighbourOn (s.pos ++ s.neg)) (hnt : noCrossTies s = true)
    (hP : s.pos.length + s.easyPos ≠ 0)
    (lower upper : ℚ) (h0 : 0 ≤ lower) (hlu : lower ≤ upper) (h1 : upper ≤ 1) :
    s.auc u lower upper .fpr .fnr =
      (s.auc u lower upper .fpr .tpr).map (fun a => (upper - lower) - a) := by
  rw [C07_code_ycompl u hu s hp hn hneg hadj hnt hP lower upper h0 hlu h1,
    C07_partial_eq_step u hu s hp hn hneg hadj hnt lower upper h0 hlu h1]

/-- **Exchanged axes, as a relation between two runs of the code-shaped model.** -/
theorem C07_code_exchange_rel (u : Ulp) (hu : u.Lawful) (s : Scores) (hp : s.pos.Pairwise (· ≤ ·))
    (hn : s.neg.Pairwise (· ≤ ·)) (hpos : s.pos ≠ []) (hneg : s.neg ≠ [])
    (hadj : u.NeighbourOn (s.pos ++ s.neg)) :
    s.auc u 0 1 .tpr .fpr = (s.auc u 0 1 .fpr .tpr).map (fun a => 1 - a) := by
  rw [C07_code_exchange u hu s hp hn hpos hneg hadj, C07_code_eq_mw u hu s hp hn hneg hadj]

/-! ### The constructor discharges the sortedness hypotheses -/

theorem neighbourOn_make (u : Ulp) (pos neg : List ℚ) (ep en : ℕ) (cfg : Cfg)
    (hadj : u.NeighbourOn (pos ++ neg)) :
    u.NeighbourOn ((Scores.make pos neg ep en cfg false).pos ++
      (Scores.make pos neg ep en cfg false).neg) := by
  have hm : ∀ x, x ∈ (Scores.make pos neg ep en cfg false).pos ++
      (Scores.make pos neg ep en cfg false).neg → x ∈ pos ++ neg := by
    intro x hx
    simp only [Scores.make, Bool.false_eq_true, if_false, List.mem_append] at hx ⊢
    rcases hx with h | h
    · exact Or.inl ((sortQ_perm pos).mem_iff.mp h)
    · exact Or.inr ((sortQ_perm neg).mem_iff.mp h)
  intro a ha b hb hab
  exact hadj a (hm a ha) b (hm b hb) hab

/-- **B2 for constructed objects.** For arbitrary (unsorted) input lists the full AUC of the
constructed object is its Mann–Whitney statistic. -/
theorem C07_code_eq_mw_make (u : Ulp) (hu : u.Lawful) (pos neg : List ℚ) (ep en : ℕ) (cfg : Cfg)
    (hneg : neg ≠ []) (hadj : u.NeighbourOn (pos ++ neg)) :
    (Scores.make pos neg ep en cfg false).auc u 0 1 .fpr .tpr =
      mannWhitney (Scores.make pos neg ep en cfg false) := by
  apply C07_code_eq_mw u hu
  · simpa [Scores.make] using sortQ_pairwise pos
  · simpa [Scores.make] using sortQ_pairwise neg
  · intro h
    apply hneg
    have : (sortQ neg).length = 0 := by
      simp only [Scores.make, Bool.false_eq_true, if_false] at h; rw [h]; rfl
    rw [length_sortQ] at this
    exact List.eq_nil_of_length_eq_zero this
  · exact neighbourOn_make u pos neg ep en cfg hadj

/-- the Mann–Whitney statistic does not depend on the order of the input lists -/
theorem mannWhitney_make (pos neg : List ℚ) (ep en : ℕ) (cfg : Cfg) :
    mannWhitney (Scores.make pos neg ep en cfg false) = mannWhitney ⟨pos, neg, ep, en, cfg⟩ := by
  have hw : mwWins (Scores.make pos neg ep en cfg false) = mwWins ⟨pos, neg, ep, en, cfg⟩ := by
    unfold mwWins
    simp only [Scores.make, Bool.false_eq_true, if_false]
    rw [((sortQ_perm pos).map _).sum_eq]
    congr 1
    apply List.map_congr_left
    intro p _
    exact (sortQ_perm neg).countP_eq _
  have ht : mwTies (Scores.make pos neg ep en cfg false) = mwTies ⟨pos, neg, ep, en, cfg⟩ := by
    unfold mwTies
    simp only [Scores.make, Bool.false_eq_true, if_false]
    rw [((sortQ_perm pos).map _).sum_eq]
    congr 1
    apply List.map_congr_left
    intro p _
    exact (sortQ_perm neg).countP_eq _
  rw [mannWhitney_eq, mannWhitney_eq, hw, ht]
  simp only [Scores.make, Bool.false_eq_true, if_false, length_sortQ]

/-! ### The executable spec clauses hold of the model with `eps = 0` -/

theorem nearO_refl (a : Option ℚ) : Spec.C07.nearO 0 a a = true := by
  cases a with
  | none => rfl
  | some a => simp [Spec.C07.nearO, absR]

theorem C07_spec_mw (u : Ulp) (hu : u.Lawful) (s : Scores) (hp : s.pos.Pairwise (· ≤ ·))
    (hn : s.neg.Pairwise (· ≤ ·)) (hneg : s.neg ≠ [])
    (hadj : u.NeighbourOn (s.pos ++ s.neg)) :
    Spec.C07.mwOK 0 s (s.auc u 0 1 .fpr .tpr) = true := by
  rw [C07_code_eq_mw u hu s hp hn hneg hadj]
  exact nearO_refl _

theorem C07_spec_step (u : Ulp) (hu : u.Lawful) (s : Scores) (hp : s.pos.Pairwise (· ≤ ·))
    (hn : s.neg.Pairwise (· ≤ ·)) (hneg : s.neg ≠ [])
    (hadj : u.NeighbourOn (s.pos ++ s.neg))
    (lower upper : ℚ) (h0 : 0 ≤ lower) (hlu : lower ≤ upper) (h1 : upper ≤ 1) :
    Spec.C07.stepOK 0 s lower upper (s.auc u lower upper .fpr .tpr) = true := by
  unfold Spec.C07.stepOK
  by_cases hnt : noCrossTies s = true
  · rw [if_pos hnt, C07_partial_eq_step u hu s hp hn hneg hadj hnt lower upper h0 hlu h1]
    exact nearO_refl _
  · rw [if_neg hnt]

theorem C07_spec_bound (u : Ulp) (hu : u.Lawful) (s : Scores) (hp : s.pos.Pairwise (· ≤ ·))
    (hn : s.neg.Pairwise (· ≤ ·)) (hneg : s.neg ≠ [])
    (hadj : u.NeighbourOn (s.pos ++ s.neg)) (hnt : noCrossTies s = true)
    (lower upper : ℚ) (h0 : 0 ≤ lower) (hlu : lower ≤ upper) (h1 : upper ≤ 1) :
    Spec.C07.boundOK 0 lower upper (s.auc u lower upper .fpr .tpr) = true := by
  cases ha : s.auc u lower upper .fpr .tpr with
  | none => rfl
  | some a =>
    have := C07_code_le u hu s hp hn hneg hadj hnt lower upper h0 hlu h1 a ha
    simp only [Spec.C07.boundOK, Bool.and_eq_true, decide_eq_true_eq]
    constructor <;> linarith [this.1, this.2]

/-! ### Non-vacuity: the hypotheses are satisfiable -/

/-- ±1/2 steps are adjacent (hence neighbourly) on integer data -/
example : Ulp.half.AdjacentOn ([1, 3, 3] ++ [2, 4]) := by
  intro a ha b hb hab
  simp only [List.cons_append, List.nil_append, List.mem_cons, List.not_mem_nil, or_false] at ha hb
  show a + 1 / 2 ≤ b - 1 / 2
  rcases ha with rfl | rfl | rfl | rfl | rfl <;> rcases hb with rfl | rfl | rfl | rfl | rfl <;>
    norm_num at hab <;> norm_num

example : ∃ s : Scores, s.pos.Pairwise (· ≤ ·) ∧ s.neg.Pairwise (· ≤ ·) ∧ s.neg ≠ [] ∧
    Ulp.half.NeighbourOn (s.pos ++ s.neg) ∧ noCrossTies s = true := by
  refine ⟨⟨[1, 3, 3], [2, 4], 1, 2, ⟨.pos, .neg⟩⟩, by decide +kernel, by decide +kernel, by simp,
    ?_, by decide +kernel⟩
  apply Ulp.AdjacentOn.neighbour _ Ulp.half_lawful
  intro a ha b hb hab
  simp only [List.cons_append, List.nil_append, List.mem_cons, List.not_mem_nil, or_false] at ha hb
  show a + 1 / 2 ≤ b - 1 / 2
  rcases ha with rfl | rfl | rfl | rfl | rfl <;> rcases hb with rfl | rfl | rfl | rfl | rfl <;>
    norm_num at hab <;> norm_num

/-- the float64 `nextafter` of the driver is neighbourly on data containing two consecutive
doubles (where the stronger adjacency `up a ≤ down b` fails) -/
example : Ulp.float64.NeighbourOn [1, 1 + 1 / 4503599627370496, 3] := by
  intro a ha b hb hab
  simp only [List.mem_cons, List.not_mem_nil, or_false] at ha hb
  rcases ha with rfl | rfl | rfl <;> rcases hb with rfl | rfl | rfl <;>
    first | (exfalso; norm_num at hab; done) | (constructor <;> decide +kernel)

example : ¬ Ulp.float64.AdjacentOn [1, 1 + 1 / 4503599627370496] := by
  intro h
  have := h 1 (by simp) (1 + 1 / 4503599627370496) (by simp) (by norm_num)
  revert this
  decide +kernel

/-- a window and a value satisfying the hypotheses of the reference theorems -/
example : (0 : ℚ) ≤ 1 / 4 ∧ (1 / 4 : ℚ) ≤ 1 / 2 ∧ (1 / 2 : ℚ) ≤ 1 := by norm_num

example : ∃ a, stepArea ⟨[1, 3, 3], [2, 4], 1, 2, ⟨.pos, .neg⟩⟩ (1 / 4) (1 / 2) = some a :=
  ⟨_, rfl⟩

example : ∃ a, mannWhitney ⟨[1, 3, 3], [2, 3], 1, 2, ⟨.pos, .neg⟩⟩ = some a := ⟨_, rfl⟩

end SA
