/-
C08 — results are symmetric under class swap, direction reversal and rescaling.
-/
import SA.Spec.C08
import SA.Theorems.C02
import SA.Proofs.Quantile

namespace SA
open Spec.C08

/-! ### swap -/

theorem accept_swap (cfg : Cfg) (x : ℚ) (t : ERat) : accept cfg.swap x t = !accept cfg x t := by
  obtain ⟨sc, ec⟩ := cfg
  cases sc <;> cases ec <;> simp [accept, Cfg.swap, Label.flip]

/-- **C08 (swap).** At every threshold (incl. ±inf) the matrix of `swap()` is the original
matrix with rows and columns exchanged. -/
theorem C08_swap_cm (s : Scores) (hp : s.pos.Pairwise (· ≤ ·)) (hn : s.neg.Pairwise (· ≤ ·))
    (t : ERat) : swapOK (s.cm t) (s.swap.cm t) = true := by
  have h1 := cm_eq_countCM_of_sorted s hp hn t
  have h2 := cm_eq_countCM_of_sorted s.swap (by simpa [Scores.swap, Scores.make] using hn)
    (by simpa [Scores.swap, Scores.make] using hp) t
  rw [h1, h2]
  simp only [swapOK, Scores.swap, Scores.make, if_true, countCM, accept_swap, Bool.not_not,
    beq_self_eq_true]

/-- Consequently FPR/TPR/TOPR of the original are FNR/TNR/TONR of the swapped object and
vice versa (as exact counts and populations). -/
theorem C08_swap_rates (s : Scores) (hp : s.pos.Pairwise (· ≤ ·)) (hn : s.neg.Pairwise (· ≤ ·))
    (t : ERat) :
    (s.swap.cm t).fnr = (s.cm t).fpr ∧ (s.swap.cm t).fpr = (s.cm t).fnr ∧
    (s.swap.cm t).tnr = (s.cm t).tpr ∧ (s.swap.cm t).tpr = (s.cm t).tnr ∧
    (s.swap.cm t).tonr = (s.cm t).topr ∧ (s.swap.cm t).topr = (s.cm t).tonr := by
  have h := C08_swap_cm s hp hn t
  simp only [swapOK, beq_iff_eq] at h
  rw [h]
  simp only [CM.fnr, CM.fpr, CM.tnr, CM.tpr, CM.tonr, CM.topr, CM.p, CM.n, CM.top, CM.ton, CM.pop]
  refine ⟨?_, ?_, ?_, ?_, ?_, ?_⟩ <;> congr 1 <;> omega

/-! ### direction reversal -/

def ERat.neg : ERat → ERat
  | .negInf => .posInf
  | .posInf => .negInf
  | .fin q => .fin (-q)

theorem accept_negate (sc ec : Label) (x : ℚ) (t : ERat) :
    accept ⟨sc.flip, ec⟩ (-x) t.neg = accept ⟨sc, ec⟩ x t := by
  cases sc <;> cases ec <;> cases t <;>
    simp [accept, Label.flip, ERat.neg, ltE, leE] <;>
    (rw [Bool.eq_iff_iff]; simp only [decide_eq_true_eq, Bool.not_eq_true', decide_eq_false_iff_not,
      not_lt, not_le])

theorem countP_map_neg (p : ℚ → Bool) (l : List ℚ) :
    (l.map fun x => -x).countP p = l.countP (fun x => p (-x)) := by
  rw [List.countP_map]; rfl

/-- **C08 (negation).** Negating all scores while flipping `score_class` leaves every
confusion matrix unchanged at the negated threshold. -/
theorem C08_negate_cm (pos neg : List ℚ) (ep en : ℕ) (sc ec : Label) (t : ERat) :
    sameOK ((Scores.make pos neg ep en ⟨sc, ec⟩ false).cm t)
      ((Scores.make (pos.map fun x => -x) (neg.map fun x => -x) ep en ⟨sc.flip, ec⟩ false).cm t.neg)
      = true := by
  rw [C01_cells, C01_cells]
  simp only [sameOK, countCM, countP_map_neg, accept_negate, beq_self_eq_true]

/-! ### increasing affine maps -/

def ERat.affine (a b : ℚ) : ERat → ERat
  | .negInf => .negInf
  | .posInf => .posInf
  | .fin q => .fin (a * q + b)

theorem accept_affine (cfg : Cfg) (a b : ℚ) (ha : 0 < a) (x : ℚ) (t : ERat) :
    accept cfg (a * x + b) (t.affine a b) = accept cfg x t := by
  obtain ⟨sc, ec⟩ := cfg
  have h1 : ∀ q : ℚ, (a * x + b < a * q + b) ↔ x < q := fun q =>
    ⟨fun h => by nlinarith, fun h => by nlinarith⟩
  have h2 : ∀ q : ℚ, (a * x + b ≤ a * q + b) ↔ x ≤ q := fun q =>
    ⟨fun h => by nlinarith, fun h => by nlinarith⟩
  cases sc <;> cases ec <;> cases t <;> simp [accept, ERat.affine, ltE, leE, h1, h2]

/-- **C08 (rescaling, matrices).** For `a > 0` the matrix of the scores `a·s + b` at `a·t + b`
is the matrix of the original at `t`. -/
theorem C08_affine_cm (pos neg : List ℚ) (ep en : ℕ) (cfg : Cfg) (a b : ℚ) (ha : 0 < a)
    (t : ERat) :
    sameOK ((Scores.make pos neg ep en cfg false).cm t)
      ((Scores.make (pos.map fun x => a * x + b) (neg.map fun x => a * x + b) ep en cfg false).cm
        (t.affine a b)) = true := by
  rw [C01_cells, C01_cells]
  simp only [sameOK, countCM, List.countP_map, Function.comp_def, accept_affine cfg a b ha,
    beq_self_eq_true]

/-! ### rescaling, thresholds -/

/-- the object with all scores mapped by `x ↦ a x + b` -/
def Scores.affine (s : Scores) (a b : ℚ) : Scores :=
  ⟨s.pos.map fun x => a * x + b, s.neg.map fun x => a * x + b, s.easyPos, s.easyNeg, s.cfg⟩

theorem metricArray_affine (s : Scores) (a b : ℚ) (ha : 0 < a) (metric : Metric) :
    (s.affine a b).metricArray metric = (s.metricArray metric).map fun x => a * x + b := by
  cases metric <;> simp only [Scores.metricArray, Scores.affine, Scores.concat] <;>
    first
    | rfl
    | (rw [← List.map_append, sortQ_map_affine _ a b ha])

theorem rescale_affine (s : Scores) (a b : ℚ) (metric : Metric) (r : ℚ) :
    (s.affine a b).rescale metric r = s.rescale metric r := by
  cases metric <;>
    simp [Scores.rescale, Scores.affine, Scores.nbAllPos, Scores.nbAllNeg, Scores.nbAll,
      Scores.nbEasy, Scores.nbHard, Scores.hardPosRatio, Scores.hardNegRatio, Scores.hardRatio,
      Scores.easyRatio]

/-- `_invert_increasing_function` commutes with an increasing affine map of the scores,
for an oracle pair related by the same map. -/
theorem invertIncreasing_affine (u u' : Ulp) (v : List ℚ) (hne : v.length ≠ 0) (a b : ℚ)
    (hd : ∀ x, u'.down (a * x + b) = a * u.down x + b)
    (hu : ∀ x, u'.up (a * x + b) = a * u.up x + b) (r : ℚ) (lc : Bool) (m : Method) :
    invertIncreasing u' (v.map fun x => a * x + b) r lc m =
      a * invertIncreasing u v r lc m + b := by
  simp only [invertIncreasing_eq, List.length_map]
  have g : ∀ i, i < v.length → (v.map fun x => a * x + b).getD i 0 = a * v.getD i 0 + b :=
    fun i hi => getD_map_affine v a b i hi
  by_cases h1 : 1 ≤ r
  · simp only [h1, if_true]
    rw [g _ (by omega), hu]
  · by_cases h0 : (if lc then r else r - 1 / (v.length : ℚ)) ≤ 0
    · simp only [h1, h0, if_true, if_false]
      rw [g _ (by omega), hd]
    · simp only [h1, h0, if_false]
      cases m <;> simp only [rawThr, interp, indexTarget, List.length_map]
      · rw [g _ (clampIdx_lt _ _ hne), g _ (clampIdx_lt _ _ hne)]; ring
      · rw [g _ (clampIdx_lt _ _ hne)]
      · rw [g _ (clampIdx_lt _ _ hne)]

/-- **C08 (rescaling, thresholds).** For `a > 0` every threshold returned by threshold setting
(all metrics, methods, targets, easy counts, configurations) is mapped by `t ↦ a t + b`;
for the two sentinel cases this is the sentinel of the mapped extreme (oracle hypothesis). -/
theorem C08_affine_threshold (u u' : Ulp) (s : Scores) (a b : ℚ) (ha : 0 < a)
    (hd : ∀ x, u'.down (a * x + b) = a * u.down x + b)
    (hu : ∀ x, u'.up (a * x + b) = a * u.up x + b)
    (metric : Metric) (r : ℚ) (m : Method) :
    (s.affine a b).thresholdAt u' metric r m =
      (s.thresholdAt u metric r m).map (fun t => a * t + b) := by
  unfold Scores.thresholdAt
  rw [metricArray_affine s a b ha, List.length_map, rescale_affine]
  by_cases hne : (s.metricArray metric).length = 0
  · simp only [hne, if_true]; rfl
  · simp only [hne, if_false, Except.map, thresholdAtRatio]
    have : (s.affine a b).cfg = s.cfg := rfl
    rw [this, invertIncreasing_affine u u' _ hne a b hd hu]

/-- Non-vacuity: the half-step oracle is compatible with every translation (a = 1). -/
example (b : ℚ) : ∀ x, Ulp.half.down (1 * x + b) = 1 * Ulp.half.down x + b := by
  intro x; simp only [Ulp.half]; ring

end SA
