/-
C08 — AUC clause: an increasing affine map of all scores, and negating all scores while flipping
`score_class`, leave the AUC (full and partial) unchanged.

Part 1: the reference semantics (`mannWhitney`, `stepArea`) are invariant (all inputs, no
hypotheses besides `a > 0`).  Part 2: corollaries on the code-shaped model `Scores.auc` via the
C07 theorems (`C07_code_eq_mw`, `C07_partial_eq_step`).
-/
import SA.Proofs.MwInvariance
import SA.Theorems.C07
import SA.Theorems.C08
import SA.Theorems.C08Negate

namespace SA

/-! ## 1. Reference semantics -/

theorem mwi_wins_affine (s : Scores) (a b : ℚ) (ha : 0 < a) :
    mwWins (s.affine a b) = mwWins s :=
  mwi_pairs_map (fun x => a * x + b) _ _ s.pos s.neg
    (fun p q => mwi_ranksAbove_affine s.cfg.scoreClass a b ha p q)

theorem mwi_ties_affine (s : Scores) (a b : ℚ) (ha : 0 < a) :
    mwTies (s.affine a b) = mwTies s :=
  mwi_pairs_map (fun x => a * x + b) (fun p q => decide (p = q)) (fun p q => decide (p = q))
    s.pos s.neg (fun p q => by
      rw [decide_eq_decide]
      constructor
      · intro h; nlinarith
      · intro h; rw [h])

/-- **A1.** The Mann–Whitney statistic is invariant under an increasing affine map of all
scores (any lists, ties, easy counts, configuration). -/
theorem mwi_mw_affine (s : Scores) (a b : ℚ) (ha : 0 < a) :
    mannWhitney (s.affine a b) = mannWhitney s :=
  mwi_mw_congr s (s.affine a b) (List.length_map _) (List.length_map _) rfl rfl
    (mwi_wins_affine s a b ha) (mwi_ties_affine s a b ha)

theorem mwi_wins_negate (s : Scores) : mwWins s.negate = mwWins s := by
  unfold mwWins
  simp only [Scores.negate, c08n_mirror]
  rw [mwi_pairs_reverse]
  exact mwi_pairs_map (fun x => -x) _ _ s.pos s.neg
    (fun p q => mwi_ranksAbove_negate s.cfg.scoreClass p q)

theorem mwi_ties_negate (s : Scores) : mwTies s.negate = mwTies s := by
  unfold mwTies
  simp only [Scores.negate, c08n_mirror]
  rw [mwi_pairs_reverse (fun p q => decide (p = q))]
  exact mwi_pairs_map (fun x => -x) (fun p q => decide (p = q)) (fun p q => decide (p = q))
    s.pos s.neg (fun p q => by rw [decide_eq_decide, neg_inj])

/-- **A2.** The Mann–Whitney statistic is invariant under negating all scores while flipping
`score_class`. -/
theorem mwi_mw_negate (s : Scores) : mannWhitney s.negate = mannWhitney s :=
  mwi_mw_congr s s.negate (c08n_mirror_length _) (c08n_mirror_length _) rfl rfl
    (mwi_wins_negate s) (mwi_ties_negate s)

theorem mwi_winsOver_affine (s : Scores) (a b : ℚ) (ha : 0 < a) (q : ℚ) :
    winsOver (s.affine a b) (a * q + b) = winsOver s q := by
  unfold winsOver
  simp only [Scores.affine, List.countP_map, Function.comp_def, mwi_ranksAbove_affine _ a b ha]

theorem mwi_negsByRank_affine (s : Scores) (a b : ℚ) (ha : 0 < a) :
    negsByRank (s.affine a b) = (negsByRank s).map fun x => a * x + b := by
  unfold negsByRank
  simp only [Scores.affine, sortQ_map_affine _ a b ha]
  cases s.cfg.scoreClass
  · simp only [List.map_reverse]
  · rfl

/-- **A3 (affine).** The step area over any window is invariant under an increasing affine map
of all scores. -/
theorem mwi_step_affine (s : Scores) (a b : ℚ) (ha : 0 < a) (lower upper : ℚ) :
    stepArea (s.affine a b) lower upper = stepArea s lower upper :=
  mwi_step_congr s (s.affine a b) (fun x => a * x + b) lower upper (List.length_map _) rfl
    (by simp only [Scores.affine, List.length_map])
    (mwi_negsByRank_affine s a b ha)
    (fun q _ => by rw [mwi_winsOver_affine s a b ha]; rfl)

theorem mwi_winsOver_negate (s : Scores) (q : ℚ) : winsOver s.negate (-q) = winsOver s q := by
  unfold winsOver
  simp only [Scores.negate, c08n_mirror, List.countP_reverse, List.countP_map, Function.comp_def,
    mwi_ranksAbove_negate]

theorem mwi_negsByRank_negate (s : Scores) :
    negsByRank s.negate = (negsByRank s).map fun x => -x := by
  have h : sortQ (c08n_mirror s.neg) = c08n_mirror (sortQ s.neg) := by
    rw [← c08n_sortQ_map_neg]
    exact sortQ_eq_of_perm _ _ (List.reverse_perm _)
  unfold negsByRank
  simp only [Scores.negate, h]
  cases s.cfg.scoreClass
  · simp only [Label.flip, c08n_mirror, List.map_reverse]
  · simp only [Label.flip, c08n_mirror, List.reverse_reverse]

/-- **A3 (negation).** The step area over any window is invariant under negating all scores
while flipping `score_class`. -/
theorem mwi_step_negate (s : Scores) (lower upper : ℚ) :
    stepArea s.negate lower upper = stepArea s lower upper :=
  mwi_step_congr s s.negate (fun x => -x) lower upper (c08n_mirror_length _) rfl
    (by simp only [Scores.negate, c08n_mirror_length])
    (mwi_negsByRank_negate s)
    (fun q _ => by rw [mwi_winsOver_negate s]; rfl)

/-! ## 2. The hypotheses of C07 transfer to the image -/

theorem mwi_affine_sorted (l : List ℚ) (a b : ℚ) (ha : 0 < a) (h : l.Pairwise (· ≤ ·)) :
    (l.map fun x => a * x + b).Pairwise (· ≤ ·) := by
  rw [List.pairwise_map]
  exact h.imp (fun {x y} hxy => by nlinarith)

theorem mwi_noCrossTies_affine (s : Scores) (a b : ℚ) (ha : 0 < a)
    (h : noCrossTies s = true) : noCrossTies (s.affine a b) = true := by
  unfold noCrossTies at h ⊢
  rw [List.all_eq_true] at h ⊢
  intro p hp
  simp only [Scores.affine, List.mem_map] at hp
  obtain ⟨p0, hp0, rfl⟩ := hp
  have h0 := h p0 hp0
  simp only [Bool.not_eq_true', List.contains_eq_mem, decide_eq_false_iff_not, Scores.affine,
    List.mem_map, not_exists, not_and] at h0 ⊢
  intro q hq hqp
  have : q = p0 := by nlinarith
  exact h0 (this ▸ hq)

theorem mwi_mem_mirror (l : List ℚ) (x : ℚ) : x ∈ c08n_mirror l ↔ -x ∈ l := by
  unfold c08n_mirror
  rw [List.mem_reverse, List.mem_map]
  constructor
  · rintro ⟨y, hy, rfl⟩; rwa [neg_neg]
  · intro h; exact ⟨-x, h, neg_neg x⟩

theorem mwi_noCrossTies_negate (s : Scores) (h : noCrossTies s = true) :
    noCrossTies s.negate = true := by
  unfold noCrossTies at h ⊢
  rw [List.all_eq_true] at h ⊢
  intro p hp
  simp only [Scores.negate, mwi_mem_mirror] at hp
  have h0 := h (-p) hp
  simp only [Bool.not_eq_true', List.contains_eq_mem, decide_eq_false_iff_not, Scores.negate,
    mwi_mem_mirror] at h0 ⊢
  exact h0

/-- an oracle related to `u` by the affine map (as in `C08_affine_threshold`) is lawful -/
theorem mwi_lawful_affine (u u' : Ulp) (a b : ℚ) (ha : 0 < a)
    (hd : ∀ x, u'.down (a * x + b) = a * u.down x + b)
    (hup : ∀ x, u'.up (a * x + b) = a * u.up x + b) (hu : u.Lawful) : u'.Lawful := by
  have key : ∀ y : ℚ, a * ((y - b) / a) + b = y := fun y => by field_simp; ring
  constructor
  · intro y
    have := hd ((y - b) / a)
    rw [key] at this
    rw [this]
    have := hu.down_lt ((y - b) / a)
    have h2 := key y
    nlinarith
  · intro y
    have := hup ((y - b) / a)
    rw [key] at this
    rw [this]
    have := hu.lt_up ((y - b) / a)
    have h2 := key y
    nlinarith

/-- ... and neighbourly on the image of the data -/
theorem mwi_neighbour_affine (u u' : Ulp) (a b : ℚ) (ha : 0 < a)
    (hd : ∀ x, u'.down (a * x + b) = a * u.down x + b)
    (hup : ∀ x, u'.up (a * x + b) = a * u.up x + b) (s : Scores)
    (hadj : u.NeighbourOn (s.pos ++ s.neg)) :
    u'.NeighbourOn ((s.affine a b).pos ++ (s.affine a b).neg) := by
  have hm : ∀ y, y ∈ (s.affine a b).pos ++ (s.affine a b).neg →
      ∃ x ∈ s.pos ++ s.neg, y = a * x + b := by
    intro y hy
    simp only [Scores.affine, List.mem_append, List.mem_map] at hy ⊢
    rcases hy with ⟨x, hx, rfl⟩ | ⟨x, hx, rfl⟩
    · exact ⟨x, Or.inl hx, rfl⟩
    · exact ⟨x, Or.inr hx, rfl⟩
  intro y1 h1 y2 h2 hlt
  obtain ⟨x1, hx1, rfl⟩ := hm y1 h1
  obtain ⟨x2, hx2, rfl⟩ := hm y2 h2
  have hx : x1 < x2 := by nlinarith
  obtain ⟨g1, g2⟩ := hadj x1 hx1 x2 hx2 hx
  rw [hup, hd]
  constructor <;> nlinarith

/-- an oracle related to `u` by negation (`c08n_NegCompat`) is lawful -/
theorem mwi_lawful_negate (u u' : Ulp) (hc : c08n_NegCompat u u') (hu : u.Lawful) :
    u'.Lawful := by
  constructor
  · intro y
    have := hc.down_neg (-y)
    rw [neg_neg] at this
    rw [this]
    have := hu.lt_up (-y)
    linarith
  · intro y
    have := hc.up_neg (-y)
    rw [neg_neg] at this
    rw [this]
    have := hu.down_lt (-y)
    linarith

/-- ... and neighbourly on the negated data -/
theorem mwi_neighbour_negate (u u' : Ulp) (hc : c08n_NegCompat u u') (s : Scores)
    (hadj : u.NeighbourOn (s.pos ++ s.neg)) :
    u'.NeighbourOn (s.negate.pos ++ s.negate.neg) := by
  have hm : ∀ y, y ∈ s.negate.pos ++ s.negate.neg → -y ∈ s.pos ++ s.neg := by
    intro y hy
    simp only [Scores.negate, List.mem_append, mwi_mem_mirror] at hy ⊢
    exact hy
  intro y1 h1 y2 h2 hlt
  obtain ⟨g1, g2⟩ := hadj (-y2) (hm y2 h2) (-y1) (hm y1 h1) (by linarith)
  have e1 := hc.up_neg (-y1)
  have e2 := hc.down_neg (-y2)
  rw [neg_neg] at e1 e2
  rw [e1, e2]
  constructor <;> linarith

/-! ## 3. The code-shaped model -/

/-- **A4 (affine, full AUC).** Under the hypotheses of `C07_code_eq_mw` for `s` with the oracle
`u` and for the rescaled object with the oracle `u'` (sortedness and non-emptiness of the image
follow from those of `s`), the full AUC of the code-shaped model is unchanged by an increasing
affine map of all scores. -/
theorem C08_affine_auc (u u' : Ulp) (hu : u.Lawful) (hu' : u'.Lawful) (s : Scores) (a b : ℚ)
    (ha : 0 < a) (hp : s.pos.Pairwise (· ≤ ·)) (hn : s.neg.Pairwise (· ≤ ·)) (hneg : s.neg ≠ [])
    (hadj : u.NeighbourOn (s.pos ++ s.neg))
    (hadj' : u'.NeighbourOn ((s.affine a b).pos ++ (s.affine a b).neg)) :
    (s.affine a b).auc u' 0 1 .fpr .tpr = s.auc u 0 1 .fpr .tpr := by
  rw [C07_code_eq_mw u hu s hp hn hneg hadj,
    C07_code_eq_mw u' hu' (s.affine a b) (mwi_affine_sorted _ a b ha hp)
      (mwi_affine_sorted _ a b ha hn) (by simpa [Scores.affine] using hneg) hadj',
    mwi_mw_affine s a b ha]

/-- **A4 (affine, partial AUC).** Without cross-class ties the partial AUC over any window
`[lower, upper] ⊆ [0, 1]` is unchanged by an increasing affine map of all scores. -/
theorem C08_affine_auc_partial (u u' : Ulp) (hu : u.Lawful) (hu' : u'.Lawful) (s : Scores)
    (a b : ℚ) (ha : 0 < a) (hp : s.pos.Pairwise (· ≤ ·)) (hn : s.neg.Pairwise (· ≤ ·))
    (hneg : s.neg ≠ []) (hadj : u.NeighbourOn (s.pos ++ s.neg))
    (hadj' : u'.NeighbourOn ((s.affine a b).pos ++ (s.affine a b).neg))
    (hnt : noCrossTies s = true)
    (lower upper : ℚ) (h0 : 0 ≤ lower) (hlu : lower ≤ upper) (h1 : upper ≤ 1) :
    (s.affine a b).auc u' lower upper .fpr .tpr = s.auc u lower upper .fpr .tpr := by
  rw [C07_partial_eq_step u hu s hp hn hneg hadj hnt lower upper h0 hlu h1,
    C07_partial_eq_step u' hu' (s.affine a b) (mwi_affine_sorted _ a b ha hp)
      (mwi_affine_sorted _ a b ha hn) (by simpa [Scores.affine] using hneg) hadj'
      (mwi_noCrossTies_affine s a b ha hnt) lower upper h0 hlu h1,
    mwi_step_affine s a b ha]

/-- **A4 (affine, related oracles).** With the oracle pair of `C08_affine_threshold`
(`nextafter` commutes with the map) the hypotheses on `u'` follow from those on `u`. -/
theorem C08_affine_auc_compat (u u' : Ulp) (hu : u.Lawful) (s : Scores) (a b : ℚ) (ha : 0 < a)
    (hd : ∀ x, u'.down (a * x + b) = a * u.down x + b)
    (hup : ∀ x, u'.up (a * x + b) = a * u.up x + b)
    (hp : s.pos.Pairwise (· ≤ ·)) (hn : s.neg.Pairwise (· ≤ ·)) (hneg : s.neg ≠ [])
    (hadj : u.NeighbourOn (s.pos ++ s.neg)) :
    (s.affine a b).auc u' 0 1 .fpr .tpr = s.auc u 0 1 .fpr .tpr ∧
    (noCrossTies s = true → ∀ lower upper : ℚ, 0 ≤ lower → lower ≤ upper → upper ≤ 1 →
      (s.affine a b).auc u' lower upper .fpr .tpr = s.auc u lower upper .fpr .tpr) :=
  ⟨C08_affine_auc u u' hu (mwi_lawful_affine u u' a b ha hd hup hu) s a b ha hp hn hneg hadj
      (mwi_neighbour_affine u u' a b ha hd hup s hadj),
   fun hnt lower upper h0 hlu h1 =>
    C08_affine_auc_partial u u' hu (mwi_lawful_affine u u' a b ha hd hup hu) s a b ha hp hn hneg
      hadj (mwi_neighbour_affine u u' a b ha hd hup s hadj) hnt lower upper h0 hlu h1⟩

/-- **A4 (negation, full AUC).** Under the hypotheses of `C07_code_eq_mw` for `s` with `u` and
for the negated object with `u'`, the full AUC of the code-shaped model is unchanged by negating
all scores while flipping `score_class`. -/
theorem C08_negate_auc (u u' : Ulp) (hu : u.Lawful) (hu' : u'.Lawful) (s : Scores)
    (hp : s.pos.Pairwise (· ≤ ·)) (hn : s.neg.Pairwise (· ≤ ·)) (hneg : s.neg ≠ [])
    (hadj : u.NeighbourOn (s.pos ++ s.neg))
    (hadj' : u'.NeighbourOn (s.negate.pos ++ s.negate.neg)) :
    s.negate.auc u' 0 1 .fpr .tpr = s.auc u 0 1 .fpr .tpr := by
  have hneg' : s.negate.neg ≠ [] := by
    intro h
    apply hneg
    have : (c08n_mirror s.neg).length = 0 := by
      simp only [Scores.negate] at h; rw [h]; rfl
    rw [c08n_mirror_length] at this
    exact List.eq_nil_of_length_eq_zero this
  rw [C07_code_eq_mw u hu s hp hn hneg hadj,
    C07_code_eq_mw u' hu' s.negate (c08n_mirror_sorted _ hp) (c08n_mirror_sorted _ hn) hneg' hadj',
    mwi_mw_negate s]

/-- **A4 (negation, partial AUC).** Without cross-class ties the partial AUC over any window
`[lower, upper] ⊆ [0, 1]` is unchanged by negating all scores while flipping `score_class`. -/
theorem C08_negate_auc_partial (u u' : Ulp) (hu : u.Lawful) (hu' : u'.Lawful) (s : Scores)
    (hp : s.pos.Pairwise (· ≤ ·)) (hn : s.neg.Pairwise (· ≤ ·)) (hneg : s.neg ≠ [])
    (hadj : u.NeighbourOn (s.pos ++ s.neg))
    (hadj' : u'.NeighbourOn (s.negate.pos ++ s.negate.neg))
    (hnt : noCrossTies s = true)
    (lower upper : ℚ) (h0 : 0 ≤ lower) (hlu : lower ≤ upper) (h1 : upper ≤ 1) :
    s.negate.auc u' lower upper .fpr .tpr = s.auc u lower upper .fpr .tpr := by
  have hneg' : s.negate.neg ≠ [] := by
    intro h
    apply hneg
    have : (c08n_mirror s.neg).length = 0 := by
      simp only [Scores.negate] at h; rw [h]; rfl
    rw [c08n_mirror_length] at this
    exact List.eq_nil_of_length_eq_zero this
  rw [C07_partial_eq_step u hu s hp hn hneg hadj hnt lower upper h0 hlu h1,
    C07_partial_eq_step u' hu' s.negate (c08n_mirror_sorted _ hp) (c08n_mirror_sorted _ hn) hneg'
      hadj' (mwi_noCrossTies_negate s hnt) lower upper h0 hlu h1,
    mwi_step_negate s]

/-- **A4 (negation, related oracles).** With a negation-compatible oracle pair
(`c08n_NegCompat`, e.g. float64 `nextafter` with itself) the hypotheses on `u'` follow from those
on `u`. -/
theorem C08_negate_auc_compat (u u' : Ulp) (hc : c08n_NegCompat u u') (hu : u.Lawful)
    (s : Scores) (hp : s.pos.Pairwise (· ≤ ·)) (hn : s.neg.Pairwise (· ≤ ·)) (hneg : s.neg ≠ [])
    (hadj : u.NeighbourOn (s.pos ++ s.neg)) :
    s.negate.auc u' 0 1 .fpr .tpr = s.auc u 0 1 .fpr .tpr ∧
    (noCrossTies s = true → ∀ lower upper : ℚ, 0 ≤ lower → lower ≤ upper → upper ≤ 1 →
      s.negate.auc u' lower upper .fpr .tpr = s.auc u lower upper .fpr .tpr) :=
  ⟨C08_negate_auc u u' hu (mwi_lawful_negate u u' hc hu) s hp hn hneg hadj
      (mwi_neighbour_negate u u' hc s hadj),
   fun hnt lower upper h0 hlu h1 =>
    C08_negate_auc_partial u u' hu (mwi_lawful_negate u u' hc hu) s hp hn hneg hadj
      (mwi_neighbour_negate u u' hc s hadj) hnt lower upper h0 hlu h1⟩

/-! ### non-vacuity -/

/-- Hypotheses of `C08_affine_auc(_partial/_compat)` are satisfiable: the half-step oracle, the
translation `x ↦ 1·x + 7`, sorted tie-free data with a scored negative. -/
example : Ulp.half.Lawful ∧ (0 : ℚ) < 1 ∧
    (∀ x, Ulp.half.down (1 * x + 7) = 1 * Ulp.half.down x + 7) ∧
    (∀ x, Ulp.half.up (1 * x + 7) = 1 * Ulp.half.up x + 7) ∧
    ([1, 3, 5] : List ℚ).Pairwise (· ≤ ·) ∧ ([2, 4] : List ℚ).Pairwise (· ≤ ·) ∧
    ([2, 4] : List ℚ) ≠ [] ∧ Ulp.half.NeighbourOn ([1, 3, 5] ++ [2, 4]) ∧
    noCrossTies ⟨[1, 3, 5], [2, 4], 1, 2, ⟨.pos, .neg⟩⟩ = true := by
  refine ⟨Ulp.half_lawful, by norm_num, fun x => by simp only [Ulp.half]; ring,
    fun x => by simp only [Ulp.half]; ring, by decide +kernel, by decide +kernel, by simp, ?_,
    by decide +kernel⟩
  intro a ha b hb hab
  simp only [List.cons_append, List.nil_append, List.mem_cons, List.not_mem_nil, or_false]
    at ha hb
  rcases ha with rfl | rfl | rfl | rfl | rfl <;> rcases hb with rfl | rfl | rfl | rfl | rfl <;>
    first
    | (exfalso; revert hab; norm_num; done)
    | (simp only [Ulp.half]; constructor <;> norm_num)

/-- ... and of `C08_negate_auc(_partial/_compat)`: the half-step oracle is compatible with
negation with itself. -/
example : c08n_NegCompat Ulp.half Ulp.half ∧ Ulp.half.Lawful := ⟨c08n_half_compat, Ulp.half_lawful⟩

end SA
