/-
C08 — thresholds under score negation + `score_class` flip.

Negating all scores and flipping `score_class` mirrors the normalised problem of
`_invert_increasing_function`: sorted array `s ↦ (s.map (-·)).reverse`, target `r ↦ 1 - r`,
continuity flag `lc ↦ !lc`, method `m ↦ m.reverse`.  The returned threshold is negated
EXCEPT on one stretch of targets of width `1/N` (`c08n_excluded`), where exactly one of the
two problems is in a sentinel special case: there the two thresholds differ by one oracle
step; the exact values are given by `c08n_invert_negate_excl_*`.
-/
import SA.Theorems.C08

namespace SA

/-! ### the mirrored array -/

/-- the sorted array of the negated scores: `s'[i] = -s[N-1-i]` -/
def c08n_mirror (s : List ℚ) : List ℚ := (s.map fun x => -x).reverse

theorem c08n_mirror_length (s : List ℚ) : (c08n_mirror s).length = s.length := by
  simp [c08n_mirror]

theorem c08n_mirror_getD (s : List ℚ) (i : ℕ) (hi : i < s.length) :
    (c08n_mirror s).getD i 0 = -(s.getD (s.length - 1 - i) 0) := by
  have h1 : i < (c08n_mirror s).length := by rw [c08n_mirror_length]; exact hi
  rw [getD_eq _ i h1, getD_eq s (s.length - 1 - i) (by omega)]
  simp [c08n_mirror, List.getElem_reverse]

theorem c08n_mirror_sorted (s : List ℚ) (hs : s.Pairwise (· ≤ ·)) :
    (c08n_mirror s).Pairwise (· ≤ ·) := by
  unfold c08n_mirror
  rw [List.pairwise_reverse, List.pairwise_map]
  exact hs.imp (fun {a b} hab => by linarith)

/-- sorting the negated list = reversing the negated sorted list -/
theorem c08n_sortQ_map_neg (l : List ℚ) :
    sortQ (l.map fun x => -x) = c08n_mirror (sortQ l) := by
  apply List.Perm.eq_of_pairwise' (r := (· ≤ ·)) (sortQ_pairwise _)
    (c08n_mirror_sorted _ (sortQ_pairwise l))
  unfold c08n_mirror
  exact (sortQ_perm _).trans (((sortQ_perm l).symm.map _).trans (List.reverse_perm _).symm)

theorem c08n_sortQ_of_sorted (l : List ℚ) (hs : l.Pairwise (· ≤ ·)) : sortQ l = l :=
  List.Perm.eq_of_pairwise' (r := (· ≤ ·)) (sortQ_pairwise l) hs (sortQ_perm l)

theorem c08n_sortQ_mirror_append (a b : List ℚ) :
    sortQ (c08n_mirror a ++ c08n_mirror b) = c08n_mirror (sortQ (a ++ b)) := by
  rw [← c08n_sortQ_map_neg]
  apply sortQ_eq_of_perm
  unfold c08n_mirror
  rw [List.map_append]
  exact List.Perm.append (List.reverse_perm _) (List.reverse_perm _)

/-! ### floor / ceiling / clamp under `x ↦ N - 1 - x` -/

theorem c08n_floor_mirror (n : ℤ) (x : ℚ) : ((n : ℚ) - x).floor = n - ceilQ x := by
  rw [ceilQ_eq]
  show ⌊(n : ℚ) - x⌋ = n - ⌈x⌉
  rw [Int.floor_eq_iff]
  have h1 := Int.le_ceil x
  have h2 := Int.ceil_lt_add_one x
  constructor
  · push_cast; linarith
  · push_cast; linarith

theorem c08n_ceil_mirror (n : ℤ) (x : ℚ) : ceilQ ((n : ℚ) - x) = n - x.floor := by
  rw [ceilQ_eq]
  show ⌈(n : ℚ) - x⌉ = n - ⌊x⌋
  rw [Int.ceil_eq_iff]
  have h1 := Int.floor_le x
  have h2 := Int.lt_floor_add_one x
  constructor
  · push_cast; linarith
  · push_cast; linarith

theorem c08n_clamp_mirror (i : ℤ) (n : ℕ) (_hn : n ≠ 0) :
    clampIdx ((n : ℤ) - 1 - i) n = n - 1 - clampIdx i n := by
  unfold clampIdx; omega

/-- value at a mirrored clamped index -/
theorem c08n_getD_clamp (s : List ℚ) (hne : s.length ≠ 0) (i : ℤ) :
    (c08n_mirror s).getD (clampIdx ((s.length : ℤ) - 1 - i) s.length) 0 =
      -(s.getD (clampIdx i s.length) 0) := by
  have hc := clampIdx_lt i s.length hne
  rw [c08n_clamp_mirror i s.length hne, c08n_mirror_getD s _ (by omega)]
  congr 2; omega

/-- **Mirror identity of the three raw branches**: at the mirrored index target `N - 1 - x`
the mirrored array gives the negated value, with `lower` and `higher` exchanged.  No range
condition on `x` (the clamps mirror too). -/
theorem c08n_rawThr_mirror (s : List ℚ) (hne : s.length ≠ 0) (x : ℚ) (m : Method) :
    rawThr (c08n_mirror s) ((s.length : ℚ) - 1 - x) m.reverse = -(rawThr s x m) := by
  have hN : ((s.length : ℚ) - 1 - x) = (((s.length : ℤ) - 1 : ℤ) : ℚ) - x := by push_cast; ring
  have hfl : ((s.length : ℚ) - 1 - x).floor = (s.length : ℤ) - 1 - ceilQ x := by
    rw [hN, c08n_floor_mirror]
  have hce : ceilQ ((s.length : ℚ) - 1 - x) = (s.length : ℤ) - 1 - x.floor := by
    rw [hN, c08n_ceil_mirror]
  cases m
  · -- linear
    simp only [Method.reverse, rawThr, interp, c08n_mirror_length]
    rw [hfl, hce, c08n_getD_clamp s hne, c08n_getD_clamp s hne]
    by_cases hint : ((x.floor : ℤ) : ℚ) = x
    · have hc : ceilQ x = x.floor := by
        rw [ceilQ_eq]; have : (⌊x⌋ : ℚ) = x := hint
        rw [← this]; simp
      rw [hc]; push_cast; rw [hint]; ring
    · have hlt : ((x.floor : ℤ) : ℚ) < x := lt_of_le_of_ne (Int.floor_le x) hint
      have hc : ceilQ x = x.floor + 1 := by
        rw [ceilQ_eq, Int.ceil_eq_iff]; constructor
        · push_cast; have : ((⌊x⌋ : ℤ) : ℚ) < x := hlt; linarith
        · push_cast; have := Int.lt_floor_add_one x; have h3 : x.floor = ⌊x⌋ := rfl
          rw [h3]; linarith
      rw [hc]; push_cast; ring
  · -- lower ↦ higher
    simp only [Method.reverse, rawThr, c08n_mirror_length]
    rw [hce, c08n_getD_clamp s hne]
  · -- higher ↦ lower
    simp only [Method.reverse, rawThr, c08n_mirror_length]
    rw [hfl, c08n_getD_clamp s hne]

theorem c08n_interp_mirror (s : List ℚ) (hne : s.length ≠ 0) (x : ℚ) :
    interp (c08n_mirror s) ((s.length : ℚ) - 1 - x) = -(interp s x) :=
  c08n_rawThr_mirror s hne x .linear

/-! ### the excluded stretch -/

/-- The targets (of the normalised problem: array length `N`, normalised target `r`,
continuity flag `lc`) on which exactly one of the two mirrored problems is in a sentinel
special case.  `lc = true`: `1 - 1/N ≤ r < 1` (and `0 < r`, which only matters for `N = 1`);
`lc = false`: `0 < r ≤ 1/N` (and `r < 1`, which only matters for `N = 1`). -/
def c08n_excluded (N : ℕ) (r : ℚ) (lc : Bool) : Bool :=
  if lc then decide (0 < r ∧ 1 - 1 / (N : ℚ) ≤ r ∧ r < 1)
  else decide (0 < r ∧ r ≤ 1 / (N : ℚ) ∧ r < 1)

/-- the excluded set is itself mirror-symmetric -/
theorem c08n_excluded_mirror (N : ℕ) (r : ℚ) (lc : Bool) :
    c08n_excluded N (1 - r) (!lc) = c08n_excluded N r lc := by
  cases lc <;> simp only [c08n_excluded, Bool.not_false, Bool.not_true, if_true,
    Bool.false_eq_true, if_false, decide_eq_decide] <;>
    constructor <;> rintro ⟨h1, h2, h3⟩ <;> refine ⟨?_, ?_, ?_⟩ <;> linarith

/-- oracle pair compatible with negation: `nextafter(-x, ∓inf) = -nextafter(x, ±inf)` -/
structure c08n_NegCompat (u u' : Ulp) : Prop where
  down_neg : ∀ x, u'.down (-x) = -(u.up x)
  up_neg : ∀ x, u'.up (-x) = -(u.down x)

theorem c08n_mirror_head (s : List ℚ) (hne : s.length ≠ 0) :
    (c08n_mirror s).getD 0 0 = -(s.getD (s.length - 1) 0) := by
  rw [c08n_mirror_getD s 0 (by omega), Nat.sub_zero]

theorem c08n_mirror_last (s : List ℚ) (hne : s.length ≠ 0) :
    (c08n_mirror s).getD ((c08n_mirror s).length - 1) 0 = -(s.getD 0 0) := by
  rw [c08n_mirror_length, c08n_mirror_getD s _ (by omega)]
  congr 2; omega

/-- **Negation of the normalised threshold** (every method, `lower`/`higher` exchanged):
outside the excluded stretch the mirrored problem returns the negated threshold. -/
theorem c08n_invert_negate_methods (u u' : Ulp) (hc : c08n_NegCompat u u') (s : List ℚ)
    (hne : s.length ≠ 0) (r : ℚ) (lc : Bool) (m : Method)
    (hex : c08n_excluded s.length r lc = false) :
    invertIncreasing u' (c08n_mirror s) (1 - r) (!lc) m.reverse =
      -(invertIncreasing u s r lc m) := by
  have hN : (0 : ℚ) < (s.length : ℚ) := by exact_mod_cast Nat.pos_of_ne_zero hne
  have hinv : (0 : ℚ) < 1 / (s.length : ℚ) := by positivity
  have hcancel : 1 / (s.length : ℚ) * (s.length : ℚ) = 1 := by field_simp
  simp only [invertIncreasing_eq, c08n_mirror_length]
  rw [c08n_mirror_head s hne]
  have hl := c08n_mirror_last s hne
  rw [c08n_mirror_length] at hl
  rw [hl, hc.down_neg, hc.up_neg]
  cases lc
  · -- original right-continuous (shifted), mirrored left-continuous
    simp only [c08n_excluded, Bool.false_eq_true, if_false, decide_eq_false_iff_not,
      Bool.not_false, if_true] at hex ⊢
    by_cases h1 : 1 ≤ r
    · have a1 : ¬ (1 ≤ 1 - r) := by linarith
      have a2 : 1 - r ≤ 0 := by linarith
      simp only [h1, a1, a2, if_true, if_false]
    · by_cases h0 : r - 1 / (s.length : ℚ) ≤ 0
      · have hr0 : r ≤ 0 := by
          by_contra hcon
          exact hex ⟨by linarith, by linarith, by linarith⟩
        have a1 : 1 ≤ 1 - r := by linarith
        simp only [h1, h0, a1, if_true, if_false]
      · have a1 : ¬ (1 ≤ 1 - r) := by linarith
        have a2 : ¬ (1 - r ≤ 0) := by linarith
        simp only [h1, h0, a1, a2, if_false]
        have hx : indexTarget (c08n_mirror s) (1 - r) true =
            (s.length : ℚ) - 1 - indexTarget s r false := by
          simp only [indexTarget, c08n_mirror_length, if_true, Bool.false_eq_true, if_false]
          have : (r - 1 / (s.length : ℚ)) * (s.length : ℚ) = r * (s.length : ℚ) - 1 := by
            rw [sub_mul, hcancel]
          rw [this]; ring
        rw [hx, c08n_rawThr_mirror s hne]
  · -- original left-continuous, mirrored right-continuous (shifted)
    simp only [c08n_excluded, if_true, decide_eq_false_iff_not, Bool.not_true,
      Bool.false_eq_true, if_false] at hex ⊢
    by_cases h1 : 1 ≤ r
    · have a1 : ¬ (1 ≤ 1 - r) := by linarith
      have a2 : 1 - r - 1 / (s.length : ℚ) ≤ 0 := by linarith
      simp only [h1, a1, a2, if_true, if_false]
    · by_cases h0 : r ≤ 0
      · have a1 : 1 ≤ 1 - r := by linarith
        simp only [h1, h0, a1, if_true, if_false]
      · have a1 : ¬ (1 ≤ 1 - r) := by linarith
        have a2 : ¬ (1 - r - 1 / (s.length : ℚ) ≤ 0) := by
          intro hcon
          exact hex ⟨by linarith, by linarith, by linarith⟩
        simp only [h1, h0, a1, a2, if_false]
        have hx : indexTarget (c08n_mirror s) (1 - r) false =
            (s.length : ℚ) - 1 - indexTarget s r true := by
          simp only [indexTarget, c08n_mirror_length, if_true, Bool.false_eq_true, if_false]
          have : (1 - r - 1 / (s.length : ℚ)) * (s.length : ℚ) =
              (1 - r) * (s.length : ℚ) - 1 := by
            rw [sub_mul _ (1 / (s.length : ℚ)), hcancel]
          rw [this]; ring
        rw [hx, c08n_rawThr_mirror s hne]

/-- **Negation of the normalised threshold, method linear.** -/
theorem c08n_invert_negate (u u' : Ulp) (hc : c08n_NegCompat u u') (s : List ℚ)
    (hne : s.length ≠ 0) (r : ℚ) (lc : Bool) (hex : c08n_excluded s.length r lc = false) :
    invertIncreasing u' (c08n_mirror s) (1 - r) (!lc) .linear =
      -(invertIncreasing u s r lc .linear) :=
  c08n_invert_negate_methods u u' hc s hne r lc .linear hex

/-- every raw branch at an index target in `[N-1, N)` is the last sample -/
theorem c08n_rawThr_top (s : List ℚ) (_hne : s.length ≠ 0) (x : ℚ)
    (h1 : (s.length : ℚ) - 1 ≤ x) (h2 : x < (s.length : ℚ)) (m : Method) :
    rawThr s x m = s.getD (s.length - 1) 0 := by
  have hfl : x.floor = (s.length : ℤ) - 1 := by
    show ⌊x⌋ = _
    rw [Int.floor_eq_iff]; constructor
    · push_cast; linarith
    · push_cast; linarith
  have hce : (s.length : ℤ) - 1 ≤ ceilQ x := by
    rw [← hfl]; exact floor_le_ceilQ x
  have c1 : clampIdx x.floor s.length = s.length - 1 := by rw [hfl]; unfold clampIdx; omega
  have c2 : clampIdx (ceilQ x) s.length = s.length - 1 := by unfold clampIdx; omega
  cases m <;> simp only [rawThr, interp, c1, c2]
  ring

/-- **Excluded stretch, `lc = true`** (`0 < r`, `1 - 1/N ≤ r < 1`): the original problem is
interior and returns the last sample (every method), the mirrored problem is in its lower
special case: the two results differ by exactly one oracle step at the last sample. -/
theorem c08n_invert_negate_excl_true (u u' : Ulp) (hc : c08n_NegCompat u u') (s : List ℚ)
    (hne : s.length ≠ 0) (r : ℚ) (m : Method)
    (hex : c08n_excluded s.length r true = true) :
    invertIncreasing u s r true m = s.getD (s.length - 1) 0 ∧
    invertIncreasing u' (c08n_mirror s) (1 - r) false m.reverse =
      -(u.up (s.getD (s.length - 1) 0)) := by
  have hN : (0 : ℚ) < (s.length : ℚ) := by exact_mod_cast Nat.pos_of_ne_zero hne
  have hcancel : 1 / (s.length : ℚ) * (s.length : ℚ) = 1 := by field_simp
  simp only [c08n_excluded, if_true, decide_eq_true_eq] at hex
  obtain ⟨e0, e1, e2⟩ := hex
  simp only [invertIncreasing_eq, c08n_mirror_length]
  have a1 : ¬ (1 ≤ r) := by linarith
  have a2 : ¬ (r ≤ 0) := by linarith
  have b1 : ¬ (1 ≤ 1 - r) := by linarith
  have b2 : 1 - r - 1 / (s.length : ℚ) ≤ 0 := by linarith
  simp only [a1, a2, b1, b2, if_true, if_false, Bool.false_eq_true]
  constructor
  · apply c08n_rawThr_top s hne
    · simp only [indexTarget, if_true]
      have := mul_le_mul_of_nonneg_right e1 (le_of_lt hN)
      rw [sub_mul, hcancel] at this; linarith
    · simp only [indexTarget, if_true]
      have := mul_lt_mul_of_pos_right e2 hN
      linarith
  · rw [c08n_mirror_head s hne, hc.down_neg]

/-- **Excluded stretch, `lc = false`** (`0 < r ≤ 1/N`, `r < 1`): the original problem is in
its lower special case, the mirrored problem is interior and returns its last sample
`-s[0]` (every method): the two results differ by exactly one oracle step at the first
sample. -/
theorem c08n_invert_negate_excl_false (u u' : Ulp) (s : List ℚ)
    (hne : s.length ≠ 0) (r : ℚ) (m : Method)
    (hex : c08n_excluded s.length r false = true) :
    invertIncreasing u s r false m = u.down (s.getD 0 0) ∧
    invertIncreasing u' (c08n_mirror s) (1 - r) true m.reverse = -(s.getD 0 0) := by
  have hN : (0 : ℚ) < (s.length : ℚ) := by exact_mod_cast Nat.pos_of_ne_zero hne
  have hcancel : 1 / (s.length : ℚ) * (s.length : ℚ) = 1 := by field_simp
  simp only [c08n_excluded, Bool.false_eq_true, if_false, decide_eq_true_eq] at hex
  obtain ⟨e0, e1, e2⟩ := hex
  simp only [invertIncreasing_eq, c08n_mirror_length]
  have a1 : ¬ (1 ≤ r) := by linarith
  have a2 : r - 1 / (s.length : ℚ) ≤ 0 := by linarith
  have b1 : ¬ (1 ≤ 1 - r) := by linarith
  have b2 : ¬ (1 - r ≤ 0) := by linarith
  simp only [a1, a2, b1, b2, if_true, if_false, Bool.false_eq_true]
  refine ⟨trivial, ?_⟩
  have hl := c08n_mirror_last s hne
  rw [c08n_mirror_length] at hl
  rw [← hl]
  have := c08n_rawThr_top (c08n_mirror s) (by rw [c08n_mirror_length]; exact hne)
    (indexTarget (c08n_mirror s) (1 - r) true) ?_ ?_ m.reverse
  · rw [this, c08n_mirror_length]
  · simp only [indexTarget, if_true, c08n_mirror_length]
    have := mul_le_mul_of_nonneg_right e1 (le_of_lt hN)
    rw [hcancel] at this; linarith
  · simp only [indexTarget, if_true, c08n_mirror_length]
    nlinarith

/-! ### lift to `Scores.thresholdAt` -/

/-- The object holding the negated scores with `score_class` flipped (arrays sorted again:
negate and reverse; easy counts and `equal_class` unchanged). -/
def Scores.negate (s : Scores) : Scores :=
  ⟨c08n_mirror s.pos, c08n_mirror s.neg, s.easyPos, s.easyNeg,
    ⟨s.cfg.scoreClass.flip, s.cfg.equalClass⟩⟩

/-- `Scores.negate` is what the constructor builds from the negated arrays (it sorts). -/
theorem c08n_negate_eq_make (s : Scores) (hp : s.pos.Pairwise (· ≤ ·))
    (hn : s.neg.Pairwise (· ≤ ·)) :
    Scores.make (s.pos.map fun x => -x) (s.neg.map fun x => -x) s.easyPos s.easyNeg
      ⟨s.cfg.scoreClass.flip, s.cfg.equalClass⟩ false = s.negate := by
  simp only [Scores.make, Bool.false_eq_true, if_false, Scores.negate, c08n_sortQ_map_neg,
    c08n_sortQ_of_sorted _ hp, c08n_sortQ_of_sorted _ hn]

theorem c08n_metricArray_negate (s : Scores) (metric : Metric) :
    s.negate.metricArray metric = c08n_mirror (s.metricArray metric) := by
  cases metric <;> simp only [Scores.metricArray, Scores.negate, Scores.concat] <;>
    first
    | rfl
    | exact c08n_sortQ_mirror_append _ _

theorem c08n_rescale_negate (s : Scores) (metric : Metric) (r : ℚ) :
    s.negate.rescale metric r = s.rescale metric r := by
  cases metric <;>
    simp [Scores.rescale, Scores.negate, c08n_mirror_length, Scores.nbAllPos, Scores.nbAllNeg,
      Scores.nbAll, Scores.nbEasy, Scores.nbHard, Scores.hardPosRatio, Scores.hardNegRatio,
      Scores.hardRatio, Scores.easyRatio]

theorem c08n_evenFlips_negate (s : Scores) (inc : Bool) :
    evenFlips s.negate.cfg inc = !evenFlips s.cfg inc := by
  obtain ⟨p, n, ep, en, ⟨sc, ec⟩⟩ := s
  cases sc <;> cases inc <;> simp [evenFlips, Scores.negate, Label.flip]

theorem c08n_normTarget_negate (s : Scores) (metric : Metric) (r : ℚ) :
    normTarget s.negate metric r = 1 - normTarget s metric r := by
  unfold normTarget
  rw [c08n_evenFlips_negate, c08n_rescale_negate]
  cases evenFlips s.cfg metric.increasing <;> simp

theorem c08n_normLc_negate (s : Scores) (inc : Bool) (rc : Label) :
    normLc s.negate.cfg inc rc = !normLc s.cfg inc rc := by
  obtain ⟨p, n, ep, en, ⟨sc, ec⟩⟩ := s
  cases sc <;> cases ec <;> cases inc <;> cases rc <;>
    simp [normLc, normalise, Scores.negate, Label.flip]

theorem c08n_method_reverse_reverse (m : Method) : m.reverse.reverse = m := by
  cases m <;> rfl

/-- normalised method of the negated object = reverse of the original's -/
theorem c08n_normMethod_negate (s : Scores) (inc : Bool) (m : Method) :
    (if evenFlips s.negate.cfg inc then m else m.reverse) =
      (if evenFlips s.cfg inc then m else m.reverse).reverse := by
  rw [c08n_evenFlips_negate]
  cases evenFlips s.cfg inc <;> simp [c08n_method_reverse_reverse]

/-- The hypothesis of `C08_negate_threshold` as a decidable predicate of the object, the
metric and the target: the normalised problem is outside the excluded stretch. -/
def c08n_regular (s : Scores) (metric : Metric) (r : ℚ) : Bool :=
  !c08n_excluded (s.metricArray metric).length (normTarget s metric r)
    (normLc s.cfg metric.increasing metric.ratioClass)

/-- **C08 (negation, thresholds), every method.** Negating all scores while flipping
`score_class` negates every threshold returned by threshold setting — all six metrics, all
configurations, easy counts, all three methods — for every target whose normalised value is
outside the excluded stretch (`c08n_regular`), given a `nextafter` oracle pair compatible
with negation.  Errors (empty array) correspond. -/
theorem C08_negate_threshold_methods (u u' : Ulp) (hc : c08n_NegCompat u u') (s : Scores)
    (metric : Metric) (r : ℚ) (m : Method) (hreg : c08n_regular s metric r = true) :
    s.negate.thresholdAt u' metric r m = (s.thresholdAt u metric r m).map (fun t => -t) := by
  by_cases hne : (s.metricArray metric).length = 0
  · unfold Scores.thresholdAt
    rw [c08n_metricArray_negate, c08n_mirror_length]
    simp only [hne, if_true]; rfl
  · have hne' : (s.negate.metricArray metric).length ≠ 0 := by
      rw [c08n_metricArray_negate, c08n_mirror_length]; exact hne
    rw [thresholdAt_eq u' s.negate metric r m hne', thresholdAt_eq u s metric r m hne]
    rw [c08n_metricArray_negate, c08n_normTarget_negate, c08n_normLc_negate,
      c08n_normMethod_negate]
    simp only [c08n_regular, Bool.not_eq_true'] at hreg
    rw [c08n_invert_negate_methods u u' hc _ hne _ _ _ hreg]
    rfl

/-- **C08 (negation, thresholds), method linear** — the clause as claimed. -/
theorem C08_negate_threshold (u u' : Ulp) (hc : c08n_NegCompat u u') (s : Scores)
    (metric : Metric) (r : ℚ) (hreg : c08n_regular s metric r = true) :
    s.negate.thresholdAt u' metric r .linear =
      (s.thresholdAt u metric r .linear).map (fun t => -t) :=
  C08_negate_threshold_methods u u' hc s metric r .linear hreg

/-- The same for the object built by the constructor from the negated arrays. -/
theorem C08_negate_threshold_make (u u' : Ulp) (hc : c08n_NegCompat u u')
    (pos neg : List ℚ) (ep en : ℕ) (sc ec : Label) (metric : Metric) (r : ℚ) (m : Method)
    (hreg : c08n_regular (Scores.make pos neg ep en ⟨sc, ec⟩ false) metric r = true) :
    (Scores.make (pos.map fun x => -x) (neg.map fun x => -x) ep en ⟨sc.flip, ec⟩ false).thresholdAt
        u' metric r m =
      ((Scores.make pos neg ep en ⟨sc, ec⟩ false).thresholdAt u metric r m).map (fun t => -t) := by
  rw [← C08_negate_threshold_methods u u' hc _ metric r m hreg]
  congr 1
  simp only [Scores.make, Bool.false_eq_true, if_false, Scores.negate, c08n_sortQ_map_neg]

/-- **On the excluded stretch nothing is hidden**: the two thresholds are given exactly; they
differ by one oracle step at an extreme sample of the metric's array `a`
(`-up(a_last)` vs `-a_last`, or `-down(a_0)` vs `-a_0`). -/
theorem C08_negate_threshold_excluded (u u' : Ulp) (hc : c08n_NegCompat u u') (s : Scores)
    (metric : Metric) (r : ℚ) (m : Method) (hne : (s.metricArray metric).length ≠ 0)
    (hreg : c08n_regular s metric r = false) :
    if normLc s.cfg metric.increasing metric.ratioClass then
      s.thresholdAt u metric r m =
        .ok ((s.metricArray metric).getD ((s.metricArray metric).length - 1) 0) ∧
      s.negate.thresholdAt u' metric r m =
        .ok (-(u.up ((s.metricArray metric).getD ((s.metricArray metric).length - 1) 0)))
    else
      s.thresholdAt u metric r m = .ok (u.down ((s.metricArray metric).getD 0 0)) ∧
      s.negate.thresholdAt u' metric r m = .ok (-((s.metricArray metric).getD 0 0)) := by
  have hne' : (s.negate.metricArray metric).length ≠ 0 := by
    rw [c08n_metricArray_negate, c08n_mirror_length]; exact hne
  rw [thresholdAt_eq u' s.negate metric r m hne', thresholdAt_eq u s metric r m hne]
  rw [c08n_metricArray_negate, c08n_normTarget_negate, c08n_normLc_negate,
    c08n_normMethod_negate]
  simp only [c08n_regular, Bool.not_eq_false'] at hreg
  cases hlc : normLc s.cfg metric.increasing metric.ratioClass
  · rw [hlc] at hreg
    obtain ⟨h1, h2⟩ := c08n_invert_negate_excl_false u u' _ hne _
      (if evenFlips s.cfg metric.increasing then m else m.reverse) hreg
    simp only [Bool.false_eq_true, if_false, Bool.not_false]
    rw [h1, h2]; exact ⟨rfl, rfl⟩
  · rw [hlc] at hreg
    obtain ⟨h1, h2⟩ := c08n_invert_negate_excl_true u u' hc _ hne _
      (if evenFlips s.cfg metric.increasing then m else m.reverse) hreg
    simp only [if_true, Bool.not_true]
    rw [h1, h2]; exact ⟨rfl, rfl⟩

/-! ### non-vacuity -/

/-- the half-step oracle is compatible with negation (with itself) -/
theorem c08n_half_compat : c08n_NegCompat Ulp.half Ulp.half :=
  ⟨fun x => by simp only [Ulp.half]; ring, fun x => by simp only [Ulp.half]; ring⟩

/-- the float64 `nextafter` model used by the driver is compatible with negation -/
theorem c08n_float64_compat : c08n_NegCompat Ulp.float64 Ulp.float64 := by
  constructor
  · intro x
    show f64Down (-x) = -(f64Up x)
    unfold f64Down f64Up
    by_cases h : 0 ≤ x
    · have h' : ¬ (0 < -x) := by linarith
      simp only [h, h', if_true, if_false, neg_neg]
    · have h' : 0 < -x := by linarith
      simp only [h, h', if_true, if_false, neg_neg]
  · intro x
    show f64Up (-x) = -(f64Down x)
    unfold f64Down f64Up
    by_cases h : 0 < x
    · have h' : ¬ (0 ≤ -x) := by linarith
      simp only [h, h', if_true, if_false, neg_neg]
    · have h' : 0 ≤ -x := by linarith
      simp only [h, h', if_true, if_false, neg_neg]

/-- a target satisfying the hypothesis: FNR = 1/2 on four positives, `score_class = pos` -/
example : c08n_regular ⟨[1, 2, 3, 5], [0, 2], 0, 0, ⟨.pos, .pos⟩⟩ .fnr (1 / 2) = true := by
  simp only [c08n_regular, c08n_excluded, Scores.metricArray, normTarget, normLc, normalise,
    evenFlips, Metric.increasing, Metric.ratioClass, Scores.rescale, Scores.hardPosRatio]
  norm_num

/-- ... and a target in the excluded stretch: FNR = 1/8 ≤ 1/N with `equal_class = neg` -/
example : c08n_regular ⟨[1, 2, 3, 5], [0, 2], 0, 0, ⟨.pos, .neg⟩⟩ .fnr (1 / 8) = false := by
  simp only [c08n_regular, c08n_excluded, Scores.metricArray, normTarget, normLc, normalise,
    evenFlips, Metric.increasing, Metric.ratioClass, Scores.rescale, Scores.hardPosRatio]
  norm_num
  decide

end SA
