/-
C08 — `eer()` under score negation + `score_class` flip.

Claim (C08): "Negating all scores together with flipping `score_class` negates every threshold
set by `threshold_at_*` and leaves every metric, the EER and the AUC unchanged."

For `eer()` the claim is FALSE in the model (and, checked by hand, in the Python):

* `C08_negate_eer_statement_false`, `C08_negate_eer_value_statement_false`: with a score shared
  by the two classes (pos = [1], neg = [1, 1], float64 `nextafter`) `eer()` returns
  `(1, 1/4)` and the negated object `(-1, 2^-35)`: the EER VALUE changes from 0.25 to 3e-11.
* `C08_negate_eer_value_tiefree_statement_false`: without any tie (pos = [2], neg = [1, 3],
  float64) the results are `(2, 1/4)` and `(-(2 + 2^-33), 1/4 - 2^-35)`: the value moves by the
  resolution of the bisection, the threshold by much more than one `nextafter` step.
* `C08_negate_eer_threshold_tiefree_false`: without any tie (pos = [1], neg = [2], one easy
  negative, float64) the value and the path (a cap) agree, but the thresholds are `1` and
  `-nextafter(1, +inf)`: off by one step.

All come from the one asymmetry of threshold setting under negation: the excluded stretch of
`C08_negate_threshold` (targets whose rescaled value is within `1/N` of 1 for
`equal_class = pos`, of 0 for `equal_class = neg`, `c08e_regularAt_iff`), where the two
thresholds differ by one `nextafter` step.  A step is enough to turn a zero of the root-finder
objective into a non-zero, which moves an end of the flat stretch of roots.

What is TRUE, and proved here for every object, configuration, easy counts, fuel and every
`nextafter` oracle pair compatible with negation:

* `C08_negate_eer_objective`: the objective handed to `_find_root` is the same function at
  every regular target (always at 0).
* `C08_negate_eer_path` / `C08_negate_eer_value`: if the two objectives have the same SIGN at
  the targets that `s.eer` probes (`max_eer` and the bisection midpoints), the negated object
  takes the mirrored path and returns the same EER value (errors correspond).
* `C08_negate_eer_partial_signs`: if moreover the final threshold call is regular, the returned
  threshold is negated.
* `C08_negate_eer_partial`: the same under the decidable hypothesis `c08e_regularRun` (every
  threshold call of the run is regular).
* `C08_negate_eer_shortcut`: on the perfect-separation shortcuts, unconditionally.
-/
import SA.Proofs.EerNegate

namespace SA

/-! ### the objective of the root finder -/

/-- **C08 (negation, EER objective).** At every target `x` at which both threshold calls are
regular, the function handed to `_find_root` by the negated object has the same value as that
of the original (`sign` and the threshold difference both change sign). -/
theorem C08_negate_eer_objective (u u' : Ulp) (hc : c08n_NegCompat u u') (s : Scores)
    (hp : s.pos.length ≠ 0) (hn : s.neg.length ≠ 0) (x : ℚ)
    (hx : c08e_regularAt s x = true) :
    c08e_objective u' s.negate x = c08e_objective u s x :=
  c08e_objective_negate u u' hc s hp hn x hx

/-- ... in particular at 0, without any regularity hypothesis. -/
theorem C08_negate_eer_objective_zero (u u' : Ulp) (hc : c08n_NegCompat u u') (s : Scores)
    (hp : s.pos.length ≠ 0) (hn : s.neg.length ≠ 0) :
    c08e_objective u' s.negate 0 = c08e_objective u s 0 :=
  c08e_objective_negate_zero u u' hc s hp hn

/-- `c08e_objective` is the `f` of `eer()`: `sign * (thr_fpr(x) - thr_fnr(x))`. -/
theorem c08e_objective_def (u : Ulp) (s : Scores) (x : ℚ) :
    c08e_objective u s x = -(thrVal u s .fpr 0 - thrVal u s .fnr 0) *
      (thrVal u s .fpr x - thrVal u s .fnr x) := rfl

/-! ### the path and the EER value -/

/-- **C08 (negation, EER path).** If the objective of the negated object agrees in sign with
that of `s` at every target that `s.eer` probes (`max_eer`, bisection midpoints), then the
negated object takes the mirrored path: the same error, the other perfect-separation shortcut,
the same cap, or the bisection with the same value. -/
theorem C08_negate_eer_path (u u' : Ulp) (hc : c08n_NegCompat u u') (s : Scores) (fuel : ℕ)
    (hs : ∀ x ∈ c08e_probes u s fuel,
      c08e_sameSign (c08e_objective u' s.negate x) (c08e_objective u s x)) :
    c08e_eerPath u' s.negate fuel = (c08e_eerPath u s fuel).mirror := by
  by_cases hE : s.pos.length = 0 ∨ s.neg.length = 0
  · have hE' : s.negate.pos.length = 0 ∨ s.negate.neg.length = 0 := by
      rw [c08e_pos_len_negate, c08e_neg_len_negate]; exact hE
    unfold c08e_eerPath c08e_corePath
    rw [if_pos hE, if_pos hE']; rfl
  · rw [not_or] at hE
    rw [c08e_eerPath_negate_core u' s fuel hE.1 hE.2]
    exact c08e_corePath_negate _ _ _ _ _ _ _ _ _ _ _ fuel
      (fun _ => c08e_sameSign_of_eq (c08e_objective_negate_zero u u' hc s hE.1 hE.2)) hs

/-- **C08 (negation, EER value).** Under the same sign hypothesis the EER value is unchanged
(and errors correspond) — whatever happens to the threshold. -/
theorem C08_negate_eer_value (u u' : Ulp) (hc : c08n_NegCompat u u') (s : Scores) (fuel : ℕ)
    (hs : ∀ x ∈ c08e_probes u s fuel,
      c08e_sameSign (c08e_objective u' s.negate x) (c08e_objective u s x)) :
    (s.negate.eer u' fuel).map Prod.snd = (s.eer u fuel).map Prod.snd := by
  rw [c08e_eer_eq, c08e_eer_eq, C08_negate_eer_path u u' hc s fuel hs]
  unfold c08e_finish
  rw [c08e_hardPos_negate, c08e_hardNeg_negate]
  exact c08e_coreFinish_rate _ _ _ _ _ _ _ _ _ _ _ _ _ _ _

/-! ### threshold and value -/

/-- **C08 (negation, EER), sign form.** Same signs of the two objectives at the probes of
`s.eer`, and the final threshold call(s) regular: `eer()` of the negated object returns the
negated threshold and the same EER value; errors correspond. -/
theorem C08_negate_eer_partial_signs (u u' : Ulp) (hc : c08n_NegCompat u u') (s : Scores)
    (fuel : ℕ)
    (hs : ∀ x ∈ c08e_probes u s fuel,
      c08e_sameSign (c08e_objective u' s.negate x) (c08e_objective u s x))
    (hf : c08e_finalRegular s (c08e_eerPath u s fuel) = true) :
    s.negate.eer u' fuel = (s.eer u fuel).map (fun (t, e) => (-t, e)) := by
  by_cases hE : s.pos.length = 0 ∨ s.neg.length = 0
  · have hE' : s.negate.pos.length = 0 ∨ s.negate.neg.length = 0 := by
      rw [c08e_pos_len_negate, c08e_neg_len_negate]; exact hE
    rw [c08e_eer_empty u s fuel hE, c08e_eer_empty u' s.negate fuel hE']; rfl
  · rw [not_or] at hE
    rw [c08e_eer_eq, c08e_eer_eq, C08_negate_eer_path u u' hc s fuel hs,
      c08e_finish_negate_core u' s _ hE.1 hE.2]
    exact c08e_coreFinish_negate _ _ _ _ _ _ _ _ _ _ _
      (c08e_finalNeg_of_regular u u' hc s hE.1 hE.2 _ hf)

/-- regular targets give equal objectives, hence equal signs -/
theorem c08e_signs_of_regular (u u' : Ulp) (hc : c08n_NegCompat u u') (s : Scores) (fuel : ℕ)
    (h : (c08e_probes u s fuel).all (c08e_regularAt s) = true) :
    ∀ x ∈ c08e_probes u s fuel,
      c08e_sameSign (c08e_objective u' s.negate x) (c08e_objective u s x) := by
  intro x hx
  by_cases hE : s.pos.length = 0 ∨ s.neg.length = 0
  · exfalso
    unfold c08e_probes c08e_coreProbes at hx
    rw [if_pos hE] at hx
    cases hx
  · rw [not_or] at hE
    exact c08e_sameSign_of_eq
      (c08e_objective_negate u u' hc s hE.1 hE.2 x (List.all_eq_true.mp h x hx))

/-- **C08 (negation, EER), partial.** If every threshold call made by `s.eer u fuel` is regular
(`c08e_regularRun`: the rescaled targets `min(x / hard_ratio, 1)` at `max_eer`, at the bisection
midpoints and at the final call are outside the excluded stretch, see `c08e_regularAt_iff`),
then `eer()` of the object with all scores negated and `score_class` flipped returns the negated
threshold and the same EER value; errors correspond.  All configurations, easy counts, ties,
fuel; any oracle pair compatible with negation. -/
theorem C08_negate_eer_partial (u u' : Ulp) (hc : c08n_NegCompat u u') (s : Scores) (fuel : ℕ)
    (hreg : c08e_regularRun u s fuel = true) :
    s.negate.eer u' fuel = (s.eer u fuel).map (fun (t, e) => (-t, e)) := by
  simp only [c08e_regularRun, Bool.and_eq_true] at hreg
  exact C08_negate_eer_partial_signs u u' hc s fuel
    (c08e_signs_of_regular u u' hc s fuel hreg.1) hreg.2

/-- The same in the `(t, e)` form. -/
theorem C08_negate_eer_partial_ok (u u' : Ulp) (hc : c08n_NegCompat u u') (s : Scores)
    (fuel : ℕ) (hreg : c08e_regularRun u s fuel = true) (t e : ℚ)
    (h : s.eer u fuel = .ok (t, e)) : s.negate.eer u' fuel = .ok (-t, e) := by
  rw [C08_negate_eer_partial u u' hc s fuel hreg, h]; rfl

/-- The same for the object that the constructor builds from the negated arrays. -/
theorem C08_negate_eer_partial_make (u u' : Ulp) (hc : c08n_NegCompat u u') (s : Scores)
    (hp : s.pos.Pairwise (· ≤ ·)) (hn : s.neg.Pairwise (· ≤ ·)) (fuel : ℕ)
    (hreg : c08e_regularRun u s fuel = true) :
    (Scores.make (s.pos.map fun x => -x) (s.neg.map fun x => -x) s.easyPos s.easyNeg
      ⟨s.cfg.scoreClass.flip, s.cfg.equalClass⟩ false).eer u' fuel =
      (s.eer u fuel).map (fun (t, e) => (-t, e)) := by
  rw [c08n_negate_eq_make s hp hn]
  exact C08_negate_eer_partial u u' hc s fuel hreg

/-- **C08 (negation, EER), perfect separation.** When `s.eer` returns through one of the two
perfect-separation shortcuts, the negated object returns through the other one with the negated
threshold and EER 0 — no hypothesis on the oracles, on ties or on regularity. -/
theorem C08_negate_eer_shortcut (u u' : Ulp) (s : Scores) (fuel : ℕ)
    (h : c08e_eerPath u s fuel = .sepPos ∨ c08e_eerPath u s fuel = .sepNeg) :
    s.negate.eer u' fuel = (s.eer u fuel).map (fun (t, e) => (-t, e)) ∧
      (s.eer u fuel).map Prod.snd = .ok 0 := by
  have hE : ¬ (s.pos.length = 0 ∨ s.neg.length = 0) := by
    intro hE
    unfold c08e_eerPath c08e_corePath at h
    rw [if_pos hE] at h
    rcases h with h | h <;> cases h
  have hE' := hE
  rw [not_or] at hE'
  have hprobes : c08e_probes u s fuel = [] := c08e_coreProbes_nil_of_sep _ _ _ _ _ _ _ _ _ _ fuel h
  have hpath : c08e_eerPath u' s.negate fuel = (c08e_eerPath u s fuel).mirror := by
    rw [c08e_eerPath_negate_core u' s fuel hE'.1 hE'.2]
    apply c08e_corePath_negate
    · intro hne; exact absurd hprobes hne
    · intro x hx
      have : x ∈ c08e_probes u s fuel := hx
      rw [hprobes] at this; cases this
  constructor
  · rw [c08e_eer_eq, c08e_eer_eq, hpath, c08e_finish_negate_core u' s _ hE'.1 hE'.2]
    apply c08e_coreFinish_negate
    rcases h with h | h <;> rw [h] <;> exact trivial
  · rw [c08e_eer_eq]
    rcases h with h | h <;> rw [h] <;> rfl

/-! ### non-vacuity of the hypotheses -/

/-- three positives interleaved with three negatives, `score_class = pos` -/
def c08e_ex : Scores := ⟨[1, 3, 5], [2, 4, 6], 0, 0, ⟨.pos, .pos⟩⟩

/-- The hypothesis of `C08_negate_eer_partial` holds on `c08e_ex` with the half-step oracle
(compatible with negation: `c08n_half_compat`) and the driver's fuel; the run is on the bisection
path (69 probes) and returns `e = 5/12 + O(2^-35)`. -/
example : c08e_regularRun Ulp.half c08e_ex 64 = true := by decide +kernel

example : (c08e_probes Ulp.half c08e_ex 64).length = 69 := by decide +kernel

example : c08e_eerPath Ulp.half c08e_ex 64 = .root (14316557653 / 34359738368) := by
  decide +kernel

/-- ... and with the float64 `nextafter` (compatible with negation: `c08n_float64_compat`). -/
example : c08e_regularRun Ulp.float64 c08e_ex 64 = true := by decide +kernel

/-- The hypotheses of `C08_negate_eer_path`, `C08_negate_eer_value`,
`C08_negate_eer_partial_signs` follow from `c08e_regularRun`, so they hold on `c08e_ex` too. -/
example : (∀ x ∈ c08e_probes Ulp.half c08e_ex 64,
      c08e_sameSign (c08e_objective Ulp.half c08e_ex.negate x) (c08e_objective Ulp.half c08e_ex x)) ∧
    c08e_finalRegular c08e_ex (c08e_eerPath Ulp.half c08e_ex 64) = true := by
  have h : c08e_regularRun Ulp.half c08e_ex 64 = true := by decide +kernel
  simp only [c08e_regularRun, Bool.and_eq_true] at h
  exact ⟨c08e_signs_of_regular Ulp.half Ulp.half c08n_half_compat c08e_ex 64 h.1, h.2⟩

/-- The hypothesis of `C08_negate_eer_objective`: both calls regular at `x = 1/2`. -/
example : c08e_ex.pos.length ≠ 0 ∧ c08e_ex.neg.length ≠ 0 ∧
    c08e_regularAt c08e_ex (1 / 2) = true := by
  refine ⟨by decide, by decide, ?_⟩
  decide +kernel

/-- The hypothesis of `C08_negate_eer_shortcut`: a perfectly separated object. -/
example : c08e_eerPath Ulp.half ⟨[4, 5], [1, 2], 0, 0, ⟨.pos, .pos⟩⟩ 64 = .sepPos := by
  decide +kernel

/-- The hypotheses of `C08_negate_eer_partial_make`: `c08e_ex` is sorted. -/
example : c08e_ex.pos.Pairwise (· ≤ ·) ∧ c08e_ex.neg.Pairwise (· ≤ ·) := by
  constructor <;> simp only [c08e_ex] <;> norm_num

/-! ### the unconditional statement is false -/

/-- executable comparison of a result with an expected pair -/
def c08e_isOk (r : Except Err (ℚ × ℚ)) (t e : ℚ) : Bool :=
  match r with
  | .ok (t', e') => decide (t' = t) && decide (e' = e)
  | .error _ => false

theorem c08e_isOk_eq (r : Except Err (ℚ × ℚ)) (t e : ℚ) (h : c08e_isOk r t e = true) :
    r = .ok (t, e) := by
  unfold c08e_isOk at h
  split at h
  · simp only [Bool.and_eq_true, decide_eq_true_eq] at h
    rw [h.1, h.2]
  · cases h

/-- The clause of C08 for `eer()`: negated threshold, same value, for sorted arrays and an
oracle pair compatible with negation. -/
def C08_negate_eer_statement : Prop :=
  ∀ (u u' : Ulp) (s : Scores) (fuel : ℕ), c08n_NegCompat u u' →
    s.pos.Pairwise (· ≤ ·) → s.neg.Pairwise (· ≤ ·) →
    s.negate.eer u' fuel = (s.eer u fuel).map (fun (t, e) => (-t, e))

/-- The weaker clause: the EER value alone is unchanged. -/
def C08_negate_eer_value_statement : Prop :=
  ∀ (u u' : Ulp) (s : Scores) (fuel : ℕ), c08n_NegCompat u u' →
    s.pos.Pairwise (· ≤ ·) → s.neg.Pairwise (· ≤ ·) →
    (s.negate.eer u' fuel).map Prod.snd = (s.eer u fuel).map Prod.snd

/-- counterexample with a score shared by the two classes -/
def c08e_cexTies : Scores := ⟨[1], [1, 1], 0, 0, ⟨.pos, .pos⟩⟩

/-- `eer()` on `c08e_cexTies` (float64 `nextafter`, the driver's fuel): `(1, 1/4)`; on the
negated object: `(-1, 2^-35)`.  (The Python returns `(1.0, 0.25)` and `(-1.0, 2.9e-11)`.) -/
theorem c08e_cexTies_eer :
    c08e_cexTies.eer Ulp.float64 64 = .ok (1, 1 / 4) ∧
    c08e_cexTies.negate.eer Ulp.float64 64 = .ok (-1, 1 / 34359738368) := by
  constructor
  · exact c08e_isOk_eq _ _ _ (by decide +kernel)
  · exact c08e_isOk_eq _ _ _ (by decide +kernel)

theorem c08e_cexTies_sorted :
    c08e_cexTies.pos.Pairwise (· ≤ ·) ∧ c08e_cexTies.neg.Pairwise (· ≤ ·) := by
  constructor <;> simp only [c08e_cexTies] <;> norm_num

/-- **`C08_negate_eer_value_statement` is false**: on `c08e_cexTies` with the float64
`nextafter`, the EER value is `1/4` before and `2^-35` after negation.  (On the flat stretch
`f = 0` of the original, `0 < x < 1/2`, the negated object's `threshold_at_fpr` is in its excluded
stretch `0 < x ≤ 1/2` and returns the sentinel one step away, so its objective is non-zero
there and its stretch of roots shrinks to a point.) -/
theorem C08_negate_eer_value_statement_false : ¬ C08_negate_eer_value_statement := by
  intro hst
  have h := hst Ulp.float64 Ulp.float64 c08e_cexTies 64 c08n_float64_compat
    c08e_cexTies_sorted.1 c08e_cexTies_sorted.2
  rw [c08e_cexTies_eer.1, c08e_cexTies_eer.2] at h
  simp only [Except.map, Except.ok.injEq] at h
  norm_num at h

/-- **`C08_negate_eer_statement` is false** (same counterexample). -/
theorem C08_negate_eer_statement_false : ¬ C08_negate_eer_statement := by
  intro hst
  apply C08_negate_eer_value_statement_false
  intro u u' s fuel hc hp hn
  rw [hst u u' s fuel hc hp hn]
  cases s.eer u fuel <;> rfl

/-- the hypothesis of `C08_negate_eer_partial` indeed fails on the counterexample -/
theorem c08e_cexTies_not_regular : c08e_regularRun Ulp.float64 c08e_cexTies 64 = false := by
  decide +kernel

/-- tie-free counterexample for the threshold: one positive, one negative, one easy negative -/
def c08e_cexStep : Scores := ⟨[1], [2], 0, 1, ⟨.pos, .pos⟩⟩

/-- **Without ties the threshold can still be off by one `nextafter` step.**  On `c08e_cexStep`
(float64, driver's fuel) both calls go through the cap at `hard_neg_ratio = 1/2` and return the
EER `1/2`; the thresholds are `1` and `-(1 + 2^-52) = -nextafter(1, +inf)` instead of `-1`.
(The Python returns `(1.0, 0.5)` and `(-1.0000000000000002, 0.5)`.) -/
theorem C08_negate_eer_threshold_tiefree_false :
    c08e_cexStep.eer Ulp.float64 64 = .ok (1, 1 / 2) ∧
    c08e_cexStep.negate.eer Ulp.float64 64 = .ok (-(1 + 1 / 4503599627370496), 1 / 2) ∧
    c08e_eerPath Ulp.float64 c08e_cexStep 64 = .capNeg ∧
    c08e_eerPath Ulp.float64 c08e_cexStep.negate 64 = .capNeg ∧
    c08e_finalRegular c08e_cexStep (c08e_eerPath Ulp.float64 c08e_cexStep 64) = false := by
  refine ⟨c08e_isOk_eq _ _ _ (by decide +kernel), c08e_isOk_eq _ _ _ (by decide +kernel),
    by decide +kernel, by decide +kernel, by decide +kernel⟩

/-- tie-free counterexample for the VALUE: one positive strictly between two negatives -/
def c08e_cexTieFree : Scores := ⟨[2], [1, 3], 0, 0, ⟨.pos, .pos⟩⟩

/-- no value is repeated within or across the classes of `s` -/
def c08e_tieFree (s : Scores) : Prop :=
  s.pos.Pairwise (· < ·) ∧ s.neg.Pairwise (· < ·) ∧ ∀ x ∈ s.pos, x ∉ s.neg

/-- The value clause restricted to tie-free objects. -/
def C08_negate_eer_value_tiefree_statement : Prop :=
  ∀ (u u' : Ulp) (s : Scores) (fuel : ℕ), c08n_NegCompat u u' → c08e_tieFree s →
    (s.negate.eer u' fuel).map Prod.snd = (s.eer u fuel).map Prod.snd

theorem c08e_cexTieFree_tieFree : c08e_tieFree c08e_cexTieFree := by
  refine ⟨?_, ?_, ?_⟩ <;> simp only [c08e_cexTieFree] <;> norm_num

/-- `eer()` on `c08e_cexTieFree` (float64, driver's fuel): `(2, 1/4)`; on the negated object
`(-(2 + 2^-33), 1/4 - 2^-35)`.  (The Python returns `(2.0, 0.25)` and
`(-2.0000000001164153, 0.24999999997089617)`.)  The crossing `thr_fpr(x) = thr_fnr(x) = 2` of
the original is exact on `0 < x < 1/2` by interpolation, not by a tie. -/
theorem c08e_cexTieFree_eer :
    c08e_cexTieFree.eer Ulp.float64 64 = .ok (2, 1 / 4) ∧
    c08e_cexTieFree.negate.eer Ulp.float64 64 =
      .ok (-(2 + 1 / 8589934592), 1 / 4 - 1 / 34359738368) := by
  constructor
  · exact c08e_isOk_eq _ _ _ (by decide +kernel)
  · exact c08e_isOk_eq _ _ _ (by decide +kernel)

/-- **Tie-freeness does not rescue the value clause**: on `c08e_cexTieFree` the EER value moves
by `2^-35` (the resolution of the bisection) and the threshold by `2^-33`, far more than one
`nextafter` step. -/
theorem C08_negate_eer_value_tiefree_statement_false :
    ¬ C08_negate_eer_value_tiefree_statement := by
  intro hst
  have h := hst Ulp.float64 Ulp.float64 c08e_cexTieFree 64 c08n_float64_compat
    c08e_cexTieFree_tieFree
  rw [c08e_cexTieFree_eer.1, c08e_cexTieFree_eer.2] at h
  simp only [Except.map, Except.ok.injEq] at h
  norm_num at h

end SA
