/-
C09 — virtual easy samples behave exactly like materialised extreme scores.
-/
import SA.Theorems.C01

namespace SA

/-- **C09 (matrices).** Declaring `k` easy positives and `m` easy negatives gives the same
confusion matrix as materialising them as `k` copies of a score `Mp` and `m` copies of a score
`Mn`, at every threshold at which `Mp` is accepted and `Mn` is rejected — in particular at every
threshold strictly between the materialised extremes when these lie beyond all other scores on
their own class's side.  Any lists (unsorted, ties), all four configurations, existing easy
counts `ep`, `en` allowed. -/
theorem C09_cm (pos neg : List ℚ) (ep en k m : ℕ) (cfg : Cfg) (Mp Mn : ℚ) (t : ERat)
    (hMp : accept cfg Mp t = true) (hMn : accept cfg Mn t = false) :
    (Scores.make (pos ++ List.replicate k Mp) (neg ++ List.replicate m Mn) ep en cfg false).cm t =
      (Scores.make pos neg (ep + k) (en + m) cfg false).cm t := by
  rw [C01_cells, C01_cells]
  simp only [countCM, List.countP_append, List.countP_replicate, hMp, hMn, if_true, Bool.not_true,
    Bool.not_false, Bool.false_eq_true, if_false, CM.mk.injEq]
  refine ⟨?_, ?_, ?_, ?_⟩ <;> omega

/-- the hypotheses of `C09_cm` hold for thresholds strictly inside the materialised range,
`score_class = pos`: positives above, negatives below -/
theorem C09_side_pos (ec : Label) (Mp Mn t : ℚ) (h1 : Mn < t) (h2 : t < Mp) :
    accept ⟨.pos, ec⟩ Mp (.fin t) = true ∧ accept ⟨.pos, ec⟩ Mn (.fin t) = false := by
  cases ec <;> simp [accept, ltE, leE] <;> constructor <;> linarith

/-- and for `score_class = neg`: positives below, negatives above -/
theorem C09_side_neg (ec : Label) (Mp Mn t : ℚ) (h1 : Mp < t) (h2 : t < Mn) :
    accept ⟨.neg, ec⟩ Mp (.fin t) = true ∧ accept ⟨.neg, ec⟩ Mn (.fin t) = false := by
  cases ec <;> simp [accept, ltE, leE] <;> constructor <;> linarith

/-- Non-vacuity: a threshold strictly inside the materialised range exists. -/
example : ((-10 : ℚ) < 0 ∧ (0 : ℚ) < 10) := by norm_num

end SA
