/-
C09 — virtual easy samples behave exactly like materialised extreme scores.
-/
import SA.Theorems.C01
import SA.Theorems.C02
import SA.Proofs.Easy

namespace SA
open Spec

/-- **C09 (matrices).** Declaring `k` easy positives and `m` easy negatives gives the same
confusion matrix as materialising them as `k` copies of a score `Mp` and `m` copies of a score
`Mn`, at every threshold at which `Mp` is accepted and `Mn` is rejected — in particular at every
threshold strictly between the materialised extremes when these lie beyond all other scores on
their own class's side.  Any lists (unsorted, ties), all four configurations, existing easy
counts `ep`, `en` allowed. -/
theorem C09_cm (pos neg : List ℚ) (ep en k m : ℕ) (cfg : Cfg) (Mp Mn : ℚ) (t : ERat)
    (hMp : accept cfg Mp t = true) (hMn : accept cfg Mn t = false) :
    (Scores.make (pos ++ List.replicate k Mp) (neg ++ List.replicate m Mn) ep en cfg false).cm t =
      (Scores.make pos neg (ep + k) (en + m) cfg false).cm t := by
  rw [C01_cells, C01_cells]
  simp only [countCM, List.countP_append, List.countP_replicate, hMp, hMn, if_true, Bool.not_true,
    Bool.not_false, Bool.false_eq_true, if_false, CM.mk.injEq]
  refine ⟨?_, ?_, ?_, ?_⟩ <;> omega

/-- the hypotheses of `C09_cm` hold for thresholds strictly inside the materialised range,
`score_class = pos`: positives above, negatives below -/
theorem C09_side_pos (ec : Label) (Mp Mn t : ℚ) (h1 : Mn < t) (h2 : t < Mp) :
    accept ⟨.pos, ec⟩ Mp (.fin t) = true ∧ accept ⟨.pos, ec⟩ Mn (.fin t) = false := by
  cases ec <;> simp [accept, ltE, leE] <;> constructor <;> linarith

/-- and for `score_class = neg`: positives below, negatives above -/
theorem C09_side_neg (ec : Label) (Mp Mn t : ℚ) (h1 : Mp < t) (h2 : t < Mn) :
    accept ⟨.neg, ec⟩ Mp (.fin t) = true ∧ accept ⟨.neg, ec⟩ Mn (.fin t) = false := by
  cases ec <;> simp [accept, ltE, leE] <;> constructor <;> linarith

/-- Non-vacuity: a threshold strictly inside the materialised range exists. -/
example : ((-10 : ℚ) < 0 ∧ (0 : ℚ) < 10) := by norm_num

/-! ## Thresholds

`c09_easy` declares `k` easy positives and `m` easy negatives; `c09_mat` materialises them as `k`
copies of `Mp` and `m` copies of `Mn`.  For each metric the sorted array of the materialised
object is `L ++ arr ++ R` with `arr` the array of the easy-sample object, `|L| = c09_low`,
`|R| = c09_high`, and the two index targets of `_invert_increasing_function` differ by `|L|`. -/

/-- the object declaring `k` easy positives and `m` easy negatives -/
def c09_easy (pos neg : List ℚ) (k m : ℕ) (cfg : Cfg) : Scores :=
  Scores.make pos neg k m cfg false

/-- the object in which they are materialised as `k` copies of `Mp` and `m` copies of `Mn` -/
def c09_mat (pos neg : List ℚ) (k m : ℕ) (cfg : Cfg) (Mp Mn : ℚ) : Scores :=
  Scores.make (pos ++ List.replicate k Mp) (neg ++ List.replicate m Mn) 0 0 cfg false

/-- `Mp`, `Mn` lie beyond all scores of both classes, each on its own class's side
(`score_class = pos`: positives above, negatives below; `neg`: the other way round).
Weak inequalities suffice for the threshold clause. -/
def c09_beyond (sc : Label) (pos neg : List ℚ) (Mp Mn : ℚ) : Prop :=
  ∀ x ∈ pos ++ neg, match sc with
    | .pos => Mn ≤ x ∧ x ≤ Mp
    | .neg => Mp ≤ x ∧ x ≤ Mn

/-- number of materialised samples below the scored block of the metric's array -/
def c09_low (sc : Label) (metric : Metric) (k m : ℕ) : ℕ :=
  match sc, metric with
  | .pos, .tpr => 0 | .pos, .fnr => 0 | .pos, .tnr => m
  | .pos, .fpr => m | .pos, .topr => m | .pos, .tonr => m
  | .neg, .tpr => k | .neg, .fnr => k | .neg, .tnr => 0
  | .neg, .fpr => 0 | .neg, .topr => k | .neg, .tonr => k

/-- number of materialised samples above the scored block of the metric's array -/
def c09_high (sc : Label) (metric : Metric) (k m : ℕ) : ℕ :=
  match sc, metric with
  | .pos, .tpr => k | .pos, .fnr => k | .pos, .tnr => 0
  | .pos, .fpr => 0 | .pos, .topr => k | .pos, .tonr => k
  | .neg, .tpr => 0 | .neg, .fnr => 0 | .neg, .tnr => m
  | .neg, .fpr => m | .neg, .topr => m | .neg, .tonr => m

/-- the table `c09_low` is "lowest achievable count" for an even number of flips and
"easy samples of the metric's population minus that" for an odd number -/
theorem c09_low_eq (E : Scores) (metric : Metric) :
    ((c09_low E.cfg.scoreClass metric E.easyPos E.easyNeg : ℕ) : ℚ) =
      if evenFlips E.cfg metric.increasing then (minNum E metric : ℚ)
      else (denom E metric : ℚ) - ((E.metricArray metric).length : ℚ) - (minNum E metric : ℚ) := by
  obtain ⟨pos, neg, ep, en, ⟨sc, ec⟩⟩ := E
  cases metric <;> cases sc <;>
    simp [c09_low, evenFlips, Metric.increasing, minNum, denom, Scores.metricArray, length_concat,
      Scores.nbAllPos, Scores.nbAllNeg, Scores.nbAll, Scores.nbEasy, Scores.nbHard] <;> ring

/-- population facts for an object without easy samples whose arrays have the lengths of the
easy-sample object plus its easy counts -/
theorem c09_pop (E Mt : Scores) (hep : Mt.easyPos = 0) (hen : Mt.easyNeg = 0)
    (hpl : Mt.pos.length = E.pos.length + E.easyPos)
    (hnl : Mt.neg.length = E.neg.length + E.easyNeg) (metric : Metric) :
    minNum Mt metric = 0 ∧ denom Mt metric = (Mt.metricArray metric).length ∧
    denom E metric = denom Mt metric ∧
    minNum E metric + (E.metricArray metric).length ≤ denom E metric := by
  cases metric <;>
    simp only [minNum, denom, Scores.metricArray, length_concat, Scores.nbAllPos, Scores.nbAllNeg,
      Scores.nbAll, Scores.nbEasy, Scores.nbHard] <;>
    refine ⟨by trivial, by omega, by omega, by omega⟩

/-- **Index-target relation** (stage 3): after clipping, the normalised targets of the two
objects, expressed as index positions, differ by `c09_low`. -/
theorem c09_target_rel (E Mt : Scores) (hcfg : Mt.cfg = E.cfg) (hep : Mt.easyPos = 0)
    (hen : Mt.easyNeg = 0) (hpl : Mt.pos.length = E.pos.length + E.easyPos)
    (hnl : Mt.neg.length = E.neg.length + E.easyNeg) (metric : Metric) (r : ℚ)
    (hne : (E.metricArray metric).length ≠ 0) :
    c09_rel (c09_low E.cfg.scoreClass metric E.easyPos E.easyNeg) (E.metricArray metric).length
      (Mt.metricArray metric).length (normTarget E metric r) (normTarget Mt metric r) := by
  obtain ⟨p1, p2, p3, p4⟩ := c09_pop E Mt hep hen hpl hnl metric
  have hneM : (Mt.metricArray metric).length ≠ 0 := by omega
  have hE := rescale_spec E metric r hne
  have hM := rescale_spec Mt metric r hneM
  have hd := denom_pos E metric hne
  have hdM := denom_pos Mt metric hneM
  unfold clipped at hE hM
  rw [clipQ_mul _ _ _ _ hd, div_mul_cancel₀ _ (ne_of_gt hd), div_mul_cancel₀ _ (ne_of_gt hd),
    maxNum_eq] at hE
  rw [clipQ_mul _ _ _ _ hdM, div_mul_cancel₀ _ (ne_of_gt hdM), div_mul_cancel₀ _ (ne_of_gt hdM),
    maxNum_eq, p1, ← p2, ← p3] at hM
  push_cast at hE hM
  simp only [zero_add] at hM
  have q0 : (0 : ℚ) ≤ (minNum E metric : ℚ) := by positivity
  have qn : (0 : ℚ) ≤ ((E.metricArray metric).length : ℚ) := by positivity
  have qD : (minNum E metric : ℚ) + ((E.metricArray metric).length : ℚ) ≤ (denom E metric : ℚ) := by
    exact_mod_cast p4
  have hlow := c09_low_eq E metric
  unfold c09_rel normTarget
  rw [hcfg, hlow, ← p2, ← p3]
  by_cases he : evenFlips E.cfg metric.increasing = true
  · simp only [he, if_true]
    rw [← hM, c09_clip_even _ _ _ _ q0 qn qD, hE]; ring
  · simp only [he, if_false, Bool.false_eq_true]
    rw [clip01_one_sub, clip01_one_sub, sub_mul, one_mul, ← hM, c09_clip_odd _ _ _ _ q0 qn qD, hE]
    ring

/-- **Block form** (stage 2): the sorted array of the materialised object is the array of the
easy-sample object with `c09_low` extra samples below and `c09_high` extra samples above. -/
theorem c09_block (pos neg : List ℚ) (k m : ℕ) (cfg : Cfg) (Mp Mn : ℚ)
    (hB : c09_beyond cfg.scoreClass pos neg Mp Mn) (metric : Metric)
    (hne : ((c09_easy pos neg k m cfg).metricArray metric).length ≠ 0) :
    ∃ L R, (c09_mat pos neg k m cfg Mp Mn).metricArray metric =
        L ++ (c09_easy pos neg k m cfg).metricArray metric ++ R ∧
      L.length = c09_low cfg.scoreClass metric k m ∧
      R.length = c09_high cfg.scoreClass metric k m := by
  obtain ⟨sc, ec⟩ := cfg
  have hlen : (pos ++ neg).length ≠ 0 := by
    cases metric <;>
      simp only [c09_easy, Scores.make, Scores.metricArray, length_concat, length_sortQ,
        Bool.false_eq_true, if_false] at hne <;>
      simp only [List.length_append] <;> omega
  obtain ⟨x0, hx0⟩ := List.exists_mem_of_length_pos (Nat.pos_of_ne_zero hlen)
  have hpos : ∀ x ∈ pos, x ∈ pos ++ neg := fun x hx => List.mem_append_left _ hx
  have hneg : ∀ x ∈ neg, x ∈ pos ++ neg := fun x hx => List.mem_append_right _ hx
  have hcat : ∀ x ∈ sortQ neg ++ sortQ pos, x ∈ pos ++ neg := by
    intro x hx
    rcases List.mem_append.mp hx with h | h
    · exact hneg x ((sortQ_perm neg).mem_iff.mp h)
    · exact hpos x ((sortQ_perm pos).mem_iff.mp h)
  cases sc
  · -- score_class = pos: positives above, negatives below
    have hB' : ∀ x ∈ pos ++ neg, Mn ≤ x ∧ x ≤ Mp := hB
    have hlh : Mn ≤ Mp := le_trans (hB' x0 hx0).1 (hB' x0 hx0).2
    have hP : sortQ (pos ++ List.replicate k Mp) =
        List.replicate 0 Mn ++ sortQ pos ++ List.replicate k Mp :=
      c09_sort_rep _ pos 0 k Mn Mp (by simp) (fun x hx => (hB' x (hpos x hx)).1)
        (fun x hx => (hB' x (hpos x hx)).2) hlh
    have hN : sortQ (neg ++ List.replicate m Mn) =
        List.replicate m Mn ++ sortQ neg ++ List.replicate 0 Mp :=
      c09_sort_rep _ neg m 0 Mn Mp (by simpa using List.perm_append_comm)
        (fun x hx => (hB' x (hneg x hx)).1) (fun x hx => (hB' x (hneg x hx)).2) hlh
    have hC : sortQ (sortQ (neg ++ List.replicate m Mn) ++ sortQ (pos ++ List.replicate k Mp)) =
        List.replicate m Mn ++ sortQ (sortQ neg ++ sortQ pos) ++ List.replicate k Mp := by
      apply c09_sort_rep _ _ m k Mn Mp _ (fun x hx => (hB' x (hcat x hx)).1)
        (fun x hx => (hB' x (hcat x hx)).2) hlh
      rw [List.perm_iff_count]
      intro a
      simp only [List.count_append, (sortQ_perm _).count_eq]
      omega
    cases metric <;>
      simp only [c09_mat, c09_easy, Scores.make, Scores.metricArray, Scores.concat,
        Bool.false_eq_true, if_false, c09_low, c09_high]
    · exact ⟨_, _, hP, by simp, by simp⟩
    · exact ⟨_, _, hP, by simp, by simp⟩
    · exact ⟨_, _, hN, by simp, by simp⟩
    · exact ⟨_, _, hN, by simp, by simp⟩
    · exact ⟨_, _, hC, by simp, by simp⟩
    · exact ⟨_, _, hC, by simp, by simp⟩
  · -- score_class = neg: positives below, negatives above
    have hB' : ∀ x ∈ pos ++ neg, Mp ≤ x ∧ x ≤ Mn := hB
    have hlh : Mp ≤ Mn := le_trans (hB' x0 hx0).1 (hB' x0 hx0).2
    have hP : sortQ (pos ++ List.replicate k Mp) =
        List.replicate k Mp ++ sortQ pos ++ List.replicate 0 Mn :=
      c09_sort_rep _ pos k 0 Mp Mn (by simpa using List.perm_append_comm)
        (fun x hx => (hB' x (hpos x hx)).1) (fun x hx => (hB' x (hpos x hx)).2) hlh
    have hN : sortQ (neg ++ List.replicate m Mn) =
        List.replicate 0 Mp ++ sortQ neg ++ List.replicate m Mn :=
      c09_sort_rep _ neg 0 m Mp Mn (by simp) (fun x hx => (hB' x (hneg x hx)).1)
        (fun x hx => (hB' x (hneg x hx)).2) hlh
    have hC : sortQ (sortQ (neg ++ List.replicate m Mn) ++ sortQ (pos ++ List.replicate k Mp)) =
        List.replicate k Mp ++ sortQ (sortQ neg ++ sortQ pos) ++ List.replicate m Mn := by
      apply c09_sort_rep _ _ k m Mp Mn _ (fun x hx => (hB' x (hcat x hx)).1)
        (fun x hx => (hB' x (hcat x hx)).2) hlh
      rw [List.perm_iff_count]
      intro a
      simp only [List.count_append, (sortQ_perm _).count_eq]
      omega
    cases metric <;>
      simp only [c09_mat, c09_easy, Scores.make, Scores.metricArray, Scores.concat,
        Bool.false_eq_true, if_false, c09_low, c09_high]
    · exact ⟨_, _, hP, by simp, by simp⟩
    · exact ⟨_, _, hP, by simp, by simp⟩
    · exact ⟨_, _, hN, by simp, by simp⟩
    · exact ⟨_, _, hN, by simp, by simp⟩
    · exact ⟨_, _, hC, by simp, by simp⟩
    · exact ⟨_, _, hC, by simp, by simp⟩

theorem c09_thresholdAt_linear (u : Ulp) (s : Scores) (metric : Metric) (r : ℚ)
    (hne : (s.metricArray metric).length ≠ 0) :
    s.thresholdAt u metric r .linear = .ok (invertIncreasing u (s.metricArray metric)
      (normTarget s metric r) (normLc s.cfg metric.increasing metric.ratioClass) .linear) := by
  rw [thresholdAt_eq u s metric r .linear hne]
  have hm : (if evenFlips s.cfg metric.increasing then Method.linear else Method.linear.reverse)
      = .linear := by split <;> rfl
  rw [hm]

/-- block form and index-target relation together -/
theorem c09_setup (pos neg : List ℚ) (k m : ℕ) (cfg : Cfg) (Mp Mn : ℚ)
    (hB : c09_beyond cfg.scoreClass pos neg Mp Mn) (metric : Metric) (r : ℚ)
    (hne : ((c09_easy pos neg k m cfg).metricArray metric).length ≠ 0) :
    ∃ L R, (c09_mat pos neg k m cfg Mp Mn).metricArray metric =
        L ++ (c09_easy pos neg k m cfg).metricArray metric ++ R ∧
      L.length = c09_low cfg.scoreClass metric k m ∧
      R.length = c09_high cfg.scoreClass metric k m ∧
      c09_rel L.length ((c09_easy pos neg k m cfg).metricArray metric).length
        (L ++ (c09_easy pos neg k m cfg).metricArray metric ++ R).length
        (normTarget (c09_easy pos neg k m cfg) metric r)
        (normTarget (c09_mat pos neg k m cfg Mp Mn) metric r) := by
  obtain ⟨L, R, hblk, hL, hR⟩ := c09_block pos neg k m cfg Mp Mn hB metric hne
  refine ⟨L, R, hblk, hL, hR, ?_⟩
  have hrel := c09_target_rel (c09_easy pos neg k m cfg) (c09_mat pos neg k m cfg Mp Mn) rfl rfl rfl
    (by simp [c09_mat, c09_easy, Scores.make, length_sortQ])
    (by simp [c09_mat, c09_easy, Scores.make, length_sortQ]) metric r hne
  have hL' : c09_low (c09_easy pos neg k m cfg).cfg.scoreClass metric
      (c09_easy pos neg k m cfg).easyPos (c09_easy pos neg k m cfg).easyNeg = L.length := hL.symm
  rw [hL', hblk] at hrel
  exact hrel

/-- **C09 (thresholds).** For each of the six metrics, all four configurations and every target
`r` (method `linear`): if the target is interior for the easy-sample object — neither special
case of `_invert_increasing_function` fires (`h1`, `h0`) — and its index target is at most
`n - 1` (`hx`; automatic for right-continuous metrics), then the object in which the `k + m`
easy samples are materialised beyond all scores returns exactly the same threshold. -/
theorem C09_threshold (u : Ulp) (pos neg : List ℚ) (k m : ℕ) (cfg : Cfg) (Mp Mn : ℚ)
    (hB : c09_beyond cfg.scoreClass pos neg Mp Mn) (metric : Metric) (r : ℚ)
    (hne : ((c09_easy pos neg k m cfg).metricArray metric).length ≠ 0)
    (h1 : normTarget (c09_easy pos neg k m cfg) metric r < 1)
    (h0 : 0 < (if normLc cfg metric.increasing metric.ratioClass
      then normTarget (c09_easy pos neg k m cfg) metric r
      else normTarget (c09_easy pos neg k m cfg) metric r -
        1 / (((c09_easy pos neg k m cfg).metricArray metric).length : ℚ)))
    (hx : indexTarget ((c09_easy pos neg k m cfg).metricArray metric)
        (normTarget (c09_easy pos neg k m cfg) metric r)
        (normLc cfg metric.increasing metric.ratioClass) ≤
      (((c09_easy pos neg k m cfg).metricArray metric).length : ℚ) - 1) :
    (c09_mat pos neg k m cfg Mp Mn).thresholdAt u metric r .linear =
      (c09_easy pos neg k m cfg).thresholdAt u metric r .linear := by
  obtain ⟨L, R, hblk, -, -, hrel⟩ := c09_setup pos neg k m cfg Mp Mn hB metric r hne
  have hneM : ((c09_mat pos neg k m cfg Mp Mn).metricArray metric).length ≠ 0 := by
    rw [hblk]; simp only [List.length_append]; omega
  rw [c09_thresholdAt_linear u _ metric r hneM, c09_thresholdAt_linear u _ metric r hne, hblk]
  congr 1
  exact c09_invert_shift u L _ R hne _ _ _ hrel h1 h0 hx

/-- **C09 (thresholds), property shape.** If the threshold `tM` returned by the materialised
object lies strictly inside the range of the relevant scored samples, the easy-sample object
returns the same threshold. -/
theorem C09_threshold_inside (u : Ulp) (hu : u.Lawful) (pos neg : List ℚ) (k m : ℕ) (cfg : Cfg)
    (Mp Mn : ℚ) (hB : c09_beyond cfg.scoreClass pos neg Mp Mn) (metric : Metric) (r tM : ℚ)
    (hM : (c09_mat pos neg k m cfg Mp Mn).thresholdAt u metric r .linear = .ok tM)
    (hlo : ((c09_easy pos neg k m cfg).metricArray metric).getD 0 0 < tM)
    (hhi : tM < ((c09_easy pos neg k m cfg).metricArray metric).getD
      (((c09_easy pos neg k m cfg).metricArray metric).length - 1) 0) :
    (c09_easy pos neg k m cfg).thresholdAt u metric r .linear = .ok tM := by
  have hne : ((c09_easy pos neg k m cfg).metricArray metric).length ≠ 0 := by
    intro h
    rw [h] at hhi
    linarith
  obtain ⟨L, R, hblk, -, -, hrel⟩ := c09_setup pos neg k m cfg Mp Mn hB metric r hne
  have hneM : ((c09_mat pos neg k m cfg Mp Mn).metricArray metric).length ≠ 0 := by
    rw [hblk]; simp only [List.length_append]; omega
  have hs : ((c09_mat pos neg k m cfg Mp Mn).metricArray metric).Pairwise (· ≤ ·) :=
    metricArray_sorted _ (sortQ_pairwise _) (sortQ_pairwise _) metric
  rw [c09_thresholdAt_linear u _ metric r hneM] at hM
  injection hM with hM
  rw [hblk] at hM hs
  rw [← hM] at hlo hhi
  have := c09_invert_inside u hu L _ R hs _ _ _ hrel hlo hhi
  rw [c09_thresholdAt_linear u _ metric r hne, ← hM]
  congr 1
  exact this.symm

/-- **C09 (thresholds), low end point.** When the index target of the materialised object is
exactly the position of the first scored sample (and at least one materialised sample lies below
it), the materialised object returns that sample, whereas the easy-sample object returns the
sentinel one ulp below it: this is why the two thresholds are only compared up to a few ulp at
the end points of the scored range. -/
theorem C09_threshold_boundary_low (u : Ulp) (pos neg : List ℚ) (k m : ℕ) (cfg : Cfg) (Mp Mn : ℚ)
    (hB : c09_beyond cfg.scoreClass pos neg Mp Mn) (metric : Metric) (r : ℚ)
    (hn2 : 2 ≤ ((c09_easy pos neg k m cfg).metricArray metric).length)
    (hb : 0 < c09_low cfg.scoreClass metric k m)
    (hx' : indexTarget ((c09_mat pos neg k m cfg Mp Mn).metricArray metric)
        (normTarget (c09_mat pos neg k m cfg Mp Mn) metric r)
        (normLc cfg metric.increasing metric.ratioClass) =
      (c09_low cfg.scoreClass metric k m : ℚ)) :
    (c09_mat pos neg k m cfg Mp Mn).thresholdAt u metric r .linear =
      .ok (((c09_easy pos neg k m cfg).metricArray metric).getD 0 0) ∧
    (c09_easy pos neg k m cfg).thresholdAt u metric r .linear =
      .ok (u.down (((c09_easy pos neg k m cfg).metricArray metric).getD 0 0)) := by
  have hne : ((c09_easy pos neg k m cfg).metricArray metric).length ≠ 0 := by omega
  obtain ⟨L, R, hblk, hL, -, hrel⟩ := c09_setup pos neg k m cfg Mp Mn hB metric r hne
  have hneM : ((c09_mat pos neg k m cfg Mp Mn).metricArray metric).length ≠ 0 := by
    rw [hblk]; simp only [List.length_append]; omega
  rw [c09_thresholdAt_linear u _ metric r hneM, c09_thresholdAt_linear u _ metric r hne, hblk]
  rw [hblk, ← hL] at hx'
  rw [← hL] at hb
  obtain ⟨a, b⟩ := c09_boundary_low u L _ R hn2 hb _ _ _ hrel hx'
  exact ⟨congrArg _ a, congrArg _ b⟩

/-- **C09 (thresholds), high end point** (metrics handled right-continuously). When the index
target of the materialised object is exactly the position of the last scored sample (and at least
one materialised sample lies above it), the materialised object returns that sample, whereas the
easy-sample object returns the sentinel one ulp above it. -/
theorem C09_threshold_boundary_high (u : Ulp) (pos neg : List ℚ) (k m : ℕ) (cfg : Cfg)
    (Mp Mn : ℚ) (hB : c09_beyond cfg.scoreClass pos neg Mp Mn) (metric : Metric) (r : ℚ)
    (hn2 : 2 ≤ ((c09_easy pos neg k m cfg).metricArray metric).length)
    (hc : 0 < c09_high cfg.scoreClass metric k m)
    (hlc : normLc cfg metric.increasing metric.ratioClass = false)
    (hx' : indexTarget ((c09_mat pos neg k m cfg Mp Mn).metricArray metric)
        (normTarget (c09_mat pos neg k m cfg Mp Mn) metric r) false =
      (c09_low cfg.scoreClass metric k m : ℚ) +
        (((c09_easy pos neg k m cfg).metricArray metric).length : ℚ) - 1) :
    (c09_mat pos neg k m cfg Mp Mn).thresholdAt u metric r .linear =
      .ok (((c09_easy pos neg k m cfg).metricArray metric).getD
        (((c09_easy pos neg k m cfg).metricArray metric).length - 1) 0) ∧
    (c09_easy pos neg k m cfg).thresholdAt u metric r .linear =
      .ok (u.up (((c09_easy pos neg k m cfg).metricArray metric).getD
        (((c09_easy pos neg k m cfg).metricArray metric).length - 1) 0)) := by
  have hne : ((c09_easy pos neg k m cfg).metricArray metric).length ≠ 0 := by omega
  obtain ⟨L, R, hblk, hL, hR, hrel⟩ := c09_setup pos neg k m cfg Mp Mn hB metric r hne
  have hneM : ((c09_mat pos neg k m cfg Mp Mn).metricArray metric).length ≠ 0 := by
    rw [hblk]; simp only [List.length_append]; omega
  have hcfg1 : (c09_mat pos neg k m cfg Mp Mn).cfg = cfg := rfl
  have hcfg2 : (c09_easy pos neg k m cfg).cfg = cfg := rfl
  rw [c09_thresholdAt_linear u _ metric r hneM, c09_thresholdAt_linear u _ metric r hne, hblk,
    hcfg1, hcfg2, hlc]
  rw [hblk, ← hL] at hx'
  rw [← hR] at hc
  obtain ⟨a, b⟩ := c09_boundary_high u L _ R hn2 hc _ _ hrel hx'
  exact ⟨congrArg _ a, congrArg _ b⟩

/-- the two end-point statements together -/
theorem C09_threshold_boundary (u : Ulp) (pos neg : List ℚ) (k m : ℕ) (cfg : Cfg)
    (Mp Mn : ℚ) (hB : c09_beyond cfg.scoreClass pos neg Mp Mn) (metric : Metric) (r : ℚ)
    (hn2 : 2 ≤ ((c09_easy pos neg k m cfg).metricArray metric).length) :
    (0 < c09_low cfg.scoreClass metric k m →
      indexTarget ((c09_mat pos neg k m cfg Mp Mn).metricArray metric)
        (normTarget (c09_mat pos neg k m cfg Mp Mn) metric r)
        (normLc cfg metric.increasing metric.ratioClass) =
      (c09_low cfg.scoreClass metric k m : ℚ) →
      (c09_mat pos neg k m cfg Mp Mn).thresholdAt u metric r .linear =
        .ok (((c09_easy pos neg k m cfg).metricArray metric).getD 0 0) ∧
      (c09_easy pos neg k m cfg).thresholdAt u metric r .linear =
        .ok (u.down (((c09_easy pos neg k m cfg).metricArray metric).getD 0 0))) ∧
    (0 < c09_high cfg.scoreClass metric k m →
      normLc cfg metric.increasing metric.ratioClass = false →
      indexTarget ((c09_mat pos neg k m cfg Mp Mn).metricArray metric)
        (normTarget (c09_mat pos neg k m cfg Mp Mn) metric r) false =
      (c09_low cfg.scoreClass metric k m : ℚ) +
        (((c09_easy pos neg k m cfg).metricArray metric).length : ℚ) - 1 →
      (c09_mat pos neg k m cfg Mp Mn).thresholdAt u metric r .linear =
        .ok (((c09_easy pos neg k m cfg).metricArray metric).getD
          (((c09_easy pos neg k m cfg).metricArray metric).length - 1) 0) ∧
      (c09_easy pos neg k m cfg).thresholdAt u metric r .linear =
        .ok (u.up (((c09_easy pos neg k m cfg).metricArray metric).getD
          (((c09_easy pos neg k m cfg).metricArray metric).length - 1) 0))) :=
  ⟨fun hb hx' => C09_threshold_boundary_low u pos neg k m cfg Mp Mn hB metric r hn2 hb hx',
   fun hc hlc hx' => C09_threshold_boundary_high u pos neg k m cfg Mp Mn hB metric r hn2 hc hlc hx'⟩

/-- for sorted inputs the easy-sample object is the plain structure -/
theorem c09_easy_of_sorted (pos neg : List ℚ) (k m : ℕ) (cfg : Cfg)
    (hp : pos.Pairwise (· ≤ ·)) (hn : neg.Pairwise (· ≤ ·)) :
    c09_easy pos neg k m cfg = ⟨pos, neg, k, m, cfg⟩ := by
  simp only [c09_easy, Scores.make, Bool.false_eq_true, if_false, c09_sortQ_of_sorted pos hp,
    c09_sortQ_of_sorted neg hn]

/-! ### non-vacuity -/

theorem c09_ex_beyond : c09_beyond Label.pos [1, 2, 3, 4] [0, 1] 10 (-10) := by
  intro x hx
  simp only [List.cons_append, List.nil_append, List.mem_cons, List.not_mem_nil, or_false] at hx
  rcases hx with rfl | rfl | rfl | rfl | rfl | rfl <;> norm_num

theorem c09_ex_easy (cfg : Cfg) :
    c09_easy [1, 2, 3, 4] [0, 1] 2 1 cfg = ⟨[1, 2, 3, 4], [0, 1], 2, 1, cfg⟩ :=
  c09_easy_of_sorted _ _ _ _ _ (by decide +kernel) (by decide +kernel)

theorem c09_ex_mat (cfg : Cfg) :
    c09_mat [1, 2, 3, 4] [0, 1] 2 1 cfg 10 (-10) =
      ⟨[1, 2, 3, 4, 10, 10], [-10, 0, 1], 0, 0, cfg⟩ := by
  have h1 : sortQ ([1, 2, 3, 4] ++ List.replicate 2 (10 : ℚ)) = [1, 2, 3, 4, 10, 10] :=
    c09_sortQ_of_sorted _ (by decide +kernel)
  have h2 : sortQ ([0, 1] ++ List.replicate 1 (-10 : ℚ)) = [-10, 0, 1] := by
    show sortQ ([0, 1] ++ [-10]) = _
    rw [sortQ_eq_of_perm _ ([-10] ++ [0, 1]) List.perm_append_comm]
    exact c09_sortQ_of_sorted _ (by decide +kernel)
  simp only [c09_mat, Scores.make, Bool.false_eq_true, if_false, h1, h2]

/-- Non-vacuity of `C09_threshold` (FNR target 1/3, index target 2 of 0..3). -/
example : c09_beyond (Cfg.mk .pos .pos).scoreClass [1, 2, 3, 4] [0, 1] 10 (-10) ∧
    ((c09_easy [1, 2, 3, 4] [0, 1] 2 1 ⟨.pos, .pos⟩).metricArray .fnr).length ≠ 0 ∧
    normTarget (c09_easy [1, 2, 3, 4] [0, 1] 2 1 ⟨.pos, .pos⟩) .fnr (1 / 3) < 1 ∧
    0 < (if normLc ⟨.pos, .pos⟩ Metric.fnr.increasing Metric.fnr.ratioClass
      then normTarget (c09_easy [1, 2, 3, 4] [0, 1] 2 1 ⟨.pos, .pos⟩) .fnr (1 / 3)
      else normTarget (c09_easy [1, 2, 3, 4] [0, 1] 2 1 ⟨.pos, .pos⟩) .fnr (1 / 3) -
        1 / (((c09_easy [1, 2, 3, 4] [0, 1] 2 1 ⟨.pos, .pos⟩).metricArray .fnr).length : ℚ)) ∧
    indexTarget ((c09_easy [1, 2, 3, 4] [0, 1] 2 1 ⟨.pos, .pos⟩).metricArray .fnr)
        (normTarget (c09_easy [1, 2, 3, 4] [0, 1] 2 1 ⟨.pos, .pos⟩) .fnr (1 / 3))
        (normLc ⟨.pos, .pos⟩ Metric.fnr.increasing Metric.fnr.ratioClass) ≤
      (((c09_easy [1, 2, 3, 4] [0, 1] 2 1 ⟨.pos, .pos⟩).metricArray .fnr).length : ℚ) - 1 := by
  rw [c09_ex_easy]
  exact ⟨c09_ex_beyond, by decide +kernel, by decide +kernel, by decide +kernel,
    by decide +kernel⟩

/-- Non-vacuity of `C09_threshold_inside`: the materialised threshold is 3, inside (1, 4). -/
example : Ulp.half.Lawful ∧
    (c09_mat [1, 2, 3, 4] [0, 1] 2 1 ⟨.pos, .pos⟩ 10 (-10)).thresholdAt Ulp.half .fnr (1 / 3)
      .linear = .ok 3 ∧
    ((c09_easy [1, 2, 3, 4] [0, 1] 2 1 ⟨.pos, .pos⟩).metricArray .fnr).getD 0 0 < 3 ∧
    (3 : ℚ) < ((c09_easy [1, 2, 3, 4] [0, 1] 2 1 ⟨.pos, .pos⟩).metricArray .fnr).getD
      (((c09_easy [1, 2, 3, 4] [0, 1] 2 1 ⟨.pos, .pos⟩).metricArray .fnr).length - 1) 0 := by
  rw [c09_ex_easy, c09_ex_mat]
  exact ⟨Ulp.half_lawful, by decide +kernel, by decide +kernel, by decide +kernel⟩

/-- Non-vacuity of `C09_threshold_boundary_low` (TNR target 2/3: the materialised object returns
the first scored negative `0`, the easy-sample object one ulp below). -/
example : 2 ≤ ((c09_easy [1, 2, 3, 4] [0, 1] 2 1 ⟨.pos, .pos⟩).metricArray .tnr).length ∧
    0 < c09_low (Cfg.mk .pos .pos).scoreClass .tnr 2 1 ∧
    indexTarget ((c09_mat [1, 2, 3, 4] [0, 1] 2 1 ⟨.pos, .pos⟩ 10 (-10)).metricArray .tnr)
        (normTarget (c09_mat [1, 2, 3, 4] [0, 1] 2 1 ⟨.pos, .pos⟩ 10 (-10)) .tnr (2 / 3))
        (normLc ⟨.pos, .pos⟩ Metric.tnr.increasing Metric.tnr.ratioClass) =
      (c09_low (Cfg.mk .pos .pos).scoreClass .tnr 2 1 : ℚ) := by
  rw [c09_ex_easy, c09_ex_mat]
  exact ⟨by decide +kernel, by decide +kernel, by decide +kernel⟩

/-- Non-vacuity of `C09_threshold_boundary_high` (`equal_class = neg`, FNR target 2/3: the
materialised object returns the last scored positive `4`, the easy-sample object one ulp above). -/
example : 2 ≤ ((c09_easy [1, 2, 3, 4] [0, 1] 2 1 ⟨.pos, .neg⟩).metricArray .fnr).length ∧
    0 < c09_high (Cfg.mk .pos .neg).scoreClass .fnr 2 1 ∧
    normLc ⟨.pos, .neg⟩ Metric.fnr.increasing Metric.fnr.ratioClass = false ∧
    indexTarget ((c09_mat [1, 2, 3, 4] [0, 1] 2 1 ⟨.pos, .neg⟩ 10 (-10)).metricArray .fnr)
        (normTarget (c09_mat [1, 2, 3, 4] [0, 1] 2 1 ⟨.pos, .neg⟩ 10 (-10)) .fnr (2 / 3)) false =
      (c09_low (Cfg.mk .pos .neg).scoreClass .fnr 2 1 : ℚ) +
        (((c09_easy [1, 2, 3, 4] [0, 1] 2 1 ⟨.pos, .neg⟩).metricArray .fnr).length : ℚ) - 1 := by
  rw [c09_ex_easy, c09_ex_mat]
  exact ⟨by decide +kernel, by decide +kernel, by decide +kernel, by decide +kernel⟩

end SA
