/-
C09 — AUC clause: the object declaring `k` easy positives and `m` easy negatives (`c09_easy`) and
the object in which they are materialised as `k` copies of `Mp` and `m` copies of `Mn`
(`c09_mat`) have the same full and partial AUC, when `Mp`, `Mn` lie STRICTLY beyond all scores
(with weak inequalities a tie between a scored sample and a materialised one would change the tie
term of the Mann–Whitney statistic).

Part 1: reference semantics (`mannWhitney`, `stepArea`).  Part 2: the code-shaped model
`Scores.auc` via C07.
-/
import SA.Proofs.MwInvariance
import SA.Theorems.C07
import SA.Theorems.C09

namespace SA

/-- `Mp`, `Mn` lie strictly beyond all scores of both classes, each on its own class's side, and
on the correct side of each other (the last conjunct follows from the first whenever there is a
scored sample, see `c09_beyond_strict_of_mem`). -/
def c09_beyond_strict (sc : Label) (pos neg : List ℚ) (Mp Mn : ℚ) : Prop :=
  (∀ x ∈ pos ++ neg, match sc with
    | .pos => Mn < x ∧ x < Mp
    | .neg => Mp < x ∧ x < Mn) ∧
  match sc with
    | .pos => Mn < Mp
    | .neg => Mp < Mn

/-- the strict version implies the weak one used by the threshold clause -/
theorem c09_beyond_of_strict (sc : Label) (pos neg : List ℚ) (Mp Mn : ℚ)
    (h : c09_beyond_strict sc pos neg Mp Mn) : c09_beyond sc pos neg Mp Mn := by
  intro x hx
  have := h.1 x hx
  cases sc
  · exact ⟨le_of_lt this.1, le_of_lt this.2⟩
  · exact ⟨le_of_lt this.1, le_of_lt this.2⟩

/-- with at least one scored sample the mutual order of `Mp`, `Mn` is implied -/
theorem c09_beyond_strict_of_mem (sc : Label) (pos neg : List ℚ) (Mp Mn : ℚ)
    (hne : pos ++ neg ≠ [])
    (h : ∀ x ∈ pos ++ neg, match sc with
      | .pos => Mn < x ∧ x < Mp
      | .neg => Mp < x ∧ x < Mn) : c09_beyond_strict sc pos neg Mp Mn := by
  refine ⟨h, ?_⟩
  obtain ⟨x, hx⟩ := List.exists_mem_of_ne_nil _ hne
  have := h x hx
  cases sc
  · exact lt_trans this.1 this.2
  · exact lt_trans this.1 this.2

/-- what strict beyond-ness means for the comparisons of the reference semantics -/
theorem mwi_beyond_ranks (sc : Label) (pos neg : List ℚ) (Mp Mn : ℚ)
    (h : c09_beyond_strict sc pos neg Mp Mn) :
    (∀ x ∈ pos ++ neg, ranksAbove sc Mp x = true ∧ ranksAbove sc x Mn = true ∧
      x ≠ Mp ∧ x ≠ Mn) ∧ ranksAbove sc Mp Mn = true ∧ Mp ≠ Mn := by
  obtain ⟨h1, h2⟩ := h
  cases sc
  · refine ⟨fun x hx => ?_, ?_, ?_⟩
    · have := h1 x hx
      simp only [ranksAbove, decide_eq_true_eq]
      exact ⟨this.2, this.1, ne_of_lt this.2, ne_of_gt this.1⟩
    · simp only [ranksAbove, decide_eq_true_eq]; exact h2
    · exact ne_of_gt h2
  · refine ⟨fun x hx => ?_, ?_, ?_⟩
    · have := h1 x hx
      simp only [ranksAbove, decide_eq_true_eq]
      exact ⟨this.1, this.2, ne_of_gt this.1, ne_of_lt this.2⟩
    · simp only [ranksAbove, decide_eq_true_eq]; exact h2
    · exact ne_of_lt h2

/-! ## 1. Reference semantics -/

/-- **B1.** Under strict beyond-ness the Mann–Whitney statistic of the materialised object is
that of the easy-sample object: a materialised positive beats every negative (scored or
materialised), a materialised negative loses to every positive — exactly the `easyWins` term —
and no new ties arise.  Any lists (unsorted, ties among the scored samples), all four
configurations. -/
theorem mwi_mw_easy (pos neg : List ℚ) (k m : ℕ) (cfg : Cfg) (Mp Mn : ℚ)
    (hB : c09_beyond_strict cfg.scoreClass pos neg Mp Mn) :
    mannWhitney (c09_mat pos neg k m cfg Mp Mn) = mannWhitney (c09_easy pos neg k m cfg) := by
  obtain ⟨hx, hMM, hne⟩ := mwi_beyond_ranks _ _ _ _ _ hB
  unfold c09_mat c09_easy
  rw [mannWhitney_make, mannWhitney_make, mannWhitney_eq, mannWhitney_eq]
  have hw : mwWins ⟨pos ++ List.replicate k Mp, neg ++ List.replicate m Mn, 0, 0, cfg⟩ =
      mwWins ⟨pos, neg, k, m, cfg⟩ + pos.length * m + k * (neg.length + m) :=
    mwi_pairs_append_true (fun p q => ranksAbove cfg.scoreClass p q) pos neg k m Mp Mn
      (fun p hp => (hx p (List.mem_append_left _ hp)).2.1)
      (fun q hq => (hx q (List.mem_append_right _ hq)).1) hMM
  have ht : mwTies ⟨pos ++ List.replicate k Mp, neg ++ List.replicate m Mn, 0, 0, cfg⟩ =
      mwTies ⟨pos, neg, k, m, cfg⟩ :=
    mwi_pairs_append_false (fun p q => decide (p = q)) pos neg k m Mp Mn
      (fun p hp => decide_eq_false (hx p (List.mem_append_left _ hp)).2.2.2)
      (fun q hq => decide_eq_false (fun e => (hx q (List.mem_append_right _ hq)).2.2.1 e.symm))
      (decide_eq_false hne)
  rw [hw, ht]
  simp only [List.length_append, List.length_replicate, Nat.add_zero, Nat.zero_mul, Nat.mul_zero]
  have e : mwWins ⟨pos, neg, k, m, cfg⟩ + pos.length * m + k * (neg.length + m) =
      mwWins ⟨pos, neg, k, m, cfg⟩ + (k * (neg.length + m) + pos.length * m) := by ring
  rw [e]

theorem mwi_sortQ_idem (l : List ℚ) : sortQ (sortQ l) = sortQ l :=
  sortQ_eq_of_perm _ _ (sortQ_perm l)

/-- the rank order of the negatives of the materialised object: the scored negatives in rank
order, then the materialised easy negatives -/
theorem mwi_negsByRank_mat (pos neg : List ℚ) (k m : ℕ) (cfg : Cfg) (Mp Mn : ℚ)
    (hB : c09_beyond_strict cfg.scoreClass pos neg Mp Mn) :
    negsByRank (c09_mat pos neg k m cfg Mp Mn) =
      negsByRank (c09_easy pos neg k m cfg) ++ List.replicate m Mn := by
  have hw := c09_beyond_of_strict _ _ _ _ _ hB
  unfold negsByRank
  simp only [c09_mat, c09_easy, Scores.make, Bool.false_eq_true, if_false, mwi_sortQ_idem]
  obtain ⟨sc, ec⟩ := cfg
  cases sc
  · -- score_class = pos: Mn is the smallest negative
    have hs : sortQ (neg ++ List.replicate m Mn) = List.replicate m Mn ++ sortQ neg ++ [] := by
      apply c09_sort_block _ _ neg _
      · rw [List.append_nil]; exact List.perm_append_comm
      · rw [List.pairwise_replicate]; right; exact le_refl _
      · exact List.Pairwise.nil
      · intro a ha b hb
        rw [List.eq_of_mem_replicate ha]
        exact (hw b (List.mem_append_right _ hb)).1
      · intro a _ b hb; exact absurd hb List.not_mem_nil
      · intro a _ b hb; exact absurd hb List.not_mem_nil
    simp only [hs, List.append_nil, List.reverse_append, List.reverse_replicate]
  · -- score_class = neg: Mn is the largest negative
    have hs : sortQ (neg ++ List.replicate m Mn) = [] ++ sortQ neg ++ List.replicate m Mn := by
      apply c09_sort_block _ _ neg _
      · rw [List.nil_append]
      · exact List.Pairwise.nil
      · rw [List.pairwise_replicate]; right; exact le_refl _
      · intro a ha; exact absurd ha List.not_mem_nil
      · intro a ha b hb
        rw [List.eq_of_mem_replicate hb]
        exact (hw a (List.mem_append_right _ ha)).2
      · intro a ha; exact absurd ha List.not_mem_nil
    simp only [hs, List.nil_append]

/-- **B2.** Under strict beyond-ness the step area over any window `lower ≤ upper` of the
materialised object is that of the easy-sample object: the levels over the scored negatives are
unchanged (the materialised positives rank above every scored negative, as the easy positives
do), and the materialised negatives occupy the final stretch at level 1.  Holds for any lists,
with or without cross-class ties among the scored samples. -/
theorem mwi_step_easy (pos neg : List ℚ) (k m : ℕ) (cfg : Cfg) (Mp Mn : ℚ)
    (hB : c09_beyond_strict cfg.scoreClass pos neg Mp Mn)
    (lower upper : ℚ) (hlu : lower ≤ upper) :
    stepArea (c09_mat pos neg k m cfg Mp Mn) lower upper =
      stepArea (c09_easy pos neg k m cfg) lower upper := by
  obtain ⟨hx, hMM, _⟩ := mwi_beyond_ranks _ _ _ _ _ hB
  apply mwi_step_materialise (c09_easy pos neg k m cfg) (c09_mat pos neg k m cfg Mp Mn)
    lower upper hlu Mn
  · simp only [c09_mat, Scores.make, Bool.false_eq_true, if_false]
  · simp only [c09_mat, Scores.make, Bool.false_eq_true, if_false]
  · simp only [c09_mat, c09_easy, Scores.make, Bool.false_eq_true, if_false, length_sortQ,
      List.length_append, List.length_replicate]
  · simp only [c09_mat, c09_easy, Scores.make, Bool.false_eq_true, if_false, length_sortQ,
      List.length_append, List.length_replicate]
  · have := mwi_negsByRank_mat pos neg k m cfg Mp Mn hB
    simpa only [c09_easy, Scores.make, Bool.false_eq_true, if_false] using this
  · intro q hq
    have hq' : q ∈ neg := by
      have := (negsByRank_perm (c09_easy pos neg k m cfg)).mem_iff.mp hq
      simp only [c09_easy, Scores.make, Bool.false_eq_true, if_false] at this
      exact (sortQ_perm neg).mem_iff.mp this
    unfold winsOver
    simp only [c09_mat, c09_easy, Scores.make, Bool.false_eq_true, if_false, countP_sortQ,
      List.countP_append, List.countP_replicate, (hx q (List.mem_append_right _ hq')).1, if_true]
    omega
  · intro _
    unfold winsOver
    rw [List.countP_eq_length]
    intro p hp
    simp only [c09_mat, Scores.make, Bool.false_eq_true, if_false] at hp ⊢
    have hp' := (sortQ_perm _).mem_iff.mp hp
    rw [List.mem_append] at hp'
    rcases hp' with h | h
    · exact (hx p (List.mem_append_left _ h)).2.1
    · rw [List.eq_of_mem_replicate h]; exact hMM

/-! ## 2. The code-shaped model -/

theorem mwi_noCrossTies_iff (s : Scores) : noCrossTies s = true ↔ ∀ p ∈ s.pos, p ∉ s.neg := by
  unfold noCrossTies
  rw [List.all_eq_true]
  simp only [Bool.not_eq_true', List.contains_eq_mem, decide_eq_false_iff_not]

theorem mwi_noCrossTies_make (pos neg : List ℚ) (ep en : ℕ) (cfg : Cfg) :
    noCrossTies (Scores.make pos neg ep en cfg false) = true ↔ ∀ p ∈ pos, p ∉ neg := by
  rw [mwi_noCrossTies_iff]
  simp only [Scores.make, Bool.false_eq_true, if_false]
  constructor
  · intro h p hp hq
    exact h p ((sortQ_perm pos).mem_iff.mpr hp) ((sortQ_perm neg).mem_iff.mpr hq)
  · intro h p hp hq
    exact h p ((sortQ_perm pos).mem_iff.mp hp) ((sortQ_perm neg).mem_iff.mp hq)

/-- no cross-class ties among the scored samples + strict beyond-ness: no cross-class ties in
the materialised object -/
theorem mwi_noCrossTies_mat (pos neg : List ℚ) (k m : ℕ) (cfg : Cfg) (Mp Mn : ℚ)
    (hB : c09_beyond_strict cfg.scoreClass pos neg Mp Mn)
    (hnt : noCrossTies (c09_easy pos neg k m cfg) = true) :
    noCrossTies (c09_mat pos neg k m cfg Mp Mn) = true := by
  obtain ⟨hx, _, hne⟩ := mwi_beyond_ranks _ _ _ _ _ hB
  unfold c09_easy at hnt
  unfold c09_mat
  rw [mwi_noCrossTies_make] at hnt ⊢
  intro p hp hq
  rw [List.mem_append] at hp hq
  rcases hp with hp | hp <;> rcases hq with hq | hq
  · exact hnt p hp hq
  · exact (hx p (List.mem_append_left _ hp)).2.2.2 (List.eq_of_mem_replicate hq)
  · rw [List.eq_of_mem_replicate hp] at hq
    exact (hx Mp (List.mem_append_right _ hq)).2.2.1 rfl
  · rw [List.eq_of_mem_replicate hp] at hq
    exact hne (List.eq_of_mem_replicate hq)

/-- the oracle hypothesis on the materialised data implies the one on the scored data -/
theorem mwi_neighbour_sub (u : Ulp) (pos neg : List ℚ) (k m : ℕ) (Mp Mn : ℚ)
    (hadj : u.NeighbourOn ((pos ++ List.replicate k Mp) ++ (neg ++ List.replicate m Mn))) :
    u.NeighbourOn (pos ++ neg) := by
  have hm : ∀ x, x ∈ pos ++ neg →
      x ∈ (pos ++ List.replicate k Mp) ++ (neg ++ List.replicate m Mn) := by
    intro x hx
    simp only [List.mem_append] at hx ⊢
    rcases hx with h | h
    · exact Or.inl (Or.inl h)
    · exact Or.inr (Or.inl h)
  intro a ha b hb hab
  exact hadj a (hm a ha) b (hm b hb) hab

theorem mwi_make_neg_ne_nil (pos neg : List ℚ) (ep en : ℕ) (cfg : Cfg) (hneg : neg ≠ []) :
    (Scores.make pos neg ep en cfg false).neg ≠ [] := by
  intro h
  apply hneg
  have : (sortQ neg).length = 0 := by
    simp only [Scores.make, Bool.false_eq_true, if_false] at h; rw [h]; rfl
  rw [length_sortQ] at this
  exact List.eq_nil_of_length_eq_zero this

/-- **B3 (full AUC).** For a lawful `nextafter` oracle that is neighbourly on the materialised
data (hence on the scored data), at least one scored negative and strictly-beyond materialised
values, the full AUC of the code-shaped model is the same for the materialised and the
easy-sample object (any unsorted lists, ties, all four configurations). -/
theorem C09_auc_full (u : Ulp) (hu : u.Lawful) (pos neg : List ℚ) (k m : ℕ) (cfg : Cfg)
    (Mp Mn : ℚ) (hB : c09_beyond_strict cfg.scoreClass pos neg Mp Mn) (hneg : neg ≠ [])
    (hadj : u.NeighbourOn ((pos ++ List.replicate k Mp) ++ (neg ++ List.replicate m Mn))) :
    (c09_mat pos neg k m cfg Mp Mn).auc u 0 1 .fpr .tpr =
      (c09_easy pos neg k m cfg).auc u 0 1 .fpr .tpr := by
  have hneg' : neg ++ List.replicate m Mn ≠ [] := by
    intro h; exact hneg (List.append_eq_nil_iff.mp h).1
  have h1 : (c09_mat pos neg k m cfg Mp Mn).auc u 0 1 .fpr .tpr =
      mannWhitney (c09_mat pos neg k m cfg Mp Mn) :=
    C07_code_eq_mw_make u hu _ _ 0 0 cfg hneg' hadj
  have h2 : (c09_easy pos neg k m cfg).auc u 0 1 .fpr .tpr =
      mannWhitney (c09_easy pos neg k m cfg) :=
    C07_code_eq_mw_make u hu pos neg k m cfg hneg (mwi_neighbour_sub u pos neg k m Mp Mn hadj)
  rw [h1, h2, mwi_mw_easy pos neg k m cfg Mp Mn hB]

/-- **B3 (partial AUC).** If moreover no value is shared between the scored positives and the
scored negatives, the partial AUC over every window `[lower, upper] ⊆ [0, 1]` is the same. -/
theorem C09_auc_partial (u : Ulp) (hu : u.Lawful) (pos neg : List ℚ) (k m : ℕ) (cfg : Cfg)
    (Mp Mn : ℚ) (hB : c09_beyond_strict cfg.scoreClass pos neg Mp Mn) (hneg : neg ≠ [])
    (hadj : u.NeighbourOn ((pos ++ List.replicate k Mp) ++ (neg ++ List.replicate m Mn)))
    (hnt : noCrossTies (c09_easy pos neg k m cfg) = true)
    (lower upper : ℚ) (h0 : 0 ≤ lower) (hlu : lower ≤ upper) (h1 : upper ≤ 1) :
    (c09_mat pos neg k m cfg Mp Mn).auc u lower upper .fpr .tpr =
      (c09_easy pos neg k m cfg).auc u lower upper .fpr .tpr := by
  have hneg' : neg ++ List.replicate m Mn ≠ [] := by
    intro h; exact hneg (List.append_eq_nil_iff.mp h).1
  have e1 : (c09_mat pos neg k m cfg Mp Mn).auc u lower upper .fpr .tpr =
      stepArea (c09_mat pos neg k m cfg Mp Mn) lower upper := by
    apply C07_partial_eq_step u hu _ _ _ _ _ (mwi_noCrossTies_mat pos neg k m cfg Mp Mn hB hnt)
      lower upper h0 hlu h1
    · simpa [c09_mat, Scores.make] using sortQ_pairwise (pos ++ List.replicate k Mp)
    · simpa [c09_mat, Scores.make] using sortQ_pairwise (neg ++ List.replicate m Mn)
    · exact mwi_make_neg_ne_nil _ _ 0 0 cfg hneg'
    · exact neighbourOn_make u _ _ 0 0 cfg hadj
  have e2 : (c09_easy pos neg k m cfg).auc u lower upper .fpr .tpr =
      stepArea (c09_easy pos neg k m cfg) lower upper := by
    apply C07_partial_eq_step u hu _ _ _ _ _ hnt lower upper h0 hlu h1
    · simpa [c09_easy, Scores.make] using sortQ_pairwise pos
    · simpa [c09_easy, Scores.make] using sortQ_pairwise neg
    · exact mwi_make_neg_ne_nil _ _ k m cfg hneg
    · exact neighbourOn_make u _ _ k m cfg (mwi_neighbour_sub u pos neg k m Mp Mn hadj)
  rw [e1, e2, mwi_step_easy pos neg k m cfg Mp Mn hB lower upper hlu]

/-! ### non-vacuity -/

theorem mwi_ex_beyond : c09_beyond_strict Label.pos [1, 3, 5] [2, 4] 10 (-10) := by
  refine ⟨?_, by norm_num⟩
  intro x hx
  simp only [List.cons_append, List.nil_append, List.mem_cons, List.not_mem_nil, or_false] at hx
  rcases hx with rfl | rfl | rfl | rfl | rfl <;> norm_num

/-- Hypotheses of `mwi_mw_easy`, `mwi_step_easy`, `C09_auc_full`, `C09_auc_partial` are
satisfiable (half-step oracle, integer data, `Mp = 10`, `Mn = -10`, two easy positives, one easy
negative). -/
example : Ulp.half.Lawful ∧
    c09_beyond_strict (Cfg.mk .pos .neg).scoreClass [1, 3, 5] [2, 4] 10 (-10) ∧
    ([2, 4] : List ℚ) ≠ [] ∧
    Ulp.half.NeighbourOn (([1, 3, 5] ++ List.replicate 2 10) ++ ([2, 4] ++ List.replicate 1 (-10))) ∧
    noCrossTies (c09_easy [1, 3, 5] [2, 4] 2 1 ⟨.pos, .neg⟩) = true ∧
    (0 : ℚ) ≤ 1 / 4 ∧ (1 / 4 : ℚ) ≤ 1 / 2 ∧ (1 / 2 : ℚ) ≤ 1 := by
  refine ⟨Ulp.half_lawful, mwi_ex_beyond, by simp, ?_, ?_, by norm_num, by norm_num, by norm_num⟩
  · intro a ha b hb hab
    simp only [List.replicate, List.cons_append, List.nil_append, List.mem_cons,
      List.not_mem_nil, or_false] at ha hb
    rcases ha with rfl | rfl | rfl | rfl | rfl | rfl | rfl | rfl <;>
      rcases hb with rfl | rfl | rfl | rfl | rfl | rfl | rfl | rfl <;>
      first
      | (exfalso; revert hab; norm_num; done)
      | (simp only [Ulp.half]; constructor <;> norm_num)
  · rw [c09_easy, mwi_noCrossTies_make]
    intro p hp hq
    simp only [List.mem_cons, List.not_mem_nil, or_false] at hp hq
    rcases hp with rfl | rfl | rfl <;> rcases hq with h | h <;> revert h <;> norm_num

end SA
