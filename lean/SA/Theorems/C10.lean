/-
C10 — queries are vectorised elementwise, shape-preserving and side-effect free.

HONEST SCOPE.  The model is a pure functional program: `step` returns the state it was given
and the vectorised queries are `List.map` of the scalar ones.  Every theorem below is
therefore true *by construction of the model* — the proofs are inductions over the history
and `List.getElem_map`.  They say that the model has the C10 shape, so that the scalar
theorems of C01–C04 transfer to every element of every array call at every point of every
history.  They do NOT establish the runtime claims of C10: NumPy aliasing, in-place writes
(`tp += …`, `threshold[mask] = …`, `scores[0] = …`), dtype and scalar-vs-0-d-array behaviour
cannot even be exhibited in a pure model over lists of rationals.  Those clauses are decided
on sampled histories by harness/props/c10.py (byte-for-byte snapshots of the object and of
every caller-supplied array around every call) and listed under "statements_only" in
obligations.json.

Statements:
* `C10_pure`            after any history the state is the initial one (and after any prefix)
* `C10_repeat`          the same question at two positions of a history gets the same answer;
  `C10_output_at`       indeed the answer at position i depends on the object and qs[i] only
* `C10_elementwise_*`   element i of a vectorised result = the scalar call on element i;
                        lengths equal; result shape = X (rates, thresholds) / X ++ [2,2]
* `C10_pointwise_shape` shape A ++ X ++ [2,2], entry count consistent
* `C10_alias`           tar/frr/trr/far/acceptance_rate/rejection_rate = tpr/fnr/tnr/fpr/topr/tonr
* `C10_spec_*`          the model's own outputs satisfy the executable predicates of Spec/C10
-/
import SA.Spec.C10

namespace SA
open Spec.C10

/-! ### purity -/

/-- one query leaves the state as it was -/
theorem step_state (u : Ulp) (st : QState) (q : Query) : (step u st q).1 = st := by
  cases q <;> rfl

/-- **C10 (pure).** For every history — any sequence of queries of any length on any object —
the state after the history is the state before it. -/
theorem C10_pure (u : Ulp) (st : QState) (qs : List Query) : (runHistory u st qs).1 = st := by
  induction qs generalizing st with
  | nil => rfl
  | cons q qs ih =>
    show (runHistory u (step u st q).1 qs).1 = st
    rw [ih, step_state]

/-- … and so is every intermediate state. -/
theorem C10_pure_prefix (u : Ulp) (st : QState) (qs : List Query) (k : Nat) :
    (runHistory u st (qs.take k)).1 = st := C10_pure u st _

/-- The outputs of a history are the outputs of its queries put one by one to the initial
object: nothing an earlier call did is visible to a later one. -/
theorem runHistory_outs (u : Ulp) (st : QState) (qs : List Query) :
    (runHistory u st qs).2 = qs.map fun q => (step u st q).2 := by
  induction qs generalizing st with
  | nil => rfl
  | cons q qs ih =>
    show (step u st q).2 :: (runHistory u (step u st q).1 qs).2 = _
    rw [step_state, ih, List.map_cons]

theorem runHistory_length (u : Ulp) (st : QState) (qs : List Query) :
    (runHistory u st qs).2.length = qs.length := by
  rw [runHistory_outs, List.length_map]

/-- aliases are resolved before the object is consulted -/
theorem step_norm (u : Ulp) (st : QState) (q : Query) :
    (step u st q.norm).2 = (step u st q).2 := by
  cases q with
  | cm t => rfl
  | rate n t => cases n <;> rfl
  | thresholdAt n r m => cases n <;> rfl
  | swap => rfl

theorem step_congr_norm (u : Ulp) (st : QState) (q q' : Query) (h : q.norm = q'.norm) :
    (step u st q).2 = (step u st q').2 := by
  rw [← step_norm u st q, ← step_norm u st q', h]

/-- **C10 (output depends on the query only).** The output at position `i` of any history on
an object is the output of asking `qs[i]` of the fresh object. -/
theorem C10_output_at (u : Ulp) (st : QState) (qs : List Query) (i : Nat) (hi : i < qs.length) :
    (runHistory u st qs).2[i]'(by rw [runHistory_length]; exact hi) = (step u st qs[i]).2 := by
  simp only [runHistory_outs, List.getElem_map]

/-- **C10 (repeat).** In any history, two calls that ask the same question (same query, or
the same query through an alias name) return the same output, wherever they occur. -/
theorem C10_repeat (u : Ulp) (st : QState) (qs : List Query) (i j : Nat)
    (hi : i < qs.length) (hj : j < qs.length) (h : qs[i].norm = qs[j].norm) :
    (runHistory u st qs).2[i]'(by rw [runHistory_length]; exact hi)
      = (runHistory u st qs).2[j]'(by rw [runHistory_length]; exact hj) := by
  rw [C10_output_at u st qs i hi, C10_output_at u st qs j hj]
  exact step_congr_norm u st _ _ h

/-- the same across two different histories on the same object -/
theorem C10_repeat_across (u : Ulp) (st : QState) (qs qs' : List Query) (i j : Nat)
    (hi : i < qs.length) (hj : j < qs'.length) (h : qs[i].norm = qs'[j].norm) :
    (runHistory u st qs).2[i]'(by rw [runHistory_length]; exact hi)
      = (runHistory u st qs').2[j]'(by rw [runHistory_length]; exact hj) := by
  rw [C10_output_at u st qs i hi, C10_output_at u st qs' j hj]
  exact step_congr_norm u st _ _ h

/-- hypotheses of `C10_repeat` are satisfiable (an alias and its metric at two positions) -/
example : ∃ (qs : List Query) (i j : Nat) (hi : i < qs.length) (hj : j < qs.length),
    i ≠ j ∧ qs[i].norm = qs[j].norm :=
  ⟨[.rate .far (.fin 0), .swap, .rate .fpr (.fin 0)], 0, 2, by decide, by decide, by decide, rfl⟩

/-! ### shapes and elementwise -/

theorem numel_append (a b : List Nat) : numel (a ++ b) = numel a * numel b := by
  induction a with
  | nil => simp [numel]
  | cons d ds ih => simp [numel, ih, Nat.mul_assoc]

theorem length_flatMap_const {α β : Type} (f : α → List β) (c : Nat)
    (hc : ∀ x, (f x).length = c) (l : List α) : (l.flatMap f).length = l.length * c := by
  induction l with
  | nil => simp
  | cons a l ih => simp [List.flatMap_cons, hc, ih, Nat.add_mul, Nat.add_comm]

/-- row-major indexing of a `flatMap` with blocks of constant length `c` -/
theorem getElem?_flatMap_const {α β : Type} (f : α → List β) (c : Nat)
    (hc : ∀ x, (f x).length = c) (l : List α) (i k : Nat) (hk : k < c) :
    (l.flatMap f)[c * i + k]? = (l[i]?).bind fun x => (f x)[k]? := by
  induction l generalizing i with
  | nil => simp
  | cons a l ih =>
    rw [List.flatMap_cons]
    cases i with
    | zero =>
      rw [Nat.mul_zero, Nat.zero_add, List.getElem?_append_left (by rw [hc]; exact hk)]
      simp
    | succ i =>
      have h1 : c * (i + 1) + k = (f a).length + (c * i + k) := by
        rw [hc, Nat.mul_succ]; omega
      rw [h1, List.getElem?_append_right (Nat.le_add_right _ _), Nat.add_sub_cancel_left, ih]
      simp

/-- **C10 (elementwise, cm).** For a threshold array of shape `X`: the array of matrices has
shape `X`, as many entries as thresholds, and entry `i` is the scalar call on threshold `i`. -/
theorem C10_elementwise_cm (s : Scores) (ts : Arr ERat) :
    (s.cmV ts).shape = ts.shape ∧ (s.cmV ts).data.length = ts.data.length ∧
    ∀ (i : Nat) (h : i < ts.data.length),
      (s.cmV ts).data[i]'(by simpa [Scores.cmV, Arr.map] using h) = s.cm ts.data[i] := by
  refine ⟨rfl, by simp [Scores.cmV, Arr.map], ?_⟩
  intro i h
  simp [Scores.cmV, Arr.map]

/-- **C10 (shape, cm).** The integer array has shape `X ++ [2, 2]`; it is well-formed when
the threshold array is; and cell `k` of block `i` is cell `k` of the scalar matrix at
threshold `i` (row-major, the `(2, 2)` axes last). -/
theorem C10_shape_cm (s : Scores) (ts : Arr ERat) :
    (s.cmMatrix ts).shape = ts.shape ++ [2, 2] ∧
    (ts.WF → (s.cmMatrix ts).WF) ∧
    ∀ (i k : Nat), k < 4 →
      (s.cmMatrix ts).data[4 * i + k]? = (ts.data[i]?).bind fun t => (s.cm t).cells[k]? := by
  refine ⟨rfl, ?_, ?_⟩
  · intro h
    unfold Arr.WF at *
    simp only [Scores.cmMatrix, Scores.cmV, Arr.map, numel_append]
    rw [length_flatMap_const CM.cells 4 (fun _ => rfl), List.length_map, ← h]
    simp [numel]
  · intro i k hk
    simp only [Scores.cmMatrix, Scores.cmV, Arr.map]
    rw [getElem?_flatMap_const CM.cells 4 (fun _ => rfl) _ i k hk, List.getElem?_map]
    cases ts.data[i]? <;> rfl

/-- **C10 (elementwise, rates and aliases).** Shape `X`, same length, entry `i` = scalar call. -/
theorem C10_elementwise_rate (s : Scores) (n : RateName) (ts : Arr ERat) :
    (s.rateV n ts).shape = ts.shape ∧ (s.rateV n ts).data.length = ts.data.length ∧
    ∀ (i : Nat) (h : i < ts.data.length),
      (s.rateV n ts).data[i]'(by simpa [Scores.rateV, Arr.map] using h)
        = s.rateByName n ts.data[i] := by
  refine ⟨rfl, by simp [Scores.rateV, Arr.map], ?_⟩
  intro i h
  simp [Scores.rateV, Arr.map]

/-- **C10 (elementwise, thresholds).** If the array call returns, the result has shape `X`,
as many entries as targets, and entry `i` is what the scalar call returns on target `i`. -/
theorem C10_elementwise_threshold (u : Ulp) (s : Scores) (n : RateName) (m : Method)
    (rs a : Arr Rat) (h : s.thresholdAtV u n m rs = .ok a) :
    a.shape = rs.shape ∧ ∃ hl : a.data.length = rs.data.length,
    ∀ (i : Nat) (hi : i < rs.data.length),
      s.thresholdAtByName u n rs.data[i] m = .ok (a.data[i]'(by rw [hl]; exact hi)) := by
  unfold Scores.thresholdAtV at h
  by_cases h0 : (s.metricArray n.metric).length = 0
  · simp only [h0, if_true] at h; cases h
  · simp only [h0, if_false] at h
    have ha := (Except.ok.inj h).symm
    subst ha
    refine ⟨rfl, by simp [Arr.map], ?_⟩
    intro i hi
    simp [Scores.thresholdAtByName, Scores.thresholdAt, h0, Arr.map]

/-- The array call raises exactly when the scalar call raises, with the same error, whatever
the targets are (also for an empty target array: the check does not look at the targets). -/
theorem C10_threshold_error (u : Ulp) (s : Scores) (n : RateName) (m : Method) (rs : Arr Rat)
    (r : Rat) (e : Err) :
    s.thresholdAtV u n m rs = .error e ↔ s.thresholdAtByName u n r m = .error e := by
  unfold Scores.thresholdAtV Scores.thresholdAtByName Scores.thresholdAt
  by_cases h0 : (s.metricArray n.metric).length = 0
  · simp [h0]
  · simp [h0]

/-- hypothesis of `C10_elementwise_threshold` is satisfiable -/
example : ∃ a, (Scores.make [1, 2] [0] 0 0 ⟨.pos, .pos⟩ true).thresholdAtV Ulp.float64 .frr
    .lower ⟨[2, 0], []⟩ = .ok a := ⟨_, rfl⟩

/-- **C10 (pointwise shape).** `pointwise_cm` on samples of shape `A` and thresholds of shape
`X` has shape `A ++ X ++ [2, 2]`, and the number of entries is consistent with that shape
(in particular `0` as soon as any axis has size 0). -/
theorem C10_pointwise_shape (cfg : Cfg) (samples : Arr (Bool × Rat)) (ts : Arr ERat) :
    (pointwiseV cfg samples ts).shape = samples.shape ++ ts.shape ++ [2, 2] ∧
    (samples.WF → ts.WF → (pointwiseV cfg samples ts).WF) := by
  refine ⟨rfl, ?_⟩
  intro hs ht
  unfold Arr.WF at *
  simp only [pointwiseV, numel_append]
  rw [length_flatMap_const _ (ts.data.length * 4)
    (fun smp => length_flatMap_const _ 4 (fun _ => rfl) ts.data), ← hs, ← ht]
  simp [numel, Nat.mul_assoc]

/-- entry `(i, j, k)` of the pointwise array is cell `k` of sample `i` at threshold `j` -/
theorem C10_pointwise_elementwise (cfg : Cfg) (samples : Arr (Bool × Rat)) (ts : Arr ERat)
    (i j k : Nat) (hj : j < ts.data.length) (hk : k < 4) :
    (pointwiseV cfg samples ts).data[(ts.data.length * 4) * i + (4 * j + k)]? =
      (samples.data[i]?).bind fun smp => (ts.data[j]?).bind fun t =>
        (pointwiseCell cfg smp.1 smp.2 t).cells[k]? := by
  simp only [pointwiseV]
  rw [getElem?_flatMap_const _ (ts.data.length * 4)
    (fun smp => length_flatMap_const _ 4 (fun _ => rfl) ts.data) _ i (4 * j + k) (by omega)]
  cases samples.data[i]? with
  | none => rfl
  | some smp =>
    simp only [Option.bind_some]
    rw [getElem?_flatMap_const _ 4 (fun _ => rfl) _ j k hk]

/-- well-formedness hypotheses are satisfiable, including size-0 axes -/
example : (⟨[2, 0], []⟩ : Arr ERat).WF ∧ (⟨[], [.fin 0]⟩ : Arr ERat).WF ∧
    (⟨[2, 1, 2], [.fin 0, .posInf, .negInf, .fin 1]⟩ : Arr ERat).WF := ⟨rfl, rfl, rfl⟩

/-! ### aliases -/

/-- **C10 (alias).** The alias table: for every object, threshold, target, method and array,
`tar`, `frr`, `trr`, `far`, `acceptance_rate`, `rejection_rate` (and the corresponding
`threshold_at_*`) denote `tpr`, `fnr`, `tnr`, `fpr`, `topr`, `tonr`. -/
theorem C10_alias (u : Ulp) (s : Scores) :
    (∀ t, s.rateByName .tar t = s.rateByName .tpr t ∧ s.rateByName .frr t = s.rateByName .fnr t ∧
      s.rateByName .trr t = s.rateByName .tnr t ∧ s.rateByName .far t = s.rateByName .fpr t ∧
      s.rateByName .acceptanceRate t = s.rateByName .topr t ∧
      s.rateByName .rejectionRate t = s.rateByName .tonr t) ∧
    (∀ r m, s.thresholdAtByName u .tar r m = s.thresholdAtByName u .tpr r m ∧
      s.thresholdAtByName u .frr r m = s.thresholdAtByName u .fnr r m ∧
      s.thresholdAtByName u .trr r m = s.thresholdAtByName u .tnr r m ∧
      s.thresholdAtByName u .far r m = s.thresholdAtByName u .fpr r m ∧
      s.thresholdAtByName u .acceptanceRate r m = s.thresholdAtByName u .topr r m ∧
      s.thresholdAtByName u .rejectionRate r m = s.thresholdAtByName u .tonr r m) ∧
    (∀ (n : RateName) ts, s.rateV n ts = s.rateV n.base ts) ∧
    (∀ (n : RateName) m rs, s.thresholdAtV u n m rs = s.thresholdAtV u n.base m rs) :=
  ⟨fun _ => ⟨rfl, rfl, rfl, rfl, rfl, rfl⟩, fun _ _ => ⟨rfl, rfl, rfl, rfl, rfl, rfl⟩,
   fun n _ => by cases n <;> rfl, fun n _ _ => by cases n <;> rfl⟩

/-- every name's defining metric is the documented one -/
theorem C10_alias_table :
    RateName.tar.metric = .tpr ∧ RateName.frr.metric = .fnr ∧ RateName.trr.metric = .tnr ∧
    RateName.far.metric = .fpr ∧ RateName.acceptanceRate.metric = .topr ∧
    RateName.rejectionRate.metric = .tonr := ⟨rfl, rfl, rfl, rfl, rfl, rfl⟩

/-! ### the model's outputs satisfy the executable predicates -/

theorem mem_zip_map {α β : Type} (g : α → β) (l : List α) (a : α × β)
    (h : a ∈ l.zip (l.map g)) : a.2 = g a.1 := by
  induction l with
  | nil => simp at h
  | cons x l ih =>
    simp only [List.map_cons, List.zip_cons_cons, List.mem_cons] at h
    rcases h with h | h
    · subst h; rfl
    · exact ih h

/-- **C10 (spec, repeat).** Whatever is recorded of the outputs (`f`), the model's history
satisfies the repeat/alias predicate that the driver evaluates on the implementation's
observations. -/
theorem C10_spec_repeat {β : Type} [DecidableEq β] (u : Ulp) (st : QState) (qs : List Query)
    (f : Out → β) :
    repeatOK qs ((runHistory u st qs).2.map f) = true ∧
    lengthOK qs ((runHistory u st qs).2.map f) = true := by
  constructor
  · rw [runHistory_outs, List.map_map]
    unfold repeatOK repeatFlags
    rw [List.all_eq_true]
    intro x hx
    obtain ⟨a, ha, rfl⟩ := List.mem_map.mp hx
    simp only [id]
    rw [List.all_eq_true]
    intro b hb
    have e1 := mem_zip_map _ qs a ha
    have e2 := mem_zip_map _ qs b hb
    unfold sameAnswer
    by_cases hn : a.1.norm = b.1.norm
    · have : a.2 = b.2 := by
        rw [e1, e2]
        simp only [Function.comp]
        rw [step_congr_norm u st _ _ hn]
      simp [this]
    · simp [hn]
  · simp [lengthOK, runHistory_length]

/-- **C10 (spec, shapes).** The model's vectorised results satisfy the shape predicates. -/
theorem C10_spec_shape (u : Ulp) (cfg : Cfg) (s : Scores) (n : RateName) (m : Method)
    (ts : Arr ERat) (rs a : Arr Rat) (samples : Arr (Bool × Rat))
    (h : s.thresholdAtV u n m rs = .ok a) :
    matrixShapeOK ts.shape (s.cmMatrix ts).shape = true ∧
    sameShapeOK ts.shape (s.rateV n ts).shape = true ∧
    sameShapeOK rs.shape a.shape = true ∧
    pointwiseShapeOK samples.shape ts.shape (pointwiseV cfg samples ts).shape = true := by
  have h3 := (C10_elementwise_threshold u s n m rs a h).1
  simp [matrixShapeOK, sameShapeOK, pointwiseShapeOK, Scores.cmMatrix, Scores.rateV, Arr.map,
    pointwiseV, h3]

end SA
