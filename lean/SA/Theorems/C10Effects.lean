/-
C10 — soundness of the effect checker (`SA/Model/Effects.lean`) for the heap semantics of the effect IR.

The IR bodies the theorems are applied to are REGENERATED FROM THE PYTHON SOURCE on every `./check C10` run by
`harness/effects.py`, together with a certificate (one abstract environment per body, one table of callee
summaries); the generated file states `analysis table bodies = ⟨true, violators, ids⟩` about them (`decide +kernel`;
`violators` = entry bodies with a definite violation, empty on a clean tree; `ids` = the covered entry bodies).  What is proved here,
for ALL bodies, certificates, tables, all oracles (= all resolutions of the nondeterminism: branch taken, iteration
counts, which provenance of a may-alias set, bytes written, cell behind an `unknown`) and all initial heaps:

* `exec_sound`              one statement: if the checker accepts it (`safe`: the certificate is closed under its
                            bindings and every write is allowed) and the certificate describes the state, then it
                            describes the state after it, every cell allocated before the body started that is not
                            the cell of a parameter in `W` keeps its bytes, the field table of `self` is unchanged,
                            and a returned cell has one of the roots `rets`.
* `C10_effects_no_mutation` a body with `writesOnlyFresh ∧ noSelfStore` (w.r.t. the summaries `T` of its callees), run from
                            ANY heap with ANY parameter / self cells: every cell allocated at entry keeps its bytes and
                            `self`'s field table is the same — in particular every cell reachable from the parameters and
                            from `self` (`C10_effects_params_unchanged`, `C10_effects_self_unchanged`).
* `summary_conformance`     a body accepted against a write set `W`: only cells of the parameters in `W` (and fresh cells)
                            change, `self` does not, and the result has one of the roots `rets` — this is exactly what
                            `stepCall` performs for a summary `⟨W, false, rets⟩`, so a checked summary over-approximates its
                            body (the modular step: calls are executed by summary).
* `analysis_sound`, `allBodiesOk_sound`, `tableChecked_sound`
                            the statement the generated file proves by `decide` (`analysis table bodies = ⟨true, [], ids⟩`)
                            gives the hypotheses of `C10_effects_no_mutation` for each covered body (`ids`) and of
                            `summary_conformance` for each summary in use.
* examples                  the hypotheses are satisfiable (a body that writes a fresh array in a loop is accepted);
                            a body that writes through an alias of a parameter is rejected AND does change the caller's
                            cell; a store to `self` is rejected and does change the field table; a certificate that is
                            not closed is rejected.

Trusted, not proved: the translator (Python `ast` → IR, the NumPy classification table in the header of
`harness/effects.py`) and the reading of the IR semantics as a model of CPython + NumPy memory.  NOT trusted: the
certificates (environment, summaries) — a wrong one fails `closed` / `tableChecked`.
-/
import SA.Model.Effects
import Mathlib.Tactic.Linarith
import Mathlib.Tactic.Ring

namespace SA.Effects

/-! ### small list facts -/

theorem mem_dedup {r : Root} : ∀ {l : List Root}, r ∈ dedup l ↔ r ∈ l
  | [] => by simp [dedup]
  | a :: t => by
    have ih := @mem_dedup r t
    by_cases h : a ∈ dedup t
    · simp only [dedup, h, if_true, List.mem_cons]
      constructor
      · intro h1; exact Or.inr (ih.1 h1)
      · rintro (rfl | h1)
        · exact h
        · exact ih.2 h1
    · simp only [dedup, h, if_false, List.mem_cons, ih]

theorem mem_srcsRoots {E : AbsEnv} {srcs : List Src} {s : Src} {r : Root}
    (hs : s ∈ srcs) (hr : r ∈ srcRoots E s) : r ∈ srcsRoots E srcs := by
  unfold srcsRoots
  exact List.mem_flatMap.2 ⟨s, hs, hr⟩

theorem Root.beq_eq : ∀ {a b : Root}, Root.beq a b = true → a = b
  | .fresh, .fresh, _ => rfl
  | .unknown, .unknown, _ => rfl
  | .param i, .param j, h => by
    have : i = j := Nat.eq_of_beq_eq_true h
    rw [this]
  | .selfField i, .selfField j, h => by
    have : i = j := Nat.eq_of_beq_eq_true h
    rw [this]
  | .fresh, .param _, h | .fresh, .selfField _, h | .fresh, .unknown, h
  | .param _, .fresh, h | .param _, .selfField _, h | .param _, .unknown, h
  | .selfField _, .fresh, h | .selfField _, .param _, h | .selfField _, .unknown, h
  | .unknown, .fresh, h | .unknown, .param _, h | .unknown, .selfField _, h => by simp [Root.beq] at h

theorem memRoot_sound {r : Root} : ∀ {l : List Root}, memRoot r l = true → r ∈ l
  | [], h => by simp [memRoot] at h
  | a :: t, h => by
    simp only [memRoot, Bool.or_eq_true] at h
    rcases h with h | h
    · rw [Root.beq_eq h]; exact List.mem_cons_self
    · exact List.mem_cons_of_mem _ (memRoot_sound h)

theorem memNat_sound {i : Nat} : ∀ {l : List Nat}, memNat i l = true → i ∈ l
  | [], h => by simp [memNat] at h
  | a :: t, h => by
    simp only [memNat, Bool.or_eq_true] at h
    rcases h with h | h
    · rw [Nat.eq_of_beq_eq_true h]; exact List.mem_cons_self
    · exact List.mem_cons_of_mem _ (memNat_sound h)

theorem subset_sound {a b : List Root} (h : subset a b = true) {r : Root} (hr : r ∈ a) : r ∈ b := by
  unfold subset at h
  exact memRoot_sound (List.all_eq_true.1 h r hr)

/-- a binding found by `get?` is visited by `allFrom` under its key -/
theorem Tree.allFrom_get {α : Type} (p : Nat → α → Bool) : ∀ (t : Tree α) (a b m : Nat) (e : α),
    t.get? m = some e → t.allFrom p a b = true → p (a + b * m) e = true
  | .leaf, _, _, _, _, h, _ => by simp [Tree.get?] at h
  | .node l v r, a, b, m, e, h, hall => by
    simp only [Tree.allFrom, Bool.and_eq_true] at hall
    obtain ⟨⟨hv, hl⟩, hr⟩ := hall
    simp only [Tree.get?] at h
    by_cases h0 : Nat.beq m 0 = true
    · have hm : m = 0 := Nat.eq_of_beq_eq_true h0
      simp only [h0, cond_true] at h
      subst hm
      subst h
      simpa using hv
    · have h0' : Nat.beq m 0 = false := Bool.eq_false_iff.2 h0
      simp only [h0', cond_false] at h
      have hm0 : m ≠ 0 := fun e0 => by simp [e0] at h0'
      by_cases h1 : Nat.beq (m % 2) 1 = true
      · have hodd : m % 2 = 1 := Nat.eq_of_beq_eq_true h1
        simp only [h1, cond_true] at h
        have := Tree.allFrom_get p l (a + b) (2 * b) (m / 2) e h hl
        have hm : m = 2 * (m / 2) + 1 := by omega
        have harith : a + b + 2 * b * (m / 2) = a + b * m := by
          conv_rhs => rw [hm]
          ring
        rw [harith] at this
        exact this
      · have h1' : Nat.beq (m % 2) 1 = false := Bool.eq_false_iff.2 h1
        simp only [h1', cond_false] at h
        have hev : m % 2 = 0 := by
          have : m % 2 ≠ 1 := fun e1 => by simp [e1] at h1'
          omega
        have := Tree.allFrom_get p r (a + 2 * b) (2 * b) (m / 2 - 1) e h hr
        have hm : m = 2 * (m / 2 - 1) + 2 := by omega
        have harith : a + 2 * b + 2 * b * (m / 2 - 1) = a + b * m := by
          conv_rhs => rw [hm]
          ring
        rw [harith] at this
        exact this

theorem Tree.all_get {α : Type} {t : Tree α} {p : Nat → α → Bool} {k : Nat} {e : α}
    (h : t.get? k = some e) (hall : t.all p = true) : p k e = true := by
  have := Tree.allFrom_get p t 0 1 k e h hall
  simpa using this

/-! ### the invariant -/

section Sound

variable (cx : Ctx) (next0 : Nat) (self0 : List (Nat × Nat)) (heap0 : Nat → List UInt8) (W : List Nat)

/-- a cell has a root: `fresh` = allocated after the body started -/
def Sat : Root → Nat → Prop
  | .fresh, c => next0 ≤ c
  | .param i, c => cx.params[i]? = some c
  | .selfField f, c => assoc self0 f = some c
  | .unknown, _ => True

/-- every bound name points to a cell that has one of the name's abstract roots -/
def EnvOk (σ : State) (E : AbsEnv) : Prop :=
  ∀ x c, assoc σ.env x = some c → ∃ r ∈ roots E x, Sat cx next0 self0 r c

/-- the cells the body must not touch: allocated at entry and not a parameter it is allowed to write -/
def Protected (c : Nat) : Prop :=
  c < next0 ∧ ∀ i ∈ W, cx.params[i]? ≠ some c

structure Good (σ : State) (E : AbsEnv) (R : List Root) : Prop where
  next_ge : next0 ≤ σ.next
  self_eq : σ.self = self0
  frame : ∀ c, Protected cx next0 W c → σ.heap c = heap0 c
  env : σ.halted = true ∨ EnvOk cx next0 self0 σ E
  ret : ∀ c, σ.ret = some c → ∃ r ∈ R, Sat cx next0 self0 r c

variable {cx next0 self0 heap0 W}

theorem Good.retMono {σ : State} {E : AbsEnv} {R R' : List Root}
    (hR : ∀ r ∈ R, r ∈ R') (g : Good cx next0 self0 heap0 W σ E R) :
    Good cx next0 self0 heap0 W σ E R' :=
  { next_ge := g.next_ge, self_eq := g.self_eq, frame := g.frame, env := g.env,
    ret := fun c hc => by
      obtain ⟨r, hr, hs⟩ := g.ret c hc
      exact ⟨r, hR r hr, hs⟩ }

/-- a halted state satisfies the invariant for any abstract environment -/
theorem Good.ofHalted {σ : State} {E E' : AbsEnv} {R : List Root} (hh : σ.halted = true)
    (g : Good cx next0 self0 heap0 W σ E R) : Good cx next0 self0 heap0 W σ E' R :=
  { next_ge := g.next_ge, self_eq := g.self_eq, frame := g.frame, env := Or.inl hh, ret := g.ret }

/-! ### the steps -/

theorem upd_other {h : Nat → List UInt8} {c d : Nat} {v : List UInt8} (hd : d ≠ c) : upd h c v d = h d := by
  simp [upd, hd]

/-- what evaluating a provenance does to a state, and the root of the cell it yields -/
theorem evalSrc_spec {σ σ' : State} {E : AbsEnv} {s : Src} {c : Nat}
    (h : evalSrc cx σ s = some (c, σ')) (hn : next0 ≤ σ.next) (hself : σ.self = self0)
    (ho : EnvOk cx next0 self0 σ E) :
    σ'.env = σ.env ∧ σ'.self = σ.self ∧ σ.next ≤ σ'.next ∧ σ'.halted = σ.halted ∧ σ'.ret = σ.ret
      ∧ (∀ d, d < next0 → σ'.heap d = σ.heap d)
      ∧ ∃ r ∈ srcRoots E s, Sat cx next0 self0 r c := by
  cases s with
  | fresh =>
    simp only [evalSrc, Option.some.injEq, Prod.mk.injEq] at h
    obtain ⟨rfl, rfl⟩ := h
    refine ⟨rfl, rfl, Nat.le_succ _, rfl, rfl, ?_, .fresh, by simp [srcRoots], hn⟩
    intro d hd
    exact upd_other (by omega)
  | param i =>
    simp only [evalSrc, Option.map_eq_some_iff, Prod.mk.injEq] at h
    obtain ⟨a, ha, rfl, rfl⟩ := h
    exact ⟨rfl, rfl, Nat.le_refl _, rfl, rfl, fun _ _ => rfl, .param i, by simp [srcRoots], ha⟩
  | selfField f =>
    simp only [evalSrc, Option.map_eq_some_iff, Prod.mk.injEq] at h
    obtain ⟨a, ha, rfl, rfl⟩ := h
    refine ⟨rfl, rfl, Nat.le_refl _, rfl, rfl, fun _ _ => rfl, .selfField f, by simp [srcRoots], ?_⟩
    show assoc self0 f = some a
    rw [← hself]; exact ha
  | viewOf y =>
    simp only [evalSrc, Option.map_eq_some_iff, Prod.mk.injEq] at h
    obtain ⟨a, ha, rfl, rfl⟩ := h
    obtain ⟨r, hr, hs⟩ := ho y a ha
    exact ⟨rfl, rfl, Nat.le_refl _, rfl, rfl, fun _ _ => rfl, r, hr, hs⟩
  | aliasOf y =>
    simp only [evalSrc, Option.map_eq_some_iff, Prod.mk.injEq] at h
    obtain ⟨a, ha, rfl, rfl⟩ := h
    obtain ⟨r, hr, hs⟩ := ho y a ha
    exact ⟨rfl, rfl, Nat.le_refl _, rfl, rfl, fun _ _ => rfl, r, hr, hs⟩
  | maybeViewOf y =>
    simp only [evalSrc, Option.map_eq_some_iff, Prod.mk.injEq] at h
    obtain ⟨a, ha, rfl, rfl⟩ := h
    obtain ⟨r, hr, hs⟩ := ho y a ha
    refine ⟨rfl, rfl, Nat.le_refl _, rfl, rfl, fun _ _ => rfl, weaken r, ?_, ?_⟩
    · simp only [srcRoots]
      exact List.mem_map.2 ⟨r, hr, rfl⟩
    · cases r with
      | fresh => exact hs
      | param i => trivial
      | selfField f => trivial
      | unknown => trivial
  | unknown =>
    simp only [evalSrc, Option.some.injEq, Prod.mk.injEq] at h
    obtain ⟨rfl, rfl⟩ := h
    exact ⟨rfl, rfl, Nat.le_refl _, rfl, rfl, fun _ _ => rfl, .unknown, by simp [srcRoots], trivial⟩

theorem pickSrc_spec {σ σ' : State} {E : AbsEnv} {srcs : List Src} {c : Nat}
    (h : pickSrc cx σ srcs = some (c, σ')) (hn : next0 ≤ σ.next) (hself : σ.self = self0)
    (ho : EnvOk cx next0 self0 σ E) :
    σ'.env = σ.env ∧ σ'.self = σ.self ∧ σ.next ≤ σ'.next ∧ σ'.halted = σ.halted ∧ σ'.ret = σ.ret
      ∧ (∀ d, d < next0 → σ'.heap d = σ.heap d)
      ∧ ∃ r ∈ srcsRoots E srcs, Sat cx next0 self0 r c := by
  unfold pickSrc at h
  split at h
  · exact absurd h (by simp)
  · rename_i s hs
    have hmem : s ∈ srcs := List.mem_of_getElem? hs
    have ho' : EnvOk cx next0 self0 { σ with tick := σ.tick + 1 } E := ho
    obtain ⟨h1, h2, h3, h4, h5, h6, r, hr, hsat⟩ := evalSrc_spec (σ := { σ with tick := σ.tick + 1 }) h hn hself ho'
    exact ⟨h1, h2, h3, h4, h5, h6, r, mem_srcsRoots hmem hr, hsat⟩

theorem assoc_cons (k v : Nat) (t : List (Nat × Nat)) (x : Nat) :
    assoc ((k, v) :: t) x = if k = x then some v else assoc t x := rfl

/-- binding under a closed certificate keeps the certificate valid -/
theorem stepBind_closed {σ : State} {E : AbsEnv} {R : List Root} (x : Nat) (srcs : List Src)
    (hc : subset (srcsRoots E srcs) (roots E x) = true)
    (g : Good cx next0 self0 heap0 W σ E R) :
    Good cx next0 self0 heap0 W (stepBind cx x srcs σ) E R := by
  unfold stepBind
  by_cases hh : σ.halted = true
  · simp only [hh, if_true]; exact g
  · simp only [hh, Bool.false_eq_true, ↓reduceIte]
    have ho : EnvOk cx next0 self0 σ E := g.env.resolve_left hh
    cases hp : pickSrc cx σ srcs with
    | none => exact (show Good cx next0 self0 heap0 W σ.halt _ R from
        { next_ge := g.next_ge, self_eq := g.self_eq, frame := g.frame, env := Or.inl rfl, ret := g.ret })
    | some p =>
      obtain ⟨c, σ'⟩ := p
      obtain ⟨h1, h2, h3, h4, h5, h6, r, hr, hsat⟩ := pickSrc_spec hp g.next_ge g.self_eq ho
      refine { next_ge := Nat.le_trans g.next_ge h3, self_eq := h2.trans g.self_eq, frame := ?_, env := Or.inr ?_, ret := ?_ }
      · intro d hd
        show σ'.heap d = heap0 d
        rw [h6 d hd.1]; exact g.frame d hd
      · intro y d hy
        simp only [assoc_cons] at hy
        by_cases hxy : x = y
        · simp only [hxy, if_true, Option.some.injEq] at hy
          subst hy
          exact ⟨r, hxy ▸ subset_sound hc hr, hsat⟩
        · simp only [hxy, if_false] at hy
          rw [h1] at hy
          exact ho y d hy
      · intro d hd
        have : σ.ret = some d := by rw [← h5]; exact hd
        exact g.ret d this

theorem sat_allowed_not_protected {r : Root} {c : Nat} (ha : rootAllowed W r = true)
    (hs : Sat cx next0 self0 r c) : ¬ Protected cx next0 W c := by
  intro hp
  cases r with
  | fresh => exact absurd hp.1 (Nat.not_lt.2 hs)
  | param i =>
    have hi : i ∈ W := memNat_sound ha
    exact hp.2 i hi hs
  | selfField f => simp [rootAllowed] at ha
  | unknown => simp [rootAllowed] at ha

theorem stepWrite_good {σ : State} {E : AbsEnv} {R : List Root} (x : Nat)
    (ha : (roots E x).all (rootAllowed W) = true)
    (g : Good cx next0 self0 heap0 W σ E R) :
    Good cx next0 self0 heap0 W (stepWrite cx x σ) E R := by
  unfold stepWrite
  by_cases hh : σ.halted = true
  · simp only [hh, if_true]; exact g
  · simp only [hh, Bool.false_eq_true, ↓reduceIte]
    have ho : EnvOk cx next0 self0 σ E := g.env.resolve_left hh
    cases hx : assoc σ.env x with
    | none => exact (show Good cx next0 self0 heap0 W σ.halt _ R from
        { next_ge := g.next_ge, self_eq := g.self_eq, frame := g.frame, env := Or.inl rfl, ret := g.ret })
    | some c =>
      obtain ⟨r, hr, hsat⟩ := ho x c hx
      have hnp := sat_allowed_not_protected (List.all_eq_true.1 ha r hr) hsat
      refine { next_ge := g.next_ge, self_eq := g.self_eq, frame := ?_, env := g.env.imp (fun h => absurd h hh) (fun h => h), ret := g.ret }
      intro d hd
      show upd σ.heap c _ d = heap0 d
      have hdc : d ≠ c := fun e => hnp (e ▸ hd)
      rw [upd_other hdc]; exact g.frame d hd

theorem stepWrites_good {E : AbsEnv} {R : List Root} : ∀ (xs : List Nat) {σ : State},
    (∀ x ∈ xs, (roots E x).all (rootAllowed W) = true) →
    Good cx next0 self0 heap0 W σ E R → Good cx next0 self0 heap0 W (stepWrites cx xs σ) E R
  | [], _, _, g => g
  | x :: t, _, ha, g =>
    stepWrites_good t (fun y hy => ha y (List.mem_cons_of_mem _ hy))
      (stepWrite_good x (ha x List.mem_cons_self) g)

theorem stepRet_good {σ : State} {E : AbsEnv} {R : List Root} (srcs : List Src)
    (g : Good cx next0 self0 heap0 W σ E R) :
    Good cx next0 self0 heap0 W (stepRet cx srcs σ) E (R ++ srcsRoots E srcs) := by
  unfold stepRet
  by_cases hh : σ.halted = true
  · simp only [hh, if_true]; exact g.retMono (fun r hr => List.mem_append_left _ hr)
  · simp only [hh, Bool.false_eq_true, ↓reduceIte]
    have ho : EnvOk cx next0 self0 σ E := g.env.resolve_left hh
    cases hp : pickSrc cx σ srcs with
    | none => exact (show Good cx next0 self0 heap0 W σ.halt _ _ from
        { next_ge := g.next_ge, self_eq := g.self_eq, frame := g.frame, env := Or.inl rfl,
          ret := fun c hc => by
            obtain ⟨r, hr, hs⟩ := g.ret c hc
            exact ⟨r, List.mem_append_left _ hr, hs⟩ })
    | some p =>
      obtain ⟨c, σ'⟩ := p
      obtain ⟨h1, h2, h3, h4, h5, h6, r, hr, hsat⟩ := pickSrc_spec hp g.next_ge g.self_eq ho
      refine { next_ge := Nat.le_trans g.next_ge h3, self_eq := h2.trans g.self_eq, frame := ?_, env := Or.inl rfl, ret := ?_ }
      · intro d hd
        show σ'.heap d = heap0 d
        rw [h6 d hd.1]; exact g.frame d hd
      · intro d hd
        have : c = d := by simpa using hd
        subst this
        exact ⟨r, List.mem_append_right _ hr, hsat⟩

/-! ### calls -/

theorem writtenArgs_allowed {E : AbsEnv} {args ws : List Nat}
    {site : Nat} (h : ((writtenArgs args ws).map (fun a => Finding.write site a (roots E a) true)).all (Finding.allowed W) = true) :
    ∀ x ∈ writtenArgs args ws, (roots E x).all (rootAllowed W) = true := by
  intro x hx
  have := List.all_eq_true.1 h (Finding.write site x (roots E x) true) (List.mem_map.2 ⟨x, hx, rfl⟩)
  exact this

theorem stepCall_good {T : Table} (hT : cx.table = T) {σ : State} {E : AbsEnv} {R : List Root}
    (dst : Option Nat) (gname : Nat) (recv : Recv) (args : List Nat) (site : Nat)
    (hclosed : closed T E (.call dst gname recv args site) = true)
    (hsafe : (callFindings T E site gname recv args).all (Finding.allowed W) = true)
    (g : Good cx next0 self0 heap0 W σ E R) :
    Good cx next0 self0 heap0 W (stepCall cx dst gname recv args σ) E R := by
  unfold stepCall
  unfold callFindings at hsafe
  rw [hT]
  cases hf : T.find gname with
  | some s =>
    simp only [hf] at hsafe ⊢
    rw [List.all_append, Bool.and_eq_true] at hsafe
    have g1 := stepWrites_good (writtenArgs args s.writes) (writtenArgs_allowed hsafe.1) g
    have g2 : Good cx next0 self0 heap0 W
        (if s.effSelf = true then stepSelfEffect cx recv (stepWrites cx (writtenArgs args s.writes) σ)
          else stepWrites cx (writtenArgs args s.writes) σ) E R := by
      by_cases he : s.effSelf = true
      · simp only [he, if_true] at hsafe ⊢
        cases recv with
        | none => exact g1
        | self => simp [selfEffectFindings, Finding.allowed, rootAllowed] at hsafe
        | obj x =>
          have hx : (roots E x).all (rootAllowed W) = true := by
            simpa [selfEffectFindings, Finding.allowed] using hsafe.2
          exact stepWrite_good x hx g1
      · rw [if_neg he]; exact g1
    cases dst with
    | none => exact g2
    | some x =>
      have hc : subset (srcsRoots E (s.ret.map (retSrc recv args))) (roots E x) = true := by
        simpa [closed, callRet, hf] using hclosed
      exact stepBind_closed x _ hc g2
  | none =>
    simp only [hf] at hsafe ⊢
    rw [List.all_append, Bool.and_eq_true] at hsafe
    have hargs : ∀ x ∈ args, (roots E x).all (rootAllowed W) = true := by
      intro x hx
      exact List.all_eq_true.1 hsafe.1 (Finding.write site x (roots E x) false) (List.mem_map.2 ⟨x, hx, rfl⟩)
    have g1 := stepWrites_good args hargs g
    have g2 : Good cx next0 self0 heap0 W (stepSelfEffect cx recv (stepWrites cx args σ)) E R := by
      cases recv with
      | none => exact g1
      | self => simp [unknownRecvFindings, Finding.allowed] at hsafe
      | obj x =>
        have hx : (roots E x).all (rootAllowed W) = true := by
          simpa [unknownRecvFindings, Finding.allowed] using hsafe.2
        exact stepWrite_good x hx g1
    cases dst with
    | none => exact g2
    | some x =>
      have hr : srcsRoots E [Src.unknown] = [Root.unknown] := by
        simp [srcsRoots, srcRoots]
      have hc : subset (srcsRoots E [Src.unknown]) (roots E x) = true := by
        rw [hr]
        simpa [closed, callRet, hf] using hclosed
      exact stepBind_closed x _ hc g2

/-! ### halted states -/

theorem stepWrites_halted : ∀ (xs : List Nat) {σ : State}, σ.halted = true → stepWrites cx xs σ = σ
  | [], _, _ => rfl
  | x :: t, σ, h => by
    have h1 : stepWrite cx x σ = σ := by simp [stepWrite, h]
    show stepWrites cx t (stepWrite cx x σ) = σ
    rw [h1]; exact stepWrites_halted t h

theorem stepSelfEffect_halted {recv : Recv} {σ : State} (h : σ.halted = true) : stepSelfEffect cx recv σ = σ := by
  cases recv <;> simp [stepSelfEffect, stepHavocSelf, stepWrite, h]

theorem stepBindOpt_halted {dst : Option Nat} {srcs : List Src} {σ : State} (h : σ.halted = true) :
    stepBindOpt cx dst srcs σ = σ := by
  cases dst <;> simp [stepBindOpt, stepBind, h]

theorem exec_halted : ∀ (s : Stmt) {σ : State}, σ.halted = true → exec cx s σ = σ
  | .skip, _, _ => rfl
  | .bind x srcs, σ, h => by simp [exec, stepBind, h]
  | .writeInPlace x _ _, σ, h => by simp [exec, stepWrite, h]
  | .setSelfField f x _, σ, h => by simp [exec, stepSetSelf, h]
  | .ret srcs, σ, h => by simp [exec, stepRet, h]
  | .call dst g recv args _, σ, h => by
    simp only [exec, stepCall]
    cases cx.table.find g with
    | some s =>
      simp only [stepWrites_halted _ h]
      by_cases he : s.effSelf = true
      · simp only [he, if_true, stepSelfEffect_halted h, stepBindOpt_halted h]
      · rw [if_neg he, stepBindOpt_halted h]
    | none =>
      simp only [stepWrites_halted _ h, stepSelfEffect_halted h, stepBindOpt_halted h]
  | .seq a b, σ, h => by
    simp only [exec]
    rw [exec_halted a h, exec_halted b h]
  | .branch a b, σ, h => by simp [exec, h]
  | .loop b, σ, h => by simp [exec, h]

/-! ### the statement-level soundness theorem -/

theorem iter_good {f : State → State} {I : AbsEnv} {R : List Root}
    (hf : ∀ σ, Good cx next0 self0 heap0 W σ I R → Good cx next0 self0 heap0 W (f σ) I R) :
    ∀ (n : Nat) (σ : State), Good cx next0 self0 heap0 W σ I R → Good cx next0 self0 heap0 W (iter f n σ) I R
  | 0, _, g => g
  | n + 1, σ, g => iter_good hf n (f σ) (hf σ g)

theorem safe_seq {T : Table} {a b : Stmt} {E : AbsEnv} (h : safe T W E (.seq a b) = true) :
    safe T W E a = true ∧ safe T W E b = true := by
  unfold safe at h ⊢
  simp only [closed, findings, List.all_append, Bool.and_eq_true] at h ⊢
  exact ⟨⟨h.1.1, h.2.1⟩, ⟨h.1.2, h.2.2⟩⟩

theorem safe_branch {T : Table} {a b : Stmt} {E : AbsEnv} (h : safe T W E (.branch a b) = true) :
    safe T W E a = true ∧ safe T W E b = true := by
  unfold safe at h ⊢
  simp only [closed, findings, List.all_append, Bool.and_eq_true] at h ⊢
  exact ⟨⟨h.1.1, h.2.1⟩, ⟨h.1.2, h.2.2⟩⟩

theorem safe_loop {T : Table} {b : Stmt} {E : AbsEnv} (h : safe T W E (.loop b) = true) :
    safe T W E b = true := by
  unfold safe at h ⊢
  simpa only [closed, findings] using h

theorem exec_branch_run {a b : Stmt} {σ : State} (hh : ¬ σ.halted = true) :
    exec cx (.branch a b) σ =
      if cx.o.flag σ.tick = true then exec cx a { σ with tick := σ.tick + 1 }
      else exec cx b { σ with tick := σ.tick + 1 } := by
  simp only [exec]
  rw [if_neg hh]

theorem exec_loop_run {b : Stmt} {σ : State} (hh : ¬ σ.halted = true) :
    exec cx (.loop b) σ = iter (exec cx b) (cx.o.num σ.tick) { σ with tick := σ.tick + 1 } := by
  simp only [exec]
  rw [if_neg hh]

/-- **Soundness of the certificate checker, one statement.** -/
theorem exec_sound {T : Table} (hT : cx.table = T) (E : AbsEnv) : ∀ (s : Stmt) (R : List Root) (σ : State),
    safe T W E s = true → Good cx next0 self0 heap0 W σ E R →
    Good cx next0 self0 heap0 W (exec cx s σ) E (R ++ rets E s)
  | .skip, R, σ, _, g => by
    simpa [exec, rets] using g
  | .bind x srcs, R, σ, h, g => by
    have hc : subset (srcsRoots E srcs) (roots E x) = true := by
      simpa [safe, closed, findings] using h
    simpa [exec, rets] using stepBind_closed x srcs hc g
  | .writeInPlace x d st, R, σ, h, g => by
    have ha : (roots E x).all (rootAllowed W) = true := by
      simpa [safe, closed, findings, Finding.allowed] using h
    simpa [exec, rets] using stepWrite_good x ha g
  | .setSelfField f x st, R, σ, h, _ => by
    simp [safe, closed, findings, Finding.allowed] at h
  | .ret srcs, R, σ, _, g => by
    simpa [exec, rets] using stepRet_good srcs g
  | .call dst gname recv args st, R, σ, h, g => by
    unfold safe at h
    rw [Bool.and_eq_true] at h
    have hs : (callFindings T E st gname recv args).all (Finding.allowed W) = true := by
      simpa [findings] using h.2
    simpa [exec, rets] using stepCall_good hT dst gname recv args st h.1 hs g
  | .seq a b, R, σ, h, g => by
    obtain ⟨ha, hb⟩ := safe_seq h
    have g1 := exec_sound hT E a R σ ha g
    have g2 := exec_sound hT E b (R ++ rets E a) (exec cx a σ) hb g1
    simpa [exec, rets, List.append_assoc] using g2
  | .branch a b, R, σ, h, g => by
    obtain ⟨ha, hb⟩ := safe_branch h
    by_cases hh : σ.halted = true
    · have : exec cx (.branch a b) σ = σ := exec_halted _ hh
      rw [this]
      exact g.retMono (fun r hr => List.mem_append_left _ hr)
    · rw [exec_branch_run hh]
      simp only [rets]
      have g' : Good cx next0 self0 heap0 W { σ with tick := σ.tick + 1 } E R :=
        { next_ge := g.next_ge, self_eq := g.self_eq, frame := g.frame, env := g.env, ret := g.ret }
      by_cases hfl : cx.o.flag σ.tick = true
      · rw [if_pos hfl]
        exact (exec_sound hT E a R _ ha g').retMono (fun r hr => by
          rcases List.mem_append.1 hr with h1 | h1
          · exact List.mem_append_left _ h1
          · exact List.mem_append_right _ (List.mem_append_left _ h1))
      · rw [if_neg hfl]
        exact (exec_sound hT E b R _ hb g').retMono (fun r hr => by
          rcases List.mem_append.1 hr with h1 | h1
          · exact List.mem_append_left _ h1
          · exact List.mem_append_right _ (List.mem_append_right _ h1))
  | .loop b, R, σ, h, g => by
    have hb := safe_loop h
    by_cases hh : σ.halted = true
    · have : exec cx (.loop b) σ = σ := exec_halted _ hh
      rw [this]
      exact g.retMono (fun r hr => List.mem_append_left _ hr)
    · rw [exec_loop_run hh]
      simp only [rets]
      have g' : Good cx next0 self0 heap0 W { σ with tick := σ.tick + 1 } E (R ++ rets E b) :=
        Good.retMono (fun r hr => List.mem_append_left _ hr)
          { next_ge := g.next_ge, self_eq := g.self_eq, frame := g.frame, env := g.env, ret := g.ret }
      refine iter_good (fun τ gτ => ?_) _ _ g'
      exact (exec_sound hT E b _ τ hb gτ).retMono (fun r hr => by
        rcases List.mem_append.1 hr with h1 | h1
        · exact h1
        · exact List.mem_append_right _ h1)

end Sound

/-! ### bodies -/

/-- at entry nothing is bound, so any certificate describes the state -/
theorem initState_good (cx : Ctx) (heap : Nat → List UInt8) (next : Nat) (self : List (Nat × Nat)) (W : List Nat)
    (E : AbsEnv) : Good cx next self heap W (initState heap next self) E [] :=
  { next_ge := Nat.le_refl _, self_eq := rfl, frame := fun _ _ => rfl,
    env := Or.inr (fun x c h => by simp [initState, assoc] at h),
    ret := fun c h => by simp [initState] at h }

/-- the two named checkers together are the checker `safe` with an empty write set -/
theorem safe_of_checkers {T : Table} {b : Body} (h1 : b.writesOnlyFresh T = true) (h2 : b.noSelfStore T = true) :
    safe T [] b.cert b.code = true := by
  unfold safe
  unfold Body.writesOnlyFresh Body.certClosed at h1
  unfold Body.noSelfStore at h2
  rw [Bool.and_eq_true] at h1 ⊢
  refine ⟨h1.1, ?_⟩
  have h1' := h1.2
  rw [List.all_eq_true] at h1' h2 ⊢
  intro f hf
  have a1 := h1' f hf
  have a2 := h2 f hf
  cases f <;> simp_all [Finding.allowed]

/-- **Summary conformance.**  A body accepted against the write set `W`, run from any heap with any oracle:
every cell allocated at entry other than the cells of the parameters in `W` keeps its bytes, the field table of
`self` is unchanged, and the returned cell (if any) has one of the roots `rets`. -/
theorem summary_conformance (T : Table) (W : List Nat) (b : Body) (hs : safe T W b.cert b.code = true)
    (o : Oracle) (params : List Nat) (heap : Nat → List UInt8) (next : Nat) (self : List (Nat × Nat)) :
    let cx : Ctx := ⟨o, params, T⟩
    let σ' := b.run cx heap next self
    (∀ c, c < next → (∀ i ∈ W, params[i]? ≠ some c) → σ'.heap c = heap c)
      ∧ σ'.self = self
      ∧ ∀ c, σ'.ret = some c → ∃ r ∈ rets b.cert b.code, Sat cx next self r c := by
  intro cx σ'
  have g := exec_sound (cx := cx) (next0 := next) (self0 := self) (heap0 := heap) (W := W) (T := T) rfl
    b.cert b.code [] (initState heap next self) hs (initState_good cx heap next self W b.cert)
  refine ⟨fun c hc hw => g.frame c ⟨hc, hw⟩, g.self_eq, fun c hc => ?_⟩
  simpa using g.ret c hc

/-- **C10, effect clause.**  If the checker accepts a body (`writesOnlyFresh ∧ noSelfStore`, w.r.t. the summaries
`T` of the callees it uses), then executing it from ANY heap, with the parameters and `self`'s fields bound to ANY
cells and ANY resolution of the nondeterminism, leaves every cell that was allocated at entry unchanged, and
leaves `self`'s field table unchanged. -/
theorem C10_effects_no_mutation (T : Table) (b : Body)
    (h1 : b.writesOnlyFresh T = true) (h2 : b.noSelfStore T = true)
    (o : Oracle) (params : List Nat) (heap : Nat → List UInt8) (next : Nat) (self : List (Nat × Nat)) :
    let σ' := b.run ⟨o, params, T⟩ heap next self
    (∀ c, c < next → σ'.heap c = heap c) ∧ σ'.self = self := by
  intro σ'
  obtain ⟨hf, hself, _⟩ := summary_conformance T [] b (safe_of_checkers h1 h2) o params heap next self
  exact ⟨fun c hc => hf c hc (fun i hi => by simp at hi), hself⟩

/-- every cell reachable from a parameter (in this model: the parameter's cell) keeps its bytes -/
theorem C10_effects_params_unchanged (T : Table) (b : Body)
    (h1 : b.writesOnlyFresh T = true) (h2 : b.noSelfStore T = true)
    (o : Oracle) (params : List Nat) (heap : Nat → List UInt8) (next : Nat) (self : List (Nat × Nat))
    (hp : ∀ c ∈ params, c < next) :
    ∀ c ∈ params, (b.run ⟨o, params, T⟩ heap next self).heap c = heap c :=
  fun c hc => (C10_effects_no_mutation T b h1 h2 o params heap next self).1 c (hp c hc)

/-- every field of `self` is bound to the same cell as before and that cell keeps its bytes -/
theorem C10_effects_self_unchanged (T : Table) (b : Body)
    (h1 : b.writesOnlyFresh T = true) (h2 : b.noSelfStore T = true)
    (o : Oracle) (params : List Nat) (heap : Nat → List UInt8) (next : Nat) (self : List (Nat × Nat))
    (hp : ∀ p ∈ self, p.2 < next) :
    (b.run ⟨o, params, T⟩ heap next self).self = self
      ∧ ∀ p ∈ self, (b.run ⟨o, params, T⟩ heap next self).heap p.2 = heap p.2 :=
  ⟨(C10_effects_no_mutation T b h1 h2 o params heap next self).2,
   fun p hpm => (C10_effects_no_mutation T b h1 h2 o params heap next self).1 p.2 (hp p hpm)⟩

/-- what the generated file proves by `decide` gives the hypotheses of `C10_effects_no_mutation` for every
covered body -/
theorem allBodiesOk_sound (T : Table) (all bs : List Body) (h : allBodiesOk T all bs = true) :
    ∀ b ∈ bs, b.writesOnlyFresh T = true ∧ b.noSelfStore T = true := by
  intro b hb
  unfold allBodiesOk at h
  simp only [Bool.and_eq_true, List.all_eq_true] at h
  exact ⟨(h.2 b hb).1.2, (h.2 b hb).2⟩

/-- the summaries in use were checked: every table entry without an effect on `self` belongs to a body that the
checker accepts against the entry's write set and whose results have the entry's roots — so
`summary_conformance` applies to it -/
theorem tableChecked_sound (T : Table) (bs : List Body) (h : tableChecked T bs = true) :
    ∀ k e, T.find k = some e → e.effSelf = false →
      ∃ b ∈ bs, b.name = k ∧ safe T e.writes b.cert b.code = true
        ∧ ∀ r ∈ rets b.cert b.code, r ∈ e.ret := by
  intro k e he hs
  unfold tableChecked at h
  have h1 := Tree.all_get (p := fun k e => e.effSelf || bs.any fun b => Nat.beq b.name k
      && safe T e.writes b.cert b.code && subset (rets b.cert b.code) e.ret) he h
  simp only [hs, Bool.false_or, List.any_eq_true, Bool.and_eq_true] at h1
  obtain ⟨b, hb, ⟨hn, hsafe⟩, hr⟩ := h1
  exact ⟨b, hb, Nat.eq_of_beq_eq_true hn, hsafe, fun r hrr => subset_sound hr hrr⟩

/-- a body with verdict `ok` satisfies the two named checkers -/
theorem verdict_ok {T : Table} {b : Body} (h : verdict T b = .ok) :
    b.writesOnlyFresh T = true ∧ b.noSelfStore T = true := by
  unfold verdict at h
  by_cases hv : (findings T b.cert b.code).any Finding.isViolation = true
  · simp [hv] at h
  · by_cases hk : (b.certClosed T && (findings T b.cert b.code).all (Finding.allowed [])) = true
    · rw [Bool.and_eq_true] at hk
      obtain ⟨hc, ha⟩ := hk
      rw [List.all_eq_true] at ha
      unfold Body.writesOnlyFresh Body.noSelfStore
      rw [Bool.and_eq_true, List.all_eq_true, List.all_eq_true]
      refine ⟨⟨hc, fun f hf => ?_⟩, fun f hf => ?_⟩
      · have := ha f hf
        cases f <;> simp_all [Finding.allowed]
      · have := ha f hf
        cases f <;> simp_all [Finding.allowed]
    · simp [hv, hk] at h

/-- **What the generated theorem `analysis table bodies = ⟨true, [], ids⟩` gives**: the summaries in use were
checked against their bodies, `ids` are exactly the names of the entry bodies with verdict `ok`, each of them satisfies
the hypotheses of `C10_effects_no_mutation`, and no entry body has a definite violation.  (With a non-empty second
component the same theorem names the entry bodies that do have one.) -/
theorem analysis_sound (T : Table) (bs : List Body) (ids : List Nat) (h : analysis T bs = ⟨true, [], ids⟩) :
    tableChecked T bs = true
      ∧ ids = (coveredBodies T bs).map Body.name
      ∧ (∀ b ∈ coveredBodies T bs, b.writesOnlyFresh T = true ∧ b.noSelfStore T = true)
      ∧ ∀ b ∈ bs, b.entry = true → verdict T b ≠ .violation := by
  unfold analysis at h
  have h1 : tableChecked T bs = true := congrArg Outcome.tableOk h
  have h2 : (violatingBodies T bs).map Body.name = [] := congrArg Outcome.violators h
  have h3 : (coveredBodies T bs).map Body.name = ids := congrArg Outcome.covered h
  refine ⟨h1, h3.symm, fun b hb => ?_, fun b hb he hv => ?_⟩
  · unfold coveredBodies at hb
    have := (List.mem_filter.1 hb).2
    rw [Bool.and_eq_true] at this
    exact verdict_ok (by simpa using this.2)
  · have hm : b ∈ violatingBodies T bs := by
      unfold violatingBodies
      exact List.mem_filter.2 ⟨hb, by simp [he, hv]⟩
    have : b.name ∈ (violatingBodies T bs).map Body.name := List.mem_map.2 ⟨b, hm, rfl⟩
    rw [h2] at this
    exact absurd this (by simp)

/-! ### examples: satisfiable hypotheses, rejected bodies that do mutate -/

namespace Examples

/-- `def f(t): a = np.zeros(..); for ..: a[j] = ..; v = a[1:]; v += 1; return a`  (names: 0 = t, 1 = a, 2 = v) -/
def okBody : Body :=
  ⟨1, true, .seq (.bind 0 [.param 0]) (.seq (.bind 1 [.fresh])
    (.seq (.loop (.writeInPlace 1 true 0)) (.seq (.bind 2 [.viewOf 1]) (.seq (.writeInPlace 2 true 1) (.ret [.aliasOf 1]))))),
   .ofList [(0, [.param 0]), (1, [.fresh]), (2, [.fresh])]⟩

/-- the same body with a certificate that hides the view: rejected (not closed), not trusted -/
def okBodyBadCert : Body := { okBody with cert := .ofList [(0, [.param 0]), (1, [.fresh]), (2, [])] }

/-- `def g(fnr): fnr1 = np.asarray(fnr); fnr1 /= h; return fnr1`  — the shape of seeded C02_8 -/
def aliasWrite : Body :=
  ⟨2, true, .seq (.bind 0 [.param 0]) (.seq (.bind 1 [.aliasOf 0]) (.seq (.writeInPlace 1 true 2) (.ret [.aliasOf 1]))),
   .ofList [(0, [.param 0]), (1, [.param 0])]⟩

/-- `def cm(self, t): ...; self._last = m; return m` — the shape of the seeded caches -/
def selfCache : Body :=
  ⟨3, true, .seq (.bind 0 [.param 0]) (.seq (.bind 1 [.fresh]) (.seq (.setSelfField 7 1 3) (.ret [.aliasOf 1]))),
   .ofList [(0, [.param 0]), (1, [.fresh])]⟩

/-- a helper that sorts its argument in place, and an entry that hands it its own parameter -/
def sortHelper : Body := ⟨4, false, .seq (.bind 0 [.param 0]) (.writeInPlace 0 true 4), .ofList [(0, [.param 0])]⟩
def callsHelperOnParam : Body :=
  ⟨5, true, .seq (.bind 0 [.param 0]) (.call none 4 .none [0] 5), .ofList [(0, [.param 0])]⟩
/-- ... and one that hands it a copy -/
def callsHelperOnCopy : Body :=
  ⟨6, true, .seq (.bind 0 [.param 0]) (.seq (.bind 1 [.fresh]) (.seq (.call none 4 .none [1] 6) (.ret [.aliasOf 1]))),
   .ofList [(0, [.param 0]), (1, [.fresh])]⟩

def all : List Body := [okBody, aliasWrite, selfCache, sortHelper, callsHelperOnParam, callsHelperOnCopy]

/-- summaries: the helper writes its parameter 0; okBody / callsHelperOnCopy write nothing and return a fresh array -/
def table : Table := .ofList [(4, ⟨[0], false, []⟩), (1, ⟨[], false, [.fresh]⟩), (6, ⟨[], false, [.fresh]⟩)]

/-- the hypotheses of `C10_effects_no_mutation` are satisfiable by a body with loops, views and in-place writes -/
example : okBody.writesOnlyFresh .leaf = true ∧ okBody.noSelfStore .leaf = true := by decide +kernel

example : allBodiesOk table all (coveredBodies table all) = true := by decide +kernel
example : (coveredBodies table all).map Body.name = [1, 6] := by decide +kernel
example : noDefiniteViolation table all = false := by decide +kernel
example : analysis table all = ⟨true, [2, 3, 5], [1, 6]⟩ := by decide +kernel
example : analysis table [okBody, sortHelper, callsHelperOnCopy] = ⟨true, [], [1, 6]⟩ := by decide +kernel
example : noDefiniteViolation table [okBody, sortHelper, callsHelperOnCopy] = true := by decide +kernel

/-- a certificate that is not closed is rejected -/
example : okBodyBadCert.writesOnlyFresh .leaf = false := by decide +kernel
/-- a summary that claims too little is rejected by the table check -/
example : tableChecked (.ofList [(4, ⟨[], false, []⟩)]) all = false := by decide +kernel

/-- the write through an alias of a parameter is rejected ... -/
example : aliasWrite.writesOnlyFresh .leaf = false := by decide +kernel
example : verdict table aliasWrite = .violation := by decide +kernel
example : verdict table callsHelperOnParam = .violation := by decide +kernel
example : verdict table callsHelperOnCopy = .ok := by decide +kernel
example : selfCache.noSelfStore .leaf = false := by decide +kernel

def o1 : Oracle := ⟨fun _ => true, fun _ => 0, fun _ => [1, 2, 3]⟩
def heap1 : Nat → List UInt8 := fun _ => [9]

/-- ... and does change the caller's array: parameter cell 5 held `[9]`, after the run it holds `[1,2,3]` -/
example : (aliasWrite.run ⟨o1, [5], .leaf⟩ heap1 10 []).heap 5 = [1, 2, 3] ∧ heap1 5 = [9] := by decide +kernel

/-- the accepted body leaves it alone (an instance of the theorem, evaluated) -/
example : (okBody.run ⟨o1, [5], .leaf⟩ heap1 10 []).heap 5 = [9] := by decide +kernel

/-- the cache store changes the object's field table -/
example : (selfCache.run ⟨o1, [5], .leaf⟩ heap1 10 [(1, 3)]).self = [(7, 10), (1, 3)] := by decide +kernel

/-- the helper's summary says "writes parameter 0"; the entry that passes its own parameter changes cell 5 -/
example : (callsHelperOnParam.run ⟨o1, [5], table⟩ heap1 10 []).heap 5 = [1, 2, 3] := by
  decide +kernel

end Examples

end SA.Effects
