/-
C11 — bootstrap samples are well-formed resamples of their source.

Every theorem is about `runSample s c script`, the model of `Scores.bootstrap_sample(config)`
(SA/Model/Sampling.lean) run on a script of RNG answers (SA/Model/Rng.lean), and holds for EVERY
script on which the run is `ok`: each request found an answer and the answer lies in the support
of the requested distribution (`Req.inRange`).  Helper lemmas are in SA/Proofs/Sampling.lean.
-/
import SA.Proofs.Sampling
import SA.Spec.C11
import SA.Theorems.C01

namespace SA

/-- The run on `script` returned the sample `out` and was `ok`. -/
def Run (s : Scores) (c : BootCfg) (script : List (List Nat)) (out : Scores) : Prop :=
  (runSample s c script).1 = .ok out ∧ (runSample s c script).2.ok = true

/-- the source object satisfies the constructor invariant -/
def Inv (s : Scores) : Prop := s.pos.Pairwise (· ≤ ·) ∧ s.neg.Pairwise (· ≤ ·)

/-- **C11 (flags).** The sample keeps `score_class` and `equal_class`. -/
theorem C11_flags (s : Scores) (c : BootCfg) (script : List (List Nat)) (out : Scores)
    (h : Run s c script out) : out.cfg = s.cfg := by
  rcases (bootstrapSample_cases s c (RngState.init script) out h.1 h.2) with ⟨_, r, _, rfl⟩ | ⟨_, _, r, _, rfl⟩ | ⟨_, ratio, ip, ineg, _, _, _, _, _, _, _, rfl⟩ <;>
    exact make_cfg _ _ _ _ _ _

/-- **C11 (subset).** Smoothing off: every sampled score is a score of the source's same class
(all methods). -/
theorem C11_subset (s : Scores) (c : BootCfg) (script : List (List Nat)) (out : Scores)
    (_hsm : c.smoothing = false) (h : Run s c script out) :
    (∀ v ∈ out.pos, v ∈ s.pos) ∧ (∀ v ∈ out.neg, v ∈ s.neg) := by
  rcases (bootstrapSample_cases s c (RngState.init script) out h.1 h.2) with ⟨_, r, f, rfl⟩ | ⟨_, _, r, f, rfl⟩ |
      ⟨_, ratio, ip, ineg, _, _, g1, _, _, g2, _, rfl⟩
  · exact ⟨fun v hv => gather_mem _ _ f.posRange v ((make_perm _ _ _ _ _ _).1.mem_iff.mp hv),
      fun v hv => gather_mem _ _ f.negRange v ((make_perm _ _ _ _ _ _).2.mem_iff.mp hv)⟩
  · exact ⟨fun v hv => gather_mem _ _ f.posRange v ((make_perm _ _ _ _ _ _).1.mem_iff.mp hv),
      fun v hv => gather_mem _ _ f.negRange v ((make_perm _ _ _ _ _ _).2.mem_iff.mp hv)⟩
  · exact ⟨fun v hv => gather_mem _ _ g1 v ((make_perm _ _ _ _ _ _).1.mem_iff.mp hv),
      fun v hv => gather_mem _ _ g2 v ((make_perm _ _ _ _ _ _).2.mem_iff.mp hv)⟩

/-- **C11 (invariant).** The sample's arrays are sorted: on the replacement and proportion paths
because the constructor sorts; on the single-pass path, which passes `is_sorted=True`, because
gathering the (sorted) source by the non-decreasing index list `repeat(arange(k), counts)` is
sorted. -/
theorem C11_inv (s : Scores) (c : BootCfg) (script : List (List Nat)) (out : Scores)
    (hs : Inv s) (h : Run s c script out) : Inv out := by
  rcases (bootstrapSample_cases s c (RngState.init script) out h.1 h.2) with ⟨_, r, f, rfl⟩ | ⟨_, _, r, f, rfl⟩ |
      ⟨_, ratio, ip, ineg, _, _, _, _, _, _, _, rfl⟩
  · exact make_sorted _ _ _ _ _ _ (fun hh => absurd hh (by simp))
  · exact make_sorted _ _ _ _ _ _ (fun _ =>
      ⟨gather_sorted _ _ hs.1 (f.sortedIdx rfl).1 f.posRange,
       gather_sorted _ _ hs.2 (f.sortedIdx rfl).2 f.negRange⟩)
  · exact make_sorted _ _ _ _ _ _ (fun hh => absurd hh (by simp))

/-- **C11 (metrics = counting).** Hence every confusion matrix of the sample is the count by the
documented decision rule over the sample's own scores (C01). -/
theorem C11_metrics (s : Scores) (c : BootCfg) (script : List (List Nat)) (out : Scores)
    (hs : Inv s) (h : Run s c script out) (t : ERat) :
    out.cm t = countCM out.pos out.neg out.easyPos out.easyNeg out.cfg t :=
  cm_eq_countCM_of_sorted out (C11_inv s c script out hs h).1 (C11_inv s c script out hs h).2 t

theorem make_nbAll (p n : List Rat) (ep en : Nat) (cfg : Cfg) (b : Bool) :
    (Scores.make p n ep en cfg b).nbAll = ep + en + (p.length + n.length) := by
  have hp := (make_perm p n ep en cfg b).1.length_eq
  have hn := (make_perm p n ep en cfg b).2.length_eq
  have he := make_easy p n ep en cfg b
  simp only [Scores.nbAll, Scores.nbEasy, Scores.nbHard, hp, hn, he.1, he.2]

/-- **C11 (total).** Replacement sampling (explicit, or chosen by "dynamic") preserves the total
number of samples, scored + easy. -/
theorem C11_total (s : Scores) (c : BootCfg) (script : List (List Nat)) (out : Scores)
    (hm : samplingMethod s c = .replacement) (h : Run s c script out) : out.nbAll = s.nbAll := by
  rcases (bootstrapSample_cases s c (RngState.init script) out h.1 h.2) with ⟨_, r, f, rfl⟩ | ⟨hm', _⟩ | ⟨hm', _⟩
  · rw [make_nbAll, gather_length, gather_length]
    have := f.total rfl
    omega
  · rw [hm] at hm'; exact absurd hm' (by simp)
  · rw [hm] at hm'; exact absurd hm' (by simp)

/-- **C11 (strata).** Stratified by label: replacement sampling preserves each of the four strata
exactly; single-pass sampling preserves the two easy strata exactly. -/
theorem C11_strata (s : Scores) (c : BootCfg) (script : List (List Nat)) (out : Scores)
    (hb : c.byLabel = true) (h : Run s c script out) :
    (samplingMethod s c = .replacement →
      out.pos.length = s.pos.length ∧ out.neg.length = s.neg.length ∧
      out.easyPos = s.easyPos ∧ out.easyNeg = s.easyNeg) ∧
    (samplingMethod s c = .singlePass → out.easyPos = s.easyPos ∧ out.easyNeg = s.easyNeg) := by
  rcases (bootstrapSample_cases s c (RngState.init script) out h.1 h.2) with ⟨hm, r, f, rfl⟩ | ⟨hm, _, r, f, rfl⟩ | ⟨hm, _⟩
  · refine ⟨fun _ => ?_, fun h' => by rw [hm] at h'; exact absurd h' (by simp)⟩
    have hp := (make_perm (gather s.pos r.idxPos) (gather s.neg r.idxNeg) r.easyPos r.easyNeg s.cfg false)
    have he := make_easy (gather s.pos r.idxPos) (gather s.neg r.idxNeg) r.easyPos r.easyNeg s.cfg false
    rw [hp.1.length_eq, hp.2.length_eq, gather_length, gather_length, he.1, he.2]
    exact ⟨(f.hard hb rfl).1, (f.hard hb rfl).2, (f.easy hb).1, (f.easy hb).2⟩
  · refine ⟨fun h' => by rw [hm] at h'; exact absurd h' (by simp), fun _ => ?_⟩
    have he := make_easy (gather s.pos r.idxPos) (gather s.neg r.idxNeg) r.easyPos r.easyNeg s.cfg true
    rw [he.1, he.2]
    exact f.easy hb
  · exact ⟨fun h' => by rw [hm] at h'; exact absurd h' (by simp),
      fun h' => by rw [hm] at h'; exact absurd h' (by simp)⟩

theorem ne_nil_of_perm_gather {a : List Rat} {idx : List Nat} {l : List Rat}
    (hp : l.Perm (gather a idx)) (h : idx ≠ []) : l ≠ [] := by
  intro hl
  have := hp.length_eq
  rw [hl, gather_length] at this
  exact h (List.length_eq_zero_iff.mp this.symm)

/-- **C11 (at least one).** Whenever the source has a scored positive (negative), so has the
sample — for replacement sampling through the class-size and hard-sample corrections (no side
condition is needed: a source with both classes present has `nb_all_samples ≥ 2`), for single-pass
sampling through the forced index, for proportion sampling because `max(·, 1)` is drawn. -/
theorem C11_at_least_one (s : Scores) (c : BootCfg) (script : List (List Nat)) (out : Scores)
    (h : Run s c script out) :
    (s.pos ≠ [] → out.pos ≠ []) ∧ (s.neg ≠ [] → out.neg ≠ []) := by
  have pos_len : ∀ {l : List Rat}, l ≠ [] → l.length > 0 := fun hl =>
    List.length_pos_iff.mpr hl
  rcases (bootstrapSample_cases s c (RngState.init script) out h.1 h.2) with ⟨_, r, f, rfl⟩ | ⟨_, _, r, f, rfl⟩ |
      ⟨_, ratio, ip, ineg, _, l1, _, _, l2, _, _, rfl⟩
  · exact ⟨fun hp => ne_nil_of_perm_gather (make_perm _ _ _ _ _ _).1 (f.posOne (pos_len hp)),
      fun hn => ne_nil_of_perm_gather (make_perm _ _ _ _ _ _).2 (f.negOne (pos_len hn))⟩
  · exact ⟨fun hp => ne_nil_of_perm_gather (make_perm _ _ _ _ _ _).1 (f.posOne (pos_len hp)),
      fun hn => ne_nil_of_perm_gather (make_perm _ _ _ _ _ _).2 (f.negOne (pos_len hn))⟩
  · have hsz : ∀ n, proportionSize c ratio n ≥ 1 := fun n => by
      unfold proportionSize; exact Nat.le_max_right _ _
    refine ⟨fun _ => ne_nil_of_perm_gather (make_perm _ _ _ _ _ _).1 ?_,
      fun _ => ne_nil_of_perm_gather (make_perm _ _ _ _ _ _).2 ?_⟩
    · intro hh; rw [hh] at l1; have := hsz s.pos.length; simp at l1; omega
    · intro hh; rw [hh] at l2; have := hsz s.neg.length; simp at l2; omega

/-- **C11 (proportion).** Proportion sampling draws `max(⌊ratio·n⌋, 1)` scored samples of each
class (`ratio·n` the float product) without replacement — no score more often than the source
holds it — and keeps `⌊ratio·easy⌋` easy samples. -/
theorem C11_proportion (s : Scores) (c : BootCfg) (script : List (List Nat)) (out : Scores)
    (ratio : Rat) (hm : c.method = .proportion) (hr : c.ratio = some ratio)
    (h : Run s c script out) :
    out.pos.length = max (truncNat (c.fmul ratio s.pos.length)) 1 ∧
    out.neg.length = max (truncNat (c.fmul ratio s.neg.length)) 1 ∧
    out.easyPos = truncNat (c.fmul ratio s.easyPos) ∧
    out.easyNeg = truncNat (c.fmul ratio s.easyNeg) ∧
    (∀ v, out.pos.count v ≤ s.pos.count v) ∧ (∀ v, out.neg.count v ≤ s.neg.count v) := by
  have hsm : samplingMethod s c = .proportion := by simp [samplingMethod, hm]
  rcases (bootstrapSample_cases s c (RngState.init script) out h.1 h.2) with ⟨hm', _⟩ | ⟨hm', _⟩ | ⟨_, ratio', ip, ineg, hr', l1, g1, n1, l2, g2, n2, rfl⟩
  · rw [hsm] at hm'; exact absurd hm' (by simp)
  · rw [hsm] at hm'; exact absurd hm' (by simp)
  · have : ratio' = ratio := by rw [hr] at hr'; injection hr' with h'; exact h'.symm
    subst this
    have hp := make_perm (gather s.pos ip) (gather s.neg ineg) (truncNat (c.fmul ratio' s.easyPos))
      (truncNat (c.fmul ratio' s.easyNeg)) s.cfg false
    have he := make_easy (gather s.pos ip) (gather s.neg ineg) (truncNat (c.fmul ratio' s.easyPos))
      (truncNat (c.fmul ratio' s.easyNeg)) s.cfg false
    refine ⟨?_, ?_, he.1, he.2, fun v => ?_, fun v => ?_⟩
    · rw [hp.1.length_eq, gather_length, l1]; rfl
    · rw [hp.2.length_eq, gather_length, l2]; rfl
    · rw [hp.1.count_eq]; exact gather_count_le _ _ n1 g1 v
    · rw [hp.2.count_eq]; exact gather_count_le _ _ n2 g2 v

/-- The sizes are feasible for a faithful, monotone float product with `0 < ratio < 1`:
`1 ≤ size ≤ n` whenever the class is non-empty, so the draw without replacement exists. -/
theorem C11_proportion_feasible (c : BootCfg) (ratio : Rat) (n : Nat) (hn : n ≥ 1)
    (hle : c.fmul ratio n ≤ n) :
    1 ≤ proportionSize c ratio n ∧ proportionSize c ratio n ≤ n := by
  unfold proportionSize truncNat
  refine ⟨Nat.le_max_right _ _, ?_⟩
  apply Nat.max_le.mpr
  refine ⟨?_, hn⟩
  have h1 : (c.fmul ratio n).floor ≤ (n : Int) := by
    have := Rat.floor_le (c.fmul ratio n)
    have h2 : (((c.fmul ratio n).floor : Int) : Rat) ≤ ((n : Int) : Rat) := by
      exact le_trans this (by exact_mod_cast hle)
    exact_mod_cast h2
  omega

/-- **C11 (dynamic).** "dynamic" resolves to single-pass sampling exactly when both classes hold
at least 100 scored samples and smoothing is off, and to replacement sampling otherwise; every
other method is taken as given. -/
theorem C11_dynamic (s : Scores) (c : BootCfg) :
    (c.method = .dynamic →
      (samplingMethod s c = .singlePass ↔
        100 ≤ s.pos.length ∧ 100 ≤ s.neg.length ∧ c.smoothing = false) ∧
      (samplingMethod s c = .replacement ↔
        s.pos.length < 100 ∨ s.neg.length < 100 ∨ c.smoothing = true)) ∧
    (c.method ≠ .dynamic → samplingMethod s c = c.method) := by
  refine ⟨fun hd => ?_, fun hd => by simp [samplingMethod, hd]⟩
  by_cases hc : s.pos.length < 100 ∨ s.neg.length < 100 ∨ c.smoothing = true
  · have e : samplingMethod s c = .replacement := by
      simp only [samplingMethod, hd, ne_eq, not_true_eq_false, if_false, singlePassSampleThreshold,
        hc, if_true]
    rw [e]
    refine ⟨⟨fun h => absurd h (by simp), fun ⟨h1, h2, h3⟩ => ?_⟩, ⟨fun _ => hc, fun _ => rfl⟩⟩
    exfalso
    rcases hc with hc | hc | hc
    · omega
    · omega
    · rw [h3] at hc; exact absurd hc (by simp)
  · have e : samplingMethod s c = .singlePass := by
      simp only [samplingMethod, hd, ne_eq, not_true_eq_false, if_false, singlePassSampleThreshold,
        hc]
    rw [e]
    refine ⟨⟨fun _ => ?_, fun _ => rfl⟩, ⟨fun h => absurd h (by simp), fun h => absurd h hc⟩⟩
    simp only [not_or, not_lt] at hc
    exact ⟨hc.1, hc.2.1, by simpa using hc.2.2⟩


/-- **C11 (reachable).** For replacement and single-pass sampling (stratified or not) there is a
script with all answers in the supports under which the sample is the source itself: every source
score of both classes is selected (exactly once) and the easy counts are the source's. -/
theorem C11_reachable (s : Scores) (c : BootCfg) (hsm : c.smoothing = false)
    (hm : samplingMethod s c = .replacement ∨ samplingMethod s c = .singlePass) :
    ∃ script out, Run s c script out ∧ out.pos.Perm s.pos ∧ out.neg.Perm s.neg ∧
      out.easyPos = s.easyPos ∧ out.easyNeg = s.easyNeg := by
  rcases hm with hm | hm
  · obtain ⟨e1, e2⟩ := sampleIndices_identity s c.byLabel false
      (RngState.init (identityScript s c.byLabel false)) rfl rfl
    refine ⟨identityScript s c.byLabel false,
      Scores.make s.pos s.neg s.easyPos s.easyNeg s.cfg false, ⟨?_, ?_⟩,
      (make_perm _ _ _ _ _ _).1, (make_perm _ _ _ _ _ _).2, (make_easy _ _ _ _ _ _).1,
      (make_easy _ _ _ _ _ _).2⟩
    · simp only [runSample, bootstrapSample, hm, e1, gather_range]
    · simp only [runSample, bootstrapSample, hm, hsm, Bool.false_eq_true, if_false, e2]
  · obtain ⟨e1, e2⟩ := sampleIndices_identity s c.byLabel true
      (RngState.init (identityScript s c.byLabel true)) rfl rfl
    refine ⟨identityScript s c.byLabel true,
      Scores.make s.pos s.neg s.easyPos s.easyNeg s.cfg true, ⟨?_, ?_⟩,
      (make_perm _ _ _ _ _ _).1, (make_perm _ _ _ _ _ _).2, (make_easy _ _ _ _ _ _).1,
      (make_easy _ _ _ _ _ _).2⟩
    · simp only [runSample, bootstrapSample, hm, hsm, Bool.false_eq_true, if_false, e1,
        gather_range]
    · simp only [runSample, bootstrapSample, hm, hsm, Bool.false_eq_true, if_false, e2]

/-- every single source score is reachable -/
theorem C11_reachable_each (s : Scores) (c : BootCfg) (hsm : c.smoothing = false)
    (hm : samplingMethod s c = .replacement ∨ samplingMethod s c = .singlePass) :
    (∀ v ∈ s.pos, ∃ script out, Run s c script out ∧ v ∈ out.pos) ∧
    (∀ v ∈ s.neg, ∃ script out, Run s c script out ∧ v ∈ out.neg) := by
  obtain ⟨script, out, hr, hp, hn, _, _⟩ := C11_reachable s c hsm hm
  exact ⟨fun v hv => ⟨script, out, hr, hp.mem_iff.mpr hv⟩,
    fun v hv => ⟨script, out, hr, hn.mem_iff.mpr hv⟩⟩

/-- **C11 (mean).** On every `ok` run the requests the model issues satisfy the unbiasedness
relations of `Spec.C11.unbiasedOK` exactly (tolerance 0): the class split is `Bin(N, nb_all_pos/N)`
with `N = nb_all_samples`; the easy splits are `Bin(class size, easy ratio of the class)` with the
class sizes adding up to `N`; the multiplicities of a class with `k` scored samples of which `n`
are drawn are `k` draws of `Bin(n, p)` with `p·k = 1` or of `Poisson(lam)` with `lam·k = n`;
replacement draws `n` uniform indices from `range(k)`; a forced index is drawn uniformly from the
class exactly when all its multiplicities are zero. -/
theorem C11_mean (s : Scores) (c : BootCfg) (script : List (List Nat))
    (hm : samplingMethod s c = .replacement ∨ samplingMethod s c = .singlePass)
    (hok : (runSample s c script).2.ok = true) :
    Spec.C11.unbiasedOK 0 s c.byLabel (samplingMethod s c == .singlePass)
      (runSample s c script).2.paired = true := by
  unfold runSample RngState.paired at *
  unfold bootstrapSample at *
  have b1 : (SamplingMethod.replacement == SamplingMethod.singlePass) = false := by decide
  have b2 : (SamplingMethod.singlePass == SamplingMethod.singlePass) = true := by decide
  rcases hm with hm | hm
  · simp only [hm, b1] at hok ⊢
    by_cases hs : c.smoothing = true
    · simp only [hs, if_true, draw_trace, List.reverse_cons, List.append_assoc, List.cons_append,
        List.nil_append] at hok ⊢
      have h1 := (draw_ok (draw_ok hok).1).1
      exact sampleIndices_unbiased s c.byLabel false _ rfl h1 _ rfl
    · simp only [hs] at hok ⊢
      have := sampleIndices_unbiased s c.byLabel false _ rfl hok [] rfl
      simpa using this
  · simp only [hm, b2] at hok ⊢
    by_cases hs : c.smoothing = true
    · simp only [hs, if_true] at hok ⊢
      have := sampleIndices_unbiased s c.byLabel true _ rfl hok [] rfl
      simpa using this
    · simp only [hs] at hok ⊢
      have := sampleIndices_unbiased s c.byLabel true _ rfl hok [] rfl
      simpa using this

/-- The means behind `C11_mean`, as rational identities on the source's parameters: the expected
number of positives `N·p` is the source's, the expected number of easy positives (negatives) in a
class of the source's size is the source's, and `k` multiplicities with mean `n·(1/k)` each add up
to `n` in expectation — every score is selected `n/k` times on average, once when `n = k`
(stratified sampling). -/
theorem C11_mean_identities (s : Scores) :
    (s.nbAll : Rat) * s.posNegRatio = s.nbAllPos ∧
    (s.nbAllPos : Rat) * s.easyPosRatio = s.easyPos ∧
    (s.nbAllNeg : Rat) * s.easyNegRatio = s.easyNeg ∧
    ∀ k n : Nat, k > 0 →
      (n : Rat) * (1 / ((max k 1 : Nat) : Rat)) = (n : Rat) / (k : Rat) ∧
      (k : Rat) * ((n : Rat) * (1 / ((max k 1 : Nat) : Rat))) = n ∧
      (k : Rat) * (1 / ((max k 1 : Nat) : Rat)) = 1 := by
  have easy : ∀ k e : Nat, ((e + k : Nat) : Rat) *
      (1 - (if e > 0 then (k : Rat) / ((k + e : Nat) : Rat) else 1)) = e := by
    intro k e
    by_cases he : e > 0
    · simp only [he, if_true]
      have h2 : ((k + e : Nat) : Rat) ≠ 0 := by exact_mod_cast (by omega : k + e ≠ 0)
      push_cast at h2 ⊢
      field_simp
      ring
    · have : e = 0 := by omega
      subst this; simp
  refine ⟨?_, easy s.pos.length s.easyPos, easy s.neg.length s.easyNeg, ?_⟩
  · unfold Scores.posNegRatio
    by_cases hN : s.nbAll > 0
    · simp only [hN, if_true]
      have h0 : ((s.nbAll : Nat) : Rat) ≠ 0 := by exact_mod_cast (by omega : s.nbAll ≠ 0)
      field_simp
    · have h0 : s.nbAll = 0 := by omega
      have hp : s.nbAllPos = 0 := by have := nbAll_split s; omega
      simp [h0, hp]
  · intro k n hk
    have hk' : max k 1 = k := by omega
    have h0 : (k : Rat) ≠ 0 := by exact_mod_cast (by omega : k ≠ 0)
    rw [hk']
    refine ⟨by ring, by field_simp, by field_simp⟩


/-- **C11 (dynamic, requests).** On every `ok` run with `sampling_method="dynamic"` the kind of
requests issued shows the resolution `Spec.C11.dynamicOK` expects. -/
theorem C11_dynamic_requests (s : Scores) (c : BootCfg) (script : List (List Nat))
    (hd : c.method = .dynamic) (hok : (runSample s c script).2.ok = true) :
    Spec.C11.dynamicOK s c.smoothing (runSample s c script).2.requests = true := by
  obtain ⟨hsp, hrp⟩ := (C11_dynamic s c).1 hd
  unfold runSample RngState.requests RngState.paired at *
  unfold bootstrapSample at *
  simp only [List.map_reverse, Spec.C11.dynamicOK, List.any_reverse, List.any_map]
  by_cases hc : s.pos.length < 100 ∨ s.neg.length < 100 ∨ c.smoothing = true
  · have hm := hrp.mpr hc
    have hc' : (decide (s.pos.length < 100) || decide (s.neg.length < 100) || c.smoothing) = true := by
      simpa [or_assoc] using hc
    simp only [hm, hc', if_true] at hok ⊢
    by_cases hs : c.smoothing = true
    · simp only [hs, if_true, draw_trace] at hok ⊢
      have h1 := (draw_ok (draw_ok hok).1).1
      obtain ⟨k1, k2⟩ := sampleIndices_kinds s c.byLabel false _ rfl h1
      simp only [Function.comp_def, List.any_cons, isSizedChoice_normal, isSizedCounts_normal, k1, k2,
        Bool.false_or, Bool.not_false, Bool.and_self]
    · simp only [hs] at hok ⊢
      obtain ⟨k1, k2⟩ := sampleIndices_kinds s c.byLabel false _ rfl hok
      simp only [Function.comp_def, Bool.false_eq_true, if_false, k1, k2, Bool.not_false,
        Bool.and_self]
  · have hm := hsp.mpr (by
      simp only [not_or, not_lt] at hc
      exact ⟨hc.1, hc.2.1, by simpa using hc.2.2⟩)
    have hc' : (decide (s.pos.length < 100) || decide (s.neg.length < 100) || c.smoothing) = false := by
      simp only [not_or, not_lt] at hc
      have h3 : c.smoothing = false := by simpa using hc.2.2
      simp [h3]; omega
    have hs : c.smoothing = false := by
      simp only [not_or] at hc; simpa using hc.2.2
    rw [hs] at hc'
    simp only [hm, hc', hs, Bool.false_eq_true, if_false] at hok ⊢
    obtain ⟨k1, k2⟩ := sampleIndices_kinds s c.byLabel true _ rfl hok
    simp only [Function.comp_def, k1, k2, Bool.not_true, Bool.not_false, Bool.and_self]


/-! ### The executable spec clauses hold of the model

What the driver evaluates on the implementation's observed samples is proved of the model's
samples, for every `ok` run. -/

theorem C11_spec (s : Scores) (c : BootCfg) (script : List (List Nat)) (out : Scores)
    (hs : Inv s) (h : Run s c script out) :
    Spec.C11.flagsOK s out = true ∧ Spec.C11.sortedOK out = true ∧
    Spec.C11.atLeastOneOK s out = true ∧
    (c.smoothing = false → Spec.C11.subsetOK s out = true) ∧
    (samplingMethod s c = .replacement → Spec.C11.totalOK s out = true) ∧
    (c.byLabel = true → samplingMethod s c = .replacement →
      Spec.C11.strataOK s false out = true) ∧
    (c.byLabel = true → samplingMethod s c = .singlePass →
      Spec.C11.strataOK s true out = true) ∧
    (∀ ratio, c.method = .proportion → c.ratio = some ratio →
      Spec.C11.proportionOK c ratio s out = true) := by
  refine ⟨?_, ?_, ?_, ?_, ?_, ?_, ?_, ?_⟩
  · simp only [Spec.C11.flagsOK, beq_iff_eq]
    exact C11_flags s c script out h
  · have := C11_inv s c script out hs h
    simp only [Spec.C11.sortedOK, Bool.and_eq_true, decide_eq_true_eq]
    exact this
  · have := C11_at_least_one s c script out h
    simp only [Spec.C11.atLeastOneOK, Bool.and_eq_true, Bool.or_eq_true, List.isEmpty_iff,
      Bool.not_eq_true', List.isEmpty_eq_false_iff]
    exact ⟨by by_cases hp : s.pos = [] <;> [exact Or.inl hp; exact Or.inr (this.1 hp)],
      by by_cases hn : s.neg = [] <;> [exact Or.inl hn; exact Or.inr (this.2 hn)]⟩
  · intro hsm
    have := C11_subset s c script out hsm h
    simp only [Spec.C11.subsetOK, Bool.and_eq_true, List.all_eq_true, List.contains_iff_mem]
    exact this
  · intro hm
    simp only [Spec.C11.totalOK, beq_iff_eq]
    exact C11_total s c script out hm h
  · intro hb hm
    have := (C11_strata s c script out hb h).1 hm
    simp only [Spec.C11.strataOK, Bool.and_eq_true, beq_iff_eq, Bool.false_or]
    exact ⟨⟨this.2.2.1, this.2.2.2⟩, this.1, this.2.1⟩
  · intro hb hm
    have := (C11_strata s c script out hb h).2 hm
    simp only [Spec.C11.strataOK, Bool.and_eq_true, beq_iff_eq, Bool.true_or, and_true]
    exact this
  · intro ratio hm hr
    have := C11_proportion s c script out ratio hm hr h
    simp only [Spec.C11.proportionOK, Spec.C11.multisetOK, proportionSize, Bool.and_eq_true,
      beq_iff_eq, List.all_eq_true, decide_eq_true_eq]
    exact ⟨⟨⟨⟨this.1, this.2.1⟩, this.2.2.1⟩, this.2.2.2.1⟩, fun v _ => this.2.2.2.2.1 v,
      fun v _ => this.2.2.2.2.2 v⟩

/-! ### Non-vacuity -/

theorem Run.exists_of_isOk {s : Scores} {c : BootCfg} {script : List (List Nat)}
    (h1 : (runSample s c script).1.isOk = true) (h2 : (runSample s c script).2.ok = true) :
    ∃ out, Run s c script out := by
  cases h : (runSample s c script).1 with
  | ok out => exact ⟨out, h, h2⟩
  | error e => rw [h] at h1; exact absurd h1 (by simp [Except.isOk, Except.toBool])

/-- The hypotheses `Run` (+ `Inv`, method, stratification) of C11_flags / _subset / _inv / _total /
_strata / _at_least_one / _mean are satisfiable for EVERY source and every replacement or
single-pass configuration without smoothing: the identity script. -/
example (s : Scores) (c : BootCfg) (hsm : c.smoothing = false)
    (hm : samplingMethod s c = .replacement ∨ samplingMethod s c = .singlePass) :
    ∃ script out, Run s c script out :=
  let ⟨script, out, h, _⟩ := C11_reachable s c hsm hm
  ⟨script, out, h⟩

/-- A concrete adversarial run: stratified single-pass sampling in which every multiplicity is
answered 0 (inside the support of `Bin(n, 1/k)`), so both at-least-one corrections fire. -/
example : ∃ out, Run ⟨[1, 2, 3], [0, 1], 4, 0, ⟨.pos, .neg⟩⟩
    ⟨.singlePass, true, false, none, fun r n => r * n⟩ [[0, 0, 0], [0, 0], [1], [0]] out :=
  Run.exists_of_isOk (by decide +kernel) (by decide +kernel)

/-- non-stratified replacement sampling with easy samples, class split answered at its extreme
`0` (the class-size correction fires) -/
example : ∃ out, Run ⟨[1, 2, 3], [0, 1], 2, 1, ⟨.neg, .pos⟩⟩
    ⟨.dynamic, false, false, none, fun r n => r * n⟩ [[0], [0], [2], [2], [1, 1, 0, 0, 1]] out :=
  Run.exists_of_isOk (by decide +kernel) (by decide +kernel)

/-- proportion sampling, ratio 1/2 of 4 positives and 3 negatives -/
example : ∃ out, Run ⟨[1, 2, 2, 5], [0, 1, 7], 3, 0, ⟨.pos, .pos⟩⟩
    ⟨.proportion, false, false, some (1 / 2), fun r n => r * n⟩ [[3, 1], [2]] out :=
  Run.exists_of_isOk (by decide +kernel) (by decide +kernel)

/-- `Inv` of a source and the hypotheses of `C11_proportion_feasible` are satisfiable -/
example : Inv ⟨[1, 2, 2, 5], [0, 1, 7], 3, 0, ⟨.pos, .pos⟩⟩ := by
  constructor <;> decide +kernel

example : (⟨.proportion, false, false, some (1 / 2), fun r n => r * n⟩ : BootCfg).fmul (1 / 2) 4
    ≤ ((4 : Nat) : Rat) := by decide +kernel

/-- both sides of the dynamic switch occur -/
example : samplingMethod ⟨List.replicate 100 0, List.replicate 100 1, 0, 0, ⟨.pos, .pos⟩⟩
    ⟨.dynamic, false, false, none, fun r n => r * n⟩ = .singlePass := by decide +kernel

example : samplingMethod ⟨List.replicate 99 0, List.replicate 100 1, 0, 0, ⟨.pos, .pos⟩⟩
    ⟨.dynamic, false, false, none, fun r n => r * n⟩ = .replacement := by decide +kernel

end SA
