/-
C11 — progress and totality of the sampling model.

`runSample s c script` (SA/Model/Sampling.lean) models `Scores.bootstrap_sample(config)` on a
scripted RNG (SA/Model/Rng.lean).  The C11 theorems (SA/Theorems/C11.lean) hold "for every script
on which the run is `ok`".  This file closes the two gaps of that phrasing:

* **progress** (`C11_progress`, `C11_progress_prefix`, `C11_progress_ok`): the model never issues
  a request NumPy would reject (`Req.WF`) as long as the answers received so far lie in the
  supports — so a run can only stop being `ok` because the script ran out or gave an
  out-of-support answer, never because `np.random.*` raised;
* **totality** (`C11_totality`, `C11_totality_ok`): there is an in-support script on which the run
  succeeds, for exactly the configurations that do not raise by design.

Replacement and single-pass sampling need NO precondition on the source (empty classes included).
Proportion sampling needs the two draws without replacement to be feasible (`c11p_Pre`); where
they are not, the first request is ill-formed on every script (`C11_progress_proportion_fails`).

The state records every request with its answer (`RngState.trace`, most recent first;
`RngState.paired` in call order), also on runs that are not `ok`.
-/
import SA.Theorems.C11

namespace SA

/-! ## Definitions -/

/-- NumPy accepts the request instead of raising `ValueError`:
* `binomial(n, p, size)`: `0 ≤ p ≤ 1` (`n ≥ 0` holds by typing, `n : Nat`);
* `poisson(lam, size)`: `lam ≥ 0`;
* `choice(n | array of length n, size, replace)`: a non-empty population unless nothing is drawn
  (`n > 0 ∨ size = 0`; the scalar form `size=None` draws one), and no more draws than elements
  when drawing without replacement;
* `normal(loc, scale, size)`: the scale is not part of the model (SA/Model/Sampling.lean), nothing
  to check.
The same predicate as the model's own `Req.feasible` (`c11p_WF_eq_feasible`), restated here so
that the theorem can be read without the model file. -/
def Req.WF : Req → Bool
  | .binomial _ p _ => decide (0 ≤ p) && decide (p ≤ 1)
  | .poisson lam _ => decide (0 ≤ lam)
  | .choice n size repl =>
    (decide (0 < n) || sizeLen size == 0) && (repl || decide (sizeLen size ≤ n))
  | .choiceFrom n size repl =>
    (decide (0 < n) || sizeLen size == 0) && (repl || decide (sizeLen size ≤ n))
  | .normal _ => true

/-- Progress over a list of (request, answer) pairs in call order: the first request is
well-formed, and if its answer lies in the support the same holds of the rest.  Nothing is
claimed after the first out-of-support (or missing) answer. -/
def c11p_progressOK : List (Req × List Nat) → Bool
  | [] => true
  | q :: rest => q.1.WF && (!(q.1.inRange q.2) || c11p_progressOK rest)

/-- Precondition of progress: proportion sampling with a ratio draws `max(int(ratio·n), 1)` of
the `n` scored samples of each class without replacement; that many must exist.  (No condition
for any other method.) -/
def c11p_Pre (s : Scores) (c : BootCfg) : Prop :=
  samplingMethod s c = .proportion → ∀ ratio, c.ratio = some ratio →
    proportionSize c ratio s.pos.length ≤ s.pos.length ∧
    proportionSize c ratio s.neg.length ≤ s.neg.length

/-- The configurations that do not raise by design: replacement sampling (smoothing or not),
single-pass sampling without smoothing, proportion sampling with a ratio and feasible sizes. -/
def c11p_Runnable (s : Scores) (c : BootCfg) : Prop :=
  samplingMethod s c = .replacement ∨
  (samplingMethod s c = .singlePass ∧ c.smoothing = false) ∨
  (samplingMethod s c = .proportion ∧ ∃ ratio, c.ratio = some ratio ∧
    proportionSize c ratio s.pos.length ≤ s.pos.length ∧
    proportionSize c ratio s.neg.length ≤ s.neg.length)

/-! ## Helpers: lists of (request, answer) pairs -/

theorem c11p_WF_eq_feasible (r : Req) : r.WF = r.feasible := by cases r <;> rfl

/-- every answer lies in the support of its request (order irrelevant) -/
def c11p_live (tr : List (Req × List Nat)) : Bool := tr.all (fun q => q.1.inRange q.2)

/-- `c11p_progressOK` on a list stored most recent first -/
def c11p_safeRev : List (Req × List Nat) → Bool
  | [] => true
  | q :: older => c11p_safeRev older && (!c11p_live older || q.1.WF)

theorem c11p_progressOK_snoc (l : List (Req × List Nat)) (q : Req × List Nat) :
    c11p_progressOK (l ++ [q]) = (c11p_progressOK l && (!c11p_live l || q.1.WF)) := by
  induction l with
  | nil => simp [c11p_progressOK, c11p_live]
  | cons a l ih =>
    simp only [List.cons_append, c11p_progressOK, ih, c11p_live, List.all_cons]
    generalize a.1.WF = b1
    generalize a.1.inRange a.2 = b2
    generalize c11p_progressOK l = b3
    generalize (l.all fun q => q.1.inRange q.2) = b4
    generalize q.1.WF = b5
    revert b1 b2 b3 b4 b5
    decide

theorem c11p_safeRev_eq (tr : List (Req × List Nat)) :
    c11p_safeRev tr = c11p_progressOK tr.reverse := by
  induction tr with
  | nil => rfl
  | cons q older ih =>
    rw [List.reverse_cons, c11p_progressOK_snoc, ← ih]
    simp only [c11p_safeRev, c11p_live, List.all_reverse]

/-- `c11p_progressOK` says: whenever all answers before a request lie in the supports, the
request is well-formed. -/
theorem c11p_progressOK_iff (l : List (Req × List Nat)) :
    c11p_progressOK l = true ↔
    ∀ pre q post, l = pre ++ q :: post → (∀ a ∈ pre, a.1.inRange a.2 = true) →
      q.1.WF = true := by
  induction l with
  | nil =>
    refine ⟨fun _ pre q post h => ?_, fun _ => rfl⟩
    exact absurd h (by simp)
  | cons a l ih =>
    simp only [c11p_progressOK, Bool.and_eq_true, Bool.or_eq_true, Bool.not_eq_true']
    constructor
    · rintro ⟨hw, hrest⟩ pre q post hsplit hpre
      cases pre with
      | nil =>
        simp only [List.nil_append, List.cons.injEq] at hsplit
        rw [← hsplit.1]; exact hw
      | cons a' pre' =>
        simp only [List.cons_append, List.cons.injEq] at hsplit
        obtain ⟨rfl, hl⟩ := hsplit
        have ha := hpre a (by simp)
        rcases hrest with hrest | hrest
        · rw [ha] at hrest; exact absurd hrest (by simp)
        · exact (ih.mp hrest) pre' q post hl (fun x hx => hpre x (by simp [hx]))
    · intro h
      refine ⟨h [] a l rfl (by simp), ?_⟩
      by_cases ha : a.1.inRange a.2 = true
      · right
        apply ih.mpr
        intro pre q post hl hpre
        apply h (a :: pre) q post (by rw [hl]; rfl)
        intro x hx
        simp only [List.mem_cons] at hx
        rcases hx with rfl | hx
        · exact ha
        · exact hpre x hx
      · left; simpa using ha

/-- if moreover every answer lies in its support, every request is well-formed -/
theorem c11p_progressOK_all (l : List (Req × List Nat)) (h : c11p_progressOK l = true)
    (hl : ∀ a ∈ l, a.1.inRange a.2 = true) : ∀ a ∈ l, a.1.WF = true := by
  intro a ha
  obtain ⟨pre, post, rfl⟩ := List.append_of_mem ha
  exact (c11p_progressOK_iff _).mp h pre a post rfl (fun x hx => hl x (by simp [hx]))

/-! ## Helpers: states -/

/-- the state's trace satisfies progress, and the `ok` flag implies that every answer so far lies
in its support -/
structure c11p_Good (st : RngState) : Prop where
  safe : c11p_safeRev st.trace = true
  live : st.ok = true → c11p_live st.trace = true

/-- every answer so far lies in its support (weaker than `ok`, which also asks that the script
was not exhausted) -/
def c11p_Live (st : RngState) : Prop := c11p_live st.trace = true

theorem c11p_init_good (script : List (List Nat)) : c11p_Good (RngState.init script) :=
  ⟨rfl, fun _ => rfl⟩

theorem c11p_draw_good {r : Req} {st : RngState} (hg : c11p_Good st)
    (hw : c11p_Live st → r.WF = true) : c11p_Good (draw r st).2 := by
  constructor
  · rw [draw_trace]
    simp only [c11p_safeRev, hg.safe, Bool.true_and, Bool.or_eq_true, Bool.not_eq_true']
    by_cases hl : c11p_live st.trace = true
    · right; exact hw hl
    · left; simpa using hl
  · intro hok
    obtain ⟨h1, h2⟩ := draw_ok hok
    rw [draw_trace]
    simp only [c11p_live, List.all_cons, h2, Bool.true_and]
    exact hg.live h1

theorem c11p_draw_live {r : Req} {st : RngState} (h : c11p_Live (draw r st).2) :
    c11p_Live st ∧ r.inRange (draw r st).1 = true := by
  unfold c11p_Live at h
  rw [draw_trace] at h
  simp only [c11p_live, List.all_cons, Bool.and_eq_true] at h
  exact ⟨h.2, h.1⟩

/-! ## Helpers: the probabilities and rates the model requests are valid -/

theorem c11p_posNegRatio_bounds (s : Scores) : 0 ≤ s.posNegRatio ∧ s.posNegRatio ≤ 1 := by
  unfold Scores.posNegRatio
  by_cases hN : s.nbAll > 0
  · simp only [hN, if_true]
    have h2 : (0 : Rat) < (s.nbAll : Rat) := by exact_mod_cast hN
    have h1 : (0 : Rat) ≤ (s.nbAllPos : Rat) := by exact_mod_cast Nat.zero_le _
    have h3 : (s.nbAllPos : Rat) ≤ (s.nbAll : Rat) := by
      have := nbAll_split s
      exact_mod_cast (by omega : s.nbAllPos ≤ s.nbAll)
    exact ⟨div_nonneg h1 h2.le, (div_le_one h2).mpr h3⟩
  · simp only [hN, if_false]
    exact ⟨le_refl _, zero_le_one⟩

theorem c11p_easy_bounds (k e : Nat) :
    0 ≤ 1 - (if e > 0 then (k : Rat) / ((k + e : Nat) : Rat) else 1) ∧
    1 - (if e > 0 then (k : Rat) / ((k + e : Nat) : Rat) else 1) ≤ 1 := by
  by_cases he : e > 0
  · simp only [he, if_true]
    have h2 : (0 : Rat) < ((k + e : Nat) : Rat) := by exact_mod_cast (by omega : 0 < k + e)
    have h1 : (0 : Rat) ≤ (k : Rat) := by exact_mod_cast Nat.zero_le _
    have h3 : (k : Rat) ≤ ((k + e : Nat) : Rat) := by exact_mod_cast (by omega : k ≤ k + e)
    have a := div_nonneg h1 h2.le
    have b := (div_le_one h2).mpr h3
    constructor <;> linarith
  · simp only [he, if_false]
    constructor <;> norm_num

theorem c11p_binomial_WF {n : Nat} {p : Rat} {size : Option Nat} (h : 0 ≤ p ∧ p ≤ 1) :
    (Req.binomial n p size).WF = true := by
  simp only [Req.WF, Bool.and_eq_true, decide_eq_true_eq]
  exact h

theorem c11p_classSplit_WF (s : Scores) :
    (Req.binomial s.nbAll s.posNegRatio none).WF = true :=
  c11p_binomial_WF (c11p_posNegRatio_bounds s)

theorem c11p_easyPos_WF (s : Scores) (n : Nat) :
    (Req.binomial n s.easyPosRatio none).WF = true :=
  c11p_binomial_WF (c11p_easy_bounds s.pos.length s.easyPos)

theorem c11p_easyNeg_WF (s : Scores) (n : Nat) :
    (Req.binomial n s.easyNegRatio none).WF = true :=
  c11p_binomial_WF (c11p_easy_bounds s.neg.length s.easyNeg)

/-- the multiplicity request of single-pass sampling is well-formed whatever `size` and `n`
(`p = 1/max(size,1) ∈ (0,1]`, `lam = n·p ≥ 0`; `size = 0` asks for an empty array) -/
theorem c11p_singlePassReq_WF (size n : Nat) : (singlePassReq size n).WF = true := by
  unfold singlePassReq
  have hm : (1 : Rat) ≤ ((max size 1 : Nat) : Rat) := by
    exact_mod_cast (Nat.le_max_right size 1)
  have hpos : (0 : Rat) < ((max size 1 : Nat) : Rat) := by linarith
  have h0 : (0 : Rat) ≤ 1 / ((max size 1 : Nat) : Rat) := div_nonneg zero_le_one hpos.le
  have h1 : (1 : Rat) / ((max size 1 : Nat) : Rat) ≤ 1 := (div_le_one hpos).mpr hm
  by_cases c : n < 100
  · simp only [c, if_true]
    exact c11p_binomial_WF ⟨h0, h1⟩
  · simp only [c, if_false, Req.WF, decide_eq_true_eq]
    exact mul_nonneg (by exact_mod_cast Nat.zero_le n) h0

theorem c11p_choice_WF {n k : Nat} (h : n = 0 → k = 0) :
    (Req.choice n (some k) true).WF = true := by
  simp only [Req.WF, sizeLen, Bool.true_or, Bool.and_true, Bool.or_eq_true, decide_eq_true_eq,
    beq_iff_eq]
  omega

theorem c11p_choiceScalar_WF {n : Nat} (h : 0 < n) : (Req.choice n none true).WF = true := by
  simp only [Req.WF, sizeLen, Bool.true_or, Bool.and_true, Bool.or_eq_true, decide_eq_true_eq]
  exact Or.inl h

theorem c11p_choiceFrom_feasible {n k : Nat} (h1 : 1 ≤ k) (h2 : k ≤ n) :
    (Req.choiceFrom n (some k) false).feasible = true := by
  simp only [Req.feasible, sizeLen, Bool.false_or, Bool.and_eq_true, Bool.or_eq_true,
    decide_eq_true_eq]
  exact ⟨Or.inl (by omega), decide_eq_true h2⟩

theorem c11p_proportionSize_pos (c : BootCfg) (ratio : Rat) (n : Nat) :
    1 ≤ proportionSize c ratio n := by
  unfold proportionSize; exact Nat.le_max_right _ _

/-! ## Helpers: the steps of `_sample_indices` -/

theorem c11p_drawStrata_good (s : Scores) (st : RngState) (hg : c11p_Good st) :
    c11p_Good (drawStrata s st).2 := by
  simp only [drawStrata, drawScalar_fst, drawScalar_snd]
  exact c11p_draw_good (c11p_draw_good (c11p_draw_good hg (fun _ => c11p_classSplit_WF s))
    (fun _ => c11p_easyPos_WF s _)) (fun _ => c11p_easyNeg_WF s _)

/-- `drawStrata_spec` from the answers alone (not from the `ok` flag) -/
theorem c11p_drawStrata_live (s : Scores) (st : RngState) (h : c11p_Live (drawStrata s st).2) :
    c11p_Live st ∧ StrataFacts s (drawStrata s st).1 := by
  simp only [drawStrata, drawScalar_fst, drawScalar_snd] at h ⊢
  obtain ⟨h3, r3⟩ := c11p_draw_live h
  obtain ⟨h2, r2⟩ := c11p_draw_live h3
  obtain ⟨h1, r1⟩ := c11p_draw_live h2
  refine ⟨h1, ?_⟩
  obtain ⟨b1, b2, b3⟩ := binomial_none_range r1
  generalize ((draw (Req.binomial s.nbAll s.posNegRatio none) st).1).headD 0 = b at *
  generalize (draw (Req.binomial s.nbAll s.posNegRatio none) st).2 = st1 at *
  have hcs := classSizes_spec s b b1 (fun hp => b2 (posNegRatio_zero s hp))
    (fun hn => by
      by_cases hN : s.nbAll > 0
      · exact b3 (posNegRatio_one s hn hN)
      · omega)
  obtain ⟨cT, cP, cN, cP0, cN0⟩ := hcs
  obtain ⟨e1, e2, e3⟩ := binomial_none_range r2
  obtain ⟨f1, f2, f3⟩ := binomial_none_range r3
  generalize ((draw (Req.binomial (classSizes s b).1 s.easyPosRatio none) st1).1).headD 0 = e at *
  generalize (draw (Req.binomial (classSizes s b).1 s.easyPosRatio none) st1).2 = st2 at *
  generalize ((draw (Req.binomial (classSizes s b).2 s.easyNegRatio none) st2).1).headD 0 = f at *
  have hP := hardEasy_spec (classSizes s b).1 e s.pos.length s.easyPos e1
    (fun hk => cP (by simp only [Scores.nbAllPos]; omega))
    (fun hk => cP0 (by simp only [Scores.nbAllPos]; omega))
    (fun hz => e2 (easyPosRatio_zero s hz)) (fun hk hz => e3 (easyPosRatio_one s hk hz))
  have hQ := hardEasy_spec (classSizes s b).2 f s.neg.length s.easyNeg f1
    (fun hk => cN (by simp only [Scores.nbAllNeg]; omega))
    (fun hk => cN0 (by simp only [Scores.nbAllNeg]; omega))
    (fun hz => f2 (easyNegRatio_zero s hz)) (fun hk hz => f3 (easyNegRatio_one s hk hz))
  exact ⟨by simp only []; omega, hP.2.1, hQ.2.1, hP.2.2, hQ.2.2⟩

theorem c11p_strataFor_good (s : Scores) (b : Bool) (st : RngState) (hg : c11p_Good st) :
    c11p_Good (strataFor s b st).2 := by
  cases b with
  | true => exact hg
  | false => exact c11p_drawStrata_good s st hg

theorem c11p_strataFor_live (s : Scores) (b : Bool) (st : RngState)
    (h : c11p_Live (strataFor s b st).2) :
    c11p_Live st ∧ StrataFacts s (strataFor s b st).1 := by
  cases b with
  | true =>
    refine ⟨h, ⟨?_, fun h => h, fun h => h, fun h => h, fun h => h⟩⟩
    show s.pos.length + s.neg.length + s.easyPos + s.easyNeg = s.nbAll
    simp only [Scores.nbAll, Scores.nbEasy, Scores.nbHard]; omega
  | false => exact c11p_drawStrata_live s st h

theorem c11p_singlePassCounts_good (size n : Nat) (st : RngState) (hg : c11p_Good st) :
    c11p_Good (singlePassCounts size n st).2 :=
  c11p_draw_good hg (fun _ => c11p_singlePassReq_WF size n)

theorem c11p_singlePassCounts_live (size n : Nat) (st : RngState)
    (h : c11p_Live (singlePassCounts size n st).2) : c11p_Live st :=
  (c11p_draw_live h).1

theorem c11p_forceOne_good (k n : Nat) (counts : List Nat) (st : RngState) (hg : c11p_Good st)
    (hk : c11p_Live st → n > 0 → k > 0) : c11p_Good (forceOne k n counts st).2 := by
  unfold forceOne
  by_cases c : n > 0 ∧ counts.all (· == 0) = true
  · simp only [c, and_self, if_true, drawScalar_snd]
    exact c11p_draw_good hg (fun hl => c11p_choiceScalar_WF (hk hl c.1))
  · simp only [c, if_false]
    exact hg

theorem c11p_forceOne_live (k n : Nat) (counts : List Nat) (st : RngState)
    (h : c11p_Live (forceOne k n counts st).2) : c11p_Live st := by
  unfold forceOne at h
  by_cases c : n > 0 ∧ counts.all (· == 0) = true
  · simp only [c, and_self, if_true, drawScalar_snd] at h
    exact (c11p_draw_live h).1
  · simp only [c, if_false] at h
    exact h

theorem c11p_sampleIndices_good (s : Scores) (b sp : Bool) (st : RngState) (hg : c11p_Good st) :
    c11p_Good (sampleIndices s b sp st).2 := by
  have ga := c11p_strataFor_good s b st hg
  unfold sampleIndices
  cases sp with
  | true =>
    simp only [↓reduceIte]
    refine c11p_forceOne_good _ _ _ _ (c11p_forceOne_good _ _ _ _
      (c11p_singlePassCounts_good _ _ _ (c11p_singlePassCounts_good _ _ _ ga)) ?_) ?_
    · intro hl hn
      have hf := (c11p_strataFor_live _ _ _
        (c11p_singlePassCounts_live _ _ _ (c11p_singlePassCounts_live _ _ _ hl))).2
      by_contra h0
      have := hf.posZero (by omega)
      omega
    · intro hl hn
      have hf := (c11p_strataFor_live _ _ _
        (c11p_singlePassCounts_live _ _ _ (c11p_singlePassCounts_live _ _ _
          (c11p_forceOne_live _ _ _ _ hl)))).2
      by_contra h0
      have := hf.negZero (by omega)
      omega
  | false =>
    simp only [Bool.false_eq_true, ↓reduceIte]
    refine c11p_draw_good (c11p_draw_good ga ?_) ?_
    · intro hl
      exact c11p_choice_WF (c11p_strataFor_live _ _ _ hl).2.posZero
    · intro hl
      exact c11p_choice_WF (c11p_strataFor_live _ _ _ (c11p_draw_live hl).1).2.negZero

/-- `bootstrap_sample` keeps the progress invariant. -/
theorem c11p_bootstrapSample_good (s : Scores) (c : BootCfg) (st : RngState)
    (hp : c11p_Pre s c) (hg : c11p_Good st) : c11p_Good (bootstrapSample s c st).2 := by
  unfold c11p_Pre at hp
  unfold bootstrapSample
  cases hm : samplingMethod s c with
  | replacement =>
    simp only []
    by_cases hs : c.smoothing = true
    · simp only [hs, if_true]
      exact c11p_draw_good (c11p_draw_good (c11p_sampleIndices_good s _ _ st hg) (fun _ => rfl))
        (fun _ => rfl)
    · simp only [hs]
      exact c11p_sampleIndices_good s _ _ st hg
  | singlePass =>
    simp only []
    by_cases hs : c.smoothing = true
    · simp only [hs, if_true]
      exact c11p_sampleIndices_good s _ _ st hg
    · simp only [hs]
      exact c11p_sampleIndices_good s _ _ st hg
  | proportion =>
    simp only []
    cases hr : c.ratio with
    | none => exact hg
    | some ratio =>
      simp only []
      obtain ⟨q1, q2⟩ := hp hm ratio hr
      have f1 := c11p_choiceFrom_feasible (c11p_proportionSize_pos c ratio s.pos.length) q1
      have f2 := c11p_choiceFrom_feasible (c11p_proportionSize_pos c ratio s.neg.length) q2
      simp only [f1, f2, Bool.not_true, Bool.false_eq_true, if_false]
      exact c11p_draw_good (c11p_draw_good hg (fun _ => by rw [c11p_WF_eq_feasible]; exact f1))
        (fun _ => by rw [c11p_WF_eq_feasible]; exact f2)
  | unknown => exact hg
  | dynamic => exact hg

/-! ## Helpers: scripts -/

theorem c11p_inRange_choiceFrom {n k : Nat} (h : k ≤ n) :
    (Req.choiceFrom n (some k) false).inRange (List.range k) = true := by
  simp only [Req.inRange, sizeLen, List.length_range, beq_self_eq_true, Bool.true_and,
    Bool.false_or, Bool.and_eq_true, List.all_eq_true, List.mem_range, decide_eq_true_eq]
  exact ⟨fun x hx => by omega, List.nodup_range⟩

theorem c11p_feasible_le {n k : Nat} (h : (Req.choiceFrom n (some k) false).feasible = true) :
    k ≤ n := by
  simp only [Req.feasible, sizeLen, Bool.false_or, Bool.and_eq_true] at h
  exact of_decide_eq_true h.2

theorem c11p_infeasible {n k : Nat} (h : n < k) :
    (Req.choiceFrom n (some k) false).feasible = false := by
  cases hf : (Req.choiceFrom n (some k) false).feasible with
  | false => rfl
  | true => have := c11p_feasible_le hf; omega

/-- `sampleIndices_identity` with unread answers left over -/
theorem c11p_sampleIndices_identity_rest (s : Scores) (b sp : Bool) (st : RngState)
    (rest : List (List Nat)) (hok : st.ok = true)
    (hr : st.responses = identityScript s b sp ++ rest) :
    (sampleIndices s b sp st).1 =
      ⟨List.range s.pos.length, List.range s.neg.length, s.easyPos, s.easyNeg⟩ ∧
    (sampleIndices s b sp st).2.ok = true ∧ (sampleIndices s b sp st).2.responses = rest := by
  unfold identityScript at hr
  rw [List.append_assoc] at hr
  obtain ⟨a1, a2, a3⟩ := strataFor_identity s b st _ hok hr
  unfold sampleIndices
  cases sp with
  | true =>
    simp only [↓reduceIte, List.cons_append, List.nil_append] at a2 ⊢
    simp only [a1, singlePassCounts]
    obtain ⟨e1, q1, k1⟩ := draw_cons (r := singlePassReq s.pos.length s.pos.length) a2 a3
      (inRange_ones _)
    obtain ⟨e2, q2, k2⟩ := draw_cons (r := singlePassReq s.neg.length s.neg.length) q1 k1
      (inRange_ones _)
    simp only [e1, e2, forceOne_ones, repeatIdx, repeatArange_ones, k2, q2, and_true,
      List.range_eq_range']
  | false =>
    simp only [Bool.false_eq_true, ↓reduceIte, List.cons_append, List.nil_append] at a2 ⊢
    simp only [a1]
    obtain ⟨e1, q1, k1⟩ := draw_cons (r := .choice s.pos.length (some s.pos.length) true) a2 a3
      (inRange_range _)
    obtain ⟨e2, q2, k2⟩ := draw_cons (r := .choice s.neg.length (some s.neg.length) true) q1 k1
      (inRange_range _)
    simp only [e1, e2, k2, q2, and_true]

theorem c11p_isOk_error {α : Type} (e : Err) : (Except.error e : Except Err α).isOk ≠ true := by
  simp [Except.isOk, Except.toBool]

/-! ## Progress -/

/-- the precondition is void for every method but proportion sampling -/
theorem c11p_Pre_of_ne (s : Scores) (c : BootCfg) (hm : samplingMethod s c ≠ .proportion) :
    c11p_Pre s c := fun h => absurd h hm

/-- proportion sampling: both classes hold scored samples and the (float) product `ratio·n` does
not exceed `n` (true of a faithful product whenever `ratio ≤ 1`) -/
theorem c11p_Pre_of_nonempty (s : Scores) (c : BootCfg) (hpos : s.pos ≠ []) (hneg : s.neg ≠ [])
    (hle : ∀ ratio, c.ratio = some ratio →
      c.fmul ratio s.pos.length ≤ s.pos.length ∧ c.fmul ratio s.neg.length ≤ s.neg.length) :
    c11p_Pre s c := by
  intro _ ratio hr
  obtain ⟨h1, h2⟩ := hle ratio hr
  exact ⟨(C11_proportion_feasible c ratio _ (List.length_pos_iff.mpr hpos) h1).2,
    (C11_proportion_feasible c ratio _ (List.length_pos_iff.mpr hneg) h2).2⟩

/-- **C11 (progress).** For every source (empty classes, no samples at all included), every
configuration and EVERY script — in the supports or not, long enough or not — the requests of the
run, in call order, satisfy `c11p_progressOK`: each request is one NumPy accepts (`Req.WF`) as
long as all earlier answers lie in the supports.  Replacement, single-pass, dynamic sampling,
stratified or not, smoothing or not: no precondition (`c11p_Pre_of_ne`); proportion sampling: the
two sizes must not exceed the class sizes (`c11p_Pre`, exact by `C11_progress_iff`). -/
theorem C11_progress (s : Scores) (c : BootCfg) (script : List (List Nat)) (hp : c11p_Pre s c) :
    c11p_progressOK (runSample s c script).2.paired = true := by
  have h := (c11p_bootstrapSample_good s c (RngState.init script) hp (c11p_init_good script)).safe
  rw [c11p_safeRev_eq] at h
  exact h

/-- **C11 (progress, spelled out).** Split the run's (request, answer) list at any request: if
every earlier answer lies in the support of its request, NumPy accepts this request.  Hence a run
stops being `ok` only at a well-formed request whose answer is missing or out of support. -/
theorem C11_progress_prefix (s : Scores) (c : BootCfg) (script : List (List Nat))
    (hp : c11p_Pre s c) (pre post : List (Req × List Nat)) (r : Req) (x : List Nat)
    (hsplit : (runSample s c script).2.paired = pre ++ (r, x) :: post)
    (hpre : ∀ q ∈ pre, q.1.inRange q.2 = true) : r.WF = true :=
  (c11p_progressOK_iff _).mp (C11_progress s c script hp) pre (r, x) post hsplit hpre

/-- **C11 (progress, `ok` runs).** On an `ok` run every request issued is well-formed and every
answer lies in its support. -/
theorem C11_progress_ok (s : Scores) (c : BootCfg) (script : List (List Nat))
    (hp : c11p_Pre s c) (hok : (runSample s c script).2.ok = true) :
    ∀ q ∈ (runSample s c script).2.paired, q.1.WF = true ∧ q.1.inRange q.2 = true := by
  have hl := (c11p_bootstrapSample_good s c (RngState.init script) hp
    (c11p_init_good script)).live hok
  have hin : ∀ q ∈ (runSample s c script).2.paired, q.1.inRange q.2 = true := by
    intro q hq
    simp only [c11p_live, List.all_eq_true] at hl
    exact hl q (List.mem_reverse.mp hq)
  intro q hq
  exact ⟨c11p_progressOK_all _ (C11_progress s c script hp) hin q hq, hin q hq⟩

/-- Proportion sampling whose positive size exceeds the number of scored positives (an empty
class: the size is `max(·, 1) = 1`; or `int(ratio·n) > n`): on EVERY script the first request is
ill-formed — NumPy raises `ValueError`, and so does the model. -/
theorem C11_progress_proportion_fails (s : Scores) (c : BootCfg) (script : List (List Nat))
    (ratio : Rat) (hm : samplingMethod s c = .proportion) (hr : c.ratio = some ratio)
    (hbad : s.pos.length < proportionSize c ratio s.pos.length) :
    c11p_progressOK (runSample s c script).2.paired = false ∧
    (runSample s c script).1 = .error .valueError := by
  have f1 := c11p_infeasible hbad
  unfold runSample bootstrapSample
  simp only [hm, hr, f1, Bool.not_false, if_true, RngState.paired, RngState.init,
    List.reverse_cons, List.reverse_nil, List.nil_append, c11p_progressOK, c11p_WF_eq_feasible,
    Bool.false_and, and_self]

/-- the same for the negative class, on the script that answers the first (well-formed) request
in its support -/
theorem c11p_proportion_fails_neg (s : Scores) (c : BootCfg) (ratio : Rat)
    (hm : samplingMethod s c = .proportion) (hr : c.ratio = some ratio)
    (hpos : proportionSize c ratio s.pos.length ≤ s.pos.length)
    (hbad : s.neg.length < proportionSize c ratio s.neg.length) :
    c11p_progressOK (runSample s c
      [List.range (proportionSize c ratio s.pos.length)]).2.paired = false := by
  have f1 := c11p_choiceFrom_feasible (c11p_proportionSize_pos c ratio s.pos.length) hpos
  have f2 := c11p_infeasible hbad
  obtain ⟨e1, _, _⟩ := draw_cons
    (r := Req.choiceFrom s.pos.length (some (proportionSize c ratio s.pos.length)) false)
    (st := RngState.init [List.range (proportionSize c ratio s.pos.length)]) rfl rfl
    (c11p_inRange_choiceFrom hpos)
  unfold runSample bootstrapSample
  simp only [hm, hr, f1, f2, Bool.not_true, Bool.not_false, Bool.false_eq_true, if_false, if_true,
    RngState.paired, draw_trace, e1]
  simp only [RngState.init, List.reverse_cons, List.reverse_nil,
    List.nil_append, List.cons_append, c11p_progressOK, c11p_WF_eq_feasible, f1, f2,
    c11p_inRange_choiceFrom hpos, Bool.true_and, Bool.not_true, Bool.false_or, Bool.false_and]

/-- **C11 (progress, exact precondition).** Progress holds on every script exactly under
`c11p_Pre`. -/
theorem C11_progress_iff (s : Scores) (c : BootCfg) :
    (∀ script, c11p_progressOK (runSample s c script).2.paired = true) ↔ c11p_Pre s c := by
  refine ⟨fun h hm ratio hr => ?_, fun hp script => C11_progress s c script hp⟩
  by_cases hpos : proportionSize c ratio s.pos.length ≤ s.pos.length
  · by_cases hneg : proportionSize c ratio s.neg.length ≤ s.neg.length
    · exact ⟨hpos, hneg⟩
    · exfalso
      have := c11p_proportion_fails_neg s c ratio hm hr hpos (by omega)
      rw [h _] at this
      exact absurd this (by simp)
  · exfalso
    have := (C11_progress_proportion_fails s c [] ratio hm hr (by omega)).1
    rw [h _] at this
    exact absurd this (by simp)

/-! ## Totality -/

/-- **C11 (errors are by design).** Whatever the script (the model never raises on a bad or short
script, it clears `ok`), the result is a sample exactly for the runnable configurations; the
errors are: single-pass sampling with smoothing, proportion sampling without a ratio or with an
infeasible size, an unknown method string. -/
theorem C11_result_ok_iff (s : Scores) (c : BootCfg) (script : List (List Nat)) :
    (runSample s c script).1.isOk = true ↔ c11p_Runnable s c := by
  unfold runSample bootstrapSample c11p_Runnable
  cases hm : samplingMethod s c with
  | replacement =>
    simp only []
    exact ⟨fun _ => Or.inl trivial, fun _ => rfl⟩
  | singlePass =>
    simp only []
    by_cases hs : c.smoothing = true
    · simp only [hs, if_true]
      refine ⟨fun h => absurd h (c11p_isOk_error _), ?_⟩
      rintro (h | ⟨_, h⟩ | ⟨h, _⟩)
      · cases h
      · cases h
      · cases h
    · simp only [hs]
      exact ⟨fun _ => Or.inr (Or.inl ⟨trivial, trivial⟩), fun _ => rfl⟩
  | proportion =>
    simp only []
    cases hr : c.ratio with
    | none =>
      simp only []
      refine ⟨fun h => absurd h (c11p_isOk_error _), ?_⟩
      rintro (h | ⟨h, _⟩ | ⟨_, ratio, h, _⟩)
      · cases h
      · cases h
      · cases h
    | some ratio =>
      simp only []
      by_cases f1 : (Req.choiceFrom s.pos.length (some (proportionSize c ratio s.pos.length))
          false).feasible = true
      · by_cases f2 : (Req.choiceFrom s.neg.length (some (proportionSize c ratio s.neg.length))
            false).feasible = true
        · simp only [f1, f2, Bool.not_true, Bool.false_eq_true, if_false]
          exact ⟨fun _ => Or.inr (Or.inr ⟨trivial, ratio, rfl, c11p_feasible_le f1,
            c11p_feasible_le f2⟩), fun _ => rfl⟩
        · simp only [f1, f2, Bool.not_true, Bool.false_eq_true, if_false]
          refine ⟨fun h => absurd h (by simpa using c11p_isOk_error _), ?_⟩
          rintro (h | ⟨h, _⟩ | ⟨_, ratio', h, q1, q2⟩)
          · cases h
          · cases h
          · obtain rfl : ratio = ratio' := Option.some.inj h
            exact absurd (c11p_choiceFrom_feasible (c11p_proportionSize_pos _ _ _) q2) f2
      · simp only [f1]
        refine ⟨fun h => absurd h (by simpa using c11p_isOk_error _), ?_⟩
        rintro (h | ⟨h, _⟩ | ⟨_, ratio', h, q1, q2⟩)
        · cases h
        · cases h
        · obtain rfl : ratio = ratio' := Option.some.inj h
          exact absurd (c11p_choiceFrom_feasible (c11p_proportionSize_pos _ _ _) q1) f1
  | unknown =>
    simp only []
    refine ⟨fun h => absurd h (c11p_isOk_error _), ?_⟩
    rintro (h | ⟨h, _⟩ | ⟨h, _⟩) <;> cases h
  | dynamic =>
    simp only []
    refine ⟨fun h => absurd h (c11p_isOk_error _), ?_⟩
    rintro (h | ⟨h, _⟩ | ⟨h, _⟩) <;> cases h

/-- **C11 (totality).** For every source and every runnable configuration there is a script, all
of whose answers lie in the supports, on which the run returns a sample and is `ok`: the
hypothesis `Run s c script out` of the C11 theorems is satisfiable.  Replacement and single-pass
sampling: the identity script of `C11_reachable` (followed by two placeholders for the normal
draws under smoothing); proportion sampling: the first `max(int(ratio·n), 1)` positions of each
class. -/
theorem C11_totality (s : Scores) (c : BootCfg) (h : c11p_Runnable s c) :
    ∃ script out, Run s c script out := by
  rcases h with hm | ⟨hm, hs⟩ | ⟨hm, ratio, hr, q1, q2⟩
  · by_cases hs : c.smoothing = true
    · obtain ⟨_, e2, e3⟩ := c11p_sampleIndices_identity_rest s c.byLabel false
        (RngState.init (identityScript s c.byLabel false ++ [[], []])) [[], []] rfl rfl
      refine ⟨identityScript s c.byLabel false ++ [[], []], ?_⟩
      apply Run.exists_of_isOk ((C11_result_ok_iff s c _).mpr (Or.inl hm))
      have key : ∀ n1 n2 : Nat, (draw (.normal n2) (draw (.normal n1) (sampleIndices s c.byLabel
          false (RngState.init (identityScript s c.byLabel false ++ [[], []]))).2).2).2.ok
          = true := by
        intro n1 n2
        obtain ⟨_, q1, k1⟩ := draw_cons (r := .normal n1) e3 e2 rfl
        exact (draw_cons (r := .normal n2) q1 k1 rfl).2.2
      simp only [runSample, bootstrapSample, hm, hs, if_true]
      exact key _ _
    · obtain ⟨script, out, hrun, _⟩ := C11_reachable s c (by simpa using hs) (Or.inl hm)
      exact ⟨script, out, hrun⟩
  · obtain ⟨script, out, hrun, _⟩ := C11_reachable s c hs (Or.inr hm)
    exact ⟨script, out, hrun⟩
  · refine ⟨[List.range (proportionSize c ratio s.pos.length),
      List.range (proportionSize c ratio s.neg.length)], ?_⟩
    apply Run.exists_of_isOk
      ((C11_result_ok_iff s c _).mpr (Or.inr (Or.inr ⟨hm, ratio, hr, q1, q2⟩)))
    have f1 := c11p_choiceFrom_feasible (c11p_proportionSize_pos c ratio s.pos.length) q1
    have f2 := c11p_choiceFrom_feasible (c11p_proportionSize_pos c ratio s.neg.length) q2
    obtain ⟨_, r1, k1⟩ := draw_cons
      (r := Req.choiceFrom s.pos.length (some (proportionSize c ratio s.pos.length)) false)
      (st := RngState.init [List.range (proportionSize c ratio s.pos.length),
        List.range (proportionSize c ratio s.neg.length)]) rfl rfl (c11p_inRange_choiceFrom q1)
    have k2 := (draw_cons
      (r := Req.choiceFrom s.neg.length (some (proportionSize c ratio s.neg.length)) false)
      r1 k1 (c11p_inRange_choiceFrom q2)).2.2
    simp only [runSample, bootstrapSample, hm, hr, f1, f2, Bool.not_true, Bool.false_eq_true,
      if_false]
    exact k2

/-- **C11 (totality, exact).** A script on which the run returns a sample and is `ok` exists
exactly for the runnable configurations. -/
theorem C11_totality_iff (s : Scores) (c : BootCfg) :
    (∃ script out, Run s c script out) ↔ c11p_Runnable s c := by
  refine ⟨?_, C11_totality s c⟩
  rintro ⟨script, out, h1, _⟩
  apply (C11_result_ok_iff s c script).mp
  rw [h1]; rfl

/-- **C11 (totality of the request stream).** Replacement and single-pass sampling, smoothing or
not (single-pass sampling with smoothing draws first and raises afterwards): there is a script on
which the run is `ok` — the hypothesis of `C11_mean` and `C11_dynamic_requests` is satisfiable. -/
theorem C11_totality_ok (s : Scores) (c : BootCfg)
    (hm : samplingMethod s c = .replacement ∨ samplingMethod s c = .singlePass) :
    ∃ script, (runSample s c script).2.ok = true := by
  rcases hm with hm | hm
  · obtain ⟨script, out, hrun⟩ := C11_totality s c (Or.inl hm)
    exact ⟨script, hrun.2⟩
  · obtain ⟨_, e2⟩ := sampleIndices_identity s c.byLabel true
      (RngState.init (identityScript s c.byLabel true)) rfl rfl
    refine ⟨identityScript s c.byLabel true, ?_⟩
    by_cases hs : c.smoothing = true
    · simp only [runSample, bootstrapSample, hm, hs, if_true]; exact e2
    · simp only [runSample, bootstrapSample, hm, hs]; exact e2

/-! ## Non-vacuity and the concrete ill-formed requests -/

/-- `c11p_Good` (hypothesis of the step lemmas) holds of every initial state: `c11p_init_good`.
`c11p_Pre` holds of every replacement / single-pass / dynamic configuration: -/
example (s : Scores) (b sm : Bool) (r : Option Rat) (f : Rat → Nat → Rat) :
    c11p_Pre s ⟨.replacement, b, sm, r, f⟩ ∧ c11p_Pre s ⟨.singlePass, b, sm, r, f⟩ ∧
    c11p_Pre s ⟨.dynamic, b, sm, r, f⟩ := by
  refine ⟨c11p_Pre_of_ne _ _ ?_, c11p_Pre_of_ne _ _ ?_, c11p_Pre_of_ne _ _ ?_⟩
  · simp [samplingMethod]
  · simp [samplingMethod]
  · intro h
    have := (C11_dynamic s ⟨.dynamic, b, sm, r, f⟩).1 rfl
    by_cases hc : s.pos.length < 100 ∨ s.neg.length < 100 ∨ sm = true
    · rw [this.2.mpr hc] at h; cases h
    · have h1 : samplingMethod s ⟨.dynamic, b, sm, r, f⟩ = .singlePass := by
        simp only [samplingMethod, ne_eq, not_true_eq_false, if_false, singlePassSampleThreshold,
          hc]
      rw [h1] at h; cases h

/-- ... and of a proportion configuration (hypotheses of `c11p_Pre_of_nonempty`, hence of
`C11_progress`, `C11_progress_prefix`, `C11_progress_ok`): ratio 1/2 of 4 positives, 3 negatives -/
example : c11p_Pre ⟨[1, 2, 2, 5], [0, 1, 7], 3, 0, ⟨.pos, .pos⟩⟩
    ⟨.proportion, false, false, some (1 / 2), fun r n => r * n⟩ := by
  apply c11p_Pre_of_nonempty
  · simp
  · simp
  · intro ratio h
    obtain rfl : (1 / 2 : Rat) = ratio := Option.some.inj h
    constructor <;> decide +kernel

/-- hypotheses of `C11_progress_prefix`: a split of a concrete run after an in-support answer -/
example : ∃ pre post r x,
    (runSample ⟨[1, 2, 2, 5], [0, 1, 7], 3, 0, ⟨.pos, .pos⟩⟩
      ⟨.proportion, false, false, some (1 / 2), fun r n => r * n⟩ [[3, 1], [2]]).2.paired
      = pre ++ (r, x) :: post ∧ pre ≠ [] ∧ ∀ q ∈ pre, q.1.inRange q.2 = true :=
  ⟨[(.choiceFrom 4 (some 2) false, [3, 1])], [], .choiceFrom 3 (some 1) false, [2],
    by decide +kernel, by simp, by decide +kernel⟩

/-- hypotheses of `C11_progress_ok`: every replacement / single-pass configuration has an `ok`
run (`C11_totality_ok`); the runnable proportion configurations by `C11_totality` -/
example (s : Scores) (c : BootCfg)
    (hm : samplingMethod s c = .replacement ∨ samplingMethod s c = .singlePass) :
    c11p_Pre s c ∧ ∃ script, (runSample s c script).2.ok = true :=
  ⟨c11p_Pre_of_ne s c (by rcases hm with h | h <;> rw [h] <;> simp), C11_totality_ok s c hm⟩

/-- `c11p_Runnable` (hypothesis of `C11_totality`): every replacement configuration, ... -/
example (s : Scores) (b sm : Bool) (r : Option Rat) (f : Rat → Nat → Rat) :
    c11p_Runnable s ⟨.replacement, b, sm, r, f⟩ := Or.inl (by simp [samplingMethod])

/-- ... and a proportion configuration -/
example : c11p_Runnable ⟨[1, 2, 2, 5], [0, 1, 7], 3, 0, ⟨.pos, .pos⟩⟩
    ⟨.proportion, false, false, some (1 / 2), fun r n => r * n⟩ :=
  Or.inr (Or.inr ⟨by decide +kernel, 1 / 2, rfl, by decide +kernel, by decide +kernel⟩)

/-- An empty class is harmless under single-pass sampling (and under replacement sampling): no
scored positives, non-stratified, every answer in its support; the five requests
`binomial(2, 0)`, `binomial(0, 0)`, `binomial(2, 0)`, `binomial(n=0, p=1, size=0)` and
`binomial(n=2, p=1/2, size=2)` are well-formed, and `choice(0)` is NOT issued. -/
example : (runSample ⟨[], [1, 2], 0, 0, ⟨.pos, .pos⟩⟩
      ⟨.singlePass, false, false, none, fun r n => r * n⟩ [[0], [0], [0], [], [1, 1]]).2.ok = true ∧
    (runSample ⟨[], [1, 2], 0, 0, ⟨.pos, .pos⟩⟩
      ⟨.singlePass, false, false, none, fun r n => r * n⟩ [[0], [0], [0], [], [1, 1]]).2.requests =
    [.binomial 2 0 none, .binomial 0 0 none, .binomial 2 0 none, .binomial 0 1 (some 0),
      .binomial 2 (1 / 2) (some 2)] := by
  constructor <;> decide +kernel

/-- **Ill-formed request 1** (hypotheses of `C11_progress_proportion_fails`): proportion
sampling of a source without scored positives asks for `choice(<empty array>, size=1,
replace=False)`.  Python:
`Scores(pos=[], neg=[1.0]).bootstrap_sample(BootstrapConfig(sampling_method="proportion", ratio=0.5))`
raises `ValueError` in `np.random.choice`. -/
example : c11p_progressOK (runSample ⟨[], [1], 0, 0, ⟨.pos, .pos⟩⟩
      ⟨.proportion, false, false, some (1 / 2), fun r n => r * n⟩ [[0], [0]]).2.paired = false ∧
    (runSample ⟨[], [1], 0, 0, ⟨.pos, .pos⟩⟩
      ⟨.proportion, false, false, some (1 / 2), fun r n => r * n⟩ [[0], [0]]).2.requests =
      [.choiceFrom 0 (some 1) false] ∧
    (Req.choiceFrom 0 (some 1) false).WF = false ∧
    (runSample ⟨[], [1], 0, 0, ⟨.pos, .pos⟩⟩
      ⟨.proportion, false, false, some (1 / 2), fun r n => r * n⟩ [[0], [0]]).1.isOk
      = false := by
  refine ⟨?_, ?_, ?_, ?_⟩ <;> decide +kernel

example : samplingMethod ⟨[], [1], 0, 0, ⟨.pos, .pos⟩⟩
      ⟨.proportion, false, false, some (1 / 2), fun r n => r * n⟩ = .proportion ∧
    ([] : List Rat).length < proportionSize
      ⟨.proportion, false, false, some (1 / 2), fun r n => r * n⟩ (1 / 2) 0 := by
  constructor <;> decide +kernel

/-- **Ill-formed request 2**: a ratio above 1 asks for more scored samples than the class holds:
`choice(<2 values>, size=3, replace=False)`.  Python:
`Scores(pos=[1.0, 2.0], neg=[0.0]).bootstrap_sample(BootstrapConfig(sampling_method="proportion", ratio=1.5))`
raises `ValueError` in `np.random.choice`. -/
example : c11p_progressOK (runSample ⟨[1, 2], [0], 0, 0, ⟨.pos, .pos⟩⟩
      ⟨.proportion, false, false, some (3 / 2), fun r n => r * n⟩ [[0, 1, 2], [0]]).2.paired
      = false ∧
    (runSample ⟨[1, 2], [0], 0, 0, ⟨.pos, .pos⟩⟩
      ⟨.proportion, false, false, some (3 / 2), fun r n => r * n⟩ [[0, 1, 2], [0]]).2.requests =
      [.choiceFrom 2 (some 3) false] := by
  constructor <;> decide +kernel

/-- **Ill-formed request 3** (hypotheses of `c11p_proportion_fails_neg`): no scored negatives;
the first request is fine and answered in its support, the second is
`choice(<empty array>, size=1, replace=False)`.  Python:
`Scores(pos=[1.0, 2.0], neg=[]).bootstrap_sample(BootstrapConfig(sampling_method="proportion", ratio=0.5))`
raises `ValueError` in the second `np.random.choice`. -/
example : c11p_progressOK (runSample ⟨[1, 2], [], 0, 0, ⟨.pos, .pos⟩⟩
      ⟨.proportion, false, false, some (1 / 2), fun r n => r * n⟩ [[0]]).2.paired = false ∧
    (runSample ⟨[1, 2], [], 0, 0, ⟨.pos, .pos⟩⟩
      ⟨.proportion, false, false, some (1 / 2), fun r n => r * n⟩ [[0]]).2.paired =
      [(.choiceFrom 2 (some 1) false, [0]), (.choiceFrom 0 (some 1) false, [])] := by
  constructor <;> decide +kernel

example : samplingMethod ⟨[1, 2], [], 0, 0, ⟨.pos, .pos⟩⟩
      ⟨.proportion, false, false, some (1 / 2), fun r n => r * n⟩ = .proportion ∧
    proportionSize ⟨.proportion, false, false, some (1 / 2), fun r n => r * n⟩ (1 / 2) 2 ≤ 2 ∧
    ([] : List Rat).length < proportionSize
      ⟨.proportion, false, false, some (1 / 2), fun r n => r * n⟩ (1 / 2) 0 := by
  refine ⟨?_, ?_, ?_⟩ <;> decide +kernel

/-- Progress says nothing after an out-of-support answer, and indeed cannot: non-stratified
replacement sampling of a source without positives, class split answered `1` (outside the support
of `Bin(2, 0)`); the model goes on to request `choice(0, size=1)`.  NumPy cannot give that
answer. -/
example : (runSample ⟨[], [1, 2], 0, 0, ⟨.pos, .pos⟩⟩
      ⟨.replacement, false, false, none, fun r n => r * n⟩ [[1], [0], [0], [0], [0]]).2.requests =
    [.binomial 2 0 none, .binomial 1 0 none, .binomial 1 0 none, .choice 0 (some 1) true,
      .choice 2 (some 1) true] ∧
    (Req.binomial 2 0 none).inRange [1] = false ∧ (Req.choice 0 (some 1) true).WF = false ∧
    c11p_progressOK (runSample ⟨[], [1, 2], 0, 0, ⟨.pos, .pos⟩⟩
      ⟨.replacement, false, false, none, fun r n => r * n⟩ [[1], [0], [0], [0], [0]]).2.paired
      = true := by
  refine ⟨?_, ?_, ?_, ?_⟩ <;> decide +kernel

end SA
