/-
C11, clause "Resampling is unbiased: every source score ... wherever the at-least-one correction is
not triggered, appears once per sample on average with expected class and stratum sizes equal to
the source's" — with an EXPECTATION SEMANTICS of the sampling model.

Set-up (SA/Model/SamplingM.lean)
* `sampleIndicesM R s byLabel singlePass : M Indices` is `Scores._sample_indices` written once over
  an arbitrary monad `M` with one primitive `R.draw : Req → M (List Nat)`;
  `sampleIndicesU` is the same program without the "at least one ..." corrections.
* `stateRng` runs it on a script of RNG answers, `exRng E` computes expectations from an oracle
  `E : Req → (List Nat → ℚ) → ℚ`; an expectation is `X k` for `X : Ex α = (α → ℚ) → ℚ` and an
  integrand `k : α → ℚ`.
* `Lawful E` (linearity, normalisation, support, means of Binomial / Poisson / uniform choice)
  is the trusted statement of the textbook facts about NumPy's primitives.

Results
* `c11u_sampleIndicesM_state`     on scripts the monadic program IS `SA.sampleIndices` (the model the
                                  harness compares with the real code call by call);
* `c11u_corrected_eq_uncorrected` on every script that triggers no correction (`noCorrection`, an
                                  explicit decidable predicate on the drawn values) the corrected
                                  and the uncorrected program return the same indices and state;
* `c11u_byLabel_replacement`      by_label + replacement (the program as written, it contains no
                                  correction): every index has expected multiplicity 1 and the
                                  strata are the source's, deterministically;
* `c11u_strata_means`             non-stratified: `E[nb_pos] = nb_all_pos`, `E[nb_easy_pos] =
                                  nb_easy_pos`, `E[nb_hard_pos] = len(pos)` (and negatives);
* `c11u_replacement_multiplicity`, `c11u_singlePass_given`, `c11u_singlePass_multiplicity`;
* `C11_unbiased`                  all modes at once, in the words of the property;
* `c11u_simpleOracle_lawful`      the laws are satisfiable (SA/Proofs/SamplingMix.lean).

No side condition on the source is needed beyond `i < len(pos)` (resp. `j < len(neg)`): the
degenerate cases (`nb_all_samples = 0`, a class without scored samples, a class with only easy
samples, easy ratio of an empty class `= 1 - 1.0 = 0`) are covered because on the SUPPORT of the
three binomials a class without scored samples in the source never asks `choice(0, size>0)`
(`StrataSupp`, `c11u_strataSupp_of_inRange`).
-/
import SA.Proofs.SamplingM
import SA.Proofs.SamplingMix

namespace SA.C11U
open SA

variable {E : Oracle}

/-! ## 1. Refinement: scripts -/

/-- **Refinement.**  Instantiated with the script-state monad, the monadic program is exactly the
existing model: same indices, same final `RngState` (responses left, trace, `ok` flag). -/
theorem c11u_sampleIndicesM_state (s : Scores) (byLabel singlePass : Bool) (st : RngState) :
    sampleIndicesM stateRng s byLabel singlePass st = sampleIndices s byLabel singlePass st :=
  c11u_sampleIndicesM_state_aux s byLabel singlePass st

/-- **Corrected = uncorrected off the corrections.**  On every script on which none of the
at-least-one corrections fires, the program as written and the uncorrected program return the same
indices, issue the same requests and leave the same state. -/
theorem c11u_corrected_eq_uncorrected (s : Scores) (byLabel singlePass : Bool) (st : RngState)
    (h : noCorrection s byLabel singlePass st.responses = true) :
    sampleIndicesM stateRng s byLabel singlePass st =
      sampleIndicesU stateRng s byLabel singlePass st := by
  cases byLabel
  · -- non-stratified
    simp only [noCorrection, Bool.false_or, Bool.and_eq_true, Bool.false_eq_true, if_false] at h
    obtain ⟨hs, hc⟩ := h
    have e1 : sampleIndicesM stateRng s false singlePass st =
        (if singlePass then singlePassPartM stateRng s (drawStrataM stateRng s st).1
          else replacementPartM stateRng s (drawStrataM stateRng s st).1)
          (drawStrataM stateRng s st).2 := rfl
    have e2 : sampleIndicesU stateRng s false singlePass st =
        (if singlePass then singlePassPartU stateRng s (drawStrataU stateRng s st).1
          else replacementPartM stateRng s (drawStrataU stateRng s st).1)
          (drawStrataU stateRng s st).2 := rfl
    rw [e1, e2, c11u_drawStrata_eq s st hs]
    cases singlePass
    · rfl
    · simp only [if_true]
      simp only [Bool.not_true, Bool.false_or, Bool.and_eq_true] at hc
      apply c11u_singlePass_eq
      · rw [c11u_drawStrataU_fst, c11u_drawStrataU_responses]
        simp only [List.getD_eq_getElem?_getD, List.getElem?_drop, Nat.add_zero]
        simpa only [List.getD_eq_getElem?_getD] using hc.1
      · rw [c11u_drawStrataU_fst, c11u_drawStrataU_responses]
        simp only [List.getD_eq_getElem?_getD, List.getElem?_drop]
        simpa only [List.getD_eq_getElem?_getD] using hc.2
  · -- by_label: the strata are the source's
    cases singlePass
    · rfl
    · simp only [noCorrection, Bool.true_or, Bool.true_and, Bool.not_true, Bool.false_or,
        Bool.and_eq_true, if_true, Nat.zero_add] at h
      exact c11u_singlePass_eq s ⟨s.pos.length, s.neg.length, s.easyPos, s.easyNeg⟩ st h.1 h.2

/-- the same, for a run from the start of a script, stated on the existing model -/
theorem c11u_sampleIndices_uncorrected (s : Scores) (byLabel singlePass : Bool)
    (script : List (List Nat)) (h : noCorrection s byLabel singlePass script = true) :
    sampleIndices s byLabel singlePass (RngState.init script) =
      sampleIndicesU stateRng s byLabel singlePass (RngState.init script) := by
  rw [← c11u_sampleIndicesM_state]
  exact c11u_corrected_eq_uncorrected s byLabel singlePass _ h

/-- by_label + replacement contains no correction at all: in EVERY monad the program as written
and the uncorrected program coincide -/
theorem c11u_byLabel_replacement_no_correction {M : Type → Type} [Monad M] (R : RngM M)
    (s : Scores) : sampleIndicesM R s true false = sampleIndicesU R s true false := rfl

/-! ## 2. Expectations -/

/-- given the strata: expected multiplicity of a positive index is `n_drawn / len(pos)` -/
theorem c11u_part_posCount (L : Lawful E) (s : Scores) (singlePass : Bool) (a : Strata)
    (ha : StrataSupp s a) (i : Nat) (hi : i < s.pos.length) :
    partU E s singlePass a (fun r => ((r.idxPos.count i : Nat) : ℚ)) =
      (a.hardPos : ℚ) / (s.pos.length : ℚ) := by
  rw [c11u_partU_pos L s singlePass a ha (fun d _ _ => ((d.count i : Nat) : ℚ))]
  cases singlePass
  · exact L.choice_count _ _ _ hi
  · exact c11u_singlePass_count L _ _ _ hi

theorem c11u_part_negCount (L : Lawful E) (s : Scores) (singlePass : Bool) (a : Strata)
    (ha : StrataSupp s a) (j : Nat) (hj : j < s.neg.length) :
    partU E s singlePass a (fun r => ((r.idxNeg.count j : Nat) : ℚ)) =
      (a.hardNeg : ℚ) / (s.neg.length : ℚ) := by
  rw [c11u_partU_neg L s singlePass a ha (fun d _ _ => ((d.count j : Nat) : ℚ))]
  cases singlePass
  · exact L.choice_count _ _ _ hj
  · exact c11u_singlePass_count L _ _ _ hj

/-- given the strata: expected number of scored positives (plus a multiple of the easy count) -/
theorem c11u_part_posSize (L : Lawful E) (s : Scores) (singlePass : Bool) (a : Strata)
    (ha : StrataSupp s a) (v : ℚ) :
    partU E s singlePass a (fun r => ((r.idxPos.length : Nat) : ℚ) + v * (r.easyPos : ℚ)) =
      (a.hardPos : ℚ) + v * (a.easyPos : ℚ) := by
  rw [c11u_partU_pos L s singlePass a ha (fun d e _ => ((d.length : Nat) : ℚ) + v * (e : ℚ))]
  cases singlePass
  · show E _ _ = _
    rw [L.affine _ (c11u_choice_feasible ha.2.1) 1 (v * (a.easyPos : ℚ))
      (fun d => ((d.length : Nat) : ℚ)) _ (fun x _ => by ring),
      c11u_choice_length L _ _ ha.2.1 (fun n => (n : ℚ))]
    ring
  · show E _ _ = _
    rw [L.affine _ (c11u_singlePassReq_feasible _ _) 1 (v * (a.easyPos : ℚ))
      (fun c => (((repeatIdx c).length : Nat) : ℚ)) _ (fun x _ => by ring),
      c11u_singlePass_length L _ _ ha.2.1]
    ring

theorem c11u_part_negSize (L : Lawful E) (s : Scores) (singlePass : Bool) (a : Strata)
    (ha : StrataSupp s a) (v : ℚ) :
    partU E s singlePass a (fun r => ((r.idxNeg.length : Nat) : ℚ) + v * (r.easyNeg : ℚ)) =
      (a.hardNeg : ℚ) + v * (a.easyNeg : ℚ) := by
  rw [c11u_partU_neg L s singlePass a ha (fun d _ e => ((d.length : Nat) : ℚ) + v * (e : ℚ))]
  cases singlePass
  · show E _ _ = _
    rw [L.affine _ (c11u_choice_feasible ha.2.2) 1 (v * (a.easyNeg : ℚ))
      (fun d => ((d.length : Nat) : ℚ)) _ (fun x _ => by ring),
      c11u_choice_length L _ _ ha.2.2 (fun n => (n : ℚ))]
    ring
  · show E _ _ = _
    rw [L.affine _ (c11u_singlePassReq_feasible _ _) 1 (v * (a.easyNeg : ℚ))
      (fun c => (((repeatIdx c).length : Nat) : ℚ)) _ (fun x _ => by ring),
      c11u_singlePass_length L _ _ ha.2.2]
    ring

/-- **by_label + replacement** (the program AS WRITTEN): every scored positive / negative of the
source has expected multiplicity 1 in the sample, and the four stratum sizes are the source's with
certainty (any function `g` of them has the value at the source's sizes as its mean). -/
theorem c11u_byLabel_replacement (L : Lawful E) (s : Scores) :
    (∀ i, i < s.pos.length →
      sampleIndicesM (exRng E) s true false (fun r => ((r.idxPos.count i : Nat) : ℚ)) = 1) ∧
    (∀ j, j < s.neg.length →
      sampleIndicesM (exRng E) s true false (fun r => ((r.idxNeg.count j : Nat) : ℚ)) = 1) ∧
    (∀ g : Nat → Nat → Nat → Nat → ℚ,
      sampleIndicesM (exRng E) s true false
        (fun r => g r.idxPos.length r.idxNeg.length r.easyPos r.easyNeg) =
        g s.pos.length s.neg.length s.easyPos s.easyNeg) := by
  have src := c11u_strataSupp_source s
  refine ⟨fun i hi => ?_, fun j hj => ?_, fun g => ?_⟩
  · have h0 : (s.pos.length : ℚ) ≠ 0 := by exact_mod_cast (by omega : s.pos.length ≠ 0)
    have := c11u_part_posCount L s false _ src i hi
    exact this.trans (div_self h0)
  · have h0 : (s.neg.length : ℚ) ≠ 0 := by exact_mod_cast (by omega : s.neg.length ≠ 0)
    have := c11u_part_negCount L s false _ src j hj
    exact this.trans (div_self h0)
  · show E (.choice s.pos.length (some s.pos.length) true) (fun d1 =>
      E (.choice s.neg.length (some s.neg.length) true) (fun d2 =>
        g d1.length d2.length s.easyPos s.easyNeg)) = _
    rw [L.supp _ _ (fun _ => g s.pos.length s.neg.length s.easyPos s.easyNeg) (fun d1 h1 => by
      rw [L.supp _ _ (fun _ => g s.pos.length s.neg.length s.easyPos s.easyNeg) (fun d2 h2 => by
        rw [(choice_range h1).1, (choice_range h2).1]; rfl)]
      exact L.norm _ _ (c11u_choice_feasible (fun h => h)))]
    exact L.norm _ _ (c11u_choice_feasible (fun h => h))

/-- **Non-stratified, uncorrected: the strata.**  `E[nb_pos] = nb_all_pos`,
`E[nb_easy_pos] = nb_easy_pos`, `E[nb_hard_pos] = len(pos)`, and the same for negatives — for every
source (also `nb_all_samples = 0`, empty classes, classes without scored or without easy
samples). -/
theorem c11u_strata_means (L : Lawful E) (s : Scores) :
    drawStrataU (exRng E) s (fun a => (a.hardPos : ℚ) + (a.easyPos : ℚ)) = (s.nbAllPos : ℚ) ∧
    drawStrataU (exRng E) s (fun a => (a.easyPos : ℚ)) = (s.easyPos : ℚ) ∧
    drawStrataU (exRng E) s (fun a => (a.hardPos : ℚ)) = (s.pos.length : ℚ) ∧
    drawStrataU (exRng E) s (fun a => (a.hardNeg : ℚ) + (a.easyNeg : ℚ)) = (s.nbAllNeg : ℚ) ∧
    drawStrataU (exRng E) s (fun a => (a.easyNeg : ℚ)) = (s.easyNeg : ℚ) ∧
    drawStrataU (exRng E) s (fun a => (a.hardNeg : ℚ)) = (s.neg.length : ℚ) := by
  have key := c11u_drawStrataU_affine L s
  have hP : (s.nbAllPos : ℚ) = (s.easyPos : ℚ) + (s.pos.length : ℚ) := by
    unfold Scores.nbAllPos; push_cast; ring
  have hQ : (s.nbAllNeg : ℚ) = (s.easyNeg : ℚ) + (s.neg.length : ℚ) := by
    unfold Scores.nbAllNeg; push_cast; ring
  refine ⟨?_, ?_, ?_, ?_, ?_, ?_⟩
  · have := key 1 1 0 0 0
    rw [show (fun a : Strata => (1 : ℚ) * (a.hardPos : ℚ) + 1 * (a.easyPos : ℚ) +
      0 * (a.hardNeg : ℚ) + 0 * (a.easyNeg : ℚ) + 0) = (fun a => (a.hardPos : ℚ) + (a.easyPos : ℚ))
      from funext fun a => by ring] at this
    rw [this, hP]; ring
  · have := key 0 1 0 0 0
    rw [show (fun a : Strata => (0 : ℚ) * (a.hardPos : ℚ) + 1 * (a.easyPos : ℚ) +
      0 * (a.hardNeg : ℚ) + 0 * (a.easyNeg : ℚ) + 0) = (fun a => (a.easyPos : ℚ))
      from funext fun a => by ring] at this
    rw [this]; ring
  · have := key 1 0 0 0 0
    rw [show (fun a : Strata => (1 : ℚ) * (a.hardPos : ℚ) + 0 * (a.easyPos : ℚ) +
      0 * (a.hardNeg : ℚ) + 0 * (a.easyNeg : ℚ) + 0) = (fun a => (a.hardPos : ℚ))
      from funext fun a => by ring] at this
    rw [this]; ring
  · have := key 0 0 1 1 0
    rw [show (fun a : Strata => (0 : ℚ) * (a.hardPos : ℚ) + 0 * (a.easyPos : ℚ) +
      1 * (a.hardNeg : ℚ) + 1 * (a.easyNeg : ℚ) + 0) = (fun a => (a.hardNeg : ℚ) + (a.easyNeg : ℚ))
      from funext fun a => by ring] at this
    rw [this, hQ]; ring
  · have := key 0 0 0 1 0
    rw [show (fun a : Strata => (0 : ℚ) * (a.hardPos : ℚ) + 0 * (a.easyPos : ℚ) +
      0 * (a.hardNeg : ℚ) + 1 * (a.easyNeg : ℚ) + 0) = (fun a => (a.easyNeg : ℚ))
      from funext fun a => by ring] at this
    rw [this]; ring
  · have := key 0 0 1 0 0
    rw [show (fun a : Strata => (0 : ℚ) * (a.hardPos : ℚ) + 0 * (a.easyPos : ℚ) +
      1 * (a.hardNeg : ℚ) + 0 * (a.easyNeg : ℚ) + 0) = (fun a => (a.hardNeg : ℚ))
      from funext fun a => by ring] at this
    rw [this]; ring

/-- expected multiplicity of a scored positive, every mode, uncorrected program -/
theorem c11u_posMultiplicity (L : Lawful E) (s : Scores) (byLabel singlePass : Bool)
    (i : Nat) (hi : i < s.pos.length) :
    sampleIndicesU (exRng E) s byLabel singlePass (fun r => ((r.idxPos.count i : Nat) : ℚ)) = 1 := by
  have h0 : (s.pos.length : ℚ) ≠ 0 := by exact_mod_cast (by omega : s.pos.length ≠ 0)
  rw [c11u_sampleIndicesU_affine L s byLabel singlePass _ (1 / (s.pos.length : ℚ)) 0 0 0 0
    (fun a ha => by rw [c11u_part_posCount L s singlePass a ha i hi]; ring)]
  field_simp
  ring

/-- expected multiplicity of a scored negative, every mode, uncorrected program -/
theorem c11u_negMultiplicity (L : Lawful E) (s : Scores) (byLabel singlePass : Bool)
    (j : Nat) (hj : j < s.neg.length) :
    sampleIndicesU (exRng E) s byLabel singlePass (fun r => ((r.idxNeg.count j : Nat) : ℚ)) = 1 := by
  have h0 : (s.neg.length : ℚ) ≠ 0 := by exact_mod_cast (by omega : s.neg.length ≠ 0)
  rw [c11u_sampleIndicesU_affine L s byLabel singlePass _ 0 0 (1 / (s.neg.length : ℚ)) 0 0
    (fun a ha => by rw [c11u_part_negCount L s singlePass a ha j hj]; ring)]
  field_simp
  ring

/-- **Non-stratified + replacement, uncorrected**: every scored sample of the source has expected
multiplicity 1 (tower property: the inner mean `nb_hard_pos / len(pos)` is affine in the strata,
whose means are the source's). -/
theorem c11u_replacement_multiplicity (L : Lawful E) (s : Scores) :
    (∀ i, i < s.pos.length →
      sampleIndicesU (exRng E) s false false (fun r => ((r.idxPos.count i : Nat) : ℚ)) = 1) ∧
    (∀ j, j < s.neg.length →
      sampleIndicesU (exRng E) s false false (fun r => ((r.idxNeg.count j : Nat) : ℚ)) = 1) :=
  ⟨fun i hi => c11u_posMultiplicity L s false false i hi,
   fun j hj => c11u_negMultiplicity L s false false j hj⟩

/-- **Single pass, given the strata** (binomial branch `n < 100` and Poisson branch alike),
uncorrected: the expected multiplicity of every scored sample is `n_drawn / class size`. -/
theorem c11u_singlePass_given (L : Lawful E) (s : Scores) (a : Strata) :
    (∀ i, i < s.pos.length →
      singlePassPartU (exRng E) s a (fun r => ((r.idxPos.count i : Nat) : ℚ)) =
        (a.hardPos : ℚ) / (s.pos.length : ℚ)) ∧
    (∀ j, j < s.neg.length →
      singlePassPartU (exRng E) s a (fun r => ((r.idxNeg.count j : Nat) : ℚ)) =
        (a.hardNeg : ℚ) / (s.neg.length : ℚ)) := by
  refine ⟨fun i hi => ?_, fun j hj => ?_⟩
  · rw [c11u_singlePassPartU_ex]
    rw [show (fun c1 => E (singlePassReq s.neg.length a.hardNeg) (fun c2 =>
        (((Indices.mk (repeatIdx c1) (repeatIdx c2) a.easyPos a.easyNeg).idxPos.count i : Nat) : ℚ)))
      = (fun c1 => (((repeatIdx c1).count i : Nat) : ℚ)) from funext fun c1 =>
        L.norm _ (((repeatIdx c1).count i : Nat) : ℚ) (c11u_singlePassReq_feasible _ _)]
    exact c11u_singlePass_count L _ _ _ hi
  · rw [c11u_singlePassPartU_ex]
    rw [L.norm _ (E (singlePassReq s.neg.length a.hardNeg)
      (fun c2 => (((repeatIdx c2).count j : Nat) : ℚ))) (c11u_singlePassReq_feasible _ _)]
    exact c11u_singlePass_count L _ _ _ hj

/-- **Single pass, uncorrected**: hence 1 under by_label (`n_drawn = class size`) and 1 in
expectation when non-stratified. -/
theorem c11u_singlePass_multiplicity (L : Lawful E) (s : Scores) (byLabel : Bool) :
    (∀ i, i < s.pos.length →
      sampleIndicesU (exRng E) s byLabel true (fun r => ((r.idxPos.count i : Nat) : ℚ)) = 1) ∧
    (∀ j, j < s.neg.length →
      sampleIndicesU (exRng E) s byLabel true (fun r => ((r.idxNeg.count j : Nat) : ℚ)) = 1) :=
  ⟨fun i hi => c11u_posMultiplicity L s byLabel true i hi,
   fun j hj => c11u_negMultiplicity L s byLabel true j hj⟩

/-- expected class and stratum sizes of the sample, every mode, uncorrected program -/
theorem c11u_sizes (L : Lawful E) (s : Scores) (byLabel singlePass : Bool) :
    sampleIndicesU (exRng E) s byLabel singlePass (fun r => ((r.idxPos.length : Nat) : ℚ)) =
      (s.pos.length : ℚ) ∧
    sampleIndicesU (exRng E) s byLabel singlePass (fun r => ((r.idxNeg.length : Nat) : ℚ)) =
      (s.neg.length : ℚ) ∧
    sampleIndicesU (exRng E) s byLabel singlePass (fun r => (r.easyPos : ℚ)) = (s.easyPos : ℚ) ∧
    sampleIndicesU (exRng E) s byLabel singlePass (fun r => (r.easyNeg : ℚ)) = (s.easyNeg : ℚ) ∧
    sampleIndicesU (exRng E) s byLabel singlePass
      (fun r => ((r.idxPos.length : Nat) : ℚ) + (r.easyPos : ℚ)) = (s.nbAllPos : ℚ) ∧
    sampleIndicesU (exRng E) s byLabel singlePass
      (fun r => ((r.idxNeg.length : Nat) : ℚ) + (r.easyNeg : ℚ)) = (s.nbAllNeg : ℚ) := by
  have hP : (s.nbAllPos : ℚ) = (s.easyPos : ℚ) + (s.pos.length : ℚ) := by
    unfold Scores.nbAllPos; push_cast; ring
  have hQ : (s.nbAllNeg : ℚ) = (s.easyNeg : ℚ) + (s.neg.length : ℚ) := by
    unfold Scores.nbAllNeg; push_cast; ring
  have aff := c11u_sampleIndicesU_affine L s byLabel singlePass
  refine ⟨?_, ?_, ?_, ?_, ?_, ?_⟩
  · rw [aff _ 1 0 0 0 0 (fun a ha => by
      have := c11u_part_posSize L s singlePass a ha 0
      simp only [zero_mul, add_zero] at this
      rw [this]; ring)]
    ring
  · rw [aff _ 0 0 1 0 0 (fun a ha => by
      have := c11u_part_negSize L s singlePass a ha 0
      simp only [zero_mul, add_zero] at this
      rw [this]; ring)]
    ring
  · rw [aff _ 0 1 0 0 0 (fun a ha => by
      rw [c11u_partU_easy L s singlePass a ha (fun e _ => (e : ℚ))]; ring)]
    ring
  · rw [aff _ 0 0 0 1 0 (fun a ha => by
      rw [c11u_partU_easy L s singlePass a ha (fun _ e => (e : ℚ))]; ring)]
    ring
  · rw [aff _ 1 1 0 0 0 (fun a ha => by
      have := c11u_part_posSize L s singlePass a ha 1
      simp only [one_mul] at this
      rw [this]; ring)]
    rw [hP]; ring
  · rw [aff _ 0 0 1 1 0 (fun a ha => by
      have := c11u_part_negSize L s singlePass a ha 1
      simp only [one_mul] at this
      rw [this]; ring)]
    rw [hQ]; ring

/-- **C11 (resampling is unbiased).**  For every lawful expectation oracle, every source and every
mode (stratified by label or not, replacement or single pass):

1. on every script of RNG answers on which no at-least-one correction fires, the model of
   `_sample_indices` (the one tied to the real code by the correspondence runs) computes exactly
   what the uncorrected program computes;
2. under the uncorrected program every scored positive and every scored negative of the source
   appears once per sample on average;
3. the expected stratum sizes (scored / easy, positive / negative) and the expected class sizes of
   the sample are the source's. -/
theorem C11_unbiased (L : Lawful E) (s : Scores) (byLabel singlePass : Bool) :
    (∀ script, noCorrection s byLabel singlePass script = true →
      sampleIndices s byLabel singlePass (RngState.init script) =
        sampleIndicesU stateRng s byLabel singlePass (RngState.init script)) ∧
    (∀ i, i < s.pos.length →
      sampleIndicesU (exRng E) s byLabel singlePass
        (fun r => ((r.idxPos.count i : Nat) : ℚ)) = 1) ∧
    (∀ j, j < s.neg.length →
      sampleIndicesU (exRng E) s byLabel singlePass
        (fun r => ((r.idxNeg.count j : Nat) : ℚ)) = 1) ∧
    sampleIndicesU (exRng E) s byLabel singlePass (fun r => ((r.idxPos.length : Nat) : ℚ)) =
      (s.pos.length : ℚ) ∧
    sampleIndicesU (exRng E) s byLabel singlePass (fun r => ((r.idxNeg.length : Nat) : ℚ)) =
      (s.neg.length : ℚ) ∧
    sampleIndicesU (exRng E) s byLabel singlePass (fun r => (r.easyPos : ℚ)) = (s.easyPos : ℚ) ∧
    sampleIndicesU (exRng E) s byLabel singlePass (fun r => (r.easyNeg : ℚ)) = (s.easyNeg : ℚ) ∧
    sampleIndicesU (exRng E) s byLabel singlePass
      (fun r => ((r.idxPos.length : Nat) : ℚ) + (r.easyPos : ℚ)) = (s.nbAllPos : ℚ) ∧
    sampleIndicesU (exRng E) s byLabel singlePass
      (fun r => ((r.idxNeg.length : Nat) : ℚ) + (r.easyNeg : ℚ)) = (s.nbAllNeg : ℚ) :=
  ⟨fun script h => c11u_sampleIndices_uncorrected s byLabel singlePass script h,
   fun i hi => c11u_posMultiplicity L s byLabel singlePass i hi,
   fun j hj => c11u_negMultiplicity L s byLabel singlePass j hj,
   c11u_sizes L s byLabel singlePass⟩

/-! ## 3. Non-vacuity -/

/-- the laws are jointly satisfiable -/
example : ∃ E : Oracle, Lawful E := ⟨simpleOracle, c11u_simpleOracle_lawful⟩

/-- a source with scored and easy samples in both classes: hypotheses `i < len(pos)`,
`j < len(neg)` are satisfiable, and so is `noCorrection` (here: the identity script, every mode) -/
example :
    let s : Scores := ⟨[1, 2, 3], [0, 1], 2, 1, ⟨.pos, .pos⟩⟩
    (1 < s.pos.length ∧ 0 < s.neg.length) ∧
    noCorrection s true false [[0, 1, 2], [0, 1]] = true ∧
    noCorrection s true true [[1, 1, 1], [1, 1]] = true ∧
    noCorrection s false false [[5], [2], [1], [0, 1, 2], [0, 1]] = true ∧
    noCorrection s false true [[5], [2], [1], [1, 1, 1], [1, 1]] = true ∧
    -- ... and a script on which a correction DOES fire is recognised
    noCorrection s false false [[0], [0], [1], [0], [0, 1, 1, 1, 1]] = false ∧
    noCorrection s true true [[0, 0, 0], [1, 1], [2]] = false := by
  decide +kernel

/-- `C11_unbiased` instantiated: the concrete oracle and a concrete source -/
example :
    sampleIndicesU (exRng simpleOracle) ⟨[1, 2, 3], [0, 1], 2, 1, ⟨.pos, .pos⟩⟩ false true
      (fun r => ((r.idxPos.count 1 : Nat) : ℚ)) = 1 :=
  (C11_unbiased c11u_simpleOracle_lawful ⟨[1, 2, 3], [0, 1], 2, 1, ⟨.pos, .pos⟩⟩ false true).2.1 1
    (by decide)

end SA.C11U
