/-
C12 — group labels stay attached to their scores; groups partition the data.

Theorems about the model of `GroupScores` (SA/Model/Group.lean).  A labelled score is a pair
`(score, group code)`; "keeps its label" = the multiset of pairs is preserved / sampled pairs are
pairs of the source.  Sampling theorems hold for EVERY script on which the run is `ok` (every
request found an answer inside the support of the requested distribution).  Helper lemmas are in
SA/Proofs/Group.lean.
-/
import SA.Proofs.Group
import SA.Theorems.C08

namespace SA
open Spec.C12

/-! ### construction -/

/-- **C12 (sorting).** The constructor output holds a permutation of the input pairs of each class
— every score keeps the label it was given — sorted by score, with the given flags; the group list
is the explicit one, as is, or the sorted distinct labels. -/
theorem C12_sort_perm (pos neg : List (Rat × Nat)) (cfg : Cfg) (gn : Option (List Nat)) :
    let g := GScores.make pos neg cfg gn false
    g.pos.Perm pos ∧ g.neg.Perm neg ∧ GInv g ∧ g.cfg = cfg ∧
    (∀ l, gn = some l → g.groups = l) ∧
    (gn = none → g.groups = c12_defaultGroups pos neg ∧ g.groups.Pairwise (· < ·) ∧
      ∀ c, c ∈ g.groups ↔ ∃ p ∈ pos ++ neg, p.2 = c) := by
  refine ⟨c12_sortPairs_perm pos, c12_sortPairs_perm neg,
    c12_make_inv pos neg cfg gn false (fun h => absurd h (by simp)), rfl, ?_, ?_⟩
  · rintro l rfl; rfl
  · rintro rfl
    refine ⟨rfl, c12_codes_sorted _, fun c => ?_⟩
    show c ∈ c12_codes _ ↔ _
    rw [c12_mem_codes, List.mem_map]

/-- **C12 (is_sorted=True).** Under the caller's contract the arrays are taken as they are. -/
theorem C12_sorted_flag (pos neg : List (Rat × Nat)) (cfg : Cfg) (gn : Option (List Nat))
    (hp : pos.Pairwise (fun a b => a.1 ≤ b.1)) (hn : neg.Pairwise (fun a b => a.1 ≤ b.1)) :
    let g := GScores.make pos neg cfg gn true
    g.pos = pos ∧ g.neg = neg ∧ GInv g := ⟨rfl, rfl, hp, hn⟩

/-- `from_labels` splits by the label mask and constructs -/
theorem C12_from_labels (samples : List (Bool × Rat × Nat)) (cfg : Cfg) :
    let g := GScores.fromLabels samples cfg false
    g.pos.Perm ((samples.filter (fun s => s.1)).map (·.2)) ∧
    g.neg.Perm ((samples.filter (fun s => !s.1)).map (·.2)) ∧ GInv g :=
  ⟨c12_sortPairs_perm _, c12_sortPairs_perm _,
    c12_make_inv _ _ cfg none false (fun h => absurd h (by simp))⟩

/-! ### swap -/

theorem c12_cfg_swap_swap (c : Cfg) : c.swap.swap = c := by
  obtain ⟨a, b⟩ := c; cases a <;> cases b <;> rfl

/-- **C12 (swap).** The pairs move to the other class with their labels and order, the flags are
flipped, the object stays sorted; the group list becomes the DEFAULT list of the data (the code
does not forward `group_names`).  Swapping twice gives back arrays and flags, and the object
itself whenever its group list is the default one. -/
theorem C12_swap (g : GScores) :
    g.swap.pos = g.neg ∧ g.swap.neg = g.pos ∧ g.swap.cfg = g.cfg.swap ∧
    g.swap.groups = c12_defaultGroups g.pos g.neg ∧ (GInv g → GInv g.swap) ∧
    g.swap.swap.pos = g.pos ∧ g.swap.swap.neg = g.neg ∧ g.swap.swap.cfg = g.cfg ∧
    (g.groups = c12_defaultGroups g.pos g.neg → g.swap.swap = g) := by
  refine ⟨rfl, rfl, rfl, c12_defaultGroups_comm _ _, fun h => ⟨h.2, h.1⟩, rfl, rfl,
    c12_cfg_swap_swap _, fun hg => ?_⟩
  obtain ⟨p, n, c, gr⟩ := g
  simp only at hg
  subst hg
  show GScores.mk p n c.swap.swap (c12_defaultGroups p n) = _
  rw [c12_cfg_swap_swap]

/-- swapping exchanges rows and columns of every group matrix (C08 on each group) -/
theorem C12_swap_group_cm (g : GScores) (h : GInv g) (grp : Nat) (t : ERat) :
    Spec.C08.swapOK ((g.groupScores grp).cm t) ((g.swap.groupScores grp).cm t) = true :=
  C08_swap_cm (g.groupScores grp) (c12_groupScores_sorted h grp).1
    (c12_groupScores_sorted h grp).2 t

/-! ### indexing by a group -/

/-- **C12 (getitem).** `gs[grp]` exists exactly for the listed groups; it holds exactly the scores
whose label is `grp` — each with the multiplicity of the pair `(score, grp)` — in the order of the
held arrays, which is sorted (the filter of a sorted list is sorted, so `is_sorted=True` is
justified); no easy samples, the object's flags. -/
theorem C12_getitem (g : GScores) (grp : Nat) :
    (grp ∉ g.groups → g.getItem grp = .error .valueError) ∧
    (grp ∈ g.groups → ∃ s, g.getItem grp = .ok s ∧
      s.pos = c12_filterGroup g.pos grp ∧ s.neg = c12_filterGroup g.neg grp ∧
      (∀ x, s.pos.count x = g.pos.count (x, grp)) ∧ (∀ x, s.neg.count x = g.neg.count (x, grp)) ∧
      (∀ x, x ∈ s.pos ↔ (x, grp) ∈ g.pos) ∧ (∀ x, x ∈ s.neg ↔ (x, grp) ∈ g.neg) ∧
      s.easyPos = 0 ∧ s.easyNeg = 0 ∧ s.cfg = g.cfg ∧
      (GInv g → s.pos.Pairwise (· ≤ ·) ∧ s.neg.Pairwise (· ≤ ·))) := by
  constructor
  · intro h
    simp [GScores.getItem, h]
  · intro h
    refine ⟨g.groupScores grp, by simp [GScores.getItem, h], rfl, rfl,
      c12_count_filterGroup _ _, c12_count_filterGroup _ _, fun x => c12_mem_filterGroup,
      fun x => c12_mem_filterGroup, rfl, rfl, rfl, fun hi => c12_groupScores_sorted hi grp⟩

/-- **C12 (group matrices).** On a sorted object the matrix of every group, at every threshold
incl. ±inf and in all four configurations, is the count by the documented decision rule over the
scores carrying that label (C01). -/
theorem C12_group_cm (g : GScores) (h : GInv g) (t : ERat) :
    g.groupCm t = g.groups.map (fun grp =>
      countCM (c12_filterGroup g.pos grp) (c12_filterGroup g.neg grp) 0 0 g.cfg t) := by
  unfold GScores.groupCm
  apply List.map_congr_left
  intro grp _
  exact cm_eq_countCM_of_sorted (g.groupScores grp) (c12_groupScores_sorted h grp).1
    (c12_groupScores_sorted h grp).2 t

/-- the overall matrix is the count over all scores, labels ignored -/
theorem C12_overall_cm (g : GScores) (h : GInv g) (t : ERat) :
    g.overallCm t = countCM (g.pos.map (·.1)) (g.neg.map (·.1)) 0 0 g.cfg t :=
  cm_eq_countCM_of_sorted g.toScores (c12_toScores_sorted h).1 (c12_toScores_sorted h).2 t

/-- **C12 (partition).** If the group list is duplicate-free and contains every label occurring in
the data, the group matrices sum cell-wise to the overall matrix at every threshold. -/
theorem C12_partition (g : GScores) (h : GInv g) (hn : g.groups.Nodup)
    (hc : ∀ p ∈ g.pos ++ g.neg, p.2 ∈ g.groups) (t : ERat) :
    c12_sumCM (g.groupCm t) = g.overallCm t := by
  rw [C12_group_cm g h, C12_overall_cm g h]
  exact c12_sum_countCM g.groups hn g.pos g.neg
    (fun p hp => hc p (List.mem_append_left _ hp)) (fun p hp => hc p (List.mem_append_right _ hp))
    g.cfg t

/-- The precondition holds for the default group list: for every object built without
`group_names` the group matrices partition the overall matrix. -/
theorem C12_partition_default (pos neg : List (Rat × Nat)) (cfg : Cfg) (b : Bool)
    (hs : b = true → pos.Pairwise (fun a b => a.1 ≤ b.1) ∧ neg.Pairwise (fun a b => a.1 ≤ b.1))
    (t : ERat) :
    c12_sumCM ((GScores.make pos neg cfg none b).groupCm t) =
      (GScores.make pos neg cfg none b).overallCm t := by
  have hp := c12_make_perm pos neg cfg none b
  apply C12_partition _ (c12_make_inv pos neg cfg none b hs)
  · rw [c12_make_groups_none]; exact c12_defaultGroups_nodup _ _
  · intro p hp'
    rw [c12_make_groups_none]
    apply c12_defaultGroups_covers
    rcases List.mem_append.mp hp' with h' | h'
    · exact List.mem_append_left _ (hp.1.mem_iff.mp h')
    · exact List.mem_append_right _ (hp.2.mem_iff.mp h')

/-- … and for `swap()` of any sorted object, and for every sample whose source satisfies it (the
sample's labels are labels of the source and the list is forwarded): see `C12_sample_partition`. -/
theorem C12_partition_swap (g : GScores) (h : GInv g) (t : ERat) :
    c12_sumCM (g.swap.groupCm t) = g.swap.overallCm t :=
  C12_partition_default g.neg g.pos g.cfg.swap true (fun _ => ⟨h.2, h.1⟩) t

/-! ### the cache -/

/-- **C12 (cache).** Over ANY sequence of queries (`gs[g]` incl. unknown groups, `group_cm`,
`group_<rate>`, `cm`) started from a state whose cache is correct — in particular a fresh object —
every output equals the answer computed from the data alone, the cache stays correct and the
object is unchanged: outputs do not depend on the history. -/
theorem C12_cache (st : GState) (hc : CacheInv st) (qs : List GQuery) :
    (st.run qs).2 = qs.map st.g.answer ∧ CacheInv (st.run qs).1 ∧ (st.run qs).1.g = st.g :=
  c12_run_spec st hc qs

theorem C12_cache_fresh (g : GScores) (qs : List GQuery) :
    ((GState.fresh g).run qs).2 = qs.map g.answer :=
  (C12_cache (GState.fresh g) (fun _ h => absurd h (by simp [GState.fresh])) qs).1

/-- history independence: the same query after two different histories gets the same answer -/
theorem C12_cache_history (g : GScores) (qs₁ qs₂ : List GQuery) (q : GQuery) :
    ((((GState.fresh g).run qs₁).1).step q).2 = ((((GState.fresh g).run qs₂).1).step q).2 := by
  have hf : CacheInv (GState.fresh g) := fun _ h => absurd h (by simp [GState.fresh])
  obtain ⟨_, a2, a3⟩ := C12_cache (GState.fresh g) hf qs₁
  obtain ⟨_, b2, b3⟩ := C12_cache (GState.fresh g) hf qs₂
  rw [(c12_step_spec _ a2 q).1, (c12_step_spec _ b2 q).1, a3, b3]

/-- a cache hit returns the very entry that was inserted (`gs[g] is gs[g]`) -/
theorem C12_cache_hit (st : GState) (grp : Nat) (h : grp ∈ st.g.groups) :
    ((st.fetch grp).1.fetch grp).1 = (st.fetch grp).1 ∧
    ((st.fetch grp).1.fetch grp).2 = (st.fetch grp).2 := by
  have hm : st.g.groups.contains grp = true := by simpa using h
  unfold GState.fetch
  simp only [hm, if_true]
  cases hl : st.cache.lookup grp with
  | some s => simp only [hm, hl, if_true, and_self]
  | none => simp only [hm, if_true, List.lookup_cons, beq_self_eq_true, and_self]

/-- **C12 (groupwise).** `groupwise(metric)(gs)` is the metric applied group by group, in the
order of `groups`, whatever the cache holds. -/
theorem C12_groupwise {α : Type} (metric : Scores → α) (st : GState) (hc : CacheInv st) :
    (st.groupwise metric).2 = .ok (st.g.groupwise metric) ∧
    st.g.groupwise metric = st.g.groups.map (fun grp => metric (st.g.groupScores grp)) ∧
    CacheInv (st.groupwise metric).1 := by
  obtain ⟨f1, f2, _⟩ := c12_fetchAll_spec st hc st.g.groups (fun _ h => h)
  refine ⟨?_, rfl, f2⟩
  simp only [GState.groupwise, f1, Except.map, GScores.groupwise, List.map_map, Function.comp_def]

/-- the twelve `group_<name>` methods are `groupwise` of the `Scores` method of the same name -/
theorem C12_group_rate (g : GScores) (n : RateName) (t : ERat) :
    g.groupRate n t = g.groupwise (fun s => s.rateByName n t) := by
  simp only [GScores.groupRate, GScores.groupCm, GScores.groupwise, List.map_map,
    Function.comp_def, Scores.rateByName, Scores.rate]

/-! ### sampling -/

/-- **C12 (names).** The sample carries the source's group list, same order. -/
theorem C12_names (g : GScores) (c : GBootCfg) (script : List (List Nat)) (out : GScores)
    (h : GRun g c script out) : out.groups = g.groups ∧ out.cfg = g.cfg := by
  obtain ⟨_, sp, _, ⟨_, r, _, rfl⟩ | ⟨_, _, _, rfl⟩⟩ := c12_bootstrap_cases g c script out h <;>
    exact ⟨c12_make_groups_some _ _ _ _ _, c12_make_cfg _ _ _ _ _⟩

/-- **C12 (labels attached).** In every mode (replacement / single-pass / dynamic × none /
by_label / by_group) and for every in-support script, every `(score, label)` pair of the sample is
a pair of the source's same class: scores and labels are gathered by the same indices. -/
theorem C12_sample_attached (g : GScores) (c : GBootCfg) (script : List (List Nat))
    (out : GScores) (h : GRun g c script out) :
    (∀ p ∈ out.pos, p ∈ g.pos) ∧ (∀ p ∈ out.neg, p ∈ g.neg) := by
  obtain ⟨_, sp, _, ⟨_, r, f, rfl⟩ | ⟨_, _, hok, rfl⟩⟩ := c12_bootstrap_cases g c script out h
  · have hp := c12_make_perm (c12_gatherPairs g.pos r.idxPos) (c12_gatherPairs g.neg r.idxNeg)
      g.cfg (some g.groups) sp
    exact ⟨fun p hp' => c12_gatherPairs_mem _ _
        (fun i hi => by simpa [GScores.toScores] using f.posRange i hi) p (hp.1.mem_iff.mp hp'),
      fun p hp' => c12_gatherPairs_mem _ _
        (fun i hi => by simpa [GScores.toScores] using f.negRange i hi) p (hp.2.mem_iff.mp hp')⟩
  · obtain ⟨_, l1, l2, _⟩ := c12_byGroupLoop_spec g sp g.groups _ hok
    have hp := c12_make_perm (c12_byGroupLoop g sp g.groups (RngState.init script)).1.1
      (c12_byGroupLoop g sp g.groups (RngState.init script)).1.2 g.cfg (some g.groups) false
    exact ⟨fun p hp' => (l1 p (hp.1.mem_iff.mp hp')).1, fun p hp' => (l2 p (hp.2.mem_iff.mp hp')).1⟩

/-- **C12 (sample sorted).** The sample satisfies the constructor invariant in every mode — the
single-pass path passes `is_sorted=True`, justified because gathering the sorted source by the
non-decreasing index list `repeat(arange(k), counts)` is sorted.  Hence C12_getitem /
C12_group_cm apply to samples. -/
theorem C12_sample_inv (g : GScores) (hg : GInv g) (c : GBootCfg) (script : List (List Nat))
    (out : GScores) (h : GRun g c script out) : GInv out := by
  obtain ⟨_, sp, _, ⟨_, r, f, rfl⟩ | ⟨_, _, _, rfl⟩⟩ := c12_bootstrap_cases g c script out h
  · apply c12_make_inv
    intro hsp
    exact ⟨c12_gatherPairs_sorted _ _ hg.1 (f.sortedIdx hsp).1
        (fun i hi => by simpa [GScores.toScores] using f.posRange i hi),
      c12_gatherPairs_sorted _ _ hg.2 (f.sortedIdx hsp).2
        (fun i hi => by simpa [GScores.toScores] using f.negRange i hi)⟩
  · exact c12_make_inv _ _ _ _ _ (fun hh => absurd hh (by simp))

/-- the partition clause transfers to samples -/
theorem C12_sample_partition (g : GScores) (hg : GInv g) (hn : g.groups.Nodup)
    (hc : ∀ p ∈ g.pos ++ g.neg, p.2 ∈ g.groups) (c : GBootCfg) (script : List (List Nat))
    (out : GScores) (h : GRun g c script out) (t : ERat) :
    c12_sumCM (out.groupCm t) = out.overallCm t := by
  have hnames := (C12_names g c script out h).1
  have hatt := C12_sample_attached g c script out h
  apply C12_partition out (C12_sample_inv g hg c script out h)
  · rw [hnames]; exact hn
  · intro p hp
    rw [hnames]
    rcases List.mem_append.mp hp with h' | h'
    · exact hc p (List.mem_append_left _ (hatt.1 p h'))
    · exact hc p (List.mem_append_right _ (hatt.2 p h'))

/-- **C12 (by_group counts).** Replacement sampling (explicit, or chosen by "dynamic") stratified
by group, duplicate-free group list: for every listed group the number of sampled pairs carrying
its label — both classes together — equals the group's number of samples in the source; labels
outside the list are not sampled at all. -/
theorem C12_by_group_counts (g : GScores) (c : GBootCfg) (script : List (List Nat))
    (out : GScores) (hm : g.samplingMethod c = .replacement) (hs : c.strat = .byGroup)
    (hn : g.groups.Nodup) (h : GRun g c script out) :
    (∀ grp ∈ g.groups, labelCount out grp = labelCount g grp) ∧
    (∀ grp, grp ∉ g.groups → labelCount out grp = 0) := by
  obtain ⟨_, sp, hsp, ⟨hst, _⟩ | ⟨_, _, hok, rfl⟩⟩ := c12_bootstrap_cases g c script out h
  · rw [hs] at hst; rcases hst with hst | hst <;> exact absurd hst (by simp)
  · have : sp = false := by
      rcases hsp with ⟨_, h'⟩ | ⟨h', _⟩
      · exact h'
      · rw [hm] at h'; exact absurd h' (by simp)
    subst this
    obtain ⟨_, _, _, l3⟩ := c12_byGroupLoop_spec g false g.groups _ hok
    have hp := c12_make_perm (c12_byGroupLoop g false g.groups (RngState.init script)).1.1
      (c12_byGroupLoop g false g.groups (RngState.init script)).1.2 g.cfg (some g.groups) false
    have hcount : ∀ grp, labelCount (GScores.make
        (c12_byGroupLoop g false g.groups (RngState.init script)).1.1
        (c12_byGroupLoop g false g.groups (RngState.init script)).1.2 g.cfg (some g.groups) false)
        grp = g.groups.count grp * labelCount g grp := by
      intro grp
      unfold labelCount
      rw [hp.1.countP_eq, hp.2.countP_eq]
      exact l3 rfl grp
    constructor
    · intro grp hgrp
      rw [hcount, List.count_eq_one_of_mem hn hgrp, Nat.one_mul]
    · intro grp hgrp
      rw [hcount, List.count_eq_zero_of_not_mem hgrp, Nat.zero_mul]

/-- dynamic resolution of `GroupScores._sampling_method`: by_group always resamples with
replacement; otherwise single-pass exactly when both classes hold at least 100 samples -/
theorem C12_dynamic (g : GScores) (c : GBootCfg) :
    (c.method ≠ .dynamic → g.samplingMethod c = c.method) ∧
    (c.method = .dynamic → c.strat = .byGroup → g.samplingMethod c = .replacement) ∧
    (c.method = .dynamic → c.strat ≠ .byGroup →
      (g.samplingMethod c = .singlePass ↔ 100 ≤ g.pos.length ∧ 100 ≤ g.neg.length) ∧
      (g.samplingMethod c = .replacement ↔ g.pos.length < 100 ∨ g.neg.length < 100)) := by
  refine ⟨fun h => by simp [GScores.samplingMethod, h],
    fun h1 h2 => by simp [GScores.samplingMethod, h1, h2], fun h1 h2 => ?_⟩
  by_cases hc : g.pos.length < 100 ∨ g.neg.length < 100
  · have : g.samplingMethod c = .replacement := by
      simp only [GScores.samplingMethod, h1, ne_eq, not_true_eq_false, if_false, h2,
        singlePassSampleThreshold, hc, if_true]
    rw [this]
    exact ⟨⟨fun h => absurd h (by simp), fun h => by omega⟩, ⟨fun _ => hc, fun _ => rfl⟩⟩
  · have : g.samplingMethod c = .singlePass := by
      simp only [GScores.samplingMethod, h1, ne_eq, not_true_eq_false, if_false, h2,
        singlePassSampleThreshold, hc]
    rw [this]
    exact ⟨⟨fun _ => by omega, fun _ => rfl⟩, ⟨fun h => absurd h (by simp), fun h => absurd h hc⟩⟩

/-- error branches: smoothing, proportion sampling, unknown method or stratification raise
`ValueError` without consuming randomness -/
theorem C12_errors (g : GScores) (c : GBootCfg) (st : RngState) :
    (c.smoothing = true → g.bootstrapSample c st = (.error .valueError, st)) ∧
    (c.smoothing = false → c.method = .proportion →
      g.bootstrapSample c st = (.error .valueError, st)) ∧
    (c.smoothing = false → c.method = .unknown →
      g.bootstrapSample c st = (.error .valueError, st)) ∧
    (c.smoothing = false → c.strat = .unknown → c.method ≠ .dynamic →
      (g.bootstrapSample c st).1 = .error .valueError ∨
      (g.bootstrapSample c st).1 = .error .other) := by
  refine ⟨fun h => by simp [GScores.bootstrapSample, h],
    fun h1 h2 => by simp [GScores.bootstrapSample, h1, GScores.samplingMethod, h2],
    fun h1 h2 => by simp [GScores.bootstrapSample, h1, GScores.samplingMethod, h2],
    fun h1 h2 h3 => ?_⟩
  simp only [GScores.bootstrapSample, h1, Bool.false_eq_true, if_false, GScores.samplingMethod,
    h3, ne_eq, not_false_eq_true, if_true]
  cases c.method <;> simp [GScores.resample, h2]

/-- the requests of the replacement / single-pass branch are those of the stratification mode -/
theorem c12_resample_requests (g : GScores) (strat : Strat) (sp : Bool) (st : RngState)
    (hst : st.trace = []) (hok : (g.resample strat sp st).2.ok = true) :
    stratReqsOK 0 g strat sp (g.resample strat sp st).2.paired = true := by
  have b1 : (Strat.none == Strat.byLabel) = false := by decide
  have b2 : (Strat.byLabel == Strat.byLabel) = true := by decide
  unfold GScores.resample at hok ⊢
  cases strat with
  | none =>
    simp only [b1] at hok ⊢
    obtain ⟨newR, t, k⟩ := c12_sampleIndices_consume g.toScores false sp st hok
    have k0 := k []
    simp only [List.append_nil] at k0
    simp only [RngState.paired, t, hst, List.append_nil, stratReqsOK, k0, isDone]
  | byLabel =>
    simp only [b2] at hok ⊢
    obtain ⟨newR, t, k⟩ := c12_sampleIndices_consume g.toScores true sp st hok
    have k0 := k []
    simp only [List.append_nil] at k0
    simp only [RngState.paired, t, hst, List.append_nil, stratReqsOK, k0, isDone]
  | byGroup =>
    have e : (if g.groups.isEmpty = true then
          ((Except.error Err.valueError : Except Err GScores), (c12_byGroupLoop g sp g.groups st).2)
        else (Except.ok (GScores.make (c12_byGroupLoop g sp g.groups st).1.1
          (c12_byGroupLoop g sp g.groups st).1.2 g.cfg (some g.groups) false),
          (c12_byGroupLoop g sp g.groups st).2)).2 = (c12_byGroupLoop g sp g.groups st).2 := by
      split <;> rfl
    simp only [e] at hok ⊢
    obtain ⟨newR, t, k⟩ := c12_byGroupLoop_consume g sp g.groups st hok
    have k0 := k []
    simp only [List.append_nil] at k0
    simp only [RngState.paired, t, hst, List.append_nil, stratReqsOK, k0, isDone]
  | unknown => rfl

/-- **C12 (requests of each mode).** On every `ok` run that returns a sample the requests issued
are those of the stratification mode: `None` draws the class split of the whole object
(`Bin(N, nb_pos/N)`), `by_label` keeps both class sizes, `by_group` draws — for each listed group,
in order — the class split inside the group, so that exactly the group totals are preserved;
multiplicities / replacement draws / forced indices as in C11. -/
theorem C12_strat_requests (g : GScores) (c : GBootCfg) (script : List (List Nat))
    (out : GScores) (h : GRun g c script out) :
    stratReqsOK 0 g c.strat (g.samplingMethod c == .singlePass)
      (g.runSample c script).2.paired = true := by
  obtain ⟨h1, h2⟩ := h
  have hs : c.smoothing = false := (c12_bootstrap_cases g c script out ⟨h1, h2⟩).1
  have b1 : (SamplingMethod.replacement == SamplingMethod.singlePass) = false := by decide
  have b2 : (SamplingMethod.singlePass == SamplingMethod.singlePass) = true := by decide
  unfold GScores.runSample GScores.bootstrapSample at h1 h2 ⊢
  simp only [hs, Bool.false_eq_true, if_false] at h1 h2 ⊢
  cases hm : g.samplingMethod c with
  | replacement =>
    simp only [hm, b1] at h1 h2 ⊢
    exact c12_resample_requests g c.strat false _ rfl h2
  | singlePass =>
    simp only [hm, b2] at h1 h2 ⊢
    exact c12_resample_requests g c.strat true _ rfl h2
  | proportion => simp only [hm] at h1; exact absurd h1 (by simp)
  | unknown => simp only [hm] at h1; exact absurd h1 (by simp)
  | dynamic => simp only [hm] at h1; exact absurd h1 (by simp)

/-! ### the executable spec clauses hold of the model -/

theorem C12_spec_build (pos neg : List (Rat × Nat)) (cfg : Cfg) (gn : Option (List Nat)) :
    let g := GScores.make pos neg cfg gn false
    permOK pos g.pos = true ∧ permOK neg g.neg = true ∧ sortedOK g.pos = true ∧
    sortedOK g.neg = true := by
  obtain ⟨h1, h2, h3, _⟩ := C12_sort_perm pos neg cfg gn
  simp only [permOK, sortedOK, List.isPerm_iff, decide_eq_true_eq]
  exact ⟨h1, h2, h3.1, h3.2⟩

theorem C12_spec_swap (g : GScores) : swapOK g g.swap = true := by
  simp [swapOK, (C12_swap g).1, (C12_swap g).2.1, (C12_swap g).2.2.1]

theorem C12_spec_getitem (g : GScores) (grp : Nat) : getitemOK g grp (g.groupScores grp) = true := by
  simp [getitemOK, c12_groupScores_eq]

theorem C12_spec_group_cm (g : GScores) (h : GInv g) (grp : Nat) (t : ERat) :
    groupCmOK g grp t ((g.groupScores grp).cm t) = true := by
  simp only [groupCmOK, beq_iff_eq]
  exact cm_eq_countCM_of_sorted (g.groupScores grp) (c12_groupScores_sorted h grp).1
    (c12_groupScores_sorted h grp).2 t

theorem C12_spec_partition (g : GScores) (h : GInv g) (hc : coversOK g = true) (t : ERat) :
    partitionOK (g.groupCm t) (g.overallCm t) = true := by
  simp only [coversOK, Bool.and_eq_true, decide_eq_true_eq, List.all_eq_true,
    List.contains_iff_mem] at hc
  simp only [partitionOK, beq_iff_eq]
  exact C12_partition g h hc.1 hc.2 t

theorem C12_spec_sample (g : GScores) (hg : GInv g) (c : GBootCfg) (script : List (List Nat))
    (out : GScores) (h : GRun g c script out) :
    attachedOK g.pos out.pos = true ∧ attachedOK g.neg out.neg = true ∧
    sortedOK out.pos = true ∧ sortedOK out.neg = true ∧ namesOK g out = true ∧
    flagsOK g out = true ∧
    (g.samplingMethod c = .replacement → c.strat = .byGroup → g.groups.Nodup →
      groupCountsOK g out = true) := by
  obtain ⟨a1, a2⟩ := C12_sample_attached g c script out h
  obtain ⟨i1, i2⟩ := C12_sample_inv g hg c script out h
  obtain ⟨n1, n2⟩ := C12_names g c script out h
  refine ⟨?_, ?_, ?_, ?_, ?_, ?_, ?_⟩
  · simpa [attachedOK] using a1
  · simpa [attachedOK] using a2
  · simpa [sortedOK] using i1
  · simpa [sortedOK] using i2
  · simp [namesOK, n1]
  · simp [flagsOK, n2]
  · intro hm hs hn
    have := (C12_by_group_counts g c script out hm hs hn h).1
    simpa [groupCountsOK] using this

/-! ### Non-vacuity and counterexamples -/

theorem GRun.exists_of_isOk {g : GScores} {c : GBootCfg} {script : List (List Nat)}
    (h1 : (g.runSample c script).1.isOk = true) (h2 : (g.runSample c script).2.ok = true) :
    ∃ out, GRun g c script out := by
  cases h : (g.runSample c script).1 with
  | ok out => exact ⟨out, h, h2⟩
  | error e => rw [h] at h1; exact absurd h1 (by simp [Except.isOk, Except.toBool])

/-- a sorted object with three groups; group 2 has no negatives, ties across groups -/
def c12_exG : GScores :=
  ⟨[(1, 0), (2, 1), (2, 2), (3, 0)], [(0, 1), (2, 0), (2, 1)], ⟨.pos, .neg⟩, [2, 0, 1]⟩

/-- `GInv`, `Nodup` and the covering precondition are satisfiable (an explicit, non-sorted
`group_names` list) -/
example : GInv c12_exG := by constructor <;> decide +kernel
example : c12_exG.groups.Nodup ∧ ∀ p ∈ c12_exG.pos ++ c12_exG.neg, p.2 ∈ c12_exG.groups := by
  constructor <;> decide +kernel
example : coversOK c12_exG = true := by decide +kernel

/-- the constructor reaches it (up to the order inside tied blocks) from unsorted input -/
example : (GScores.make [(3, 0), (2, 1), (1, 0), (2, 2)] [(2, 0), (0, 1), (2, 1)] ⟨.pos, .neg⟩
    (some [2, 0, 1]) false).pos.Perm c12_exG.pos :=
  (C12_sort_perm _ _ _ _).1.trans (List.isPerm_iff.mp (by decide +kernel))

/-- **Counterexample (missing label).** With a user-supplied `group_names` that omits a label
occurring in the data the group matrices do NOT sum to the overall matrix: the precondition of
`C12_partition` cannot be dropped. -/
example : c12_sumCM ((⟨[(1, 0), (2, 1)], [(0, 0)], ⟨.pos, .pos⟩, [0]⟩ : GScores).groupCm (.fin 1)) ≠
    (⟨[(1, 0), (2, 1)], [(0, 0)], ⟨.pos, .pos⟩, [0]⟩ : GScores).overallCm (.fin 1) := by
  rw [C12_group_cm _ (by constructor <;> decide +kernel),
    C12_overall_cm _ (by constructor <;> decide +kernel)]
  decide +kernel

/-- **Counterexample (duplicate name).** Nor can duplicate-freeness: a repeated name is counted
twice. -/
example : c12_sumCM ((⟨[(1, 0)], [(0, 0)], ⟨.pos, .pos⟩, [0, 0]⟩ : GScores).groupCm (.fin 1)) ≠
    (⟨[(1, 0)], [(0, 0)], ⟨.pos, .pos⟩, [0, 0]⟩ : GScores).overallCm (.fin 1) := by
  rw [C12_group_cm _ (by constructor <;> decide +kernel),
    C12_overall_cm _ (by constructor <;> decide +kernel)]
  decide +kernel

/-- `swap()` forgets a user-supplied `group_names`: the swapped object lists the default groups -/
example : c12_exG.swap.groups = [0, 1, 2] := by decide +kernel

/-- `GRun` is satisfiable in each stratification mode.  by_group + replacement on `c12_exG`
(groups in the order 2, 0, 1; group 2 has no negatives: class split `Bin(1, 1) = 1`). -/
example : ∃ out, GRun c12_exG ⟨.dynamic, .byGroup, false⟩
    [[1], [0], [0], [0], [],
     [2], [0], [0], [1, 1], [0],
     [1], [0], [0], [0], [1, 0]] out :=
  GRun.exists_of_isOk (by decide +kernel) (by decide +kernel)

/-- by_label + single_pass with all multiplicities answered 0 (both forced indices fire) -/
example : ∃ out, GRun c12_exG ⟨.singlePass, .byLabel, false⟩
    [[0, 0, 0, 0], [0, 0, 0], [2], [1]] out :=
  GRun.exists_of_isOk (by decide +kernel) (by decide +kernel)

/-- no stratification + replacement -/
example : ∃ out, GRun c12_exG ⟨.replacement, .none, false⟩
    [[4], [0], [0], [3, 3, 0, 1], [2, 2, 0]] out :=
  GRun.exists_of_isOk (by decide +kernel) (by decide +kernel)

/-- the hypotheses of `C12_by_group_counts` hold together -/
example : c12_exG.samplingMethod ⟨.dynamic, .byGroup, false⟩ = .replacement ∧
    c12_exG.groups.Nodup := by constructor <;> decide +kernel

/-- a non-fresh state with a correct cache exists (`CacheInv` after a query) -/
example : CacheInv ((GState.fresh c12_exG).step (.getItem 0)).1 :=
  (c12_step_spec _ (fun _ h => absurd h (by simp [GState.fresh])) _).2.1

/-- both sides of the dynamic switch -/
example : (⟨List.replicate 100 (0, 0), List.replicate 100 (1, 0), ⟨.pos, .pos⟩, [0]⟩ : GScores).samplingMethod
    ⟨.dynamic, .byLabel, false⟩ = .singlePass := by decide +kernel
example : (⟨List.replicate 99 (0, 0), List.replicate 100 (1, 0), ⟨.pos, .pos⟩, [0]⟩ : GScores).samplingMethod
    ⟨.dynamic, .none, false⟩ = .replacement := by decide +kernel

end SA
